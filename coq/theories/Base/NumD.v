(** * NumD: software binary floating point with a [prec]-bit mantissa (mantissa truncated toward
    -infinity), for running long chains of linear solves where exact rationals blow up.
    Comparisons are exact.  A value is  dm * 2^de.  Relative rounding error per operation <= 2^(1-prec).
    Mantissa and exponent are Bignums [bigZ] (machine-word arithmetic under vm_compute). *)
From Coq Require Import ZArith QArith Qreduction List.
From Bignums Require Import BigZ.
From Dadi Require Import Base.Num Base.NumQ.

Record D := mkD { dm : bigZ; de : bigZ }.
Local Open Scope bigZ_scope.
Definition prec : bigZ := 128.
Definition b0 : bigZ := 0.
Definition b1 : bigZ := 1.
Definition b2 : bigZ := 2.
Definition b4 : bigZ := 4.

Definition bbits (m : bigZ) : bigZ := BigZ.log2 (BigZ.abs m) + b1.
Definition biszero (m : bigZ) : bool := BigZ.eqb m b0.
Definition bmin (x y : bigZ) : bigZ := if BigZ.leb x y then x else y.

Definition Dnorm (m e : bigZ) : D :=
  if biszero m then mkD b0 b0
  else let b := bbits m in
       if BigZ.ltb prec b then let s := b - prec in mkD (BigZ.shiftr m s) (e + s) else mkD m e.
Definition Dadd (x y : D) : D :=
  if biszero (dm x) then y else if biszero (dm y) then x else
    let bx := bbits (dm x) + de x in
    let byy := bbits (dm y) + de y in
    if BigZ.ltb (b2 * prec + b4) (bx - byy) then x
    else if BigZ.ltb (b2 * prec + b4) (byy - bx) then y
    else let e := bmin (de x) (de y) in
         Dnorm (BigZ.shiftl (dm x) (de x - e) + BigZ.shiftl (dm y) (de y - e)) e.
Definition Dopp (x : D) : D := mkD (- dm x) (de x).
Definition Dsub (x y : D) : D := Dadd x (Dopp y).
Definition Dmul (x y : D) : D := Dnorm (dm x * dm y) (de x + de y).
Definition Ddiv (x y : D) : D :=
  if biszero (dm y) then mkD b0 b0
  else let s := prec + bbits (dm y) + b2 in
       Dnorm (BigZ.div (BigZ.shiftl (dm x) s) (dm y)) (de x - de y - s).
(** exact sign of x - y *)
Definition bsgn (m : bigZ) : comparison := BigZ.compare m b0.
Definition Dcmp (x y : D) : comparison :=
  if biszero (dm x) then BigZ.compare b0 (dm y)
  else if biszero (dm y) then BigZ.compare (dm x) b0
  else match bsgn (dm x), bsgn (dm y) with
       | Gt, Lt => Gt
       | Lt, Gt => Lt
       | sx, _ =>
         let bx := bbits (dm x) + de x in
         let byy := bbits (dm y) + de y in
         if BigZ.ltb (byy + b1) bx then (match sx with Gt => Gt | _ => Lt end)
         else if BigZ.ltb (bx + b1) byy then (match sx with Gt => Lt | _ => Gt end)
         else let e := bmin (de x) (de y) in
              BigZ.compare (BigZ.shiftl (dm x) (de x - e)) (BigZ.shiftl (dm y) (de y - e))
       end.
Definition Dleb (x y : D) : bool := match Dcmp x y with Gt => false | _ => true end.
Definition Deqb (x y : D) : bool := match Dcmp x y with Eq => true | _ => false end.
Local Close Scope bigZ_scope.
Local Open Scope Z_scope.

Definition D2Q (x : D) : Q :=
  let m := BigZ.to_Z (dm x) in let e := BigZ.to_Z (de x) in
  if 0 <=? e then inject_Z (m * 2 ^ e) else Qred (m # Z.to_pos (2 ^ (- e))).
Definition Q2D (x : Q) : D :=
  let d := Zpos (Qden x) in
  (* exact when the denominator is a power of two *)
  let k := Z.log2 d in
  if Z.eqb d (2 ^ k) then Dnorm (BigZ.of_Z (Qnum x)) (BigZ.of_Z (- k))
  else let s := BigZ.to_Z prec + k + 2 in Dnorm (BigZ.of_Z (Z.shiftl (Qnum x) s / d)) (BigZ.of_Z (- s)).
Definition DofZ (z : Z) : D := Dnorm (BigZ.of_Z z) b0.
(** a float64 given as (mantissa, binary exponent) *)
Definition ZZ2D (p : Z * Z) : D := Dnorm (BigZ.of_Z (fst p)) (BigZ.of_Z (snd p)).

#[global] Instance NumD : Num D := {
  n0 := mkD b0 b0; n1 := mkD b1 b0;
  nadd := Dadd; nsub := Dsub; nmul := Dmul; ndiv := Ddiv;
  nopp := Dopp;
  nleb := Dleb; neqb := Deqb;
  nofZ := DofZ;
  nexp := fun x => Q2D (Qexp (D2Q x)); nln := fun x => Q2D (Qln (D2Q x))
}.

(** comparison of a model result with the implementation's values, entirely in D *)
Definition Dabs (x : D) : D := mkD (BigZ.abs (dm x)) (de x).
Definition Dmaxl (l : list D) : D := fold_right (fun x m => if Dleb m x then x else m) (mkD b0 b0) l.
Fixpoint Dmaxdiff (a b : list D) : D :=
  match a, b with
  | nil, nil => mkD b0 b0
  | cons x a', cons y b' => let d := Dabs (Dsub x y) in let r := Dmaxdiff a' b' in if Dleb r d then d else r
  | _, _ => mkD b1 (BigZ.of_Z 100)
  end.
Definition Dlog2 (x : D) : Z := if biszero (dm x) then (-10000) else BigZ.to_Z (bbits (dm x) + de x) - 1.
Definition Dlists_close (tol : Q) (a b : list D) : bool * Z :=
  let s := Dmaxl (cons (Dmaxl (map Dabs a)) (cons (Dmaxl (map Dabs b)) nil)) in
  let s := if biszero (dm s) then mkD b1 b0 else s in
  let d := Dmaxdiff a b in
  (Dleb d (Dmul (Q2D tol) s) && Nat.eqb (length a) (length b), Dlog2 (Ddiv d s)).
