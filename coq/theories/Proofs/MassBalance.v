(** One implicit step along a line conserves the trapezoid mass, except for the outflow terms that
    exist only on the all-zero / all-one corner lines (C04), by telescoping of the fluxes. *)
From Coq Require Import Reals List Lra Lia Arith Bool.
From Dadi Require Import Base.Num Base.NumR Model.Tridiag Model.Scheme Proofs.TridiagProofs Proofs.SchemeProofs Proofs.SumLemmas.
Import ListNotations.
Local Open Scope R_scope.
Ltac numR' := unfold nhalf, Scheme.n4 in *; numR_all; unfold n2 in *; numR.

Section Mass.
  Variable xs : list R.
  Variable Vf Mf : R -> R.
  Variable nu : R.
  Variable c0 c1 : bool.
  Variable dt : R.
  Variable use_delj : bool.
  Notation N := (length xs).
  Hypothesis HN : (2 <= N)%nat.
  Hypothesis Hdx : forall i, (i < N - 1)%nat -> 0 < dx xs i.      (* strictly increasing grid *)
  Hypothesis Hdt : dt <> 0.

  Lemma trapz_rsum (ys : list R) : trapz xs ys = rsum N (fun i => trap_w xs i * nthF ys i).
  Proof. reflexivity. Qed.

  (** dfactor is the reciprocal trapezoid weight *)
  Lemma w_dfactor i : (i < N)%nat -> trap_w xs i * dfactor xs i = 1.
  Proof.
    intros Hi. unfold trap_w, dfactor. fold (Scheme.N xs). unfold Scheme.N. numR'.
    destruct (Nat.eqb_spec i 0) as [E0|E0].
    - pose proof (Hdx 0%nat ltac:(lia)). field. lra.
    - destruct (Nat.eqb_spec i (N - 1)) as [E1|E1].
      + pose proof (Hdx (N - 2)%nat ltac:(lia)). field. lra.
      + pose proof (Hdx i ltac:(lia)). pose proof (Hdx (i - 1)%nat ltac:(lia)). field. lra.
  Qed.

  (** outflow coefficients: what leaves per unit density at the first / last grid point *)
  Definition out0 : R := trap_w xs 0 * bc0 xs Mf nu c0.
  Definition out1 : R := trap_w xs (N - 1) * bc1 xs Mf nu c1.

  Lemma out0_value : out0 = if c0 && Rleb (Mf (x xs 0)) 0 then 1 / 2 / nu - Mf (x xs 0) else 0.
  Proof.
    unfold out0, bc0, trap_w. cbn [Nat.eqb]. numR'.
    pose proof (Hdx 0%nat ltac:(lia)).
    replace (1 / 2 / nu) with (1 / (1 + 1) / nu) by (replace 2 with (1 + 1) by lra; reflexivity).
    generalize (1 / (1 + 1) / nu). intros Y.
    destruct (c0 && Rleb (Mf (x xs 0)) 0); [field; lra | ring].
  Qed.
  Lemma out1_value : out1 = if c1 && Rleb 0 (Mf (x xs (N - 1))) then 1 / 2 / nu + Mf (x xs (N - 1)) else 0.
  Proof.
    unfold out1, bc1, trap_w. fold (Scheme.N xs). unfold Scheme.N. numR'.
    destruct (Nat.eqb_spec (N - 1) 0) as [E|E]; [lia|]. rewrite Nat.eqb_refl.
    pose proof (Hdx (N - 2)%nat ltac:(lia)).
    replace (1 / 2 / nu) with (1 / (1 + 1) / nu) by (replace 2 with (1 + 1) by lra; reflexivity).
    generalize (1 / (1 + 1) / nu). intros Y.
    destruct (c1 && Rleb 0 (Mf (x xs (N - 1)))); [field; lra | ring].
  Qed.
  (** no outflow at all away from the corner lines *)
  Lemma no_outflow_off_corner : c0 = false -> c1 = false -> out0 = 0 /\ out1 = 0.
  Proof. intros H0 H1. rewrite out0_value, out1_value, H0, H1. cbn [andb]. split; reflexivity. Qed.

  Theorem line_mass_balance (phi : list R) :
    nonzero (all_pivots (line_rows xs Vf Mf nu c0 c1 dt use_delj phi)) ->
    let u := line_solve xs Vf Mf nu c0 c1 dt use_delj phi in
    trapz xs phi = trapz xs u + dt * (out0 * nthF u 0 + out1 * nthF u (N - 1)).
  Proof.
    intros Hp u.
    destruct (line_solve_solves xs Vf Mf nu c0 c1 dt use_delj HN phi Hp) as [Hlen Heq]. fold u in Hlen, Heq.
    rewrite !trapz_rsum.
    set (G := fun i => if (Nat.ltb 0 i && Nat.ltb i N)%bool then flux xs Vf Mf use_delj (nthF u) (i - 1) else 0).
    (* per point: w phi = w u + dt (G(i+1) - G i) + dt w bcterm u *)
    assert (Hpt : forall i, (i < N)%nat ->
      trap_w xs i * nthF phi i =
      trap_w xs i * nthF u i + dt * (G (S i) - G i) + dt * (trap_w xs i * bcterm xs Mf nu c0 c1 i * nthF u i)).
    { intros i Hi. specialize (Heq i Hi).
      assert (Hphi : nthF phi i = dt * (nthF phi i / dt)) by (field; exact Hdt).
      rewrite Hphi, <- Heq.
      assert (HFR : fluxR xs Vf Mf use_delj (nthF u) i = G (S i)).
      { unfold fluxR, G. replace (S i - 1)%nat with i by lia.
        destruct (Nat.ltb_spec i (N - 1)); destruct (Nat.ltb_spec 0 (S i)); destruct (Nat.ltb_spec (S i) N); try lia; reflexivity. }
      assert (HFL : fluxL xs Vf Mf use_delj (nthF u) i = G i).
      { unfold fluxL, G. destruct (Nat.ltb_spec 0 i); destruct (Nat.ltb_spec i N); try lia; reflexivity. }
      rewrite HFR, HFL.
      transitivity (trap_w xs i * nthF u i + dt * ((trap_w xs i * dfactor xs i) * (G (S i) - G i))
                    + dt * (trap_w xs i * bcterm xs Mf nu c0 c1 i * nthF u i)); [field; exact Hdt|].
      rewrite (w_dfactor i Hi). ring. }
    rewrite (rsum_ext N _ _ Hpt). rewrite !rsum_add, !rsum_scal, rsum_telescope.
    assert (HG : G N - G 0%nat = 0).
    { unfold G. rewrite Nat.ltb_irrefl, andb_false_r. cbn. lra. }
    rewrite HG.
    (* boundary terms *)
    assert (Hb : rsum N (fun i => trap_w xs i * bcterm xs Mf nu c0 c1 i * nthF u i) = out0 * nthF u 0 + out1 * nthF u (N - 1)).
    { transitivity (rsum N (fun i => (if Nat.eqb i 0 then out0 * nthF u 0 else 0) + (if Nat.eqb i (N - 1) then out1 * nthF u (N - 1) else 0))).
      - apply rsum_ext. intros i Hi. unfold bcterm, out0, out1.
        destruct (Nat.eqb_spec i 0) as [E0|E0]; destruct (Nat.eqb_spec i (N - 1)) as [E1|E1]; try lia;
          try (rewrite E0); try (rewrite E1); ring.
      - rewrite rsum_add. f_equal.
        + rewrite (rsum_single N _ 0%nat); [reflexivity | lia |].
          intros i Hi Hne. destruct (Nat.eqb_spec i 0); [lia|reflexivity].
        + rewrite (rsum_single N _ (N - 1)%nat); [rewrite Nat.eqb_refl; reflexivity | lia |].
          intros i Hi Hne. destruct (Nat.eqb_spec i (N - 1)); [lia|reflexivity]. }
    rewrite Hb. ring.
  Qed.

  (** away from the two corner lines the step conserves the trapezoid mass of the line exactly *)
  Corollary line_mass_conserved_off_corner (phi : list R) :
    c0 = false -> c1 = false ->
    nonzero (all_pivots (line_rows xs Vf Mf nu c0 c1 dt use_delj phi)) ->
    trapz xs (line_solve xs Vf Mf nu c0 c1 dt use_delj phi) = trapz xs phi.
  Proof.
    intros H0 H1 Hp. rewrite (line_mass_balance phi Hp).
    destruct (no_outflow_off_corner H0 H1) as [-> ->]. ring.
  Qed.
End Mass.
