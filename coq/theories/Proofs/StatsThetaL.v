(** C13, statistics: theta_L computed from the spectrum of a fully called genotype count matrix
    (numpy.sum(numpy.arange(1,n)*self[1:n])/(n-1)) equals the same statistic computed SNP by SNP:
    a segregating SNP with k derived alleles among n contributes k/(n-1). *)
From Coq Require Import String ZArith Reals List Lra Lia Bool Arith Permutation.
From Dadi Require Import Base.Num Base.NumR Model.Projection Model.Fold Model.DataDict Model.Stats
  Proofs.ProjBase Proofs.ProjH Proofs.FoldAbs Proofs.FoldND Proofs.DataDictSpec Proofs.StatsProofs.
Import ListNotations.
Local Open Scope R_scope.

Lemma nth_skipn_add {A} (d : A) : forall k (l : list A) i, nth i (skipn k l) d = nth (k + i) l d.
Proof. induction k; intros l i; [reflexivity|]. destruct l; cbn [skipn Nat.add nth]; [destruct i; reflexivity|]. apply IHk. Qed.

Lemma nth_firstn_lt {A} (d : A) : forall k (l : list A) i, (i < k)%nat -> nth i (firstn k l) d = nth i l d.
Proof. induction k; intros l i Hi; [lia|]. destruct l; cbn [firstn nth]; [reflexivity|]. destruct i; [reflexivity|]. apply IHk. lia. Qed.

Lemma firstn_skipn_length {A} (l : list A) k n : length l = S n -> (k <= n)%nat -> length (firstn k (skipn 1 l)) = k.
Proof. intros L Hk. rewrite firstn_length, skipn_length. lia. Qed.

(** a sum whose two end terms vanish is the shifted sum over the interior *)
Lemma rsum_shift1 f m : rsum f (S m) = f 0%nat + rsum (fun i => f (S i)) m.
Proof. induction m; [cbn; lra|]. change (rsum f (S (S m))) with (rsum f (S m) + f (S m)). rewrite IHm. cbn [rsum]. lra. Qed.

Lemma rsum_interior f n : (1 <= n)%nat -> f 0%nat = 0 -> f n = 0 ->
  rsum f (n + 1) = rsum (fun i => f (1 + i)%nat) (n - 1).
Proof. intros Hn E0 En. replace (n + 1)%nat with (S (S (n - 1))) by lia.
  change (rsum f (S (S (n - 1)))) with (rsum f (S (n - 1)) + f (S (n - 1))).
  replace (S (n - 1)) with n at 2 by lia. rewrite En, rsum_shift1, E0. cbn [Nat.add]. lra. Qed.

Lemma corner_mask_1d_ends n : nth 0 (corner_mask [n]) false = true /\ nth n (corner_mask [n]) false = true.
Proof.
  assert (R0 : row_ok [n] [0%nat]) by (repeat constructor; lia).
  assert (Rn : row_ok [n] [n]) by (repeat constructor; lia).
  pose proof (corner_mask_nth [n] [0%nat] R0) as E0. pose proof (corner_mask_nth [n] [n] Rn) as En.
  assert (H0 : ravel (map S [n]) [0%nat] = 0%nat) by (cbn; lia).
  assert (Hn : ravel (map S [n]) [n] = n) by (cbn; lia).
  rewrite H0 in E0. rewrite Hn in En. rewrite E0, En.
  unfold segregating, all_zero, all_full. cbn [forallb Nat.eqb]. rewrite Nat.eqb_refl. cbn. rewrite andb_false_r. auto. Qed.

(** numerator of theta_L as a sum over the segregating SNPs of the derived-allele count *)
Lemma thetaL_numerator n rows : Forall (row_ok [n]) rows ->
  msum (F:=R) (firstn (n - 1) (skipn 1 (corner_mask [n])))
       (map2 nmul (map nofnat (seq 1 (n - 1))) (firstn (n - 1) (skipn 1 (sfs_of_rows (F:=R) [n] rows))))
  = lsum (fun row => if segregating [n] row then INR (hd 0%nat row) else 0) rows.
Proof. intros F. destruct (sfs_get [n] rows) as [L _].
  assert (Ls : size (map S [n]) = S n) by (cbn; lia). rewrite Ls in L.
  pose proof (corner_mask_length [n]) as Lm. rewrite Ls in Lm.
  assert (Lx : length (firstn (n - 1) (skipn 1 (sfs_of_rows (F:=R) [n] rows))) = (n - 1)%nat)
    by (apply (firstn_skipn_length _ _ n); [assumption|lia]).
  assert (Lk : length (firstn (n - 1) (skipn 1 (corner_mask [n]))) = (n - 1)%nat)
    by (apply (firstn_skipn_length _ _ n); [assumption|lia]).
  assert (Lw : length (map (nofnat (F:=R)) (seq 1 (n - 1))) = (n - 1)%nat) by (rewrite map_length, seq_length; reflexivity).
  rewrite msum_rsum by (rewrite map2_length; congruence). rewrite map2_length, Lw by congruence.
  (* the target as a masked sum over the n+1 entries *)
  transitivity (rsum (fun i => if nth i (corner_mask [n]) false then 0 else get (sfs_of_rows (F:=R) [n] rows) i * INR i)
                     (size (map S [n]))).
  - rewrite Ls. destruct (corner_mask_1d_ends n) as [E0 En].
    destruct n as [|n'].
    + cbn [Nat.sub rsum]. rewrite E0. lra.
    + replace (S (S n')) with (S n' + 1)%nat by lia. rewrite rsum_interior by (try lia; try rewrite E0; try rewrite En; reflexivity).
      apply rsum_ext. intros i Hi. rewrite nth_firstn_lt, nth_skipn_add by assumption.
      destruct (nth (1 + i) (corner_mask [S n']) false); [reflexivity|].
      unfold get. rewrite (nth_map2 _ 0 0) by (try rewrite Lw, Lx; lia).
      rewrite nth_firstn_lt, nth_skipn_add by assumption.
      rewrite (nth_map_seq _ 1 (S n' - 1) i 0 Hi). unfold nofnat. numR. rewrite <- INR_IZR_INZ. lra.
  - rewrite masked_sum_over_snps by assumption. apply lsum_ext. intros row Hin. cbv zeta.
    rewrite Forall_forall in F. pose proof (F row Hin) as Hrow. rewrite corner_mask_nth by assumption.
    inversion Hrow as [|? i ? q Hi Hq]; subst. inversion Hq; subst. cbn [hd].
    assert (Hr : ravel (map S [n]) [i] = i) by (cbn; lia). rewrite Hr.
    destruct (segregating [n] [i]); reflexivity. Qed.

Theorem thetaL_from_sfs_matches_direct : forall n rows, Forall (row_ok [n]) rows ->
  stat_thetaL (F:=R) n (sfs_of_rows [n] rows) (corner_mask [n]) = direct_thetaL n rows.
Proof. intros n rows F. unfold stat_thetaL, direct_thetaL. rewrite thetaL_numerator by assumption.
  rewrite seg_sum_lsum. f_equal. apply lsum_ext. intros row _. destruct (segregating [n] row); [|reflexivity].
  unfold nofnat. numR. rewrite <- INR_IZR_INZ. reflexivity. Qed.

(** ... and the direct statistic is the sum over the segregating SNPs of k/(n-1), k the derived-allele count *)
Theorem direct_thetaL_per_snp : forall n rows, (2 <= n)%nat ->
  direct_thetaL (F:=R) n rows
  = lsum (fun row => if segregating [n] row then INR (hd 0%nat row) / (INR n - 1) else 0) rows.
Proof. intros n rows Hn. unfold direct_thetaL. rewrite seg_sum_lsum.
  assert (Hn1 : INR n - 1 <> 0) by (pose proof (le_INR 2 n Hn) as H2; cbn in H2; lra).
  unfold nofnat. numR. rewrite <- INR_IZR_INZ.
  induction rows as [|row rows IH]; cbn [lsum]; [field; assumption|].
  rewrite <- IH. destruct (segregating [n] row); [rewrite <- INR_IZR_INZ|]; field; assumption. Qed.

Theorem thetaL_from_sfs_per_snp : forall n rows, (2 <= n)%nat -> Forall (row_ok [n]) rows ->
  stat_thetaL (F:=R) n (sfs_of_rows [n] rows) (corner_mask [n])
  = lsum (fun row => if segregating [n] row then INR (hd 0%nat row) / (INR n - 1) else 0) rows.
Proof. intros n rows Hn F. rewrite thetaL_from_sfs_matches_direct by assumption. apply direct_thetaL_per_snp. assumption. Qed.
