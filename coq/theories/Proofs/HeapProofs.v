(** C20 — the copy protocol frames the caller's array; the in-place protocol aliases it. *)
From Coq Require Import List Arith Bool Lia.
From Dadi Require Import Model.Heap.
Import ListNotations.

Section HeapProofs.
  Variable V : Type.
  Variable d : V.
  Notation heap := (heap V).
  Notation buffer := (buffer V).

  Lemma length_write : forall (h : heap) p b, length (write h p b) = length h.
  Proof. induction h as [|x h IH]; intros [|p] b; simpl; auto. Qed.

  Lemma read_write_same : forall (h : heap) p b, p < length h -> read (write h p b) p = b.
  Proof.
    unfold read. induction h as [|x h IH]; intros [|p] b L; simpl in *; try lia; [reflexivity|].
    apply IH. lia.
  Qed.

  Lemma read_write_other : forall (h : heap) p q b, p <> q -> read (write h p b) q = read h q.
  Proof.
    unfold read. induction h as [|x h IH]; intros [|p] [|q] b N; simpl; auto; try congruence.
  Qed.

  Lemma write_read_id : forall (h : heap) p, write h p (read h p) = h.
  Proof.
    unfold read. induction h as [|x h IH]; intros [|p]; simpl; auto. now rewrite IH.
  Qed.

  Lemma write_write : forall (h : heap) p b1 b2, write (write h p b1) p b2 = write h p b2.
  Proof. induction h as [|x h IH]; intros [|p] b1 b2; simpl; auto. now rewrite IH. Qed.

  Lemma read_alloc_old : forall (h : heap) b a, a < length h -> read (fst (alloc h b)) a = read h a.
  Proof. intros h b a L. unfold alloc, read. simpl. now apply app_nth1. Qed.

  Lemma read_alloc_new : forall (h : heap) b, read (fst (alloc h b)) (snd (alloc h b)) = b.
  Proof. intros h b. unfold alloc, read. simpl. rewrite app_nth2; [|lia]. now rewrite Nat.sub_diag. Qed.

  Variable kern : buffer -> buffer.

  (** copy protocol: every array that existed before the call is bit-for-bit what it was (in particular the argument),
      the result lives at an address that did not exist (so it aliases nothing), and holds kern(argument) *)
  Theorem copy_protocol_frames_input : forall (h : heap) p, p < length h ->
    let (h', q) := integ_copy kern h p in
    (forall a, a < length h -> read h' a = read h a) /\ q = length h /\ q <> p /\ read h' q = kern (read h p).
  Proof.
    intros h p L. unfold integ_copy. simpl.
    assert (Lq : length h < length (h ++ [read h p])) by (rewrite app_length; simpl; lia).
    repeat split.
    - intros a La. rewrite read_write_other by lia. unfold read. now apply app_nth1.
    - lia.
    - rewrite read_write_same by exact Lq. f_equal. unfold read. rewrite app_nth2; [|lia]. now rewrite Nat.sub_diag.
  Qed.

  (** in-place protocol: the result IS the argument, and the argument now holds kern(argument) *)
  Theorem inplace_protocol_aliases : forall (h : heap) p, p < length h ->
    let (h', q) := integ_inplace kern h p in
    q = p /\ read h' p = kern (read h p) /\ (forall a, a <> p -> read h' a = read h a).
  Proof.
    intros h p L. unfold integ_inplace. repeat split.
    - now apply read_write_same.
    - intros a N. apply read_write_other. congruence.
  Qed.

  (** both protocols return the same VALUE: adding the copy changes no result *)
  Theorem protocols_same_value : forall (h : heap) p, p < length h ->
    read (fst (integ_copy kern h p)) (snd (integ_copy kern h p)) =
    read (fst (integ_inplace kern h p)) (snd (integ_inplace kern h p)).
  Proof.
    intros h p L.
    pose proof (copy_protocol_frames_input h p L) as C. pose proof (inplace_protocol_aliases h p L) as I.
    destruct (integ_copy kern h p) as [h1 q1]. destruct (integ_inplace kern h p) as [h2 q2]. simpl.
    destruct C as [_ [_ [_ C]]]. destruct I as [-> [I _]]. congruence.
  Qed.

  (** the general entry (with the T == 0 early return): a protocol that copies first always frames and never aliases *)
  Theorem copying_integrator_frames : forall pr tzero (h : heap) p, copies_at_entry pr = true -> p < length h ->
    let (h', q) := integrate kern pr tzero h p in
    (forall a, a < length h -> read h' a = read h a) /\ q = length h /\ q <> p.
  Proof.
    intros pr tzero h p C L. unfold integrate. rewrite C. destruct tzero.
    - simpl. repeat split; [|lia]. intros a La. unfold read. now apply app_nth1.
    - pose proof (copy_protocol_frames_input h p L) as F. destruct (integ_copy kern h p) as [h' q]. tauto.
  Qed.

  (** ... and one that returns before copying hands the caller's own array back at T == 0 *)
  Theorem early_return_aliases : forall (h : heap) p, integrate kern (inplace_protocol) true h p = (h, p).
  Proof. reflexivity. Qed.

  (** layout: with the copy protocol the result depends on the LOGICAL content of the argument only *)
  Theorem copy_protocol_layout_independent : forall (h1 h2 : heap) v1 v2,
    logical d h1 v1 = logical d h2 v2 ->
    logical d (fst (integ_copy_view d kern h1 v1)) (snd (integ_copy_view d kern h1 v1)) =
    logical d (fst (integ_copy_view d kern h2 v2)) (snd (integ_copy_view d kern h2 v2)).
  Proof.
    intros h1 h2 v1 v2 E.
    assert (Len : length (v_idx v1) = length (v_idx v2)).
    { apply (f_equal (@length V)) in E. unfold logical in E. now rewrite !map_length in E. }
    assert (R1 : forall (h : heap) b, read (write (h ++ [b]) (length h) (kern (read (h ++ [b]) (length h)))) (length h) = kern b).
    { intros h b. rewrite read_write_same by (rewrite app_length; simpl; lia).
      f_equal. unfold read. rewrite app_nth2; [|lia]. now rewrite Nat.sub_diag. }
    unfold integ_copy_view, alloc. cbn [fst snd]. unfold contiguous.
    set (L1 := logical d h1 v1) in *. set (L2 := logical d h2 v2) in *.
    unfold logical. cbn [v_base v_idx]. rewrite !R1, Len, E. reflexivity.
  Qed.

  Theorem copy_view_frames_input : forall (h : heap) v a, a < length h ->
    read (fst (integ_copy_view d kern h v)) a = read h a.
  Proof.
    intros h v a L. unfold integ_copy_view. simpl. rewrite read_write_other by lia. unfold read. now apply app_nth1.
  Qed.

  (** Spectrum.S(): save, mutate, observe, restore leaves the heap exactly as it was *)
  Theorem save_mutate_restore_frames : forall (R : Type) (mutate : buffer -> buffer) (observe : heap -> R) (h : heap) p,
    fst (save_mutate_restore mutate observe h p) = h.
  Proof. intros. unfold save_mutate_restore. simpl. rewrite write_write. apply write_read_id. Qed.
End HeapProofs.

(** the in-place protocol violates "argument unchanged, result fresh" *)
Theorem inplace_protocol_aliases_refuted :
  exists (kern : list nat -> list nat) (h : heap nat) (p : nat), p < length h /\
    let (h', q) := integ_inplace kern h p in q = p /\ read h' p <> read h p.
Proof. exists (map S), [[1]], 0. simpl. split; [lia|]. split; [reflexivity|]. discriminate. Qed.

(** a kernel handed the data pointer of a transposed view transforms the raw memory: two arguments with the same
    logical content give different results *)
Definition axis_kernel (l : list nat) : list nat :=
  match l with [a; b] => [a; a + b] | _ => l end.

Theorem inplace_protocol_layout_refuted :
  exists (kern : list nat -> list nat) (h : heap nat) (v1 v2 : view),
    logical 0 h v1 = logical 0 h v2 /\
    logical 0 (fst (integ_inplace_view kern h v1)) (snd (integ_inplace_view kern h v1)) <>
    logical 0 (fst (integ_inplace_view kern h v2)) (snd (integ_inplace_view kern h v2)).
Proof.
  exists axis_kernel, [[2; 1]; [1; 2]], (contiguous 0 2), {| v_base := 1; v_idx := [1; 0] |}.
  split; [reflexivity|]. vm_compute. discriminate.
Qed.
