(** C20 — the copy protocol frames the caller's array; the in-place protocol aliases it. *)
From Coq Require Import List Arith Bool Lia.
From Dadi Require Import Model.Heap.
Import ListNotations.

Section HeapProofs.
  Variable V : Type.
  Variable d : V.
  Notation heap := (heap V).
  Notation buffer := (buffer V).

  Lemma length_write : forall (h : heap) p b, length (write h p b) = length h.
  Proof. induction h as [|x h IH]; intros [|p] b; simpl; auto. Qed.

  Lemma read_write_same : forall (h : heap) p b, p < length h -> read (write h p b) p = b.
  Proof.
    unfold read. induction h as [|x h IH]; intros [|p] b L; simpl in *; try lia; [reflexivity|].
    apply IH. lia.
  Qed.

  Lemma read_write_other : forall (h : heap) p q b, p <> q -> read (write h p b) q = read h q.
  Proof.
    unfold read. induction h as [|x h IH]; intros [|p] [|q] b N; simpl; auto; try congruence.
  Qed.

  Lemma write_read_id : forall (h : heap) p, write h p (read h p) = h.
  Proof.
    unfold read. induction h as [|x h IH]; intros [|p]; simpl; auto. now rewrite IH.
  Qed.

  Lemma write_write : forall (h : heap) p b1 b2, write (write h p b1) p b2 = write h p b2.
  Proof. induction h as [|x h IH]; intros [|p] b1 b2; simpl; auto. now rewrite IH. Qed.

  Lemma read_alloc_old : forall (h : heap) b a, a < length h -> read (fst (alloc h b)) a = read h a.
  Proof. intros h b a L. unfold alloc, read. simpl. now apply app_nth1. Qed.

  Lemma read_alloc_new : forall (h : heap) b, read (fst (alloc h b)) (snd (alloc h b)) = b.
  Proof. intros h b. unfold alloc, read. simpl. rewrite app_nth2; [|lia]. now rewrite Nat.sub_diag. Qed.

  Variable kern : buffer -> buffer.

  (** copy protocol: every array that existed before the call is bit-for-bit what it was (in particular the argument),
      the result lives at an address that did not exist (so it aliases nothing), and holds kern(argument) *)
  Theorem copy_protocol_frames_input : forall (h : heap) p, p < length h ->
    let (h', q) := integ_copy kern h p in
    (forall a, a < length h -> read h' a = read h a) /\ q = length h /\ q <> p /\ read h' q = kern (read h p).
  Proof.
    intros h p L. unfold integ_copy. simpl.
    assert (Lq : length h < length (h ++ [read h p])) by (rewrite app_length; simpl; lia).
    repeat split.
    - intros a La. rewrite read_write_other by lia. unfold read. now apply app_nth1.
    - lia.
    - rewrite read_write_same by exact Lq. f_equal. unfold read. rewrite app_nth2; [|lia]. now rewrite Nat.sub_diag.
  Qed.

  (** in-place protocol: the result IS the argument, and the argument now holds kern(argument) *)
  Theorem inplace_protocol_aliases : forall (h : heap) p, p < length h ->
    let (h', q) := integ_inplace kern h p in
    q = p /\ read h' p = kern (read h p) /\ (forall a, a <> p -> read h' a = read h a).
  Proof.
    intros h p L. unfold integ_inplace. repeat split.
    - now apply read_write_same.
    - intros a N. apply read_write_other. congruence.
  Qed.

  (** both protocols return the same VALUE: adding the copy changes no result *)
  Theorem protocols_same_value : forall (h : heap) p, p < length h ->
    read (fst (integ_copy kern h p)) (snd (integ_copy kern h p)) =
    read (fst (integ_inplace kern h p)) (snd (integ_inplace kern h p)).
  Proof.
    intros h p L.
    pose proof (copy_protocol_frames_input h p L) as C. pose proof (inplace_protocol_aliases h p L) as I.
    destruct (integ_copy kern h p) as [h1 q1]. destruct (integ_inplace kern h p) as [h2 q2]. simpl.
    destruct C as [_ [_ [_ C]]]. destruct I as [-> [I _]]. congruence.
  Qed.

  (** the general entry (with the T == 0 early return): a protocol that copies first always frames and never aliases *)
  Theorem copying_integrator_frames : forall pr tzero (h : heap) p, copies_at_entry pr = true -> p < length h ->
    let (h', q) := integrate kern pr tzero h p in
    (forall a, a < length h -> read h' a = read h a) /\ q = length h /\ q <> p.
  Proof.
    intros pr tzero h p C L. unfold integrate. rewrite C. destruct tzero.
    - simpl. repeat split; [|lia]. intros a La. unfold read. now apply app_nth1.
    - pose proof (copy_protocol_frames_input h p L) as F. destruct (integ_copy kern h p) as [h' q]. tauto.
  Qed.

  (** ... and one that returns before copying hands the caller's own array back at T == 0 *)
  Theorem early_return_aliases : forall (h : heap) p, integrate kern (inplace_protocol) true h p = (h, p).
  Proof. reflexivity. Qed.

  (** layout: with the copy protocol the result depends on the LOGICAL content of the argument only *)
  Theorem copy_protocol_layout_independent : forall (h1 h2 : heap) v1 v2,
    logical d h1 v1 = logical d h2 v2 ->
    logical d (fst (integ_copy_view d kern h1 v1)) (snd (integ_copy_view d kern h1 v1)) =
    logical d (fst (integ_copy_view d kern h2 v2)) (snd (integ_copy_view d kern h2 v2)).
  Proof.
    intros h1 h2 v1 v2 E.
    assert (Len : length (v_idx v1) = length (v_idx v2)).
    { apply (f_equal (@length V)) in E. unfold logical in E. now rewrite !map_length in E. }
    assert (R1 : forall (h : heap) b, read (write (h ++ [b]) (length h) (kern (read (h ++ [b]) (length h)))) (length h) = kern b).
    { intros h b. rewrite read_write_same by (rewrite app_length; simpl; lia).
      f_equal. unfold read. rewrite app_nth2; [|lia]. now rewrite Nat.sub_diag. }
    unfold integ_copy_view, alloc. cbn [fst snd]. unfold contiguous.
    set (L1 := logical d h1 v1) in *. set (L2 := logical d h2 v2) in *.
    unfold logical. cbn [v_base v_idx]. rewrite !R1, Len, E. reflexivity.
  Qed.

  Theorem copy_view_frames_input : forall (h : heap) v a, a < length h ->
    read (fst (integ_copy_view d kern h v)) a = read h a.
  Proof.
    intros h v a L. unfold integ_copy_view. simpl. rewrite read_write_other by lia. unfold read. now apply app_nth1.
  Qed.

  (** Spectrum.S(): save, mutate, observe, restore leaves the heap exactly as it was *)
  Theorem save_mutate_restore_frames : forall (R : Type) (mutate : buffer -> buffer) (observe : heap -> R) (h : heap) p,
    fst (save_mutate_restore mutate observe h p) = h.
  Proof. intros. unfold save_mutate_restore. simpl. rewrite write_write. apply write_read_id. Qed.

  (** ---- a Spectrum is a pair of buffers (data, mask): the arithmetic operators ---- *)
  Variable op : buffer -> buffer.

  Lemma read_app_old : forall (h : heap) l a, a < length h -> read (h ++ l) a = read h a.
  Proof. intros h l a L. unfold read. now apply app_nth1. Qed.

  Lemma read_app_new : forall (h : heap) b, read (h ++ [b]) (length h) = b.
  Proof. intros h b. unfold read. rewrite app_nth2; [|lia]. now rewrite Nat.sub_diag. Qed.

  (** the three allocations of the copying constructor, spelled out *)
  Lemma arith_copy_eq : forall (h : heap) s,
    arith_copy op h s =
    (((h ++ [op (read h (s_data s))]) ++ [read (h ++ [op (read h (s_data s))]) (length h)]) ++
       [read ((h ++ [op (read h (s_data s))]) ++ [read (h ++ [op (read h (s_data s))]) (length h)]) (s_mask s)],
     {| s_data := length (h ++ [op (read h (s_data s))]);
        s_mask := length ((h ++ [op (read h (s_data s))]) ++ [read (h ++ [op (read h (s_data s))]) (length h)]) |}).
  Proof. reflexivity. Qed.

  (** copy protocol on BOTH buffers: every array that existed before the call is bit-for-bit what it was; the result's data
      AND mask live at addresses that did not exist (so neither aliases anything, in particular not the operand's data or
      mask); they hold op(data) and a copy of the mask *)
  Theorem arith_copy_frames_both_buffers : forall (h : heap) s, s_data s < length h -> s_mask s < length h ->
    let (h', r) := arith_copy op h s in
    (forall a, a < length h -> read h' a = read h a) /\
    length h <= s_data r /\ length h <= s_mask r /\ s_data r <> s_mask r /\
    s_data r < length h' /\ s_mask r < length h' /\
    read h' (s_data r) = op (read h (s_data s)) /\ read h' (s_mask r) = read h (s_mask s).
  Proof.
    intros h s Ld Lm. rewrite arith_copy_eq. cbn [s_data s_mask].
    set (b1 := op (read h (s_data s))).
    set (h1 := h ++ [b1]).
    assert (L1 : length h1 = S (length h)) by (unfold h1; rewrite app_length; simpl; lia).
    set (h2 := h1 ++ [read h1 (length h)]).
    assert (L2 : length h2 = S (S (length h))) by (unfold h2; rewrite app_length; simpl; lia).
    set (h3 := h2 ++ [read h2 (s_mask s)]).
    assert (L3 : length h3 = S (S (S (length h)))) by (unfold h3; rewrite app_length; simpl; lia).
    assert (R1 : read h1 (length h) = b1) by (unfold h1; apply read_app_new).
    repeat split; try lia.
    - intros a La. unfold h3, h2, h1. rewrite !read_app_old; try (rewrite ?app_length; simpl; lia). reflexivity.
    - unfold h3. rewrite read_app_old by lia. unfold h2. rewrite L1. rewrite <- L1. rewrite read_app_new. exact R1.
    - unfold h3. rewrite L2. rewrite <- L2. rewrite read_app_new. unfold h2, h1.
      rewrite !read_app_old; try (rewrite ?app_length; simpl; lia). reflexivity.
  Qed.

  (** the frame property the history needs: after the call, a write through EITHER buffer of the result (fs.mask[i] = True,
      mask_corners(), fs *= 2, ...) leaves every array that existed before the call - the operand's data and mask among
      them - bit for bit unchanged, so every later computation on the operand (any function of its two buffers) returns
      what it returned before *)
  Theorem arith_copy_result_edit_frames_operand : forall (h : heap) s, s_data s < length h -> s_mask s < length h ->
    let (h', r) := arith_copy op h s in
    forall b, (forall a, a < length h -> read (write h' (s_mask r) b) a = read h a) /\
              (forall a, a < length h -> read (write h' (s_data r) b) a = read h a).
  Proof.
    intros h s Ld Lm. pose proof (arith_copy_frames_both_buffers h s Ld Lm) as F.
    destruct (arith_copy op h s) as [h' r]. destruct F as [F [Gd [Gm _]]].
    intros b. split; intros a La; (rewrite read_write_other by lia); now apply F.
  Qed.

  Theorem arith_copy_later_results_unchanged : forall (O : Type) (obs : buffer -> buffer -> O) (h : heap) s,
    s_data s < length h -> s_mask s < length h ->
    let (h', r) := arith_copy op h s in
    forall b, observe_spectrum obs (write h' (s_mask r) b) s = observe_spectrum obs h s /\
              observe_spectrum obs (write h' (s_data r) b) s = observe_spectrum obs h s.
  Proof.
    intros O obs h s Ld Lm. pose proof (arith_copy_result_edit_frames_operand h s Ld Lm) as F.
    destruct (arith_copy op h s) as [h' r]. intros b. destruct (F b) as [Fm Fd].
    unfold observe_spectrum. rewrite (Fm _ Ld), (Fm _ Lm), (Fd _ Ld), (Fd _ Lm). split; reflexivity.
  Qed.

  (** the mirror: a later write through either buffer of the OPERAND leaves both buffers of the result unchanged *)
  Theorem arith_copy_operand_edit_frames_result : forall (h : heap) s, s_data s < length h -> s_mask s < length h ->
    let (h', r) := arith_copy op h s in
    forall b, read (write h' (s_mask s) b) (s_mask r) = read h' (s_mask r) /\
              read (write h' (s_mask s) b) (s_data r) = read h' (s_data r) /\
              read (write h' (s_data s) b) (s_mask r) = read h' (s_mask r) /\
              read (write h' (s_data s) b) (s_data r) = read h' (s_data r).
  Proof.
    intros h s Ld Lm. pose proof (arith_copy_frames_both_buffers h s Ld Lm) as F.
    destruct (arith_copy op h s) as [h' r]. destruct F as [_ [Gd [Gm _]]].
    intros b. repeat split; apply read_write_other; lia.
  Qed.

  (** copy=False: the data of the result is the (fresh) temporary, but its mask IS the operand's mask: a write through the
      result's mask is read back through the operand's *)
  Theorem arith_nocopy_shares_mask : forall (h : heap) s, s_data s < length h -> s_mask s < length h ->
    let (h', r) := arith_nocopy op h s in
    s_mask r = s_mask s /\ s_data r = length h /\ read h' (s_data r) = op (read h (s_data s)) /\
    (forall a, a < length h -> read h' a = read h a) /\
    forall b, read (write h' (s_mask r) b) (s_mask s) = b /\ read (write h' (s_mask s) b) (s_mask r) = b.
  Proof.
    intros h s Ld Lm. unfold arith_nocopy, alloc. cbn [s_data s_mask].
    repeat split.
    - apply read_app_new.
    - intros a La. now apply read_app_old.
    - apply read_write_same. rewrite app_length. simpl. lia.
    - apply read_write_same. rewrite app_length. simpl. lia.
  Qed.

  (** both protocols return the same VALUES (which is why no test that looks at values of single calls can tell them apart) *)
  Theorem arith_protocols_same_value : forall (h : heap) s, s_data s < length h -> s_mask s < length h ->
    read (fst (arith_copy op h s)) (s_data (snd (arith_copy op h s))) =
      read (fst (arith_nocopy op h s)) (s_data (snd (arith_nocopy op h s))) /\
    read (fst (arith_copy op h s)) (s_mask (snd (arith_copy op h s))) =
      read (fst (arith_nocopy op h s)) (s_mask (snd (arith_nocopy op h s))).
  Proof.
    intros h s Ld Lm.
    pose proof (arith_copy_frames_both_buffers h s Ld Lm) as C. pose proof (arith_nocopy_shares_mask h s Ld Lm) as N.
    destruct (arith_copy op h s) as [h1 r1]. destruct (arith_nocopy op h s) as [h2 r2]. cbn [fst snd].
    destruct C as [_ [_ [_ [_ [_ [_ [Cd Cm]]]]]]]. destruct N as [Nm [_ [Nd [Nf _]]]].
    split; [congruence|]. rewrite Cm, Nm. symmetry. now apply Nf.
  Qed.

  (** the general operator: a protocol whose constructor copies frames the operand against every later edit of the result *)
  Theorem copying_arith_frames : forall pr (O : Type) (obs : buffer -> buffer -> O) (h : heap) s,
    ctor_copies pr = true -> s_data s < length h -> s_mask s < length h ->
    let (h', r) := arith op pr h s in
    s_mask r <> s_mask s /\ s_mask r <> s_data s /\ s_data r <> s_data s /\ s_data r <> s_mask s /\
    forall b, observe_spectrum obs (write h' (s_mask r) b) s = observe_spectrum obs h s /\
              observe_spectrum obs (write h' (s_data r) b) s = observe_spectrum obs h s.
  Proof.
    intros pr O obs h s C Ld Lm. unfold arith. rewrite C.
    pose proof (arith_copy_frames_both_buffers h s Ld Lm) as F.
    pose proof (arith_copy_later_results_unchanged O obs h s Ld Lm) as G.
    destruct (arith_copy op h s) as [h' r]. destruct F as [_ [Gd [Gm _]]].
    repeat split; try lia; apply G.
  Qed.
End HeapProofs.

(** copy=False violates "results are independent of what was done earlier to a DIFFERENT object": masking one entry of the
    result changes fs.sum() of the operand *)
Theorem arith_nocopy_refuted :
  exists (op : list nat -> list nat) (h : heap nat) (s : spectrum) (b : list nat),
    s_data s < length h /\ s_mask s < length h /\
    let (h', r) := arith_nocopy op h s in
    s_mask r = s_mask s /\
    read (write h' (s_mask r) b) (s_mask s) <> read h (s_mask s) /\
    observe_spectrum msum (write h' (s_mask r) b) s <> observe_spectrum msum h s.
Proof.
  exists (map (fun x => 2 * x)), [[3; 5; 7]; [1; 0; 0]], {| s_data := 0; s_mask := 1 |}, [1; 1; 0].
  vm_compute. repeat split; try lia; discriminate.
Qed.

(** ... for EVERY heap and operand: whatever is written through the result's mask is what the operand's mask now holds *)
Theorem arith_nocopy_aliases_always : forall (V : Type) (op : list V -> list V) (h : heap V) s b,
  s_data s < length h -> s_mask s < length h -> b <> read h (s_mask s) ->
  let (h', r) := arith_nocopy op h s in read (write h' (s_mask r) b) (s_mask s) <> read h (s_mask s).
Proof.
  intros V op h s b Ld Lm N. pose proof (arith_nocopy_shares_mask V op h s Ld Lm) as A.
  destruct (arith_nocopy op h s) as [h' r]. destruct A as [_ [_ [_ [_ A]]]]. destruct (A b) as [A1 _]. now rewrite A1.
Qed.

(** the operator protocol is history-independent exactly when its constructor copies *)
Theorem arith_frames_iff_copies : forall pr : arith_protocol,
  (forall (h : heap nat) s b, s_data s < length h -> s_mask s < length h ->
     let (h', r) := arith (map (fun x => 2 * x)) pr h s in
     observe_spectrum msum (write h' (s_mask r) b) s = observe_spectrum msum h s) <-> ctor_copies pr = true.
Proof.
  intros [c]. split.
  - intros H. destruct c; [reflexivity|]. exfalso.
    specialize (H [[3; 5; 7]; [1; 0; 0]] {| s_data := 0; s_mask := 1 |} [1; 1; 0]).
    assert (L : 0 < 2) by lia. assert (L' : 1 < 2) by lia. specialize (H L L'). vm_compute in H. discriminate.
  - intros C h s b Ld Lm.
    pose proof (copying_arith_frames nat (map (fun x => 2 * x)) {| ctor_copies := c |} nat msum h s C Ld Lm) as F.
    destruct (arith (map (fun x => 2 * x)) {| ctor_copies := c |} h s) as [h' r]. apply F.
Qed.

(** the in-place protocol violates "argument unchanged, result fresh" *)
Theorem inplace_protocol_aliases_refuted :
  exists (kern : list nat -> list nat) (h : heap nat) (p : nat), p < length h /\
    let (h', q) := integ_inplace kern h p in q = p /\ read h' p <> read h p.
Proof. exists (map S), [[1]], 0. simpl. split; [lia|]. split; [reflexivity|]. discriminate. Qed.

(** a kernel handed the data pointer of a transposed view transforms the raw memory: two arguments with the same
    logical content give different results *)
Definition axis_kernel (l : list nat) : list nat :=
  match l with [a; b] => [a; a + b] | _ => l end.

Theorem inplace_protocol_layout_refuted :
  exists (kern : list nat -> list nat) (h : heap nat) (v1 v2 : view),
    logical 0 h v1 = logical 0 h v2 /\
    logical 0 (fst (integ_inplace_view kern h v1)) (snd (integ_inplace_view kern h v1)) <>
    logical 0 (fst (integ_inplace_view kern h v2)) (snd (integ_inplace_view kern h v2)).
Proof.
  exists axis_kernel, [[2; 1]; [1; 2]], (contiguous 0 2), {| v_base := 1; v_idx := [1; 0] |}.
  split; [reflexivity|]. vm_compute. discriminate.
Qed.
