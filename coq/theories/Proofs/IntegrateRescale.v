(** C03 at full strength for the reference size: a whole constant-parameter integration (any number of
    populations and time steps, frozen / nomut flags) is unchanged when every size and time is multiplied by c
    and every migration rate, selection coefficient and theta0 is divided by c — the time-step rule scales
    with c, the mutation influx depends on dt*theta0 only, every sweep is invariant. *)
From Coq Require Import Reals List Lra Lia Arith Bool.
From Dadi Require Import Base.Num Base.NumR Model.Tridiag Model.Scheme Model.NDSweep
  Proofs.TridiagProofs Proofs.SchemeProofs Proofs.Linearity Proofs.Rescale Proofs.NDLines Proofs.NDSweepProofs Proofs.IntegrateLinear.
Import ListNotations.
Local Open Scope R_scope.

Section Scale.
  Variable c : R.
  Hypothesis Hc : 0 < c.
  Let cne : c <> 0. Proof. lra. Qed.
  Let icpos : 0 < / c. Proof. apply Rinv_0_lt_compat; exact Hc. Qed.

  Lemma Rleb_div_both a b : Rleb (a / c) (b / c) = Rleb a b.
  Proof.
    destruct (Rleb a b) eqn:E.
    - apply Rleb_true in E. apply Rleb_true. unfold Rdiv. nra.
    - apply Rleb_false in E. apply Rleb_false. unfold Rdiv. nra.
  Qed.
  Lemma Rleb_mul_both a b : Rleb (c * a) (c * b) = Rleb a b.
  Proof.
    destruct (Rleb a b) eqn:E.
    - apply Rleb_true in E. apply Rleb_true. nra.
    - apply Rleb_false in E. apply Rleb_false. nra.
  Qed.
  Lemma nmax_div a b : nmax (a / c) (b / c) = nmax a b / c.
  Proof. unfold nmax. numR. rewrite Rleb_div_both. destruct (Rleb a b); reflexivity. Qed.
  Lemma nmin_mul a b : nmin (c * a) (c * b) = c * nmin a b.
  Proof. unfold nmin. numR. rewrite Rleb_mul_both. destruct (Rleb a b); reflexivity. Qed.
  Lemma nabs_div a : nabs (a / c) = nabs a / c.
  Proof. unfold nabs. numR. rewrite Rleb_scale_r by exact Hc. destruct (Rleb 0 a); unfold Rdiv; ring. Qed.
  Lemma nsum_div (l : list R) : nsum (map (fun m => m / c) l) = nsum l / c.
  Proof. induction l as [|x l IH]; unfold nsum in *; cbn [map fold_right]; numR; [unfold Rdiv; ring|]. rewrite IH. unfold Rdiv. ring. Qed.

  Lemma maxVM_rescale p : maxVM (rescale_pop c p) = maxVM p / c.
  Proof.
    unfold maxVM, rescale_pop. cbn [p_nu p_gamma p_h p_ms].
    rewrite nsum_div. numR.
    set (t1 := nabs (p_h p + (n1 - n2 * p_h p) * nhalf)%num * (nhalf * (n1 - nhalf))%num).
    set (t2 := nabs (p_h p + (n1 - n2 * p_h p) * quarter)%num * (quarter * (n1 - quarter))%num).
    replace (quarter / (c * p_nu p)) with (quarter / p_nu p / c) by (unfold Rdiv; rewrite Rinv_mult; ring).
    rewrite nmax_div. rewrite nabs_div.
    replace (nabs (p_gamma p) / c * n2 * nmax t1 t2) with (nabs (p_gamma p) * n2 * nmax t1 t2 / c) by (unfold Rdiv; ring).
    apply nmax_div.
  Qed.

  Lemma compute_dt_rescale tf p : compute_dt tf (rescale_pop c p) = option_map (Rmult c) (compute_dt tf p).
  Proof.
    unfold compute_dt. rewrite maxVM_rescale. unfold nltb. numR. rewrite Rleb_scale_l by exact Hc.
    destruct (negb (Rleb (maxVM p) 0)); [|reflexivity]. cbn [option_map]. f_equal.
    unfold Rdiv. rewrite Rinv_mult, Rinv_inv. ring.
  Qed.

  Lemma dt_of_rescale tf pops : dt_of tf (map (rescale_pop c) pops) = option_map (Rmult c) (dt_of tf pops).
  Proof.
    induction pops as [|p l IH]; [reflexivity|]. cbn [map dt_of fold_right] in *. fold (dt_of tf (map (rescale_pop c) l)). fold (dt_of tf l).
    rewrite IH, compute_dt_rescale.
    destruct (compute_dt tf p) as [x|], (dt_of tf l) as [y|]; cbn [option_map omin]; try reflexivity.
    f_equal. apply nmin_mul.
  Qed.

  Lemma inject_amount_rescale grids d k theta dt : inject_amount grids d k (theta / c) (c * dt) = inject_amount grids d k theta dt.
  Proof.
    unfold inject_amount. numR. unfold Rdiv.
    set (A := / nthF (nth k grids []) 1). set (B := / ((nthF (nth k grids []) 2 - nthF (nth k grids []) 0) * _)).
    replace (c * dt * A * (theta * / c)) with (dt * A * theta * (c * / c)) by ring. rewrite Rinv_r by exact cne. ring.
  Qed.

  Section Run.
    Variable shape : list nat.
    Variable grids : list (list R).
    Notation d := (length shape).
    Hypothesis Hgrids : forall k, (k < d)%nat -> length (nth k grids []) = ax_len shape k /\ (2 <= length (nth k grids []))%nat.
    Variable pops : list (@pop R).
    Hypothesis Hwf : wf_pops shape pops.
    Notation pops' := (map (rescale_pop c) pops).
    Variable dj : bool.

    (** no pivot vanishes in any line system of any sweep with time step dt (a property of the coefficients only) *)
    Definition nonsingular (dt : R) : Prop :=
      forall k p o q phi, nth_error pops k = Some p -> (o < ax_outer shape k)%nat -> (q < ax_inner shape k)%nat ->
        nonzero (all_pivots (line_rows (nth k grids []) (Vfunc_beta (p_nu p) (p_beta p))
                                       (Mfunc (p_ms p) (line_os shape grids k o q) (p_gamma p) (p_h p)) (p_nu p)
                                       (all_eq n0 (line_os shape grids k o q)) (all_eq n1 (line_os shape grids k o q)) dt dj
                                       (get_line shape k phi o q))).

    Lemma inject_fold_rescale theta dt : forall (ps : list (@pop R)) (l : list nat) phi,
      fold_left (fun acc kp => let '(k, p) := kp in
                   if p_frozen p || p_nomut p then acc
                   else add_at acc (flatidx shape (unit_ix d k)) (inject_amount grids d k (theta / c) (c * dt)))
                (combine l (map (rescale_pop c) ps)) phi =
      fold_left (fun acc kp => let '(k, p) := kp in
                   if p_frozen p || p_nomut p then acc
                   else add_at acc (flatidx shape (unit_ix d k)) (inject_amount grids d k theta dt))
                (combine l ps) phi.
    Proof.
      induction ps as [|p ps IH]; intros l phi; [destruct l; reflexivity|].
      destruct l as [|k l]; [reflexivity|]. cbn [map combine fold_left rescale_pop p_frozen p_nomut].
      destruct (p_frozen p || p_nomut p); [apply IH|]. rewrite inject_amount_rescale. apply IH.
    Qed.
    Lemma inject_rescale theta dt phi : inject shape grids pops' (theta / c) (c * dt) phi = inject shape grids pops theta dt phi.
    Proof. unfold inject. apply inject_fold_rescale. Qed.

    Lemma nth_error_rescale k : nth_error pops' k = option_map (rescale_pop c) (nth_error pops k).
    Proof. apply nth_error_map. Qed.

    (** the sweeps of one step, in the rescaled and in the original units *)
    Lemma sweeps_rescale dt : nonsingular dt -> forall (l : list nat) (ps : list (@pop R)) phi,
      (forall k, In k l -> (k < d)%nat) ->
      fold_left (fun acc kp => let '(k, p) := kp in if p_frozen p then acc else sweep shape grids pops' k (c * dt) dj acc)
                (combine l (map (rescale_pop c) ps)) phi =
      fold_left (fun acc kp => let '(k, p) := kp in if p_frozen p then acc else sweep shape grids pops k dt dj acc)
                (combine l ps) phi.
    Proof.
      intros Hns l. induction l as [|k l IH]; intros ps phi Hin; [reflexivity|].
      destruct ps as [|p ps]; [reflexivity|]. cbn [map combine fold_left rescale_pop p_frozen].
      assert (Hk : (k < d)%nat) by (apply Hin; left; reflexivity).
      destruct (p_frozen p); [apply IH; intros; apply Hin; right; assumption|].
      destruct (nth_error pops k) as [pk|] eqn:E; [|apply nth_error_None in E; unfold wf_pops in Hwf; lia].
      rewrite (sweep_rescale_invariant shape grids pops pops' k pk c dt dj phi Hc E).
      - apply IH; intros; apply Hin; right; assumption.
      - rewrite nth_error_rescale, E. reflexivity.
      - apply (Hgrids k Hk).
      - intros o q Ho Hq. apply (Hns k pk o q phi E Ho Hq).
    Qed.

    Lemma step_rescale theta dt phi : nonsingular dt ->
      step shape grids pops' (theta / c) (c * dt) dj phi = step shape grids pops theta dt dj phi.
    Proof.
      intros Hns. unfold step. rewrite inject_rescale. apply sweeps_rescale; [exact Hns|].
      intros k Hk. apply in_seq in Hk. lia.
    Qed.

    (** whole constant-parameter integration: times t, T become c t, c T *)
    Theorem integrate_const_rescale_invariant tf : 0 < tf -> (forall dt, 0 < dt -> nonsingular dt) ->
      forall fuel theta t T phi,
      integrate_const fuel shape grids pops' (theta / c) tf dj (c * t) (c * T) phi =
      integrate_const fuel shape grids pops theta tf dj t T phi.
    Proof.
      intros Htf Hns. induction fuel as [|fuel IH]; intros theta t T phi; cbn [integrate_const];
        unfold nltb; numR; rewrite Rleb_mul_both by exact Hc.
      - reflexivity.
      - destruct (Rleb T t) eqn:ET; cbn [negb]; [reflexivity|]. apply Rleb_false in ET.
        rewrite dt_of_rescale by exact Hc.
        assert (Hpos : forall x, dt_of tf pops = Some x -> 0 < x).
        { clear -Htf. induction pops as [|p l IHl]; intros x Hx; [discriminate|].
          cbn [dt_of fold_right] in Hx. fold (dt_of tf l) in Hx.
          assert (Hcd : forall y, compute_dt tf p = Some y -> 0 < y).
          { intros y Hy. unfold compute_dt, nltb in Hy. numR. destruct (Rleb (maxVM p) 0) eqn:E; cbn [negb] in Hy; [discriminate|].
            apply Rleb_false in E. injection Hy as <-. apply Rdiv_lt_0_compat; assumption. }
          destruct (compute_dt tf p) as [y|] eqn:Ey, (dt_of tf l) as [z|] eqn:Ez; cbn [omin] in Hx; try discriminate.
          - injection Hx as <-. unfold nmin. numR. destruct (Rleb y z); [apply Hcd; reflexivity | apply IHl; reflexivity].
          - injection Hx as <-. apply Hcd; reflexivity.
          - injection Hx as <-. apply IHl; reflexivity. }
        destruct (dt_of tf pops) as [dt|] eqn:Edt; cbn [option_map].
        + replace (c * T - c * t) with (c * (T - t)) by ring. rewrite nmin_mul by exact Hc.
          assert (Hd : 0 < nmin dt (T - t)) by (unfold nmin; numR; destruct (Rleb dt (T - t)); [apply Hpos; reflexivity | lra]).
          rewrite step_rescale by (apply Hns; exact Hd).
          replace (c * t + c * nmin dt (T - t)) with (c * (t + nmin dt (T - t))) by ring. apply IH.
        + replace (c * T - c * t) with (c * (T - t)) by ring.
          rewrite step_rescale by (apply Hns; lra).
          replace (c * t + c * (T - t)) with (c * (t + (T - t))) by ring. apply IH.
    Qed.
  End Run.
End Scale.

(** time-dependent parameters: nu(t) -> c nu(t/c), m(t) -> m(t/c)/c, gamma(t) -> gamma(t/c)/c, theta0(t) -> theta0(t/c)/c *)
Section TimeDependent.
  Variable c : R.
  Hypothesis Hc : 0 < c.
  Variable shape : list nat.
  Variable grids : list (list R).
  Hypothesis Hgrids : forall k, (k < length shape)%nat -> length (nth k grids []) = ax_len shape k /\ (2 <= length (nth k grids []))%nat.
  Variable popsf : R -> list (@pop R).
  Variable thetaf : R -> R.
  Hypothesis Hwf : forall s, wf_pops shape (popsf s).
  Variable dj : bool.
  Variable tf : R.
  Hypothesis Htf : 0 < tf.
  Hypothesis Hns : forall s dt, 0 < dt -> nonsingular shape grids (popsf s) dj dt.

  Definition popsf' (s : R) : list (@pop R) := map (rescale_pop c) (popsf (s / c)).
  Definition thetaf' (s : R) : R := thetaf (s / c) / c.

  Lemma unscale t : c * t / c = t.
  Proof. field. lra. Qed.

  Lemma popsf'_at s : popsf' (c * s) = map (rescale_pop c) (popsf s).
  Proof. unfold popsf'. rewrite unscale. reflexivity. Qed.
  Lemma thetaf'_at s : thetaf' (c * s) = thetaf s / c.
  Proof. unfold thetaf'. rewrite unscale. reflexivity. Qed.

  Lemma dt_of_pos' : forall (pops : list (@pop R)) x, dt_of tf pops = Some x -> 0 < x.
  Proof.
    induction pops as [|p l IHl]; intros x Hx; [discriminate|].
    cbn [dt_of fold_right] in Hx. fold (dt_of tf l) in Hx.
    assert (Hcd : forall y, compute_dt tf p = Some y -> 0 < y).
    { intros y Hy. unfold compute_dt, nltb in Hy. numR. destruct (Rleb (maxVM p) 0) eqn:E; cbn [negb] in Hy; [discriminate|].
      apply Rleb_false in E. injection Hy as <-. apply Rdiv_lt_0_compat; assumption. }
    destruct (compute_dt tf p) as [y|] eqn:Ey, (dt_of tf l) as [z|] eqn:Ez; cbn [omin] in Hx; try discriminate.
    - injection Hx as <-. unfold nmin. numR. destruct (Rleb y z); [apply Hcd; reflexivity | apply IHl; reflexivity].
    - injection Hx as <-. apply Hcd; reflexivity.
    - injection Hx as <-. apply IHl; reflexivity.
  Qed.

  Theorem integrate_tdep_rescale_invariant : forall fuel t T phi,
    integrate_tdep fuel shape grids popsf' thetaf' tf dj (c * t) (c * T) phi =
    integrate_tdep fuel shape grids popsf thetaf tf dj t T phi.
  Proof.
    induction fuel as [|fuel IH]; intros t T phi; cbn [integrate_tdep]; unfold nltb; numR; rewrite (Rleb_mul_both c Hc).
    - reflexivity.
    - destruct (Rleb T t) eqn:ET; cbn [negb]; [reflexivity|]. apply Rleb_false in ET.
      rewrite popsf'_at. rewrite (dt_of_rescale c Hc).
      destruct (dt_of tf (popsf t)) as [dt|] eqn:Edt; cbn [option_map].
      + replace (c * T - c * t) with (c * (T - t)) by ring. rewrite (nmin_mul c Hc).
        assert (Hd : 0 < nmin dt (T - t)) by (unfold nmin; numR; destruct (Rleb dt (T - t)); [apply (dt_of_pos' _ _ Edt) | lra]).
        replace (c * t + c * nmin dt (T - t)) with (c * (t + nmin dt (T - t))) by ring.
        rewrite popsf'_at, thetaf'_at.
        rewrite (step_rescale c Hc shape grids Hgrids (popsf (t + nmin dt (T - t))) (Hwf _) dj) by (apply Hns; exact Hd).
        apply IH.
      + replace (c * T - c * t) with (c * (T - t)) by ring.
        replace (c * t + c * (T - t)) with (c * (t + (T - t))) by ring.
        rewrite popsf'_at, thetaf'_at.
        rewrite (step_rescale c Hc shape grids Hgrids (popsf (t + (T - t))) (Hwf _) dj) by (apply Hns; lra).
        apply IH.
  Qed.
End TimeDependent.
