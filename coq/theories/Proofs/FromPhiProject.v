(** C05: sampling n and projecting down to m is sampling m  (hypergeometric-binomial mixing), at the level of the
    sampling kernel and for the trapezoid (direct) path. *)
From Coq Require Import ZArith NArith Reals List Lra Lia Arith Bool.
From Dadi Require Import Base.Num Base.NumR Model.FromPhi Proofs.FromPhiBinom Proofs.FromPhiBase Proofs.FromPhiMass1D
  Proofs.FromPhiLin Proofs.FromPhiND Proofs.FromPhiPaths Proofs.FromPhiSums.
Import ListNotations.
Local Open Scope R_scope.

Lemma rsum_seq_from (f : nat -> R) a n : rsum (map f (seq a n)) = rsum (map (fun k => f (a + k)%nat) (seq 0 n)).
Proof. revert a. induction n; intros a; [reflexivity|]. cbn [seq map]. rewrite !rsum_cons, Nat.add_0_r. f_equal.
  rewrite IHn, rsum_seq_shift. apply rsum_map_ext. intros k _. f_equal. lia. Qed.

(** sum_j  C(m,i) C(n-m,j-i)/C(n,j) * C(n,j) x^j (1-x)^(n-j)  =  C(m,i) x^i (1-x)^(m-i) *)
Theorem kernel_projection n m i (x : R) : (m <= n)%nat -> (i <= m)%nat ->
  rsum (map (fun j => hyperw n m j i * bker n j x) (seq 0 (S n))) = bker m i x.
Proof. intros Hm Hi.
  replace (S n) with (i + (S n - i))%nat by lia. rewrite seq_app, map_app, rsum_app.
  rewrite rsum_map_0.
  2:{ intros j Hj. apply in_seq in Hj. unfold hyperw. replace (i <=? j)%nat with false by (symmetry; apply Nat.leb_gt; lia). numR. ring. }
  rewrite Rplus_0_l. cbn [Nat.add]. rewrite rsum_seq_from.
  rewrite (rsum_map_ext _ (fun k => B m i x * B (n - m) k x)).
  - rewrite rsum_map_scal. rewrite (rsum_seq_trunc _ (S (n - m))) by (try lia; intros; apply B_small; lia).
    rewrite B_sum1, bker_B. ring.
  - intros k Hk. apply in_seq in Hk. unfold hyperw. replace (i <=? i + k)%nat with true by (symmetry; apply Nat.leb_le; lia).
    rewrite bker_B. numR. replace (i + k - i)%nat with k by lia.
    destruct (le_lt_dec k (n - m)) as [Hk'|Hk'].
    + unfold B. pose proof (cZ_pos n (i + k) ltac:(lia)) as Hp. apply IZR_lt in Hp.
      replace (n - (i + k))%nat with ((m - i) + (n - m - k))%nat by lia. rewrite !pow_add. field. lra.
    + rewrite (B_small (n - m) k) by lia. rewrite (cZ_small (n - m) k) by lia. unfold Rdiv. ring. Qed.

(** the same with the ascertainment factor x(1-x) *)
Lemma dfactor_projection het n m i (x : R) : (m <= n)%nat -> (i <= m)%nat ->
  rsum (map (fun j => hyperw n m j i * dfactor het n j x) (seq 0 (S n))) = dfactor het m i x.
Proof. intros Hm Hi. unfold dfactor. destruct het; [|apply kernel_projection; assumption].
  rewrite <- (kernel_projection n m i x Hm Hi). numR. rewrite <- rsum_map_scal_r. apply rsum_map_ext. intros; ring. Qed.

Lemma map2_seq_map {A} (g : nat -> A -> R) (F : nat -> A) k N : map2 g (seq k N) (map F (seq k N)) = map (fun j => g j (F j)) (seq k N).
Proof. revert k. induction N; intros k; [reflexivity|]. cbn [seq map]. rewrite map2_cons, IHN. reflexivity. Qed.

(** the direct path (with or without ascertainment): project(from_phi(n)) = from_phi(m) *)
Theorem project_of_sample_direct het n m xx (phi : list R) : (m <= n)%nat -> length xx = length phi ->
  project1 n m (direct_ax het n xx phi) = direct_ax het m xx phi.
Proof. intros Hm El. unfold project1, direct_ax, direct_fac, fac_apply. rewrite !map_map.
  apply map_ext_in. intros i Hi. apply in_seq in Hi. rewrite map2_seq_map.
  rewrite (rsum_map_ext _ (fun j => trapz xx (vscal (hyperw n m j i) (map2 nmul (map (dfactor het n j) xx) phi))))
    by (intros; rewrite trapz_scal; reflexivity).
  rewrite (trapz_sum xx (seq 0 (S n)) _ (length xx)).
  2:{ intros j _. unfold vscal, map2. rewrite !map_length, combine_length; rewrite ?map_length; lia. }
  f_equal. rewrite (map2_nth_seq _ (map (dfactor het m i) xx) phi 0 0) by (rewrite map_length; assumption).
  rewrite map_length. apply map_ext_in. intros p Hp. apply in_seq in Hp.
  rewrite (rsum_map_ext _ (fun j => (hyperw n m j i * dfactor het n j (nth p xx 0)) * nth p phi 0)).
  - rewrite rsum_map_scal_r, dfactor_projection by lia. numR.
    rewrite (nth_indep (map (dfactor het m i) xx) 0 (dfactor het m i 0)) by (rewrite map_length; lia). rewrite map_nth. reflexivity.
  - intros j _. rewrite vscal_nth. rewrite (map2_nth _ _ _ 0 0 0) by (rewrite ?map_length; lia). numR.
    rewrite (nth_indep (map (dfactor het n j) xx) 0 (dfactor het n j 0)) by (rewrite map_length; lia). rewrite map_nth. ring. Qed.
