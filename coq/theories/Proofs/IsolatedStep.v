(** C04, isolated subsets, step level (D-G): without migration and selection the trapezoid-marginal density of the
    populations other than r evolves, away from the all-0 / all-1 corners, exactly as if those populations were
    integrated alone with the same time steps.  Population r itself may have any parameters. *)
From Coq Require Import Reals List Lra Lia Arith Bool FunctionalExtensionality.
From Dadi Require Import Base.Num Base.NumR Model.Tridiag Model.Scheme Model.NDSweep
  Proofs.TridiagProofs Proofs.SchemeProofs Proofs.SumLemmas Proofs.MassBalance Proofs.Linearity Proofs.NDLines
  Proofs.NDSweepProofs Proofs.NDWeights Proofs.IntegrateLinear Proofs.IntegrateRescale Proofs.FrozenMarginal Proofs.FrozenStep
  Proofs.Pivots Proofs.IsolatedLine Proofs.IsolatedSweep.
Import ListNotations.
Local Open Scope R_scope.

(** ** small list facts *)
Lemma nth_dropn {T} (l : list T) r a d0 : (r < length l)%nat ->
  nth a (dropn r l) d0 = if Nat.ltb a r then nth a l d0 else nth (S a) l d0.
Proof.
  intros Hr. destruct (split_at l r Hr) as (u & y & v & -> & Hu). rewrite dropn_app_len by exact Hu.
  destruct (Nat.ltb_spec a r).
  - rewrite !app_nth1 by lia. reflexivity.
  - rewrite !app_nth2 by lia. replace (S a - length u)%nat with (S (a - length u)) by lia. reflexivity.
Qed.
Lemma app_eq_len {T} : forall (a a' b b' : list T), length a = length a' -> a ++ b = a' ++ b' -> a = a' /\ b = b'.
Proof.
  induction a as [|y a IH]; intros [|y' a'] b b' Hl E; try discriminate; [split; [reflexivity|exact E]|].
  cbn [app] in E. injection E as -> E. cbn in Hl. destruct (IH a' b b' ltac:(lia) E) as [-> ->]. split; reflexivity.
Qed.
Lemma flatidx_inj Sh a b : Forall2 lt a Sh -> Forall2 lt b Sh -> flatidx Sh a = flatidx Sh b -> a = b.
Proof. intros Ha Hb E. rewrite <- (unflat_flatidx Sh a Ha), <- (unflat_flatidx Sh b Hb), E. reflexivity. Qed.

Lemma nprod_app (l1 l2 : list R) : nprod (l1 ++ l2) = nprod l1 * nprod l2.
Proof. unfold nprod. induction l1 as [|y l IH]; cbn [app fold_right]; numR; [ring|]. rewrite IH. ring. Qed.

(** a product over 0..d-1 with factor r taken out and the remaining factors re-indexed *)
Lemma nprod_drop (h h' : nat -> R) d r : (r < d)%nat ->
  (forall a, (a < r)%nat -> h' a = h a) -> (forall a, (r <= a)%nat -> h' a = h (S a)) ->
  nprod (map h (seq 0 d)) = h r * nprod (map h' (seq 0 (d - 1))).
Proof.
  intros Hr Hlo Hhi.
  replace d with (r + S (d - r - 1))%nat at 1 by lia. rewrite seq_app, map_app, nprod_app. cbn [plus seq map].
  replace (d - 1)%nat with (r + (d - r - 1))%nat by lia. rewrite seq_app, map_app, nprod_app. cbn [plus].
  rewrite (map_ext_in h' h (seq 0 r)) by (intros a Ha; apply in_seq in Ha; apply Hlo; lia).
  rewrite <- (seq_shift (d - r - 1) r), map_map.
  rewrite (map_ext_in h' (fun a => h (S a)) (seq r (d - r - 1))) by (intros a Ha; apply in_seq in Ha; apply Hhi; lia).
  unfold nprod at 2. cbn [fold_right]. fold (nprod (map (fun a => h (S a)) (seq r (d - r - 1)))). numR. ring.
Qed.

Lemma rsum_bump n (w a : nat -> R) j0 v : (j0 < n)%nat ->
  rsum n (fun j => w j * (if Nat.eqb j j0 then a j + v else a j)) = rsum n (fun j => w j * a j) + w j0 * v.
Proof.
  intros Hj.
  rewrite (rsum_ext n _ (fun j => w j * a j + (if Nat.eqb j j0 then w j0 * v else 0))).
  - rewrite rsum_add. f_equal. rewrite (rsum_single n _ j0 Hj); [rewrite Nat.eqb_refl; reflexivity|].
    intros i Hi Hne. destruct (Nat.eqb_spec i j0); [lia|reflexivity].
  - intros j Hjn. destruct (Nat.eqb_spec j j0) as [->|]; ring.
Qed.

(** ** (D) the mutation influx *)
(** integrating r out of an array with v added at one point adds (trapezoid weight) * v at the reduced point *)
Section MargAddAt.
  Variables (A C : list nat) (nr : nat) (GA GC : list (list R)) (gr : list R).
  Variables (Sh : list nat) (G : list (list R)) (r : nat).
  Hypothesis ES : Sh = A ++ nr :: C.
  Hypothesis EG : G = GA ++ gr :: GC.
  Hypothesis Er : length A = r.
  Hypothesis EGA : length GA = r.
  Hypothesis Hgr : length gr = nr.

  Lemma marginal_add_at (phi : list R) iA j0 iC v : length phi = prodn Sh ->
    Forall2 lt iA A -> (j0 < nr)%nat -> Forall2 lt iC C ->
    marginal_out Sh G r (add_at phi (flatidx Sh (iA ++ j0 :: iC)) v) =
    add_at (marginal_out Sh G r phi) (flatidx (A ++ C) (iA ++ iC)) (trap_w gr j0 * v).
  Proof.
    intros Hphi HA Hj0 HC.
    pose proof (marginal_out_length_mi _ _ _ _ G _ ES Er) as Hlen.
    apply nth_ext with (d := 0) (d' := 0); [rewrite add_at_length, !Hlen; reflexivity|].
    intros j' Hj'. rewrite Hlen in Hj'.
    pose proof (unflat_valid _ _ Hj') as Hv.
    destruct (Forall2_app_inv_r _ _ Hv) as (iA' & iC' & HA' & HC' & Eix).
    rewrite <- (flatidx_unflat _ _ Hj'), Eix.
    change (nthF (marginal_out Sh G r (add_at phi (flatidx Sh (iA ++ j0 :: iC)) v)) (flatidx (A ++ C) (iA' ++ iC')) =
            nthF (add_at (marginal_out Sh G r phi) (flatidx (A ++ C) (iA ++ iC)) (trap_w gr j0 * v)) (flatidx (A ++ C) (iA' ++ iC'))).
    rewrite nthF_add_at.
    rewrite !(marginal_out_mi _ _ _ _ _ _ _ _ _ ES EG Er EGA (A ++ C) _ _ _ eq_refl Hgr HA' HC').
    assert (HvAC : Forall2 lt (iA ++ iC) (A ++ C)) by (apply Forall2_app; assumption).
    assert (HvAC' : Forall2 lt (iA' ++ iC') (A ++ C)) by (apply Forall2_app; assumption).
    assert (Hpos : (flatidx Sh (iA ++ j0 :: iC) < length phi)%nat).
    { rewrite Hphi. apply flatidx_lt. apply (mi_valid _ _ _ _ ES); assumption. }
    destruct (Nat.eqb_spec (flatidx (A ++ C) (iA' ++ iC')) (flatidx (A ++ C) (iA ++ iC))) as [E|E].
    - apply (flatidx_inj _ _ _ HvAC' HvAC) in E.
      destruct (app_eq_len iA' iA iC' iC ltac:(rewrite (F2_length _ _ _ HA), (F2_length _ _ _ HA'); reflexivity) E) as [-> ->].
      rewrite Hlen. destruct (Nat.ltb_spec (flatidx (A ++ C) (iA ++ iC)) (prodn (A ++ C))) as [_|Hge];
        [|pose proof (flatidx_lt _ _ HvAC); lia].
      rewrite <- (rsum_bump nr (trap_w gr) (fun j => nthF phi (flatidx Sh (iA ++ j :: iC))) j0 v Hj0).
      apply rsum_ext. intros j Hj. f_equal. rewrite nthF_add_at.
      destruct (Nat.ltb_spec (flatidx Sh (iA ++ j0 :: iC)) (length phi)) as [_|Hge]; [|lia].
      destruct (Nat.eqb_spec (flatidx Sh (iA ++ j :: iC)) (flatidx Sh (iA ++ j0 :: iC))) as [E1|E1];
      destruct (Nat.eqb_spec j j0) as [E2|E2]; try reflexivity.
      + exfalso. apply E2. apply (flatidx_inj Sh) in E1; try (apply (mi_valid _ _ _ _ ES); assumption).
        apply app_inv_head in E1. injection E1 as E1. exact E1.
      + exfalso. apply E1. rewrite E2. reflexivity.
    - apply rsum_ext. intros j Hj. f_equal. rewrite nthF_add_at.
      destruct (Nat.eqb_spec (flatidx Sh (iA' ++ j :: iC')) (flatidx Sh (iA ++ j0 :: iC))) as [E1|E1]; [|reflexivity].
      exfalso. apply E. apply (flatidx_inj Sh) in E1; try (apply (mi_valid _ _ _ _ ES); assumption).
      destruct (app_eq_len iA' iA _ _ ltac:(rewrite (F2_length _ _ _ HA), (F2_length _ _ _ HA'); reflexivity) E1) as [-> E2].
      injection E2 as _ ->. reflexivity.
  Qed.
End MargAddAt.

Lemma list_split_nth {T} (l : list T) r d0 : (r < length l)%nat -> l = firstn r l ++ nth r l d0 :: skipn (S r) l.
Proof.
  revert r. induction l as [|y l IH]; intros r Hr; [cbn in Hr; lia|].
  destruct r as [|r]; [reflexivity|]. cbn [firstn nth skipn app]. f_equal. apply IH. cbn in Hr. lia.
Qed.
Lemma F2_nth {T U} (P : T -> U -> Prop) l1 l2 : Forall2 P l1 l2 -> forall i d1 d2, (i < length l1)%nat -> P (nth i l1 d1) (nth i l2 d2).
Proof.
  induction 1 as [|a b l1 l2 Hab H IH]; intros i d1 d2 Hi; [cbn in Hi; lia|].
  destruct i as [|i]; [exact Hab|]. cbn [nth]. apply IH. cbn in Hi. lia.
Qed.
Lemma F2_firstn {T U} (P : T -> U -> Prop) l1 l2 : Forall2 P l1 l2 -> forall n, Forall2 P (firstn n l1) (firstn n l2).
Proof. induction 1; intros [|n]; cbn [firstn]; constructor; auto. Qed.
Lemma F2_skipn {T U} (P : T -> U -> Prop) l1 l2 : Forall2 P l1 l2 -> forall n, Forall2 P (skipn n l1) (skipn n l2).
Proof. induction 1 as [|a b l1 l2 Hab H IH]; intros [|n]; cbn [skipn]; try constructor; auto. Qed.
Lemma F2_dropn {T U} (P : T -> U -> Prop) l1 l2 r : Forall2 P l1 l2 -> Forall2 P (dropn r l1) (dropn r l2).
Proof. intros H. unfold dropn. apply Forall2_app; [apply F2_firstn | apply F2_skipn]; exact H. Qed.
Lemma combine_app_len {T U} : forall (a1 : list T) (b1 : list U) a2 b2, length a1 = length b1 ->
  combine (a1 ++ a2) (b1 ++ b2) = combine a1 b1 ++ combine a2 b2.
Proof.
  induction a1 as [|x a1 IH]; intros [|y b1] a2 b2 Hl; try discriminate; [reflexivity|].
  cbn [app combine]. f_equal. apply IH. cbn in Hl. lia.
Qed.

(** the influx of population k <> r, seen after integrating r out, is the influx of the reduced run *)
Lemma inject_amount_reduced G Sh r k theta dt : Forall2 unit_grid G Sh -> (r < length G)%nat -> (k < length G)%nat -> k <> r ->
  trap_w (nth r G []) 0 * inject_amount G (length G) k theta dt =
  inject_amount (dropn r G) (length G - 1) (red_axis r k) theta dt.
Proof.
  intros HG Hr Hk Hkr.
  pose proof (F2_nth _ _ _ HG r [] 0%nat Hr) as (Hl & Hn & H0 & _ & Hdx).
  assert (Hx1 : nthF (nth r G []) 1 <> 0).
  { pose proof (Hdx 0%nat ltac:(lia)) as Hd. unfold dx, x in Hd. numR. lra. }
  assert (Ek : nth (red_axis r k) (dropn r G) [] = nth k G []).
  { rewrite nth_dropn by exact Hr. unfold red_axis. destruct (Nat.ltb_spec k r).
    - destruct (Nat.ltb_spec k r); [reflexivity|lia].
    - destruct (Nat.ltb_spec (k - 1) r); [lia|]. f_equal. lia. }
  unfold inject_amount. rewrite Ek.
  rewrite (nprod_drop (fun j => if Nat.eqb j k then n1 else nthF (nth j G []) 1)
                      (fun j => if Nat.eqb j (red_axis r k) then n1 else nthF (nth j (dropn r G) []) 1) (length G) r Hr).
  2:{ intros a Ha. rewrite nth_dropn by exact Hr. destruct (Nat.ltb_spec a r); [|lia].
      unfold red_axis. destruct (Nat.ltb_spec k r);
      repeat match goal with |- context [Nat.eqb ?u ?w] => destruct (Nat.eqb_spec u w) end; try lia; reflexivity. }
  2:{ intros a Ha. rewrite nth_dropn by exact Hr. destruct (Nat.ltb_spec a r); [lia|].
      unfold red_axis. destruct (Nat.ltb_spec k r);
      repeat match goal with |- context [Nat.eqb ?u ?w] => destruct (Nat.eqb_spec u w) end; try lia; reflexivity. }
  destruct (Nat.eqb_spec r k) as [E|_]; [congruence|].
  replace (npow n2 (length G)) with (n2 * npow n2 (length G - 1))%num
    by (destruct (length G) as [|m]; [lia|]; cbn [npow]; replace (S m - 1)%nat with m by lia; reflexivity).
  unfold trap_w, dx, x. cbn [Nat.eqb]. rewrite H0. unfold n2. numR.
  set (O' := nprod _). set (P2 := npow _ _). set (xk1 := nthF (nth k G []) 1).
  set (D := nthF (nth k G []) 2 - nthF (nth k G []) 0). set (xr1 := nthF (nth r G []) 1) in *.
  unfold Rdiv. rewrite !Rinv_mult. generalize (/ xk1) (/ D) (/ O'). intros ixk iD iO. field. exact Hx1.
Qed.

(** the multi-index of the injection point of population k, split at axis r *)
Lemma unit_ix_split A nr C Sh r k : Sh = A ++ nr :: C -> length A = r -> (forall n, In n Sh -> (2 <= n)%nat) ->
  exists uA uC, unit_ix (length Sh) k = uA ++ (if Nat.eqb r k then 1%nat else 0%nat) :: uC /\
                Forall2 lt uA A /\ Forall2 lt uC C /\
                (k <> r -> uA ++ uC = unit_ix (length Sh - 1) (red_axis r k)) /\
                (k = r -> Forall (fun i => i = 0%nat) (uA ++ uC)).
Proof.
  intros ES Er Hge.
  pose proof (unit_ix_ok (length Sh) k Sh eq_refl Hge) as Hv. rewrite ES in Hv at 2.
  destruct (F2_split_mid _ _ _ _ _ Hv) as (uA & j0 & uC & E & HA & _ & HC).
  assert (HuA : length uA = r) by (rewrite (F2_length _ _ _ HA); exact Er).
  assert (Hrd : (r < length Sh)%nat) by (rewrite ES, app_length; cbn [length]; lia).
  assert (Ej0 : j0 = if Nat.eqb r k then 1%nat else 0%nat).
  { rewrite <- (nth_unit_ix (length Sh) k r Hrd), E. symmetry. apply nth_app_len. exact HuA. }
  assert (Elen : length (unit_ix (length Sh) k) = length Sh) by (unfold unit_ix; rewrite map_length, seq_length; reflexivity).
  assert (Ed : uA ++ uC = dropn r (unit_ix (length Sh) k)) by (rewrite E; symmetry; apply dropn_app_len; exact HuA).
  exists uA, uC. rewrite <- Ej0. repeat split; try assumption.
  - intros Hkr. rewrite Ed. apply nth_ext with (d := 0%nat) (d' := 0%nat).
    + rewrite dropn_length by (rewrite Elen; exact Hrd). unfold unit_ix. rewrite !map_length, !seq_length. reflexivity.
    + intros a Ha. rewrite dropn_length in Ha by (rewrite Elen; exact Hrd). rewrite Elen in Ha.
      rewrite nth_dropn by (rewrite Elen; exact Hrd). rewrite (nth_unit_ix (length Sh - 1)) by exact Ha.
      unfold red_axis. destruct (Nat.ltb_spec a r); rewrite nth_unit_ix by lia; destruct (Nat.ltb_spec k r);
      repeat match goal with |- context [Nat.eqb ?u ?w] => destruct (Nat.eqb_spec u w) end; try lia; reflexivity.
  - intros ->. rewrite Ed. apply Forall_nth. intros a d0 Ha.
    rewrite dropn_length in Ha by (rewrite Elen; exact Hrd). rewrite Elen in Ha.
    rewrite (nth_indep _ d0 0%nat) by (rewrite dropn_length by (rewrite Elen; exact Hrd); rewrite Elen; exact Ha).
    rewrite nth_dropn by (rewrite Elen; exact Hrd).
    destruct (Nat.ltb_spec a r); rewrite nth_unit_ix by lia;
    match goal with |- context [Nat.eqb ?u ?w] => destruct (Nat.eqb_spec u w) end; try lia; reflexivity.
Qed.

Lemma all_zero_is_corner G Sh : Forall2 unit_grid G Sh -> forall ix, Forall (fun i => i = 0%nat) ix -> length ix = length Sh ->
  all_eq 0 (coords G ix) = true.
Proof.
  induction 1 as [|g n G' Sh' Hg HG IH]; intros ix Hz Hl.
  - destruct ix; [reflexivity|discriminate].
  - destruct ix as [|i ix]; [discriminate|]. inversion Hz as [|? ? Hi Hz']; subst.
    change (coords (g :: G') (0%nat :: ix)) with (nthF g 0 :: coords G' ix). rewrite all_eq_cons.
    destruct Hg as (_ & _ & H0 & _). rewrite H0, Reqb_refl. cbn [andb]. apply IH; [exact Hz'|]. cbn in Hl. lia.
Qed.

(** adding the same amount at the same place keeps agreement; adding at a corner changes nothing off the corners *)
Lemma add_at_respects Sh G (X Y : list R) pos v : agree_off_corners Sh G X Y ->
  agree_off_corners Sh G (add_at X pos v) (add_at Y pos v).
Proof.
  intros (HX & HY & HXY). split; [rewrite add_at_length; exact HX|]. split; [rewrite add_at_length; exact HY|].
  intros ix Hv Hn. rewrite !nthF_add_at, HX, HY, (HXY ix Hv Hn). reflexivity.
Qed.
Lemma add_at_corner Sh G (M : list R) ixc v : Forall2 lt ixc Sh -> all_eq 0 (coords G ixc) = true -> length M = prodn Sh ->
  agree_off_corners Sh G (add_at M (flatidx Sh ixc) v) M.
Proof.
  intros Hc Hz HM. split; [rewrite add_at_length; exact HM|]. split; [exact HM|].
  intros ix Hv [Hn0 _]. rewrite nthF_add_at.
  destruct (Nat.eqb_spec (flatidx Sh ix) (flatidx Sh ixc)) as [E|E]; [|reflexivity].
  apply (flatidx_inj Sh _ _ Hv Hc) in E. subst ix. congruence.
Qed.

(** ** one whole step, then any number of steps *)
Definition inj_f (Sh : list nat) (G : list (list R)) (theta dt : R) (acc : list R) (kp : nat * @pop R) : list R :=
  let '(k, p) := kp in
  if p_frozen p || p_nomut p then acc
  else add_at acc (flatidx Sh (unit_ix (length Sh) k)) (inject_amount G (length Sh) k theta dt).
Definition swp_f (Sh : list nat) (G : list (list R)) (pops : list (@pop R)) (dt : R) (dj : bool) (acc : list R) (kp : nat * @pop R) : list R :=
  let '(k, p) := kp in if p_frozen p then acc else sweep Sh G pops k dt dj acc.
Lemma inject_as_fold Sh G pops theta dt (phi : list R) :
  inject Sh G pops theta dt phi = fold_left (inj_f Sh G theta dt) (combine (seq 0 (length Sh)) pops) phi.
Proof. reflexivity. Qed.
Lemma step_as_fold Sh G pops theta dt dj (phi : list R) :
  step Sh G pops theta dt dj phi =
  fold_left (swp_f Sh G pops dt dj) (combine (seq 0 (length Sh)) pops) (inject Sh G pops theta dt phi).
Proof. reflexivity. Qed.

(** the time steps are given explicitly: the same list drives the full and the reduced run *)
Definition steps (Sh : list nat) (G : list (list R)) (pops : list (@pop R)) (theta : R) (dj : bool) (dts : list R) (phi : list R) : list R :=
  fold_left (fun a dt => step Sh G pops theta dt dj a) dts phi.

Section Step.
  Variables (Sh : list nat) (G : list (list R)) (pops pops' : list (@pop R)) (r : nat) (pr : @pop R).
  Notation d := (length Sh).
  Notation Sh' := (dropn r Sh).
  Notation G' := (dropn r G).
  Hypothesis HG : Forall2 unit_grid G Sh.
  Hypothesis Hr : (r < d)%nat.
  Hypothesis Hwf : length pops = d.
  Hypothesis Hpr : nth_error pops r = Some pr.
  (** every population other than r: no selection, no incoming migration; same size, beta and flags in the reduced run *)
  Hypothesis Hpp : Forall2 iso_pair (dropn r pops) pops'.
  Notation marg := (marginal_out Sh G r).
  Notation A := (firstn r Sh).
  Notation C := (skipn (S r) Sh).
  Notation nr := (nth r Sh 0%nat).
  Notation GA := (firstn r G).
  Notation GC := (skipn (S r) G).
  Notation gr := (nth r G []).

  Lemma st_Glen : length G = d.
  Proof. exact (F2_length _ _ _ HG). Qed.
  Lemma st_ES : Sh = A ++ nr :: C.
  Proof. apply list_split_nth. exact Hr. Qed.
  Lemma st_EG : G = GA ++ gr :: GC.
  Proof. apply list_split_nth. rewrite st_Glen. exact Hr. Qed.
  Lemma st_Er : length A = r.
  Proof. rewrite firstn_length. apply Nat.min_l, Nat.lt_le_incl. exact Hr. Qed.
  Lemma st_EGA : length GA = r.
  Proof. rewrite firstn_length, st_Glen. apply Nat.min_l, Nat.lt_le_incl. exact Hr. Qed.
  Lemma st_gr : unit_grid gr nr.
  Proof. apply (F2_nth _ _ _ HG). rewrite st_Glen. exact Hr. Qed.
  Lemma st_G' : Forall2 unit_grid G' Sh'.
  Proof. apply F2_dropn. exact HG. Qed.
  Lemma st_ge2 : forall n, In n Sh -> (2 <= n)%nat.
  Proof.
    intros n Hin. destruct (In_nth _ _ 0%nat Hin) as (i & Hi & <-).
    pose proof (F2_nth _ _ _ HG i [] 0%nat ltac:(rewrite st_Glen; exact Hi)) as (_ & Hn & _). lia.
  Qed.
  Lemma st_d' : length Sh' = (d - 1)%nat.
  Proof. apply dropn_length. exact Hr. Qed.
  Lemma marg_length (X : list R) : length (marg X) = prodn Sh'.
  Proof. apply (marginal_out_length_mi _ _ _ _ G _ st_ES st_Er). Qed.

  (** corresponding entries of the two runs' population lists *)
  Definition ent_rel (e e' : nat * @pop R) : Prop :=
    (fst e < d)%nat /\ fst e <> r /\ fst e' = red_axis r (fst e) /\
    nth_error pops (fst e) = Some (snd e) /\ nth_error pops' (fst e') = Some (snd e') /\ iso_pair (snd e) (snd e').

  Lemma ent_rel_segment : forall P P', Forall2 iso_pair P P' -> forall s s',
    (forall i, (i < length P)%nat -> (s + i < d)%nat /\ (s + i)%nat <> r /\ (s' + i)%nat = red_axis r (s + i)) ->
    (forall i p, nth_error P i = Some p -> nth_error pops (s + i) = Some p) ->
    (forall i p', nth_error P' i = Some p' -> nth_error pops' (s' + i) = Some p') ->
    Forall2 ent_rel (combine (seq s (length P)) P) (combine (seq s' (length P')) P').
  Proof.
    induction 1 as [|p p' P P' Hp HP IH]; intros s s' Hidx Hn Hn'; [constructor|].
    cbn [length seq combine]. constructor.
    - destruct (Hidx 0%nat ltac:(cbn; lia)) as (H1 & H2 & H3). rewrite !Nat.add_0_r in *.
      unfold ent_rel. cbn [fst snd]. split; [exact H1|]. split; [exact H2|]. split; [exact H3|].
      split; [|split; [|exact Hp]].
      + specialize (Hn 0%nat p eq_refl). rewrite Nat.add_0_r in Hn. exact Hn.
      + specialize (Hn' 0%nat p' eq_refl). rewrite Nat.add_0_r in Hn'. exact Hn'.
    - apply IH.
      + intros i Hi. specialize (Hidx (S i) ltac:(cbn; lia)). rewrite !Nat.add_succ_r in Hidx. exact Hidx.
      + intros i q Hq. specialize (Hn (S i) q Hq). rewrite Nat.add_succ_r in Hn. exact Hn.
      + intros i q Hq. specialize (Hn' (S i) q Hq). rewrite Nat.add_succ_r in Hn'. exact Hn'.
  Qed.

  (** the two population lists split at r *)
  Lemma pops_split : exists PA PC PA' PC',
    pops = PA ++ pr :: PC /\ pops' = PA' ++ PC' /\ length PA = r /\ length PA' = r /\
    combine (seq 0 d) pops = combine (seq 0 r) PA ++ (r, pr) :: combine (seq (S r) (length PC)) PC /\
    combine (seq 0 (length Sh')) pops' = combine (seq 0 r) PA' ++ combine (seq r (length PC')) PC' /\
    Forall2 ent_rel (combine (seq 0 r) PA) (combine (seq 0 r) PA') /\
    Forall2 ent_rel (combine (seq (S r) (length PC)) PC) (combine (seq r (length PC')) PC').
  Proof.
    destruct (split_at pops r ltac:(rewrite Hwf; exact Hr)) as (PA & y & PC & E & HPA).
    assert (y = pr). { rewrite E, (nth_error_app_len PA y PC r HPA) in Hpr. congruence. } subst y.
    pose proof Hpp as Hpp'. rewrite E, dropn_app_len in Hpp' by exact HPA.
    destruct (Forall2_app_inv_l _ _ Hpp') as (PA' & PC' & HA' & HC' & E').
    assert (HPA' : length PA' = r) by (rewrite <- (F2_length _ _ _ HA'); exact HPA).
    assert (HPC : length PC = (d - r - 1)%nat).
    { rewrite <- Hwf, E, app_length. cbn [length]. lia. }
    assert (HPC' : length PC' = (d - r - 1)%nat) by (rewrite <- (F2_length _ _ _ HC'); exact HPC).
    exists PA, PC, PA', PC'. split; [exact E|]. split; [exact E'|]. split; [exact HPA|]. split; [exact HPA'|].
    split; [|split; [|split]].
    - replace d with (r + S (length PC))%nat by lia. rewrite seq_app, E. cbn [plus seq].
      rewrite combine_app_len by (rewrite seq_length; symmetry; exact HPA). reflexivity.
    - rewrite st_d'. replace (d - 1)%nat with (r + length PC')%nat by lia. rewrite seq_app, E'. cbn [plus].
      rewrite combine_app_len by (rewrite seq_length; symmetry; exact HPA'). reflexivity.
    - rewrite <- HPA at 1. rewrite <- HPA'. apply ent_rel_segment; [exact HA'| | |].
      + intros i Hi. cbn [plus]. unfold red_axis. destruct (Nat.ltb_spec i r); lia.
      + intros i p Hp. cbn [plus]. rewrite E. rewrite nth_error_app1; [exact Hp|]. apply nth_error_Some. congruence.
      + intros i p Hp. cbn [plus]. rewrite E'. rewrite nth_error_app1; [exact Hp|]. apply nth_error_Some. congruence.
    - apply ent_rel_segment; [exact HC'| | |].
      + intros i Hi. unfold red_axis. destruct (Nat.ltb_spec (S r + i) r); lia.
      + intros i p Hp. rewrite E. rewrite nth_error_app2 by lia. rewrite HPA.
        replace (S r + i - r)%nat with (S i) by lia. exact Hp.
      + intros i p Hp. rewrite E'. rewrite nth_error_app2 by lia. rewrite HPA'.
        replace (r + i - r)%nat with i by lia. exact Hp.
  Qed.

  Variable theta : R.

  (** (D) influx of the populations other than r *)
  Lemma inj_step_related dt (X : list R) e e' : ent_rel e e' -> length X = prodn Sh ->
    marg (inj_f Sh G theta dt X e) = inj_f Sh' G' theta dt (marg X) e' /\ length (inj_f Sh G theta dt X e) = prodn Sh.
  Proof.
    destruct e as [k p], e' as [k' p']. unfold ent_rel. cbn [fst snd].
    intros (Hk & Hkr & Ek' & _ & _ & (_ & _ & _ & _ & Hfr & Hnm)) HX. unfold inj_f. rewrite Hfr, Hnm.
    destruct (p_frozen p || p_nomut p); [split; [reflexivity|exact HX]|].
    split; [|rewrite add_at_length; exact HX].
    destruct (unit_ix_split A nr C Sh r k st_ES st_Er st_ge2) as (uA & uC & Eu & HuA & HuC & Hne & _).
    destruct (Nat.eqb_spec r k) as [E|_]; [congruence|].
    rewrite Eu.
    rewrite (marginal_add_at A C nr GA GC gr Sh G r st_ES st_EG st_Er st_EGA (proj1 st_gr) X uA 0%nat uC _ HX HuA ltac:(destruct st_gr as (_ & ? & _); lia) HuC).
    rewrite (Hne Hkr), st_d', Ek'. f_equal.
    rewrite <- st_Glen. apply (inject_amount_reduced G Sh r k theta dt HG); rewrite ?st_Glen; assumption.
  Qed.
  Lemma inj_fold_related dt l l' : Forall2 ent_rel l l' -> forall X : list R, length X = prodn Sh ->
    marg (fold_left (inj_f Sh G theta dt) l X) = fold_left (inj_f Sh' G' theta dt) l' (marg X) /\
    length (fold_left (inj_f Sh G theta dt) l X) = prodn Sh.
  Proof.
    induction 1 as [|e e' l l' He Hl IH]; intros X HX; cbn [fold_left]; [split; [reflexivity|exact HX]|].
    destruct (inj_step_related dt X e e' He HX) as [E1 E2]. rewrite <- E1. apply IH. exact E2.
  Qed.
  Lemma inj_fold_respects dt l' (X Y : list R) : agree_off_corners Sh' G' X Y ->
    agree_off_corners Sh' G' (fold_left (inj_f Sh' G' theta dt) l' X) (fold_left (inj_f Sh' G' theta dt) l' Y).
  Proof.
    revert X Y. induction l' as [|[k p] l' IH]; intros X Y HXY; cbn [fold_left]; [exact HXY|].
    apply IH. unfold inj_f. destruct (p_frozen p || p_nomut p); [exact HXY|]. apply add_at_respects. exact HXY.
  Qed.
  (** ... and of r itself: it lands at the all-0 corner of the reduced array *)
  Lemma inj_r dt (X : list R) : length X = prodn Sh ->
    agree_off_corners Sh' G' (marg (inj_f Sh G theta dt X (r, pr))) (marg X) /\ length (inj_f Sh G theta dt X (r, pr)) = prodn Sh.
  Proof.
    intros HX. unfold inj_f. destruct (p_frozen pr || p_nomut pr); [split; [apply agree_refl; apply marg_length|exact HX]|].
    split; [|rewrite add_at_length; exact HX].
    destruct (unit_ix_split A nr C Sh r r st_ES st_Er st_ge2) as (uA & uC & Eu & HuA & HuC & _ & Hz).
    rewrite Nat.eqb_refl in Eu. rewrite Eu.
    rewrite (marginal_add_at A C nr GA GC gr Sh G r st_ES st_EG st_Er st_EGA (proj1 st_gr) X uA 1%nat uC _ HX HuA ltac:(destruct st_gr as (_ & ? & _); lia) HuC).
    assert (Hv : Forall2 lt (uA ++ uC) Sh') by (apply Forall2_app; assumption).
    apply (add_at_corner Sh' G' (marg X) (uA ++ uC)); [exact Hv | | apply marg_length].
    apply (all_zero_is_corner G' Sh' st_G'); [apply Hz; reflexivity | exact (F2_length _ _ _ Hv)].
  Qed.

  Theorem inject_related dt (X Y : list R) : length X = prodn Sh -> agree_off_corners Sh' G' (marg X) Y ->
    agree_off_corners Sh' G' (marg (inject Sh G pops theta dt X)) (inject Sh' G' pops' theta dt Y) /\
    length (inject Sh G pops theta dt X) = prodn Sh.
  Proof.
    intros HX HXY. rewrite !inject_as_fold.
    destruct pops_split as (PA & PC & PA' & PC' & _ & _ & _ & _ & EL & EL' & RA & RC).
    rewrite EL, EL'. rewrite !fold_left_app. cbn [fold_left].
    destruct (inj_fold_related dt _ _ RA X HX) as [E1 L1].
    destruct (inj_r dt _ L1) as [E2 L2].
    destruct (inj_fold_related dt _ _ RC _ L2) as [E3 L3].
    split; [|exact L3]. rewrite E3.
    apply inj_fold_respects. apply (agree_trans _ _ _ _ _ E2). rewrite E1. apply inj_fold_respects. exact HXY.
  Qed.

  (** (B, C, E) the sweeps *)
  Variable dt : R.
  Hypothesis Hdt : dt <> 0.
  Variable dj : bool.
  Hypothesis Hns : nonsingular_axis Sh G pr dj dt r.

  Lemma swp_fold_related l l' : Forall2 ent_rel l l' -> forall X Y : list R, length X = prodn Sh ->
    agree_off_corners Sh' G' (marg X) Y ->
    agree_off_corners Sh' G' (marg (fold_left (swp_f Sh G pops dt dj) l X)) (fold_left (swp_f Sh' G' pops' dt dj) l' Y) /\
    length (fold_left (swp_f Sh G pops dt dj) l X) = prodn Sh.
  Proof.
    induction 1 as [|[k p] [k' p'] l l' He Hl IH]; intros X Y HX HXY; cbn [fold_left]; [split; assumption|].
    unfold ent_rel in He. cbn [fst snd] in He. destruct He as (Hk & Hkr & Ek' & Hp & Hp' & Hiso).
    pose proof Hiso as (_ & _ & _ & Hiso' & Hfr & _).
    change (swp_f Sh G pops dt dj X (k, p)) with (if p_frozen p then X else sweep Sh G pops k dt dj X).
    change (swp_f Sh' G' pops' dt dj Y (k', p')) with (if p_frozen p' then Y else sweep Sh' G' pops' k' dt dj Y).
    rewrite Hfr. destruct (p_frozen p); [apply IH; assumption|].
    apply IH.
    - rewrite (sweep_length Sh G pops k dt dj X) by (rewrite Hwf; exact Hk). symmetry. apply (total_size Sh k Hk).
    - subst k'. apply (agree_trans _ _ _ (sweep Sh' G' pops' (red_axis r k) dt dj (marg X))).
      + apply (marginal_sweep_other_axis Sh G pops pops' r k p p'); assumption.
      + apply (sweep_respects_agree Sh' G' pops' (red_axis r k) p'); try assumption; [exact st_G'|].
        rewrite st_d'. unfold red_axis. destruct (Nat.ltb_spec k r); lia.
  Qed.
  Lemma swp_r (X Y : list R) : length X = prodn Sh -> agree_off_corners Sh' G' (marg X) Y ->
    agree_off_corners Sh' G' (marg (swp_f Sh G pops dt dj X (r, pr))) Y /\ length (swp_f Sh G pops dt dj X (r, pr)) = prodn Sh.
  Proof.
    intros HX HXY. unfold swp_f. destruct (p_frozen pr); [split; assumption|]. split.
    - apply (agree_trans _ _ _ (marg X)); [|exact HXY].
      apply (marginal_sweep_same_axis Sh G pops r pr); assumption.
    - rewrite (sweep_length Sh G pops r dt dj X) by (rewrite Hwf; exact Hr). symmetry. apply (total_size Sh r Hr).
  Qed.

  (** (F) one step: if the marginal of X agrees with Y off the corners, so do the stepped arrays *)
  Theorem isolated_marginal_step_gen (X Y : list R) : length X = prodn Sh -> agree_off_corners Sh' G' (marg X) Y ->
    agree_off_corners Sh' G' (marg (step Sh G pops theta dt dj X)) (step Sh' G' pops' theta dt dj Y) /\
    length (step Sh G pops theta dt dj X) = prodn Sh.
  Proof.
    intros HX HXY. rewrite !step_as_fold.
    destruct (inject_related dt X Y HX HXY) as [E0 L0].
    destruct pops_split as (PA & PC & PA' & PC' & _ & _ & _ & _ & EL & EL' & RA & RC).
    rewrite EL, EL'. rewrite !fold_left_app. cbn [fold_left].
    destruct (swp_fold_related _ _ RA _ _ L0 E0) as [E1 L1].
    destruct (swp_r _ _ L1 E1) as [E2 L2].
    apply (swp_fold_related _ _ RC _ _ L2 E2).
  Qed.
End Step.

(** ** the statements for the marginal itself *)
Section Main.
  Variables (Sh : list nat) (G : list (list R)) (pops pops' : list (@pop R)) (r : nat) (pr : @pop R).
  Hypothesis HG : Forall2 unit_grid G Sh.
  Hypothesis Hr : (r < length Sh)%nat.
  Hypothesis Hwf : length pops = length Sh.
  Hypothesis Hpr : nth_error pops r = Some pr.
  Hypothesis Hpp : Forall2 iso_pair (dropn r pops) pops'.
  Variable theta : R.
  Variable dj : bool.
  Notation Sh' := (dropn r Sh).
  Notation G' := (dropn r G).
  Notation marg := (marginal_out Sh G r).

  (** (F) *)
  Theorem isolated_marginal_step dt (phi : list R) : dt <> 0 -> nonsingular_axis Sh G pr dj dt r -> length phi = prodn Sh ->
    agree_off_corners Sh' G' (marg (step Sh G pops theta dt dj phi)) (step Sh' G' pops' theta dt dj (marg phi)).
  Proof.
    intros Hdt Hns Hphi.
    apply (isolated_marginal_step_gen Sh G pops pops' r pr HG Hr Hwf Hpr Hpp theta dt Hdt dj Hns phi (marg phi) Hphi).
    apply agree_refl. apply (marg_length Sh G r Hr).
  Qed.

  Theorem isolated_marginal_steps_gen dts : (forall dt, In dt dts -> dt <> 0 /\ nonsingular_axis Sh G pr dj dt r) ->
    forall X Y : list R, length X = prodn Sh -> agree_off_corners Sh' G' (marg X) Y ->
    agree_off_corners Sh' G' (marg (steps Sh G pops theta dj dts X)) (steps Sh' G' pops' theta dj dts Y) /\
    length (steps Sh G pops theta dj dts X) = prodn Sh.
  Proof.
    unfold steps. induction dts as [|dt dts IH]; intros Hdts X Y HX HXY; cbn [fold_left]; [split; assumption|].
    destruct (Hdts dt (or_introl eq_refl)) as [Hdt Hns].
    destruct (isolated_marginal_step_gen Sh G pops pops' r pr HG Hr Hwf Hpr Hpp theta dt Hdt dj Hns X Y HX HXY) as [E L].
    apply IH; [intros; apply Hdts; right; assumption | exact L | exact E].
  Qed.

  (** any number of steps, the same time steps in both runs *)
  Theorem isolated_marginal_steps dts (phi : list R) :
    (forall dt, In dt dts -> dt <> 0 /\ nonsingular_axis Sh G pr dj dt r) -> length phi = prodn Sh ->
    agree_off_corners Sh' G' (marg (steps Sh G pops theta dj dts phi)) (steps Sh' G' pops' theta dj dts (marg phi)).
  Proof.
    intros Hdts Hphi. apply (isolated_marginal_steps_gen dts Hdts phi (marg phi) Hphi).
    apply agree_refl. apply (marg_length Sh G r Hr).
  Qed.

  (** ... on flat indices: every entry of the reduced array except the first (all-0 corner) and the last (all-1 corner) *)
  Theorem isolated_marginal_steps_flat dts (phi : list R) :
    (forall dt, In dt dts -> dt <> 0 /\ nonsingular_axis Sh G pr dj dt r) -> length phi = prodn Sh ->
    length (marg (steps Sh G pops theta dj dts phi)) = length (steps Sh' G' pops' theta dj dts (marg phi)) /\
    forall j, (0 < j < prodn Sh' - 1)%nat ->
      nthF (marg (steps Sh G pops theta dj dts phi)) j = nthF (steps Sh' G' pops' theta dj dts (marg phi)) j.
  Proof.
    intros Hdts Hphi. apply (agree_off_corners_flat Sh' G'); [apply F2_dropn; exact HG|].
    apply isolated_marginal_steps; assumption.
  Qed.

  (** the constant-parameter driver: when both runs choose the same time step, the reduced run terminates whenever the
      full run does and the marginal of the full result agrees with the reduced result off the corners *)
  Theorem isolated_marginal_integrate_const tf : 0 < tf -> dt_of tf pops = dt_of tf pops' ->
    (forall dt, 0 < dt -> nonsingular_axis Sh G pr dj dt r) ->
    forall fuel t T (X Y RX : list R), length X = prodn Sh -> agree_off_corners Sh' G' (marg X) Y ->
    integrate_const fuel Sh G pops theta tf dj t T X = Some RX ->
    exists RY, integrate_const fuel Sh' G' pops' theta tf dj t T Y = Some RY /\ agree_off_corners Sh' G' (marg RX) RY.
  Proof.
    intros Htf Edt Hns. induction fuel as [|fuel IH]; intros t T X Y RX HX HXY Hres; cbn [integrate_const] in *;
      unfold nltb in *; numR.
    - destruct (Rleb T t); cbn [negb] in *; [|discriminate]. injection Hres as <-. exists Y. split; [reflexivity|exact HXY].
    - destruct (Rleb T t) eqn:ET; cbn [negb] in *; [injection Hres as <-; exists Y; split; [reflexivity|exact HXY]|].
      apply Rleb_false in ET. rewrite <- Edt.
      set (this_dt := match dt_of tf pops with Some dt => nmin dt (T - t) | None => T - t end) in *.
      assert (Hd : 0 < this_dt).
      { unfold this_dt. destruct (dt_of tf pops) as [dt|] eqn:E; [|lra].
        pose proof (dt_of_pos tf Htf pops dt E). unfold nmin. numR. destruct (Rleb dt (T - t)); lra. }
      destruct (isolated_marginal_step_gen Sh G pops pops' r pr HG Hr Hwf Hpr Hpp theta this_dt ltac:(lra) dj (Hns _ Hd) X Y HX HXY) as [E L].
      apply (IH _ _ _ _ _ L E Hres).
  Qed.
End Main.

(** ** when r is itself isolated (positive size and beta) no pivot can vanish: the hypothesis is then automatic *)
Lemma isolated_pivots_nonzero (g : list R) n nu beta c0 c1 dt dj (phi : list R) : unit_grid g n -> 0 < nu -> 0 < beta -> 0 < dt ->
  nonzero (all_pivots (line_rows g (Vfunc_beta nu beta) (fun _ => 0) nu c0 c1 dt dj phi)).
Proof.
  intros Hg Hnu Hbeta Hdt. pose proof Hg as (Hl & Hn & H0 & H1 & Hdx). subst n.
  assert (HV : forall i, (i < length g)%nat -> 0 <= Vfunc_beta nu beta (x g i)).
  { intros i Hi. unfold x. assert (0 <= nthF g i <= 1) as [Hlo Hhi].
    { split.
      - destruct (Nat.eq_dec i 0) as [->|Hne]; [lra|]. pose proof (unit_grid_mono g _ Hg i 0%nat ltac:(lia) Hi). lra.
      - destruct (Nat.eq_dec i (length g - 1)) as [->|Hne]; [lra|].
        pose proof (unit_grid_mono g _ Hg (length g - 1)%nat i ltac:(lia) ltac:(lia)). lra. }
    unfold Vfunc_beta, n4, n2. numR.
    apply Rmult_le_pos; [|left; apply Rinv_0_lt_compat; nra].
    apply Rmult_le_pos; [|nra]. apply Rmult_le_pos; [left; apply Rdiv_lt_0_compat; lra|]. nra. }
  apply line_pivots_nonzero; try assumption; try lia.
  - intros i Hi. unfold atemp. numR. pose proof (Hdx i Hi) as Hd. pose proof (HV i ltac:(lia)) as Hv.
    rewrite Rmult_0_l, Rplus_0_l. apply Rmult_le_pos; [exact Hv|]. left. apply Rinv_0_lt_compat. unfold n2. numR. lra.
  - intros i Hi. unfold ctemp. numR. pose proof (Hdx i Hi) as Hd. pose proof (HV (S i) ltac:(lia)) as Hv.
    rewrite Ropp_0, Rmult_0_l, Rplus_0_l. apply Rmult_le_pos; [exact Hv|]. left. apply Rinv_0_lt_compat. unfold n2. numR. lra.
Qed.

Lemma nonsingular_axis_isolated Sh G (p : @pop R) dj dt r : Forall2 unit_grid G Sh -> (r < length Sh)%nat ->
  isolated p -> 0 < p_nu p -> 0 < p_beta p -> 0 < dt -> nonsingular_axis Sh G p dj dt r.
Proof.
  intros HG Hr [Hga Hms] Hnu Hbeta Hdt o q phi Ho Hq.
  rewrite Hga, (Mfunc_isolated _ _ _ Hms).
  apply (isolated_pivots_nonzero _ (nth r Sh 0%nat)); try assumption.
  apply (F2_nth _ _ _ HG). rewrite (F2_length _ _ _ HG). exact Hr.
Qed.

(** ** (G) a subset of populations: integrate several populations out, one after another *)
(** integrating r out maps arrays that agree off the corners to arrays that agree off the corners *)
Section MargRespects.
  Variables (A C : list nat) (nr : nat) (GA GC : list (list R)) (gr : list R).
  Variables (Sh : list nat) (G : list (list R)) (r : nat).
  Hypothesis ES : Sh = A ++ nr :: C.
  Hypothesis EG : G = GA ++ gr :: GC.
  Hypothesis Er : length A = r.
  Hypothesis EGA : length GA = r.
  Hypothesis Hgr : length gr = nr.

  Lemma marginal_respects_agree_mi (U V : list R) : agree_off_corners Sh G U V ->
    agree_off_corners (A ++ C) (GA ++ GC) (marginal_out Sh G r U) (marginal_out Sh G r V).
  Proof.
    intros (HU & HV & HUV).
    split; [apply (marginal_out_length_mi _ _ _ _ G _ ES Er)|]. split; [apply (marginal_out_length_mi _ _ _ _ G _ ES Er)|].
    intros ix Hv [Hn0 Hn1]. destruct (Forall2_app_inv_r _ _ Hv) as (iA & iC & HA & HC & ->).
    assert (ElA : length GA = length iA) by (rewrite EGA, <- Er; symmetry; exact (F2_length _ _ _ HA)).
    rewrite coords_app in Hn0, Hn1 by exact ElA.
    rewrite !(marginal_out_mi _ _ _ _ _ _ _ _ _ ES EG Er EGA (A ++ C) _ _ _ eq_refl Hgr HA HC).
    apply rsum_ext. intros j Hj. f_equal. apply HUV; [apply (mi_valid _ _ _ _ ES); assumption|].
    unfold noncorner. rewrite EG, coords_mid by exact ElA.
    rewrite !all_eq_app, !all_eq_cons in *. split; bool_cases.
  Qed.
End MargRespects.

Theorem marginal_respects_agree Sh G r (U V : list R) : Forall2 unit_grid G Sh -> (r < length Sh)%nat ->
  agree_off_corners Sh G U V ->
  agree_off_corners (dropn r Sh) (dropn r G) (marginal_out Sh G r U) (marginal_out Sh G r V).
Proof.
  intros HG Hr.
  apply (marginal_respects_agree_mi (firstn r Sh) (skipn (S r) Sh) (nth r Sh 0%nat) (firstn r G) (skipn (S r) G) (nth r G [])
           Sh G r (st_ES Sh r Hr) (st_EG Sh G r HG Hr) (st_Er Sh r Hr) (st_EGA Sh G r HG Hr) (proj1 (st_gr Sh G r HG Hr))).
Qed.

Lemma step_length Sh G pops theta dt dj (X : list R) : length pops = length Sh -> length X = prodn Sh ->
  length (step Sh G pops theta dt dj X) = prodn Sh.
Proof.
  intros Hwf HX. rewrite step_as_fold.
  assert (HI : length (inject Sh G pops theta dt X) = prodn Sh).
  { rewrite inject_as_fold. revert X HX. generalize (combine (seq 0 (length Sh)) pops). intros l.
    induction l as [|[k p] l IH]; intros X HX; cbn [fold_left]; [exact HX|]. apply IH. unfold inj_f.
    destruct (p_frozen p || p_nomut p); [exact HX|]. rewrite add_at_length. exact HX. }
  assert (Hin : forall k p, In (k, p) (combine (seq 0 (length Sh)) pops) -> (k < length Sh)%nat).
  { intros k p Hin. apply in_combine_l in Hin. apply in_seq in Hin. lia. }
  revert Hin HI. generalize (inject Sh G pops theta dt X). generalize (combine (seq 0 (length Sh)) pops). intros l.
  induction l as [|[k p] l IH]; intros Z Hin HZ; cbn [fold_left]; [exact HZ|].
  apply IH; [intros; eapply Hin; right; eassumption|]. unfold swp_f. destruct (p_frozen p); [exact HZ|].
  assert (Hk : (k < length Sh)%nat) by (apply (Hin k p); left; reflexivity).
  rewrite (sweep_length Sh G pops k dt dj Z) by (rewrite Hwf; exact Hk). symmetry. apply (total_size Sh k Hk).
Qed.
Lemma steps_length Sh G pops theta dj dts (X : list R) : length pops = length Sh -> length X = prodn Sh ->
  length (steps Sh G pops theta dj dts X) = prodn Sh.
Proof.
  intros Hwf. unfold steps. revert X. induction dts as [|dt dts IH]; intros X HX; cbn [fold_left]; [exact HX|].
  apply IH. apply step_length; assumption.
Qed.

Fixpoint marginal_outs (Sh : list nat) (G : list (list R)) (rs : list nat) (phi : list R) : list R :=
  match rs with
  | [] => phi
  | r :: rs' => marginal_outs (dropn r Sh) (dropn r G) rs' (marginal_out Sh G r phi)
  end.
Fixpoint dropns {T} (rs : list nat) (l : list T) : list T :=
  match rs with [] => l | r :: rs' => dropns rs' (dropn r l) end.

(** the populations are removed one at a time (each index refers to the array that is left); pops is the population
    list of the full run, popsF that of the run with only the remaining populations; the first population removed may have
    any parameters, every other population is isolated *)
Inductive iso_chain (dj : bool) (dts : list R) : list nat -> list (list R) -> list (@pop R) -> list nat -> list (@pop R) -> Prop :=
| ic_nil Sh G pops : length pops = length Sh -> iso_chain dj dts Sh G pops [] pops
| ic_cons Sh G pops r pr pops1 rs popsF :
    (r < length Sh)%nat -> length pops = length Sh -> nth_error pops r = Some pr ->
    Forall2 iso_pair (dropn r pops) pops1 ->
    (forall dt, In dt dts -> nonsingular_axis Sh G pr dj dt r) ->
    iso_chain dj dts (dropn r Sh) (dropn r G) pops1 rs popsF ->
    iso_chain dj dts Sh G pops (r :: rs) popsF.

Lemma marginal_outs_respects dj dts Sh G pops rs popsF : iso_chain dj dts Sh G pops rs popsF -> Forall2 unit_grid G Sh ->
  forall U V : list R, agree_off_corners Sh G U V ->
  agree_off_corners (dropns rs Sh) (dropns rs G) (marginal_outs Sh G rs U) (marginal_outs Sh G rs V).
Proof.
  induction 1 as [|Sh G pops r pr pops1 rs popsF Hr Hwf Hpr Hpp Hns Hch IH]; intros HG U V HUV; cbn [marginal_outs dropns]; [exact HUV|].
  apply IH; [apply F2_dropn; exact HG|]. apply marginal_respects_agree; assumption.
Qed.

Theorem isolated_subset_marginal_steps dj dts theta : (forall dt, In dt dts -> dt <> 0) ->
  forall Sh G pops rs popsF, iso_chain dj dts Sh G pops rs popsF -> Forall2 unit_grid G Sh ->
  forall phi : list R, length phi = prodn Sh ->
  agree_off_corners (dropns rs Sh) (dropns rs G)
    (marginal_outs Sh G rs (steps Sh G pops theta dj dts phi))
    (steps (dropns rs Sh) (dropns rs G) popsF theta dj dts (marginal_outs Sh G rs phi)).
Proof.
  intros Hdts Sh G pops rs popsF Hch.
  induction Hch as [Sh G pops Hwf|Sh G pops r pr pops1 rs popsF Hr Hwf Hpr Hpp Hns Hch IH]; intros HG phi Hphi; cbn [marginal_outs dropns].
  - apply agree_refl. apply steps_length; assumption.
  - apply (agree_trans _ _ _ (marginal_outs (dropn r Sh) (dropn r G) rs (steps (dropn r Sh) (dropn r G) pops1 theta dj dts (marginal_out Sh G r phi)))).
    + apply (marginal_outs_respects dj dts _ _ pops1 rs popsF Hch); [apply F2_dropn; exact HG|].
      apply (isolated_marginal_steps Sh G pops pops1 r pr HG Hr Hwf Hpr Hpp theta dj dts phi); [|exact Hphi].
      intros dt Hin. split; [apply Hdts; exact Hin | apply Hns; exact Hin].
    + apply IH; [apply F2_dropn; exact HG|]. apply (marg_length Sh G r Hr).
Qed.

(** ** the hypotheses can be met *)
Example isolated_marginal_nonvacuous :
  let g := [0; 1/2; 1] in
  let Sh := [3; 3]%nat in let G := [g; g] in
  let p0 := {| p_nu := 1; p_gamma := 0; p_h := 1/2; p_beta := 1; p_ms := [0]; p_frozen := false; p_nomut := false |} in
  let p1 := {| p_nu := 2; p_gamma := 0; p_h := 1/2; p_beta := 1; p_ms := [0]; p_frozen := false; p_nomut := false |} in
  let p0' := {| p_nu := 1; p_gamma := 0; p_h := 1/2; p_beta := 1; p_ms := []; p_frozen := false; p_nomut := false |} in
  let pops := [p0; p1] in let pops' := [p0'] in let r := 1%nat in
  let dts := [1/10; 1/20] in let phi := repeat 1 9 in
  Forall2 unit_grid G Sh /\ (r < length Sh)%nat /\ length pops = length Sh /\ nth_error pops r = Some p1 /\
  Forall2 iso_pair (dropn r pops) pops' /\
  (forall dt, In dt dts -> dt <> 0 /\ nonsingular_axis Sh G p1 false dt r) /\ length phi = prodn Sh /\
  (0 < prodn (dropn r Sh) - 1)%nat.
Proof.
  intros g Sh G p0 p1 p0' pops pops' r dts phi.
  assert (Hg : unit_grid g 3).
  { unfold unit_grid, g, nthF, dx, x, nthF. cbn [length nth Nat.sub]. numR. repeat split; try lia; try lra.
    intros i Hi. destruct i as [|[|i]]; cbn [nth]; try lia; lra. }
  assert (HG : Forall2 unit_grid G Sh) by (constructor; [exact Hg|constructor; [exact Hg|constructor]]).
  split; [exact HG|]. split; [cbn; lia|]. split; [reflexivity|]. split; [reflexivity|].
  split.
  { cbn. constructor; [|constructor]. unfold iso_pair, isolated. cbn. repeat split; auto. }
  split; [|split; [reflexivity|cbn; lia]].
  intros dt Hin. assert (Hdt : 0 < dt) by (cbn in Hin; destruct Hin as [<-|[<-|[]]]; lra).
  split; [lra|]. apply nonsingular_axis_isolated; try assumption; cbn; try lia; try lra.
  unfold isolated. cbn. split; auto.
Qed.

(** ** the time-dependent driver: every parameter (of r and of the others) and theta0 may vary in time *)
Theorem isolated_marginal_integrate_tdep Sh G (popsf popsf' : R -> list (@pop R)) (prf : R -> @pop R) (thetaf : R -> R) r dj tf :
  Forall2 unit_grid G Sh -> (r < length Sh)%nat ->
  (forall s, length (popsf s) = length Sh) -> (forall s, nth_error (popsf s) r = Some (prf s)) ->
  (forall s, Forall2 iso_pair (dropn r (popsf s)) (popsf' s)) ->
  0 < tf -> (forall s, dt_of tf (popsf s) = dt_of tf (popsf' s)) ->
  (forall s dt, 0 < dt -> nonsingular_axis Sh G (prf s) dj dt r) ->
  forall fuel t T (X Y RX : list R), length X = prodn Sh ->
  agree_off_corners (dropn r Sh) (dropn r G) (marginal_out Sh G r X) Y ->
  integrate_tdep fuel Sh G popsf thetaf tf dj t T X = Some RX ->
  exists RY, integrate_tdep fuel (dropn r Sh) (dropn r G) popsf' thetaf tf dj t T Y = Some RY /\
             agree_off_corners (dropn r Sh) (dropn r G) (marginal_out Sh G r RX) RY.
Proof.
  intros HG Hr Hwf Hpr Hpp Htf Edt Hns.
  induction fuel as [|fuel IH]; intros t T X Y RX HX HXY Hres; cbn [integrate_tdep] in *; unfold nltb in *; numR.
  - destruct (Rleb T t); cbn [negb] in *; [|discriminate]. injection Hres as <-. exists Y. split; [reflexivity|exact HXY].
  - destruct (Rleb T t) eqn:ET; cbn [negb] in *; [injection Hres as <-; exists Y; split; [reflexivity|exact HXY]|].
    apply Rleb_false in ET. rewrite <- Edt.
    set (this_dt := match dt_of tf (popsf t) with Some dt => nmin dt (T - t) | None => T - t end) in *.
    assert (Hd : 0 < this_dt).
    { unfold this_dt. destruct (dt_of tf (popsf t)) as [dt|] eqn:E; [|lra].
      pose proof (dt_of_pos tf Htf (popsf t) dt E). unfold nmin. numR. destruct (Rleb dt (T - t)); lra. }
    destruct (isolated_marginal_step_gen Sh G (popsf (t + this_dt)) (popsf' (t + this_dt)) r (prf (t + this_dt)) HG Hr
                (Hwf _) (Hpr _) (Hpp _) (thetaf (t + this_dt)) this_dt ltac:(lra) dj (Hns _ _ Hd) X Y HX HXY) as [E L].
    apply (IH _ _ _ _ _ L E Hres).
Qed.

(** ** the canonical reduced population list: drop population r, and from every other population's migration list the
    entry that refers to r *)
Definition reduce_pop (r k : nat) (p : @pop R) : @pop R :=
  {| p_nu := p_nu p; p_gamma := p_gamma p; p_h := p_h p; p_beta := p_beta p;
     p_ms := dropn (if Nat.ltb r k then r else (r - 1)%nat) (p_ms p);
     p_frozen := p_frozen p; p_nomut := p_nomut p |}.
Definition reduce_pops (r : nat) (pops : list (@pop R)) : list (@pop R) :=
  map (fun kp => reduce_pop r (fst kp) (snd kp)) (dropn r (combine (seq 0 (length pops)) pops)).

Lemma map_dropn {T U} (f : T -> U) r l : map f (dropn r l) = dropn r (map f l).
Proof. unfold dropn. rewrite map_app, firstn_map, skipn_map. reflexivity. Qed.
Lemma map_snd_combine_seq {T} (l : list T) : forall s, map snd (combine (seq s (length l)) l) = l.
Proof. induction l as [|y l IH]; intros s; [reflexivity|]. cbn [length seq combine map snd]. rewrite IH. reflexivity. Qed.

Lemma Forall_firstn' {T} (P : T -> Prop) l : Forall P l -> forall n, Forall P (firstn n l).
Proof. induction 1; intros [|n]; cbn [firstn]; constructor; auto. Qed.
Lemma Forall_skipn' {T} (P : T -> Prop) l : Forall P l -> forall n, Forall P (skipn n l).
Proof. induction 1 as [|y l Hy Hl IH]; intros [|n]; cbn [skipn]; try constructor; auto. Qed.

Lemma reduce_pops_iso r pops : Forall isolated (dropn r pops) -> Forall2 iso_pair (dropn r pops) (reduce_pops r pops).
Proof.
  unfold reduce_pops. rewrite <- (map_snd_combine_seq pops 0) at 1 2. rewrite <- map_dropn.
  generalize (dropn r (combine (seq 0 (length pops)) pops)). intros l Hl.
  induction l as [|[k p] l IH]; cbn [map]; [constructor|]. cbn [map] in Hl. inversion Hl as [|? ? Hp Hl']; subst.
  constructor; [|apply IH; exact Hl'].
  cbn [fst snd] in *. unfold iso_pair, reduce_pop. cbn [p_nu p_beta p_gamma p_ms p_frozen p_nomut].
  destruct Hp as [Hga Hms]. repeat split; try assumption; try reflexivity.
  unfold dropn. apply Forall_app. split; [apply Forall_firstn' | apply Forall_skipn']; exact Hms.
Qed.

Corollary isolated_marginal_steps_canonical Sh G pops r (pr : @pop R) theta dj dts (phi : list R) :
  Forall2 unit_grid G Sh -> (r < length Sh)%nat -> length pops = length Sh -> nth_error pops r = Some pr ->
  Forall isolated (dropn r pops) ->
  (forall dt, In dt dts -> dt <> 0 /\ nonsingular_axis Sh G pr dj dt r) -> length phi = prodn Sh ->
  length (marginal_out Sh G r (steps Sh G pops theta dj dts phi)) =
  length (steps (dropn r Sh) (dropn r G) (reduce_pops r pops) theta dj dts (marginal_out Sh G r phi)) /\
  forall j, (0 < j < prodn (dropn r Sh) - 1)%nat ->
    nthF (marginal_out Sh G r (steps Sh G pops theta dj dts phi)) j =
    nthF (steps (dropn r Sh) (dropn r G) (reduce_pops r pops) theta dj dts (marginal_out Sh G r phi)) j.
Proof.
  intros HG Hr Hwf Hpr Hiso Hdts Hphi.
  apply (isolated_marginal_steps_flat Sh G pops (reduce_pops r pops) r pr HG Hr Hwf Hpr (reduce_pops_iso r pops Hiso)); assumption.
Qed.
