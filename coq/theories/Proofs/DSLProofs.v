(** Soundness of the C15 machinery: the expression simplifier and the program normaliser preserve the
    semantics (under the recorded side conditions and the two hypotheses on the numerical layer), the boolean
    checks [prog_eqb], [nests], [params_match_names], [equivariant] imply what their names say. *)
From Coq Require Import QArith Qreals List Bool Arith Reals Lra Lia FunctionalExtensionality.
From Dadi Require Import Model.DSL.
Import ListNotations.
Local Open Scope R_scope.

(** ** Rational constants *)
Lemma Q2R_0' : Q2R 0 = 0. Proof. unfold Q2R; simpl; lra. Qed.
Lemma Q2R_1' : Q2R 1 = 1. Proof. unfold Q2R; simpl; lra. Qed.
Lemma Qeq_bool_R x y : Qeq_bool x y = true -> Q2R x = Q2R y.
Proof. intro H. apply Qeq_eqR, Qeq_bool_eq, H. Qed.
Lemma Qred_R q : Q2R (Qred q) = Q2R q.
Proof. apply Qeq_eqR, Qred_correct. Qed.
Lemma as_const_eq e q : as_const e = Some q -> e = Const q.
Proof. destruct e; simpl; intro H; inversion H; reflexivity. Qed.
Lemma is_c_sound e q : is_c e q = true -> forall env t, eval e env t = Q2R q.
Proof.
  unfold is_c. destruct (as_const e) eqn:E; [|discriminate].
  apply as_const_eq in E; subst. intros H env t. simpl. apply Qeq_bool_R, H.
Qed.
Lemma mem_In i l : mem i l = true -> In i l.
Proof.
  unfold mem. rewrite existsb_exists. intros [x [H1 H2]]. apply Nat.eqb_eq in H2. subst; assumption.
Qed.

(** ** Expressions *)
Lemma expr_eqb_sound : forall a b, expr_eqb a b = true -> forall env t, eval a env t = eval b env t.
Proof.
  induction a; destruct b; simpl; try discriminate; intros H env t;
    repeat match goal with H : _ && _ = true |- _ => apply andb_true_iff in H; destruct H end;
    try (erewrite IHa1 by eassumption; erewrite IHa2 by eassumption; reflexivity);
    try (erewrite IHa by eassumption; reflexivity).
  - apply Nat.eqb_eq in H; subst; reflexivity.
  - reflexivity.
  - apply Qeq_bool_R, H.
Qed.

Lemma tfree_eval : forall e, tfreeb e = true -> forall env t t', eval e env t = eval e env t'.
Proof.
  induction e; simpl; try discriminate; intros H env t t';
    repeat match goal with H : _ && _ = true |- _ => apply andb_true_iff in H; destruct H end;
    try reflexivity;
    try (rewrite (IHe1 H env t t'), (IHe2 H0 env t t'); reflexivity);
    try (rewrite (IHe H env t t'); reflexivity).
Qed.

Lemma eval_ext : forall e env env' t, (forall i, In i (vars e) -> env i = env' i) -> eval e env t = eval e env' t.
Proof.
  induction e; simpl; intros env env' t H; try reflexivity;
    try (rewrite (IHe1 env env' t), (IHe2 env env' t); [reflexivity| |]; intros; apply H; apply in_or_app; auto);
    try (rewrite (IHe env env' t); [reflexivity|]; assumption).
  apply H; left; reflexivity.
Qed.

Section Side.
  Variable A : assum.
  Variable env : nat -> R.
  Hypothesis Hok : env_ok A env.

  Lemma is_pos_sound : forall e, is_pos A e = true -> forall t, 0 < eval e env t.
  Proof.
    destruct Hok as [Hp [Hn Hf]].
    induction e; simpl; try discriminate; intros H t;
      repeat match goal with H : _ && _ = true |- _ => apply andb_true_iff in H; destruct H end.
    - apply orb_true_iff in H. destruct H as [H|H]; apply mem_In in H; [apply Hp, H | apply Hf, H].
    - apply negb_true_iff in H. destruct (Qlt_le_dec 0 q) as [L|L].
      + apply Qlt_Rlt in L. rewrite Q2R_0' in L. exact L.
      + apply Qle_bool_iff in L. congruence.
    - apply Rplus_lt_0_compat; auto.
    - destruct e2; try discriminate. apply andb_true_iff in H. destruct H as [H1 H2].
      apply mem_In in H2. simpl. rewrite (is_c_sound _ _ H1), Q2R_1'. destruct (Hf _ H2). lra.
    - apply Rmult_lt_0_compat; auto.
    - apply Rdiv_lt_0_compat; auto.
    - apply exp_pos.
    - unfold Rpower. apply exp_pos.
  Qed.

  Lemma is_nonneg_sound : forall e, is_nonneg A e = true -> forall t, 0 <= eval e env t.
  Proof.
    destruct Hok as [Hp [Hn Hf]].
    induction e; intros H t; cbn [is_nonneg] in H; apply orb_true_iff in H; destruct H as [H|H];
      try (apply Rlt_le; apply (is_pos_sound _ H t)); try discriminate;
      repeat match goal with H : _ && _ = true |- _ => apply andb_true_iff in H; destruct H end.
    - apply mem_In in H. simpl. apply Hn, H.
    - simpl. apply Qle_bool_iff, Qle_Rle in H. rewrite Q2R_0' in H. exact H.
    - simpl. apply Rplus_le_le_0_compat; auto.
    - simpl. apply Rmult_le_pos; auto.
  Qed.

  (** ** Smart constructors *)
  Lemma mkAdd_sound a b t : eval (mkAdd a b) env t = eval a env t + eval b env t.
  Proof.
    unfold mkAdd. destruct (as_const a) eqn:Ea, (as_const b) eqn:Eb;
      try (apply as_const_eq in Ea); try (apply as_const_eq in Eb); subst; cbn [eval].
    - rewrite Qred_R, Q2R_plus. reflexivity.
    - destruct (Qeq_bool q 0) eqn:E; cbn [eval]; [apply Qeq_bool_R in E; rewrite E, Q2R_0'; lra | reflexivity].
    - destruct (Qeq_bool q 0) eqn:E; cbn [eval]; [apply Qeq_bool_R in E; rewrite E, Q2R_0'; lra | reflexivity].
    - reflexivity.
  Qed.

  Lemma one_minus_arg_sound b e : one_minus_arg b = Some e -> forall t, eval b env t = 1 - eval e env t.
  Proof.
    destruct b; cbn [one_minus_arg]; try discriminate. destruct (is_c b1 1) eqn:E; [|discriminate].
    intros H t. inversion H; subst. cbn [eval]. rewrite (is_c_sound _ _ E), Q2R_1'. reflexivity.
  Qed.

  Lemma add_cancel_sound a b r : add_cancel a b = Some r -> forall t, eval r env t = eval a env t - eval b env t.
  Proof.
    destruct a; cbn [add_cancel]; try discriminate.
    destruct (expr_eqb a2 b) eqn:E2.
    - intros H t. inversion H; subst. cbn [eval]. rewrite (expr_eqb_sound _ _ E2 env t). lra.
    - destruct (expr_eqb a1 b) eqn:E1; [|discriminate].
      intros H t. inversion H; subst. cbn [eval]. rewrite (expr_eqb_sound _ _ E1 env t). lra.
  Qed.

  Lemma mkSub_sound a b t : eval (mkSub a b) env t = eval a env t - eval b env t.
  Proof.
    unfold mkSub. destruct (as_const a) eqn:Ea, (as_const b) eqn:Eb.
    - apply as_const_eq in Ea, Eb; subst; cbn [eval]. rewrite Qred_R, Q2R_minus. reflexivity.
    - destruct (expr_eqb a b) eqn:E.
      + cbn [eval]. rewrite (expr_eqb_sound _ _ E env t), Q2R_0'. lra.
      + destruct (one_minus_arg b) eqn:O.
        * destruct (Qeq_bool q 1) eqn:Q1; [|reflexivity].
          apply as_const_eq in Ea; subst. cbn [eval]. rewrite (one_minus_arg_sound _ _ O t).
          apply Qeq_bool_R in Q1. rewrite Q1, Q2R_1'. lra.
        * destruct (add_cancel a b) eqn:C; [apply (add_cancel_sound _ _ _ C)|reflexivity].
    - apply as_const_eq in Eb; subst.
      destruct (Qeq_bool q 0) eqn:E; cbn [eval]; [apply Qeq_bool_R in E; rewrite E, Q2R_0'; lra | reflexivity].
    - destruct (expr_eqb a b) eqn:E.
      + cbn [eval]. rewrite (expr_eqb_sound _ _ E env t), Q2R_0'. lra.
      + destruct (add_cancel a b) eqn:C; [apply (add_cancel_sound _ _ _ C)|reflexivity].
  Qed.

  Lemma mkMul_sound a b t : eval (mkMul a b) env t = eval a env t * eval b env t.
  Proof.
    unfold mkMul. destruct (as_const a) eqn:Ea, (as_const b) eqn:Eb;
      try (apply as_const_eq in Ea); try (apply as_const_eq in Eb); subst; cbn [eval].
    - rewrite Qred_R, Q2R_mult. reflexivity.
    - destruct (Qeq_bool q 0) eqn:E; cbn [eval]; [apply Qeq_bool_R in E; rewrite E, Q2R_0'; lra |].
      destruct (Qeq_bool q 1) eqn:E1; cbn [eval]; [apply Qeq_bool_R in E1; rewrite E1, Q2R_1'; lra | reflexivity].
    - destruct (Qeq_bool q 0) eqn:E; cbn [eval]; [apply Qeq_bool_R in E; rewrite E, Q2R_0'; lra |].
      destruct (Qeq_bool q 1) eqn:E1; cbn [eval]; [apply Qeq_bool_R in E1; rewrite E1, Q2R_1'; lra | reflexivity].
    - reflexivity.
  Qed.

  Lemma mkDiv_sound a b t : eval (mkDiv A a b) env t = eval a env t / eval b env t.
  Proof.
    unfold mkDiv. destruct (as_const a) eqn:Ea, (as_const b) eqn:Eb;
      try (apply as_const_eq in Ea); try (apply as_const_eq in Eb); subst.
    - destruct (Qeq_bool q0 0) eqn:E; [reflexivity|]. cbn [eval].
      rewrite Qred_R, Q2R_div; [reflexivity|]. apply Qeq_bool_neq, E.
    - destruct (Qeq_bool q 0) eqn:E; [|reflexivity]. cbn [eval].
      apply Qeq_bool_R in E. rewrite E, Q2R_0'. unfold Rdiv. rewrite Rmult_0_l. reflexivity.
    - destruct (Qeq_bool q 1) eqn:E; [|reflexivity]. cbn [eval].
      apply Qeq_bool_R in E. rewrite E, Q2R_1'. unfold Rdiv. rewrite Rinv_1, Rmult_1_r. reflexivity.
    - destruct (expr_eqb a b && is_pos A a) eqn:E; [|reflexivity].
      apply andb_true_iff in E. destruct E as [E1 E2]. cbn [eval].
      rewrite <- (expr_eqb_sound _ _ E1 env t). pose proof (is_pos_sound _ E2 t) as P.
      rewrite Q2R_1'. field. lra.
  Qed.

  Lemma mkNeg_sound a t : eval (mkNeg a) env t = - eval a env t.
  Proof.
    unfold mkNeg. destruct (as_const a) eqn:Ea; [|reflexivity].
    apply as_const_eq in Ea; subst; cbn [eval]. rewrite Qred_R, Q2R_opp. reflexivity.
  Qed.

  Lemma mkExp_sound a t : eval (mkExp A a) env t = exp (eval a env t).
  Proof.
    unfold mkExp. destruct (is_c a 0) eqn:E.
    - cbn [eval]. rewrite (is_c_sound _ _ E), Q2R_0', Q2R_1', exp_0. reflexivity.
    - destruct a; try reflexivity. destruct (is_pos A a) eqn:P; [|reflexivity].
      cbn [eval]. rewrite exp_ln; [reflexivity|]. apply (is_pos_sound _ P t).
  Qed.

  Lemma mkLog_sound a t : eval (mkLog a) env t = ln (eval a env t).
  Proof.
    unfold mkLog. destruct (is_c a 1) eqn:E; [|reflexivity].
    cbn [eval]. rewrite (is_c_sound _ _ E), Q2R_0', Q2R_1', ln_1. reflexivity.
  Qed.

  Lemma mkPow_sound a b t : eval (mkPow A a b) env t = Rpower (eval a env t) (eval b env t).
  Proof.
    unfold mkPow. destruct (is_c a 1) eqn:E.
    - cbn [eval]. rewrite (is_c_sound _ _ E), Q2R_1'. unfold Rpower. rewrite ln_1, Rmult_0_r, exp_0. reflexivity.
    - destruct (is_c b 0) eqn:E0.
      + cbn [eval]. rewrite (is_c_sound _ _ E0), Q2R_0', Q2R_1'. unfold Rpower. rewrite Rmult_0_l, exp_0. reflexivity.
      + destruct (is_c b 1 && is_pos A a) eqn:E1; [|reflexivity].
        apply andb_true_iff in E1. destruct E1 as [E1 P].
        rewrite (is_c_sound _ _ E1), Q2R_1'. rewrite Rpower_1; [reflexivity|]. apply (is_pos_sound _ P t).
  Qed.

  Theorem simp_sound : forall e t, eval (simp A e) env t = eval e env t.
  Proof.
    induction e; intro t; cbn [simp];
      rewrite ?mkAdd_sound, ?mkSub_sound, ?mkMul_sound, ?mkDiv_sound, ?mkNeg_sound, ?mkExp_sound, ?mkLog_sound,
              ?mkPow_sound; cbn [eval]; rewrite ?Qred_R, ?IHe1, ?IHe2, ?IHe; reflexivity.
  Qed.

  Lemma simp_ev0 e : ev0 env (simp A e) = ev0 env e.
  Proof. unfold ev0. apply simp_sound. Qed.
  Lemma simp_evf e : evf env (simp A e) = evf env e.
  Proof. unfold evf. apply functional_extensionality. intro t. apply simp_sound. Qed.

  Lemma is_lt_sound x y : is_lt A x y = true -> forall t, eval x env t < eval y env t.
  Proof.
    unfold is_lt. intros H t. apply orb_true_iff in H. destruct H as [H|H].
    - apply andb_true_iff in H. destruct H as [H1 H2].
      rewrite (is_c_sound _ _ H1), Q2R_0'. apply (is_pos_sound _ H2).
    - destruct y; try discriminate. apply orb_true_iff in H. destruct H as [H|H];
        apply andb_true_iff in H; destruct H as [H1 H2]; cbn [eval];
        rewrite (expr_eqb_sound _ _ H1 env t); pose proof (is_pos_sound _ H2 t); lra.
  Qed.

  Lemma decide_ge_sound x y bb : decide_ge A x y = Some bb ->
    (if Rle_dec (ev0 env y) (ev0 env x) then true else false) = bb.
  Proof.
    unfold decide_ge, ev0. intro H.
    assert (G : forall c : bool, (c = true <-> eval y env 0 <= eval x env 0) ->
                                 (if Rle_dec (eval y env 0) (eval x env 0) then true else false) = c).
    { intros c Hc. destruct (Rle_dec (eval y env 0) (eval x env 0)) as [L|L]; destruct c; auto.
      - destruct Hc as [_ Hc]. symmetry; auto.
      - destruct Hc as [Hc _]. exfalso; auto. }
    assert (Hgen : (if expr_eqb x y then Some true else if is_c y 0 && is_nonneg A x then Some true
                    else if is_lt A x y then Some false else None) = Some bb ->
                   (if Rle_dec (eval y env 0) (eval x env 0) then true else false) = bb).
    { intro H'. destruct (expr_eqb x y) eqn:E.
      - inversion H'; subst. apply G. split; auto. intros _. rewrite (expr_eqb_sound _ _ E env 0). lra.
      - destruct (is_c y 0 && is_nonneg A x) eqn:E2.
        + inversion H'; subst.
          apply andb_true_iff in E2. destruct E2 as [E2 E3]. apply G. split; auto. intros _.
          rewrite (is_c_sound _ _ E2), Q2R_0'. apply (is_nonneg_sound _ E3).
        + destruct (is_lt A x y) eqn:E3; [|discriminate]. inversion H'; subst.
          pose proof (is_lt_sound _ _ E3 0) as L. apply G. split; [discriminate|]. intro L'. exfalso. lra. }
    destruct (as_const x) eqn:Ex; [|exact (Hgen H)].
    destruct (as_const y) eqn:Ey; [|exact (Hgen H)].
    apply as_const_eq in Ex, Ey; subst. inversion H; subst. simpl. apply G.
    rewrite Qle_bool_iff. split; [apply Qle_Rle|apply Rle_Qle].
  Qed.
End Side.

(** ** Lists *)
Lemma list_eqb_map {X Y} (eqb : X -> X -> bool) (f : X -> Y) :
  forall l1 l2, (forall x y, In x l1 -> eqb x y = true -> f x = f y) -> list_eqb eqb l1 l2 = true -> map f l1 = map f l2.
Proof.
  induction l1; destruct l2; simpl; try discriminate; intros Hs H; [reflexivity|].
  apply andb_true_iff in H. destruct H as [H1 H2]. f_equal; [apply Hs; auto | apply IHl1; auto].
Qed.
Lemma list_eqb_eq {X} (eqb : X -> X -> bool) :
  (forall x y, eqb x y = true -> x = y) -> forall l1 l2, list_eqb eqb l1 l2 = true -> l1 = l2.
Proof.
  intros Hs. induction l1; destruct l2; simpl; try discriminate; intros H; [reflexivity|].
  apply andb_true_iff in H. destruct H as [H1 H2]. f_equal; [apply Hs; auto | apply IHl1; auto].
Qed.
Lemma nat_list_eqb_eq l1 l2 : list_eqb Nat.eqb l1 l2 = true -> l1 = l2.
Proof. apply list_eqb_eq. intros x y; apply Nat.eqb_eq. Qed.
Lemma bool_list_eqb_eq l1 l2 : list_eqb Bool.eqb l1 l2 = true -> l1 = l2.
Proof. apply list_eqb_eq. intros x y; apply Bool.eqb_prop. Qed.

Lemma map_permute {X Y} (f : X -> Y) d pi l : map f (permute d pi l) = permute (f d) pi (map f l).
Proof. unfold permute. rewrite map_map. apply map_ext. intro i. symmetry. apply map_nth. Qed.

(** ** Programs *)
Section Programs.
  Variable St : Type.
  Variable o_grid : St -> St.
  Variable o_phi1d : R -> R -> R -> R -> R -> St -> St.
  Variable o_split : nat -> nat -> St -> St.
  Variable o_admixnew : nat -> list R -> St -> St.
  Variable o_pulse : nat -> list nat -> nat -> list R -> St -> St.
  Variable o_integrate : R -> list (R -> R) -> list (list (R -> R)) -> list (R -> R) -> list (R -> R) ->
                         (R -> R) -> (R -> R) -> list bool -> list bool -> St -> St.
  Variable o_remove : nat -> St -> St.
  Variable o_reorder : list nat -> St -> St.
  Variable o_fromphi : nat -> St -> St.
  Variable o_fromphi_inb : nat -> list R -> list R -> St -> St.
  Variable o_mscmd : list R -> St -> St.

  Notation semi := (sem_instr St o_grid o_phi1d o_split o_admixnew o_pulse o_integrate o_remove o_reorder o_fromphi o_fromphi_inb o_mscmd).
  Notation semp := (sem St o_grid o_phi1d o_split o_admixnew o_pulse o_integrate o_remove o_reorder o_fromphi o_fromphi_inb o_mscmd).

  (** the two facts about the numerical layer the normaliser relies on:
      dadi/Integration.py one_pop/two_pops/three_pops: [if T - initial_t == 0: return phi] (a copy);
      a pulse of proportion 0 moves nothing. *)
  Hypothesis H_T0 : forall nus ms gs hs th be fr nm s, o_integrate 0 nus ms gs hs th be fr nm s = s.
  Hypothesis H_pulse0 : forall d srcs dst fs s, Forall (fun f => f = 0) fs -> o_pulse d srcs dst fs s = s.
  (** third fact (rule [fuse] of the normaliser): directly after the first split (PhiManip.phi_1D_to_2D: a density
      concentrated on the diagonal) a third population created by admixture in ANY proportion is the split of population 2
      (phi_2D_to_3D_split_2 = phi_2D_to_3D_admix with proportion 0): on the diagonal f x + (1 - f) x = x *)
  Hypothesis H_admix_diag : forall f s, o_admixnew 2 [f] (o_split 1 0 s) = o_split 2 1 (o_split 1 0 s).

  Lemma fuse_sound i r env s : semp (fuse i r) env s = semp (Step i r) env s.
  Proof.
    destruct i; try reflexivity.
    destruct r as [|j r'|]; try reflexivity.
    destruct j; try reflexivity.
    destruct fs as [|f [|f' fs']]; try reflexivity.
    cbn [fuse].
    destruct (Nat.eqb d 1 && Nat.eqb parent 0 && Nat.eqb d0 2) eqn:E; [|reflexivity].
    apply andb_true_iff in E. destruct E as [E E3]. apply andb_true_iff in E. destruct E as [E1 E2].
    apply Nat.eqb_eq in E1, E2, E3. subst d parent d0.
    cbn [sem sem_instr map]. rewrite H_admix_diag. reflexivity.
  Qed.

  Lemma instr_eqb_sound i j : instr_eqb i j = true -> forall env s, semi i env s = semi j env s.
  Proof.
    assert (E0 : forall env a b, expr_eqb a b = true -> ev0 env a = ev0 env b).
    { intros; unfold ev0; apply expr_eqb_sound; assumption. }
    assert (Ef : forall env a b, expr_eqb a b = true -> evf env a = evf env b).
    { intros; unfold evf; apply functional_extensionality; intro; apply expr_eqb_sound; assumption. }
    assert (L0 : forall env l1 l2, list_eqb expr_eqb l1 l2 = true -> map (ev0 env) l1 = map (ev0 env) l2).
    { intros env l1 l2. apply list_eqb_map. intros; apply E0; assumption. }
    assert (Lf : forall env l1 l2, list_eqb expr_eqb l1 l2 = true -> map (evf env) l1 = map (evf env) l2).
    { intros env l1 l2. apply list_eqb_map. intros; apply Ef; assumption. }
    assert (Lff : forall env l1 l2, list_eqb (list_eqb expr_eqb) l1 l2 = true -> map (map (evf env)) l1 = map (map (evf env)) l2).
    { intros env l1 l2. apply list_eqb_map. intros; apply Lf; assumption. }
    destruct i, j; simpl; try discriminate; intros H env s;
      repeat match goal with H : _ && _ = true |- _ => apply andb_true_iff in H; destruct H end;
      repeat match goal with
             | H : Nat.eqb _ _ = true |- _ => apply Nat.eqb_eq in H
             | H : list_eqb Nat.eqb _ _ = true |- _ => apply nat_list_eqb_eq in H
             | H : list_eqb Bool.eqb _ _ = true |- _ => apply bool_list_eqb_eq in H
             | H : expr_eqb ?a ?b = true |- _ => pose proof (E0 env a b H); pose proof (Ef env a b H); clear H
             | H : list_eqb expr_eqb ?a ?b = true |- _ => pose proof (L0 env a b H); pose proof (Lf env a b H); clear H
             | H : list_eqb (list_eqb expr_eqb) ?a ?b = true |- _ => pose proof (Lff env a b H); clear H
             end; congruence.
  Qed.

  Theorem prog_eqb_sound : forall p q, prog_eqb p q = true -> forall env s, semp p env s = semp q env s.
  Proof.
    induction p; destruct q; simpl; try discriminate; intros H env s;
      repeat match goal with H : _ && _ = true |- _ => apply andb_true_iff in H; destruct H end.
    - reflexivity.
    - rewrite (instr_eqb_sound _ _ H env s). apply IHp; assumption.
    - unfold ev0. rewrite (expr_eqb_sound _ _ H env 0), (expr_eqb_sound _ _ H2 env 0).
      destruct (Rle_dec (eval b0 env 0) (eval a0 env 0)); [apply IHp1|apply IHp2]; assumption.
  Qed.

  Section Norm.
    Variable A : assum.
    Variable env : nat -> R.
    Hypothesis Hok : env_ok A env.

    Lemma map_simp_ev0 l : map (ev0 env) (map (simp A) l) = map (ev0 env) l.
    Proof. rewrite map_map. apply map_ext. intro; apply simp_ev0; assumption. Qed.
    Lemma map_simp_evf l : map (evf env) (map (simp A) l) = map (evf env) l.
    Proof. rewrite map_map. apply map_ext. intro; apply simp_evf; assumption. Qed.
    Lemma map_map_simp_evf l : map (map (evf env)) (map (map (simp A)) l) = map (map (evf env)) l.
    Proof. rewrite map_map. apply map_ext. intro; apply map_simp_evf. Qed.

    Lemma simp_instr_sound i s : semi (map_instr (simp A) i) env s = semi i env s.
    Proof.
      destruct i; simpl; rewrite ?map_simp_ev0, ?map_simp_evf, ?map_map_simp_evf,
                                 ?(simp_ev0 A env Hok), ?(simp_evf A env Hok); reflexivity.
    Qed.

    Lemma is_identity_sound i s : is_identity i = true -> semi i env s = s.
    Proof.
      destruct i; simpl; try discriminate; intro H.
      - apply H_pulse0. rewrite Forall_forall. intros x Hx. apply in_map_iff in Hx. destruct Hx as [e [He Hi]].
        rewrite forallb_forall in H. specialize (H e Hi). subst x. unfold ev0.
        rewrite (is_c_sound _ _ H), Q2R_0'. reflexivity.
      - unfold ev0. rewrite (is_c_sound _ _ H), Q2R_0'. apply H_T0.
    Qed.

    Theorem norm_sound : forall p s, semp (norm A p) env s = semp p env s.
    Proof.
      induction p; intro s; simpl.
      - reflexivity.
      - destruct (is_identity (map_instr (simp A) i)) eqn:E.
        + rewrite IHp. rewrite <- (simp_instr_sound i s). rewrite (is_identity_sound _ s E). reflexivity.
        + rewrite fuse_sound. simpl. rewrite IHp, simp_instr_sound. reflexivity.
      - destruct (decide_ge A (simp A a) (simp A b)) as [bb|] eqn:E.
        + pose proof (decide_ge_sound A env Hok _ _ _ E) as D.
          rewrite !(simp_ev0 A env Hok) in D.
          destruct bb; destruct (Rle_dec (ev0 env b) (ev0 env a)); try discriminate; auto.
        + simpl. rewrite !(simp_ev0 A env Hok).
          destruct (Rle_dec (ev0 env b) (ev0 env a)); auto.
    Qed.
  End Norm.

  (** ** Substitution of the parameters *)
  Definition env_of (sg : list expr) (env : nat -> R) : nat -> R := fun i => ev0 env (nth i sg (Const 0)).

  Lemma subst_eval sg : forallb tfreeb sg = true ->
    forall e env t, eval (subst sg e) env t = eval e (env_of sg env) t.
  Proof.
    intros Hsg. induction e; intros env t; simpl; rewrite ?IHe1, ?IHe2, ?IHe; try reflexivity.
    unfold env_of, ev0. apply tfree_eval.
    destruct (nth_in_or_default i sg (Const 0)) as [Hin|Hd].
    - rewrite forallb_forall in Hsg. apply Hsg, Hin.
    - rewrite Hd. reflexivity.
  Qed.

  Lemma subst_instr_sem sg (Hsg : forallb tfreeb sg = true) i env s :
    semi (map_instr (subst sg) i) env s = semi i (env_of sg env) s.
  Proof.
    assert (E0 : forall e, ev0 env (subst sg e) = ev0 (env_of sg env) e) by (intro; unfold ev0; apply subst_eval; assumption).
    assert (Ef : forall e, evf env (subst sg e) = evf (env_of sg env) e)
      by (intro; unfold evf; apply functional_extensionality; intro; apply subst_eval; assumption).
    assert (L0 : forall l, map (ev0 env) (map (subst sg) l) = map (ev0 (env_of sg env)) l)
      by (intro; rewrite map_map; apply map_ext; assumption).
    assert (Lf : forall l, map (evf env) (map (subst sg) l) = map (evf (env_of sg env)) l)
      by (intro; rewrite map_map; apply map_ext; assumption).
    assert (Lff : forall l, map (map (evf env)) (map (map (subst sg)) l) = map (map (evf (env_of sg env))) l)
      by (intro; rewrite map_map; apply map_ext; assumption).
    destruct i; simpl; rewrite ?L0, ?Lf, ?Lff, ?E0, ?Ef; reflexivity.
  Qed.

  Lemma subst_prog_sem sg (Hsg : forallb tfreeb sg = true) : forall p env s,
    semp (subst_prog sg p) env s = semp p (env_of sg env) s.
  Proof.
    unfold subst_prog. induction p; intros env s; simpl.
    - reflexivity.
    - rewrite IHp, subst_instr_sem by assumption. reflexivity.
    - unfold ev0. rewrite !(subst_eval sg Hsg).
      destruct (Rle_dec (eval b (env_of sg env) 0) (eval a (env_of sg env) 0)); auto.
  Qed.

  (** ** Nesting: the obligation decided per run implies the semantic statement *)
  Theorem nesting_sound A sg complex simple :
    nests A sg complex simple = true ->
    forall env, env_ok A env -> forall s, semp complex (env_of sg env) s = semp simple env s.
  Proof.
    unfold nests. intros H env Hok s.
    apply andb_true_iff in H. destruct H as [H H3]. apply andb_true_iff in H. destruct H as [H1 H2].
    rewrite <- (subst_prog_sem sg H1).
    rewrite <- (norm_sound A env Hok (subst_prog sg complex)).
    rewrite (prog_eqb_sound _ _ H3).
    apply norm_sound. assumption.
  Qed.

  (** two-sided nesting: both models instantiated over a common parameter vector *)
  Theorem nesting2_sound A sgc sgs complex simple :
    nests2 A sgc sgs complex simple = true ->
    forall env, env_ok A env -> forall s, semp complex (env_of sgc env) s = semp simple (env_of sgs env) s.
  Proof.
    unfold nests2. intros H env Hok s.
    repeat (apply andb_true_iff in H; let H' := fresh "H" in destruct H as [H H']).
    rewrite <- (subst_prog_sem sgc H).
    rewrite <- (subst_prog_sem sgs H3).
    rewrite <- (norm_sound A env Hok (subst_prog sgc complex)).
    rewrite <- (norm_sound A env Hok (subst_prog sgs simple)).
    apply prog_eqb_sound. assumption.
  Qed.

  (** ** Well-formedness *)
  Lemma map_ev0_ext env env' l : (forall i, In i (flat_map vars l) -> env i = env' i) -> map (ev0 env) l = map (ev0 env') l.
  Proof.
    intro H. apply map_ext_in. intros e He. unfold ev0. apply eval_ext. intros i Hi. apply H.
    apply in_flat_map. exists e; auto.
  Qed.
  Lemma map_evf_ext env env' l : (forall i, In i (flat_map vars l) -> env i = env' i) -> map (evf env) l = map (evf env') l.
  Proof.
    intro H. apply map_ext_in. intros e He. unfold evf. apply functional_extensionality. intro t.
    apply eval_ext. intros i Hi. apply H. apply in_flat_map. exists e; auto.
  Qed.
  Lemma map_map_evf_ext env env' l : (forall i, In i (flat_map vars (concat l)) -> env i = env' i) ->
    map (map (evf env)) l = map (map (evf env')) l.
  Proof.
    intro H. apply map_ext_in. intros r Hr. apply map_evf_ext. intros i Hi. apply H.
    apply in_flat_map in Hi. destruct Hi as [e [He Hi]]. apply in_flat_map. exists e. split; [|assumption].
    apply in_concat. exists r; auto.
  Qed.

  Lemma sem_instr_ext i env env' s : (forall k, In k (flat_map vars (exprs_of i)) -> env k = env' k) ->
    semi i env s = semi i env' s.
  Proof.
    intro H.
    assert (E0 : forall e, In e (exprs_of i) -> ev0 env e = ev0 env' e).
    { intros e He. unfold ev0. apply eval_ext. intros k Hk. apply H. apply in_flat_map. exists e; auto. }
    assert (Ef : forall e, In e (exprs_of i) -> evf env e = evf env' e).
    { intros e He. unfold evf. apply functional_extensionality. intro t. apply eval_ext. intros k Hk. apply H.
      apply in_flat_map. exists e; auto. }
    assert (L0 : forall l, incl l (exprs_of i) -> map (ev0 env) l = map (ev0 env') l).
    { intros l Hl. apply map_ext_in. intros e He. apply E0, Hl, He. }
    assert (Lf : forall l, incl l (exprs_of i) -> map (evf env) l = map (evf env') l).
    { intros l Hl. apply map_ext_in. intros e He. apply Ef, Hl, He. }
    assert (Lff : forall l, incl (concat l) (exprs_of i) -> map (map (evf env)) l = map (map (evf env')) l).
    { intros l Hl. apply map_ext_in. intros r Hr. apply Lf. intros e He. apply Hl. apply in_concat. exists r; auto. }
    clear H.
    destruct i; cbn [sem_instr exprs_of] in *; try reflexivity.
    - rewrite (E0 nu), (E0 theta0), (E0 gamma), (E0 h), (E0 beta); simpl; auto 10.
    - rewrite (L0 fs); [reflexivity|apply incl_refl].
    - rewrite (L0 fs); [reflexivity|apply incl_refl].
    - rewrite (E0 T), (Ef theta0), (Ef beta), (Lf nus), (Lf gammas), (Lf hs), (Lff ms); try reflexivity;
        try (intros x Hx); simpl; rewrite ?in_app_iff; simpl; auto 12.
    - rewrite (L0 Fs), (L0 ploidy); try reflexivity; intros x Hx; rewrite in_app_iff; auto.
    - rewrite (L0 es); [reflexivity|apply incl_refl].
  Qed.

  (** the result depends on the parameter vector only through the entries the program mentions *)
  Theorem sem_ext : forall p env env' s, (forall i, In i (vars_prog p) -> env i = env' i) -> semp p env s = semp p env' s.
  Proof.
    induction p; intros env env' s H; simpl in *.
    - reflexivity.
    - rewrite (sem_instr_ext i env env' s); [apply IHp|]; intros; apply H; apply in_or_app; auto.
    - unfold ev0. rewrite (eval_ext a env env'), (eval_ext b env env');
        try (intros; apply H; rewrite !in_app_iff; auto).
      destruct (Rle_dec (eval b env' 0) (eval a env' 0)); [apply IHp1|apply IHp2]; intros; apply H; rewrite !in_app_iff; auto.
  Qed.

  Theorem params_match_names_sound n unpacked p : params_match_names n unpacked p = true ->
    unpacked = seq 0 n /\
    (forall i, (i < n)%nat -> In i (vars_prog p)) /\
    (forall i, In i (vars_prog p) -> (i < n)%nat) /\
    (forall env env' s, (forall i, (i < n)%nat -> env i = env' i) -> semp p env s = semp p env' s).
  Proof.
    unfold params_match_names. intro H.
    apply andb_true_iff in H. destruct H as [H H4]. apply andb_true_iff in H. destruct H as [H H3].
    apply andb_true_iff in H. destruct H as [H1 H2].
    apply Nat.eqb_eq in H1.
    assert (Hu : unpacked = seq 0 n).
    { assert (G : forall l1 l2 : list nat, length l1 = length l2 ->
                  forallb (fun pr => Nat.eqb (fst pr) (snd pr)) (combine l1 l2) = true -> l1 = l2).
      { induction l1; destruct l2; simpl; intros; try discriminate; auto.
        apply andb_true_iff in H0. destruct H0 as [Ha Hb]. apply Nat.eqb_eq in Ha. f_equal; auto. }
      apply G; [rewrite seq_length; assumption|assumption]. }
    assert (Hlt : forall i, In i (vars_prog p) -> (i < n)%nat).
    { intros i Hi. rewrite forallb_forall in H4. apply Nat.ltb_lt, H4, Hi. }
    repeat split; auto.
    - intros i Hi. rewrite forallb_forall in H3. apply mem_In, H3. apply in_seq. lia.
    - intros env env' s He. apply sem_ext. intros i Hi. apply He, Hlt, Hi.
  Qed.

  (** ** Relabelling the populations.  [tr] is the relabelling of a state (transposition of the density /
      spectrum axes); the seven hypotheses say the numerical layer is equivariant.  They hold for the exact
      diffusion; the alternating-direction scheme of dadi sweeps the axes in a fixed order and satisfies
      the integration hypothesis only up to its operator-splitting error (checked numerically at two time steps). *)
  Section Relabel.
    Variable pm : nat -> list nat.
    Variable tr : St -> St.
    Hypothesis E_grid : forall s, o_grid (tr s) = tr (o_grid s).
    Hypothesis E_phi1d : forall a b c d e s, o_phi1d a b c d e (tr s) = tr (o_phi1d a b c d e s).
    Hypothesis E_fromphi : forall d s, o_fromphi d (tr s) = tr (o_fromphi d s).
    Hypothesis E_mscmd : forall l s, o_mscmd l (tr s) = tr (o_mscmd l s).
    Hypothesis E_split : forall d parent s,
      relabel_ok_instr pm (ISplit d parent) = true ->
      o_split d (index_of parent (pm d)) (tr s) = tr (o_split d parent s).
    Hypothesis E_pulse : forall d srcs dst fs s, is_perm_of d (pm d) = true ->
      o_pulse d (map (fun k => index_of k (pm d)) srcs) (index_of dst (pm d)) fs (tr s) = tr (o_pulse d srcs dst fs s).
    Hypothesis E_integrate : forall T nus ms gs hs th be fr nm s d0 d1, let pi := pm (length nus) in
      is_perm_of (length nus) pi = true ->
      o_integrate T (permute d0 pi nus) (permute d1 pi (map (permute d0 pi) ms)) (permute d0 pi gs) (permute d0 pi hs)
                  th be (permute false pi fr) (permute false pi nm) (tr s)
      = tr (o_integrate T nus ms gs hs th be fr nm s).

    Lemma relabel_instr_sem i env s : relabel_ok_instr pm i = true ->
      semi (relabel_instr pm i) env (tr s) = tr (semi i env s).
    Proof.
      destruct i; intro H; try discriminate H; cbn [relabel_instr sem_instr].
      - apply E_grid.
      - apply E_phi1d.
      - apply E_split, H.
      - apply E_pulse, H.
      - rewrite !map_permute, !map_map.
        replace (map (fun x => map (evf env) (permute (Const 0) (pm (length nus)) x)) ms)
          with (map (permute (evf env (Const 0)) (pm (length nus))) (map (map (evf env)) ms)).
        2:{ rewrite map_map. apply map_ext. intro. symmetry. apply map_permute. }
        cbn [map].
        pose proof (E_integrate (ev0 env T) (map (evf env) nus) (map (map (evf env)) ms) (map (evf env) gammas) (map (evf env) hs)
                                (evf env theta0) (evf env beta) frozen nomut s (evf env (Const 0)) []) as E.
        cbn zeta in E. rewrite map_length in E. apply E. exact H.
      - apply E_fromphi.
      - apply E_mscmd.
    Qed.

    Theorem relabel_sem : forall p env s, relabel_ok pm p = true ->
      semp (relabel pm p) env (tr s) = tr (semp p env s).
    Proof.
      induction p; intros env s H; simpl in *.
      - reflexivity.
      - apply andb_true_iff in H. destruct H as [H1 H2].
        rewrite relabel_instr_sem by assumption. apply IHp. assumption.
      - apply andb_true_iff in H. destruct H as [H1 H2].
        destruct (Rle_dec (ev0 env b) (ev0 env a)); auto.
    Qed.

    (** the per-run obligation [equivariant] implies: running the model on the relabelled state with the
        exchanged parameter vector is the relabelling of the original run *)
    Theorem equivariance_sound A sg p : equivariant A pm sg p = true ->
      forall env, env_ok A env -> forall s, semp p env (tr s) = tr (semp p (env_of sg env) s).
    Proof.
      unfold equivariant. intros H env Hok s.
      apply andb_true_iff in H. destruct H as [H H4]. apply andb_true_iff in H. destruct H as [H H3].
      apply andb_true_iff in H. destruct H as [H1 H2].
      rewrite <- (subst_prog_sem sg H1).
      assert (Hr : relabel_ok pm (subst_prog sg p) = true).
      { clear -H3. unfold subst_prog. induction p; simpl in *; auto.
        - apply andb_true_iff in H3. destruct H3 as [Ha Hb]. rewrite IHp by assumption. rewrite andb_true_r.
          destruct i; simpl in *; auto; rewrite ?map_length; assumption.
        - apply andb_true_iff in H3. destruct H3 as [Ha Hb]. rewrite IHp1, IHp2 by assumption. reflexivity. }
      rewrite <- (relabel_sem _ env s Hr).
      rewrite <- (norm_sound A env Hok p).
      rewrite <- (prog_eqb_sound _ _ H4).
      apply norm_sound. assumption.
    Qed.
  End Relabel.
End Programs.
