(** * MatStats: the matrix stage of dadi/Godambe.py on perturbed inputs (function-indexed matrices, any dimension).

    Inputs: H, J (n x n), cU, d (n-vectors) and perturbed H', J', cU' with
        |H' - H| <= CH e2,   |J' - J| <= CJ e2,   |cU' - cU|_1 <= Cc e2        (e2 stands for eps^2, 0 <= e2 <= 1)
    where |.| is the entry-sum norm of MatPerturb.v.  "inverse" always means: any matrix satisfying [is_inv].
      FIM_uncert   sqrt (diag (inv H))                        [fim_inverse_within], [uncert_within]
      get_godambe  G = H . inv J . H                          [gim_within]
      GIM_uncert   sqrt (diag (inv G))                        [gim_inverse_within] + [uncert_within]
      LRT_adjust   k / trace (J . inv H)                      [lrt_trace_within], [lrt_adjust_within]
      Wald_stat    d^T G d,  d^T H d                          [wald_adj_within], [wald_org_within]
      score_stat   cU^T inv J cU,  cU^T inv H cU              [score_within]
    Every bound is  K * e2  with K built from the norms of the unperturbed matrices and CH, CJ, Cc only. *)
From Coq Require Import Reals List Lra Lia Arith Psatz.
From Dadi Require Import Proofs.MatPerturb.
Local Open Scope R_scope.

(** ** FIM: the inverse of a perturbed matrix *)
Theorem fim_inverse_within n H Hi H' Hi' CH e2 :
  is_inv n H Hi -> is_inv n H' Hi' ->
  mnorm n (msub H' H) <= CH * e2 -> mnorm n Hi * (CH * e2) <= 1 / 2 ->
  mnorm n Hi' <= 2 * mnorm n Hi /\
  mnorm n (msub Hi' Hi) <= 2 * (mnorm n Hi * mnorm n Hi) * CH * e2 /\
  forall i j, (i < n)%nat -> (j < n)%nat -> Rabs (Hi' i j - Hi i j) <= 2 * (mnorm n Hi * mnorm n Hi) * CH * e2.
Proof.
  intros [_ HBA] [HAB' _] HE Hhalf.
  destruct (inv_perturb_half n H Hi H' Hi' _ HBA HAB' HE Hhalf) as [H1 H2].
  assert (H3 : mnorm n (msub Hi' Hi) <= 2 * (mnorm n Hi * mnorm n Hi) * CH * e2) by lra.
  split; [exact H1|]. split; [exact H3|].
  intros i j Hi0 Hj0. eapply Rle_trans; [apply (mnorm_entry n (msub Hi' Hi) i j Hi0 Hj0)|exact H3].
Qed.

(** entrywise hypothesis with one constant c: CH = n^2 c *)
Corollary fim_inverse_within_entries n H Hi H' Hi' c e2 :
  is_inv n H Hi -> is_inv n H' Hi' ->
  (forall i j, (i < n)%nat -> (j < n)%nat -> Rabs (H' i j - H i j) <= c * e2) ->
  INR n * INR n * c * e2 * mnorm n Hi <= 1 / 2 ->
  forall i j, (i < n)%nat -> (j < n)%nat ->
    Rabs (Hi' i j - Hi i j) <= 2 * (mnorm n Hi * mnorm n Hi) * (INR n * INR n * c) * e2.
Proof.
  intros HI HI' HE Hhalf.
  assert (HEn : mnorm n (msub H' H) <= INR n * INR n * c * e2).
  { eapply Rle_trans; [apply (mnorm_le_uniform n (msub H' H) (c * e2) HE)|]. right. ring. }
  assert (Hh : mnorm n Hi * (INR n * INR n * c * e2) <= 1 / 2) by lra.
  destruct (fim_inverse_within n H Hi H' Hi' (INR n * INR n * c) e2 HI HI' HEn Hh) as [_ [_ HH]]. exact HH.
Qed.

(** standard deviations: sqrt of a diagonal entry.  If the perturbation K e2 of the variance is smaller than the variance,
    the perturbed variance is positive (numpy.sqrt does not return nan) and the standard deviation moves by <= K e2 / sqrt a *)
Theorem uncert_within a a' K e2 :
  0 < a -> Rabs (a' - a) <= K * e2 -> K * e2 < a ->
  0 < a' /\ Rabs (sqrt a' - sqrt a) <= K / sqrt a * e2.
Proof.
  intros Ha Hd Hsm.
  assert (Ha' : 0 < a').
  { pose proof (Rle_abs (a - a')) as T. rewrite Rabs_minus_sym in T. lra. }
  split; [exact Ha'|].
  eapply Rle_trans; [apply sqrt_diff_bound; lra|].
  pose proof (sqrt_lt_R0 a Ha) as Hs.
  unfold Rdiv. rewrite (Rmult_comm K), Rmult_assoc, (Rmult_comm (/ sqrt a)).
  apply Rmult_le_compat_r; [left; apply Rinv_0_lt_compat; assumption|exact Hd].
Qed.

(** ** the sandwich  H . inv J . H  (and, with vectors in place of H, the score statistic) *)
Definition KG (h jn CH CJ : R) : R := (CH * (2 * jn) + h * (2 * (jn * jn) * CJ)) * (h + CH) + h * jn * CH.

Lemma KG_nonneg h jn CH CJ : 0 <= h -> 0 <= jn -> 0 <= CH -> 0 <= CJ -> 0 <= KG h jn CH CJ.
Proof.
  intros Hh Hj HC HD. unfold KG.
  assert (0 <= jn * jn) by (apply Rmult_le_pos; assumption).
  assert (0 <= CH * (2 * jn)) by (apply Rmult_le_pos; lra).
  assert (0 <= 2 * (jn * jn) * CJ) by (apply Rmult_le_pos; lra).
  assert (0 <= h * (2 * (jn * jn) * CJ)) by (apply Rmult_le_pos; assumption).
  assert (0 <= h * jn) by (apply Rmult_le_pos; assumption).
  assert (0 <= h * jn * CH) by (apply Rmult_le_pos; assumption).
  assert (0 <= (CH * (2 * jn) + h * (2 * (jn * jn) * CJ)) * (h + CH)) by (apply Rmult_le_pos; lra).
  lra.
Qed.

Lemma sandwich_real x ji' dj h' h jn CH CJ e2 :
  0 <= x <= CH * e2 -> 0 <= ji' <= 2 * jn -> 0 <= dj <= 2 * (jn * jn) * (CJ * e2) -> 0 <= h' <= h + CH ->
  0 <= h -> 0 <= jn -> 0 <= e2 -> 0 <= CH -> 0 <= CJ ->
  (x * ji' + h * dj) * h' + h * jn * x <= KG h jn CH CJ * e2.
Proof.
  intros [Hx0 Hx] [Hj0 Hj] [Hd0 Hd] [Hh0 Hh'] Hh Hjn He HC HD.
  assert (A1 : x * ji' <= CH * e2 * (2 * jn)) by (apply Rmult_le_compat; assumption).
  assert (A2 : h * dj <= h * (2 * (jn * jn) * (CJ * e2))) by (apply Rmult_le_compat_l; assumption).
  assert (P1 : 0 <= x * ji') by (apply Rmult_le_pos; assumption).
  assert (P2 : 0 <= h * dj) by (apply Rmult_le_pos; assumption).
  assert (A3 : (x * ji' + h * dj) * h' <= (CH * e2 * (2 * jn) + h * (2 * (jn * jn) * (CJ * e2))) * (h + CH)).
  { apply Rmult_le_compat; lra. }
  assert (P3 : 0 <= h * jn) by (apply Rmult_le_pos; assumption).
  assert (A4 : h * jn * x <= h * jn * (CH * e2)) by (apply Rmult_le_compat_l; assumption).
  unfold KG.
  replace (((CH * (2 * jn) + h * (2 * (jn * jn) * CJ)) * (h + CH) + h * jn * CH) * e2)
    with ((CH * e2 * (2 * jn) + h * (2 * (jn * jn) * (CJ * e2))) * (h + CH) + h * jn * (CH * e2)) by ring.
  lra.
Qed.

Theorem gim_within n H J Ji H' J' Ji' CH CJ e2 :
  is_inv n J Ji -> is_inv n J' Ji' ->
  mnorm n (msub H' H) <= CH * e2 -> mnorm n (msub J' J) <= CJ * e2 ->
  0 <= e2 <= 1 -> 0 <= CH -> 0 <= CJ -> mnorm n Ji * (CJ * e2) <= 1 / 2 ->
  mnorm n (msub (mmul n (mmul n H' Ji') H') (mmul n (mmul n H Ji) H)) <= KG (mnorm n H) (mnorm n Ji) CH CJ * e2.
Proof.
  intros [_ HBA] [HAB' _] HEH HEJ [He0 He1] HC HD Hhalf.
  destruct (inv_perturb_half n J Ji J' Ji' _ HBA HAB' HEJ Hhalf) as [H1 H2].
  eapply Rle_trans; [apply mmul3_diff_norm|].
  pose proof (mnorm_perturbed n H H') as Hp.
  pose proof (mnorm_nonneg n H). pose proof (mnorm_nonneg n H'). pose proof (mnorm_nonneg n Ji).
  pose proof (mnorm_nonneg n Ji'). pose proof (mnorm_nonneg n (msub H' H)). pose proof (mnorm_nonneg n (msub Ji' Ji)).
  apply sandwich_real; try (split; [assumption|]); try assumption.
  assert (CH * e2 <= CH) by (rewrite <- (Rmult_1_r CH) at 2; apply Rmult_le_compat_l; assumption). lra.
Qed.

(** the inverse of the perturbed Godambe matrix *)
Theorem gim_inverse_within n H J Ji G Gi H' J' Ji' G' Gi' CH CJ e2 :
  is_inv n J Ji -> is_inv n J' Ji' ->
  meq n G (mmul n (mmul n H Ji) H) -> meq n G' (mmul n (mmul n H' Ji') H') ->
  is_inv n G Gi -> is_inv n G' Gi' ->
  mnorm n (msub H' H) <= CH * e2 -> mnorm n (msub J' J) <= CJ * e2 ->
  0 <= e2 <= 1 -> 0 <= CH -> 0 <= CJ -> mnorm n Ji * (CJ * e2) <= 1 / 2 ->
  mnorm n Gi * (KG (mnorm n H) (mnorm n Ji) CH CJ * e2) <= 1 / 2 ->
  mnorm n (msub G' G) <= KG (mnorm n H) (mnorm n Ji) CH CJ * e2 /\
  forall i j, (i < n)%nat -> (j < n)%nat ->
    Rabs (Gi' i j - Gi i j) <= 2 * (mnorm n Gi * mnorm n Gi) * KG (mnorm n H) (mnorm n Ji) CH CJ * e2.
Proof.
  intros HJ HJ' HG HG' HGi HGi' HEH HEJ He HC HD Hh1 Hh2.
  assert (HEG : mnorm n (msub G' G) <= KG (mnorm n H) (mnorm n Ji) CH CJ * e2).
  { rewrite (mnorm_meq n (msub G' G) (msub (mmul n (mmul n H' Ji') H') (mmul n (mmul n H Ji) H))).
    - apply (gim_within n H J Ji H' J' Ji'); assumption.
    - intros i j Hi Hj. unfold msub. rewrite HG, HG' by assumption. reflexivity. }
  split; [exact HEG|].
  destruct (fim_inverse_within n G Gi G' Gi' _ e2 HGi HGi' HEG Hh2) as [_ [_ HH]]. exact HH.
Qed.

(** ** LRT_adjust:  k / trace (J . inv H) *)
Definition KT (hi jn CH CJ : R) : R := CJ * (2 * hi) + jn * (2 * (hi * hi) * CH).

Lemma KT_nonneg hi jn CH CJ : 0 <= hi -> 0 <= jn -> 0 <= CH -> 0 <= CJ -> 0 <= KT hi jn CH CJ.
Proof.
  intros. unfold KT. assert (0 <= hi * hi) by (apply Rmult_le_pos; assumption).
  assert (0 <= CJ * (2 * hi)) by (apply Rmult_le_pos; lra).
  assert (0 <= 2 * (hi * hi) * CH) by (apply Rmult_le_pos; lra).
  assert (0 <= jn * (2 * (hi * hi) * CH)) by (apply Rmult_le_pos; assumption). lra.
Qed.

Theorem lrt_trace_within n H Hi J H' Hi' J' CH CJ e2 :
  is_inv n H Hi -> is_inv n H' Hi' ->
  mnorm n (msub H' H) <= CH * e2 -> mnorm n (msub J' J) <= CJ * e2 ->
  0 <= e2 -> 0 <= CJ -> mnorm n Hi * (CH * e2) <= 1 / 2 ->
  Rabs (mtrace n (mmul n J' Hi') - mtrace n (mmul n J Hi)) <= KT (mnorm n Hi) (mnorm n J) CH CJ * e2.
Proof.
  intros HI HI' HEH HEJ He HD Hhalf.
  destruct (fim_inverse_within n H Hi H' Hi' CH e2 HI HI' HEH Hhalf) as [H1 [H2 _]].
  eapply Rle_trans; [apply mtrace_diff|]. eapply Rle_trans; [apply mmul_diff_norm|].
  pose proof (mnorm_nonneg n Hi). pose proof (mnorm_nonneg n J). pose proof (mnorm_nonneg n Hi').
  pose proof (mnorm_nonneg n (msub J' J)). pose proof (mnorm_nonneg n (msub Hi' Hi)).
  assert (A1 : mnorm n (msub J' J) * mnorm n Hi' <= CJ * e2 * (2 * mnorm n Hi)) by (apply Rmult_le_compat; assumption).
  assert (A2 : mnorm n J * mnorm n (msub Hi' Hi) <= mnorm n J * (2 * (mnorm n Hi * mnorm n Hi) * CH * e2))
    by (apply Rmult_le_compat_l; assumption).
  unfold KT. lra.
Qed.

Theorem lrt_adjust_within n H Hi J H' Hi' J' CH CJ e2 k :
  is_inv n H Hi -> is_inv n H' Hi' ->
  mnorm n (msub H' H) <= CH * e2 -> mnorm n (msub J' J) <= CJ * e2 ->
  0 <= e2 -> 0 <= CJ -> mnorm n Hi * (CH * e2) <= 1 / 2 ->
  mtrace n (mmul n J Hi) <> 0 ->
  KT (mnorm n Hi) (mnorm n J) CH CJ * e2 <= Rabs (mtrace n (mmul n J Hi)) / 2 ->
  mtrace n (mmul n J' Hi') <> 0 /\
  Rabs (k / mtrace n (mmul n J' Hi') - k / mtrace n (mmul n J Hi))
  <= 2 * Rabs k * KT (mnorm n Hi) (mnorm n J) CH CJ / (mtrace n (mmul n J Hi) * mtrace n (mmul n J Hi)) * e2.
Proof.
  intros HI HI' HEH HEJ He HD Hhalf Ht Hsm.
  pose proof (lrt_trace_within n H Hi J H' Hi' J' CH CJ e2 HI HI' HEH HEJ He HD Hhalf) as HT.
  set (t := mtrace n (mmul n J Hi)) in *. set (t' := mtrace n (mmul n J' Hi')) in *.
  set (K := KT (mnorm n Hi) (mnorm n J) CH CJ) in *.
  destruct (recip_diff_bound k t t' Ht (Rle_trans _ _ _ HT Hsm)) as [Ht' Hb].
  split; [exact Ht'|]. eapply Rle_trans; [exact Hb|].
  assert (Htt : 0 < t * t) by nra.
  unfold Rdiv. rewrite (Rmult_assoc _ (/ (t * t)) e2), (Rmult_comm (/ (t * t)) e2), <- (Rmult_assoc _ e2).
  apply Rmult_le_compat_r; [left; apply Rinv_0_lt_compat; assumption|].
  rewrite !Rmult_assoc. apply Rmult_le_compat_l; [lra|]. apply Rmult_le_compat_l; [apply Rabs_pos|exact HT].
Qed.

(** ** Wald_stat:  d^T G d  and  d^T H d,  same d on both sides *)
Theorem wald_within n M M' d e :
  mnorm n (msub M' M) <= e -> Rabs (bform n M' d d - bform n M d d) <= vnorm n d * vnorm n d * e.
Proof.
  intros HE. rewrite bform_sub_M. eapply Rle_trans; [apply bform_bound|].
  pose proof (vnorm_nonneg n d) as Hd.
  replace (vnorm n d * mnorm n (msub M' M) * vnorm n d) with (vnorm n d * vnorm n d * mnorm n (msub M' M)) by ring.
  apply Rmult_le_compat_l; [apply Rmult_le_pos; assumption|exact HE].
Qed.

(** ** score_stat:  cU^T inv(M) cU  for M = J and M = H, cU perturbed too *)
Theorem score_within n M Mi M' Mi' v v' CM Cc e2 :
  is_inv n M Mi -> is_inv n M' Mi' ->
  mnorm n (msub M' M) <= CM * e2 -> vnorm n (fun i => v' i - v i) <= Cc * e2 ->
  0 <= e2 <= 1 -> 0 <= CM -> 0 <= Cc -> mnorm n Mi * (CM * e2) <= 1 / 2 ->
  Rabs (bform n Mi' v' v' - bform n Mi v v) <= KG (vnorm n v) (mnorm n Mi) Cc CM * e2.
Proof.
  intros [_ HBA] [HAB' _] HEM HEv [He0 He1] HC HD Hhalf.
  destruct (inv_perturb_half n M Mi M' Mi' _ HBA HAB' HEM Hhalf) as [H1 H2].
  eapply Rle_trans; [apply bform_diff|].
  pose proof (vnorm_perturbed n v v') as Hp.
  pose proof (vnorm_nonneg n v). pose proof (vnorm_nonneg n v'). pose proof (mnorm_nonneg n Mi).
  pose proof (mnorm_nonneg n Mi'). pose proof (vnorm_nonneg n (fun i => v' i - v i)). pose proof (mnorm_nonneg n (msub Mi' Mi)).
  set (x := vnorm n (fun i => v' i - v i)) in *. set (h := vnorm n v) in *. set (h' := vnorm n v') in *.
  set (jn := mnorm n Mi) in *. set (ji' := mnorm n Mi') in *. set (dj := mnorm n (msub Mi' Mi)) in *.
  replace (x * ji' * h' + h * dj * h' + h * jn * x) with ((x * ji' + h * dj) * h' + h * jn * x) by ring.
  apply sandwich_real; try (split; [assumption|]); try assumption.
  assert (Cc * e2 <= Cc) by (rewrite <- (Rmult_1_r Cc) at 2; apply Rmult_le_compat_l; assumption). lra.
Qed.
