(** Weighted sums over a d-dimensional C-order array and their decomposition along the lines of an axis:
    the index arithmetic behind "marginal densities" (C04). *)
From Coq Require Import Reals List Lra Lia Arith Bool.
From Dadi Require Import Base.Num Base.NumR Model.Tridiag Model.Scheme Model.NDSweep
  Proofs.SumLemmas Proofs.NDLines.
Import ListNotations.
Local Open Scope R_scope.

Lemma prodn_app a b : prodn (a ++ b) = (prodn a * prodn b)%nat.
Proof. unfold prodn. induction a as [|x a IH]; cbn [app fold_right]; [lia|]. rewrite IH. lia. Qed.
Lemma prodn_cons x a : prodn (x :: a) = (x * prodn a)%nat.
Proof. reflexivity. Qed.

Lemma unflat_length : forall shape idx, length (unflat shape idx) = length shape.
Proof. induction shape as [|n t IH]; intros idx; cbn [unflat length]; [reflexivity|]. rewrite IH. reflexivity. Qed.

(** the multi-index of the flat index (o*len+i)*inner+q is  multi-index(o) ++ i :: multi-index(q) *)
Lemma unflat_compose : forall pre len post o i q,
  (o < prodn pre)%nat -> (i < len)%nat -> (q < prodn post)%nat ->
  unflat (pre ++ len :: post) ((o * len + i) * prodn post + q) = unflat pre o ++ i :: unflat post q.
Proof.
  induction pre as [|n pre IH]; intros len post o i q Ho Hi Hq.
  - cbn [prodn fold_right] in Ho. assert (o = 0)%nat by lia. subst o. cbn [app unflat].
    assert (HP : prodn post <> 0%nat) by lia.
    replace ((0 * len + i) * prodn post + q)%nat with (q + i * prodn post)%nat by lia.
    rewrite Nat.div_add by exact HP. rewrite Nat.mod_add by exact HP.
    rewrite Nat.div_small, Nat.mod_small by exact Hq. reflexivity.
  - rewrite prodn_cons in Ho. cbn [app unflat]. fold (prodn (pre ++ len :: post)) (prodn pre).
    rewrite prodn_app, prodn_cons.
    set (P := prodn post) in *. set (Q := prodn pre) in *.
    assert (HQ : Q <> 0%nat) by (intros E; rewrite E in Ho; lia). assert (HP : P <> 0%nat) by lia. assert (HL : len <> 0%nat) by lia.
    set (S := (Q * (len * P))%nat). assert (HS : S <> 0%nat) by (unfold S; apply Nat.neq_mul_0; split; [exact HQ | apply Nat.neq_mul_0; split; assumption]).
    pose proof (Nat.div_mod o Q HQ) as Eo. set (o1 := (o / Q)%nat) in *. set (o2 := (o mod Q)%nat) in *.
    assert (Ho2 : (o2 < Q)%nat) by (apply Nat.mod_upper_bound; exact HQ).
    clearbody o1 o2. 
    assert (Eidx : ((o * len + i) * P + q = ((o2 * len + i) * P + q) + o1 * S)%nat) by (unfold S; rewrite Eo at 1; nia).
    assert (Hlt : ((o2 * len + i) * P + q < S)%nat).
    { unfold S. assert ((o2 * len + i) * P + q < (o2 * len + i + 1) * P)%nat by nia. assert ((o2 * len + i + 1) <= Q * len)%nat by nia. nia. }
    rewrite Eidx. rewrite Nat.div_add by exact HS. rewrite Nat.mod_add by exact HS.
    rewrite Nat.div_small by exact Hlt. rewrite Nat.mod_small by exact Hlt. cbn [plus].
    subst P. rewrite (IH len post o2 i q Ho2 Hi Hq). reflexivity.
Qed.

(** shape = firstn k shape ++ nth k shape 0 :: skipn (S k) shape *)
Lemma shape_split (shape : list nat) k : (k < length shape)%nat ->
  shape = firstn k shape ++ nth k shape 0%nat :: skipn (S k) shape.
Proof.
  revert k. induction shape as [|n t IH]; intros k Hk; [cbn in Hk; lia|].
  destruct k as [|k]; [reflexivity|]. cbn [firstn nth skipn app]. f_equal. apply IH. cbn in Hk. lia.
Qed.

(** triple decomposition of a sum over all flat indices *)
Lemma rsum_plus m n (f : nat -> R) : rsum (m + n) f = rsum m f + rsum n (fun y => f (m + y)%nat).
Proof.
  induction n as [|n IH]; [rewrite Nat.add_0_r, rsum_0; lra|].
  replace (m + S n)%nat with (S (m + n)) by lia. rewrite !rsum_S, IH. lra.
Qed.
Lemma rsum_mul a b (f : nat -> R) : rsum (a * b) f = rsum a (fun x => rsum b (fun y => f (x * b + y)%nat)).
Proof.
  induction a as [|a IH]; [reflexivity|].
  rewrite rsum_S, <- IH. replace (S a * b)%nat with (a * b + b)%nat by lia. apply rsum_plus.
Qed.

Lemma rsum_swap a b (g : nat -> nat -> R) :
  rsum a (fun i => rsum b (fun q => g i q)) = rsum b (fun q => rsum a (fun i => g i q)).
Proof.
  induction a as [|a IH].
  - rewrite rsum_0. symmetry. apply rsum_zero. intros; apply rsum_0.
  - rewrite rsum_S, IH, <- rsum_add. apply rsum_ext. intros q Hq. rewrite rsum_S. reflexivity.
Qed.

Section Lines3.
  Variable shape : list nat.
  Variable k : nat.
  Hypothesis Hk : (k < length shape)%nat.
  Notation outer := (ax_outer shape k). Notation len := (ax_len shape k). Notation inner := (ax_inner shape k).

  Lemma total_size : prodn shape = (outer * (len * inner))%nat.
  Proof. rewrite (shape_split shape k Hk) at 1. rewrite prodn_app, prodn_cons. reflexivity. Qed.

  Lemma rsum_lines (f : nat -> R) :
    rsum (prodn shape) f =
    rsum outer (fun o => rsum inner (fun q => rsum len (fun i => f ((o * len + i) * inner + q)%nat))).
  Proof.
    rewrite total_size, rsum_mul. apply rsum_ext. intros o Ho.
    rewrite rsum_mul.
    rewrite <- (rsum_swap len inner (fun i q => f ((o * len + i) * inner + q)%nat)).
    apply rsum_ext. intros i Hi. apply rsum_ext. intros q Hq. f_equal. nia.
  Qed.

  Lemma unflat_line o i q : (o < outer)%nat -> (i < len)%nat -> (q < inner)%nat ->
    unflat shape ((o * len + i) * inner + q) = unflat (firstn k shape) o ++ i :: unflat (skipn (S k) shape) q.
  Proof.
    intros Ho Hi Hq. rewrite (shape_split shape k Hk) at 1. apply unflat_compose; assumption.
  Qed.
End Lines3.
