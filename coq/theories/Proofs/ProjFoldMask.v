(** C08, folded spectra, MASK component: projecting a folded spectrum the way Spectrum.project does
    (unfold, project, fold) gives the fold of the projected mask of the original:

        fold_mask (project ns (unfold_mask (fold_mask mk)))  =  fold_mask (project ns mk)

    for every dimension, shape and target sizes.  unfold_mask (fold_mask mk) = mk || mirror mk || corners;
    projection distributes over ||, commutes with the mirror, and sends the two corner entries to the two
    corner entries of the result; fold_mask forgets the added terms. *)
From Coq Require Import ZArith Reals List Lra Lia Bool Arith.
From Dadi Require Import Base.Num Base.NumR Model.Projection Proofs.ProjBase Proofs.ProjH Proofs.ProjTensor Proofs.ProjSpectrum
  Proofs.ProjFoldConsistent.
From Dadi Require Model.PopOps Proofs.PopOpsIdx Proofs.PopOpsProjCommute Proofs.PopOpsFoldMarg.
Import ListNotations.

Notation cornerb := PopOps.is_corner.

(** ** more tabulation lemmas *)
Lemma tget_tgen {A} (zero : A) d : forall sh (f : list nat -> A) idx, length sh = d -> inrg sh idx ->
  tget zero d idx (tgen d sh f) = f idx.
Proof. induction d; intros sh f idx Hl Hin.
  - destruct sh; [|discriminate]. inversion Hin. reflexivity.
  - destruct sh as [|L sh]; [discriminate|]. inversion Hin as [|i L' idx' sh' Hi Hin']; subst. cbn [tgen hd tl tget].
    rewrite nth_map_seq' by exact Hi. cbn [Nat.add]. apply (IHd sh (fun idx0 => f (i :: idx0))); [cbn in Hl; lia|exact Hin']. Qed.

Lemma tset_first_tgen {A} (v : A) d : forall sh (f : list nat -> A),
  tset_first d v (tgen d sh f) = tgen d sh (fun idx => if forallb (Nat.eqb 0) idx then v else f idx).
Proof. induction d; intros sh f; [reflexivity|]. cbn [tgen tset_first]. destruct (hd 0 sh) as [|m]; [reflexivity|].
  rewrite seq_S_cons. cbn [map]. f_equal.
  - rewrite IHd. reflexivity.
  - apply map_ext_in. intros i Hi. apply in_seq in Hi. destruct i; [lia|]. reflexivity. Qed.

Lemma lset_last_cons2 {T} (g : T -> T) x y t : lset_last g (x :: y :: t) = x :: lset_last g (y :: t).
Proof. reflexivity. Qed.
Lemma lset_last_map_seq {T} (g : T -> T) (F : nat -> T) m : forall a,
  lset_last g (map F (seq a (S m))) = map (fun i => if (i =? a + m) then g (F i) else F i) (seq a (S m)).
Proof. induction m; intros a.
  - cbn. rewrite Nat.add_0_r, Nat.eqb_refl. reflexivity.
  - change (seq a (S (S m))) with (a :: S a :: seq (S (S a)) m). cbn [map]. rewrite lset_last_cons2.
    change (F (S a) :: map F (seq (S (S a)) m)) with (map F (seq (S a) (S m))). rewrite IHm.
    destruct (Nat.eqb_spec a (a + S m)); [lia|]. f_equal.
    replace (S a + m) with (a + S m) by lia. reflexivity. Qed.

Lemma list_eqb_cons i idx L sh : PopOps.idx_eqb (i :: idx) (L :: sh) = (i =? L) && PopOps.idx_eqb idx sh.
Proof. reflexivity. Qed.

Lemma tset_last_tgen {A} (v : A) d : forall sh (f : list nat -> A), length sh = d ->
  tset_last d v (tgen d sh f) = tgen d sh (fun idx => if PopOps.idx_eqb idx (map pred sh) then v else f idx).
Proof. induction d; intros sh f Hl.
  - destruct sh; [reflexivity|discriminate].
  - destruct sh as [|L sh]; [discriminate|]. cbn in Hl. cbn [tgen hd tl tset_last]. destruct L as [|m]; [reflexivity|].
    rewrite (lset_last_map_seq _ _ m 0). apply map_ext. intros i. cbn [Nat.add map pred].
    destruct (Nat.eqb_spec i m) as [->|Hne].
    + rewrite IHd by lia. apply tgen_ext; [lia|]. intros idx _. rewrite list_eqb_cons, Nat.eqb_refl. reflexivity.
    + apply tgen_ext; [lia|]. intros idx _. rewrite list_eqb_cons. destruct (Nat.eqb_spec i m); [contradiction|]. reflexivity. Qed.

Lemma mask_corners_tgen d sh (f : list nat -> bool) : length sh = d ->
  mask_corners d (tgen d sh f) = tgen d sh (fun idx => f idx || cornerb sh idx).
Proof. intros Hl. unfold mask_corners. rewrite tset_first_tgen, tset_last_tgen by exact Hl. apply tgen_ext; [exact Hl|].
  intros idx _. unfold PopOps.is_corner. destruct (PopOps.idx_eqb idx (map pred sh)), (forallb (Nat.eqb 0) idx), (f idx); reflexivity. Qed.

(** ** fold / unfold of the mask as pointwise formulas *)
Definition fmf (sh : list nat) (f : list nat -> bool) : list nat -> bool := fun idx =>
  (f idx || f (ridx sh idx) || folded_out (Tsh sh) (isum idx)) || cornerb sh idx.
Definition umf (sh : list nat) (f : list nat -> bool) : list nat -> bool := fun idx =>
  (xorb (f idx) (folded_out (Tsh sh) (isum idx)) || xorb (f (ridx sh idx)) (folded_out (Tsh sh) (isum (ridx sh idx)))) || cornerb sh idx.
Definition symb (sh : list nat) (f : list nat -> bool) : list nat -> bool := fun idx =>
  f idx || f (ridx sh idx) || cornerb sh idx.

Lemma fold_mask_tgen d sh f : length sh = d -> pos sh -> fold_mask d (tgen d sh f) = tgen d sh (fmf sh f).
Proof. intros Hl Hp. unfold fold_mask. cbv zeta. rewrite total_samples_tgen by assumption.
  rewrite trev_tgen, tzip_tgen, timap_tgen, mask_corners_tgen by exact Hl. apply tgen_ext; [exact Hl|]. intros idx _. reflexivity. Qed.

Lemma unfold_mask_tgen d sh f : length sh = d -> pos sh -> unfold_mask d (tgen d sh f) = tgen d sh (umf sh f).
Proof. intros Hl Hp. unfold unfold_mask. cbv zeta. rewrite total_samples_tgen by assumption.
  rewrite timap_tgen, trev_tgen, tzip_tgen, mask_corners_tgen by exact Hl. apply tgen_ext; [exact Hl|]. intros idx _. reflexivity. Qed.

Lemma cornerb_ridx sh idx : inrg sh idx -> cornerb sh (ridx sh idx) = cornerb sh idx.
Proof. intros Hin. exact (PopOpsFoldMarg.is_corner_rev sh idx Hin). Qed.

(** unfold_mask (fold_mask mk) = mk || mirror mk || corners *)
Lemma umf_fmf sh f idx : inrg sh idx -> umf sh (fmf sh f) idx = symb sh f idx.
Proof. intros Hin. unfold umf, fmf, symb. rewrite (cornerb_ridx sh idx Hin).
  pose proof (isum_ridx sh idx Hin) as E. rewrite (ridx_invol sh idx Hin).
  set (t := isum idx) in *. set (t' := isum (ridx sh idx)) in *. set (T := Tsh sh) in *.
  destruct (lt_eq_lt_dec (2 * t) T) as [[Hc|Hc]|Hc].
  - rewrite (fo_false T t), (fo_true T t') by lia. destruct (f idx), (f (ridx sh idx)), (cornerb sh idx); reflexivity.
  - rewrite (fo_false T t), (fo_false T t') by lia. destruct (f idx), (f (ridx sh idx)), (cornerb sh idx); reflexivity.
  - rewrite (fo_true T t), (fo_false T t') by lia. destruct (f idx), (f (ridx sh idx)), (cornerb sh idx); reflexivity. Qed.

(** fold_mask forgets the added terms *)
Lemma fmf_symb sh f idx : inrg sh idx -> fmf sh (symb sh f) idx = fmf sh f idx.
Proof. intros Hin. unfold fmf, symb. rewrite (cornerb_ridx sh idx Hin), (ridx_invol sh idx Hin).
  destruct (f idx), (f (ridx sh idx)), (cornerb sh idx), (folded_out (Tsh sh) (isum idx)); reflexivity. Qed.

Definition sym_mask (d : nat) (y : tens bool d) : tens bool d := unfold_mask d (fold_mask d y).

Lemma sym_mask_tgen d sh f : length sh = d -> pos sh -> sym_mask d (tgen d sh f) = tgen d sh (symb sh f).
Proof. intros Hl Hp. unfold sym_mask. rewrite fold_mask_tgen, unfold_mask_tgen by assumption.
  apply tgen_ext; [exact Hl|]. intros idx Hin. apply umf_fmf, Hin. Qed.

Theorem fold_sym_mask d sh (y : tens bool d) : wf d sh y -> pos sh -> fold_mask d (sym_mask d y) = fold_mask d y.
Proof. intros Hw Hp. pose proof (wf_length d sh y Hw Hp) as Hl.
  rewrite (tgen_tget false d sh y Hw). rewrite sym_mask_tgen, !fold_mask_tgen by assumption.
  apply tgen_ext; [exact Hl|]. intros idx Hin. apply fmf_symb, Hin. Qed.

Lemma wf_sym_mask d sh (y : tens bool d) : wf d sh y -> pos sh -> wf d sh (sym_mask d y).
Proof. intros Hw Hp. pose proof (wf_length d sh y Hw Hp) as Hl.
  rewrite (tgen_tget false d sh y Hw), sym_mask_tgen by assumption. apply wf_tgen, Hl. Qed.

Lemma sym_mask_alt d sh (y : tens bool d) : wf d sh y -> pos sh ->
  sym_mask d y = tadd orb d (tadd orb d y (trev d y)) (tgen d sh (cornerb sh)).
Proof. intros Hw Hp. pose proof (wf_length d sh y Hw Hp) as Hl.
  rewrite (tgen_tget false d sh y Hw). rewrite sym_mask_tgen, trev_tgen, !tadd_tgen by assumption. reflexivity. Qed.

(** ** the two corner entries project onto the two corner entries *)
Lemma set_nth_same_defs ax v (l : list nat) : set_nth ax v l = PopOps.set_nth ax v l.
Proof. revert ax. induction l; intros [|ax]; cbn; try reflexivity; try (rewrite IHl; reflexivity). Qed.

Lemma set_nth_len {T} ax (v : T) l : length (set_nth ax v l) = length l.
Proof. revert ax. induction l; intros [|ax]; cbn; try reflexivity; try (rewrite IHl; reflexivity). Qed.
Lemma set_nth_nth_same {T} ax (v e : T) l : ax < length l -> nth ax (set_nth ax v l) e = v.
Proof. revert ax. induction l; intros [|ax] Hl; cbn in *; try lia; [reflexivity|]. apply IHl. lia. Qed.

Lemma inrg_nth sh idx k : inrg sh idx -> k < length sh -> nth k idx 0 < nth k sh 0.
Proof. intros Hin. revert k. induction Hin; intros k Hk; cbn in *; [lia|]. destruct k; [assumption|]. apply IHHin. lia. Qed.

Lemma proj_corner_tensor d ax n m sh : length sh = d -> pos sh -> ax < d -> nth ax sh 0 = S n -> m <= n ->
  Bproj d ax (pmask n m) m (tgen d sh (cornerb sh)) = tgen d (set_nth ax (m + 1) sh) (cornerb (set_nth ax (m + 1) sh)).
Proof. intros Hl Hp Hax Hn Hm. set (x := tgen d sh (cornerb sh)). set (sh' := set_nth ax (m + 1) sh).
  assert (Hwx : wf d sh x) by (apply wf_tgen, Hl).
  assert (Hl' : length sh' = d) by (unfold sh'; rewrite set_nth_len; exact Hl).
  assert (Hw' : wf d sh' (Bproj d ax (pmask n m) m x)) by (apply (wf_proj_axis false orb Bc B0); assumption).
  rewrite (tgen_tget false d sh' _ Hw'). apply tgen_ext; [exact Hl'|]. intros idx Hin.
  assert (Li : length idx = d) by (rewrite (inrg_length _ _ Hin); exact Hl').
  assert (Hi : nth ax idx 0 <= m).
  { pose proof (inrg_nth sh' idx ax Hin ltac:(lia)) as B.
    unfold sh' in B. rewrite set_nth_nth_same in B by lia. lia. }
  rewrite (PopOpsProjCommute.proj_mk_is_tensor_projection d ax n m sh x idx Hwx Hax Li Hn Hm Hi).
  assert (Hin' : PopOpsIdx.inr (PopOps.set_nth ax (S m) sh) idx).
  { unfold sh' in Hin. replace (m + 1) with (S m) in Hin by lia. exact Hin. }
  rewrite (PopOpsProjCommute.proj_mk_ext sh ax n m ltac:(lia) Hn Hm _ (fun I => true && cornerb sh I) idx); [| |exact Hin'].
  - rewrite (PopOpsProjCommute.proj_mk_corner sh ax n m ltac:(lia) Hn Hm true idx Hin'). cbn [andb].
    unfold sh'. replace (m + 1) with (S m) by lia. reflexivity.
  - intros I HI. unfold x. rewrite tget_tgen by assumption. reflexivity. Qed.

Theorem proj_axis_sym_mask d ax n m sh (y : tens bool d) :
  wf d sh y -> pos sh -> ax < d -> nth ax sh 0 = S n -> m <= n ->
  Bproj d ax (pmask n m) m (sym_mask d y) = sym_mask d (Bproj d ax (pmask n m) m y).
Proof. intros Hw Hp Hax Hn Hm. pose proof (wf_length d sh y Hw Hp) as Hl.
  assert (Hw' : wf d (set_nth ax (m + 1) sh) (Bproj d ax (pmask n m) m y)) by (apply (wf_proj_axis false orb Bc B0); assumption).
  assert (Hp' : pos (set_nth ax (m + 1) sh)) by (apply set_nth_pos; [lia|assumption]).
  rewrite (sym_mask_alt d sh y Hw Hp), (sym_mask_alt d _ _ Hw' Hp').
  rewrite !(proj_axis_tadd false orb Bc Ba B0) by (intros; apply pmask_additive).
  rewrite (projection_commutes_with_reversal_mask d ax n m sh y) by assumption.
  rewrite (proj_corner_tensor d ax n m sh) by assumption. reflexivity. Qed.

(** ** the loop of Spectrum.project and the whole of it *)
Lemma project_loop_sym_mask d : forall ns orig ax sh (x1 x2 : tens R d) (mk : tens bool d),
  wf d sh x1 -> wf d sh x2 -> wf d sh mk -> pos sh -> ax + length ns <= d ->
  option_map snd (project_loop d ax ns orig x1 (sym_mask d mk))
  = option_map (fun p => sym_mask d (snd p)) (project_loop d ax ns orig x2 mk).
Proof. induction ns as [|m ns]; intros orig ax sh x1 x2 mk W1 W2 Wm Hp Hax; [reflexivity|].
  cbn [project_loop]. destruct orig as [|n0 orig]; [reflexivity|]. cbn [length] in Hax.
  destruct (m =? n0).
  - apply (IHns orig (S ax) sh); auto. lia.
  - unfold project_one_axis. rewrite (sample_sizes_wf d sh x1 W1 Hp), (sample_sizes_wf d sh x2 W2 Hp).
    pose proof (wf_length d sh x1 W1 Hp) as Hlen.
    assert (En : nth ax (map pred sh) 0 = pred (nth ax sh 0)) by (exact (map_nth pred sh 0 ax)). rewrite !En.
    assert (Hpos : 1 <= nth ax sh 0) by (rewrite Forall_forall in Hp; apply Hp, nth_In; lia).
    destruct (Nat.ltb_spec (pred (nth ax sh 0)) m); [reflexivity|].
    rewrite (proj_axis_sym_mask d ax (pred (nth ax sh 0)) m sh mk) by (auto; lia).
    apply (IHns orig (S ax) (set_nth ax (m + 1) sh)); try lia.
    + apply (wf_proj_axis 0%R Rplus Rc R0); auto. lia.
    + apply (wf_proj_axis 0%R Rplus Rc R0); auto. lia.
    + apply (wf_proj_axis false orb Bc B0); auto. lia.
    + apply set_nth_pos; [lia|assumption]. Qed.

Lemma project_loop_wf_mask d : forall ns orig ax sh (x : tens R d) (mk : tens bool d) x' mk',
  wf d sh x -> wf d sh mk -> pos sh -> ax + length ns <= d ->
  project_loop d ax ns orig x mk = Some (x', mk') -> exists sh', wf d sh' mk' /\ pos sh'.
Proof. induction ns as [|m ns]; intros orig ax sh x mk x' mk' Hw Wm Hp Hax E.
  - cbn in E. injection E as <- <-. exists sh. split; assumption.
  - cbn [project_loop] in E. destruct orig as [|n0 orig]; [discriminate|]. cbn [length] in Hax.
    destruct (m =? n0).
    + apply (IHns orig (S ax) sh x mk x' mk'); auto. lia.
    + unfold project_one_axis in E. destruct (Nat.ltb _ m); [discriminate|].
      apply (IHns orig (S ax) (set_nth ax (m + 1) sh) _ _ x' mk') in E; auto; try lia.
      * apply (wf_proj_axis 0%R Rplus Rc R0); auto. lia.
      * apply (wf_proj_axis false orb Bc B0); auto. lia.
      * apply set_nth_pos; [lia|assumption]. Qed.

(** Spectrum.project on the folded spectrum (data x, mask fold_mask mk) is defined exactly when it is on an unfolded
    spectrum of the same shape with mask mk, and its mask is the fold of that projected mask.
    (The data arguments only supply the shape: the mask never depends on the data.) *)
Theorem folded_projection_consistent_mask d ns sh (x x' : tens R d) (mk : tens bool d) :
  wf d sh x -> wf d sh x' -> wf d sh mk -> pos sh ->
  option_map snd (project d ns true x (fold_mask d mk))
  = option_map (fun p => fold_mask d (snd p)) (project d ns false x' mk).
Proof. intros Hw Hw' Wm Hp. unfold project.
  rewrite (sample_sizes_wf d sh x Hw Hp), (sample_sizes_wf d sh x' Hw' Hp).
  destruct (Nat.eqb_spec (length ns) d) as [Hl|]; [|reflexivity]. cbn [negb].
  destruct (existsb _ _); [reflexivity|].
  pose proof (project_loop_sym_mask d ns (map pred sh) 0 sh (unfold_data d x) x' mk
                (wf_unfold_data d sh x Hw Hp) Hw' Wm Hp ltac:(lia)) as E. unfold sym_mask in E at 1.
  destruct (project_loop d 0 ns (map pred sh) x' mk) as [[x1 m1]|] eqn:E1;
  destruct (project_loop d 0 ns (map pred sh) (unfold_data d x) (unfold_mask d (fold_mask d mk))) as [[x1' m1']|] eqn:E1';
    cbn in E; try discriminate; [|reflexivity].
  injection E as ->. cbn [option_map snd]. f_equal.
  destruct (project_loop_wf_mask d ns (map pred sh) 0 sh x' mk x1 m1 Hw' Wm Hp ltac:(lia) E1) as (sh' & W' & P').
  apply (fold_sym_mask d sh'); assumption. Qed.
