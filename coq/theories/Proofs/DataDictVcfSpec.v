(** C13, make_data_dict_vcf without subsampling: specification of one tokenised data line ([vcf_line] on
    line.split("\t")).

    A line yields a record exactly when it passes the filters (FILTER column PASS or '.' when filter=True; REF and ALT a
    single base A/C/G/T after upper-casing); then, for every population, the stored pair is
        (number of '0' alleles, number of '1' alleles)
    summed over exactly the samples assigned to that population whose AD / DP fields do not flag them as uncovered,
    read from the GT sub-field (allele characters at the even positions of the genotype string: a missing allele '.'
    counts for neither); a population with no assigned sample has no entry.  A line failing a filter contributes no
    record ([LSkip]: the loop over the lines leaves the dictionary unchanged). *)
From Coq Require Import String Ascii ZArith NArith List Lia Bool Arith.
From Dadi Require Import Base.Num Model.Projection Model.Fold Model.DataDict Proofs.DataDictSub.
Import ListNotations.
Local Open Scope string_scope.

(** ** one genotype string *)
Definition is0 (a : ascii) : nat := if Ascii.eqb a "0" then 1 else 0.
Definition is1 (a : ascii) : nat := if Ascii.eqb a "1" then 1 else 0.

(** diploid genotype  a/b  or  a|b : the two allele characters are counted, the separator is not *)
Lemma gt_counts_diploid a sep b :
  let gt := String a (String sep (String b EmptyString)) in
  gt_ref gt = (is0 a + is0 b)%nat /\ gt_alt gt = (is1 a + is1 b)%nat.
Proof. cbv zeta. unfold gt_ref, gt_alt, is0, is1. cbn [evens count_char]. split; lia. Qed.
(** haploid genotype *)
Lemma gt_counts_haploid a : gt_ref (String a EmptyString) = is0 a /\ gt_alt (String a EmptyString) = is1 a.
Proof. unfold gt_ref, gt_alt, is0, is1. cbn [evens count_char]. split; lia. Qed.
(** any ploidy: alleles at the even positions *)
Lemma gt_counts_cons a sep rest :
  gt_ref (String a (String sep rest)) = (is0 a + gt_ref rest)%nat /\ gt_alt (String a (String sep rest)) = (is1 a + gt_alt rest)%nat.
Proof. unfold gt_ref, gt_alt, is0, is1. cbn [evens count_char]. split; reflexivity. Qed.
(** a missing allele counts for neither *)
Lemma missing_allele_not_counted : is0 "." = 0%nat /\ is1 "." = 0%nat.
Proof. split; reflexivity. Qed.

(** ** the loop over the samples *)
Section Loop.
  Variables (gtindex : nat) (covindex dpindex : option nat).

  (** what one sample adds: nothing when flagged uncovered, else the counts of its GT field; None = no GT field (IndexError) *)
  Definition sample_counts (sample : string) : option (nat * nat) :=
    let fs := split ":" sample in
    if skip_sample covindex dpindex fs then Some (0, 0)%nat
    else match nth_error fs gtindex with
         | None => None
         | Some gt => Some (gt_ref gt, gt_alt gt)
         end.
  Definition cnt_of (sample : string) : nat * nat :=
    match sample_counts sample with Some c => c | None => (0, 0)%nat end.

  (** the samples assigned to population q, in file order *)
  Definition assigned (q : string) (ps : list (option string * string)) : list string :=
    map snd (filter (fun p => match fst p with Some pop => String.eqb pop q | None => false end) ps).

  Definition getd (q : string) (calls : dict (nat * nat)) : nat * nat :=
    match dget q calls with Some c => c | None => (0, 0)%nat end.
  Definition addp (x y : nat * nat) : nat * nat := (fst x + fst y, snd x + snd y)%nat.

  (** running tally of population q *)
  Fixpoint tally (q : string) (ps : list (option string * string)) (acc : option (nat * nat)) : option (nat * nat) :=
    match ps with
    | [] => acc
    | (None, _) :: r => tally q r acc
    | (Some pop, sample) :: r =>
        if String.eqb pop q
        then tally q r (Some (addp (match acc with Some c => c | None => (0, 0)%nat end) (cnt_of sample)))
        else tally q r acc
    end.

  Lemma calls_loop_tally : forall ps calls calls',
    calls_loop gtindex covindex dpindex ps calls = Some calls' ->
    (forall q, dget q calls' = tally q ps (dget q calls)) /\
    Forall (fun p => fst p <> None -> sample_counts (snd p) <> None) ps.
  Proof. induction ps as [|[[pop|] sample] r IH]; intros calls calls' E; cbn [calls_loop] in E.
    - inversion E; subst. split; [reflexivity|constructor].
    - set (calls1 := if dhas pop calls then calls else dset pop (0, 0)%nat calls) in *.
      assert (G1 : forall q, dget q calls1 = if String.eqb pop q then Some (getd pop calls) else dget q calls).
      { intros q. unfold calls1, dhas, getd. destruct (String.eqb_spec pop q) as [->|Hne].
        - destruct (dget q calls) eqn:Eg; [exact Eg|]. apply dget_dset_same.
        - destruct (dget pop calls); [reflexivity|]. apply dget_dset_other. congruence. }
      destruct (skip_sample covindex dpindex (split ":" sample)) eqn:Esk.
      + destruct (IH _ _ E) as [G F]. split.
        * intros q. rewrite G, G1. cbn [tally]. unfold cnt_of, sample_counts. rewrite Esk.
          destruct (String.eqb_spec pop q) as [->|Hne]; [|reflexivity].
          unfold getd, addp. destruct (dget q calls) as [[x y]|]; cbn [fst snd]; rewrite ?Nat.add_0_r; reflexivity.
        * constructor; [|exact F]. intros _. cbn [snd]. unfold sample_counts. rewrite Esk. discriminate.
      + destruct (nth_error (split ":" sample) gtindex) as [gt|] eqn:Egt; [|discriminate].
        destruct (match dget pop calls1 with Some c => c | None => (0, 0)%nat end) as [rc ac] eqn:Ecur.
        destruct (IH _ _ E) as [G F]. split.
        * intros q. rewrite G. cbn [tally]. unfold cnt_of, sample_counts. rewrite Esk, Egt.
          destruct (String.eqb_spec pop q) as [->|Hne].
          -- rewrite dget_dset_same. f_equal. f_equal. rewrite G1, String.eqb_refl in Ecur. unfold getd in Ecur.
             unfold addp. destruct (dget q calls) as [[x y]|]; inversion Ecur; subst; reflexivity.
          -- rewrite dget_dset_other by congruence. rewrite G1. destruct (String.eqb_spec pop q); [contradiction|reflexivity].
        * constructor; [|exact F]. intros _. cbn [snd]. unfold sample_counts. rewrite Esk, Egt. discriminate.
    - destruct (IH _ _ E) as [G F]. split; [exact G|]. constructor; [|exact F]. intros H. exfalso. apply H. reflexivity. Qed.

  (** the tally in closed form: sums over the assigned samples *)
  Definition sum_counts (l : list string) : nat * nat :=
    (list_sum (map (fun s => fst (cnt_of s)) l), list_sum (map (fun s => snd (cnt_of s)) l)).

  Lemma tally_closed q : forall ps acc,
    tally q ps acc = match assigned q ps with
                     | [] => acc
                     | l => Some (addp (match acc with Some c => c | None => (0, 0)%nat end) (sum_counts l))
                     end.
  Proof. unfold assigned. induction ps as [|[[pop|] sample] r IH]; intros acc; cbn [tally filter map fst snd]; [reflexivity| |apply IH].
    destruct (String.eqb pop q); [|apply IH]. rewrite IH. cbn [map snd].
    destruct (map snd (filter _ r)) as [|s l].
    - unfold sum_counts, addp. cbn [map list_sum fold_right fst snd]. rewrite !Nat.add_0_r. reflexivity.
    - f_equal. unfold sum_counts, addp. cbn [map list_sum fold_right fst snd]. f_equal; lia. Qed.

  (** specification of the sample loop started on the empty dictionary *)
  Theorem calls_loop_spec : forall ps calls,
    calls_loop gtindex covindex dpindex ps [] = Some calls ->
    (forall q, dget q calls = match assigned q ps with [] => None | l => Some (sum_counts l) end) /\
    Forall (fun p => fst p <> None -> sample_counts (snd p) <> None) ps.
  Proof. intros ps calls E. destruct (calls_loop_tally ps [] calls E) as [G F]. split; [|exact F].
    intros q. rewrite G, tally_closed. cbn [dget]. destruct (assigned q ps); [reflexivity|].
    unfold addp. cbn [fst snd Nat.add]. destruct (sum_counts (s :: l)); reflexivity. Qed.

  (** the loop fails exactly when a counted sample of an assigned individual has no GT field *)
  Theorem calls_loop_none : forall ps calls,
    calls_loop gtindex covindex dpindex ps calls = None ->
    exists pop sample, In (Some pop, sample) ps /\ sample_counts sample = None.
  Proof. induction ps as [|[[pop|] sample] r IH]; intros calls E; cbn [calls_loop] in E; [discriminate| |].
    - destruct (skip_sample covindex dpindex (split ":" sample)) eqn:Esk.
      + destruct (IH _ E) as (p & s & Hin & Hs). exists p, s. split; [right; exact Hin|exact Hs].
      + destruct (nth_error (split ":" sample) gtindex) as [gt|] eqn:Egt.
        * destruct (match dget pop _ with Some c => c | None => (0, 0)%nat end) as [rc ac].
          destruct (IH _ E) as (p & s & Hin & Hs). exists p, s. split; [right; exact Hin|exact Hs].
        * exists pop, sample. split; [left; reflexivity|]. unfold sample_counts. rewrite Esk, Egt. reflexivity.
    - destruct (IH _ E) as (p & s & Hin & Hs). exists p, s. split; [right; exact Hin|exact Hs]. Qed.
End Loop.

(** ** the INFO column: ancestral allele *)
Definition aa_field (f : string) : bool := starts_with "AA=" f || starts_with "AA_ensembl=" f || starts_with "AA_chimp=" f.
Definition aa_value (f : string) : string :=
  let a := hd EmptyString (split "|" (upper (nth 1 (split "=" f) EmptyString))) in if is_base a then a else "-".

Lemma ancestral_first pre f post : Forall (fun x => aa_field x = false) pre -> aa_field f = true ->
  ancestral (pre ++ f :: post) = aa_value f.
Proof. unfold aa_field, aa_value. induction 1 as [|x pre Hx F IH]; intros Hf; cbn [app ancestral].
  - rewrite Hf. reflexivity.
  - rewrite Hx. apply IH, Hf. Qed.
Lemma ancestral_none info : Forall (fun x => aa_field x = false) info -> ancestral info = "-".
Proof. unfold aa_field. induction 1 as [|x l Hx F IH]; cbn [ancestral]; [reflexivity|]. rewrite Hx. exact IH. Qed.

(** ** one data line *)
Definition line_passes (cfg : vcf_cfg) (c3 c4 c6 : string) : bool :=
  negb (cfg_filter cfg && negb (String.eqb c6 "PASS") && negb (String.eqb c6 ".")) && is_base (upper c3) && is_base (upper c4).

Definition line_record (c3 c4 c7 : string) (calls : dict (nat * nat)) : snp :=
  let out := ancestral (split ";" c7) in
  {| s_seg := [upper c3; upper c4]; s_context := "-" ++ upper c3 ++ "-"; s_out := Some out;
     s_out_context := "-" ++ out ++ "-"; s_calls := calls |}.

Theorem vcf_line_counts_spec : forall choose cfg poplist cols c c3 c4 c6 c7 c8,
  cfg_sub cfg = None ->
  nth_error cols 3 = Some c3 -> nth_error cols 4 = Some c4 -> nth_error cols 6 = Some c6 ->
  nth_error cols 7 = Some c7 -> nth_error cols 8 = Some c8 ->
  let ps := combine poplist (skipn 9 cols) in
  let fmt := split ":" c8 in
  (* a line failing a filter contributes no record *)
  (line_passes cfg c3 c4 c6 = false -> vcf_line choose cfg poplist cols c = (LSkip, c)) /\
  (line_passes cfg c3 c4 c6 = true ->
     (index_of "GT" fmt = None -> vcf_line choose cfg poplist cols c = (LErr, c)) /\
     forall gtindex, index_of "GT" fmt = Some gtindex ->
       let covindex := index_of "AD" fmt in let dpindex := index_of "DP" fmt in
       (* a record, with the allele counts of exactly the counted samples of each population *)
       (forall calls, calls_loop gtindex covindex dpindex ps [] = Some calls ->
          vcf_line choose cfg poplist cols c = (LSnp (join "_" (firstn 2 cols)) (line_record c3 c4 c7 calls), c) /\
          (forall q, dget q calls = match assigned q ps with
                                    | [] => None
                                    | l => Some (sum_counts gtindex covindex dpindex l)
                                    end) /\
          Forall (fun p => fst p <> None -> sample_counts gtindex covindex dpindex (snd p) <> None) ps) /\
       (* or the exception of the Python code: an assigned, counted sample without GT field *)
       (calls_loop gtindex covindex dpindex ps [] = None ->
          vcf_line choose cfg poplist cols c = (LErr, c) /\
          exists pop sample, In (Some pop, sample) ps /\ sample_counts gtindex covindex dpindex sample = None)).
Proof. intros choose cfg poplist cols c c3 c4 c6 c7 c8 Hsub E3 E4 E6 E7 E8 ps fmt.
  unfold vcf_line, line_passes. rewrite E3, E4, E6, E7, E8, Hsub. fold fmt. fold ps.
  destruct (cfg_filter cfg && negb (String.eqb c6 "PASS") && negb (String.eqb c6 ".")) eqn:Ef; cbn [negb andb].
  - split; [reflexivity|discriminate].
  - destruct (is_base (upper c3)) eqn:B3; cbn [negb orb andb].
    + destruct (is_base (upper c4)) eqn:B4; cbn [negb orb andb].
      * split; [discriminate|]. intros _. split.
        -- intros Eg. rewrite Eg. reflexivity.
        -- intros gtindex Eg. rewrite Eg. cbv zeta. split.
           ++ intros calls Ec. rewrite Ec. split; [reflexivity|]. apply calls_loop_spec. exact Ec.
           ++ intros Ec. rewrite Ec. split; [reflexivity|]. apply (calls_loop_none _ _ _ _ _ Ec).
      * split; [reflexivity|discriminate].
    + split; [reflexivity|discriminate]. Qed.

(** only records come from lines that pass the filters (converse direction, any subsampling setting) *)
Theorem vcf_line_record_passed : forall choose cfg poplist cols c key s c',
  vcf_line choose cfg poplist cols c = (LSnp key s, c') ->
  exists c3 c4 c6 c7 c8,
    nth_error cols 3 = Some c3 /\ nth_error cols 4 = Some c4 /\ nth_error cols 6 = Some c6 /\
    nth_error cols 7 = Some c7 /\ nth_error cols 8 = Some c8 /\
    line_passes cfg c3 c4 c6 = true /\ key = join "_" (firstn 2 cols) /\
    s_seg s = [upper c3; upper c4] /\ s_out s = Some (ancestral (split ";" c7)).
Proof. intros choose cfg poplist cols c key s c' E. unfold vcf_line in E.
  destruct (nth_error cols 3) as [c3|]; [|discriminate]. destruct (nth_error cols 4) as [c4|]; [|discriminate].
  destruct (nth_error cols 6) as [c6|]; [|discriminate]. destruct (nth_error cols 7) as [c7|]; [|discriminate].
  destruct (nth_error cols 8) as [c8|]; [|discriminate].
  exists c3, c4, c6, c7, c8. repeat (split; [reflexivity|]). unfold line_passes.
  destruct (cfg_filter cfg && negb (String.eqb c6 "PASS") && negb (String.eqb c6 ".")); [discriminate|].
  destruct (is_base (upper c3)); [|discriminate]. destruct (is_base (upper c4)); [|discriminate]. cbn [negb orb andb] in *.
  split; [reflexivity|].
  destruct (index_of "GT" (split ":" c8)) as [gtindex|]; [|discriminate].
  destruct (cfg_sub cfg) as [sub|].
  - destruct (collect_loop _ _ _ _ _) as [sd|]; [|discriminate].
    destruct (choose_loop _ _ _ _ _) as [[calls|] c'']; inversion E; subst. repeat split.
  - destruct (calls_loop _ _ _ _ _) as [calls|]; inversion E; subst. repeat split. Qed.

(** a skipped line leaves the dictionary unchanged: the loop over the lines goes on with the same dictionary *)
Theorem vcf_loop_skip : forall choose cfg popinfo cols r poplist dd c c',
  starts_with "#" (hd EmptyString cols) = false ->
  vcf_line choose cfg poplist cols c = (LSkip, c') ->
  vcf_loop choose cfg popinfo (cols :: r) (Some poplist) dd c = vcf_loop choose cfg popinfo r (Some poplist) dd c'.
Proof. intros choose cfg popinfo cols r poplist dd c c' Hh El. cbn [vcf_loop].
  assert (H2 : starts_with "##" (hd EmptyString cols) = false).
  { unfold starts_with in *. destruct (hd EmptyString cols) as [|a s]; [reflexivity|]. cbn [prefix] in *.
    destruct (ascii_dec "#" a); [|reflexivity]. exfalso. destruct s; cbn in Hh; discriminate. }
  rewrite H2, Hh, El. reflexivity. Qed.

(** ... and a record is stored under the key CHROM_POS *)
Theorem vcf_loop_record : forall choose cfg popinfo cols r poplist dd c c' key s,
  starts_with "#" (hd EmptyString cols) = false ->
  vcf_line choose cfg poplist cols c = (LSnp key s, c') ->
  vcf_loop choose cfg popinfo (cols :: r) (Some poplist) dd c = vcf_loop choose cfg popinfo r (Some poplist) (dset key s dd) c'.
Proof. intros choose cfg popinfo cols r poplist dd c c' key s Hh El. cbn [vcf_loop].
  assert (H2 : starts_with "##" (hd EmptyString cols) = false).
  { unfold starts_with in *. destruct (hd EmptyString cols) as [|a s0]; [reflexivity|]. cbn [prefix] in *.
    destruct (ascii_dec "#" a); [|reflexivity]. exfalso. destruct s0; cbn in Hh; discriminate. }
  rewrite H2, Hh, El. reflexivity. Qed.
