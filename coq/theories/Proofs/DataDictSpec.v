(** C13, spectrum level: the spectrum built from a data dictionary is the sum over the usable SNPs of the outer
    products of hypergeometric projection vectors; its total is the number of adequately called usable SNPs. *)
From Coq Require Import String ZArith Reals List Lra Lia Bool Arith Permutation.
From Dadi Require Import Base.Num Base.NumR Model.Projection Model.Fold Model.DataDict
  Proofs.ProjBase Proofs.ProjH Proofs.FoldAbs Proofs.FoldND.
Import ListNotations.
Local Open Scope R_scope.

(** ** vectors = lists over R *)
Definition get (v : list R) (i : nat) : R := nth i v 0.
Arguments get : simpl never.
Notation vaddR := (vadd (F:=R)).
Notation vscaleR := (vscale (F:=R)).
Notation vzeroR := (vzero (F:=R)).

Lemma map2_length {A B C} (f : A -> B -> C) : forall a b, length a = length b -> length (map2 f a b) = length a.
Proof. induction a; destruct b; cbn; intros E; try discriminate; auto. Qed.
Lemma vadd_length a b : length a = length b -> length (vaddR a b) = length a.
Proof. apply map2_length. Qed.
Lemma vscale_length c a : length (vscaleR c a) = length a.
Proof. apply map_length. Qed.
Lemma vzero_length L : length (vzeroR L) = L.
Proof. apply repeat_length. Qed.

Lemma get_vadd : forall a b i, length a = length b -> get (vaddR a b) i = get a i + get b i.
Proof. unfold get. induction a; destruct b; cbn; intros i E; try discriminate.
  - destruct i; lra.
  - destruct i; [numR; reflexivity|]. apply IHa. lia. Qed.
Lemma get_vscale c : forall a i, get (vscaleR c a) i = c * get a i.
Proof. unfold get. induction a; cbn; intros i; [destruct i; ring|]. destruct i; [numR; reflexivity|]. apply IHa. Qed.
Lemma get_vzero L i : get (vzeroR L) i = 0.
Proof. unfold get, vzero. revert i; induction L; cbn; intros i; destruct i; auto. Qed.

Definition rtot (v : list R) : R := nsum (F:=R) v.
Lemma rtot_cons x v : rtot (x :: v) = x + rtot v.
Proof. reflexivity. Qed.
Lemma rtot_app a b : rtot (a ++ b) = rtot a + rtot b.
Proof. induction a; [unfold rtot, nsum; cbn; numR; lra|]. cbn [app]. rewrite !rtot_cons, IHa. lra. Qed.
Lemma rtot_vadd : forall a b, length a = length b -> rtot (vaddR a b) = rtot a + rtot b.
Proof. induction a as [|x a IHa]; destruct b as [|y b]; intros E; try discriminate; [unfold rtot, nsum; cbn; numR; lra|].
  change (vaddR (x :: a) (y :: b)) with (nadd x y :: vaddR a b). rewrite !rtot_cons.
  rewrite IHa by (cbn in E; lia). numR. lra. Qed.
Lemma rtot_vscale c : forall a, rtot (vscaleR c a) = c * rtot a.
Proof. induction a as [|x a IHa]; [unfold rtot, nsum; cbn; numR; lra|].
  change (vscaleR c (x :: a)) with (nmul c x :: vscaleR c a). rewrite !rtot_cons, IHa. numR. lra. Qed.
Lemma rtot_vzero L : rtot (vzeroR L) = 0.
Proof. induction L; [reflexivity|]. change (vzeroR (S L)) with (n0 :: vzeroR L). rewrite rtot_cons, IHL. numR. lra. Qed.
Lemma rtot_map_seq f n : rtot (map f (seq 0 n)) = rsum f n.
Proof. induction n; [reflexivity|]. rewrite seq_S, map_app, rtot_app, IHn. cbn. unfold rtot; cbn. lra. Qed.

(** ** sums over lists *)
Fixpoint lsum {A} (f : A -> R) (l : list A) : R := match l with [] => 0 | x :: r => f x + lsum f r end.
Lemma lsum_app {A} (f : A -> R) a b : lsum f (a ++ b) = lsum f a + lsum f b.
Proof. induction a; cbn; [lra|]. rewrite IHa; lra. Qed.
Lemma lsum_perm {A} (f : A -> R) a b : Permutation a b -> lsum f a = lsum f b.
Proof. induction 1; cbn; lra. Qed.
Lemma lsum_ext {A} (f g : A -> R) l : (forall x, In x l -> f x = g x) -> lsum f l = lsum g l.
Proof. induction l; cbn; intros E; [reflexivity|]. rewrite E, IHl by auto. reflexivity. Qed.
Lemma lsum_map {A B} (g : A -> B) (f : B -> R) l : lsum f (map g l) = lsum (fun x => f (g x)) l.
Proof. induction l; cbn; [reflexivity|]. rewrite IHl; reflexivity. Qed.
Lemma lsum_concat {A} (f : A -> R) ll : lsum f (concat ll) = lsum (lsum f) ll.
Proof. induction ll; cbn; [reflexivity|]. rewrite lsum_app, IHll. reflexivity. Qed.
Lemma lsum_zero {A} (f : A -> R) l : (forall x, In x l -> f x = 0) -> lsum f l = 0.
Proof. induction l; cbn; intros E; [reflexivity|]. rewrite E, IHl by auto. lra. Qed.

(** ** the outer product *)
Lemma kron_length (a b : list R) : length (kron a b) = (length a * length b)%nat.
Proof. unfold kron. induction a; cbn [flat_map length]; [reflexivity|]. rewrite app_length, map_length, IHa. reflexivity. Qed.

Lemma kron_nth (a b : list R) : forall i j, (i < length a)%nat -> (j < length b)%nat ->
  get (kron a b) (i * length b + j) = get a i * get b j.
Proof. unfold get, kron. induction a; cbn [flat_map length]; intros i j Hi Hj; [lia|]. destruct i.
  - cbn [Nat.mul Nat.add nth]. rewrite app_nth1 by (rewrite map_length; lia).
    rewrite (nth_indep _ 0 (nmul a 0)) by (rewrite map_length; lia). rewrite map_nth. numR. reflexivity.
  - replace (S i * length b + j)%nat with (length (map (fun y => nmul a y) b) + (i * length b + j))%nat
      by (rewrite map_length; lia).
    rewrite app_nth2_plus. apply IHa; lia. Qed.

Lemma rtot_kron (a b : list R) : rtot (kron a b) = rtot a * rtot b.
Proof. unfold kron. induction a; cbn [flat_map]; [unfold rtot, nsum; cbn; numR; lra|]. rewrite rtot_app, rtot_cons, IHa.
  change (map (fun y => nmul a y) b) with (vscaleR a b). rewrite rtot_vscale. lra. Qed.

Lemma outer_length (vs : list (list R)) : length (outer vs) = size (map (@length R) vs).
Proof. induction vs; cbn; [reflexivity|]. rewrite kron_length, IHvs. reflexivity. Qed.

Fixpoint rprod (l : list R) : R := match l with [] => 1 | x :: r => x * rprod r end.

Lemma ravel_lt : forall s mi, Forall2 (fun n i => (i < n)%nat) s mi -> (ravel s mi < size s)%nat.
Proof. induction s; intros mi F; inversion F; subst; cbn; [lia|].
  specialize (IHs _ H3). fold (size s). nia. Qed.

(** entry (i_1, ..., i_d) of the outer product is the product of the entries *)
Lemma outer_ravel : forall (vs : list (list R)) mi, Forall2 (fun v i => (i < length v)%nat) vs mi ->
  get (outer vs) (ravel (map (@length R) vs) mi) = rprod (map2 get vs mi).
Proof. induction vs; intros mi F; inversion F; subst; cbn.
  - unfold get; cbn. numR. reflexivity.
  - rewrite <- outer_length. rewrite kron_nth; auto.
    + rewrite IHvs by assumption. reflexivity.
    + rewrite outer_length. apply ravel_lt. clear - H3. induction H3; constructor; auto. Qed.

Lemma rtot_outer (vs : list (list R)) : rtot (outer vs) = rprod (map rtot vs).
Proof. induction vs; cbn; [unfold rtot, nsum; cbn; numR; lra|]. rewrite rtot_kron, IHvs. reflexivity. Qed.

(** ** projection vectors *)
Lemma cached_projection_get m n j i : (i <= m)%nat ->
  get (cached_projection (F:=R) m n j) i = if (m <=? n)%nat then H n m j i else 0.
Proof. intros Hi. unfold get. destruct (m <=? n)%nat eqn:E.
  - apply Nat.leb_le in E. apply cached_projection_nth; assumption.
  - apply Nat.leb_gt in E. rewrite cached_projection_upward by assumption.
    clear. generalize (m + 1)%nat. intros L. revert i. induction L; destruct i; cbn; auto. Qed.

Lemma cached_projection_total m n j : (j <= n)%nat ->
  rtot (cached_projection (F:=R) m n j) = if (m <=? n)%nat then 1 else 0.
Proof. intros Hj. destruct (m <=? n)%nat eqn:E.
  - apply Nat.leb_le in E. unfold cached_projection.
    replace (n <? m)%nat with false by (symmetry; apply Nat.ltb_ge; lia).
    cbv zeta. rewrite rtot_map_seq. apply (H_sums_to_one n m j); assumption.
  - apply Nat.leb_gt in E. rewrite cached_projection_upward by assumption.
    generalize (m + 1)%nat. intros L. apply (rtot_vzero L). Qed.

(** ** the per-SNP term *)
(** weight of one row (successful calls, derived calls) at flat index i *)
Definition row_get (projs : list nat) (k : ckey) (i : nat) : R :=
  let '(succ, der, _) := k in get (snp_contrib (F:=R) projs succ der) i.
Definition row_used (polarized : bool) (k : ckey) : bool :=
  let '(_, _, pol) := k in negb (polarized && negb pol).
(** what one entry of the data dictionary adds to entry i of the spectrum *)
Definition snp_term (pop_ids : list string) (projs : list nat) (polarized : bool) (s : snp) (i : nat) : R :=
  match snp_row pop_ids s with
  | RKey k => if row_used polarized k then row_get projs k i else 0
  | _ => 0
  end.

Lemma pop_contribs_lengths : forall projs succ der, length succ = length projs -> length der = length projs ->
  map (@length R) (pop_contribs (F:=R) projs succ der) = spec_shape projs.
Proof. induction projs; destruct succ, der; cbn; intros E1 E2; try discriminate; [reflexivity|].
  rewrite cached_projection_length, IHprojs by lia. f_equal. lia. Qed.

Lemma snp_contrib_length projs succ der : length succ = length projs -> length der = length projs ->
  length (snp_contrib (F:=R) projs succ der) = size (spec_shape projs).
Proof. intros. unfold snp_contrib. rewrite outer_length, pop_contribs_lengths by assumption. reflexivity. Qed.

(** ** the count dictionary as a weighted sum *)
Definition key_ok (L : nat) (k : ckey) : Prop := let '(succ, der, _) := k in length succ = L /\ length der = L.

Definition cd_val (projs : list nat) (polarized : bool) (cd : list (ckey * nat)) (i : nat) : R :=
  lsum (fun e => if row_used polarized (fst e) then INR (snd e) * row_get projs (fst e) i else 0) cd.

Lemma fcd_fold projs polarized : forall cd acc, length acc = size (spec_shape projs) ->
  Forall (fun e => key_ok (length projs) (fst e)) cd ->
  length (fold_left (fcd_step (F:=R) projs polarized) cd acc) = size (spec_shape projs) /\
  forall i, get (fold_left (fcd_step (F:=R) projs polarized) cd acc) i = get acc i + cd_val projs polarized cd i.
Proof. induction cd as [|[[[succ der] pol] cnt] cd IH]; intros acc La Fk; cbn.
  - split; [assumption|]. intros; unfold cd_val; cbn; lra.
  - inversion Fk as [|? ? Hk Fk']; subst. cbn in Hk. destruct Hk as [Ls Ld].
    assert (Lc : length (vscaleR (nofnat cnt) (snp_contrib (F:=R) projs succ der)) = size (spec_shape projs))
      by (rewrite vscale_length; apply snp_contrib_length; assumption).
    destruct (polarized && negb pol)%bool eqn:E.
    + destruct (IH acc La Fk') as [L1 G1]. split; [assumption|]. intros i. rewrite G1.
      unfold cd_val; cbn. lra.
    + destruct (IH (vaddR acc (vscaleR (nofnat cnt) (snp_contrib projs succ der)))) as [L1 G1].
      * rewrite vadd_length; lia.
      * assumption.
      * split; [assumption|]. intros i. rewrite G1, get_vadd, get_vscale by lia.
        unfold cd_val; cbn. unfold nofnat. numR. rewrite <- INR_IZR_INZ. lra. Qed.

Lemma fcd_get projs polarized cd : Forall (fun e => key_ok (length projs) (fst e)) cd ->
  length (fcd_data (F:=R) cd projs polarized) = size (spec_shape projs) /\
  forall i, get (fcd_data (F:=R) cd projs polarized) i = cd_val projs polarized cd i.
Proof. intros Fk. unfold fcd_data. destruct (fcd_fold projs polarized cd (vzeroR (size (spec_shape projs)))) as [L G].
  - apply vzero_length. - assumption.
  - split; [assumption|]. intros i. rewrite G, get_vzero. lra. Qed.

Lemma list_nat_eqb_eq : forall a b, list_nat_eqb a b = true -> a = b.
Proof. induction a; destruct b; cbn; intros E; try discriminate; [reflexivity|].
  apply andb_prop in E as [E1 E2]. apply Nat.eqb_eq in E1. f_equal; auto. Qed.
Lemma ckey_eqb_eq a b : ckey_eqb a b = true -> a = b.
Proof. destruct a as [[s1 d1] p1], b as [[s2 d2] p2]. cbn. intros E.
  apply andb_prop in E as [E E3]. apply andb_prop in E as [E1 E2].
  apply list_nat_eqb_eq in E1, E2. apply Bool.eqb_prop in E3. subst. reflexivity. Qed.

Lemma cincr_val projs polarized k : forall cd i,
  cd_val projs polarized (cincr k cd) i =
  cd_val projs polarized cd i + (if row_used polarized k then row_get projs k i else 0).
Proof. unfold cd_val. induction cd as [|[k' n] cd IH]; intros i; cbn [lsum cincr fst snd].
  - destruct (row_used polarized k); change (INR 1) with 1; lra.
  - destruct (ckey_eqb k' k) eqn:E.
    + apply ckey_eqb_eq in E. subst k'. cbn [lsum fst snd]. destruct (row_used polarized k); [|lra].
      rewrite S_INR. lra.
    + cbn [lsum fst snd]. rewrite IH. lra. Qed.

Lemma cincr_ok L k cd : key_ok L k -> Forall (fun e => key_ok L (fst e)) cd -> Forall (fun e => key_ok L (fst e)) (cincr k cd).
Proof. intros Hk. induction 1 as [|[k' n] cd Hx Hf IH]; cbn; [repeat constructor; assumption|].
  destruct (ckey_eqb k' k); constructor; auto. Qed.

Lemma calls_for_length calls : forall pop_ids cs, calls_for calls pop_ids = Some cs -> length cs = length pop_ids.
Proof. induction pop_ids; cbn; intros cs E; [inversion E; reflexivity|].
  destruct (dget a calls); [|discriminate]. destruct (calls_for calls pop_ids); [|discriminate].
  inversion E; subst. cbn. f_equal. auto. Qed.

Lemma snp_row_ok pop_ids s k : snp_row pop_ids s = RKey k -> key_ok (length pop_ids) k.
Proof. unfold snp_row. destruct (s_seg s) as [|a1 [|a2 [|? ?]]]; try discriminate.
  destruct (calls_for (s_calls s) pop_ids) eqn:E; [|discriminate]. intros E1. inversion E1; subst. cbn.
  apply calls_for_length in E. rewrite map_length. split; [assumption|].
  destruct (String.eqb a1 _); rewrite map_length; assumption. Qed.

Lemma count_loop_val pop_ids projs polarized : forall vals cd0 cd,
  Forall (fun e => key_ok (length pop_ids) (fst e)) cd0 ->
  count_loop pop_ids vals cd0 = Some cd ->
  Forall (fun e => key_ok (length pop_ids) (fst e)) cd /\
  forall i, cd_val projs polarized cd i = cd_val projs polarized cd0 i + lsum (fun s => snp_term pop_ids projs polarized s i) vals.
Proof. induction vals as [|s vals IH]; intros cd0 cd F0 E; cbn in E.
  - inversion E; subst. split; [assumption|]. intros; cbn; lra.
  - cbn [lsum fold_right]. unfold snp_term at 1. destruct (snp_row pop_ids s) as [| |k] eqn:Er; [discriminate| |].
    + destruct (IH _ _ F0 E) as [F1 G1]. split; [assumption|]. intros i. rewrite G1. unfold lsum. lra.
    + destruct (IH (cincr k cd0) cd) as [F1 G1]; [apply cincr_ok; [eapply snp_row_ok; eassumption|assumption]|assumption|].
      split; [assumption|]. intros i. rewrite G1, cincr_val. unfold lsum. lra. Qed.

(** *** spectrum_is_sum_of_projections *)
Theorem spectrum_is_sum_of_projections : forall (dd : dict snp) pop_ids projs polarized cd,
  length pop_ids = length projs -> count_data_dict dd pop_ids = Some cd ->
  length (fcd_data (F:=R) cd projs polarized) = size (spec_shape projs) /\
  forall i, get (fcd_data (F:=R) cd projs polarized) i
            = lsum (fun s => snp_term pop_ids projs polarized s i) (map snd dd).
Proof. intros dd pop_ids projs polarized cd EL E. unfold count_data_dict in E.
  destruct (count_loop_val pop_ids projs polarized (map snd dd) [] cd) as [F1 G1]; [constructor|assumption|].
  rewrite EL in F1. destruct (fcd_get projs polarized cd F1) as [L G]. split; [assumption|].
  intros i. rewrite G, G1. unfold cd_val; cbn. lra. Qed.

(** each SNP's term is the outer product of hypergeometric weights:
    entry (i_1..i_d) = prod_k H(n_k, m_k, j_k, i_k)   (0 when the SNP has fewer calls n_k than the projection m_k) *)
Fixpoint hyper_prod (projs succ der mi : list nat) : R :=
  match projs, succ, der, mi with
  | m :: projs', n :: succ', j :: der', i :: mi' =>
      (if (m <=? n)%nat then H n m j i else 0) * hyper_prod projs' succ' der' mi'
  | _, _, _, _ => 1
  end.

Lemma snp_contrib_entry : forall projs succ der mi,
  length succ = length projs -> length der = length projs ->
  Forall2 (fun m i => (i <= m)%nat) projs mi ->
  get (snp_contrib (F:=R) projs succ der) (ravel (spec_shape projs) mi) = hyper_prod projs succ der mi.
Proof. intros projs succ der mi E1 E2 F. unfold snp_contrib.
  rewrite <- (pop_contribs_lengths projs succ der E1 E2). rewrite outer_ravel.
  - revert succ der mi E1 E2 F. induction projs; destruct succ, der; cbn; intros mi E1 E2 F; try discriminate;
      inversion F; subst; cbn; [reflexivity|].
    rewrite cached_projection_get by assumption. rewrite IHprojs by (auto; lia). reflexivity.
  - revert succ der mi E1 E2 F. induction projs; destruct succ, der; cbn; intros mi E1 E2 F; try discriminate;
      inversion F; subst; constructor.
    + rewrite cached_projection_length. lia.
    + apply IHprojs; auto; lia. Qed.

(** ** total_is_number_of_usable_snps *)
(** the SNP has at least as many calls as the projection in every population *)
Fixpoint enough_calls (projs succ : list nat) : bool :=
  match projs, succ with
  | m :: projs', n :: succ' => (m <=? n)%nat && enough_calls projs' succ'
  | _, _ => true
  end.
Definition snp_counts (pop_ids : list string) (projs : list nat) (polarized : bool) (s : snp) : bool :=
  match snp_row pop_ids s with
  | RKey (succ, der, pol) => negb (polarized && negb pol) && enough_calls projs succ
  | _ => false
  end.

Lemma snp_contrib_total : forall projs succ der, length succ = length projs -> length der = length projs ->
  Forall2 (fun j n => (j <= n)%nat) der succ ->
  rtot (snp_contrib (F:=R) projs succ der) = if enough_calls projs succ then 1 else 0.
Proof. intros projs succ der E1 E2 F. unfold snp_contrib. rewrite rtot_outer.
  revert succ der E1 E2 F. induction projs; destruct succ, der; cbn; intros E1 E2 F; try discriminate; [reflexivity|].
  inversion F; subst. rewrite cached_projection_total by assumption. rewrite IHprojs by (auto; lia).
  destruct (a <=? n)%nat; cbn; [destruct (enough_calls projs succ)|]; lra. Qed.

Lemma snp_row_der_le pop_ids s succ der pol : snp_row pop_ids s = RKey (succ, der, pol) ->
  Forall2 (fun j n => (j <= n)%nat) der succ.
Proof. unfold snp_row. destruct (s_seg s) as [|a1 [|a2 [|? ?]]]; try discriminate.
  destruct (calls_for (s_calls s) pop_ids) as [cs|]; [|discriminate]. intros E. inversion E; subst. clear.
  destruct (String.eqb a1 _); induction cs; cbn; constructor; auto; lia. Qed.

Lemma rtot_get_sum (v : list R) : rtot v = rsum (get v) (length v).
Proof. induction v using rev_ind; [reflexivity|]. rewrite rtot_app, app_length. cbn [length].
  replace (length v + 1)%nat with (S (length v)) by lia. cbn [rsum]. rewrite IHv. f_equal.
  - apply rsum_ext. intros i Hi. unfold get. rewrite app_nth1 by assumption. reflexivity.
  - unfold get. rewrite app_nth2, Nat.sub_diag by lia. unfold rtot; cbn. lra. Qed.

Lemma rsum_lsum {A} (f : A -> nat -> R) l n : rsum (fun i => lsum (fun x => f x i) l) n = lsum (fun x => rsum (f x) n) l.
Proof. induction l; cbn; [apply rsum_zero; reflexivity|]. rewrite rsum_add, IHl. reflexivity. Qed.

Lemma snp_term_total pop_ids projs polarized s : length pop_ids = length projs ->
  rsum (snp_term pop_ids projs polarized s) (size (spec_shape projs)) = if snp_counts pop_ids projs polarized s then 1 else 0.
Proof. intros EL. unfold snp_term, snp_counts. destruct (snp_row pop_ids s) as [| |[[succ der] pol]] eqn:Er;
    try (apply rsum_zero; reflexivity).
  pose proof (snp_row_ok _ _ _ Er) as [L1 L2]. rewrite EL in L1, L2.
  unfold row_used. destruct (negb (polarized && negb pol)); cbn [andb]; [|apply rsum_zero; reflexivity].
  unfold row_get. rewrite <- (snp_contrib_length projs succ der L1 L2), <- rtot_get_sum.
  apply snp_contrib_total; auto. eapply snp_row_der_le; eassumption. Qed.

Theorem total_is_number_of_usable_snps : forall (dd : dict snp) pop_ids projs polarized cd,
  length pop_ids = length projs -> count_data_dict dd pop_ids = Some cd ->
  rtot (fcd_data (F:=R) cd projs polarized)
  = INR (length (filter (snp_counts pop_ids projs polarized) (map snd dd))).
Proof. intros dd pop_ids projs polarized cd EL E.
  destruct (spectrum_is_sum_of_projections dd pop_ids projs polarized cd EL E) as [L G].
  rewrite rtot_get_sum, L. rewrite (rsum_ext _ _ _ (fun i _ => G i)). rewrite rsum_lsum. clear G L E.
  induction (map snd dd) as [|s l IH]; cbn [lsum filter]; [reflexivity|]. rewrite IH.
  rewrite snp_term_total by assumption. destruct (snp_counts pop_ids projs polarized s); cbn [length]; [rewrite S_INR|]; lra. Qed.

(** the folded spectrum (polarized = False) has the same total: folding conserves it (C09) *)
Theorem total_is_number_of_usable_snps_folded : forall (dd : dict snp) pop_ids projs mask_corners (fs : lspec R),
  length pop_ids = length projs ->
  from_data_dict (F:=R) dd pop_ids projs mask_corners false = Some fs ->
  ls_folded fs = true /\
  rtot (ls_data fs) = INR (length (filter (snp_counts pop_ids projs false) (map snd dd))).
Proof. intros dd pop_ids projs mc fs EL E. unfold from_data_dict in E.
  destruct (count_data_dict dd pop_ids) as [cd|] eqn:Ec; [|discriminate].
  unfold from_count_dict in E. destruct projs as [|m projs]; [discriminate|].
  cbn [fold_ls ls_folded] in E. inversion E; subst; clear E. cbn [ls_folded ls_data ls_shape]. split; [reflexivity|].
  destruct (spectrum_is_sum_of_projections dd pop_ids (m :: projs) false cd EL Ec) as [L _].
  unfold rtot. rewrite l_fold_conserves_total by assumption.
  apply (total_is_number_of_usable_snps dd pop_ids (m :: projs) false cd EL Ec). Qed.
