(** * Remainder bounds of the central finite-difference stencils of dadi/Godambe.py applied to
      u |-> ln (a + u), a > 0  (the only non-affine ingredient of the Poisson log-likelihood of a model
      that is linear in its parameters).

      - [ln_grad_bound] : | ln(a+p) - ln(a-p) - 2p/a |                         <= 8/3 |p|^3 / a^3        (|p| <= a/2)
      - [ln_diag_bound] : | ln(a+p) - 2 ln a + ln(a-p) + p^2/a^2 |             <= 2 p^4 / a^4            (|p| <= a/2)
      - [ln_off_bound]  : | ln(a+p+q) - ln(a+p-q) - ln(a-p+q) + ln(a-p-q) + 4pq/a^2 |
                                                                              <= 40 |p q| (|p|+|q|)^2 / a^4   (|p|+|q| <= a/4)
    No model definitions are used here. *)
From Coq Require Import Reals Lra Lia.
From Coquelicot Require Import Coquelicot.
Local Open Scope R_scope.

Lemma Rabs_mult_self x : Rabs x * Rabs x = x * x.
Proof. rewrite <- Rabs_mult. apply Rabs_right. apply Rle_ge. pose proof (Rle_0_sqr x) as H. unfold Rsqr in H. exact H. Qed.

(** ** elementary bounds on ln *)
Lemma ln_mono_le x y : 0 < x -> x <= y -> ln x <= ln y.
Proof. intros Hx Hxy. destruct Hxy as [Hlt|Heq]; [left; apply ln_increasing; assumption|right; rewrite Heq; reflexivity]. Qed.

Lemma ln_le_sub1 x : 0 < x -> ln x <= x - 1.
Proof.
  intros Hx. pose proof (exp_ineq1_le (x - 1)) as He.
  replace (1 + (x - 1)) with x in He by ring.
  rewrite <- (ln_exp (x - 1)). apply ln_mono_le; assumption.
Qed.

Lemma ln_ge_1minv x : 0 < x -> 1 - / x <= ln x.
Proof.
  intros Hx. assert (Hi : 0 < / x) by (apply Rinv_0_lt_compat; assumption).
  pose proof (ln_le_sub1 (/ x) Hi) as H. rewrite ln_Rinv in H by assumption. lra.
Qed.

(** second-order bound:  - 2 y^2 <= ln (1 - y) + y <= 0   for every y <= 1/2 (no lower limit on y) *)
Lemma ln1m_bound y : y <= 1 / 2 -> - (2 * (y * y)) <= ln (1 - y) + y <= 0.
Proof.
  intros Hy. assert (Hp : 0 < 1 - y) by lra. split.
  - pose proof (ln_ge_1minv (1 - y) Hp) as H.
    assert (Hi : / (1 - y) <= 2).
    { replace 2 with (/ (1 / 2)) by field. apply Rinv_le_contravar; lra. }
    assert (E : 1 - / (1 - y) + y = - (y * y * / (1 - y))) by (field; lra).
    assert (Hyy : 0 <= y * y) by nra.
    assert (Hb : y * y * / (1 - y) <= y * y * 2) by (apply Rmult_le_compat_l; assumption).
    lra.
  - pose proof (ln_le_sub1 (1 - y) Hp). lra.
Qed.

Lemma ln1m_abs y : y <= 1 / 2 -> Rabs (ln (1 - y) + y) <= 2 * (y * y).
Proof. intros Hy. destruct (ln1m_bound y Hy) as [H1 H2]. apply Rabs_le. assert (0 <= y * y) by nra. lra. Qed.

(** ** (2) diagonal central stencil *)
Lemma ln_diag_eq a p : 0 < a -> Rabs p < a ->
  ln (a + p) - 2 * ln a + ln (a - p) = ln (1 - p * p / (a * a)).
Proof.
  intros Ha Hp. apply Rabs_def2 in Hp. destruct Hp as [Hp1 Hp2].
  assert (Haa : 0 < a * a) by nra.
  replace (1 - p * p / (a * a)) with ((a + p) * (a - p) * / (a * a)) by (field; lra).
  rewrite ln_mult; [|nra|apply Rinv_0_lt_compat; assumption].
  rewrite ln_mult by lra. rewrite ln_Rinv by assumption. rewrite ln_mult by assumption. ring.
Qed.

Lemma ln_diag_bound a p : 0 < a -> Rabs p <= a / 2 ->
  Rabs (ln (a + p) - 2 * ln a + ln (a - p) + p * p / (a * a)) <= 2 * (p * p * (p * p)) / (a * a * (a * a)).
Proof.
  intros Ha Hp. rewrite ln_diag_eq by lra.
  assert (Haa : 0 < a * a) by nra.
  assert (Hpp : p * p <= a * a / 4).
  { rewrite <- (Rabs_right (a / 2)) in Hp by lra. apply Rsqr_le_abs_1 in Hp. unfold Rsqr in Hp. lra. }
  assert (Hx : p * p / (a * a) <= 1 / 2).
  { apply (Rmult_le_reg_r (a * a)); [assumption|]. unfold Rdiv. rewrite Rmult_assoc, Rinv_l by lra. lra. }
  eapply Rle_trans; [apply ln1m_abs; assumption|]. right. field. lra.
Qed.

(** ** (3) off-diagonal central stencil *)
Lemma ln_off_eq a p q : 0 < a -> Rabs p + Rabs q < a ->
  ln (a + p + q) - ln (a + p - q) - ln (a - p + q) + ln (a - p - q)
  = ln (1 - 4 * p * q / (a * a - (p - q) * (p - q))).
Proof.
  intros Ha Hs.
  pose proof (Rle_abs p) as Hp1. pose proof (Rle_abs (- p)) as Hp2. rewrite Rabs_Ropp in Hp2.
  pose proof (Rle_abs q) as Hq1. pose proof (Rle_abs (- q)) as Hq2. rewrite Rabs_Ropp in Hq2.
  assert (H1 : 0 < a + p + q) by lra. assert (H2 : 0 < a + p - q) by lra.
  assert (H3 : 0 < a - p + q) by lra. assert (H4 : 0 < a - p - q) by lra.
  assert (HD : 0 < a * a - (p - q) * (p - q)).
  { replace (a * a - (p - q) * (p - q)) with ((a + p - q) * (a - p + q)) by ring. apply Rmult_lt_0_compat; assumption. }
  replace (1 - 4 * p * q / (a * a - (p - q) * (p - q)))
    with ((a + p + q) * (a - p - q) * / ((a + p - q) * (a - p + q))).
  2:{ field. split; [lra|]. replace (a * a - (p - q) * (p - q)) with ((a + p - q) * (a - p + q)) in HD by ring. lra. }
  assert (HDD : 0 < (a + p - q) * (a - p + q)) by (apply Rmult_lt_0_compat; assumption).
  rewrite ln_mult; [|apply Rmult_lt_0_compat; assumption|apply Rinv_0_lt_compat; assumption].
  rewrite ln_mult by assumption. rewrite ln_Rinv by assumption. rewrite ln_mult by assumption. ring.
Qed.

Lemma ln_off_bound a p q : 0 < a -> Rabs p + Rabs q <= a / 4 ->
  Rabs (ln (a + p + q) - ln (a + p - q) - ln (a - p + q) + ln (a - p - q) + 4 * p * q / (a * a))
  <= 40 * (Rabs p * Rabs q) * ((Rabs p + Rabs q) * (Rabs p + Rabs q)) / (a * a * (a * a)).
Proof.
  intros Ha Hs. rewrite ln_off_eq by lra.
  set (s := Rabs p + Rabs q) in *. set (P := Rabs p * Rabs q).
  pose proof (Rabs_pos p) as Hp0. pose proof (Rabs_pos q) as Hq0.
  assert (Hs0 : 0 <= s) by (unfold s; lra).
  assert (HP0 : 0 <= P) by (unfold P; apply Rmult_le_pos; assumption).
  assert (HPs : 4 * P <= s * s).
  { pose proof (Rle_0_sqr (Rabs p - Rabs q)) as Hsq. unfold Rsqr in Hsq. unfold P, s. lra. }
  assert (Hss : s * s <= a * a / 16).
  { replace (a * a / 16) with (a / 4 * (a / 4)) by field. apply Rmult_le_compat; assumption. }
  assert (Hpq : Rabs (p * q) = P) by (unfold P; apply Rabs_mult).
  assert (Hd2 : (p - q) * (p - q) <= s * s).
  { replace ((p - q) * (p - q)) with (p * p + q * q - 2 * (p * q)) by ring.
    rewrite <- (Rabs_mult_self p) at 1. rewrite <- (Rabs_mult_self q) at 1.
    pose proof (Rle_abs (- (p * q))) as H. rewrite Rabs_Ropp, Hpq in H. unfold s, P in *. nra. }
  assert (Hd0 : 0 <= (p - q) * (p - q)) by (pose proof (Rle_0_sqr (p - q)) as Hsq; unfold Rsqr in Hsq; exact Hsq).
  set (D := a * a - (p - q) * (p - q)).
  assert (Haa : 0 < a * a) by (apply Rmult_lt_0_compat; assumption).
  assert (HD : a * a / 2 <= D) by (unfold D; lra).
  assert (HDpos : 0 < D) by lra.
  set (ia := / (a * a)). set (iD := / D).
  assert (Hia : 0 < ia) by (apply Rinv_0_lt_compat; assumption).
  assert (HiD : 0 < iD) by (apply Rinv_0_lt_compat; assumption).
  assert (HiDa : iD <= 2 * ia).
  { unfold iD, ia. replace (2 * / (a * a)) with (/ (a * a / 2)) by (field; lra).
    apply Rinv_le_contravar; lra. }
  set (y := 4 * p * q / D).
  assert (Hyabs : Rabs y = 4 * P * iD).
  { unfold y, Rdiv. fold iD. rewrite Rabs_mult, (Rabs_right iD) by lra.
    replace (4 * p * q) with (4 * (p * q)) by ring. rewrite Rabs_mult, Hpq, (Rabs_right 4) by lra. ring. }
  assert (HPia : 4 * P * ia <= / 16).
  { assert (s * s * ia <= / 16).
    { apply (Rmult_le_reg_r (a * a)); [assumption|]. unfold ia. rewrite Rmult_assoc, Rinv_l by lra. lra. }
    assert (4 * P * ia <= s * s * ia) by (apply Rmult_le_compat_r; lra). lra. }
  assert (Hyle : Rabs y <= / 8).
  { rewrite Hyabs. assert (4 * P * iD <= 4 * P * (2 * ia)) by (apply Rmult_le_compat_l; lra). lra. }
  assert (Hy12 : y <= 1 / 2) by (pose proof (Rle_abs y); lra).
  (* split *)
  replace (ln (1 - y) + 4 * p * q / (a * a)) with ((ln (1 - y) + y) + (4 * p * q / (a * a) - y)) by ring.
  eapply Rle_trans; [apply Rabs_triang|].
  assert (B1 : Rabs (ln (1 - y) + y) <= 32 * P * (s * s) * (ia * ia)).
  { eapply Rle_trans; [apply ln1m_abs; assumption|].
    rewrite <- (Rabs_mult_self y), Hyabs.
    (* 2 * (4 P iD)^2 = 32 P^2 iD^2 <= 128 P^2 ia^2 <= 32 P s^2 ia^2 *)
    assert (E1 : iD * iD <= 2 * ia * (2 * ia)) by (apply Rmult_le_compat; lra).
    assert (E2 : P * P <= P * (s * s / 4)) by (apply Rmult_le_compat_l; lra).
    assert (E3 : 0 <= P * P) by nra.
    assert (E4 : P * P * (iD * iD) <= P * P * (2 * ia * (2 * ia))) by (apply Rmult_le_compat_l; assumption).
    assert (E5 : 0 <= ia * ia) by nra.
    assert (E6 : P * P * (ia * ia) <= P * (s * s / 4) * (ia * ia)) by (apply Rmult_le_compat_r; assumption).
    lra. }
  assert (B2 : Rabs (4 * p * q / (a * a) - y) <= 8 * P * (s * s) * (ia * ia)).
  { replace (4 * p * q / (a * a) - y) with (- (4 * (p * q) * ((p - q) * (p - q)) * (ia * iD))).
    2:{ unfold y, ia, iD, D. field. split; [unfold D in HDpos; lra|lra]. }
    rewrite Rabs_Ropp, !Rabs_mult, (Rabs_mult_self (p - q)), (Rabs_right 4), (Rabs_right ia), (Rabs_right iD) by lra.
    fold P.
    assert (E1 : ia * iD <= ia * (2 * ia)) by (apply Rmult_le_compat_l; lra).
    assert (E2 : 0 <= ia * iD) by (apply Rmult_le_pos; lra).
    assert (E3 : (p - q) * (p - q) * (ia * iD) <= s * s * (ia * (2 * ia))) by (apply Rmult_le_compat; assumption).
    assert (E4 : 4 * P * ((p - q) * (p - q) * (ia * iD)) <= 4 * P * (s * s * (ia * (2 * ia)))) by (apply Rmult_le_compat_l; lra).
    lra. }
  replace (40 * P * (s * s) / (a * a * (a * a))) with (40 * P * (s * s) * (ia * ia)) by (unfold ia; field; lra).
  lra.
Qed.

(** ** (1) central gradient stencil: third order (one application of the mean value theorem) *)
Lemma ln_grad_bound a p : 0 < a -> Rabs p <= a / 2 ->
  Rabs (ln (a + p) - ln (a - p) - 2 * p / a) <= 8 / 3 * (Rabs p * Rabs p * Rabs p) / (a * a * a).
Proof.
  intros Ha Hp.
  set (f := fun t : R => ln (a + t) - ln (a - t) - 2 * t / a).
  set (df := fun t : R => / (a + t) + / (a - t) - 2 / a).
  assert (Hrange : forall x, Rmin 0 p <= x <= Rmax 0 p -> Rabs x <= Rabs p).
  { intros x [H1 H2]. unfold Rmin, Rmax in *. destruct (Rle_dec 0 p) as [H0|H0].
    - rewrite !Rabs_right by lra. lra.
    - rewrite !Rabs_left1 by lra. lra. }
  assert (Hder : forall x, Rabs x <= Rabs p -> is_derive f x (df x)).
  { intros x Hx. assert (Hx' : Rabs x <= a / 2) by lra. apply Rabs_le_between in Hx'. destruct Hx' as [Hx1 Hx2].
    unfold f, df. auto_derive; [split; [lra|split; [lra|exact I]]|field; lra]. }
  destruct (MVT_gen f 0 p df) as (c & Hc & Heq).
  - intros x [H1 H2]. apply Hder, Hrange. lra.
  - intros x Hx. apply continuity_pt_filterlim. apply (ex_derive_continuous f x).
    exists (df x). apply Hder, Hrange, Hx.
  - assert (Hcp : Rabs c <= Rabs p) by (apply Hrange, Hc).
    assert (Hf0 : f 0 = 0).
    { unfold f. rewrite Rplus_0_r, Rminus_0_r. field. lra. }
    rewrite Hf0, !Rminus_0_r in Heq. fold (f p). rewrite Heq.
    assert (Hc' : Rabs c <= a / 2) by lra. apply Rabs_le_between in Hc'. destruct Hc' as [Hc1 Hc2].
    assert (Hcc : c * c <= Rabs p * Rabs p).
    { rewrite <- (Rabs_mult_self c). apply Rmult_le_compat; try apply Rabs_pos; assumption. }
    assert (Hpp : Rabs p * Rabs p <= a * a / 4) by (pose proof (Rabs_pos p); nra).
    assert (Hden : 0 < a * a - c * c) by nra.
    assert (Edf : df c = 2 * (c * c) * / (a * (a * a - c * c))).
    { unfold df. field. repeat split; try lra. }
    assert (Haaa : 0 < a * a * a) by (apply Rmult_lt_0_compat; [nra|assumption]).
    assert (Hinv : / (a * (a * a - c * c)) <= / (a * a * a * (3 / 4))).
    { apply Rinv_le_contravar; [lra|]. nra. }
    assert (Hinv0 : 0 < / (a * (a * a - c * c))) by (apply Rinv_0_lt_compat; nra).
    assert (Hdf0 : 0 <= df c).
    { rewrite Edf. apply Rmult_le_pos; [nra|lra]. }
    assert (Hdf1 : df c <= 8 / 3 * (Rabs p * Rabs p) / (a * a * a)).
    { rewrite Edf.
      assert (2 * (c * c) * / (a * (a * a - c * c)) <= 2 * (Rabs p * Rabs p) * / (a * a * a * (3 / 4))).
      { apply Rmult_le_compat; try lra. nra. }
      replace (8 / 3 * (Rabs p * Rabs p) / (a * a * a)) with (2 * (Rabs p * Rabs p) * / (a * a * a * (3 / 4))) by (field; lra).
      assumption. }
    rewrite Rabs_mult, (Rabs_right (df c)) by lra.
    replace (8 / 3 * (Rabs p * Rabs p * Rabs p) / (a * a * a)) with (8 / 3 * (Rabs p * Rabs p) / (a * a * a) * Rabs p) by (field; lra).
    apply Rmult_le_compat_r; [apply Rabs_pos|assumption].
Qed.

(** ** lower bound on the second-order term (used to show that the one-sided stencil is first order only):
       ln (1 + x) <= x - x^2/4  on [0, 1] *)
Lemma ln1p_upper2 x : 0 <= x <= 1 -> ln (1 + x) <= x - x * x / 4.
Proof.
  intros [Hx0 Hx1].
  set (f := fun t : R => t - t * t / 4 - ln (1 + t)).
  set (df := fun t : R => 1 - t / 2 - / (1 + t)).
  assert (Hder : forall t, 0 <= t -> is_derive f t (df t)).
  { intros t Ht. unfold f, df. auto_derive; [lra|field; lra]. }
  destruct (MVT_gen f 0 x df) as (c & Hc & Heq).
  - intros t [H1 H2]. apply Hder. unfold Rmin in H1. destruct (Rle_dec 0 x); lra.
  - intros t [H1 H2]. apply continuity_pt_filterlim. apply (ex_derive_continuous f t).
    exists (df t). apply Hder. unfold Rmin in H1. destruct (Rle_dec 0 x); lra.
  - unfold Rmin, Rmax in Hc. destruct (Rle_dec 0 x) as [_|Hn]; [|contradiction].
    assert (Hf0 : f 0 = 0) by (unfold f; rewrite Rplus_0_r, ln_1; field).
    rewrite Hf0, !Rminus_0_r in Heq.
    assert (Hdf : 0 <= df c).
    { unfold df. replace (1 - c / 2 - / (1 + c)) with (c * (1 - c) * / (2 * (1 + c))) by (field; lra).
      apply Rmult_le_pos; [apply Rmult_le_pos; lra|left; apply Rinv_0_lt_compat; lra]. }
    assert (0 <= f x) by (rewrite Heq; apply Rmult_le_pos; assumption).
    unfold f in H. lra.
Qed.
