(** C04, whole time step: the total trapezoid mass of a d-dimensional density changes only by the mutation influx
    and by the outflow of the sweeps on their corner lines.

      total_mass (step phi)  =  total_mass phi  +  influx  -  dt * (sum over the non-frozen populations k, in sweep
                                                                     order, of the corner outflow of k's sweep)

    where influx = sum over the populations that are neither frozen nor nomut of  weight(e_k) * amount_k, and on grids
    starting at 0 each such term is exactly  dt * theta0 / (2 x_k[1])  (the flux  theta0/2  of new mutations entering at
    frequency x_k[1], in units of "expected derived alleles": x_k[1] * mass = dt * theta0 / 2). *)
From Coq Require Import Reals List Lra Lia Arith Bool.
From Dadi Require Import Base.Num Base.NumR Model.Tridiag Model.Scheme Model.NDSweep
  Proofs.TridiagProofs Proofs.SchemeProofs Proofs.SumLemmas Proofs.MassBalance Proofs.NDLines Proofs.NDSweepProofs Proofs.NDWeights
  Proofs.FrozenMarginal Proofs.IntegrateLinear Proofs.IntegrateRescale Proofs.FrozenStep Proofs.TotalMass.
Import ListNotations.
Local Open Scope R_scope.

(** ** adding a value at one point *)
Lemma total_mass_add_at shape grids (phi : list R) j v : (j < prodn shape)%nat -> length phi = prodn shape ->
  total_mass shape grids (add_at phi j v) = total_mass shape grids phi + tweight grids (length shape) (unflat shape j) * v.
Proof.
  intros Hj Hlen. unfold total_mass.
  rewrite (rsum_ext _ _ (fun a => tweight grids (length shape) (unflat shape a) * nthF phi a
                                  + (if Nat.eqb a j then tweight grids (length shape) (unflat shape j) * v else 0))).
  - rewrite rsum_add. f_equal. rewrite (rsum_single _ _ j Hj).
    + rewrite Nat.eqb_refl. reflexivity.
    + intros a _ Hne. destruct (Nat.eqb_spec a j); [congruence|reflexivity].
  - intros a Ha. rewrite nthF_add_at. destruct (Nat.eqb_spec a j) as [->|Hne]; [|ring].
    rewrite Hlen. destruct (Nat.ltb_spec j (prodn shape)); [ring|lia].
Qed.

(** ** products over the axes *)
Lemma nprod_mul (f g : nat -> R) : forall n s,
  nprod (map (fun a => f a * g a) (seq s n)) = nprod (map f (seq s n)) * nprod (map g (seq s n)).
Proof.
  unfold nprod. induction n as [|n IH]; intros s; cbn [seq map fold_right]; numR; [ring|]. rewrite IH. numR. ring.
Qed.
Lemma nprod_const (c : R) : forall n s, nprod (map (fun _ => c) (seq s n)) = npow c n.
Proof. unfold nprod. induction n as [|n IH]; intros s; cbn [seq map fold_right npow]; [reflexivity|]. rewrite IH. reflexivity. Qed.
Lemma npow_half_two n : npow (1 / 2) n * npow 2 n = 1.
Proof. induction n as [|n IH]; cbn [npow]; numR; [ring|]. replace (1 / 2 * npow (1 / 2) n * (2 * npow 2 n)) with (npow (1 / 2) n * npow 2 n) by field. exact IH. Qed.

Lemma in_combine_seq_nth_error : forall (l : list (@pop R)) s k p, In (k, p) (combine (seq s (length l)) l) -> nth_error l (k - s) = Some p /\ (s <= k)%nat.
Proof.
  induction l as [|x l IH]; intros s k p Hin; cbn [length seq combine In] in Hin; [contradiction|].
  destruct Hin as [E|Hin].
  - injection E as <- <-. rewrite Nat.sub_diag. split; [reflexivity|lia].
  - destruct (IH (S s) k p Hin) as [Hn Hle]. split; [|lia].
    replace (k - s)%nat with (S (k - S s)) by lia. exact Hn.
Qed.

Section StepMass.
  Variable shape : list nat.
  Variable grids : list (list R).
  Notation d := (length shape).
  Hypothesis Hshape : forall n, In n shape -> (2 <= n)%nat.

  (** weight of the injection point e_k times the injected amount *)
  Definition influx_term (k : nat) (theta dt : R) : R :=
    tweight grids d (unit_ix d k) * inject_amount grids d k theta dt.

  (** every grid starts at 0, axis k has at least three points: the term is dt*theta0/(2 x_k[1]) *)
  Lemma influx_term_value k theta dt : (k < d)%nat ->
    (forall a, (a < d)%nat -> nthF (nth a grids []) 0 = 0 /\ nthF (nth a grids []) 1 <> 0 /\ (2 <= length (nth a grids []))%nat) ->
    (3 <= length (nth k grids []))%nat -> nthF (nth k grids []) 2 <> 0 ->
    influx_term k theta dt = dt * theta / (2 * nthF (nth k grids []) 1).
  Proof.
    intros Hk Hg H3 Hx2. unfold influx_term, tweight, inject_amount.
    set (gk := nth k grids []) in *.
    set (h := fun a : nat => if Nat.eqb a k then nthF gk 2 - nthF gk 0 else nthF (nth a grids []) 1).
    assert (E1 : nprod (map (fun a => trap_w (nth a grids []) (nth a (unit_ix d k) 0%nat)) (seq 0 d))
                 = nprod (map (fun a => h a * (1 / 2)) (seq 0 d))).
    { f_equal. apply map_ext_in. intros a Ha. apply in_seq in Ha. rewrite nth_unit_ix by lia. unfold h.
      destruct (Hg a ltac:(lia)) as (H0 & H1 & H2). destruct (Nat.eqb_spec a k) as [->|Hne].
      - fold gk. unfold trap_w. destruct (Nat.eqb_spec 1 0); [lia|]. destruct (Nat.eqb_spec 1 (length gk - 1)); [lia|].
        unfold dx, x. cbn [Nat.sub]. numR_all. field.
      - unfold trap_w. rewrite Nat.eqb_refl. unfold dx, x. rewrite H0. numR_all. field. }
    rewrite E1, nprod_mul, nprod_const.
    assert (E2 : nprod (map h (seq 0 d)) = (nthF gk 2 - nthF gk 0)
                   * nprod (map (fun j => if Nat.eqb j k then n1 else nthF (nth j grids []) 1) (seq 0 d))).
    { rewrite (nprod_pull h d k Hk). unfold h at 1. rewrite Nat.eqb_refl. f_equal. f_equal. apply map_ext_in. intros a _.
      unfold h. destruct (Nat.eqb a k); reflexivity. }
    rewrite E2. set (oth := nprod (map (fun j => if Nat.eqb j k then n1 else nthF (nth j grids []) 1) (seq 0 d))).
    assert (Hoth : oth <> 0).
    { unfold oth, nprod. assert (G : forall n s, (s + n <= d)%nat -> fold_right nmul n1 (map (fun j => if Nat.eqb j k then n1 else nthF (nth j grids []) 1) (seq s n)) <> 0).
      { induction n as [|n IH]; intros s Hs; cbn [seq map fold_right]; numR; [lra|].
        apply Rmult_integral_contrapositive_currified; [|apply IH; lia].
        destruct (Nat.eqb s k); [lra|]. destruct (Hg s ltac:(lia)) as (_ & H1 & _). exact H1. }
      apply G. lia. }
    destruct (Hg k Hk) as (H0 & H1 & _). fold gk in H0, H1. rewrite H0. numR.
    pose proof (npow_half_two d) as Hp. numR.
    replace ((nthF gk 2 - 0) * oth * npow (1 / 2) d * (dt / nthF gk 1 * theta / 2 * npow 2 d / ((nthF gk 2 - 0) * oth)))
      with (dt * theta / (2 * nthF gk 1) * (npow (1 / 2) d * npow 2 d)) by (field; repeat split; try assumption; lra).
    rewrite Hp. ring.
  Qed.

  (** ** the mutation influx of a step *)
  Definition influx_of (l : list (nat * @pop R)) (theta dt : R) : R :=
    fold_right (fun kp acc => (if p_frozen (snd kp) || p_nomut (snd kp) then 0 else influx_term (fst kp) theta dt) + acc) 0 l.
  Definition influx (pops : list (@pop R)) (theta dt : R) : R := influx_of (combine (seq 0 d) pops) theta dt.

  Lemma inject_fold_total_mass theta dt : forall (l : list (nat * @pop R)) (phi : list R),
    (forall k p, In (k, p) l -> (k < d)%nat) -> length phi = prodn shape ->
    let res := fold_left (fun acc kp => let '(k, p) := kp in
                 if p_frozen p || p_nomut p then acc
                 else add_at acc (flatidx shape (unit_ix d k)) (inject_amount grids d k theta dt)) l phi in
    length res = prodn shape /\ total_mass shape grids res = total_mass shape grids phi + influx_of l theta dt.
  Proof.
    induction l as [|[k p] l IH]; intros phi Hin Hlen; cbv zeta; cbn [fold_left influx_of fold_right fst snd].
    - split; [exact Hlen | ring].
    - assert (Hin' : forall k0 p0, In (k0, p0) l -> (k0 < d)%nat) by (intros; eapply Hin; right; eassumption).
      destruct (p_frozen p || p_nomut p).
      + destruct (IH phi Hin' Hlen) as [HL HM]. split; [exact HL|]. rewrite HM. unfold influx_of. ring.
      + pose proof (Hin k p (or_introl eq_refl)) as Hk.
        assert (Hok : Forall2 lt (unit_ix d k) shape) by (apply unit_ix_ok; [reflexivity | exact Hshape]).
        assert (Hj : (flatidx shape (unit_ix d k) < prodn shape)%nat) by (apply flatidx_lt; exact Hok).
        destruct (IH (add_at phi (flatidx shape (unit_ix d k)) (inject_amount grids d k theta dt)) Hin'
                     ltac:(rewrite add_at_length; exact Hlen)) as [HL HM].
        split; [exact HL|]. rewrite HM, (total_mass_add_at shape grids phi _ _ Hj Hlen), (unflat_flatidx shape _ Hok).
        unfold influx_of. fold (influx_term k theta dt). ring.
  Qed.

  Lemma in_combine_seq_lt (pops : list (@pop R)) k p : length pops = d -> In (k, p) (combine (seq 0 d) pops) -> (k < d)%nat.
  Proof. intros _ Hin. apply in_combine_l in Hin. apply in_seq in Hin. lia. Qed.

  Theorem inject_total_mass pops theta dt (phi : list R) : wf_pops shape pops -> length phi = prodn shape ->
    length (inject shape grids pops theta dt phi) = prodn shape /\
    total_mass shape grids (inject shape grids pops theta dt phi) = total_mass shape grids phi + influx pops theta dt.
  Proof.
    intros Hwf Hlen. unfold inject, influx.
    apply (inject_fold_total_mass theta dt (combine (seq 0 d) pops) phi); [|exact Hlen].
    intros k p Hin. apply (in_combine_seq_lt pops k p Hwf Hin).
  Qed.

  (** ** the sweeps of a step: accumulated corner outflow *)
  Hypothesis Hgrids : forall k, (k < d)%nat ->
    length (nth k grids []) = ax_len shape k /\ (2 <= ax_len shape k)%nat /\
    (forall j, (j < length (nth k grids []) - 1)%nat -> 0 < dx (nth k grids []) j).

  (** corner outflow (per unit time) of the sweep of population k, evaluated on the swept array [after] *)
  Definition sweep_outflow (k : nat) (p : @pop R) (after : list R) : R :=
    rsum (ax_outer shape k) (fun o => rsum (ax_inner shape k) (fun q =>
      Wother shape grids k o q *
      (out0 (nth k grids []) (Mline shape grids k p o q) (p_nu p) (corner0 shape grids k o q) * nthF (get_line shape k after o q) 0
       + out1 (nth k grids []) (Mline shape grids k p o q) (p_nu p) (corner1 shape grids k o q)
         * nthF (get_line shape k after o q) (length (nth k grids []) - 1)))).

  (** total corner outflow of the sweeps in [l], applied in order starting from [acc] *)
  Fixpoint outflow_of (pops : list (@pop R)) (dt : R) (dj : bool) (l : list (nat * @pop R)) (acc : list R) : R :=
    match l with
    | [] => 0
    | (k, p) :: t => if p_frozen p then outflow_of pops dt dj t acc
                     else let after := sweep shape grids pops k dt dj acc in
                          sweep_outflow k p after + outflow_of pops dt dj t after
    end.

  Lemma prodn_axes k : (k < d)%nat -> prodn shape = (ax_outer shape k * (ax_len shape k * ax_inner shape k))%nat.
  Proof. intros Hk. apply (total_size shape k Hk). Qed.

  Lemma sweeps_total_mass pops dt dj : wf_pops shape pops -> dt <> 0 -> nonsingular shape grids pops dj dt ->
    forall (l : list (nat * @pop R)) (acc : list R),
    (forall k p, In (k, p) l -> nth_error pops k = Some p /\ (k < d)%nat) -> length acc = prodn shape ->
    total_mass shape grids acc =
    total_mass shape grids (fold_left (fun a kp => let '(k, p) := kp in if p_frozen p then a else sweep shape grids pops k dt dj a) l acc)
    + dt * outflow_of pops dt dj l acc.
  Proof.
    intros Hwf Hdt Hns. induction l as [|[k p] l IH]; intros acc Hin Hlen; cbn [fold_left outflow_of]; [ring|].
    assert (Hin' : forall k0 p0, In (k0, p0) l -> nth_error pops k0 = Some p0 /\ (k0 < d)%nat) by (intros; apply Hin; right; assumption).
    destruct (Hin k p (or_introl eq_refl)) as [Hn Hk].
    destruct (p_frozen p); [apply IH; assumption|].
    destruct (Hgrids k Hk) as (Hg1 & Hg2 & Hg3).
    assert (Hlen' : length (sweep shape grids pops k dt dj acc) = prodn shape).
    { unfold sweep. rewrite Hn. rewrite map_lines_length. symmetry. apply prodn_axes. exact Hk. }
    cbv zeta. set (after := sweep shape grids pops k dt dj acc) in *.
    match goal with |- _ = ?A + dt * (?B + ?C) => replace (A + dt * (B + C)) with ((A + dt * C) + dt * B) by ring end.
    rewrite <- (IH after Hin' Hlen').
    rewrite (sweep_total_mass_balance shape grids pops k p Hk Hn Hg1 Hg2 Hg3 dt Hdt dj acc)
      by (intros o q Ho Hq; apply (Hns k p o q acc Hn Ho Hq)).
    fold after. unfold sweep_outflow. ring.
  Qed.

  (** ** the whole step *)
  Theorem step_total_mass_balance pops theta dt dj (phi : list R) :
    wf_pops shape pops -> length phi = prodn shape -> dt <> 0 -> nonsingular shape grids pops dj dt ->
    total_mass shape grids (step shape grids pops theta dt dj phi)
    = total_mass shape grids phi + influx pops theta dt
      - dt * outflow_of pops dt dj (combine (seq 0 d) pops) (inject shape grids pops theta dt phi).
  Proof.
    intros Hwf Hlen Hdt Hns. destruct (inject_total_mass pops theta dt phi Hwf Hlen) as [HL HM].
    unfold step. rewrite <- HM.
    rewrite (sweeps_total_mass pops dt dj Hwf Hdt Hns (combine (seq 0 d) pops) (inject shape grids pops theta dt phi)); [ring| |exact HL].
    intros k p Hin. unfold wf_pops in Hwf. rewrite <- Hwf in Hin.
    destruct (in_combine_seq_nth_error pops 0 k p Hin) as [Hn _]. rewrite Nat.sub_0_r in Hn. split; [exact Hn|].
    rewrite <- Hwf. apply nth_error_Some. congruence.
  Qed.

  (** the outflow of a sweep vanishes when no line of that axis is a corner line carrying density at its end points:
      in particular its coefficients are zero off the all-0 / all-1 lines (TotalMass.outflow_only_on_corner_lines) *)
  Lemma sweep_outflow_corner_lines_only k p after : (k < d)%nat ->
    (forall o q, (o < ax_outer shape k)%nat -> (q < ax_inner shape k)%nat ->
       corner0 shape grids k o q = false /\ corner1 shape grids k o q = false) ->
    sweep_outflow k p after = 0.
  Proof.
    intros Hk Hnc. unfold sweep_outflow. destruct (Hgrids k Hk) as (Hg1 & Hg2 & Hg3).
    apply rsum_zero. intros o Ho. apply rsum_zero. intros q Hq. destruct (Hnc o q Ho Hq) as [H0 H1].
    destruct (outflow_only_on_corner_lines shape grids k p Hg1 Hg2 Hg3 o q H0 H1) as [E0 E1].
    rewrite E0, E1. ring.
  Qed.
End StepMass.
