(** C12: the statements as they are cited in Props/C12.v. *)
From Coq Require Import ZArith Reals List Bool Lra Lia.
From Dadi Require Import Base.Num Base.NumR Model.Optim.
From Dadi Require Export Proofs.OptimProject Proofs.OptimProofs Proofs.OptimBox Proofs.OptimScipy Proofs.OptimPerturb Proofs.OptimRefuted.
Import ListNotations.
Local Open Scope R_scope.

Section All.
  Variable ll_multinom ll_plain : list R -> option R.
  Notation G := (ll_guard ll_multinom ll_plain).

  (** NLopt_mod.opt as it stands (both lines repaired), log_opt on or off *)
  Theorem opt_contract (O : optimiser R) p0 lower upper fixed multinom lg w d0 :
    opt ll_multinom ll_plain O p0 lower upper fixed multinom lg = Some w ->
    project_down p0 fixed = Some d0 -> (lg = true -> positive d0) ->
    contract true (w_lo w) (w_hi w) (w_start w)
             (fun x => fst (opt_objective ll_multinom ll_plain multinom fixed lg x)) (w_oracle w) ->
    agrees (w_x w) fixed /\
    (exists xf, w_x w = project_up 0 (tr lg xf) fixed /\ box_ok (w_lo w) (w_hi w) xf = true) /\
    G multinom (w_x w) = w_f w /\
    G multinom (subst_fixed p0 fixed) <= w_f w /\
    hd_error (w_evals w) = Some (subst_fixed p0 fixed).
  Proof.
    intros Hw Hd Hp Hc. unfold opt in Hw.
    destruct (opt_gen_contract ll_multinom ll_plain true true O p0 lower upper fixed multinom lg w d0 Hw Hd) as (H1 & (xf & H2 & H2' & _) & H3 & H4 & H5); auto.
    repeat split; auto. exists xf; auto.
  Qed.

  (** the same with the free entries related to the user's bounds index by index *)
  Theorem opt_free_entries_within_bounds (O : optimiser R) p0 lower upper fx multinom lg w d0 :
    opt ll_multinom ll_plain O p0 lower upper (Some fx) multinom lg = Some w ->
    project_down p0 (Some fx) = Some d0 ->
    (lg = true -> positive d0 /\ Forall pos_opt (dflt_bounds lower (length p0)) /\ Forall pos_opt (dflt_bounds upper (length p0))) ->
    contract true (w_lo w) (w_hi w) (w_start w)
             (fun x => fst (opt_objective ll_multinom ll_plain multinom (Some fx) lg x)) (w_oracle w) ->
    free_within fx (dflt_bounds lower (length p0)) (dflt_bounds upper (length p0)) (w_x w).
  Proof.
    intros Hw Hd Hlg Hc. unfold opt in Hw.
    eapply opt_free_within; eauto.
    all: try (intros E; destruct (Hlg E) as (? & ? & ?); auto).
  Qed.

  (** the snapshot's opt with log_opt=False was already right *)
  Theorem opt_snapshot_nolog_contract (O : optimiser R) p0 lower upper fixed multinom w :
    opt_snapshot ll_multinom ll_plain O p0 lower upper fixed multinom false = Some w ->
    contract true (w_lo w) (w_hi w) (w_start w)
             (fun x => fst (opt_objective ll_multinom ll_plain multinom fixed false x)) (w_oracle w) ->
    agrees (w_x w) fixed /\
    (exists xf, w_x w = project_up 0 xf fixed /\ box_ok (w_lo w) (w_hi w) xf = true) /\
    G multinom (w_x w) = w_f w /\
    G multinom (subst_fixed p0 fixed) <= w_f w /\
    hd_error (w_evals w) = Some (subst_fixed p0 fixed).
  Proof.
    intros Hw Hc. unfold opt_snapshot in Hw.
    destruct (opt_gen_inv _ _ _ _ _ _ _ _ _ _ _ _ Hw) as (lo & hi & d0 & _ & _ & Hd & _).
    destruct (opt_gen_contract ll_multinom ll_plain false false O p0 lower upper fixed multinom false w d0 Hw Hd) as (H1 & (xf & H2 & H2' & _) & H3 & H4 & H5); auto.
    { discriminate. }
    repeat split; auto. exists xf; auto.
  Qed.
End All.

(** which wrappers the generic scipy theorem covers *)
Lemma coherent_wrappers :
  coherent cfg_optimize /\ coherent cfg_optimize_log /\ coherent cfg_optimize_log_lbfgsb /\ coherent cfg_optimize_log_fmin /\
  coherent cfg_optimize_log_powell /\ coherent cfg_optimize_cons /\ coherent cfg_optimize_lbfgsb /\ coherent cfg_optimize_log_lbfgsb_snapshot /\
  ~ coherent cfg_optimize_lbfgsb_snapshot.
Proof. unfold coherent; cbn. repeat split; try reflexivity. intros [H _]; discriminate. Qed.

(** non-vacuity: a call of opt with one fixed parameter whose oracle honours the contract *)
Example opt_contract_nonvacuous :
  exists w, opt ll_first ll_first O_start [1; 2] None None (Some [None; Some 5]) false false = Some w /\
    contract true (w_lo w) (w_hi w) (w_start w) (fun x => fst (opt_objective ll_first ll_first false (Some [None; Some 5]) false x)) (w_oracle w) /\
    w_x w = [1; 5].
Proof.
  eexists. split; [reflexivity|]. cbn [w_lo w_hi w_start w_oracle w_x]. unfold O_start. cbn [o_trace o_x o_f]. split.
  - unfold contract. cbn [o_trace o_x o_f hd_error]. repeat split.
    + constructor; [|constructor]. split; reflexivity.
    + left; reflexivity.
    + constructor; [|constructor]. right; reflexivity.
  - reflexivity.
Qed.

(** A fixed value is a value, whatever number it is -- 0 (no selection, no migration) in particular: [Some 0] is not [None].
    Position by position: a slot fixed at [v] is dropped when contracting and written back as [v] when expanding, and the
    slots behind it keep their alignment; a free slot is kept and consumed.  (The general statements are
    [up_down_inverse] / [down_up_inverse], for every [Some v]; these two make the step at one slot explicit.) *)
Lemma project_fixed_slot {A : Type} (dflt v x : A) (p : list A) (fx : list (option A)) (d : list A) :
  project_down (x :: p) (Some (Some v :: fx)) = Some d ->
  project_down p (Some fx) = Some d /\
  project_up dflt d (Some (Some v :: fx)) = v :: project_up dflt d (Some fx).
Proof.
  cbn. destruct (Nat.eqb (length p) (length fx)); [|discriminate].
  intros E; injection E as <-. split; reflexivity.
Qed.

Lemma project_free_slot {A : Type} (dflt x : A) (p : list A) (fx : list (option A)) (d : list A) :
  project_down (x :: p) (Some (None :: fx)) = Some d ->
  exists d', d = x :: d' /\ project_down p (Some fx) = Some d' /\
             project_up dflt d (Some (None :: fx)) = x :: project_up dflt d' (Some fx).
Proof.
  cbn. destruct (Nat.eqb (length p) (length fx)); [|discriminate].
  intros E; injection E as <-. eexists; repeat split; reflexivity.
Qed.

(** non-vacuity at zero: parameters fixed at exactly 0 before and after a free one *)
Example zero_fixed_nonvacuous :
  project_down [1; 2; 3] (Some [Some 0; None; Some 0]) = Some [2] /\
  project_up 7 [2] (Some [Some 0; None; Some 0]) = [0; 2; 0] /\
  exists w, opt ll_first ll_first O_start [1; 2] None None (Some [Some 0; None]) false false = Some w /\
    contract true (w_lo w) (w_hi w) (w_start w) (fun x => fst (opt_objective ll_first ll_first false (Some [Some 0; None]) false x)) (w_oracle w) /\
    w_start w = [2] /\ w_x w = [0; 2] /\ w_evals w = [[0; 2]].
Proof.
  split; [reflexivity|]. split; [reflexivity|].
  eexists. split; [reflexivity|]. cbn [w_lo w_hi w_start w_oracle w_x w_evals]. unfold O_start. cbn [o_trace o_x o_f]. split.
  - unfold contract. cbn [o_trace o_x o_f hd_error]. repeat split.
    + constructor; [|constructor]. split; reflexivity.
    + left; reflexivity.
    + constructor; [|constructor]. right; reflexivity.
  - repeat split; reflexivity.
Qed.
