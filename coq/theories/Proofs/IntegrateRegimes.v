(** C03, amplitude and duration regimes.  Corollaries of [integrate_const_linear] / [integrate_tdep_linear] in the form in
    which the harness evaluates them over extreme coefficients (harness/props/c03_regimes.py), and the statement that
    makes them hold for epochs of any length: the sequence of time steps of a whole integration is a function of the
    parameters, the time-step factor and the two end times only - never of the density or of theta0.  A driver that leaves
    its time loop depending on the density (a stopping rule, a "nothing changes any more" shortcut) is therefore outside
    the model, and the correspondence check compares the real drivers with the model on multi-step and long epochs at
    tiny amplitudes.

      homogeneity     integrate (s theta) (s phi)  = s (integrate theta phi)                        any s (also 0, negative)
      from nothing    integrate (s theta) 0        = s (integrate theta 0)
      theta0 range    integrate theta phi          = integrate 0 phi + theta (integrate 1 0)
      fixed steps     integrate theta phi          = fold of [step] over [step_times pops tf t T]    (no dependence on theta, phi) *)
From Coq Require Import Reals List Lra Lia Arith Bool.
From Dadi Require Import Base.Num Base.NumR Model.Tridiag Model.Scheme Model.NDSweep
  Proofs.TridiagProofs Proofs.SchemeProofs Proofs.Linearity Proofs.NDLines Proofs.NDSweepProofs Proofs.IntegrateLinear.
Import ListNotations.
Local Open Scope R_scope.

Definition vscale (s : R) (p : list R) : list R := map (Rmult s) p.
Definition zeros (n : nat) : list R := repeat 0 n.

Lemma lincomb_self_scale s (p : list R) : lincomb s 0 p p = vscale s p.
Proof. unfold lincomb, vscale. induction p as [|x p IH]; [reflexivity|]. cbn [combine map fst snd]. rewrite IH. f_equal. ring. Qed.

Lemma lincomb_zeros_r be (p : list R) : lincomb 1 be p (zeros (length p)) = p.
Proof.
  unfold lincomb, zeros. induction p as [|x p IH]; [reflexivity|]. cbn [length repeat combine map fst snd].
  rewrite IH. f_equal. ring.
Qed.

Lemma vscale_zeros s n : vscale s (zeros n) = zeros n.
Proof. unfold vscale, zeros. induction n as [|n IH]; [reflexivity|]. cbn [repeat map]. rewrite IH. f_equal. ring. Qed.

Lemma vscale_length s p : length (vscale s p) = length p.
Proof. apply map_length. Qed.

Lemma olincomb_self s (x : option (list R)) : olincomb s 0 x x = option_map (vscale s) x.
Proof. destruct x as [x|]; cbn [olincomb option_map]; [rewrite lincomb_self_scale|]; reflexivity. Qed.

(** the step sequence of the two drivers (the very expressions of [integrate_const] / [integrate_tdep]) *)
Section StepTimes.
  Local Open Scope num_scope.
  Fixpoint step_times (fuel : nat) (pops : list (@pop R)) (tf t T : R) : option (list R) :=
    if negb (t <? T) then Some [] else
    match fuel with
    | O => None
    | S fuel' =>
      let this_dt := match dt_of tf pops with Some dt => nmin dt (T - t) | None => T - t end in
      option_map (cons this_dt) (step_times fuel' pops tf (t + this_dt) T)
    end.

  (** (time at the end of the step, length of the step) *)
  Fixpoint step_times_tdep (fuel : nat) (popsf : R -> list (@pop R)) (tf t T : R) : option (list (R * R)) :=
    if negb (t <? T) then Some [] else
    match fuel with
    | O => None
    | S fuel' =>
      let this_dt := match dt_of tf (popsf t) with Some dt => nmin dt (T - t) | None => T - t end in
      let next_t := t + this_dt in
      option_map (cons (next_t, this_dt)) (step_times_tdep fuel' popsf tf next_t T)
    end.
End StepTimes.

Section Regimes.
  Variable shape : list nat.
  Variable grids : list (list R).

  (** duration: a whole integration is the fold of [step] over a list of step lengths that does not depend on (theta0, phi);
      in particular the number of steps is the same for every density *)
  Theorem integrate_const_steps pops theta tf dj : forall fuel t T (phi : list R),
    integrate_const fuel shape grids pops theta tf dj t T phi =
    option_map (fun dts => fold_left (fun acc dt => step shape grids pops theta dt dj acc) dts phi) (step_times fuel pops tf t T).
  Proof.
    induction fuel as [|fuel IH]; intros t T phi; cbn [integrate_const step_times].
    - destruct (negb (nltb t T)); reflexivity.
    - destruct (negb (nltb t T)); [reflexivity|].
      rewrite IH. destruct (step_times fuel pops tf _ T); reflexivity.
  Qed.

  Theorem integrate_tdep_steps popsf thetaf tf dj : forall fuel t T (phi : list R),
    integrate_tdep fuel shape grids popsf thetaf tf dj t T phi =
    option_map (fun nds => fold_left (fun acc nd => step shape grids (popsf (fst nd)) (thetaf (fst nd)) (snd nd) dj acc) nds phi)
               (step_times_tdep fuel popsf tf t T).
  Proof.
    induction fuel as [|fuel IH]; intros t T phi; cbn [integrate_tdep step_times_tdep].
    - destruct (negb (nltb t T)); reflexivity.
    - destruct (negb (nltb t T)); [reflexivity|].
      rewrite IH. destruct (step_times_tdep fuel popsf tf _ T); reflexivity.
  Qed.

  Lemma integrate_tdep_theta_ext popsf tf dj (f g : R -> R) : (forall u, f u = g u) -> forall fuel t T (phi : list R),
    integrate_tdep fuel shape grids popsf f tf dj t T phi = integrate_tdep fuel shape grids popsf g tf dj t T phi.
  Proof.
    intros Hfg. induction fuel as [|fuel IH]; intros t T phi; cbn [integrate_tdep]; [reflexivity|].
    destruct (negb (nltb t T)); [reflexivity|]. rewrite Hfg. apply IH.
  Qed.

  Hypothesis Hgrids : forall k, (k < length shape)%nat -> length (nth k grids []) = ax_len shape k /\ (2 <= length (nth k grids []))%nat.

  (** amplitude: homogeneity for every factor s, over any number of steps *)
  Theorem integrate_const_homogeneous pops tf dj s : wf_pops shape pops ->
    forall fuel th t T (p : list R),
    integrate_const fuel shape grids pops (s * th) tf dj t T (vscale s p) =
    option_map (vscale s) (integrate_const fuel shape grids pops th tf dj t T p).
  Proof.
    intros Hwf fuel th t T p.
    rewrite <- olincomb_self, <- lincomb_self_scale.
    replace (s * th) with (s * th + 0 * th) by ring.
    apply (integrate_const_linear shape grids Hgrids pops tf dj s 0 Hwf). reflexivity.
  Qed.

  Theorem integrate_tdep_homogeneous popsf tf dj s : (forall u, wf_pops shape (popsf u)) ->
    forall fuel (thf : R -> R) t T (p : list R),
    integrate_tdep fuel shape grids popsf (fun u => s * thf u) tf dj t T (vscale s p) =
    option_map (vscale s) (integrate_tdep fuel shape grids popsf thf tf dj t T p).
  Proof.
    intros Hwf fuel thf t T p.
    rewrite <- olincomb_self, <- lincomb_self_scale.
    rewrite (integrate_tdep_theta_ext popsf tf dj (fun u => s * thf u) (fun u => s * thf u + 0 * thf u)) by (intro u; ring).
    apply (integrate_tdep_linear shape grids Hgrids popsf tf dj s 0 Hwf). reflexivity.
  Qed.

  (** a density built up from nothing by the influx alone scales with theta0 *)
  Theorem integrate_const_from_nothing pops tf dj s : wf_pops shape pops ->
    forall fuel th t T n,
    integrate_const fuel shape grids pops (s * th) tf dj t T (zeros n) =
    option_map (vscale s) (integrate_const fuel shape grids pops th tf dj t T (zeros n)).
  Proof.
    intros Hwf fuel th t T n. rewrite <- (vscale_zeros s n) at 1. apply integrate_const_homogeneous. exact Hwf.
  Qed.

  Theorem integrate_tdep_from_nothing popsf tf dj s : (forall u, wf_pops shape (popsf u)) ->
    forall fuel (thf : R -> R) t T n,
    integrate_tdep fuel shape grids popsf (fun u => s * thf u) tf dj t T (zeros n) =
    option_map (vscale s) (integrate_tdep fuel shape grids popsf thf tf dj t T (zeros n)).
  Proof.
    intros Hwf fuel thf t T n. rewrite <- (vscale_zeros s n) at 1. apply integrate_tdep_homogeneous. exact Hwf.
  Qed.

  (** any theta0 with a density of any size: the result is the decay of the density plus theta0 times the unit build-up *)
  Theorem integrate_const_theta_range pops tf dj : wf_pops shape pops ->
    forall fuel th t T (p : list R),
    integrate_const fuel shape grids pops th tf dj t T p =
    olincomb 1 th (integrate_const fuel shape grids pops 0 tf dj t T p)
                  (integrate_const fuel shape grids pops 1 tf dj t T (zeros (length p))).
  Proof.
    intros Hwf fuel th t T p.
    rewrite <- (integrate_const_linear shape grids Hgrids pops tf dj 1 th Hwf fuel 0 1 t T p (zeros (length p))).
    - rewrite lincomb_zeros_r. replace (1 * 0 + th * 1) with th by ring. reflexivity.
    - unfold zeros. rewrite repeat_length. reflexivity.
  Qed.
End Regimes.
