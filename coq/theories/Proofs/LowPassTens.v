(** C18: N-dimensional arrays: totals under addition, scaling, matrix application along an axis,
    index-aware maps and folds.  Shape-free wherever possible (the empty list is a zero of any shape). *)
From Coq Require Import ZArith QArith Qreduction List Bool Arith Lia Lqa Setoid Morphisms.
From Dadi Require Import Model.LowPass Proofs.LowPassQ Proofs.LowPassMat.
Import ListNotations.
Local Open Scope Q_scope.

(** ** totals *)
Lemma ttotal_S d (l : tens (S d)) : ttotal (S d) l = qsum (map (ttotal d) l).
Proof. reflexivity. Qed.

Lemma ttotal_tadd : forall d x y, ttotal d (tadd d x y) == ttotal d x + ttotal d y.
Proof.
  induction d as [|d IH]; intros x y.
  - cbn [ttotal tadd]. apply Qred_correct.
  - rewrite !ttotal_S. cbn [tadd]. revert y. induction x as [|a x IHx]; intros y.
    + cbn [ladd map]. rewrite qsum_nil. lra.
    + destruct y as [|b y]; cbn [ladd map]; rewrite ?qsum_cons, ?qsum_nil; [lra|].
      rewrite IH, IHx. lra.
Qed.

Lemma ttotal_tscale : forall d c x, ttotal d (tscale d c x) == c * ttotal d x.
Proof.
  induction d as [|d IH]; intros c x.
  - reflexivity.
  - rewrite !ttotal_S. cbn [tscale]. rewrite map_map. rewrite (qsum_map_ext _ (fun y => c * ttotal d y)) by (intros; apply IH).
    apply qsum_map_scale.
Qed.

Lemma ttotal_tnil d : ttotal d (tnil d) == 0.
Proof. destruct d; reflexivity. Qed.

Lemma ttotal_tlincomb d cs xs :
  ttotal d (tlincomb d cs xs) == qsum (map (fun p => fst p * ttotal d (snd p)) (combine cs xs)).
Proof.
  unfold tlincomb. induction (combine cs xs) as [|p l IH]; cbn [fold_right map].
  - rewrite qsum_nil. apply ttotal_tnil.
  - rewrite ttotal_tadd, ttotal_tscale, IH, qsum_cons. reflexivity.
Qed.

(** ** lengths along an axis are bounded (the only shape information the total of a product needs) *)
Fixpoint axis_le (d : nat) : nat -> nat -> tens d -> Prop :=
  match d with
  | O => fun _ _ _ => True
  | S d' => fun ax n x => match ax with
                          | O => (length x <= n)%nat
                          | S ax' => Forall (axis_le d' ax' n) x
                          end
  end.

Lemma ladd_length {T} (f : T -> T -> T) x y : length (ladd f x y) = Nat.max (length x) (length y).
Proof. revert y; induction x; destruct y; cbn [ladd length]; auto. rewrite IHx. reflexivity. Qed.

Lemma Forall_ladd {T} (P : T -> Prop) (f : T -> T -> T) : (forall a b, P a -> P b -> P (f a b)) ->
  forall x y, Forall P x -> Forall P y -> Forall P (ladd f x y).
Proof.
  intros Hf. induction x as [|a x IH]; intros y Hx Hy; [exact Hy|].
  destruct y as [|b y]; [exact Hx|]. cbn [ladd]. inversion Hx; inversion Hy; subst. constructor; auto.
Qed.

Lemma axis_le_tadd : forall d ax n x y, axis_le d ax n x -> axis_le d ax n y -> axis_le d ax n (tadd d x y).
Proof.
  induction d as [|d IH]; intros ax n x y Hx Hy; [exact I|].
  destruct ax as [|ax]; cbn [axis_le tadd] in *.
  - rewrite ladd_length. lia.
  - apply Forall_ladd; auto.
Qed.

Lemma axis_le_tscale : forall d ax n c x, axis_le d ax n x -> axis_le d ax n (tscale d c x).
Proof.
  induction d as [|d IH]; intros ax n c x Hx; [exact I|].
  destruct ax as [|ax]; cbn [axis_le tscale] in *.
  - now rewrite map_length.
  - rewrite Forall_map. eapply Forall_impl; [|exact Hx]. intros; apply IH; assumption.
Qed.

Lemma axis_le_tnil d ax n : axis_le d ax n (tnil d).
Proof. destruct d; [exact I|]. destruct ax; cbn; [lia | constructor]. Qed.

Lemma axis_le_tlincomb d ax n cs xs : Forall (axis_le d ax n) xs -> axis_le d ax n (tlincomb d cs xs).
Proof.
  intros H. unfold tlincomb.
  assert (Hc : Forall (fun p => axis_le d ax n (snd p)) (combine cs xs)).
  { rewrite Forall_forall in *. intros [c x] Hp. apply in_combine_r in Hp. apply H, Hp. }
  induction Hc as [|p l Hp _ IH]; cbn [fold_right]; [apply axis_le_tnil|].
  apply axis_le_tadd; [apply axis_le_tscale, Hp | exact IH].
Qed.

Lemma axis_le_tapply_same : forall d ax M ncols x, (ax < d)%nat -> axis_le d ax ncols (tapply d ax M ncols x).
Proof.
  induction d as [|d IH]; intros ax M ncols x H; [lia|].
  destruct ax as [|ax]; cbn [axis_le tapply].
  - now rewrite map_length, seq_length.
  - rewrite Forall_map. rewrite Forall_forall. intros y _. apply IH. lia.
Qed.

Lemma axis_le_tapply_other : forall d ax ax' n M ncols x, ax <> ax' ->
  axis_le d ax' n x -> axis_le d ax' n (tapply d ax M ncols x).
Proof.
  induction d as [|d IH]; intros ax ax' n M ncols x Hne Hx; [exact I|].
  destruct ax as [|ax]; destruct ax' as [|ax']; cbn [axis_le tapply] in *; try lia.
  - rewrite Forall_map. rewrite Forall_forall. intros b _. apply axis_le_tlincomb, Hx.
  - now rewrite map_length.
  - rewrite Forall_map. eapply Forall_impl; [|exact Hx]. intros y Hy. apply IH; [lia | exact Hy].
Qed.

(** ** total after applying a matrix whose rows all have the same sum *)
Lemma map_nth_seq (l : list Q) : map (fun i => nth i l 0) (seq 0 (length l)) = l.
Proof.
  induction l as [|a l IH]; [reflexivity|]. cbn [length seq map nth]. f_equal.
  rewrite <- seq_shift, map_map. exact IH.
Qed.

Lemma qsum_swap {A B} (g : A -> B -> Q) (la : list A) (lb : list B) :
  qsum (map (fun b => qsum (map (fun a => g a b) la)) lb) == qsum (map (fun a => qsum (map (fun b => g a b) lb)) la).
Proof.
  induction la as [|a la IH]; cbn [map].
  - rewrite qsum_nil. apply qsum_zero. intros; reflexivity.
  - rewrite qsum_cons, <- IH. rewrite <- qsum_map_add. apply qsum_map_ext. intros b _. rewrite qsum_cons. reflexivity.
Qed.

Lemma combine_map_l {A B C} (h : A -> C) (a : list A) (b : list B) :
  combine (map h a) b = map (fun p => (h (fst p), snd p)) (combine a b).
Proof. revert b; induction a; destruct b; cbn; auto. now rewrite IHa. Qed.

Definition rows_sum (M : list (list Q)) (ncols : nat) (f : Q) : Prop :=
  forall row, In row M -> length row = ncols /\ qsum row == f.

Lemma combine_snd_total {A} d (M : list A) (x : list (tens d)) : (length x <= length M)%nat ->
  qsum (map (fun p => ttotal d (snd p)) (combine M x)) == qsum (map (ttotal d) x).
Proof.
  revert x. induction M as [|m M IH]; intros x H.
  - destruct x; [reflexivity | cbn in H; lia].
  - destruct x as [|a x]; [reflexivity|]. cbn [combine map snd]. rewrite !qsum_cons, IH by (cbn in H; lia). reflexivity.
Qed.

Theorem tapply_total : forall d ax M ncols f x, (ax < d)%nat -> rows_sum M ncols f -> axis_le d ax (length M) x ->
  ttotal d (tapply d ax M ncols x) == f * ttotal d x.
Proof.
  induction d as [|d IH]; intros ax M ncols f x Hax HM Hx; [lia|].
  destruct ax as [|ax]; cbn [tapply axis_le] in *; rewrite !ttotal_S, map_map.
  - rewrite (qsum_map_ext _ (fun b => qsum (map (fun p => nth b (fst p) 0 * ttotal d (snd p)) (combine M x)))).
    2:{ intros b _. rewrite ttotal_tlincomb. unfold column. rewrite combine_map_l, map_map. reflexivity. }
    rewrite qsum_swap.
    rewrite (qsum_map_ext _ (fun p => f * ttotal d (snd p))).
    + rewrite qsum_map_scale, combine_snd_total by exact Hx. reflexivity.
    + intros [row xa] Hp. cbn [fst snd]. apply in_combine_l in Hp. destruct (HM row Hp) as [L S].
      rewrite (qsum_map_ext _ (fun b => ttotal d xa * nth b row 0)) by (intros; ring).
      rewrite qsum_map_scale. rewrite <- L, map_nth_seq, S. ring.
  - rewrite (qsum_map_ext _ (fun y => f * ttotal d y)).
    + apply qsum_map_scale.
    + intros y Hy. rewrite Forall_forall in Hx. apply IH; auto. lia.
Qed.

(** ** index-aware map *)
Lemma mapi_from_length {A B} (f : nat -> A -> B) l : forall i, length (mapi_from f i l) = length l.
Proof. induction l; intros i; cbn; auto. Qed.

Lemma axis_le_tmapi : forall d ax n f pre x, axis_le d ax n x -> axis_le d ax n (tmapi d f pre x).
Proof.
  induction d as [|d IH]; intros ax n f pre x Hx; [exact I|].
  destruct ax as [|ax]; cbn [axis_le tmapi] in *.
  - now rewrite mapi_from_length.
  - generalize 0%nat. induction Hx as [|a x Ha _ IHx]; intros i; cbn [mapi_from]; constructor; auto.
Qed.

(** all entries satisfy P *)
Fixpoint tall (d : nat) (P : Q -> Prop) : tens d -> Prop :=
  match d with O => P | S d' => Forall (tall d' P) end.

Lemma tmapi_total_le : forall d (g h : list nat -> Q -> Q) pre x,
  (forall idx m, 0 <= m -> g idx m <= h idx m) -> tall d (fun m => 0 <= m) x ->
  ttotal d (tmapi d g pre x) <= ttotal d (tmapi d h pre x).
Proof.
  induction d as [|d IH]; intros g h pre x Hgh Hx; [apply Hgh, Hx|].
  cbn [tmapi]. rewrite !ttotal_S. cbn [tall] in Hx. generalize 0%nat.
  induction Hx as [|a x Ha _ IHx]; intros i; cbn [mapi_from map]; rewrite ?qsum_cons, ?qsum_nil; [lra|].
  specialize (IH g h (pre ++ [i]) a Hgh Ha). specialize (IHx (S i)). lra.
Qed.

Lemma tmapi_total_id : forall d pre x, ttotal d (tmapi d (fun _ m => m) pre x) == ttotal d x.
Proof.
  induction d as [|d IH]; intros pre x; [reflexivity|].
  cbn [tmapi]. rewrite !ttotal_S. generalize 0%nat.
  induction x as [|a x IHx]; intros i; cbn [mapi_from map]; rewrite ?qsum_cons, ?qsum_nil; [lra|].
  rewrite IH, IHx. reflexivity.
Qed.

Lemma tmapi_total_lin : forall d (g h : list nat -> Q -> Q) c pre x,
  c * ttotal d (tmapi d g pre x) + ttotal d (tmapi d h pre x) == ttotal d (tmapi d (fun idx m => c * g idx m + h idx m) pre x).
Proof.
  induction d as [|d IH]; intros g h c pre x; [reflexivity|].
  cbn [tmapi]. rewrite !ttotal_S. generalize 0%nat.
  induction x as [|a x IHx]; intros i; cbn [mapi_from map]; rewrite ?qsum_cons, ?qsum_nil; [lra|].
  rewrite <- IH, <- IHx. ring.
Qed.

(** ** index-aware fold: adding scaled arrays of total one *)
Lemma tfoldi_add_total (D : nat) (u : list nat -> bool) (sim : list nat -> tens D) :
  (forall idx, ttotal D (sim idx) == 1) ->
  forall d pre (x : tens d) (acc : tens D),
  ttotal D (tfoldi d (fun idx m acc => if u idx then tadd D acc (tscale D m (sim idx)) else acc) pre x acc)
  == ttotal D acc + ttotal d (tmapi d (fun idx m => if u idx then m else 0) pre x).
Proof.
  intros Hs. induction d as [|d IH]; intros pre x acc.
  - cbn [tfoldi tmapi ttotal]. destruct (u pre); [|lra]. rewrite ttotal_tadd, ttotal_tscale, Hs. lra.
  - cbn [tfoldi tmapi]. rewrite ttotal_S. generalize 0%nat. revert acc.
    induction x as [|a x IHx]; intros acc i; cbn [foldi_from mapi_from map]; rewrite ?qsum_cons, ?qsum_nil; [lra|].
    rewrite IHx, IH. lra.
Qed.
