(** C10 proofs: marginalize commutes with reorder_pops (with the induced order on the surviving axes). *)
From Coq Require Import String.
From Coq Require Import ZArith Reals List Bool Arith Lia Lra Permutation Sorted.
From Dadi Require Import Base.Num Base.NumR Model.PopOps Proofs.PopOpsBig Proofs.PopOpsIdx Proofs.PopOpsPF
  Proofs.PopOpsProofs Proofs.PopOpsReorder.
Import ListNotations.
Local Open Scope R_scope.

Lemma marginalize_PF (a : spec R) over :
  fo a = false -> NoDup over -> Forall (fun k => (k < length (sh a))%nat) over ->
  let o := marginalize_core over false a in
  sh o = drop_axes over (sh a) /\
  PFR (sh a) (drop_axes over) (eff a) (sh o) (eff o) /\ PFall (sh a) (drop_axes over) (mk a) (sh o) (mk o) /\
  ids o = option_map (drop_axes over) (ids a) /\ fo o = false.
Proof. intros Hfo Hnd Hall. unfold marginalize_core. rewrite Hfo.
  destruct (fold_sum_axis (rev (isort over)) a (valid_seq_over a over Hnd Hall)) as (E & P1 & P2).
  simpl. repeat split; auto. Qed.

Lemma marginalize_mc (a : spec R) over :
  fo a = false -> marginalize_core over true a = mask_corners (marginalize_core over false a).
Proof. intros Hfo. unfold marginalize_core. rewrite Hfo. reflexivity. Qed.

Lemma select_perm {A} (dflt : A) q (l : list A) : is_perm q -> length q = length l -> Permutation (select dflt q l) l.
Proof. intros Hq Hl. unfold select. etransitivity; [apply Permutation_map; exact Hq|]. rewrite Hl.
  change (Permutation (select dflt (seq 0 (length l)) l) l). now rewrite select_seq_id. Qed.

Lemma forallb_perm {A} (f : A -> bool) l l' : Permutation l l' -> forallb f l = forallb f l'.
Proof. induction 1; simpl; auto; try congruence. rewrite !andb_assoc. f_equal. apply andb_comm. Qed.

Lemma is_corner_perm p S J : is_perm p -> length p = length S -> length J = length S ->
  is_corner S (select 0%nat (inv_perm p) J) = is_corner (select 0%nat p S) J.
Proof. intros Hp Hl HJ. unfold is_corner. f_equal.
  - apply forallb_perm. apply select_perm; try (now apply is_perm_inv). rewrite inv_perm_length; lia.
  - change 0%nat with (pred 0) at 2. rewrite <- select_map.
    2:{ intros k Hk. apply (is_perm_in _ k Hp) in Hk. lia. }
    simpl pred.
    destruct (idx_eqb (select 0%nat (inv_perm p) J) (map pred S)) eqn:E1,
             (idx_eqb J (select 0%nat p (map pred S))) eqn:E2; auto.
    + apply idx_eqb_spec in E1. rewrite <- E1 in E2. rewrite select_inv_cancel_r in E2 by (auto; lia).
      rewrite idx_eqb_refl in E2. discriminate.
    + apply idx_eqb_spec in E2. rewrite E2 in E1. rewrite select_inv_cancel_l in E1 by (auto; rewrite map_length; lia).
      rewrite idx_eqb_refl in E1. discriminate. Qed.

(** the induced order: [over] are axes of the reordered spectrum; they are the original axes [over'];
    the surviving original axes, listed in output order, are [L]; in increasing order they are [K] *)
Section Commute.
  Variables (a : spec R) (n over : list nat).
  Let d := length (sh a).
  Hypothesis Hfo : fo a = false.
  Hypothesis Hn : valid_order d n.
  Hypothesis Hnd : NoDup over.
  Hypothesis Hall : Forall (fun k => (k < d)%nat) over.
  Hypothesis Hlab : labels_ok a.

  Let p := map pred n.
  Definition orig_axes : list nat := select 0%nat over p.
  Let L := select 0%nat (kept over d) p.
  Let K := kept orig_axes d.
  Definition induced_perm : list nat := map (fun x => index_of x K) L.
  Definition induced_order : list nat := map S induced_perm.

  Let Hp : is_perm p := proj1 (valid_order_perm d n Hn).
  Let Lp : length p = d := proj2 (valid_order_perm d n Hn).

  Lemma nth_p_inj i j : (i < d)%nat -> (j < d)%nat -> nth i p 0%nat = nth j p 0%nat -> i = j.
  Proof. intros Hi Hj E. apply (proj1 (NoDup_nth p 0%nat) (is_perm_NoDup p Hp)); auto; lia. Qed.
  Lemma nth_p_lt i : (i < d)%nat -> (nth i p 0%nat < d)%nat.
  Proof. intros Hi. rewrite <- Lp. apply (is_perm_in p _ Hp). apply nth_In. lia. Qed.

  Lemma orig_NoDup : NoDup orig_axes.
  Proof. unfold orig_axes, select. apply NoDup_map_in; auto. intros x y Hx Hy. rewrite Forall_forall in Hall.
    apply nth_p_inj; auto. Qed.
  Lemma orig_lt : Forall (fun k => (k < d)%nat) orig_axes.
  Proof. apply Forall_forall. intros x Hx. unfold orig_axes, select in Hx. apply in_map_iff in Hx as (k & <- & Hk).
    rewrite Forall_forall in Hall. apply nth_p_lt; auto. Qed.

  Lemma L_K_same x : In x L <-> In x K.
  Proof. unfold L, K. rewrite (kept_in orig_axes d x orig_NoDup orig_lt). unfold select. rewrite in_map_iff. split.
    - intros (i & <- & Hi). apply (kept_in over d i Hnd Hall) in Hi as [Hi Hni]. split; [now apply nth_p_lt|].
      intros Hin. unfold orig_axes, select in Hin. apply in_map_iff in Hin as (k & E & Hk).
      rewrite Forall_forall in Hall. apply nth_p_inj in E; auto. now subst.
    - intros [Hx Hni]. exists (index_of x p).
      assert (Hxp : In x p) by (apply (is_perm_in p x Hp); lia).
      split; [now apply nth_index_of|]. apply (kept_in over d _ Hnd Hall). split.
      + rewrite <- Lp. now apply index_of_lt.
      + intros Hin. apply Hni. unfold orig_axes, select. apply in_map_iff. exists (index_of x p). split; auto.
        now apply nth_index_of. Qed.

  Lemma L_NoDup : NoDup L.
  Proof. unfold L, select. apply NoDup_map_in; [|now apply kept_NoDup]. intros x y Hx Hy.
    apply (kept_in over d x Hnd Hall) in Hx as [Hx _]. apply (kept_in over d y Hnd Hall) in Hy as [Hy _].
    now apply nth_p_inj. Qed.
  Lemma K_NoDup : NoDup K.
  Proof. apply kept_NoDup; [apply orig_NoDup | apply orig_lt]. Qed.
  Lemma L_K_length : length L = length K.
  Proof. apply Permutation_length. apply NoDup_Permutation; [apply L_NoDup | apply K_NoDup | apply L_K_same]. Qed.

  Lemma induced_is_perm : is_perm induced_perm /\ length induced_perm = length K.
  Proof. assert (Len : length induced_perm = length K) by (unfold induced_perm; rewrite map_length; apply L_K_length).
    split; auto. unfold is_perm. rewrite Len. apply NoDup_Permutation_bis.
    - unfold induced_perm. apply NoDup_map_in; [|apply L_NoDup]. intros x y Hx Hy E.
      apply L_K_same in Hx, Hy. rewrite <- (nth_index_of x K Hx), <- (nth_index_of y K Hy), E. reflexivity.
    - rewrite seq_length. lia.
    - intros k Hk. unfold induced_perm in Hk. apply in_map_iff in Hk as (x & <- & Hx). apply L_K_same in Hx.
      apply in_seq. split; [lia|]. simpl. now apply index_of_lt. Qed.

  Lemma select_induced_K : select 0%nat induced_perm K = L.
  Proof. unfold induced_perm, select. rewrite map_map. rewrite <- (map_id L) at 2. apply map_ext_in. intros x Hx.
    apply nth_index_of. now apply L_K_same. Qed.

  (** the two index maps agree, on coordinates, shapes and labels alike *)
  Lemma two_routes {A} (dflt : A) (l : list A) : length l = d ->
    drop_axes over (select dflt p l) = select dflt induced_perm (drop_axes orig_axes l).
  Proof. intros Hl.
    rewrite (drop_axes_select dflt over), select_length, Lp. rewrite select_select.
    2:{ intros k Hk. apply (kept_in over d k Hnd Hall) in Hk. lia. }
    rewrite (drop_axes_select dflt orig_axes), Hl. rewrite select_select.
    2:{ intros k Hk. apply (is_perm_in _ k (proj1 induced_is_perm)) in Hk. now rewrite (proj2 induced_is_perm) in Hk. }
    f_equal. symmetry. exact select_induced_K. Qed.

  Theorem marginalize_commutes_with_reorder mc :
    exists r r', reorder_pops n a = Some r /\
                 reorder_pops induced_order (marginalize_core orig_axes mc a) = Some r' /\
                 same_visible (marginalize_core over mc r) r'.
  Proof.
    destruct induced_is_perm as [Hp' Lp'].
    (* the right-hand route without corner masking *)
    destruct (marginalize_PF a orig_axes Hfo orig_NoDup orig_lt) as (Sm & PVm & PMm & Im & Fm).
    set (m0 := marginalize_core orig_axes false a) in *.
    assert (Lm : length (sh m0) = length K).
    { rewrite Sm, (drop_axes_select 0%nat). rewrite select_length. reflexivity. }
    assert (Hord : valid_order (length (sh m0)) induced_order).
    { unfold induced_order. rewrite Lm, <- Lp'. now apply perm_valid_order. }
    assert (Epred : map pred induced_order = induced_perm).
    { unfold induced_order. rewrite map_map. simpl. apply map_id. }
    assert (Shm : forall mc', sh (marginalize_core orig_axes mc' a) = sh m0).
    { intros [|]; [rewrite marginalize_mc by auto|]; reflexivity. }
    rewrite (reorder_some a n Hn). fold p.
    set (r := {| sh := select 0%nat p (sh a); va := fun J => va a (select 0%nat (inv_perm p) J);
                 mk := fun J => mk a (select 0%nat (inv_perm p) J);
                 ids := option_map (select EmptyString p) (ids a); fo := fo a |}).
    exists r. eexists. split; [reflexivity|].
    rewrite reorder_some by (rewrite Shm; exact Hord). split; [reflexivity|]. rewrite Epred, Shm.
    (* the left-hand route *)
    assert (Lr : length (sh r) = d) by (simpl; rewrite select_length; exact Lp).
    assert (Hallr : Forall (fun k => (k < length (sh r))%nat) over) by (rewrite Lr; exact Hall).
    destruct (marginalize_PF r over Hfo Hnd Hallr) as (Sl & PVl & PMl & Il & Fl).
    set (l0 := marginalize_core over false r) in *.
    assert (Shl : forall mc', sh (marginalize_core over mc' r) = sh l0).
    { intros [|]; [rewrite marginalize_mc by auto|]; reflexivity. }
    (* r is the transpose of a *)
    assert (Hlp : length p = length (sh a)) by exact Lp.
    assert (TV := transpose_PF a p Hp Hlp R Rplus 0 (@eff R NumR) (fun _ => eq_refl) Rp_assoc Rp_comm Rp_0_l).
    assert (TM := transpose_PF a p Hp Hlp bool andb true (@mk R) (fun _ => eq_refl) andb_assoc andb_comm andb_true_l).
    assert (Tmaps := transpose_maps a p Hp Hlp).
    change (sh (transpose p a)) with (sh r) in TV, TM, Tmaps.
    change (eff (transpose p a)) with (eff r) in TV. change (mk (transpose p a)) with (mk r) in TM.
    assert (CV := PF_comp R Rplus 0 Rp_assoc Rp_comm Rp_0_l _ _ _ _ _ _ _ _ TV PVl Tmaps).
    assert (CM := PF_comp bool andb true andb_assoc andb_comm andb_true_l _ _ _ _ _ _ _ _ TM PMl Tmaps).
    (* the transpose of m0 by the induced permutation *)
    assert (Hlp' : length induced_perm = length (sh m0)) by lia.
    assert (UV := transpose_PF m0 induced_perm Hp' Hlp' R Rplus 0 (@eff R NumR) (fun _ => eq_refl) Rp_assoc Rp_comm Rp_0_l).
    assert (UM := transpose_PF m0 induced_perm Hp' Hlp' bool andb true (@mk R) (fun _ => eq_refl) andb_assoc andb_comm andb_true_l).
    assert (Mmaps : maps (sh a) (sh m0) (drop_axes orig_axes)) by (rewrite Sm; apply maps_drop_axes).
    assert (DV := PF_comp R Rplus 0 Rp_assoc Rp_comm Rp_0_l _ _ _ _ _ _ _ _ PVm UV Mmaps).
    assert (DM := PF_comp bool andb true andb_assoc andb_comm andb_true_l _ _ _ _ _ _ _ _ PMm UM Mmaps).
    set (t0 := transpose induced_perm m0) in *.
    (* shapes agree *)
    assert (Esh : sh l0 = sh t0).
    { rewrite Sl. simpl. rewrite Sm. apply two_routes. reflexivity. }
    (* pure parts agree *)
    assert (Epure : forall J, inr (sh l0) J -> eff l0 J = eff t0 J /\ mk l0 J = mk t0 J).
    { intros J HJ. split.
      - rewrite (CV J HJ). rewrite Esh in HJ. rewrite (DV J HJ). apply big_ext. intros I HI. apply in_indices in HI.
        rewrite two_routes; auto. now rewrite (inr_length _ _ HI).
      - rewrite (CM J HJ). rewrite Esh in HJ. rewrite (DM J HJ). apply big_ext. intros I HI. apply in_indices in HI.
        rewrite two_routes; auto. now rewrite (inr_length _ _ HI). }
    unfold same_visible. rewrite Shl. simpl sh. fold (sh t0). split; [exact Esh|]. split.
    { (* labels *)
      simpl ids. destruct mc; [rewrite !marginalize_mc by auto|]; simpl ids; fold l0 m0; rewrite Il, Im; simpl;
      unfold labels_ok in Hlab; destruct (ids a) as [lb|]; simpl; auto; f_equal; apply two_routes; exact Hlab. }
    split.
    { simpl fo. destruct mc; [rewrite !marginalize_mc by auto|]; simpl; fold l0 m0; now rewrite Fl, Fm. }
    intros J HJ. apply in_indices in HJ. destruct (Epure J HJ) as [EV EM].
    assert (LJ : length J = length (sh m0)).
    { rewrite Esh in HJ. rewrite (inr_length _ _ HJ). simpl. now rewrite select_length. }
    destruct mc.
    - rewrite !marginalize_mc by auto. fold l0 m0. simpl.
      change (mk m0 (select 0%nat (inv_perm induced_perm) J)) with (mk t0 J).
      change (va m0 (select 0%nat (inv_perm induced_perm) J)) with (va t0 J).
      rewrite is_corner_perm; auto. change (select 0%nat induced_perm (sh m0)) with (sh t0). rewrite <- Esh.
      rewrite EM. split; [reflexivity|]. intros Hm. apply orb_false_iff in Hm as [Hm _].
      unfold eff in EV. rewrite Hm in EV. rewrite <- EM in Hm. rewrite Hm in EV. exact EV.
    - fold l0 m0. simpl.
      change (mk m0 (select 0%nat (inv_perm induced_perm) J)) with (mk t0 J).
      change (va m0 (select 0%nat (inv_perm induced_perm) J)) with (va t0 J).
      split; [exact EM|]. intros Hm. unfold eff in EV. rewrite Hm in EV. rewrite EM in Hm. rewrite Hm in EV. exact EV. Qed.
End Commute.
