(** C04: total trapezoid mass of a d-dimensional density. A sweep of population k changes it only by the outflow on
    the lines whose other coordinates are all 0 or all 1. *)
From Coq Require Import Reals List Lra Lia Arith Bool.
From Dadi Require Import Base.Num Base.NumR Model.Tridiag Model.Scheme Model.NDSweep
  Proofs.TridiagProofs Proofs.SchemeProofs Proofs.SumLemmas Proofs.MassBalance Proofs.NDLines Proofs.NDSweepProofs Proofs.NDWeights
  Proofs.FrozenMarginal.
Import ListNotations.
Local Open Scope R_scope.

(** product of the trapezoid weights of all axes *)
Definition tweight (grids : list (list R)) (d : nat) (ix : list nat) : R :=
  nprod (map (fun a => trap_w (nth a grids []) (nth a ix 0%nat)) (seq 0 d)).
Definition total_mass (shape : list nat) (grids : list (list R)) (phi : list R) : R :=
  rsum (prodn shape) (fun j => tweight grids (length shape) (unflat shape j) * nthF phi j).

Section Total.
  Variable shape : list nat.
  Variable grids : list (list R).
  Variable pops : list (@pop R).
  Variable k : nat.
  Variable p : @pop R.
  Notation d := (length shape).
  Hypothesis Hk : (k < d)%nat.
  Hypothesis Hp : nth_error pops k = Some p.
  Hypothesis Hgridk : length (nth k grids []) = ax_len shape k.
  Hypothesis HN : (2 <= ax_len shape k)%nat.
  Hypothesis Hdx : forall j, (j < length (nth k grids []) - 1)%nat -> 0 < dx (nth k grids []) j.
  Variable dt : R.
  Hypothesis Hdt : dt <> 0.
  Variable dj : bool.
  Notation xs := (nth k grids []).
  Notation outer := (ax_outer shape k). Notation len := (ax_len shape k). Notation inner := (ax_inner shape k).
  Notation pre := (firstn k shape). Notation post := (skipn (S k) shape).

  (** weight of the other axes on line (o,q) *)
  Definition Wother (o q : nat) : R :=
    nprod (map (fun a => if Nat.eqb a k then 1 else trap_w (nth a grids []) (nth a (unflat pre o ++ 0%nat :: unflat post q) 0%nat)) (seq 0 d)).

  Lemma pre_len (o : nat) : length (unflat pre o) = k.
  Proof. rewrite unflat_length, firstn_length. lia. Qed.

  Lemma tweight_factor o ik q : tweight grids d (unflat pre o ++ ik :: unflat post q) = trap_w xs ik * Wother o q.
  Proof.
    unfold tweight. rewrite (nprod_pull _ d k Hk). f_equal.
    - f_equal. rewrite nth_app_mid, pre_len, Nat.ltb_irrefl, Nat.eqb_refl. reflexivity.
    - unfold Wother. f_equal. apply map_ext_in. intros a Ha.
      destruct (Nat.eqb_spec a k) as [->|Hak]; [reflexivity|].
      rewrite !nth_app_mid, !pre_len. destruct (Nat.ltb a k); [reflexivity|].
      destruct (Nat.eqb_spec a k); [congruence|reflexivity].
  Qed.

  Lemma total_mass_as_lines (phi : list R) :
    total_mass shape grids phi = rsum outer (fun o => rsum inner (fun q => Wother o q * trapz xs (get_line shape k phi o q))).
  Proof.
    unfold total_mass. rewrite (rsum_lines shape k Hk).
    apply rsum_ext. intros o Ho. apply rsum_ext. intros q Hq.
    rewrite (trapz_rsum xs). rewrite Hgridk, <- rsum_scal. apply rsum_ext. intros ik Hik.
    rewrite (unflat_line shape k Hk o ik q Ho Hik Hq). rewrite tweight_factor.
    unfold get_line, nthF. rewrite nth_map_seq0 by exact Hik. ring.
  Qed.

  (** total mass balance of one sweep: the loss is the outflow on the corner lines, nothing else *)
  Theorem sweep_total_mass_balance (phi : list R) :
    (forall o q, (o < outer)%nat -> (q < inner)%nat ->
       nonzero (all_pivots (line_rows xs (Vfunc_beta (p_nu p) (p_beta p)) (Mline shape grids k p o q) (p_nu p)
                                      (corner0 shape grids k o q) (corner1 shape grids k o q) dt dj (get_line shape k phi o q)))) ->
    total_mass shape grids phi =
    total_mass shape grids (sweep shape grids pops k dt dj phi)
    + dt * rsum outer (fun o => rsum inner (fun q =>
        Wother o q * (out0 xs (Mline shape grids k p o q) (p_nu p) (corner0 shape grids k o q)
                        * nthF (get_line shape k (sweep shape grids pops k dt dj phi) o q) 0
                      + out1 xs (Mline shape grids k p o q) (p_nu p) (corner1 shape grids k o q)
                        * nthF (get_line shape k (sweep shape grids pops k dt dj phi) o q) (length xs - 1)))).
  Proof.
    intros Hpiv. rewrite !total_mass_as_lines.
    rewrite <- rsum_scal, <- rsum_add. apply rsum_ext. intros o Ho.
    rewrite <- rsum_scal, <- rsum_add. apply rsum_ext. intros q Hq.
    rewrite (sweep_mass_balance_line shape grids pops k p Hp Hgridk dt dj phi o q HN Hdx Hdt Ho Hq (Hpiv o q Ho Hq)).
    cbv zeta. ring.
  Qed.

  (** the outflow terms vanish on every line that is not a corner line *)
  Lemma outflow_only_on_corner_lines o q : corner0 shape grids k o q = false -> corner1 shape grids k o q = false ->
    out0 xs (Mline shape grids k p o q) (p_nu p) (corner0 shape grids k o q) = 0 /\
    out1 xs (Mline shape grids k p o q) (p_nu p) (corner1 shape grids k o q) = 0.
  Proof.
    intros H0 H1. assert (HN' : (2 <= length xs)%nat) by (rewrite Hgridk; exact HN).
    apply (no_outflow_off_corner xs (Mline shape grids k p o q) (p_nu p) _ _ HN' Hdx H0 H1).
  Qed.
End Total.
