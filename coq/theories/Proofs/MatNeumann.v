(** * MatNeumann: a small perturbation of an invertible matrix is invertible (Neumann series).

    [neumann_inverse]:  A B = 1 = B A  and  |B| |A' - A| < 1   =>   A' has a two-sided inverse.
    So in the Godambe perturbation theorems the invertibility of the finite-difference matrices need not be assumed:
    it follows from the smallness condition that is needed anyway. *)
From Coq Require Import Reals List Lra Lia Arith Psatz.
From Coquelicot Require Import Coquelicot.
From Dadi Require Import Proofs.MatPerturb.
Local Open Scope R_scope.

Fixpoint mpow (n : nat) (X : mat) (k : nat) : mat :=
  match k with O => mI | S k' => mmul n X (mpow n X k') end.

Lemma mnorm_mpow_S n X k : mnorm n (mpow n X (S k)) <= mnorm n X ^ (S k).
Proof.
  induction k as [|k IH].
  - cbn [mpow pow]. rewrite (mnorm_meq n (mmul n X mI) X); [lra|].
    intros i j _ Hj. apply mmul_I_r; assumption.
  - change (mpow n X (S (S k))) with (mmul n X (mpow n X (S k))).
    eapply Rle_trans; [apply mnorm_mmul|].
    change (mnorm n X ^ S (S k)) with (mnorm n X * mnorm n X ^ S k).
    apply Rmult_le_compat_l; [apply mnorm_nonneg|exact IH].
Qed.

Lemma mpow_entry_bound n X k i j : (i < n)%nat -> (j < n)%nat -> Rabs (mpow n X k i j) <= mnorm n X ^ k.
Proof.
  intros Hi Hj. destruct k as [|k].
  - cbn [mpow pow]. unfold mI, kron. destruct (Nat.eqb i j); [rewrite Rabs_R1|rewrite Rabs_R0]; lra.
  - eapply Rle_trans; [apply (mnorm_entry n (mpow n X (S k)) i j Hi Hj)|apply mnorm_mpow_S].
Qed.

Lemma mpow_comm n X k : meq n (mmul n (mpow n X k) X) (mmul n X (mpow n X k)).
Proof.
  induction k as [|k IH]; intros i j Hi Hj.
  - cbn [mpow]. rewrite mmul_I_l, mmul_I_r by assumption. reflexivity.
  - cbn [mpow]. rewrite mmul_assoc. apply mmul_ext_r. intros l Hl. apply IH; assumption.
Qed.

Lemma is_series_zero : is_series (fun _ : nat => 0) 0.
Proof.
  assert (Hg : is_series (fun k : nat => (1 / 2) ^ k) (/ (1 - 1 / 2))).
  { apply is_series_geom. rewrite Rabs_right; lra. }
  pose proof (is_series_scal_l 0 _ _ Hg) as H.
  unfold scal in H; cbn in H; unfold mult in H; cbn in H. rewrite Rmult_0_l in H.
  revert H. apply is_series_ext. intros k. apply Rmult_0_l.
Qed.

Lemma is_series_rsum m (c : nat -> R) (a : nat -> nat -> R) (s : nat -> R) :
  (forall l, (l < m)%nat -> is_series (a l) (s l)) ->
  is_series (fun k => rsum m (fun l => c l * a l k)) (rsum m (fun l => c l * s l)).
Proof.
  induction m as [|m IH]; intros H; cbn [rsum]; [apply is_series_zero|].
  apply (is_series_plus (fun k => rsum m (fun l => c l * a l k)) (fun k => c m * a m k)).
  - apply IH. intros l Hl. apply H. lia.
  - apply (is_series_scal_l (c m) (a m) (s m)). apply H. lia.
Qed.

Section Neumann.
  Variable n : nat.
  Variable X : mat.
  Hypothesis small : mnorm n X < 1.

  Definition neu : mat := fun i j => Series (fun k => mpow n X k i j).

  Lemma neu_ex i j : (i < n)%nat -> (j < n)%nat -> ex_series (fun k => mpow n X k i j).
  Proof.
    intros Hi Hj. apply (ex_series_le (fun k => mpow n X k i j) (fun k => mnorm n X ^ k)).
    - intros k. change (norm (mpow n X k i j)) with (Rabs (mpow n X k i j)). apply mpow_entry_bound; assumption.
    - apply ex_series_geom. rewrite Rabs_right; [assumption|apply Rle_ge, mnorm_nonneg].
  Qed.

  Lemma neu_is i j : (i < n)%nat -> (j < n)%nat -> is_series (fun k => mpow n X k i j) (neu i j).
  Proof. intros Hi Hj. apply Series_correct. apply neu_ex; assumption. Qed.

  (** N = 1 + X N *)
  Lemma neu_fix_l i j : (i < n)%nat -> (j < n)%nat -> neu i j = mI i j + mmul n X neu i j.
  Proof.
    intros Hi Hj. unfold neu at 1. rewrite Series_incr_1 by (apply neu_ex; assumption). cbn [mpow]. f_equal.
    apply is_series_unique. unfold mmul.
    apply (is_series_rsum n (fun l => X i l) (fun l k => mpow n X k l j) (fun l => neu l j)).
    intros l Hl. apply neu_is; assumption.
  Qed.

  (** N = 1 + N X *)
  Lemma neu_fix_r i j : (i < n)%nat -> (j < n)%nat -> neu i j = mI i j + mmul n neu X i j.
  Proof.
    intros Hi Hj. unfold neu at 1. rewrite Series_incr_1 by (apply neu_ex; assumption). cbn [mpow]. f_equal.
    apply is_series_unique.
    apply (is_series_ext (fun k => rsum n (fun l => X l j * mpow n X k i l))).
    - intros k. rewrite <- (mpow_comm n X k i j Hi Hj). unfold mmul. apply rsum_ext. intros l _. ring.
    - unfold mmul. rewrite (rsum_ext n (fun l => neu i l * X l j) (fun l => X l j * neu i l)) by (intros; ring).
      apply (is_series_rsum n (fun l => X l j) (fun l k => mpow n X k i l) (fun l => neu i l)).
      intros l Hl. apply neu_is; assumption.
  Qed.

  (** (1 - X) N = 1 = N (1 - X) *)
  Theorem neumann_is_inv : is_inv n (msub mI X) neu.
  Proof.
    split; intros i j Hi Hj.
    - rewrite mmul_msub_r, mmul_I_l by assumption. rewrite (neu_fix_l i j Hi Hj) at 1. ring.
    - rewrite mmul_msub_l, mmul_I_r by assumption. rewrite (neu_fix_r i j Hi Hj) at 1. ring.
  Qed.
End Neumann.

(** A B = 1 = B A, |B| |A' - A| < 1  =>  A' = A (1 + B E) is invertible, inverse  N B  with  N = (1 + B E)^-1 *)
Theorem neumann_inverse n A B A' :
  is_inv n A B -> mnorm n B * mnorm n (msub A' A) < 1 -> exists B', is_inv n A' B'.
Proof.
  intros [HAB HBA] Hsmall.
  set (X := mopp (mmul n B (msub A' A))).
  assert (HX : mnorm n X < 1).
  { unfold X. rewrite mnorm_mopp. eapply Rle_lt_trans; [apply mnorm_mmul|exact Hsmall]. }
  destruct (neumann_is_inv n X HX) as [HN1 HN2]. set (N := neu n X) in *.
  (* B A' = 1 - X   and   A' = A (1 - X)  on the square *)
  assert (HBA' : meq n (mmul n B A') (msub mI X)).
  { intros i j Hi Hj. unfold msub at 1, X, mopp. rewrite mmul_msub_l, (HBA i j Hi Hj). ring. }
  assert (HAX : meq n (mmul n A (msub mI X)) A').
  { intros i j Hi Hj. rewrite mmul_msub_l, mmul_I_r by assumption. unfold X.
    rewrite mmul_mopp_r, <- mmul_assoc.
    rewrite (mmul_ext_l n (mmul n A B) mI (msub A' A)) by (intros k Hk; apply HAB; assumption).
    rewrite mmul_I_l by assumption. unfold msub. ring. }
  exists (mmul n N B). split; intros i j Hi Hj.
  - (* A' (N B) = A (1-X) N B = A B *)
    rewrite <- mmul_assoc.
    rewrite (mmul_ext_l n (mmul n A' N) A B).
    + apply HAB; assumption.
    + intros k Hk.
      rewrite (mmul_ext_l n A' (mmul n A (msub mI X)) N i k)
        by (intros l Hl; symmetry; apply HAX; assumption).
      rewrite mmul_assoc.
      rewrite (mmul_ext_r n A (mmul n (msub mI X) N) mI) by (intros l Hl; apply HN1; assumption).
      apply mmul_I_r; assumption.
  - (* (N B) A' = N (1 - X) = 1 *)
    rewrite mmul_assoc.
    rewrite (mmul_ext_r n N (mmul n B A') (msub mI X)) by (intros k Hk; apply HBA'; assumption).
    apply HN2; assumption.
Qed.
