(** Misc.perturb_params: when the clamped result is inside the bounds, and a witness when it is not. *)
From Coq Require Import ZArith Reals List Bool Lra Lia.
From Dadi Require Import Base.Num Base.NumR Model.Optim.
Import ListNotations.
Local Open Scope R_scope.

Definition ll_none (p : list R) : option R := None.
Notation inb := (in_bounds (F:=R)).

(** the clamps applied to one entry *)
Definition clamp_lo (repaired : bool) (l : option R) (q : R) : R :=
  match l with Some b => nmax q (shrink_lo repaired b) | None => q end.
Definition clamp_hi (repaired : bool) (u : option R) (q : R) : R :=
  match u with Some b => nmin q (shrink_hi repaired b) | None => q end.

(** what one pair of bounds has to satisfy for the clamped value to be inside it *)
Definition pair_ok (repaired : bool) (l u : option R) : Prop :=
  (forall a, l = Some a -> a <= shrink_lo repaired a) /\
  (forall c, u = Some c -> shrink_hi repaired c <= c) /\
  (forall a c, l = Some a -> u = Some c -> a <= shrink_hi repaired c).

Lemma nmax_ge_r (x y : R) : y <= nmax x y.
Proof. unfold nmax. numR. destruct (Rleb x y) eqn:E; [lra|apply Rleb_false in E; lra]. Qed.
Lemma nmax_ge_l (x y : R) : x <= nmax x y.
Proof. unfold nmax. numR. destruct (Rleb x y) eqn:E; [apply Rleb_true in E; lra|lra]. Qed.
Lemma nmin_le_r (x y : R) : nmin x y <= y.
Proof. unfold nmin. numR. destruct (Rleb x y) eqn:E; [apply Rleb_true in E; lra|lra]. Qed.
Lemma nmin_ge (x y a : R) : a <= x -> a <= y -> a <= nmin x y.
Proof. unfold nmin. numR. destruct (Rleb x y); auto. Qed.

Lemma nltb_false (x y : R) : y <= x -> nltb x y = false.
Proof. intros H. unfold nltb. numR. rewrite (proj2 (Rleb_true y x) H). reflexivity. Qed.
Lemma nltb_true (x y : R) : x < y -> nltb x y = true.
Proof. intros H. unfold nltb. numR. rewrite (proj2 (Rleb_false y x) H). reflexivity. Qed.

Lemma entry_ok repaired l u q : pair_ok repaired l u ->
  let y := clamp_hi repaired u (clamp_lo repaired l q) in
  match l with Some b => nltb y b | None => false end = false /\
  match u with Some b => nltb b y | None => false end = false.
Proof.
  intros (H1 & H2 & H3). cbv zeta. split.
  - destruct l as [a|]; auto. apply nltb_false. specialize (H1 a eq_refl).
    destruct u as [c|]; cbn [clamp_hi clamp_lo].
    + apply nmin_ge; [|apply (H3 a c); auto]. pose proof (nmax_ge_r q (shrink_lo repaired a)). lra.
    + pose proof (nmax_ge_r q (shrink_lo repaired a)). lra.
  - destruct u as [c|]; auto. apply nltb_false. specialize (H2 c eq_refl). cbn [clamp_hi].
    pose proof (nmin_le_r (clamp_lo repaired l q) (shrink_hi repaired c)). lra.
Qed.

Lemma perturb_gen_unfold repaired params fold us lb ub :
  perturb_gen repaired params fold us (Some lb) (Some ub) =
  map (fun pb => clamp_hi repaired (snd pb) (fst pb))
      (combine (map (fun pb => clamp_lo repaired (snd pb) (fst pb))
                    (combine (map (fun pu => fst pu * exp ((fold * ((1 + 1) * snd pu - 1)) * ln (1 + 1))) (combine params us)) lb)) ub).
Proof.
  unfold perturb_gen, clamp_hi, clamp_lo, n2. numR.
  apply map_ext_in. intros [x [c|]] _; reflexivity.
Qed.

Lemma clamped_in_bounds repaired : forall lb ub qs,
  Forall2 (pair_ok repaired) lb ub -> length qs = length lb ->
  inb (Some lb) (Some ub)
      (map (fun pb => clamp_hi repaired (snd pb) (fst pb))
           (combine (map (fun pb => clamp_lo repaired (snd pb) (fst pb)) (combine qs lb)) ub)) = true.
Proof.
  intros lb ub qs H. revert qs. induction H as [|l u lb ub Hp _ IH]; intros [|q qs] Hl; cbn in Hl; try discriminate; auto.
  specialize (IH qs ltac:(lia)).
  unfold in_bounds in *. cbn [combine map viol_lower viol_upper existsb fst snd] in *.
  destruct (entry_ok repaired l u q Hp) as [E1 E2]. cbv zeta in E1, E2.
  apply andb_true_iff in IH as [I1 I2]. apply negb_true_iff in I1, I2.
  rewrite E1, E2, I1, I2. reflexivity.
Qed.

(** for every list length and every pattern of absent bounds *)
Theorem perturb_gen_in_bounds repaired params fold us lb ub :
  length us = length params -> length lb = length params -> length ub = length params ->
  Forall2 (pair_ok repaired) lb ub ->
  inb (Some lb) (Some ub) (perturb_gen repaired params fold us (Some lb) (Some ub)) = true.
Proof.
  intros Hu Hl Hub Hp. rewrite perturb_gen_unfold. apply clamped_in_bounds; auto.
  rewrite map_length, combine_length. lia.
Qed.

Lemma Forall2_impl' {A B} (P Q : A -> B -> Prop) l1 l2 : (forall a b, P a b -> Q a b) -> Forall2 P l1 l2 -> Forall2 Q l1 l2.
Proof. intros H; induction 1; constructor; auto. Qed.

(** the code of the snapshot: bounds that are present are non-negative and the box is at least 1% wide *)
Definition sign_ok (l u : option R) : Prop :=
  (forall a, l = Some a -> 0 <= a) /\ (forall c, u = Some c -> 0 <= c) /\
  (forall a c, l = Some a -> u = Some c -> a <= 99 / 100 * c).

Lemma shrink_lo_false b : shrink_lo false b = 101 / 100 * b.
Proof. unfold shrink_lo, c101. numR. reflexivity. Qed.
Lemma shrink_hi_false b : shrink_hi false b = 99 / 100 * b.
Proof. unfold shrink_hi, c099. numR. reflexivity. Qed.

Theorem perturb_snapshot_in_bounds params fold us lb ub :
  length us = length params -> length lb = length params -> length ub = length params ->
  Forall2 sign_ok lb ub ->
  inb (Some lb) (Some ub) (perturb_params_snapshot params fold us (Some lb) (Some ub)) = true.
Proof.
  intros Hu Hl Hub Hs. apply perturb_gen_in_bounds; auto.
  eapply Forall2_impl'; [|exact Hs]. intros l u (H1 & H2 & H3). repeat split.
  - intros a E. rewrite shrink_lo_false. specialize (H1 a E). lra.
  - intros c E. rewrite shrink_hi_false. specialize (H2 c E). lra.
  - intros a c Ea Ec. rewrite shrink_hi_false. apply H3; auto.
Qed.

(** the current code (sign-aware margins): any sign; only "lower <= upper shrunk by 1%" is needed *)
Lemma shrink_lo_true_ge b : b <= shrink_lo true b.
Proof.
  unfold shrink_lo, c101, c099, nltb. numR. cbn [andb].
  destruct (Rleb 0 b) eqn:E; cbn [negb]; [apply Rleb_true in E|apply Rleb_false in E]; lra.
Qed.
Lemma shrink_hi_true_le b : shrink_hi true b <= b.
Proof.
  unfold shrink_hi, c101, c099, nltb. numR. cbn [andb].
  destruct (Rleb 0 b) eqn:E; cbn [negb]; [apply Rleb_true in E|apply Rleb_false in E]; lra.
Qed.
Theorem perturb_in_bounds params fold us lb ub :
  length us = length params -> length lb = length params -> length ub = length params ->
  Forall2 (fun l u => forall a c, l = Some a -> u = Some c -> a <= shrink_hi true c) lb ub ->
  inb (Some lb) (Some ub) (perturb_params params fold us (Some lb) (Some ub)) = true.
Proof.
  intros Hu Hl Hub Hs. apply perturb_gen_in_bounds; auto.
  eapply Forall2_impl'; [|exact Hs]. intros l u H3. repeat split; auto.
  - intros a _. apply shrink_lo_true_ge.
  - intros c _. apply shrink_hi_true_le.
Qed.

(** negative bounds: start inside the box, draw in [0,1), result below the lower bound *)
Theorem perturb_negative_bound_refuted :
  exists params fold us lb ub,
    inb (Some lb) (Some ub) params = true /\ Forall (fun u => 0 <= u < 1) us /\
    inb (Some lb) (Some ub) (perturb_params_snapshot params fold us (Some lb) (Some ub)) = false.
Proof.
  exists [-3], 2, [3/4], [Some (-4)], [Some (-1)].
  assert (E : -3 * exp (2 * ((1 + 1) * (3 / 4) - 1) * ln (1 + 1)) = -6).
  { replace (2 * ((1 + 1) * (3 / 4) - 1) * ln (1 + 1)) with (ln 2) by (replace (1 + 1) with 2 by lra; field).
    rewrite exp_ln by lra. lra. }
  repeat split.
  - unfold in_bounds. cbn. rewrite !nltb_false by lra. reflexivity.
  - repeat constructor; lra.
  - unfold perturb_params_snapshot. rewrite perturb_gen_unfold. cbn [combine map fst snd]. rewrite E.
    unfold in_bounds, clamp_hi, clamp_lo. rewrite shrink_lo_false, shrink_hi_false.
    cbn [combine map viol_lower existsb fst snd].
    assert (Em : nmin (nmax (-6) (101 / 100 * -4)) (99 / 100 * -1) = 101 / 100 * -4).
    { unfold nmin, nmax. numR.
      rewrite (proj2 (Rleb_true (-6) (101 / 100 * -4))) by lra.
      rewrite (proj2 (Rleb_true (101 / 100 * -4) (99 / 100 * -1))) by lra. reflexivity. }
    rewrite Em. rewrite nltb_true by lra. reflexivity.
Qed.

(** positive bounds, but a box narrower than the two 1% margins: the result drops below the lower bound --
    in the snapshot and in the current (sign-aware) code alike *)
Lemma shrink_lo_nonneg repaired b : 0 <= b -> shrink_lo repaired b = 101 / 100 * b.
Proof.
  intros Hb. unfold shrink_lo, c101, c099, nltb. numR. rewrite (proj2 (Rleb_true 0 b) Hb). cbn [negb].
  rewrite andb_false_r. reflexivity.
Qed.
Lemma shrink_hi_nonneg repaired b : 0 <= b -> shrink_hi repaired b = 99 / 100 * b.
Proof.
  intros Hb. unfold shrink_hi, c101, c099, nltb. numR. rewrite (proj2 (Rleb_true 0 b) Hb). cbn [negb].
  rewrite andb_false_r. reflexivity.
Qed.

Theorem perturb_narrow_box_refuted : forall repaired,
  exists params fold us lb ub,
    inb (Some lb) (Some ub) params = true /\ Forall (fun u => 0 <= u < 1) us /\
    Forall2 (fun l u => forall a c, l = Some a -> u = Some c -> 0 < a <= c) lb ub /\
    inb (Some lb) (Some ub) (perturb_gen repaired params fold us (Some lb) (Some ub)) = false.
Proof.
  intros repaired. exists [1], 0, [0], [Some 1], [Some (129/128)].
  assert (E : 1 * exp (0 * ((1 + 1) * 0 - 1) * ln (1 + 1)) = 1).
  { replace (0 * ((1 + 1) * 0 - 1) * ln (1 + 1)) with 0 by ring. rewrite exp_0. lra. }
  repeat split.
  - unfold in_bounds. cbn. rewrite !nltb_false by lra. reflexivity.
  - repeat constructor; lra.
  - constructor; [|constructor]. intros a c Ha Hc. injection Ha as <-. injection Hc as <-. lra.
  - rewrite perturb_gen_unfold. cbn [combine map fst snd]. rewrite E.
    unfold in_bounds, clamp_hi, clamp_lo. rewrite shrink_lo_nonneg, shrink_hi_nonneg by lra.
    cbn [combine map viol_lower existsb fst snd].
    assert (Em : nmin (nmax 1 (101 / 100 * 1)) (99 / 100 * (129 / 128)) = 99 / 100 * (129 / 128)).
    { unfold nmin, nmax. numR.
      rewrite (proj2 (Rleb_true 1 (101 / 100 * 1))) by lra.
      rewrite (proj2 (Rleb_false (101 / 100 * 1) (99 / 100 * (129 / 128)))) by lra. reflexivity. }
    rewrite Em. rewrite nltb_true by lra. reflexivity.
Qed.
