(** C13, subsampling: for every oracle (numpy.random.choice) that returns k indices, the calls recorded for a
    population are the allele counts of exactly k of its called individuals; a SNP with fewer than k called
    individuals in some population is dropped. *)
From Coq Require Import String Ascii ZArith NArith List Lia Bool Arith Permutation.
From Dadi Require Import Base.Num Model.Projection Model.Fold Model.DataDict.
Import ListNotations.

(** ** dictionaries *)
Lemma dget_dset_same {V} k (v : V) : forall d, dget k (dset k v d) = Some v.
Proof. induction d as [|[k' v'] d IH]; cbn.
  - rewrite String.eqb_refl. reflexivity.
  - destruct (String.eqb k' k) eqn:E; cbn; [rewrite String.eqb_refl; reflexivity|rewrite E; exact IH]. Qed.
Lemma dget_dset_other {V} k k' (v : V) : k' <> k -> forall d, dget k' (dset k v d) = dget k' d.
Proof. intros Hne. induction d as [|[k2 v2] d IH]; cbn.
  - destruct (String.eqb k k') eqn:E; [apply String.eqb_eq in E; congruence|reflexivity].
  - destruct (String.eqb k2 k) eqn:E; cbn.
    + apply String.eqb_eq in E. subst k2. destruct (String.eqb k k') eqn:E2; [apply String.eqb_eq in E2; congruence|reflexivity].
    + destruct (String.eqb k2 k'); [reflexivity|exact IH]. Qed.
Lemma dget_in {V} k (v : V) : forall d, dget k d = Some v -> In (k, v) d.
Proof. induction d as [|[k' v'] d IH]; cbn; [discriminate|]. destruct (String.eqb k' k) eqn:E.
  - apply String.eqb_eq in E. intros H; inversion H; subst. left; reflexivity.
  - intros H. right. auto. Qed.
Lemma dget_none_notin {V} k : forall (d : dict V), dget k d = None -> ~ In k (map fst d).
Proof. induction d as [|[k' v'] d IH]; cbn; [tauto|]. destruct (String.eqb k' k) eqn:E; [discriminate|].
  apply String.eqb_neq in E. intros H [H1|H1]; [congruence|]. exact (IH H H1). Qed.
Lemma dget_notin_none {V} k : forall (d : dict V), ~ In k (map fst d) -> dget k d = None.
Proof. induction d as [|[k' v'] d IH]; cbn; [reflexivity|]. intros H. destruct (String.eqb k' k) eqn:E.
  - apply String.eqb_eq in E. tauto. - apply IH. tauto. Qed.
Lemma dset_keys {V} k (v : V) : forall d,
  map fst (dset k v d) = if dhas k d then map fst d else (map fst d ++ [k])%list.
Proof. unfold dhas. induction d as [|[k' v'] d IH]; cbn; [reflexivity|]. destruct (String.eqb k' k) eqn:E; cbn.
  - apply String.eqb_eq in E. subst. reflexivity.
  - rewrite IH. destruct (dget k d); reflexivity. Qed.
Lemma dset_nodup {V} k (v : V) d : NoDup (map fst d) -> NoDup (map fst (dset k v d)).
Proof. intros Hn. rewrite dset_keys. unfold dhas. destruct (dget k d) eqn:E; [assumption|].
  apply dget_none_notin in E. apply (Permutation_NoDup (Permutation_cons_append (map fst d) k)). constructor; assumption. Qed.
Lemma in_nodup_dget {V} k (v : V) : forall d, NoDup (map fst d) -> In (k, v) d -> dget k d = Some v.
Proof. induction d as [|[k' v'] d IH]; cbn; [tauto|]. intros Hn [Hin|Hin]; inversion Hn; subst.
  - inversion Hin; subst. rewrite String.eqb_refl. reflexivity.
  - destruct (String.eqb k' k) eqn:Ek; [|auto]. apply String.eqb_eq in Ek. subst.
    exfalso. apply H1. apply in_map_iff. exists (k, v). auto. Qed.

(** ** the second loop of the subsampling branch *)
Definition sub_k (sub : dict nat) (pop : string) : nat := match dget pop sub with Some k => k | None => 0 end.

Section ChooseLoop.
  Variable choose : nat -> nat -> nat -> list nat.
  Variable sub : dict nat.

  Lemma choose_loop_spec : forall items calls c calls' c',
    choose_loop choose sub items calls c = (Some calls', c') ->
    NoDup (map fst items) -> (forall p, In p (map fst items) -> dget p calls = None) ->
    (forall p, ~ In p (map fst items) -> dget p calls' = dget p calls) /\
    (forall pop genos, In (pop, genos) items ->
       sub_k sub pop <= length genos /\
       exists cc, dget pop calls' = Some (add_chosen genos (choose cc (length genos) (sub_k sub pop)) (0, 0))).
  Proof. induction items as [|[pop genos] r IH]; intros calls c calls' c' E Hn Hc; cbn [choose_loop] in E.
    - inversion E; subst. split; [reflexivity|]. intros ? ? [].
    - cbn [map fst] in Hn, Hc. inversion Hn as [|? ? Hnot Hn']; subst.
      assert (E0 : dget pop calls = None) by (apply Hc; left; reflexivity).
      unfold dhas in E. rewrite E0 in E. fold (sub_k sub pop) in E.
      destruct (length genos <? sub_k sub pop) eqn:El; [discriminate|]. apply Nat.ltb_ge in El.
      rewrite dget_dset_same in E.
      destruct (IH _ _ _ _ E Hn') as [G1 G2].
      + intros p Hp. assert (p <> pop) by (intros ->; contradiction).
        rewrite !dget_dset_other by assumption. apply Hc. right; assumption.
      + split.
        * intros p Hp. cbn in Hp. rewrite G1 by tauto. rewrite !dget_dset_other by (intros ->; tauto). reflexivity.
        * intros pop' genos' [Hin|Hin].
          -- inversion Hin; subst. split; [assumption|]. exists c. rewrite G1 by assumption. apply dget_dset_same.
          -- apply G2. assumption. Qed.

  (** break: some population has fewer called individuals than requested -> the SNP is dropped *)
  Lemma choose_loop_drops : forall items calls c c',
    choose_loop choose sub items calls c = (None, c') ->
    exists pop genos, In (pop, genos) items /\ length genos < sub_k sub pop.
  Proof. induction items as [|[pop genos] r IH]; intros calls c c' E; cbn [choose_loop] in E; [discriminate|].
    fold (sub_k sub pop) in E. destruct (length genos <? sub_k sub pop) eqn:El.
    - apply Nat.ltb_lt in El. exists pop, genos. split; [left; reflexivity|assumption].
    - apply IH in E as [p [g [Hin Hl]]]. exists p, g. split; [right; assumption|assumption]. Qed.

  Lemma choose_loop_keeps : forall items calls c,
    (forall pop genos, In (pop, genos) items -> sub_k sub pop <= length genos) ->
    exists calls', choose_loop choose sub items calls c = (Some calls', c + length items).
  Proof. induction items as [|[pop genos] r IH]; intros calls c Hall; cbn [choose_loop length].
    - eexists. rewrite Nat.add_0_r. reflexivity.
    - fold (sub_k sub pop). replace (length genos <? sub_k sub pop) with false
        by (symmetry; apply Nat.ltb_ge; apply Hall; left; reflexivity).
      replace (c + S (length r)) with (S c + length r) by lia. apply IH.
      intros; apply Hall; right; assumption. Qed.
End ChooseLoop.

(** ** counts of the chosen genotypes *)
Definition gt_alleles (gt : string) : nat := gt_ref gt + gt_alt gt.

Lemma add_chosen_total genos : forall idx c0,
  fst (add_chosen genos idx c0) + snd (add_chosen genos idx c0)
  = fst c0 + snd c0 + list_sum (map (fun ii => gt_alleles (nth ii genos EmptyString)) idx).
Proof. unfold add_chosen. induction idx as [|ii idx IH]; intros c0; cbn [fold_left map]; [cbn; lia|].
  rewrite IH. cbn [fst snd]. unfold gt_alleles, list_sum. cbn [fold_right]. lia. Qed.

Lemma list_sum_const {A} (f : A -> nat) v : forall l, Forall (fun x => f x = v) l -> list_sum (map f l) = v * length l.
Proof. induction 1; [cbn; lia|]. cbn [map length]. change (list_sum (f x :: map f l)) with (f x + list_sum (map f l)). rewrite IHForall, H. lia. Qed.

(** exactly k individuals; with diploid biallelic genotypes exactly 2k chromosomes *)
Theorem chosen_is_exactly_k : forall genos idx k,
  length idx = k -> Forall (fun ii => ii < length genos) idx ->
  Forall (fun gt => gt_alleles gt = 2) genos ->
  let c := add_chosen genos idx (0, 0) in fst c + snd c = 2 * k.
Proof. intros genos idx k Lk Fi Fd. cbv zeta. rewrite add_chosen_total. cbn [fst snd].
  rewrite (list_sum_const _ 2); [lia|]. rewrite Forall_forall in *. intros ii Hi.
  apply Fd. apply nth_In. auto. Qed.

(** ** the first loop: only called genotypes are collected, keys are distinct *)
Lemma collect_loop_inv sub gtindex dpindex : forall ps sd sd',
  collect_loop sub gtindex dpindex ps sd = Some sd' ->
  NoDup (map fst sd) -> (forall p l gt, In (p, l) sd -> In gt l -> has_char "."%char gt = false) ->
  NoDup (map fst sd') /\ (forall p l gt, In (p, l) sd' -> In gt l -> has_char "."%char gt = false).
Proof. induction ps as [|[[pop|] sample] r IH]; intros sd sd' E Hn Hc; cbn [collect_loop] in E.
  - inversion E; subst. auto.
  - destruct (negb (dhas pop sub)); [eapply IH; eassumption|].
    destruct (nth_error (split ":"%char sample) gtindex) as [gt|]; [|discriminate].
    destruct (match dpindex with None => Some None | Some di => _ end) as [dp|]; [|discriminate].
    set (sd1 := if dhas pop sd then sd else dset pop [] sd) in E.
    assert (Hn1 : NoDup (map fst sd1)) by (unfold sd1; destruct (dhas pop sd); [assumption|apply dset_nodup; assumption]).
    assert (Hc1 : forall p l g, In (p, l) sd1 -> In g l -> has_char "."%char g = false).
    { unfold sd1. destruct (dhas pop sd) eqn:Eh; [assumption|]. intros p l g Hin Hg.
      apply in_nodup_dget in Hin; [|apply dset_nodup; assumption].
      destruct (string_dec p pop) as [->|Hne].
      - rewrite dget_dset_same in Hin. inversion Hin; subst. destruct Hg.
      - rewrite dget_dset_other in Hin by assumption. apply (Hc p l g); [apply dget_in|]; assumption. }
    destruct (called gt dp) eqn:Ecall; [|eapply IH; eassumption].
    eapply IH; [eassumption|apply dset_nodup; assumption|].
    intros p l g Hin Hg. apply in_nodup_dget in Hin; [|apply dset_nodup; assumption].
    destruct (string_dec p pop) as [->|Hne].
    + rewrite dget_dset_same in Hin. inversion Hin; subst. apply in_app_or in Hg as [Hg|[<-|[]]].
      * destruct (dget pop sd1) as [l0|] eqn:E0; [|destruct Hg]. eapply Hc1; [apply dget_in; eassumption|assumption].
      * unfold called in Ecall. apply andb_prop in Ecall as [Ec _]. apply negb_true_iff in Ec. assumption.
    + rewrite dget_dset_other in Hin by assumption. eapply Hc1; [apply dget_in; eassumption|assumption].
  - eapply IH; eassumption. Qed.

(** ** the whole subsampling branch of one VCF line *)
Definition oracle_returns_k (choose : nat -> nat -> nat -> list nat) : Prop :=
  forall c n k, k <= n -> length (choose c n k) = k /\ Forall (fun i => i < n) (choose c n k).

Theorem subsample_uses_exactly_k : forall choose sub gtindex dpindex ps sd calls c c',
  oracle_returns_k choose ->
  collect_loop sub gtindex dpindex ps [] = Some sd ->
  choose_loop choose sub sd [] c = (Some calls, c') ->
  forall pop genos, In (pop, genos) sd ->
    (* the called genotypes of the population *)
    Forall (fun gt => has_char "."%char gt = false) genos /\
    sub_k sub pop <= length genos /\
    exists idx, length idx = sub_k sub pop /\ Forall (fun i => i < length genos) idx /\
                dget pop calls = Some (add_chosen genos idx (0, 0)) /\
                (Forall (fun gt => gt_alleles gt = 2) genos ->
                 fst (add_chosen genos idx (0, 0)) + snd (add_chosen genos idx (0, 0)) = 2 * sub_k sub pop).
Proof. intros choose sub gtindex dpindex ps sd calls c c' Ho Ec El pop genos Hin.
  destruct (collect_loop_inv sub gtindex dpindex ps [] sd Ec) as [Hn Hcalled]; [constructor|intros ? ? ? []|].
  destruct (choose_loop_spec choose sub sd [] c calls c' El Hn) as [_ G]; [reflexivity|].
  destruct (G pop genos Hin) as [Hk [cc Hg]].
  split; [rewrite Forall_forall; intros gt Hgt; eapply Hcalled; eassumption|].
  split; [assumption|].
  destruct (Ho cc (length genos) (sub_k sub pop) Hk) as [L F].
  exists (choose cc (length genos) (sub_k sub pop)). repeat split; try assumption.
  intros Fd. apply chosen_is_exactly_k; assumption. Qed.

Theorem subsample_drops_undercalled : forall choose sub sd c c',
  choose_loop choose sub sd [] c = (None, c') ->
  exists pop genos, In (pop, genos) sd /\ length genos < sub_k sub pop.
Proof. intros. eapply choose_loop_drops; eassumption. Qed.

(** the structure of [vcf_line] in the subsampling branch: the calls of a stored SNP come from the two loops *)
Theorem vcf_line_subsample_structure : forall choose cfg sub poplist cols c key s c',
  cfg_sub cfg = Some sub ->
  vcf_line choose cfg poplist cols c = (LSnp key s, c') ->
  exists gtindex dpindex sd,
    collect_loop sub gtindex dpindex (combine poplist (skipn 9 cols)) [] = Some sd /\
    choose_loop choose sub sd [] c = (Some (s_calls s), c').
Proof. intros choose cfg sub poplist cols c key s c' Es E. unfold vcf_line in E.
  destruct (nth_error cols 3); [|discriminate]. destruct (nth_error cols 4); [|discriminate].
  destruct (nth_error cols 6); [|discriminate]. destruct (nth_error cols 7); [|discriminate].
  destruct (nth_error cols 8) as [c8|]; [|discriminate].
  destruct (cfg_filter cfg && _ && _); [discriminate|].
  destruct (negb _ || negb _); [discriminate|].
  destruct (index_of "GT"%string (split ":"%char c8)) as [gtindex|]; [|discriminate].
  rewrite Es in E.
  destruct (collect_loop sub gtindex (index_of "DP"%string (split ":"%char c8)) (combine poplist (skipn 9 cols)) []) as [sd|] eqn:Ec; [|discriminate].
  destruct (choose_loop choose sub sd [] c) as [[calls|] c2] eqn:El; [|discriminate].
  inversion E; subst. cbn [s_calls]. exists gtindex, (index_of "DP"%string (split ":"%char c8)), sd. auto. Qed.
