(** C05: admix_props with identity proportions is the direct path; small facts used by Props/C05.v. *)
From Coq Require Import ZArith NArith Reals List Lra Lia Arith Bool.
From Dadi Require Import Base.Num Base.NumR Model.FromPhi Proofs.FromPhiBinom Proofs.FromPhiBase Proofs.FromPhiMass1D
  Proofs.FromPhiLin Proofs.FromPhiND Proofs.FromPhiPaths Proofs.FromPhiSums.
Import ListNotations.
Local Open Scope R_scope.

(** identity proportions, d populations *)
Fixpoint idmat (d : nat) : list (list R) :=
  match d with O => [] | S d' => (1 :: repeat 0 d') :: map (cons 0) (idmat d') end.

Definition dops (ns : list nat) (xxs : list (list R)) : list (@axop R) :=
  map2 (fun n xx => (direct_ax false n xx, S n)) ns xxs.
Lemma direct_ops_None ns xxs : direct_ops None ns xxs = dops ns xxs.
Proof. unfold direct_ops, dops. generalize 0%nat as k. revert xxs. induction ns as [|n ns IH]; intros xxs k; [reflexivity|].
  destruct xxs as [|xx xxs]; [reflexivity|]. cbn [length seq combine]. rewrite !map2_cons. cbn [fst snd]. f_equal. apply IH. Qed.
Lemma dops_outsize ns xxs : length xxs = length ns -> outsize (dops ns xxs) = prodl (map S ns).
Proof. revert xxs. induction ns as [|n ns IH]; intros xxs E; destruct xxs; try discriminate; [reflexivity|].
  unfold dops, outsize in *. rewrite map2_cons. cbn [map snd prodl fold_right]. f_equal. apply IH. cbn in E; lia. Qed.
Lemma dops_ok ns xxs shape : length ns = length shape -> length xxs = length shape -> ops_ok (dops ns xxs) shape.
Proof. intros. rewrite <- direct_ops_None. apply direct_ops_ok; assumption. Qed.

(** product of the per-population binomial probabilities, and the flat position of an index tuple *)
Fixpoint gk (ns idx : list nat) (s : list R) : R :=
  match ns, idx, s with n :: ns', i :: idx', x :: s' => bker n i x * gk ns' idx' s' | _, _, _ => 1 end.
Fixpoint pos (ns idx : list nat) : nat :=
  match ns, idx with n :: ns', i :: idx' => (i * prodl (map S ns') + pos ns' idx')%nat | _, _ => 0%nat end.

Lemma pos_bound ns idx : Forall2 le idx ns -> (pos ns idx < prodl (map S ns))%nat.
Proof. intros H. induction H as [|i n idx ns Hi H IH]; [cbn; lia|]. cbn [pos map prodl fold_right]. fold (prodl (map S ns)).
  apply Nat.lt_le_trans with (S i * prodl (map S ns))%nat; [rewrite Nat.mul_succ_l; lia | apply Nat.mul_le_mono_r; lia]. Qed.

Lemma nth_map' {A} (f : A -> R) l j (d : A) : (j < length l)%nat -> nth j (map f l) 0 = f (nth j l d).
Proof. intros H. rewrite (nth_indep _ 0 (f d)) by (rewrite map_length; assumption). apply map_nth. Qed.
Lemma nth_map_list {A} (f : A -> list R) l j (d : A) : (j < length l)%nat -> nth j (map f l) [] = f (nth j l d).
Proof. intros H. rewrite (nth_indep _ [] (f d)) by (rewrite map_length; assumption). apply map_nth. Qed.

(** iterated trapezoid integration against a separable weight is the nested direct computation *)
Lemma wint_separable xxs shape : Forall2 (fun xx L => length xx = L) xxs shape ->
  forall ns idx, length ns = length xxs -> Forall2 le idx ns ->
  forall prefix c (g : list R -> R), (forall s, length s = length xxs -> g (prefix ++ s) = c * gk ns idx s) ->
  forall phi, length phi = prodl shape ->
  wint g xxs shape prefix phi = c * nth (pos ns idx) (nd (dops ns xxs) shape phi) 0.
Proof. induction 1 as [|xx L xxs rest HxL HL IH]; intros ns idx Hn Hle prefix c g Hg phi Hphi.
  - destruct ns; try discriminate. inversion Hle; subst. cbn [wint nd dops pos]. numR.
    specialize (Hg [] eq_refl). rewrite app_nil_r in Hg. rewrite Hg. cbn [gk]. destruct phi; cbn; ring.
  - destruct ns as [|n ns]; try discriminate. inversion Hle as [|i ? idx' ? Hi Hle']; subst.
    assert (Hn' : length ns = length xxs) by (cbn in Hn; lia).
    assert (Hx' : length xxs = length rest) by (clear -HL; induction HL; cbn; congruence).
    cbn [prodl fold_right] in Hphi. fold (prodl rest) in Hphi.
    unfold dops. rewrite map2_cons. fold (dops ns xxs). cbn [wint nd pos].
    fold (outsize (dops ns xxs)). rewrite dops_outsize by lia.
    set (m' := prodl (map S ns)). set (blocks := chunk (prodl rest) (length xx) phi).
    assert (Lb : length blocks = length xx) by apply chunk_length.
    assert (Bb : forall j, (j < length xx)%nat -> length (nth j blocks []) = prodl rest).
    { intros j Hj. pose proof (chunk_block_length (prodl rest) (length xx) phi Hphi) as Fb. rewrite Forall_forall in Fb.
      apply Fb. apply nth_In. fold blocks. lia. }
    pose proof (pos_bound ns idx' Hle') as Hq. fold m' in Hq. set (q := pos ns idx') in *.
    (* right-hand side *)
    rewrite apply0_eq, concat_grid.
    assert (Hlt : (i * m' + q < S n * m')%nat).
    { apply Nat.lt_le_trans with (S i * m')%nat; [rewrite Nat.mul_succ_l; lia | apply Nat.mul_le_mono_r; lia]. }
    rewrite nth_map_seq by exact Hlt.
    replace ((i * m' + q) / m')%nat with i by (replace (i * m' + q)%nat with (q + i * m')%nat by lia; rewrite Nat.div_add by lia; rewrite Nat.div_small by lia; reflexivity).
    replace ((i * m' + q) mod m')%nat with q by (replace (i * m' + q)%nat with (q + i * m')%nat by lia; rewrite Nat.mod_add by lia; rewrite Nat.mod_small by lia; reflexivity).
    unfold direct_ax, direct_fac, fac_apply. rewrite map_map, nth_map_seq by lia.
    rewrite <- trapz_scal. f_equal.
    rewrite (map2_nth_seq _ xx blocks 0 []) by lia.
    rewrite (map2_nth_seq _ (map (dfactor false n i) xx) _ 0 0) by (rewrite map_length, col_length, map_length; lia).
    rewrite map_length, vscal_map. apply map_ext_in. intros j Hj. apply in_seq in Hj.
    rewrite (IH ns idx' Hn' Hle' (prefix ++ [nth j xx 0]) (c * bker n i (nth j xx 0))).
    + rewrite (nth_map' _ xx j 0) by lia. rewrite col_nth. rewrite (nth_map_list _ blocks j []) by lia.
      unfold dfactor. numR. fold blocks. subst q. ring.
    + intros s Hs. rewrite <- app_assoc. cbn [app]. rewrite (Hg (nth j xx 0 :: s)) by (cbn; lia). cbn [gk]. ring.
    + apply Bb. lia. Qed.

(** with identity proportions the admixed sampling weight is the product of the plain binomial weights *)
Lemma admix_p_zeros d s : admix_p (repeat 0 d) s = 0.
Proof. revert s. induction d; intros s; [reflexivity|]. destruct s; [reflexivity|]. unfold admix_p in *. cbn [repeat]. rewrite map2_cons.
  change (rsum (?a :: ?l)) with (a + rsum l). rewrite IHd. numR. ring. Qed.
Lemma admix_p_cons a row x s : admix_p (a :: row) (x :: s) = a * x + admix_p row s.
Proof. reflexivity. Qed.

Lemma admix_g_cons (row : list R) A n ns i idx s :
  admix_g (row :: A) (n :: ns) (i :: idx) s = bker n i (admix_p row s) * admix_g A ns idx s.
Proof. reflexivity. Qed.
Lemma admix_g_shift (A : list (list R)) ns idx x s :
  admix_g (map (cons 0) A) ns idx (x :: s) = admix_g A ns idx s.
Proof. revert ns idx. induction A as [|row A IH]; intros ns idx; [reflexivity|].
  destruct ns as [|n ns]; [reflexivity|]. destruct idx as [|i idx]; [reflexivity|].
  cbn [map]. rewrite !admix_g_cons, admix_p_cons, IH. replace (0 * x + admix_p row s) with (admix_p row s) by ring. reflexivity. Qed.

Lemma admix_g_idmat ns : forall idx s, length idx = length ns -> length s = length ns ->
  admix_g (idmat (length ns)) ns idx s = gk ns idx s.
Proof. induction ns as [|n ns IH]; intros idx s Hi Hs; [reflexivity|].
  destruct idx as [|i idx]; try discriminate. destruct s as [|x s]; try discriminate.
  cbn [length idmat gk]. rewrite admix_g_cons, admix_g_shift, IH by (cbn in *; lia).
  rewrite admix_p_cons, admix_p_zeros. replace (1 * x + 0) with x by ring. reflexivity. Qed.

(** enumeration of the index tuples in C order *)
Lemma flat_map_grid (n m : nat) : flat_map (fun i => map (fun q => (i * m + q)%nat) (seq 0 m)) (seq 0 n) = seq 0 (n * m).
Proof. induction n; [reflexivity|]. rewrite seq_S, flat_map_app, IHn. cbn [flat_map Nat.add]. rewrite app_nil_r.
  replace (S n * m)%nat with (n * m + m)%nat by lia. rewrite seq_app. f_equal. cbn [Nat.add].
  rewrite <- seq_shift_n' || idtac. clear. generalize (n * m)%nat as a. intros a.
  apply nth_ext with (d := 0%nat) (d' := 0%nat); [rewrite map_length, !seq_length; reflexivity|].
  intros j Hj. rewrite map_length, seq_length in Hj. rewrite (nth_indep _ 0%nat ((fun q => (a + q)%nat) 0%nat)) by (rewrite map_length, seq_length; assumption).
  rewrite (map_nth (fun q => (a + q)%nat)), !seq_nth by assumption. lia. Qed.
Lemma pos_idxs ns : map (pos ns) (idxs ns) = seq 0 (prodl (map S ns)).
Proof. induction ns as [|n ns IH]; [reflexivity|]. cbn [idxs map prodl fold_right]. fold (prodl (map S ns)).
  rewrite <- flat_map_grid.
  rewrite flat_map_concat_map, concat_map, map_map, <- flat_map_concat_map. apply flat_map_ext. intros i.
  rewrite <- IH, !map_map. apply map_ext. intros idx. reflexivity. Qed.
Lemma idxs_le ns idx : In idx (idxs ns) -> Forall2 le idx ns.
Proof. revert idx. induction ns as [|n ns IH]; intros idx H.
  - cbn in H. destruct H as [<-|[]]. constructor.
  - cbn [idxs] in H. apply in_flat_map in H. destruct H as [i [Hi H]]. apply in_map_iff in H. destruct H as [idx' [<- H]].
    apply in_seq in Hi. constructor; [lia | apply IH; assumption]. Qed.
Lemma idxs_length ns idx : In idx (idxs ns) -> length idx = length ns.
Proof. intros H. apply idxs_le in H. induction H; cbn; congruence. Qed.

Theorem admix_identity_is_direct ns xxs shape phi :
  Forall2 (fun xx L => length xx = L) xxs shape -> length ns = length shape -> length phi = prodl shape ->
  admix_nd (idmat (length ns)) ns xxs shape phi = nd (direct_ops None ns xxs) shape phi.
Proof. intros HL Hn Hphi.
  assert (Hx : length xxs = length shape) by (clear -HL; induction HL; cbn; congruence).
  rewrite direct_ops_None. unfold admix_nd.
  set (l := nd (dops ns xxs) shape phi).
  assert (Ll : length l = prodl (map S ns)).
  { subst l. rewrite (nd_length _ _ _ (dops_ok ns xxs shape Hn Hx) Hphi). apply dops_outsize. lia. }
  transitivity (map (fun idx => nth (pos ns idx) l 0) (idxs ns)).
  - apply map_ext_in. intros idx Hin.
    rewrite (wint_separable xxs shape HL ns idx ltac:(lia) (idxs_le ns idx Hin) [] 1 _).
    + fold l. ring.
    + intros s Hs. cbn [app]. rewrite admix_g_idmat; [ring | apply idxs_length; assumption | lia].
    + assumption.
  - rewrite <- (map_map (pos ns) (fun a => nth a l 0)), pos_idxs, <- Ll. symmetry. apply nth_ext with (d := 0) (d' := 0).
    + rewrite map_length, seq_length. reflexivity.
    + intros j Hj. rewrite nth_map_seq by assumption. reflexivity. Qed.

(** ** small facts for Props/C05.v *)
Lemma betainc_sums n (x : R) :
  rsum (map (fun d => betainc_int (d + 1) (n - d + 1) x) (seq 0 (S n))) = INR (n + 1) * x /\
  rsum (map (fun d => INR (d + 1) * betainc_int (d + 2) (n - d + 1) x) (seq 0 (S n))) = INR (n + 2) * (INR (n + 2) - 1) / 2 * x * x.
Proof. split.
  - rewrite <- beta1_sum. apply rsum_map_ext. intros d Hd. apply in_seq in Hd. rewrite beta_col_nth by lia.
    unfold betainc_int. replace (d + 1 + (n - d + 1) - 1)%nat with (n + 1)%nat by lia. reflexivity.
  - pose proof (beta2_sum n x) as E. unfold ch2 in E. rewrite <- E. apply rsum_map_ext. intros d Hd. apply in_seq in Hd. rewrite beta_col_nth by lia.
    unfold betainc_int. replace (d + 2 + (n - d + 1) - 1)%nat with (n + 2)%nat by lia. replace (d + 1)%nat with (S d) by lia. reflexivity. Qed.

Lemma from_phi_5D_refused (o : @opts R) ns xxs L1 L2 L3 L4 L5 phi :
  (o_force o = true \/ o_het o <> None \/ o_admix o <> None) ->
  from_phi o ns xxs [L1; L2; L3; L4; L5] phi = None.
Proof. intros H. unfold from_phi.
  destruct (match o_admix o with Some A => negb (forallb (fun row => close1 (nsum row) n1) A) | None => false end); [reflexivity|].
  destruct (negb _); [reflexivity|].
  destruct (match o_het o with Some h => negb (h <? 3)%nat | None => false end); [reflexivity|].
  destruct (match o_admix o, o_het o with Some _, Some _ => true | _, _ => false end); [reflexivity|].
  cbn [length]. destruct (o_admix o), (o_het o), (o_force o); try reflexivity.
  exfalso. destruct H as [H|[H|H]]; congruence. Qed.

Lemma nonvacuous_example :
  rsum (analytic1D 2 [0; 1/2; 1] [4; 2; 1]) = 9/4 /\ @trapz R _ [0; 1/2; 1] [4; 2; 1] = 9/4 /\
  (exists fs, from_phi {| o_admix := None; o_het := None; o_force := false |} [2%nat] [[0; 1/2; 1]] [3%nat] [4; 2; 1] = Some fs /\ rsum fs = 9/4).
Proof. assert (T : @trapz R _ [0; 1/2; 1] [4; 2; 1] = 9/4) by (cbn [trapz]; unfold n2; numR; lra).
  assert (A : rsum (analytic1D 2 [0; 1/2; 1] [4; 2; 1]) = 9/4).
  { rewrite analytic1D_total, map_clip_id; [exact T|]. repeat constructor; lra. }
  split; [exact A|]. split; [exact T|]. eexists; split; [reflexivity | exact A]. Qed.
