(** * FastLnSpec: absolute error bound of the 96-bit table-driven logarithm [Qln_fast] of Model/QFast.v against the
    real logarithm.

    Qln_fast x (x = n/d > 0), V = 2^96:  e = log2 n - log2 d,  m = x / 2^e in (1/2, 2),  mf = floor(m V),
    k = floor(mf / 2^91) in 16..63 (k/32 <= mf/V < (k+1)/32),  c = (2k+1)/64,  r = floor(64 mf / (2k+1)) ~ V m/c,
    z = floor((r - V) V / (r + V))  (|z|/V <= 1/65 + tiny),
    A = z + sum_{i=1..8} floor(pw_i / (2i+1)),   result (2 A + table[k-16] + e fln2) / V,
    table[k-16] = floor(V Qln c) (160-bit Qln of Base/NumQ.v), fln2 = floor(V Qln2).
    Bound:  |Qln_fast x - ln x| <= (60 + |e|) 2^-96          (ABSOLUTE error; every positive rational)
      - 32: the 2 x 8 x 2 floors of the series (gatanh_inv), 2: the series remainder (atanh_remainder, |z|/V <= 1/50),
        24: the floors in mf, r and z (the reduced argument z/V is within 3/V below the ideal one; 8 = phi_perturb),
        2: the table entry (1 floor + the error of the 160-bit Qln), 1 per unit of |e|: |fln2/V - ln 2| <= 1/V.
    For 2^-195 <= x <= 2^195 this is <= 2^-88 (the accuracy claimed in the header of QFast.v). *)
From Coq Require Import ZArith QArith Qreduction Qabs Qreals Reals Lia Lra Psatz List.
From Interval Require Import Tactic.
From Dadi Require Import Base.Num Base.NumQ Proofs.QexpSpec Proofs.FixSeries Proofs.QlnSpec Model.QFast.
Local Open Scope R_scope.

(** ** the scale *)
Definition V : R := IZR ffp1.
Lemma ffp1_pos : (0 < ffp1)%Z. Proof. vm_compute. reflexivity. Qed.
Lemma ffp_nonneg : (0 <= ffp)%Z. Proof. unfold ffp. lia. Qed.
Lemma V_pos : 0 < V. Proof. apply IZR_lt, ffp1_pos. Qed.
Lemma V_val : V = 2 ^ 96. Proof. unfold V. rewrite pow_IZR. f_equal. Qed.
Lemma W_V : W ffp = V. Proof. reflexivity. Qed.
Lemma V_small : / V <= 1 / 1000000.
Proof. rewrite V_val. interval with (i_prec 120). Qed.

(** ** the loop of QFast is the generic loop at p = 96 *)
Lemma fatanh_fast_g : forall n k z2 pw acc, fatanh_fast n k z2 pw acc = gatanh ffp n k z2 pw acc.
Proof. induction n as [| n IH]; intros; cbn [fatanh_fast gatanh]; [reflexivity | apply IH]. Qed.

Lemma Q2R_of_ffix z : Q2R (of_ffix z) = IZR z / V.
Proof.
  unfold of_ffix. rewrite (Qeq_eqR _ _ (Qred_correct _)). unfold Q2R. cbn [Qnum Qden].
  rewrite (Z2Pos.id ffp1 ffp1_pos). reflexivity.
Qed.

Lemma to_ffix_R (m : Q) : Q2R m * V - 1 < IZR (to_ffix m) <= Q2R m * V.
Proof.
  unfold to_ffix. pose proof (Zdiv_R (Qnum m * ffp1) (Zpos (Qden m)) ltac:(lia)) as H.
  rewrite mult_IZR in H. fold V in H.
  replace (IZR (Qnum m) * V / IZR (Z.pos (Qden m))) with (Q2R m * V) in H by (unfold Q2R, Rdiv; ring).
  exact H.
Qed.

(** ** the constant ln 2 at 96 bits *)
Lemma ffln2_spec : Rabs (IZR QFast.fln2 / V - ln 2) <= 1 / V.
Proof. rewrite V_val. unfold QFast.fln2. interval with (i_prec 200). Qed.

(** ** the table *)
Lemma ln_table_eq :
  ln_table = map (fun k : nat => to_ffix (Qln ((2 * Z.of_nat k + 1) # 64))) (seq 16 48).
Proof. vm_compute. reflexivity. Qed.

Lemma ln_table_nth k : (16 <= k < 64)%Z ->
  nth (Z.to_nat (k - 16)) ln_table 0%Z = to_ffix (Qln ((2 * k + 1) # 64)).
Proof.
  intro Hk. rewrite ln_table_eq.
  set (f := fun k : nat => to_ffix (Qln ((2 * Z.of_nat k + 1) # 64))).
  rewrite nth_indep with (d' := f 0%nat) by (rewrite map_length, seq_length; lia).
  rewrite map_nth, seq_nth by lia. unfold f.
  replace (Z.of_nat (16 + Z.to_nat (k - 16))) with k by lia. reflexivity.
Qed.

Lemma floor_comb t y l w : 0 < w -> y * w - 1 < t <= y * w -> - / w <= y - l <= / w ->
  - (2 / w) <= t / w - l <= 2 / w.
Proof.
  intros Hw H1 H2.
  assert (H : - (1 / w) <= t / w - y <= 1 / w) by (apply div_bound; lra).
  unfold Rdiv in *. lra.
Qed.

Lemma table_entry k : (16 <= k < 64)%Z ->
  - (2 / V) <= IZR (to_ffix (Qln ((2 * k + 1) # 64))) / V - ln (IZR (2 * k + 1) / 64) <= 2 / V.
Proof.
  intro Hk. set (q := ((2 * k + 1) # 64)%Q).
  assert (Hq : (0 < Qnum q)%Z) by (unfold q; cbn [Qnum]; lia).
  assert (He : (Z.abs (Qln_e q) <= 1)%Z).
  { unfold Qln_e, q. cbn [Qnum Qden].
    change (Z.log2 (Z.pos 64)) with 6%Z.
    assert (H1 : (5 <= Z.log2 (2 * k + 1))%Z).
    { change 5%Z with (Z.log2 32). apply Z.log2_le_mono. lia. }
    assert (H2 : (Z.log2 (2 * k + 1) < 7)%Z).
    { apply Z.log2_lt_pow2; [lia |]. change (2 ^ 7)%Z with 128%Z. lia. }
    lia. }
  pose proof (Qln_spec_gen q Hq) as Hs. unfold eps_ln in Hs.
  assert (Ha : 0 <= IZR (Z.abs (Qln_e q)) <= 1).
  { split; apply IZR_le; [apply Z.abs_nonneg | exact He]. }
  set (a := IZR (Z.abs (Qln_e q))) in *. clearbody a.
  assert (Hn : 271 / 2 ^ 160 <= / V) by (rewrite V_val; interval with (i_prec 200)).
  assert (Hn' : (226 + 45 * a) / 2 ^ 160 <= 271 / 2 ^ 160).
  { unfold Rdiv. apply Rmult_le_compat_r; [left; apply Rinv_0_lt_compat, pow_lt; lra | lra]. }
  assert (Hs' : Rabs (Q2R (Qln q) - ln (Q2R q)) <= / V) by (eapply Rle_trans; [exact Hs | lra]).
  apply Rabs_le_iff in Hs'.
  assert (Eq : Q2R q = IZR (2 * k + 1) / 64) by reflexivity.
  rewrite Eq in Hs'.
  exact (floor_comb _ _ _ V V_pos (to_ffix_R (Qln q)) Hs').
Qed.

(** ** generic algebra *)
Lemma ln_div' x y : 0 < x -> 0 < y -> ln (x / y) = ln x - ln y.
Proof.
  intros Hx Hy. unfold Rdiv. rewrite ln_mult; [| exact Hx | apply Rinv_0_lt_compat, Hy].
  rewrite ln_Rinv by exact Hy. ring.
Qed.

Lemma assemble_fast a P L M w : - (16 / w) <= a / w - P <= 16 / w -> - / w <= L / 2 - P <= / w ->
  0 <= M - L <= 24 * / w -> - (58 / w) <= 2 * a / w - M <= 58 / w.
Proof.
  intros H1 H2 H3. unfold Rdiv in *. set (x := a * / w) in *.
  replace (2 * a * / w) with (2 * x) by (unfold x; ring). lra.
Qed.

Lemma ln_assemble_fast s t e f w lm lc l2 c1 c2 c3 : 0 < w ->
  - (c1 / w) <= s / w - (lm - lc) <= c1 / w -> - (c2 / w) <= t / w - lc <= c2 / w ->
  Rabs (f / w - l2) <= c3 / w ->
  Rabs ((s + t + e * f) / w - (lm + e * l2)) <= (c1 + c2 + c3 * Rabs e) / w.
Proof.
  intros Hw H1 H2 H3. apply ln_assemble; [exact Hw | | exact H3].
  unfold Rdiv in *. split; lra.
Qed.

(** quotient of two nearby positive numbers *)
Lemma quot_bounds m' mR c iv : 33 / 64 <= c <= 127 / 64 -> c - 1 / 64 <= m' < c + 1 / 64 ->
  0 < iv -> mR - iv < m' <= mR ->
  32 / 33 <= m' / c <= 34 / 33 /\ 0 <= mR / c - m' / c <= 2 * iv.
Proof.
  intros Hc Hm Hiv HmR.
  assert (Hic : 0 < / c <= 64 / 33).
  { split; [apply Rinv_0_lt_compat; lra |]. replace (64 / 33) with (/ (33 / 64)) by field.
    apply Rinv_le_contravar; lra. }
  assert (Hcic : c * / c = 1) by (apply Rinv_r; lra).
  unfold Rdiv. set (ic := / c) in *. clearbody ic.
  assert (E1 : m' * ic - 1 = (m' - c) * ic) by (ring_simplify; nra).
  assert (E2 : mR * ic - m' * ic = (mR - m') * ic) by ring.
  split; split; nra.
Qed.

(** z = (rho - 1)/(rho + 1) under a perturbation of rho near 1 *)
Lemma zeta_perturb rho rR iv : 32 / 33 <= rho <= 26 / 25 -> 0 <= rho - rR <= 3 * iv -> 0 <= iv <= 1 / 1000000 ->
  let zs := (rho - 1) / (rho + 1) in let z' := (rR - 1) / (rR + 1) in
  0 <= zs - z' <= 2 * iv /\ - (1 / 60) <= zs <= 1 / 50 /\ rho = (1 + zs) / (1 - zs).
Proof.
  intros Hrho Hd Hiv zs z'.
  assert (E : zs - z' = 2 * (rho - rR) / ((rho + 1) * (rR + 1))) by (unfold zs, z'; field; split; lra).
  assert (Hden : 3 <= (rho + 1) * (rR + 1)) by nra.
  assert (Hi : 0 < / ((rho + 1) * (rR + 1)) <= / 3).
  { split; [apply Rinv_0_lt_compat; lra | apply Rinv_le_contravar; lra]. }
  split; [| split].
  - rewrite E. unfold Rdiv. set (t := / ((rho + 1) * (rR + 1))) in *. clearbody t. split; nra.
  - unfold zs. split.
    + apply Rmult_le_reg_r with (rho + 1); [lra |]. unfold Rdiv. rewrite Rmult_assoc, Rinv_l by lra. lra.
    + apply Rmult_le_reg_r with (rho + 1); [lra |]. unfold Rdiv. rewrite Rmult_assoc, Rinv_l by lra. lra.
  - unfold zs. field. lra.
Qed.

(** floor of a quotient, scaled *)
Lemma scaled_floor t q w : 0 < w -> q * w - 1 < t <= q * w -> q - / w < t / w <= q.
Proof.
  intros Hw H. assert (Hi : 0 < / w) by (apply Rinv_0_lt_compat, Hw).
  assert (E : w * / w = 1) by (apply Rinv_r; lra). unfold Rdiv.
  assert (E2 : q * w * / w = q) by (rewrite Rmult_assoc, E; ring).
  assert (H1 : (q * w - 1) * / w < t * / w) by (apply Rmult_lt_compat_r; lra).
  assert (H2 : t * / w <= q * w * / w) by (apply Rmult_le_compat_r; lra).
  split; lra.
Qed.

(** ** the core: from the reduced argument to the series, on the fixed-point integers *)
Lemma fast_core : forall (mf : Z) (mR : R), 1 / 2 < mR < 2 -> mR * V - 1 < IZR mf <= mR * V ->
  let k := Z.shiftr mf (ffp - 5) in
  let r := (mf * 64 / (2 * k + 1))%Z in
  let z := ((r - ffp1) * ffp1 / (r + ffp1))%Z in
  (16 <= k < 64)%Z /\
  - (58 / V) <= IZR (2 * fatanh_fast 8 1 (ffmul z z) z z) / V - (ln mR - ln (IZR (2 * k + 1) / 64)) <= 58 / V.
Proof.
  intros mf mR HmR Hmf k r z. pose proof V_pos as HV. pose proof V_small as HVs.
  assert (HiV : 0 < / V) by (apply Rinv_0_lt_compat, HV).
  assert (HVV : V * / V = 1) by (apply Rinv_r; lra).
  (* k *)
  assert (Ek : k = (mf / 2 ^ 91)%Z).
  { unfold k. rewrite Z.shiftr_div_pow2 by (unfold ffp; lia). reflexivity. }
  assert (HV32 : ffp1 = (32 * 2 ^ 91)%Z) by (vm_compute; reflexivity).
  set (P := (2 ^ 91)%Z) in *.
  assert (HP : (0 < P)%Z) by (unfold P; apply Z.pow_pos_nonneg; lia).
  clearbody P.
  assert (HVp : V = 32 * IZR P) by (unfold V; rewrite HV32, mult_IZR; reflexivity).
  assert (Hp : 0 < IZR P) by (apply IZR_lt, HP).
  assert (Hmf1 : (16 * P <= mf)%Z).
  { assert (H : (16 * P - 1 < mf)%Z); [| lia].
    apply lt_IZR. rewrite minus_IZR, mult_IZR. nra. }
  assert (Hmf2 : (mf < 64 * P)%Z).
  { apply lt_IZR. rewrite mult_IZR. nra. }
  pose proof (Z.mul_div_le mf P HP) as Hk1. pose proof (Z.mul_succ_div_gt mf P HP) as Hk2.
  rewrite <- Ek in Hk1, Hk2. clearbody k.
  assert (Hk : (16 <= k < 64)%Z) by nia.
  split; [exact Hk |].
  (* reals *)
  set (m' := IZR mf / V).
  assert (Hm' : mR - / V < m' <= mR) by (apply scaled_floor; assumption).
  assert (Emf : IZR mf = m' * V) by (unfold m'; field; lra).
  apply IZR_le in Hk1. apply IZR_lt in Hk2. unfold Z.succ in Hk2.
  rewrite mult_IZR in Hk1, Hk2. rewrite plus_IZR in Hk2. rewrite Emf, HVp in Hk1, Hk2.
  assert (HkR : 16 <= IZR k <= 63) by (split; apply IZR_le; lia).
  rewrite plus_IZR, mult_IZR.
  set (kR := IZR k) in *.
  set (c := (2 * kR + 1) / 64).
  assert (Hc : 33 / 64 <= c <= 127 / 64) by (unfold c; lra).
  assert (Hmc : c - 1 / 64 <= m' < c + 1 / 64) by (unfold c; split; nra).
  destruct (quot_bounds m' mR c (/ V) Hc Hmc HiV Hm') as [Hq1 Hq2].
  (* r *)
  assert (H2k : (0 < 2 * k + 1)%Z) by lia.
  pose proof (Zdiv_R (mf * 64) (2 * k + 1) H2k) as Hr. fold r in Hr. clearbody r.
  rewrite !mult_IZR, plus_IZR, mult_IZR in Hr. fold kR in Hr. rewrite Emf in Hr.
  replace (m' * V * 64 / (2 * kR + 1)) with (m' / c * V) in Hr by (unfold c; field; lra).
  set (q' := m' / c) in *. set (rho := mR / c) in *.
  set (rR := IZR r / V).
  assert (HrR : q' - / V < rR <= q') by (apply scaled_floor; assumption).
  assert (Er : IZR r = rR * V) by (unfold rR; field; lra).
  assert (Hrho : 32 / 33 <= rho <= 26 / 25) by lra.
  assert (Hd : 0 <= rho - rR <= 3 * / V) by lra.
  (* z *)
  assert (HB : (0 < r + ffp1)%Z).
  { apply lt_IZR. rewrite plus_IZR. fold V. nra. }
  pose proof (Zdiv_R ((r - ffp1) * ffp1) (r + ffp1) HB) as Hz. fold z in Hz. clearbody z.
  rewrite mult_IZR, minus_IZR, plus_IZR in Hz. fold V in Hz. rewrite Er in Hz.
  set (z' := (rR - 1) / (rR + 1)).
  assert (Ez' : (rR * V - V) * V / (rR * V + V) = z' * V) by (unfold z'; field; repeat split; nra).
  rewrite Ez' in Hz.
  set (zR := IZR z / V).
  assert (HzR : z' - / V < zR <= z') by (apply scaled_floor; assumption).
  assert (EzR : IZR z = zR * V) by (unfold zR; field; lra).
  destruct (zeta_perturb rho rR (/ V) Hrho Hd ltac:(lra)) as [Hd1 [Hzs Erho]].
  fold z' in Hd1. set (zs := (rho - 1) / (rho + 1)) in *.
  assert (Hdelta : zs - 3 * / V <= zR <= zs) by lra.
  assert (HzR50 : - (1 / 50) <= zR <= 1 / 50) by lra.
  (* the series *)
  rewrite fatanh_fast_g. change (ffmul z z) with (gmul ffp z z).
  set (z2 := gmul ffp z z).
  pose proof (gmul_R ffp ffp_nonneg z z) as Hz2. fold z2 in Hz2. rewrite W_V in Hz2.
  assert (Hz2' : zR * zR - / V <= IZR z2 / V <= zR * zR).
  { rewrite EzR in Hz2. replace (zR * V * (zR * V) / V) with (zR * zR * V) in Hz2 by (field; lra).
    assert (H := scaled_floor (IZR z2) (zR * zR) V HV Hz2). lra. }
  assert (Hz20 : 0 <= IZR z2 / V).
  { apply Rmult_le_pos; [| lra]. apply IZR_le. unfold z2, gmul. apply Z.shiftr_nonneg. nia. }
  pose proof (gatanh_inv ffp ffp_nonneg 8 1 z2 z z (zR * zR) (IZR z) (IZR z) 0 0) as HA.
  rewrite W_V in HA.
  assert (HA' : - (0 + 2 * INR 8) <= IZR (gatanh ffp 8 1 z2 z z) - Ratanh 8 1 (zR * zR) (IZR z) (IZR z) <= 0 + 2 * INR 8).
  { apply HA; try lra; try lia.
    - nra.
    - rewrite EzR. nra. }
  clear HA. replace (INR 8) with 8 in HA' by (rewrite INR_IZR_INZ; reflexivity).
  set (A := gatanh ffp 8 1 z2 z z) in *. clearbody A.
  assert (Esc : Ratanh 8 1 (zR * zR) (IZR z) (IZR z) = V * atanh_poly 8 zR).
  { rewrite EzR. replace (zR * V) with (V * zR) by ring. rewrite Ratanh_scale, Ratanh_poly. reflexivity. }
  rewrite Esc in HA'.
  (* remainder *)
  assert (Hnum : 1 / 50 * (1 / 50 * (1 / 50)) ^ 9 / (1 - 1 / 50 * (1 / 50)) <= / V).
  { rewrite V_val. interval with (i_prec 200). }
  assert (Hrem : Rabs (atanh_rem 8 zR) <= / V).
  { eapply Rle_trans; [apply (atanh_remainder 8 zR (1 / 50)); [lra | exact HzR50] | exact Hnum]. }
  clear Hnum.
  apply Rabs_le_iff in Hrem. unfold atanh_rem in Hrem.
  rewrite ln_ratio in Hrem by lra.
  set (L := ln ((1 + zR) / (1 - zR))) in *.
  (* perturbation of the argument *)
  pose proof (phi_perturb zR zs ltac:(lra) ltac:(lra) ltac:(lra)) as Hphi.
  rewrite <- Erho in Hphi. fold L in Hphi.
  assert (Elr : ln rho = ln mR - ln c) by (unfold rho; apply ln_div'; lra).
  rewrite Elr in Hphi.
  (* assembly *)
  rewrite mult_IZR. fold c.
  set (P8 := atanh_poly 8 zR) in *.
  assert (HAV : - (16 / V) <= IZR A / V - P8 <= 16 / V) by (apply div_bound; lra).
  assert (Hrem' : - / V <= L / 2 - P8 <= / V) by lra.
  assert (Hphi' : 0 <= (ln mR - ln c) - L <= 24 * / V) by lra.
  exact (assemble_fast (IZR A) P8 L (ln mR - ln c) V HAV Hrem' Hphi').
Qed.

(** ** the reduced mantissa *)
Lemma mf_R n d e : (0 < d)%Z ->
  let mf := (if (0 <=? e)%Z then n * ffp1 / (d * 2 ^ e) else n * 2 ^ (- e) * ffp1 / d)%Z in
  let mR := IZR n / IZR d * powerRZ 2 (- e) in
  mR * V - 1 < IZR mf <= mR * V.
Proof.
  intros Hd mf mR. assert (Hd' : 0 < IZR d) by (apply IZR_lt, Hd).
  unfold mf, mR. destruct (Z.leb_spec 0 e) as [He | He].
  - assert (H2 : (0 < 2 ^ e)%Z) by (apply Z.pow_pos_nonneg; lia).
    pose proof (Zdiv_R (n * ffp1) (d * 2 ^ e) ltac:(nia)) as H.
    rewrite !mult_IZR in H. fold V in H.
    rewrite powerRZ_neg', (powerRZ2_IZR e He).
    apply IZR_lt in H2. set (t := IZR (2 ^ e)) in *. clearbody t.
    replace (IZR n / IZR d * / t * V) with (IZR n * V / (IZR d * t)) by (field; split; lra).
    exact H.
  - assert (H2 : (0 < 2 ^ (- e))%Z) by (apply Z.pow_pos_nonneg; lia).
    pose proof (Zdiv_R (n * 2 ^ (- e) * ffp1) d Hd) as H.
    rewrite !mult_IZR in H. fold V in H.
    rewrite (powerRZ2_IZR (- e)) by lia.
    set (t := IZR (2 ^ (- e))) in *. clearbody t.
    replace (IZR n / IZR d * t * V) with (IZR n * t * V / IZR d) by (field; lra).
    exact H.
Qed.

Lemma Qln_fast_unfold x : (0 < Qnum x)%Z -> Qln_fast x = of_ffix (fln_fast (Qnum x) (Qden x)).
Proof. intro Hx. unfold Qln_fast. destruct (Qnum x) as [| q | q] eqn:E; try lia. reflexivity. Qed.

(** ** the theorems *)
Theorem Qln_fast_spec_gen : forall x : Q, (0 < Qnum x)%Z ->
  Rabs (Q2R (Qln_fast x) - ln (Q2R x)) <= (60 + 1 * IZR (Z.abs (Qln_e x))) / 2 ^ 96.
Proof.
  intros x Hx. pose proof V_pos as HV.
  rewrite (Qln_fast_unfold x Hx), Q2R_of_ffix.
  set (d := Zpos (Qden x)). assert (Hd : (0 < d)%Z) by (unfold d; lia).
  destruct (reduce_R (Qnum x) d Hx Hd) as [Hm Hln]. cbv zeta in Hm, Hln.
  change (Z.log2 (Qnum x) - Z.log2 d)%Z with (Qln_e x) in Hm, Hln.
  assert (Ex : IZR (Qnum x) / IZR d = Q2R x) by reflexivity.
  pose proof (mf_R (Qnum x) d (Qln_e x) Hd) as Hmf. cbv zeta in Hmf.
  unfold fln_fast. cbv zeta. fold d.
  change (Z.log2 (Qnum x) - Z.log2 d)%Z with (Qln_e x).
  set (e := Qln_e x) in *.
  set (mf := (if (0 <=? e)%Z then Qnum x * ffp1 / (d * 2 ^ e) else Qnum x * 2 ^ (- e) * ffp1 / d)%Z) in *.
  clearbody mf.
  set (mR := IZR (Qnum x) / IZR d * powerRZ 2 (- e)) in *.
  destruct (fast_core mf mR Hm Hmf) as [Hk Hc]. cbv zeta in Hk, Hc.
  set (k := Z.shiftr mf (ffp - 5)) in *. clearbody k.
  set (r := (mf * 64 / (2 * k + 1))%Z) in *. clearbody r.
  set (z := ((r - ffp1) * ffp1 / (r + ffp1))%Z) in *. clearbody z.
  rewrite (ln_table_nth k Hk).
  pose proof (table_entry k Hk) as Ht.
  set (T := to_ffix (Qln ((2 * k + 1) # 64))) in *. clearbody T.
  set (S2 := (2 * fatanh_fast 8 1 (ffmul z z) z z)%Z) in *. clearbody S2.
  rewrite !plus_IZR, mult_IZR, <- Ex, Hln.
  rewrite <- V_val, abs_IZR.
  replace (60 + 1 * Rabs (IZR e)) with (58 + 2 + 1 * Rabs (IZR e)) by ring.
  apply ln_assemble_fast with (lc := ln (IZR (2 * k + 1) / 64)); [exact HV | exact Hc | exact Ht | exact ffln2_spec].
Qed.

(** every range 2^-B .. 2^B with B <= 195 gives 2^-88 *)
Theorem Qln_fast_spec_B : forall (B : Z) (x : Q), (0 <= B <= 195)%Z ->
  (/ inject_Z (2 ^ B) <= x)%Q -> (x <= inject_Z (2 ^ B))%Q ->
  Rabs (Q2R (Qln_fast x) - ln (Q2R x)) <= / 2 ^ 88.
Proof.
  intros B x HB Hlo Hhi. destruct (Qln_e_bound x B ltac:(lia) Hlo Hhi) as [Hn He].
  eapply Rle_trans; [apply (Qln_fast_spec_gen x Hn) |].
  assert (He' : (Z.abs (Qln_e x) <= 196)%Z) by lia.
  apply IZR_le in He'. set (a := IZR (Z.abs (Qln_e x))) in *. clearbody a.
  assert (H : (60 + 1 * 196) / 2 ^ 96 <= / 2 ^ 88) by lra.
  eapply Rle_trans; [| exact H]. unfold Rdiv. apply Rmult_le_compat_r; [| lra].
  left. apply Rinv_0_lt_compat, pow_lt. lra.
Qed.

Theorem Qln_fast_spec : forall x : Q, (/ inject_Z (2 ^ 195) <= x)%Q -> (x <= inject_Z (2 ^ 195))%Q ->
  Rabs (Q2R (Qln_fast x) - ln (Q2R x)) <= / 2 ^ 88.
Proof. intros x. apply (Qln_fast_spec_B 195 x). lia. Qed.

Theorem Qln_fast_spec_64 : forall x : Q, (/ inject_Z (2 ^ 64) <= x)%Q -> (x <= inject_Z (2 ^ 64))%Q ->
  Rabs (Q2R (Qln_fast x) - ln (Q2R x)) <= / 2 ^ 88.
Proof. intros x. apply (Qln_fast_spec_B 64 x). lia. Qed.

(** the model's totalisation *)
Lemma Qln_fast_nonpos x : (Qnum x <= 0)%Z -> Qln_fast x = 0%Q.
Proof. intro H. unfold Qln_fast. destruct (Qnum x); try reflexivity. lia. Qed.
