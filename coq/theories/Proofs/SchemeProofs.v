(** Line-level facts about the implicit scheme: the executable (tabulated) rows are the
    specification rows; every row is the conservative flux form; the result of a step solves it. *)
From Coq Require Import Reals List Lra Lia Arith Bool.
From Dadi Require Import Base.Num Base.NumR Model.Tridiag Model.Scheme Proofs.TridiagProofs.
Import ListNotations.
Local Open Scope R_scope.

(** ** tabulation *)
Lemma nth_map_seq {A} (f : nat -> A) (d : A) : forall n s i, (i < n)%nat -> nth i (map f (seq s n)) d = f (s + i)%nat.
Proof.
  induction n as [|n IH]; intros s i Hi; [lia|].
  cbn [seq map]. destruct i as [|i]; cbn [nth]; [f_equal; lia|].
  rewrite IH by lia. f_equal. lia.
Qed.
Lemma tab_eq (n : nat) (f : nat -> R) i : (i < n)%nat -> tab n f i = f i.
Proof. intros Hi. unfold tab. rewrite nth_map_seq by exact Hi. reflexivity. Qed.

Section Line.
  Variable xs : list R.
  Variable Vf Mf : R -> R.
  Variable nu : R.
  Variable c0 c1 : bool.
  Variable dt : R.
  Variable use_delj : bool.
  Notation N := (length xs).
  Hypothesis HN : (2 <= N)%nat.

  Notation dx := (dx xs). Notation x := (x xs). Notation xint := (xint xs).
  Notation dfactor := (dfactor xs).
  Notation delj := (delj xs Vf Mf use_delj).
  Notation atemp := (atemp xs Vf Mf use_delj).
  Notation ctemp := (ctemp xs Vf Mf use_delj).
  Notation coef_a := (coef_a xs Vf Mf use_delj).
  Notation coef_b := (coef_b xs Vf Mf nu c0 c1 dt use_delj).
  Notation coef_b0 := (coef_b0 xs Vf Mf nu c0 c1 use_delj).
  Notation coef_c := (coef_c xs Vf Mf use_delj).
  Notation bc0 := (bc0 xs Mf nu c0).
  Notation bc1 := (bc1 xs Mf nu c1).

  (** the tabulated executable rows equal the specification rows *)
  Lemma line_rows_eq_spec (phi : list R) :
    line_rows xs Vf Mf nu c0 c1 dt use_delj phi = line_rows_spec xs Vf Mf nu c0 c1 dt use_delj phi.
  Proof.
    unfold line_rows, line_rows_spec. fold (Scheme.N xs). unfold Scheme.N.
    apply map_ext_in. intros i Hi. apply in_seq in Hi. cbn [plus] in Hi.
    assert (Hdj : forall j, (j < N - 1)%nat ->
      tab (N - 1) (fun i0 : nat =>
         if use_delj then
           let wj := (n2 * tab (N - 1) (fun i1 => Mf (tab (N - 1) xint i1)) i0 * tab (N - 1) dx i0)%num in
           let vi := tab (N - 1) (fun i1 => Vf (tab (N - 1) xint i1)) i0 in
           let epsj := nexp (wj / vi)%num in
           if negb (epsj =? n1)%num && negb (wj =? n0)%num
           then ((- (epsj * wj) + epsj * vi - vi) / (wj - epsj * wj))%num else nhalf
         else nhalf) j = delj j).
    { intros j Hj. rewrite tab_eq by exact Hj. unfold Scheme.delj. rewrite !tab_eq by exact Hj. reflexivity. }
    assert (Hat : forall j, (j < N - 1)%nat -> forall T, T = atemp j -> T = atemp j) by auto.
    unfold Scheme.coef_a, Scheme.coef_b, Scheme.coef_b0, Scheme.coef_c, Scheme.atemp, Scheme.ctemp, Scheme.dfactor.
    fold (Scheme.N xs). unfold Scheme.N.
    destruct Hi as [_ Hi].
    rewrite (tab_eq N) by exact Hi.
    repeat match goal with
    | |- context [Nat.eqb ?a ?b] => destruct (Nat.eqb_spec a b)
    | |- context [Nat.ltb ?a ?b] => destruct (Nat.ltb_spec a b)
    end; try lia;
    repeat (rewrite ?Hdj by lia; rewrite ?(tab_eq (N - 1)) by lia; rewrite ?(tab_eq N) by lia);
    reflexivity.
  Qed.

  (** ** every row is the conservative flux form of the documented scheme *)
  Definition flux (u : nat -> R) (i : nat) : R := atemp i * u i - ctemp i * u (S i).
  Definition fluxR (u : nat -> R) (i : nat) : R := if Nat.ltb i (N - 1) then flux u i else 0.       (* F_{i+1/2}, 0 at the last point *)
  Definition fluxL (u : nat -> R) (i : nat) : R := if Nat.ltb 0 i then flux u (i - 1) else 0.       (* F_{i-1/2}, 0 at the first point *)
  Definition bcterm (i : nat) : R := (if Nat.eqb i 0 then bc0 else 0) + (if Nat.eqb i (N - 1) then bc1 else 0).

  Lemma row_is_flux_form (u : nat -> R) i : (i < N)%nat ->
    coef_a i * u (i - 1)%nat + coef_b i * u i + coef_c i * u (S i) =
    u i / dt + dfactor i * (fluxR u i - fluxL u i) + bcterm i * u i.
  Proof.
    intros Hi. unfold Scheme.coef_a, Scheme.coef_b, Scheme.coef_b0, Scheme.coef_c, fluxR, fluxL, flux, bcterm.
    fold (Scheme.N xs). unfold Scheme.N. numR.
    destruct (Nat.eqb_spec i 0) as [E0|E0]; destruct (Nat.eqb_spec i (N - 1)) as [E1|E1];
    destruct (Nat.ltb_spec i (N - 1)); destruct (Nat.ltb_spec 0 i); try lia; unfold Rdiv;
    try (replace (S (i - 1)) with i by lia); ring.
  Qed.
End Line.

(** ** from the list-shaped system to index-wise equations *)
Lemma eqs_nth : forall rows xprev xs, eqs xprev rows xs ->
  length xs = length rows /\
  forall i, (i < length rows)%nat ->
    let '(a, b, c, r) := nth i rows (0, 0, 0, 0) in
    a * (match i with O => xprev | S j => nth j xs 0 end) + b * nth i xs 0 + c * nth (S i) xs 0 = r.
Proof.
  induction rows as [|[[[a b] c] r] t IH]; intros xprev xs He.
  - destruct xs; [|contradiction]. split; [reflexivity|]. intros i Hi. cbn in Hi. lia.
  - destruct xs as [|x xt]; [contradiction|]. cbn [eqs] in He. destruct He as [He1 He].
    destruct (IH x xt He) as [Hl Hn]. split; [cbn; now rewrite Hl|].
    intros [|i] Hi.
    + cbn [nth]. destruct xt; exact He1.
    + cbn [length] in Hi. specialize (Hn i ltac:(lia)). cbn [nth].
      destruct (nth i t (0, 0, 0, 0)) as [[[a' b'] c'] r']. destruct i; exact Hn.
Qed.

Lemma eqs_top_nth : forall rows xs, eqs_top rows xs ->
  length xs = length rows /\
  forall i, (i < length rows)%nat ->
    let '(a, b, c, r) := nth i rows (0, 0, 0, 0) in
    (match i with O => 0 | S j => a * nth j xs 0 end) + b * nth i xs 0 + c * nth (S i) xs 0 = r.
Proof.
  intros [|[[[a b] c] r] t] xs He.
  - destruct xs; [|contradiction]. split; [reflexivity|]. intros i Hi. cbn in Hi. lia.
  - destruct xs as [|x xt]; [contradiction|]. cbn [eqs_top] in He. destruct He as [He1 He].
    destruct (eqs_nth t x xt He) as [Hl Hn]. split; [cbn; now rewrite Hl|].
    intros [|i] Hi.
    + cbn [nth]. destruct xt; cbn [hd nth] in *; lra.
    + cbn [length] in Hi. specialize (Hn i ltac:(lia)). cbn [nth].
      destruct (nth i t (0, 0, 0, 0)) as [[[a' b'] c'] r']. destruct i; exact Hn.
Qed.

(** ** one implicit step along a line solves the documented system *)
Section Step.
  Variable xs : list R.
  Variable Vf Mf : R -> R.
  Variable nu : R.
  Variable c0 c1 : bool.
  Variable dt : R.
  Variable use_delj : bool.
  Hypothesis HN : (2 <= length xs)%nat.

  Theorem line_solve_solves (phi : list R) :
    nonzero (all_pivots (line_rows xs Vf Mf nu c0 c1 dt use_delj phi)) ->
    let u := line_solve xs Vf Mf nu c0 c1 dt use_delj phi in
    length u = length xs /\
    forall i, (i < length xs)%nat ->
      nthF u i / dt
      + dfactor xs i * (fluxR xs Vf Mf use_delj (nthF u) i - fluxL xs Vf Mf use_delj (nthF u) i)
      + bcterm xs Mf nu c0 c1 i * nthF u i
      = nthF phi i / dt.
  Proof.
    intros Hp u. unfold line_solve in u.
    pose proof (thomas_solves _ Hp) as [He Hlen].
    destruct (eqs_top_nth _ _ He) as [Hl Hn]. fold u in Hl, Hn, Hlen.
    assert (Hrl : length (line_rows xs Vf Mf nu c0 c1 dt use_delj phi) = length xs).
    { unfold line_rows. rewrite map_length, seq_length. reflexivity. }
    split; [rewrite Hlen; exact Hrl|].
    intros i Hi. specialize (Hn i ltac:(rewrite Hrl; exact Hi)).
    rewrite line_rows_eq_spec in Hn by exact HN.
    unfold line_rows_spec in Hn. fold (Scheme.N xs) in Hn. unfold Scheme.N in Hn.
    rewrite nth_map_seq in Hn by exact Hi. cbn [plus] in Hn. numR.
    rewrite <- (row_is_flux_form xs Vf Mf nu c0 c1 dt use_delj HN (nthF u) i Hi).
    rewrite <- Hn. unfold nthF. numR.
    destruct i as [|j].
    - unfold Scheme.coef_a. cbn [Nat.eqb]. numR. ring.
    - replace (S j - 1)%nat with j by lia. ring.
  Qed.
End Step.
