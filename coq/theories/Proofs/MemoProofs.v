(** C20 — memoisation is transparent exactly when the key determines the value. *)
From Coq Require Import List ZArith Bool Arith Lia Permutation.
From Dadi Require Import Model.Memo.
Import ListNotations.

Section MemoProofs.
  Variables call K result : Type.
  Variable key : call -> K.
  Variable Kdec : forall a b : K, {a = b} + {a <> b}.
  Variable f : call -> result.

  Notation stp := (step key Kdec f).
  Notation rn := (run key Kdec f).
  Notation ok := (cache_ok key Kdec f).

  Lemma lookup_some_in : forall k (c : cache K result) r, lookup Kdec k c = Some r -> In (k, r) c.
  Proof.
    induction c as [|[k' r'] c IH]; simpl; intros r H; [discriminate|].
    destruct (Kdec k k') as [->|N].
    - injection H as <-. now left.
    - right. now apply IH.
  Qed.

  Lemma lookup_none_notin : forall k (c : cache K result), lookup Kdec k c = None -> ~ In k (keys_of c).
  Proof.
    induction c as [|[k' r'] c IH]; simpl; intros H; [tauto|].
    destruct (Kdec k k') as [->|N]; [discriminate|].
    intros [E|I]; [congruence | now apply IH].
  Qed.

  Lemma ok_nil : ok [].
  Proof. intros x r H. discriminate H. Qed.

  Lemma step_ok : key_complete key f -> forall c x, ok c ->
    snd (stp c x) = f x /\ ok (fst (stp c x)).
  Proof.
    intros KC c x OK. unfold step. destruct (lookup Kdec (key x) c) as [r|] eqn:E; simpl.
    - split; [now apply OK | exact OK].
    - split; [reflexivity|]. intros y r. simpl.
      destruct (Kdec (key y) (key x)) as [e|n].
      + intros H. injection H as <-. apply KC. now symmetry.
      + apply OK.
  Qed.

  Lemma run_ok : key_complete key f -> forall h c, ok c ->
    snd (rn c h) = map f h /\ ok (fst (rn c h)).
  Proof.
    intros KC. induction h as [|x h IH]; intros c OK; simpl; [now split|].
    destruct (step_ok KC c x OK) as [E1 OK1].
    destruct (stp c x) as [c1 r] eqn:S1. simpl in E1, OK1.
    destruct (IH c1 OK1) as [E2 OK2].
    destruct (rn c1 h) as [c2 rs]. simpl in *. split; [now rewrite E1, E2 | exact OK2].
  Qed.

  (** THE transparency theorem: for every history, every result is [f] of its call *)
  Theorem memo_transparent : key_complete key f -> forall h, results key Kdec f h = map f h.
  Proof. intros KC h. exact (proj1 (run_ok KC h [] ok_nil)). Qed.

  Corollary memo_transparent_pointwise : key_complete key f -> forall h n x,
    nth_error h n = Some x -> nth_error (results key Kdec f h) n = Some (f x).
  Proof. intros KC h n x H. rewrite (memo_transparent KC). now apply map_nth_error. Qed.

  (** started from any cache that satisfies the invariant (calls made earlier in the process) *)
  Corollary memo_transparent_from : key_complete key f -> forall c h, ok c -> snd (rn c h) = map f h.
  Proof. intros KC c h OK. exact (proj1 (run_ok KC h c OK)). Qed.

  (** what the dictionary holds: only pairs (key x, f x) of calls that were made, whatever the key is *)
  Lemma step_entries : forall c x e, In e (fst (stp c x)) -> In e c \/ e = (key x, f x).
  Proof.
    intros c x e. unfold step. destruct (lookup Kdec (key x) c); simpl; [tauto|].
    intros [E2|I]; [right; now symmetry | now left].
  Qed.

  Lemma run_entries : forall h c e, In e (fst (rn c h)) -> In e c \/ exists x, In x h /\ e = (key x, f x).
  Proof.
    induction h as [|x h IH]; intros c e; simpl; [tauto|].
    destruct (stp c x) as [c1 r] eqn:S1. specialize (IH c1 e).
    destruct (rn c1 h) as [c2 rs]. simpl in *. intros I.
    destruct (IH I) as [I1|[y [Iy E]]].
    - pose proof (step_entries c x e) as SE. rewrite S1 in SE. destruct (SE I1) as [I2|E2]; [now left|]. subst e.
      right. exists x. split; [now left | reflexivity].
    - right. exists y. split; [now right | exact E].
  Qed.

  Theorem cache_entries_are_key_f : forall h e, In e (fst (rn [] h)) -> exists x, In x h /\ e = (key x, f x).
  Proof. intros h e I. destruct (run_entries h [] e I) as [[]|H]; exact H. Qed.

  (** the key set after a history = the keys of the calls made (what the harness compares with the real dictionary) *)
  Lemma step_keys : forall c x k, In k (keys_of (fst (stp c x))) <-> In k (keys_of c) \/ k = key x.
  Proof.
    intros c x k. unfold step. destruct (lookup Kdec (key x) c) as [r|] eqn:E; simpl.
    - split; [tauto|]. intros [I|E2]; [exact I|]. subst k.
      apply lookup_some_in in E. unfold keys_of. apply in_map_iff. now exists (key x, r).
    - split; [intros [E2|I]; [right; now symmetry | now left] | intros [I|E2]; [now right | left; now symmetry]].
  Qed.

  Theorem run_keys : forall h c k, In k (keys_of (fst (rn c h))) <-> In k (keys_of c) \/ In k (map key h).
  Proof.
    induction h as [|x h IH]; intros c k; simpl; [tauto|].
    pose proof (step_keys c x k) as SK.
    destruct (stp c x) as [c1 r]. specialize (IH c1 k). destruct (rn c1 h) as [c2 rs]. simpl in *.
    rewrite IH, SK. intuition (subst; auto).
  Qed.

  Lemma step_keys_nodup : forall c x, NoDup (keys_of c) -> NoDup (keys_of (fst (stp c x))).
  Proof.
    intros c x ND. unfold step. destruct (lookup Kdec (key x) c) eqn:E; simpl; [exact ND|].
    constructor; [now apply lookup_none_notin | exact ND].
  Qed.

  Theorem run_keys_nodup : forall h c, NoDup (keys_of c) -> NoDup (keys_of (fst (rn c h))).
  Proof.
    induction h as [|x h IH]; intros c ND; simpl; [exact ND|].
    pose proof (step_keys_nodup c x ND) as S1.
    destruct (stp c x) as [c1 r]. specialize (IH c1 S1). now destruct (rn c1 h).
  Qed.

  Theorem cache_contents : forall h,
    (forall e, In e (fst (rn [] h)) -> exists x, In x h /\ e = (key x, f x)) /\
    (forall k, In k (keys_of (fst (rn [] h))) <-> In k (map key h)) /\
    NoDup (keys_of (fst (rn [] h))).
  Proof.
    intros h. split; [|split].
    - exact (cache_entries_are_key_f h).
    - intros k. rewrite (run_keys h [] k). simpl. tauto.
    - exact (run_keys_nodup h [] (NoDup_nil K)).
  Qed.

  (** the converse: a key that forgets something the value depends on gives a history with a wrong answer *)
  Theorem incomplete_key_wrong_answer : forall c1 c2, key c1 = key c2 -> f c1 <> f c2 ->
    nth_error (results key Kdec f [c1; c2]) 1 = Some (f c1) /\ results key Kdec f [c1; c2] <> map f [c1; c2].
  Proof.
    intros c1 c2 E N. unfold results, run, step. simpl.
    destruct (Kdec (key c2) (key c1)) as [_|n]; [|now symmetry in E].
    simpl. split; [reflexivity|]. intros H. injection H as H. now apply N.
  Qed.

  Theorem incomplete_key_refuted : (exists c1 c2, key c1 = key c2 /\ f c1 <> f c2) ->
    exists h, results key Kdec f h <> map f h.
  Proof. intros [c1 [c2 [E N]]]. exists [c1; c2]. exact (proj2 (incomplete_key_wrong_answer c1 c2 E N)). Qed.

  (** the NEAR-COLLISION PAIR test of the harness: two calls whose values differ, run one after the other from an empty
      dictionary, are both answered correctly exactly when the key tells them apart *)
  Theorem near_collision_pair_decides : forall c1 c2, f c1 <> f c2 ->
    (results key Kdec f [c1; c2] = map f [c1; c2] <-> key c1 <> key c2).
  Proof.
    intros c1 c2 N. unfold results, run, step. simpl.
    destruct (Kdec (key c2) (key c1)) as [e|n]; simpl.
    - split.
      + intros H. injection H as H. now elim N.
      + intros H. elim H. now symmetry.
    - split; [|reflexivity]. intros _ E. apply n. now symmetry.
  Qed.

  (** ... so the two-call histories are a COMPLETE test of the key: the key is incomplete iff some pair fails *)
  Theorem key_incomplete_iff_some_pair_fails :
    (exists c1 c2, key c1 = key c2 /\ f c1 <> f c2) <-> (exists c1 c2, results key Kdec f [c1; c2] <> map f [c1; c2]).
  Proof.
    split.
    - intros [c1 [c2 [E N]]]. exists c1, c2. exact (proj2 (incomplete_key_wrong_answer c1 c2 E N)).
    - intros [c1 [c2 H]]. exists c1, c2. revert H. unfold results, run, step. simpl.
      destruct (Kdec (key c2) (key c1)) as [e|n]; simpl; intros H.
      + split; [now symmetry|]. intros E. apply H. now rewrite E.
      + now elim H.
  Qed.
End MemoProofs.

(* ------------------------------------------------------------------------------------------ *)
(** ** a dictionary shared by all generated closures (low-pass matrices hoisted to module level) *)
Section SharedCache.
  Variables Env Args KeyT Precalc : Type.
  Variable kproj : Env -> KeyT.
  Variable Kdec : forall a b : KeyT, {a = b} + {a <> b}.
  Variable precalc : Env -> Precalc.

  (** transparent when the key keeps everything of the environment the stored value depends on *)
  Theorem shared_cache_transparent : (forall e1 e2, kproj e1 = kproj e2 -> precalc e1 = precalc e2) ->
    forall h : list (sh_call Env Args), results (sh_key kproj) Kdec (sh_f precalc) h = map (sh_f precalc) h.
  Proof.
    intros KC. apply memo_transparent. intros [e1 a1] [e2 a2] E. unfold sh_key, sh_f in *. simpl in *. now apply KC.
  Qed.

  (** and otherwise two generated functions whose environments the key confuses answer the second call with the
      first one's matrices, whatever their own arguments are *)
  Theorem shared_cache_incomplete_key_refuted : forall e1 e2 (a1 a2 : Args), kproj e1 = kproj e2 -> precalc e1 <> precalc e2 ->
    results (sh_key kproj) Kdec (sh_f precalc) [(e1, a1); (e2, a2)] = [precalc e1; precalc e1] /\
    results (sh_key kproj) Kdec (sh_f precalc) [(e1, a1); (e2, a2)] <> map (sh_f precalc) [(e1, a1); (e2, a2)].
  Proof.
    intros e1 e2 a1 a2 E N. unfold results, run, step, sh_key, sh_f. simpl.
    destruct (Kdec (kproj e2) (kproj e1)) as [_|n]; [|now symmetry in E].
    simpl. split; [reflexivity|]. intros H. injection H as H. now apply N.
  Qed.
End SharedCache.

(** ** a module-level setting read by the memoised function is part of the call *)
Section SettingMemoProofs.
  Variables S A KA result : Type.
  Variable akey : A -> KA.
  Variable g : S -> A -> result.
  Variable S_dec : forall a b : S, {a = b} + {a <> b}.
  Variable KA_dec : forall a b : KA, {a = b} + {a <> b}.

  Definition dec_st_full : forall a b : S * KA, {a = b} + {a <> b}.
  Proof. decide equality. Defined.

  (** the key keeps the setting (and enough of the arguments): every history of calls under any settings is transparent *)
  Theorem setting_in_key_transparent : (forall s a1 a2, akey a1 = akey a2 -> g s a1 = g s a2) ->
    forall h : list (st_call S A), results (st_key_full akey) dec_st_full (st_f g) h = map (st_f g) h.
  Proof.
    intros KC. apply memo_transparent. intros [s1 a1] [s2 a2] E. unfold st_key_full, st_f in *. simpl in *.
    injection E as -> E. now apply KC.
  Qed.

  (** the key keeps the arguments only: as soon as the setting matters for ONE argument list, the key is not complete ... *)
  Theorem setting_outside_key_not_complete : forall s1 s2 a, g s1 a <> g s2 a ->
    ~ key_complete (st_key_args (S := S) akey) (st_f g).
  Proof. intros s1 s2 a N KC. apply N. exact (KC (s1, a) (s2, a) eq_refl). Qed.

  (** ... and the same call made under the two values of the setting, one after the other, is answered with the FIRST value *)
  Theorem setting_outside_key_refuted : forall s1 s2 a, g s1 a <> g s2 a ->
    results (st_key_args akey) KA_dec (st_f g) [(s1, a); (s2, a)] = [g s1 a; g s1 a] /\
    results (st_key_args akey) KA_dec (st_f g) [(s1, a); (s2, a)] <> map (st_f g) [(s1, a); (s2, a)].
  Proof.
    intros s1 s2 a N. unfold results, run, step, st_key_args, st_f. simpl.
    destruct (KA_dec (akey a) (akey a)) as [_|n]; [|now contradiction n].
    simpl. split; [reflexivity|]. intros H. injection H as H. now apply N.
  Qed.

  Theorem setting_outside_key_refuted_pair : forall s1 s2 a, g s1 a <> g s2 a ->
    ~ key_complete (st_key_args (S := S) akey) (st_f g) /\
    results (st_key_args akey) KA_dec (st_f g) [(s1, a); (s2, a)] = [g s1 a; g s1 a] /\
    results (st_key_args akey) KA_dec (st_f g) [(s1, a); (s2, a)] <> map (st_f g) [(s1, a); (s2, a)].
  Proof. intros s1 s2 a N. split; [exact (setting_outside_key_not_complete s1 s2 a N) | exact (setting_outside_key_refuted s1 s2 a N)]. Qed.

  (** the user program: call, `module.setting = s2` (plain assignment), the same call - the second call replays the first ... *)
  Theorem plain_assignment_replays : forall s1 s2 a, g s1 a <> g s2 a ->
    st_prun akey g KA_dec s1 [] [Call a; Assign s2; Call a] = [g s1 a; g s1 a] /\
    st_prun akey g KA_dec s1 [] [Call a; Assign s2; Call a] <> st_pspec g s1 [Call a; Assign s2; Call a].
  Proof.
    intros s1 s2 a N. unfold st_prun, st_pspec, step. simpl.
    destruct (KA_dec (akey a) (akey a)) as [_|n]; [|now contradiction n].
    split; [reflexivity|]. intros H. injection H as H. now apply N.
  Qed.

  (** ... a setter that empties the memo repairs the calls made right after it, but not the call made after the value is
      restored by plain assignment: that one replays what was stored under the setter's value *)
  Theorem setter_then_plain_restore_replays : forall s1 s2 a, g s1 a <> g s2 a ->
    st_prun akey g KA_dec s1 [] [Call a; Setter s2; Call a; Assign s1; Call a] = [g s1 a; g s2 a; g s2 a] /\
    st_pspec g s1 [Call a; Setter s2; Call a; Assign s1; Call a] = [g s1 a; g s2 a; g s1 a].
  Proof.
    intros s1 s2 a N. unfold st_prun, st_pspec, step. simpl.
    destruct (KA_dec (akey a) (akey a)) as [_|n]; [|now contradiction n].
    split; reflexivity.
  Qed.

  (** a program that changes the setting ONLY through the emptying setter is transparent (from any memo consistent with the current setting) *)
  Theorem setter_only_program_transparent : (forall s a1 a2, akey a1 = akey a2 -> g s a1 = g s a2) ->
    forall p s c, st_no_assign p = true -> cache_ok akey KA_dec (g s) c -> st_prun akey g KA_dec s c p = st_pspec g s p.
  Proof.
    intros KC. induction p as [|e p IH]; intros s c NA OK; [reflexivity|].
    destruct e as [s'|s'|a]; simpl in *; [discriminate| |].
    - apply IH; [exact NA|]. intros x r H. discriminate H.
    - assert (KCs : key_complete akey (g s)) by (intros a1 a2 E; now apply KC).
      destruct (step_ok A KA result akey KA_dec (g s) KCs c a OK) as [E1 OK1].
      destruct (step akey KA_dec (g s) c a) as [c1 r]. simpl in E1, OK1. subst r. f_equal. now apply IH.
  Qed.
End SettingMemoProofs.

(** non-vacuity over numbers: the time step dt = timescale_factor / maxVM memoised on maxVM alone *)
Theorem setting_memo_refuted_instance :
  exists (g : nat -> nat -> nat) (p : list (st_event nat nat)),
    st_prun (fun a => a) g Nat.eq_dec 10 [] p <> st_pspec g 10 p.
Proof.
  exists (fun factor maxvm => factor * maxvm), [Call 3; Assign 1; Call 3].
  vm_compute. discriminate.
Qed.

Definition dec_lp_full : forall a b : list (nat * list Z) * list Z * list Z * list Z * Z * Z, {a = b} + {a <> b}.
Proof. repeat decide equality. Defined.
Definition dec_lp_names : forall a b : list nat * list Z * list Z * list Z * Z * Z, {a = b} + {a <> b}.
Proof. repeat decide equality. Defined.

(** the whole environment in the key: transparent for EVERY precalc, every history of every set of generated functions *)
Theorem lowpass_shared_full_key_transparent : forall (Args Precalc : Type) (precalc : lp_env -> Precalc) (h : list (sh_call lp_env Args)),
  results (sh_key lp_key_full) dec_lp_full (sh_f precalc) h = map (sh_f precalc) h.
Proof.
  intros Args Precalc precalc. apply shared_cache_transparent.
  intros [c1 s1 b1 f1 t1 n1] [c2 s2 b2 f2 t2 n2] E. unfold lp_key_full in E. simpl in E. injection E as -> -> -> -> -> ->. reflexivity.
Qed.

(** [tuple(cov_dist)] in the key: two data sets with the same population names and sizes but different coverage share
    the matrices - the second generated function returns the first one's *)
Theorem lowpass_shared_names_key_refuted :
  exists (precalc : lp_env -> list (nat * list Z)) (h : list (sh_call lp_env unit)),
    results (sh_key lp_key_names) dec_lp_names (sh_f precalc) h <> map (sh_f precalc) h.
Proof.
  exists le_cov.
  exists [({| le_cov := [(0, [1; 2]%Z)]; le_nseq := [8%Z]; le_nsub := [6%Z]; le_Fx := [0%Z]; le_thr := 1%Z; le_nsim := 1000%Z |}, tt);
          ({| le_cov := [(0, [9; 12]%Z)]; le_nseq := [8%Z]; le_nsub := [6%Z]; le_Fx := [0%Z]; le_thr := 1%Z; le_nsim := 1000%Z |}, tt)].
  apply shared_cache_incomplete_key_refuted; [reflexivity | discriminate].
Qed.

(* ------------------------------------------------------------------------------------------ *)
(** ** one key-completeness lemma per dadi cache *)
Section DadiCacheKeys.
  Variable V : Type.
  Variable gammaln : Z -> V.
  Variable betaln : V -> V -> V.
  Variable lncomb : Z -> Z -> V.
  Variable betainc : Z -> Z -> V -> V.
  Variables (vadd vsub : V -> V -> V) (vexp : V -> V) (vofZ : Z -> V) (v0 : V).
  Variable clip01 : V -> V.

  Lemma key_complete_multinomln_cache : key_complete (@multinomln_key) (multinomln_f V gammaln vsub).
  Proof. intros N1 N2 E. unfold multinomln_key in E. now subst. Qed.

  Lemma key_complete_BetaBinomln_cache : key_complete (bb_key V) (bb_f V betaln lncomb vadd vsub vofZ).
  Proof. intros [i1 n1 a1 b1] [i2 n2 a2 b2] E. unfold bb_key in E. simpl in E. injection E as -> -> -> ->. reflexivity. Qed.

  Lemma key_complete_part_cache : key_complete part_key part_f.
  Proof. intros [x1 n1 l1 u1] [x2 n2 l2 u2] E. unfold part_key in E. simpl in E. injection E as -> -> -> ->. reflexivity. Qed.

  Lemma key_complete_part_precalc_cache : key_complete part_key (part_precalc_f V gammaln vsub).
  Proof. intros [x1 n1 l1 u1] [x2 n2 l2 u2] E. unfold part_key in E. simpl in E. injection E as -> -> -> ->. reflexivity. Qed.

  Lemma key_complete_projection_cache : key_complete proj_key (proj_f V lncomb vadd vsub vexp v0).
  Proof. intros [t1 f1 h1] [t2 f2 h2] E. unfold proj_key in E. simpl in E. injection E as -> -> ->. reflexivity. Qed.

  (** the key holds the grid as passed, the value is computed from the clipped grid: still a function of the key *)
  Lemma key_complete_dbeta_cache : key_complete (dbeta_key V) (dbeta_f V betainc vsub clip01).
  Proof. intros [n1 x1] [n2 x2] E. unfold dbeta_key in E. simpl in E. injection E as -> ->. reflexivity. Qed.

  (** ... and two grids that differ only outside [0,1] (1 + 1e-16) occupy two entries holding the same value *)
  Lemma dbeta_value_of_clipped_grid : (forall x, clip01 (clip01 x) = clip01 x) -> forall nx xx,
    dbeta_f V betainc vsub clip01 {| db_nx := nx; db_xx := map clip01 xx |} =
    dbeta_f V betainc vsub clip01 {| db_nx := nx; db_xx := xx |}.
  Proof.
    intros Idem nx xx. unfold dbeta_f. simpl. rewrite map_map.
    rewrite (map_ext (fun x => clip01 (clip01 x)) clip01 Idem). reflexivity.
  Qed.

  (** the closure-level cache of the low-pass wrapper: key and value are both fixed by the closure *)
  Lemma key_complete_lowpass_precalc_cache : forall (Env Args Precalc : Type) (env : Env) nsub (precalc : Env -> Precalc),
    key_complete (lp_key Env Args env nsub) (lp_f Env Args Precalc env precalc).
  Proof. intros. intros a1 a2 _. reflexivity. Qed.

  (** transparency of each cache, by [memo_transparent] *)
  Variable Vdec : forall a b : V, {a = b} + {a <> b}.

  Definition dec_multinomln : forall a b : list Z, {a = b} + {a <> b} := list_eq_decZ.
  Definition dec_bb : forall a b : Z * Z * V * V, {a = b} + {a <> b}.
  Proof. repeat decide equality; apply Z.eq_dec. Defined.
  Definition dec_part : forall a b : Z * nat * Z * Z, {a = b} + {a <> b}.
  Proof. repeat decide equality. Defined.
  Definition dec_proj : forall a b : Z * Z * Z, {a = b} + {a <> b}.
  Proof. repeat decide equality. Defined.
  Definition dec_dbeta : forall a b : Z * list V, {a = b} + {a <> b}.
  Proof. decide equality; [apply (list_eq_dec Vdec) | apply Z.eq_dec]. Defined.

  Theorem dadi_numeric_caches_transparent :
    (forall h, results (@multinomln_key) dec_multinomln (multinomln_f V gammaln vsub) h = map (multinomln_f V gammaln vsub) h) /\
    (forall h, results (bb_key V) dec_bb (bb_f V betaln lncomb vadd vsub vofZ) h = map (bb_f V betaln lncomb vadd vsub vofZ) h) /\
    (forall h, results part_key dec_part part_f h = map part_f h) /\
    (forall h, results part_key dec_part (part_precalc_f V gammaln vsub) h = map (part_precalc_f V gammaln vsub) h) /\
    (forall h, results proj_key dec_proj (proj_f V lncomb vadd vsub vexp v0) h = map (proj_f V lncomb vadd vsub vexp v0) h) /\
    (forall h, results (dbeta_key V) dec_dbeta (dbeta_f V betainc vsub clip01) h = map (dbeta_f V betainc vsub clip01) h).
  Proof.
    repeat split; intros h; apply memo_transparent.
    - apply key_complete_multinomln_cache.
    - apply key_complete_BetaBinomln_cache.
    - apply key_complete_part_cache.
    - apply key_complete_part_precalc_cache.
    - apply key_complete_projection_cache.
    - apply key_complete_dbeta_cache.
  Qed.
End DadiCacheKeys.

(* ------------------------------------------------------------------------------------------ *)
(** ** Godambe.cache *)
Section GodambeProofs.
  Variable result : Type.
  Variable sem : nat -> list Z -> result.

  (** with CPython's address reuse: two successive calls with different function objects and one common parameter
      point - the second is answered from the first one's entry *)
  Theorem godambe_stale_hit : forall c1 c2 p, sem c1 p <> sem c2 p ->
    let h := [{| g_code := c1; g_points := [p] |}; {| g_code := c2; g_points := [p] |}] in
    gresults sem true h = [[sem c1 p]; [sem c1 p]] /\ gresults sem true h <> map (gspec sem) h.
  Proof.
    intros c1 c2 p N h. unfold h, gresults, grun, gstep, alloc, release, a_init, gspec.
    cbn -[gkey_dec]. unfold step. cbn -[gkey_dec].
    destruct (gkey_dec (0, p) (0, p)) as [_|n]; [|now contradiction n].
    cbn. split; [reflexivity|]. intros H. injection H as H. now apply N.
  Qed.

  (** key that keeps the function object alive ([reuse = false]): every address is new, histories are transparent *)
  Definition ginv (st : gcache result * alloc_state) : Prop :=
    forall a p r, In ((a, p), r) (fst st) -> a < a_next (snd st).

  Lemma gstep_fresh : forall st c, ginv st ->
    snd (gstep sem false st c) = gspec sem c /\ ginv (fst (gstep sem false st c)).
  Proof.
    intros [c0 s] c Inv. unfold gstep, alloc. simpl.
    set (a := a_next s). set (ky := fun p : list Z => (a, p)).
    assert (KC : key_complete ky (sem (g_code c))).
    { intros p1 p2 E. unfold ky in E. injection E as ->. reflexivity. }
    assert (OK : cache_ok ky (gkey_dec) (sem (g_code c)) c0).
    { intros p r L. apply lookup_some_in in L. apply Inv in L. simpl in L. unfold a in L. lia. }
    pose proof (run_ok _ _ _ ky gkey_dec (sem (g_code c)) KC (g_points c) c0 OK) as [E _].
    pose proof (run_entries _ _ _ ky gkey_dec (sem (g_code c)) (g_points c) c0) as EN.
    destruct (run ky gkey_dec (sem (g_code c)) c0 (g_points c)) as [c1 rs]. simpl in *.
    split; [exact E|]. intros a' p r I. simpl in *.
    destruct (EN _ I) as [I0|[x [_ Ex]]].
    - apply Inv in I0. simpl in I0. lia.
    - unfold ky in Ex. injection Ex as -> _ _. unfold a. lia.
  Qed.

  Lemma grun_fresh : forall h st, ginv st -> snd (grun sem false st h) = map (gspec sem) h.
  Proof.
    induction h as [|c h IH]; intros st Inv; simpl; [reflexivity|].
    destruct (gstep_fresh st c Inv) as [E Inv1].
    destruct (gstep sem false st c) as [st1 r]. simpl in *.
    specialize (IH st1 Inv1). destruct (grun sem false st1 h) as [st2 rs]. simpl in *. now rewrite E, IH.
  Qed.

  Theorem godambe_strong_ref_transparent : forall h, gresults sem false h = map (gspec sem) h.
  Proof. intros h. apply grun_fresh. intros a p r []. Qed.
End GodambeProofs.

Theorem godambe_cache_key_refuted :
  exists (sem : nat -> list Z -> nat) (h : list gcall), gresults sem true h <> map (gspec sem) h.
Proof.
  exists (fun c _ => c), [{| g_code := 0; g_points := [[]] |}; {| g_code := 1; g_points := [[]] |}].
  apply (godambe_stale_hit nat (fun c _ => c) 0 1 []). discriminate.
Qed.

(* ------------------------------------------------------------------------------------------ *)
(** ** hash-seed independence: anything accumulated with a commutative, associative operation over the elements of a
    set / dict does not depend on the iteration order *)
Section FoldOrder.
  Variables A B : Type.
  Variable op : B -> B -> B.
  Variable g : A -> B.
  Hypothesis op_comm : forall a b, op a b = op b a.
  Hypothesis op_assoc : forall a b c, op a (op b c) = op (op a b) c.

  Theorem sum_over_set_order_irrelevant : forall l1 l2, Permutation l1 l2 -> forall e,
    fold_left (fun acc a => op acc (g a)) l1 e = fold_left (fun acc a => op acc (g a)) l2 e.
  Proof.
    induction 1; intros e; simpl.
    - reflexivity.
    - apply IHPermutation.
    - f_equal. rewrite <- !op_assoc. f_equal. apply op_comm.
    - now rewrite IHPermutation1.
  Qed.
End FoldOrder.
