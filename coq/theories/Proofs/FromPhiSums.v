(** C05: sampling probabilities sum to one (binomial, beta-binomial and its convolution, admixed), and hence the
    direct, inbreeding and admix_props spectra sum to the trapezoid mass of phi. *)
From Coq Require Import ZArith NArith Reals List Lra Lia Arith Bool.
From Dadi Require Import Base.Num Base.NumR Model.FromPhi Proofs.FromPhiBinom Proofs.FromPhiBase Proofs.FromPhiMass1D
  Proofs.FromPhiLin Proofs.FromPhiND Proofs.FromPhiPaths.
Import ListNotations.
Local Open Scope R_scope.

(** ** binomial *)
Lemma bker_sum1 n (x : R) : rsum (map (fun i => bker n i x) (seq 0 (S n))) = 1.
Proof. rewrite (rsum_map_ext _ (fun i => B n i x)) by (intros; apply bker_B). apply B_sum1. Qed.

(** ** rising factorials: Chu-Vandermonde  sum_v C(p,v) a^(v) b^(p-v) = (a+b)^(p) *)
Lemma rising_R (a : R) k : @rising R _ a (S k) = rising a k * (a + INR k).
Proof. cbn [rising]. numR. rewrite nofnat_INR. reflexivity. Qed.
Definition rt (a b : R) (p v : nat) : R := IZR (cZ p v) * rising a v * rising b (p - v).
Lemma rt_small a b p v : (p < v)%nat -> rt a b p v = 0.
Proof. intros H. unfold rt. rewrite cZ_small by assumption. ring. Qed.
Lemma rt_S0 a b p : rt a b (S p) 0 = (b + INR p) * rt a b p 0.
Proof. unfold rt. rewrite !cZ_n0, !Nat.sub_0_r, rising_R. cbn [rising]. numR. ring. Qed.
Lemma rt_SS a b p v : rt a b (S p) (S v) = (a + INR v) * rt a b p v + (b + INR (p - S v)) * rt a b p (S v).
Proof. destruct (le_lt_dec (S v) p) as [Hv|Hv].
  - unfold rt. rewrite cZ_pascal, plus_IZR. replace (S p - S v)%nat with (S (p - S v)) by lia.
    replace (p - v)%nat with (S (p - S v)) by lia. rewrite !rising_R. ring.
  - destruct (Nat.eq_dec v p) as [->|Hn].
    + rewrite (rt_small a b p (S p)) by lia. unfold rt. rewrite !cZ_nn, !Nat.sub_diag, rising_R. cbn [rising]. numR. ring.
    + rewrite !rt_small by lia. ring. Qed.

Lemma rt_step a b p K :
  rsum (map (fun v => rt a b (S p) v) (seq 0 (S K)))
  = rsum (map (fun v => (a + INR v) * rt a b p v) (seq 0 K)) + rsum (map (fun v => (b + INR (p - v)) * rt a b p v) (seq 0 (S K))).
Proof. rewrite !rsum_seq_head, rt_S0, Nat.sub_0_r.
  rewrite (rsum_map_ext (fun i => rt a b (S p) (S i)) (fun i => (a + INR i) * rt a b p i + (b + INR (p - S i)) * rt a b p (S i)))
    by (intros; apply rt_SS).
  rewrite rsum_map_add. ring. Qed.

Lemma chu_vandermonde_gen a b p : forall K, (p < K)%nat -> rsum (map (fun v => rt a b p v) (seq 0 K)) = rising (a + b) p.
Proof. induction p; intros K HK.
  - rewrite (rsum_seq_trunc _ 1 K) by (try lia; intros; apply rt_small; lia). cbn. unfold rt. rewrite cZ_n0. cbn. numR. ring.
  - destruct K as [|K]; [lia|]. rewrite rt_step.
    rewrite (rsum_seq_trunc (fun v => (b + INR (p - v)) * rt a b p v) (S p) (S K)) by (try lia; intros; rewrite rt_small by lia; ring).
    rewrite (rsum_seq_trunc (fun v => (a + INR v) * rt a b p v) (S p) K) by (try lia; intros; rewrite rt_small by lia; ring).
    rewrite <- rsum_map_add.
    rewrite (rsum_map_ext _ (fun v => (a + b + INR p) * rt a b p v)).
    2:{ intros v Hv. apply in_seq in Hv. replace (INR (p - v)) with (INR p - INR v) by (rewrite minus_INR by lia; reflexivity). ring. }
    rewrite rsum_map_scal, IHp by lia. rewrite rising_R. ring. Qed.

(** beta-binomial probabilities sum to one *)
Theorem betabinom_sum1 p (a b : R) : rising (a + b) p <> 0 ->
  rsum (bb_table p a b) = 1.
Proof. intros Hr. unfold bb_table, betabinom. numR.
  rewrite (rsum_map_ext _ (fun v => / rising (a + b) p * rt a b p v)).
  2:{ intros v _. unfold rt. field. assumption. }
  rewrite rsum_map_scal, chu_vandermonde_gen by lia. field. assumption. Qed.

Lemma rising_pos (a : R) k : 0 < a -> 0 < rising a k.
Proof. intros Ha. induction k; [cbn [rising]; numR; lra|]. rewrite rising_R. apply Rmult_lt_0_compat; [assumption|].
  pose proof (pos_INR k). lra. Qed.

(** ** polynomials: the coefficient sum is multiplicative *)
Lemma rsum_padd a b : rsum (@padd R _ a b) = rsum a + rsum b.
Proof. revert b. induction a as [|x a IH]; intros b; [cbn [padd]; change (rsum []) with 0; lra|]. destruct b as [|y b]; [cbn [padd]; change (rsum []) with 0; lra|].
  cbn [padd]. rewrite !rsum_cons, IH. numR. ring. Qed.
Lemma rsum_map_mul x (b : list R) : rsum (map (@nmul R _ x) b) = x * rsum b.
Proof. induction b; [cbn [map]; change (rsum []) with 0; lra|]. cbn [map]. rewrite !rsum_cons, IHb. numR. ring. Qed.
Lemma rsum_pmul a b : rsum (@pmul R _ a b) = rsum a * rsum b.
Proof. induction a as [|x a IH]; [cbn [pmul]; change (rsum []) with 0; lra|]. cbn [pmul]. rewrite rsum_padd, !rsum_cons, IH.
  rewrite rsum_map_mul. numR. ring. Qed.
Lemma rsum_ppow a n : rsum (@ppow R _ a n) = rsum a ^ n.
Proof. induction n; [cbn [ppow pow]; rewrite rsum_cons; change (rsum []) with 0; numR; lra|]. cbn [ppow pow]. rewrite rsum_pmul, IHn. reflexivity. Qed.

Lemma padd_length (a b : list R) : length (padd a b) = Nat.max (length a) (length b).
Proof. revert b. induction a as [|x a IH]; intros b; [reflexivity|]. destruct b; [reflexivity|]. cbn [padd length]. rewrite IH. reflexivity. Qed.
Lemma pmul_length (a b : list R) : a <> [] -> b <> [] -> length (pmul a b) = (length a + length b - 1)%nat.
Proof. intros Ha Hb. destruct b as [|y b]; [congruence|]. clear Hb. induction a as [|x a IH]; [congruence|]. clear Ha.
  cbn [pmul]. rewrite padd_length, map_length. cbn [length].
  destruct a as [|z a]; [cbn [pmul length]; lia|]. rewrite IH by discriminate. cbn [length]. lia. Qed.
Lemma ppow_length (a : list R) n : a <> [] -> length (ppow a n) = (n * (length a - 1) + 1)%nat.
Proof. intros Ha. induction n; [reflexivity|]. cbn [ppow].
  assert (ppow a n <> []) by (intros E; apply (f_equal (@length R)) in E; rewrite IHn, Nat.add_1_r in E; discriminate).
  rewrite pmul_length, IHn by assumption. destruct a; [congruence|]. cbn [length]. replace (S (length a) - 1)%nat with (length a) by lia. generalize (length a). intros. nia. Qed.

(** the beta-binomial convolution (the probabilities of BetaBinomConvolution(i, n, alpha, beta, ploidy), i = 0..n*ploidy) sums to one *)
Theorem betabinom_conv_sum1 n p (a b : R) : rising (a + b) p <> 0 ->
  rsum (map (fun i => bbconv_pow i n a b p) (seq 0 (S (n * p)))) = 1.
Proof. intros Hr. unfold bbconv_pow.
  assert (L : length (ppow (bb_table p a b) n) = S (n * p)).
  { rewrite ppow_length; unfold bb_table; rewrite ?map_length, ?seq_length; [lia|]. cbn [seq map]. discriminate. }
  rewrite <- L. numR. rewrite <- rsum_nth, rsum_ppow, betabinom_sum1 by assumption. apply pow1. Qed.

(** ** spectra of the trapezoid paths sum to the trapezoid mass *)
Lemma combine_map_l {A B C} (g : A -> B) (l : list A) (v : list C) :
  combine (map g l) v = map (fun p => (g (fst p), snd p)) (combine l v).
Proof. revert v. induction l; intros v; [reflexivity|]. destruct v; [reflexivity|]. cbn [map combine fst snd]. rewrite IHl. reflexivity. Qed.
Lemma map_snd_combine {A B} (l : list A) (v : list B) : length l = length v -> map snd (combine l v) = v.
Proof. revert v. induction l; intros v E; destruct v; try discriminate; [reflexivity|]. cbn [combine map snd]. rewrite IHl by (cbn in E; lia). reflexivity. Qed.

Lemma fac_apply_total {Y} (f : nat -> Y -> R) (ys : list Y) xx N (v : list R) :
  length ys = length v ->
  (forall y, In y ys -> rsum (map (fun i => f i y) (seq 0 N)) = 1) ->
  rsum (fac_apply xx (map (fun i => map (f i) ys) (seq 0 N)) v) = trapz xx v.
Proof. intros El H1. unfold fac_apply. rewrite map_map.
  set (blocks := map (fun yp => map (fun i => f i (fst yp) * snd yp) (seq 0 N)) (combine ys v)).
  rewrite (rsum_map_ext _ (fun i => trapz xx (col i blocks))).
  - rewrite (trapz_cols xx blocks N).
    + f_equal. subst blocks. rewrite map_map. rewrite <- (map_snd_combine ys v El) at 2.
      apply map_ext_in. intros [y p] Hin. cbn [fst snd]. rewrite rsum_map_scal_r, H1; [ring|]. eapply in_combine_l; eassumption.
    + subst blocks. apply Forall_forall. intros b Hb. apply in_map_iff in Hb. destruct Hb as [yp [<- _]].
      rewrite map_length, seq_length. reflexivity.
  - intros i Hi. apply in_seq in Hi. f_equal. subst blocks. unfold col, map2. rewrite combine_map_l, !map_map.
    apply map_ext. intros yp. cbn [fst snd]. rewrite nth_map_seq by lia. numR. reflexivity. Qed.

Lemma direct_ax_total n xx v : length xx = length v -> rsum (@direct_ax R _ false n xx v) = trapz xx v.
Proof. intros E. unfold direct_ax, direct_fac. apply (fac_apply_total (fun i x => dfactor false n i x) xx xx (S n) v E).
  intros x _. unfold dfactor. apply bker_sum1. Qed.

(** Spectrum.from_phi with force_direct (no ascertainment), any dimension *)
Lemma direct_ops_sums k ns xxs shape : Forall2 (fun xx L => length xx = L) xxs shape -> length ns = length shape ->
  Forall2 (fun ol xx => sums_to_trapz (fst ol) (snd ol) xx)
    (combine (map2 (fun k nx => (@direct_ax R _ false (fst nx) (snd nx), S (fst nx))) (seq k (length ns)) (combine ns xxs)) shape) xxs.
Proof. intros HL. revert k ns. induction HL as [|xx L xxs shape HxL HL IH]; intros k ns Hn.
  - destruct ns; try discriminate. constructor.
  - destruct ns as [|n ns]; try discriminate. cbn [length seq combine]. rewrite map2_cons. cbn [combine]. constructor.
    + intros v Hv. cbn [fst snd] in *. apply direct_ax_total. lia.
    + apply IH. cbn in Hn. lia. Qed.

Theorem direct_total ns xxs shape phi :
  Forall2 (fun xx L => length xx = L) xxs shape -> length ns = length shape -> length phi = prodl shape ->
  rsum (nd (direct_ops None ns xxs) shape phi) = trapz_nd xxs shape phi.
Proof. intros HL Hn Hp.
  assert (Hx : length xxs = length shape) by (clear -HL; induction HL; cbn; congruence).
  apply nd_total; [apply direct_ops_ok; assumption | | assumption]. apply (direct_ops_sums 0 ns xxs shape HL Hn). Qed.

(** the 2-D..5-D semi-analytic paths, grids inside [0,1] *)
Lemma linalg_ops_sums ns xxs shape : Forall (Forall (fun x => 0 <= x <= 1)) xxs -> length ns = length shape -> length xxs = length shape ->
  Forall2 (fun ol xx => sums_to_trapz (fst ol) (snd ol) xx) (combine (linalg_ops ns xxs) shape) xxs.
Proof. intros H01. revert ns shape. induction H01 as [|xx xxs Hxx H01 IH]; intros ns shape Hn Hx.
  - destruct shape; try discriminate. destruct ns; try discriminate. constructor.
  - destruct shape as [|L shape]; try discriminate. destruct ns as [|n ns]; try discriminate.
    unfold linalg_ops. rewrite map2_cons. cbn [combine]. constructor.
    + intros v Hv. cbn [fst snd]. apply analytic_ax_total. assumption.
    + apply IH; cbn in *; lia. Qed.

Theorem linalg_total ns xxs shape phi :
  Forall (Forall (fun x => 0 <= x <= 1)) xxs -> length ns = length shape -> length xxs = length shape -> length phi = prodl shape ->
  rsum (nd (linalg_ops ns xxs) shape phi) = trapz_nd xxs shape phi.
Proof. intros H01 Hn Hx Hp. apply nd_total; [apply linalg_ops_ok; assumption | apply linalg_ops_sums; assumption | assumption]. Qed.

(** ** admixed sampling probabilities *)
Lemma rsum_flat_map {A B} (g : B -> R) (h : A -> list B) l :
  rsum (map g (flat_map h l)) = rsum (map (fun a => rsum (map g (h a))) l).
Proof. induction l; [reflexivity|]. cbn [flat_map map]. rewrite map_app, rsum_app, rsum_cons, IHl. reflexivity. Qed.

(** for every point of the grid the probabilities of all sample configurations sum to one *)
Theorem admix_probs_sum1 (A : list (list R)) ns coords : length A = length ns ->
  rsum (map (fun idx => admix_g A ns idx coords) (idxs ns)) = 1.
Proof. revert A. induction ns as [|n ns IH]; intros A HA.
  - destruct A; try discriminate. cbn. numR. lra.
  - destruct A as [|row A]; try discriminate. cbn [idxs]. rewrite rsum_flat_map.
    rewrite (rsum_map_ext _ (fun i => bker n i (admix_p row coords) * rsum (map (fun idx => admix_g A ns idx coords) (idxs ns)))).
    + rewrite IH by (cbn in HA; lia). rewrite (rsum_map_ext _ (fun i => bker n i (admix_p row coords))) by (intros; ring).
      apply bker_sum1.
    + intros i _. rewrite map_map, <- rsum_map_scal. apply rsum_map_ext. intros idx _.
      unfold admix_g. cbn [combine map nprod fold_right]. numR. reflexivity. Qed.

Lemma trapz_sum {A} xx (l : list A) (V : A -> list R) m : (forall a, In a l -> length (V a) = m) ->
  rsum (map (fun a => @trapz R _ xx (V a)) l) = trapz xx (map (fun j => rsum (map (fun a => nth j (V a) 0) l)) (seq 0 m)).
Proof. intros HV. induction l as [|a l IH].
  - cbn [map]. rewrite (map_ext _ (fun _ : nat => 0)) by reflexivity. rewrite trapz_zero. reflexivity.
  - assert (La : length (V a) = m) by (apply HV; left; reflexivity).
    assert (Lm : forall (g : nat -> R), length (V a) = length (map g (seq 0 m))) by (intros; rewrite map_length, seq_length; exact La).
    cbn [map]. rewrite rsum_cons, IH by (intros; apply HV; right; assumption).
    rewrite <- trapz_add by apply Lm.
    f_equal. apply nth_ext with (d := 0) (d' := 0).
    + rewrite vadd_length by apply Lm. rewrite map_length, seq_length. exact La.
    + intros j Hj. rewrite vadd_length, La in Hj by apply Lm. rewrite vadd_nth by apply Lm.
      rewrite !nth_map_seq by assumption. rewrite rsum_cons. reflexivity. Qed.

Lemma map2_nth_seq {A B} (f : A -> B -> R) (a : list A) (b : list B) da db :
  length a = length b -> map2 f a b = map (fun j => f (nth j a da) (nth j b db)) (seq 0 (length a)).
Proof. intros E. apply nth_ext with (d := 0) (d' := 0); [rewrite map2_length, map_length, seq_length; lia|].
  intros j Hj. rewrite map2_length in Hj. rewrite nth_map_seq by lia. apply map2_nth; lia. Qed.

(** a sum of weight functions integrates to the sum of the integrals *)
Lemma wint_sum {I} (G : I -> list R -> R) (il : list I) xxs : forall shape coords phi,
  Forall2 (fun xx L => length xx = L) xxs shape ->
  rsum (map (fun i => @wint R _ (G i) xxs shape coords phi) il)
  = wint (fun c => rsum (map (fun i => G i c) il)) xxs shape coords phi.
Proof. induction xxs as [|xx xxs IH]; intros shape coords phi HL.
  - cbn [wint]. numR. rewrite <- rsum_map_scal_r. reflexivity.
  - inversion HL as [|? L ? rest HxL HL']; subst. cbn [wint].
    pose proof (chunk_length (prodl rest) (length xx) phi) as Lc. revert Lc. generalize (chunk (prodl rest) (length xx) phi) as blocks. intros blocks Lc.
    rewrite (trapz_sum xx il _ (length xx)) by (intros; rewrite map2_length; lia).
    f_equal. rewrite (map2_nth_seq _ xx blocks 0 []) by lia. apply map_ext_in. intros j Hj. apply in_seq in Hj.
    rewrite <- IH by assumption. apply rsum_map_ext. intros i _. rewrite (map2_nth_seq _ xx blocks 0 []) by lia.
    rewrite nth_map_seq by lia. reflexivity. Qed.

Lemma wint_one xxs : forall shape coords phi, Forall2 (fun xx L => length xx = L) xxs shape ->
  @wint R _ (fun _ => 1) xxs shape coords phi = trapz_nd xxs shape phi.
Proof. induction xxs as [|xx xxs IH]; intros shape coords phi HL.
  - inversion HL; subst. cbn [wint trapz_nd]. numR. ring.
  - inversion HL as [|? L ? rest HxL HL']; subst. cbn [wint trapz_nd]. f_equal.
    pose proof (chunk_length (prodl rest) (length xx) phi) as Lc. revert Lc. generalize (chunk (prodl rest) (length xx) phi) as blocks. intros blocks Lc.
    rewrite (map2_nth_seq _ xx blocks 0 []) by lia.
    apply nth_ext with (d := 0) (d' := 0); [rewrite !map_length, seq_length; lia|].
    intros j Hj. rewrite map_length, seq_length in Hj. rewrite nth_map_seq by assumption. rewrite IH by assumption.
    rewrite (nth_indep _ 0 (trapz_nd xxs rest [])) by (rewrite map_length; lia). rewrite map_nth. reflexivity. Qed.

Lemma wint_ext (g1 g2 : list R -> R) xxs : (forall c, g1 c = g2 c) -> forall shape coords phi,
  @wint R _ g1 xxs shape coords phi = wint g2 xxs shape coords phi.
Proof. intros E. induction xxs as [|xx xxs IH]; intros shape coords phi.
  - cbn [wint]. rewrite E. reflexivity.
  - destruct shape as [|L rest]; [cbn [wint]; rewrite E; reflexivity|]. cbn [wint]. f_equal.
    unfold map2. apply map_ext. intros p. apply IH. Qed.

(** the admix_props spectrum sums to the trapezoid mass of phi *)
Theorem admix_total (A : list (list R)) ns xxs shape phi :
  length A = length ns -> Forall2 (fun xx L => length xx = L) xxs shape ->
  rsum (admix_nd A ns xxs shape phi) = trapz_nd xxs shape phi.
Proof. intros HA HL. unfold admix_nd. rewrite (wint_sum (fun idx => admix_g A ns idx) (idxs ns)) by assumption.
  rewrite <- (wint_one xxs shape [] phi HL). apply wint_ext. intros c. apply admix_probs_sum1. assumption. Qed.
