(** * GodambeInverse: the O(eps^2) agreement of get_godambe's (H, J, cU) with the closed forms, for Poisson models linear in
      their parameters (GodambeRemainder.v), carried through the matrix stage of dadi/Godambe.py:
         FIM_uncert   sqrt(diag(inv(H)))
         GIM_uncert   sqrt(diag(inv(H . inv(J) . H)))
         LRT_adjust   n / trace(J . inv(H))
         Wald_stat    d^T (H . inv(J) . H) d,  d^T H d
         score_stat   cU^T inv(J) cU,  cU^T inv(H) cU
    numpy.linalg.inv is the Section variable [inv] with the contract [inv_spec] ("returns an n x n two-sided inverse whenever
    one exists"); the contract is satisfiable ([inv1_spec], [inv2_spec]).  Each bound is  K * eps^2  with K independent of
    eps (norms of the closed-form matrices and the constants of GodambeRemainder.v). *)
From Coq Require Import ZArith Reals List Lra Lia Arith Bool.
From Coquelicot Require Import Coquelicot.
From Dadi Require Import Base.Num Base.NumR Model.Godambe Proofs.GodambeProofs Proofs.GodambePoisson Proofs.GodambeLnBounds
                         Proofs.GodambeRemainder Proofs.MatPerturb Proofs.MatNeumann Proofs.MatStats Proofs.MatLists.
Import ListNotations.
Local Open Scope R_scope.

(** ** closed forms as matrices, and the constants *)
Definition pois_H_mat (n : nat) (Bs : list (list R)) (data : @pdata R) (theta : list R) : list (list R) :=
  map (fun i => map (fun j => - pois_hess Bs data theta i j) (seq 0 n)) (seq 0 n).
Definition pois_J_mat (n : nat) (Bs : list (list R)) (theta : list R) (boots : list (@pdata R)) : list (list R) :=
  J_mat n (exact_grads Bs theta boots).
Definition pois_cU_vec (n : nat) (Bs : list (list R)) (theta : list R) (boots : list (@pdata R)) : list R :=
  cU_vec n (exact_grads Bs theta boots).

Definition CH_pois (n : nat) (rho : R) (Bs : list (list R)) (data : @pdata R) (theta : list R) : R :=
  rsum n (fun i => rsum n (fun j => 40 * (rho * rho) * pois_abs_hess Bs data theta i j)).
Definition CJ_pois (n : nat) (rho : R) (Bs : list (list R)) (theta : list R) (boots : list (@pdata R)) : R :=
  rsum n (fun i => rsum n (fun j => nsum (map (J_const rho Bs theta i j) boots) / IZR (Z.of_nat (length boots)))).
Definition Cc_pois (n : nat) (rho : R) (Bs : list (list R)) (theta : list R) (boots : list (@pdata R)) : R :=
  rsum n (fun i => nsum (map (grad_const rho Bs theta i) boots) / IZR (Z.of_nat (length boots))).

Lemma wf_map_seq n (F : nat -> nat -> R) : wf n (map (fun i => map (fun j => F i j) (seq 0 n)) (seq 0 n)).
Proof. exact (wf_to_list n F). Qed.

Lemma ent_map_seq n (F : nat -> nat -> R) i j : (i < n)%nat -> (j < n)%nat ->
  ent (map (fun i => map (fun j => F i j) (seq 0 n)) (seq 0 n)) i j = F i j.
Proof. exact (ent_to_list n F i j). Qed.

Lemma nonneg_from_bound x C e2 : 0 <= x -> x <= C * e2 -> 0 < e2 -> 0 <= C.
Proof.
  intros Hx Hb He. destruct (Rle_or_lt 0 C) as [HC|HC]; [exact HC|].
  assert (C * e2 < 0) by nra. lra.
Qed.

Lemma eps2_range eps : 0 < eps -> eps <= 1 -> 0 < eps * eps /\ 0 <= eps * eps <= 1.
Proof. intros H0 H1. split; [apply Rmult_lt_0_compat; assumption|]. split; nra. Qed.

(** ** H: well-formed and within CH eps^2 of the closed form (no bootstraps needed: FIM_uncert passes all_boot = []) *)
Lemma pois_H_close n (Bs : list (list R)) (theta : list R) (rho : R) (data : @pdata R) (boots : list (@pdata R)) eps :
  length theta = n ->
  0 < pd_adj data -> List.Forall (fun b => 0 < ndot theta b) Bs -> 0 < rho -> share_bound Bs theta rho ->
  0 < eps -> eps <= / (8 * rho) -> eps <= 1 ->
  (forall k, (k < length theta)%nat -> nth k theta 0 <> 0 /\ Rtiny <= nth k theta 0 * eps) ->
  let H' := fst (fst (godambe_HJc (fun bt => pois_ll (lin_mean Bs) bt) theta eps data boots)) in
  wf n H' /\ wf n (pois_H_mat n Bs data theta) /\
  mnorm n (msub (ent H') (ent (pois_H_mat n Bs data theta))) <= CH_pois n rho Bs data theta * (eps * eps) /\
  0 <= CH_pois n rho Bs data theta.
Proof.
  intros Hn Hadj Hm Hrho Hsh He Hle He1 Hcen H'. subst n.
  assert (wH' : wf (length theta) H').
  { unfold H', godambe_HJc, get_hess. cbn [fst snd]. split.
    - rewrite !map_length, seq_length. reflexivity.
    - intros r Hr. apply in_map_iff in Hr. destruct Hr as [r0 [<- Hr0]].
      apply in_map_iff in Hr0. destruct Hr0 as [i [<- _]]. rewrite !map_length, seq_length. reflexivity. }
  assert (wHc : wf (length theta) (pois_H_mat (length theta) Bs data theta)) by apply wf_map_seq.
  assert (Hb : mnorm (length theta) (msub (ent H') (ent (pois_H_mat (length theta) Bs data theta)))
               <= CH_pois (length theta) rho Bs data theta * (eps * eps)).
  { unfold CH_pois. rewrite <- rsum_scal_r.
    rewrite (rsum_ext (length theta) (fun i => rsum _ _ * (eps * eps))
               (fun i => rsum (length theta) (fun j => 40 * (rho * rho) * pois_abs_hess Bs data theta i j * (eps * eps))))
      by (intros i _; symmetry; apply rsum_scal_r).
    apply mnorm_le_entries. intros i j Hi Hj. unfold msub, pois_H_mat. rewrite ent_map_seq by assumption.
    assert (Hd : List.Forall (fun bt => 0 < pd_adj bt) [data]) by (apply Forall_cons; [assumption|apply Forall_nil]).
    assert (Hne : [data] <> []) by discriminate.
    exact (proj1 (poisson_godambe_HJc_within_eps2 Bs theta rho data [data] eps Hadj Hd Hm Hrho Hsh Hne He Hle He1 Hcen i j Hi Hj)). }
  split; [exact wH'|]. split; [exact wHc|]. split; [exact Hb|].
  apply (nonneg_from_bound _ _ (eps * eps) (mnorm_nonneg _ _) Hb). apply Rmult_lt_0_compat; assumption.
Qed.

(** ** J and cU *)
Lemma pois_J_close n (Bs : list (list R)) (theta : list R) (rho : R) (data : @pdata R) (boots : list (@pdata R)) eps :
  length theta = n ->
  0 < pd_adj data -> List.Forall (fun bt => 0 < pd_adj bt) boots -> List.Forall (fun b => 0 < ndot theta b) Bs ->
  0 < rho -> share_bound Bs theta rho -> boots <> [] ->
  0 < eps -> eps <= / (8 * rho) -> eps <= 1 ->
  (forall k, (k < length theta)%nat -> nth k theta 0 <> 0 /\ Rtiny <= nth k theta 0 * eps) ->
  let HJc := godambe_HJc (fun bt => pois_ll (lin_mean Bs) bt) theta eps data boots in
  wf n (snd (fst HJc)) /\ wf n (pois_J_mat n Bs theta boots) /\
  length (snd HJc) = n /\ length (pois_cU_vec n Bs theta boots) = n /\
  mnorm n (msub (ent (snd (fst HJc))) (ent (pois_J_mat n Bs theta boots))) <= CJ_pois n rho Bs theta boots * (eps * eps) /\
  vnorm n (fun i => vec (snd HJc) i - vec (pois_cU_vec n Bs theta boots) i) <= Cc_pois n rho Bs theta boots * (eps * eps) /\
  0 <= CJ_pois n rho Bs theta boots /\ 0 <= Cc_pois n rho Bs theta boots.
Proof.
  intros Hn Hadj Hadjs Hm Hrho Hsh Hne He Hle He1 Hcen HJc. subst n.
  pose proof (poisson_godambe_HJc_within_eps2 Bs theta rho data boots eps Hadj Hadjs Hm Hrho Hsh Hne He Hle He1 Hcen) as HB.
  cbv zeta in HB. fold HJc in HB.
  assert (wJ' : wf (length theta) (snd (fst HJc))).
  { unfold HJc, godambe_HJc, J_mat. cbn [fst snd]. apply wf_map_seq. }
  assert (wJc : wf (length theta) (pois_J_mat (length theta) Bs theta boots)).
  { unfold pois_J_mat, J_mat. apply wf_map_seq. }
  assert (lU' : length (snd HJc) = length theta).
  { unfold HJc, godambe_HJc, cU_vec. cbn [fst snd]. rewrite map_length, seq_length. reflexivity. }
  assert (lUc : length (pois_cU_vec (length theta) Bs theta boots) = length theta).
  { unfold pois_cU_vec, cU_vec. rewrite map_length, seq_length. reflexivity. }
  assert (HbJ : mnorm (length theta) (msub (ent (snd (fst HJc))) (ent (pois_J_mat (length theta) Bs theta boots)))
                <= CJ_pois (length theta) rho Bs theta boots * (eps * eps)).
  { unfold CJ_pois. rewrite <- rsum_scal_r.
    rewrite (rsum_ext (length theta) (fun i => rsum _ _ * (eps * eps))
               (fun i => rsum (length theta) (fun j => nsum (map (J_const rho Bs theta i j) boots) / IZR (Z.of_nat (length boots)) * (eps * eps))))
      by (intros i _; symmetry; apply rsum_scal_r).
    apply mnorm_le_entries. intros i j Hi Hj. unfold msub, pois_J_mat, J_mat. rewrite ent_map_seq by assumption.
    exact (proj1 (proj2 (HB i j Hi Hj))). }
  assert (HbU : vnorm (length theta) (fun i => vec (snd HJc) i - vec (pois_cU_vec (length theta) Bs theta boots) i)
                <= Cc_pois (length theta) rho Bs theta boots * (eps * eps)).
  { unfold Cc_pois. rewrite <- rsum_scal_r. apply vnorm_le_entries. intros i Hi.
    unfold vec, pois_cU_vec, cU_vec. rewrite (nth_map_seq _ _ _ _ Hi).
    exact (proj2 (proj2 (HB i i Hi Hi))). }
  assert (He2 : 0 < eps * eps) by (apply Rmult_lt_0_compat; assumption).
  repeat split; try assumption.
  - apply wJ'.
  - apply wJ'.
  - apply wJc.
  - apply wJc.
  - apply (nonneg_from_bound _ _ (eps * eps) (mnorm_nonneg _ _) HbJ He2).
  - apply (nonneg_from_bound _ _ (eps * eps) (vnorm_nonneg _ _) HbU He2).
Qed.

(** ** the statistics of Godambe.py on the finite-difference (H, J, cU) versus the closed forms *)
Section Oracle.
  Variable n : nat.
  Variable inv : list (list R) -> list (list R).
  Hypothesis inv_spec : forall M, wf n M -> invertible n M -> wf n (inv M) /\ is_inv n (ent M) (ent (inv M)).

  (** FIM_uncert (multinom=False): H alone; [boots] is irrelevant (FIM_uncert passes []).
      K = 2 |inv Hc|^2 CH;  uncertainty i moves by at most  K / sqrt((inv Hc)_ii) * eps^2 *)
  Theorem poisson_FIM_uncert_within_eps2
    (Bs : list (list R)) (theta : list R) (rho : R) (data : @pdata R) (boots : list (@pdata R)) (eps : R) :
    length theta = n ->
    0 < pd_adj data -> List.Forall (fun b => 0 < ndot theta b) Bs -> 0 < rho -> share_bound Bs theta rho ->
    0 < eps -> eps <= / (8 * rho) -> eps <= 1 ->
    (forall k, (k < length theta)%nat -> nth k theta 0 <> 0 /\ Rtiny <= nth k theta 0 * eps) ->
    let H' := fst (fst (godambe_HJc (fun bt => pois_ll (lin_mean Bs) bt) theta eps data boots)) in
    let Hc := pois_H_mat n Bs data theta in
    let K := 2 * (mnorm n (ent (inv Hc)) * mnorm n (ent (inv Hc))) * CH_pois n rho Bs data theta in
    invertible n Hc -> mnorm n (ent (inv Hc)) * (CH_pois n rho Bs data theta * (eps * eps)) <= 1 / 2 ->
    invertible n H' /\
    (forall i j, (i < n)%nat -> (j < n)%nat -> Rabs (ent (inv H') i j - ent (inv Hc) i j) <= K * (eps * eps)) /\
    (forall i, (i < n)%nat -> K * (eps * eps) < ent (inv Hc) i i ->
       0 < ent (inv H') i i /\
       Rabs (uncert inv H' i - uncert inv Hc i) <= K / sqrt (ent (inv Hc) i i) * (eps * eps)).
  Proof.
    intros Hn Hadj Hm Hrho Hsh He Hle He1 Hcen H' Hc K HI Hhalf.
    destruct (pois_H_close n Bs theta rho data boots eps Hn Hadj Hm Hrho Hsh He Hle He1 Hcen) as [wH' [wHc [Hb HC]]].
    exact (stage_FIM n inv inv_spec Hc H' _ _ wHc wH' Hb HI Hhalf).
  Qed.

  (** GIM_uncert (multinom=False):  G = H inv(J) H.
      KGIM = KG |Hc| |inv Jc| CH CJ bounds |G' - Gc| / eps^2;  K = 2 |inv Gc|^2 KGIM *)
  Theorem poisson_GIM_uncert_within_eps2
    (Bs : list (list R)) (theta : list R) (rho : R) (data : @pdata R) (boots : list (@pdata R)) (eps : R) :
    length theta = n ->
    0 < pd_adj data -> List.Forall (fun bt => 0 < pd_adj bt) boots -> List.Forall (fun b => 0 < ndot theta b) Bs ->
    0 < rho -> share_bound Bs theta rho -> boots <> [] ->
    0 < eps -> eps <= / (8 * rho) -> eps <= 1 ->
    (forall k, (k < length theta)%nat -> nth k theta 0 <> 0 /\ Rtiny <= nth k theta 0 * eps) ->
    let HJc := godambe_HJc (fun bt => pois_ll (lin_mean Bs) bt) theta eps data boots in
    let H' := fst (fst HJc) in let J' := snd (fst HJc) in
    let Hc := pois_H_mat n Bs data theta in let Jc := pois_J_mat n Bs theta boots in
    let G' := gim_of inv H' J' in let Gc := gim_of inv Hc Jc in
    let KGIM := KG (mnorm n (ent Hc)) (mnorm n (ent (inv Jc))) (CH_pois n rho Bs data theta) (CJ_pois n rho Bs theta boots) in
    let K := 2 * (mnorm n (ent (inv Gc)) * mnorm n (ent (inv Gc))) * KGIM in
    invertible n Jc -> mnorm n (ent (inv Jc)) * (CJ_pois n rho Bs theta boots * (eps * eps)) <= 1 / 2 ->
    invertible n Gc -> mnorm n (ent (inv Gc)) * (KGIM * (eps * eps)) <= 1 / 2 ->
    invertible n J' /\ invertible n G' /\
    mnorm n (msub (ent G') (ent Gc)) <= KGIM * (eps * eps) /\
    (forall i j, (i < n)%nat -> (j < n)%nat -> Rabs (ent (inv G') i j - ent (inv Gc) i j) <= K * (eps * eps)) /\
    (forall i, (i < n)%nat -> K * (eps * eps) < ent (inv Gc) i i ->
       0 < ent (inv G') i i /\
       Rabs (uncert inv G' i - uncert inv Gc i) <= K / sqrt (ent (inv Gc) i i) * (eps * eps)).
  Proof.
    intros Hn Hadj Hadjs Hm Hrho Hsh Hne He Hle He1 Hcen HJc H' J' Hc Jc G' Gc KGIM K HJ Hh1 HG Hh2.
    destruct (pois_H_close n Bs theta rho data boots eps Hn Hadj Hm Hrho Hsh He Hle He1 Hcen) as [wH' [wHc [HbH HCH]]].
    destruct (pois_J_close n Bs theta rho data boots eps Hn Hadj Hadjs Hm Hrho Hsh Hne He Hle He1 Hcen)
      as [wJ' [wJc [_ [_ [HbJ [_ [HCJ _]]]]]]].
    destruct (eps2_range eps He He1) as [_ Hr].
    destruct (stage_GIM_uncert n inv inv_spec Hc H' Jc J' _ _ _ wHc wH' wJc wJ' HbH HbJ Hr HCH HCJ HJ Hh1 HG Hh2)
      as [A [B [C D]]].
    destruct (stage_GIM n inv inv_spec Hc H' Jc J' _ _ _ wHc wH' wJc wJ' HbH HbJ Hr HCH HCJ HJ Hh1) as [_ [_ [_ E]]].
    split; [exact A|]. split; [exact B|]. split; [exact E|]. split; [exact C|exact D].
  Qed.

  (** LRT_adjust, Wald_stat, score_stat with every parameter nested (diff_func = func_ex), multinom=False *)
  Theorem poisson_LRT_Wald_score_within_eps2
    (Bs : list (list R)) (theta : list R) (rho : R) (data : @pdata R) (boots : list (@pdata R)) (eps : R) :
    length theta = n ->
    0 < pd_adj data -> List.Forall (fun bt => 0 < pd_adj bt) boots -> List.Forall (fun b => 0 < ndot theta b) Bs ->
    0 < rho -> share_bound Bs theta rho -> boots <> [] ->
    0 < eps -> eps <= / (8 * rho) -> eps <= 1 ->
    (forall k, (k < length theta)%nat -> nth k theta 0 <> 0 /\ Rtiny <= nth k theta 0 * eps) ->
    let HJc := godambe_HJc (fun bt => pois_ll (lin_mean Bs) bt) theta eps data boots in
    let H' := fst (fst HJc) in let J' := snd (fst HJc) in let cU' := snd HJc in
    let Hc := pois_H_mat n Bs data theta in let Jc := pois_J_mat n Bs theta boots in let cUc := pois_cU_vec n Bs theta boots in
    let CH := CH_pois n rho Bs data theta in let CJ := CJ_pois n rho Bs theta boots in let Cc := Cc_pois n rho Bs theta boots in
    (* LRT_adjust *)
    (forall k : R,
     invertible n Hc -> mnorm n (ent (inv Hc)) * (CH * (eps * eps)) <= 1 / 2 ->
     trace (mat_mul Jc (inv Hc)) <> 0 ->
     KT (mnorm n (ent (inv Hc))) (mnorm n (ent Jc)) CH CJ * (eps * eps) <= Rabs (trace (mat_mul Jc (inv Hc))) / 2 ->
     invertible n H' /\ trace (mat_mul J' (inv H')) <> 0 /\
     Rabs (k / trace (mat_mul J' (inv H')) - k / trace (mat_mul Jc (inv Hc)))
     <= 2 * Rabs k * KT (mnorm n (ent (inv Hc))) (mnorm n (ent Jc)) CH CJ
        / (trace (mat_mul Jc (inv Hc)) * trace (mat_mul Jc (inv Hc))) * (eps * eps)) /\
    (* Wald_stat: original and adjusted *)
    (forall d : list R, length d = n ->
     Rabs (qform H' d - qform Hc d) <= vnorm n (vec d) * vnorm n (vec d) * CH * (eps * eps) /\
     (invertible n Jc -> mnorm n (ent (inv Jc)) * (CJ * (eps * eps)) <= 1 / 2 ->
      Rabs (qform (gim_of inv H' J') d - qform (gim_of inv Hc Jc) d)
      <= vnorm n (vec d) * vnorm n (vec d) * KG (mnorm n (ent Hc)) (mnorm n (ent (inv Jc))) CH CJ * (eps * eps))) /\
    (* score_stat: adjusted and original *)
    (invertible n Jc -> mnorm n (ent (inv Jc)) * (CJ * (eps * eps)) <= 1 / 2 ->
     invertible n J' /\
     Rabs (qform (inv J') cU' - qform (inv Jc) cUc) <= KG (vnorm n (vec cUc)) (mnorm n (ent (inv Jc))) Cc CJ * (eps * eps)) /\
    (invertible n Hc -> mnorm n (ent (inv Hc)) * (CH * (eps * eps)) <= 1 / 2 ->
     invertible n H' /\
     Rabs (qform (inv H') cU' - qform (inv Hc) cUc) <= KG (vnorm n (vec cUc)) (mnorm n (ent (inv Hc))) Cc CH * (eps * eps)).
  Proof.
    intros Hn Hadj Hadjs Hm Hrho Hsh Hne He Hle He1 Hcen HJc H' J' cU' Hc Jc cUc CH CJ Cc.
    destruct (pois_H_close n Bs theta rho data boots eps Hn Hadj Hm Hrho Hsh He Hle He1 Hcen) as [wH' [wHc [HbH HCH]]].
    destruct (pois_J_close n Bs theta rho data boots eps Hn Hadj Hadjs Hm Hrho Hsh Hne He Hle He1 Hcen)
      as [wJ' [wJc [lU' [lUc [HbJ [HbU [HCJ HCc]]]]]]].
    destruct (eps2_range eps He He1) as [_ Hr].
    split; [|split].
    - intros k. exact (stage_LRT n inv inv_spec Hc H' Jc J' _ _ _ wHc wH' wJc wJ' HbH HbJ Hr HCJ k).
    - intros d Hd. exact (stage_Wald n inv inv_spec Hc H' Jc J' _ _ _ wHc wH' wJc wJ' HbH HbJ Hr HCH HCJ d Hd).
    - exact (stage_score n inv inv_spec Hc H' Jc J' cUc cU' _ _ _ _ wHc wH' wJc wJ' lUc lU' HbH HbJ HbU Hr HCH HCJ HCc).
  Qed.
End Oracle.

(** ** the oracle contract is satisfiable: 1 x 1 (reciprocal) and 2 x 2 (adjugate / determinant) *)
Definition inv1 (M : list (list R)) : list (list R) := [[ / ent M 0%nat 0%nat ]].

Lemma mmul1 A B : mmul 1 A B 0%nat 0%nat = A 0%nat 0%nat * B 0%nat 0%nat.
Proof. unfold mmul. cbn [rsum]. ring. Qed.

Lemma meq1 A B : A 0%nat 0%nat = B 0%nat 0%nat -> meq 1 A B.
Proof. intros H i j Hi Hj. assert (i = 0%nat) by lia. assert (j = 0%nat) by lia. subst. exact H. Qed.

Example inv1_spec : forall M, wf 1 M -> invertible 1 M -> wf 1 (inv1 M) /\ is_inv 1 (ent M) (ent (inv1 M)).
Proof.
  intros M _ [Mi [_ [H1 _]]].
  pose proof (H1 0%nat 0%nat Nat.lt_0_1 Nat.lt_0_1) as E. rewrite mmul1 in E. unfold mI, kron in E. cbn [Nat.eqb] in E.
  assert (Hnz : ent M 0%nat 0%nat <> 0) by (intros Z; rewrite Z in E; lra).
  split.
  - split; [reflexivity|]. intros r [<-|[]]. reflexivity.
  - split; apply meq1; rewrite mmul1; unfold inv1, mI, kron; cbn [ent nth Nat.eqb]; field; exact Hnz.
Qed.

Definition inv2 (M : list (list R)) : list (list R) :=
  let a := ent M 0%nat 0%nat in let b := ent M 0%nat 1%nat in let c := ent M 1%nat 0%nat in let d := ent M 1%nat 1%nat in
  let dt := a * d - b * c in [[ d / dt; - b / dt ]; [ - c / dt; a / dt ]].

Lemma mmul2 A B i j : mmul 2 A B i j = A i 0%nat * B 0%nat j + A i 1%nat * B 1%nat j.
Proof. unfold mmul. cbn [rsum]. ring. Qed.

Example inv2_spec : forall M, wf 2 M -> invertible 2 M -> wf 2 (inv2 M) /\ is_inv 2 (ent M) (ent (inv2 M)).
Proof.
  intros M _ [Mi [_ [H1 _]]].
  pose proof (H1 0%nat 0%nat) as E00. pose proof (H1 0%nat 1%nat) as E01.
  pose proof (H1 1%nat 0%nat) as E10. pose proof (H1 1%nat 1%nat) as E11.
  rewrite mmul2 in E00, E01, E10, E11. unfold mI, kron in E00, E01, E10, E11. cbn [Nat.eqb] in E00, E01, E10, E11.
  specialize (E00 ltac:(lia) ltac:(lia)). specialize (E01 ltac:(lia) ltac:(lia)).
  specialize (E10 ltac:(lia) ltac:(lia)). specialize (E11 ltac:(lia) ltac:(lia)).
  set (a := ent M 0%nat 0%nat) in *. set (b := ent M 0%nat 1%nat) in *. set (c := ent M 1%nat 0%nat) in *. set (d := ent M 1%nat 1%nat) in *.
  set (p := ent Mi 0%nat 0%nat) in *. set (q := ent Mi 0%nat 1%nat) in *. set (r := ent Mi 1%nat 0%nat) in *. set (s := ent Mi 1%nat 1%nat) in *.
  assert (Hdet : (a * d - b * c) * (p * s - q * r) = 1).
  { replace ((a * d - b * c) * (p * s - q * r)) with ((a * p + b * r) * (c * q + d * s) - (a * q + b * s) * (c * p + d * r)) by ring.
    rewrite E00, E01, E10, E11. ring. }
  assert (Hnz : a * d - b * c <> 0) by (intros Z; rewrite Z in Hdet; lra).
  split.
  - split; [reflexivity|]. intros r0 [<-|[<-|[]]]; reflexivity.
  - split; apply meq2; rewrite mmul2; unfold inv2, mI, kron; cbn [ent nth Nat.eqb];
      fold a b c d; field; exact Hnz.
Qed.

(** ** non-vacuity of the final theorem: one parameter theta = 1, one entry with B = (1), d = 4, adj = 1, eps = 1/100, rho = 1,
       oracle [inv1].  Closed form H = (4), inverse (1/4), CH = 160, K = 20: the FIM standard deviation computed from the
       finite-difference Hessian is within 20 / sqrt(1/4) * 1e-4 = 4e-3 of the exact 1/2. *)
Example poisson_FIM_uncert_nonvacuous :
  let Bs := [[1]] in let dt := {| pd_adj := 1; pd_d := [4]; pd_g := [0] |} in
  let H' := fst (fst (godambe_HJc (fun bt => pois_ll (lin_mean Bs) bt) [1] (1 / 100) dt [])) in
  0 < ent (inv1 H') 0%nat 0%nat /\ Rabs (uncert inv1 H' 0%nat - 1 / 2) <= 4 / 1000.
Proof.
  intros Bs dt H'.
  assert (Hadj : 0 < pd_adj dt) by (cbn; lra).
  assert (Hm : List.Forall (fun b => 0 < ndot [1] b) Bs).
  { unfold Bs. apply Forall_cons; [|apply Forall_nil]. unfold ndot, nsum; cbn; numR; lra. }
  assert (Hsh : share_bound Bs [1] 1).
  { apply share_bound_nonneg. unfold Bs. apply Forall_cons; [|apply Forall_nil].
    intros k; destruct k as [|[|k]]; cbn [nth]; lra. }
  assert (Hcen : forall k, (k < length [1])%nat -> nth k [1] 0 <> 0 /\ Rtiny <= nth k [1] 0 * (1 / 100)).
  { intros k Hk. cbn [length] in Hk. assert (k = 0%nat) by lia. subst k. cbn [nth]. unfold Rtiny. split; lra. }
  assert (EH : pois_hess Bs dt [1] 0%nat 0%nat = - 4).
  { unfold pois_hess, Bs, dt, ndot, nsum. cbn. numR. field. }
  assert (EA : pois_abs_hess Bs dt [1] 0%nat 0%nat = 4).
  { unfold pois_abs_hess, habs, Bs, dt, ndot, nsum. cbn. numR. rewrite !Rabs_right by lra. field. }
  assert (EHc : pois_H_mat 1 Bs dt [1] = [[4]]).
  { unfold pois_H_mat. cbn [seq map]. rewrite EH. repeat f_equal. ring. }
  assert (EC : CH_pois 1 1 Bs dt [1] = 160).
  { unfold CH_pois. cbn [rsum]. rewrite EA. ring. }
  assert (Ei : ent (inv1 [[4]]) 0%nat 0%nat = / 4) by reflexivity.
  assert (En : mnorm 1 (ent (inv1 [[4]])) = / 4).
  { unfold mnorm. cbn [rsum]. rewrite Ei, Rabs_right by lra. ring. }
  assert (HI : invertible 1 [[4]]).
  { exists [[ / 4 ]]. split; [split; [reflexivity|intros r [<-|[]]; reflexivity]|].
    split; apply meq1; rewrite mmul1; unfold mI, kron; cbn [ent nth Nat.eqb]; field. }
  pose proof (poisson_FIM_uncert_within_eps2 1 inv1 inv1_spec Bs [1] 1 dt [] (1 / 100) eq_refl Hadj Hm Rlt_0_1 Hsh
                ltac:(lra) ltac:(lra) ltac:(lra) Hcen) as T.
  cbv zeta in T. fold H' in T. rewrite EHc, EC, En in T.
  destruct (T HI ltac:(lra)) as [_ [_ T3]].
  destruct (T3 0%nat Nat.lt_0_1) as [P Q]; [rewrite Ei; lra|].
  split; [exact P|].
  unfold uncert in Q at 2. rewrite Ei in Q.
  assert (S4 : sqrt (/ 4) = 1 / 2).
  { replace (/ 4) with ((1 / 2) * (1 / 2)) by field. apply sqrt_square. lra. }
  rewrite S4 in Q. eapply Rle_trans; [exact Q|]. right. field.
Qed.

(** ** non-vacuity of the oracle stage at n = 2 with [inv2]:  H = [[2,1],[1,1]], H' = H + [[1/100,0],[0,0]], CH = 1, e2 = 1/100
       (|inv H| = 5): every entry of inv H' is within 2 * 25 * 1/100 = 1/2 of inv H, and inv H' exists *)
Example stage_FIM_nonvacuous_2x2 :
  let H := [[2; 1]; [1; 1]] in let H' := [[2 + 1 / 100; 1]; [1; 1]] in
  invertible 2 H' /\
  forall i j, (i < 2)%nat -> (j < 2)%nat -> Rabs (ent (inv2 H') i j - ent (inv2 H) i j) <= 1 / 2.
Proof.
  intros H H'.
  assert (wH : wf 2 H) by (split; [reflexivity|intros r [<-|[<-|[]]]; reflexivity]).
  assert (wH' : wf 2 H') by (split; [reflexivity|intros r [<-|[<-|[]]]; reflexivity]).
  assert (HI : invertible 2 H).
  { exists [[1; -1]; [-1; 2]]. split; [split; [reflexivity|intros r [<-|[<-|[]]]; reflexivity]|].
    split; apply meq2; rewrite mmul2; unfold mI, kron, H; cbn [ent nth Nat.eqb]; lra. }
  assert (Hc : mnorm 2 (msub (ent H') (ent H)) <= 1 * (1 / 100)).
  { unfold mnorm, msub, H, H'. cbn [rsum ent nth]. unfold Rabs. repeat destruct Rcase_abs; lra. }
  assert (En : mnorm 2 (ent (inv2 H)) = 5).
  { unfold mnorm, inv2, H. cbn [rsum ent nth]. unfold Rabs. repeat destruct Rcase_abs; lra. }
  destruct (stage_FIM 2 inv2 inv2_spec H H' 1 (1 / 100) wH wH' Hc HI ltac:(rewrite En; lra)) as [A [B _]].
  split; [exact A|]. intros i j Hi Hj. eapply Rle_trans; [apply (B i j Hi Hj)|]. rewrite En. lra.
Qed.
