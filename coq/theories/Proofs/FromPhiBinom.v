(** MathComp side of C05: the model's integer binomial [cZ] is MathComp's ['C(n,k)]; the identities the
    stdlib-style files need are restated on plain [nat]/[Z] so that they never see MathComp notations. *)
From mathcomp Require Import all_ssreflect zify.
From Coq Require Import ZArith NArith Lia.
From Dadi Require Import Model.FromPhi.

Lemma cbinM_bin n k : k <= n -> cbinM n k = N.of_nat 'C(n, k).
Proof.
elim: k => [|k IH] kn; first by rewrite bin0.
rewrite /= IH; last by lia.
have E : (N.of_nat 'C(n, k) * N.of_nat (n - k) = N.of_nat 'C(n, k.+1) * N.of_nat k.+1)%N.
  rewrite -!Nnat.Nat2N.inj_mul; congr N.of_nat.
  have := mul_bin_left n k. rewrite /muln /muln_rec /subn /subn_rec. lia.
rewrite E N.div_mul //.
Qed.

Lemma cbinN_bin n k : cbinN n k = N.of_nat 'C(n, k).
Proof.
rewrite /cbinN. case: (Nat.leb_spec k n) => H.
- have kn : k <= n by lia.
  case: (Nat.min_spec k (n - k)) => -[_ ->].
  + by rewrite cbinM_bin.
  + rewrite cbinM_bin; last by lia.
    rewrite -(bin_sub kn). by [].
- rewrite bin_small //. lia.
Qed.

Lemma cZ_bin n k : cZ n k = Z.of_nat 'C(n, k).
Proof. by rewrite /cZ cbinN_bin nat_N_Z. Qed.

Lemma cZ_n0 n : cZ n 0 = 1%Z.
Proof. by rewrite cZ_bin bin0. Qed.

Lemma cZ_nn n : cZ n n = 1%Z.
Proof. by rewrite cZ_bin binn. Qed.

Lemma cZ_small n k : (n < k)%coq_nat -> cZ n k = 0%Z.
Proof. move=> H; rewrite cZ_bin bin_small //. lia. Qed.

Lemma cZ_pos n k : (k <= n)%coq_nat -> (0 < cZ n k)%Z.
Proof. move=> H; rewrite cZ_bin. have : 0 < 'C(n, k) by rewrite bin_gt0; lia. lia. Qed.

(** Pascal *)
Lemma cZ_pascal n k : cZ (S n) (S k) = (cZ n (S k) + cZ n k)%Z.
Proof. by rewrite !cZ_bin binS Nat2Z.inj_add. Qed.

(** absorption: (k+1) C(n+1,k+1) = (n+1) C(n,k) *)
Lemma cZ_absorb n k : (Z.of_nat (S k) * cZ (S n) (S k) = Z.of_nat (S n) * cZ n k)%Z.
Proof.
rewrite !cZ_bin -!Nat2Z.inj_mul; congr Z.of_nat.
have := mul_bin_diag (S n) k. rewrite /= /muln /muln_rec. lia.
Qed.

(** (n-k) C(n,k) = n C(n-1,k) *)
Lemma cZ_down n k : (Z.of_nat (S n - k)%coq_nat * cZ (S n) k = Z.of_nat (S n) * cZ n k)%Z.
Proof.
rewrite !cZ_bin -!Nat2Z.inj_mul; congr Z.of_nat.
have := mul_bin_down (S n) k. rewrite [n.+1.-1]/= /muln /muln_rec /subn /subn_rec => E.
rewrite Nat.mul_comm in E. rewrite -E. by rewrite Nat.mul_comm.
Qed.

Lemma cZ_sym n k : (k <= n)%coq_nat -> cZ n (n - k)%coq_nat = cZ n k.
Proof.
move=> H; rewrite !cZ_bin. have kn : k <= n by lia.
by rewrite -[(n - k)%coq_nat]/(n - k) (bin_sub kn).
Qed.

(** C(m,i) C(n-m,j-i) summed over i is C(n,j) (Vandermonde) *)
Lemma cZ_vandermonde a b j :
  (\sum_(i < j.+1) 'C(a, i) * 'C(b, j - i)) = 'C(a + b, j).
Proof. by rewrite Vandermonde. Qed.
