(** C18: deep coverage, with a RATE.  When every individual is covered at depth >= D the corrected model is within
    an explicit  C(sizes, D) * 2^-D * total(model)  of the plain projection, entry by entry, for any number of
    populations (and in particular for one).

    Skeleton.  With c0 = c1 = 0, pos = 1 the enough-covered factor is exactly 1; every no-call probability away from the
    absent-allele corner is at most  s + N t  (so, below the threshold, the analytic regime is used everywhere that matters);
    the calling-error matrix has diagonal >= 1 - M h.  Hence, entrywise,
        lowpass >= kappa * plain_projection,     kappa = (1 - Bm) * prod_k (1 - M_k h_k)   (each factor clipped at 0),
    by monotonicity of the non-negative operators; and because the total of the corrected model is at most the total of the
    model (= the total of the plain projection), the same entrywise lower bound gives the upper bound
        lowpass[idx] <= kappa * plain[idx] + (1 - kappa) * total. *)
From Coq Require Import ZArith QArith Qreduction Qabs List Bool Arith Lia Lqa Setoid Morphisms.
From Dadi Require Import Model.LowPass Proofs.LowPassBinom Proofs.LowPassPart Proofs.LowPassQ Proofs.LowPassProb Proofs.LowPassMat
  Proofs.LowPassCall Proofs.LowPassTens Proofs.LowPassTotal Proofs.LowPassGet Proofs.LowPassDeep.
Import ListNotations.
Local Open Scope Q_scope.

(** ** small facts on Q *)
(** Bernoulli's inequality *)
Lemma bernoulli h : 0 <= h <= 1 -> forall n, 1 - qnat n * h <= qpow (1 - h) n.
Proof.
  intros Hh. induction n as [|n IH].
  - cbn [qpow]. change (qnat 0) with 0. lra.
  - rewrite qpow_S, qnat_S.
    assert (P : 0 <= qpow (1 - h) n) by (apply qpow_nonneg; lra).
    pose proof (qnat_nonneg n) as Hn.
    set (u := qpow (1 - h) n) in *. set (m := qnat n) in *.
    assert (0 <= m * h * h) by (repeat apply Qmult_le_0_compat; lra).
    assert ((1 - h) * (1 - m * h) <= (1 - h) * u) by nra.
    nra.
Qed.

Lemma qnat_le a b : (a <= b)%nat -> qnat a <= qnat b.
Proof. intros H. unfold qnat. rewrite <- Zle_Qle. lia. Qed.

(** clipping at 0 *)
Definition clip0 (x : Q) : Q := if Qle_bool 0 x then x else 0.

Lemma clip0_spec x : 0 <= clip0 x /\ x <= clip0 x /\ (x <= 1 -> clip0 x <= 1).
Proof.
  unfold clip0. destruct (Qle_bool 0 x) eqn:E.
  - apply Qle_bool_iff in E. repeat split; lra.
  - assert (~ 0 <= x) by (intros H; apply Qle_bool_iff in H; congruence). repeat split; lra.
Qed.

(** a product of clipped factors loses at most the sum of the deficits *)
Lemma clip_prod_bound (es : list Q) : (forall e, In e es -> 0 <= e) ->
  0 <= qprod (map (fun e => clip0 (1 - e)) es) <= 1 /\ 1 - qsum es <= qprod (map (fun e => clip0 (1 - e)) es).
Proof.
  induction es as [|e es IH]; intros H.
  - unfold qprod, qsum. cbn. lra.
  - cbn [map]. unfold qprod in *. cbn [fold_right]. rewrite qsum_cons.
    destruct IH as [[P0 P1] PS]; [intros; apply H; now right|].
    assert (He : 0 <= e) by (apply H; now left).
    assert (0 <= qsum es) by (apply qsum_nonneg; intros; apply H; now right).
    destruct (clip0_spec (1 - e)) as (C0 & C1 & C2). specialize (C2 ltac:(lra)).
    set (b := clip0 (1 - e)) in *. set (P := fold_right Qmult 1 (map (fun e0 => clip0 (1 - e0)) es)) in *.
    split; [nra|].
    destruct (Qlt_le_dec (1 - e) 0) as [Hn|Hp].
    + assert (0 <= b * P) by nra. lra.
    + assert ((1 - e) * P <= b * P) by nra. nra.
Qed.

(** one term of a non-negative sum *)
Lemma qsum_term_le (f : nat -> Q) n j : (j < n)%nat -> (forall a, (a < n)%nat -> 0 <= f a) ->
  f j <= qsum (map f (seq 0 n)).
Proof.
  intros Hj Hf. rewrite <- (qsum_delta f n j Hj). apply qsum_map_le. intros a Ha. apply in_seq in Ha.
  specialize (Hf a ltac:(lia)). destruct (a =? j)%nat; lra.
Qed.

Lemma nth_nonneg (l : list Q) j : (forall e, In e l -> 0 <= e) -> 0 <= nth j l 0.
Proof. intros H. destruct (nth_in_or_default j l 0) as [Hin|E]; [apply H, Hin | rewrite E; lra]. Qed.

(** ** populations near the deep limit: no mass at depths 0 and 1 (what [deep_coverage_stats_bound] delivers) *)
Definition near_deep (p : pop) : Prop :=
  pop_ok p /\ st_c0 (p_st p) == 0 /\ st_c1 (p_st p) == 0 /\ (2 <= p_nseq p)%nat.

(** per-population constants: the no-call bound  s + N t  and the miscall deficit  M h *)
Definition nc_bound (p : pop) : Q := st_s (p_st p) + qnat (p_nseq p / 2) * st_t (p_st p).
Definition het_bound (p : pop) : Q := qnat (p_nsub p / 2) * st_h (p_st p).

Lemma nc_bound_nonneg p : pop_ok p -> 0 <= nc_bound p.
Proof.
  intros (V & _). unfold nc_bound. pose proof (vs_s _ V). pose proof (vs_t _ V). pose proof (qnat_nonneg (p_nseq p / 2)).
  assert (0 <= qnat (p_nseq p / 2) * st_t (p_st p)) by (apply Qmult_le_0_compat; assumption). lra.
Qed.

Lemma het_bound_nonneg p : pop_ok p -> 0 <= het_bound p.
Proof.
  intros (V & _). unfold het_bound. pose proof (vs_h _ V) as [H _]. apply Qmult_le_0_compat; [apply qnat_nonneg | exact H].
Qed.

(** (a) enough individuals are covered, exactly *)
Lemma enough_near st nseq nsub : st_c0 st == 0 -> st_pos st == 1 ->
  Nat.even nseq = true -> Nat.even nsub = true -> (nsub <= nseq)%nat -> (2 <= nseq)%nat ->
  enough st nseq nsub == 1.
Proof.
  intros C0 Pos E1 E2 Hs H2. unfold enough. cbv zeta. rewrite Qred_correct.
  pose proof (even_half _ E1) as N1. pose proof (even_half _ E2) as N2.
  set (N := (nseq / 2)%nat) in *.
  assert (Hlo : ((nsub + 1) / 2 - 1 <= N - 1)%nat).
  { assert ((nsub + 1) / 2 = nsub / 2)%nat.
    { rewrite <- N2 at 1. rewrite Nat.add_comm, Nat.mul_comm, Nat.div_add by lia. reflexivity. }
    lia. }
  set (lo := ((nsub + 1) / 2 - 1)%nat) in *.
  replace (N - lo)%nat with ((N - 1 - lo) + 1)%nat by lia. rewrite seq_app, map_app, qsum_app.
  rewrite qsum_zero.
  - replace (lo + (N - 1 - lo))%nat with (N - 1)%nat by lia. cbn [seq map]. rewrite qsum_cons, qsum_nil.
    rewrite Nat.sub_diag, binQ_nn, Pos, qpow_1. cbn [qpow]. ring.
  - intros cv Hcv. apply in_seq in Hcv. replace (N - 1 - cv)%nat with (S (N - 2 - cv)) by lia. rewrite C0, qpow_0. ring.
Qed.

Lemma near_deep_pos p : near_deep p -> st_pos (p_st p) == 1.
Proof. intros ((V & _) & C0 & _). pose proof (vs_tot _ V). lra. Qed.

Lemma pe_tot_near pops : Forall near_deep pops -> pe_tot pops == 1.
Proof.
  intros H. unfold pe_tot. rewrite Qred_correct. induction H as [|p pops Hp _ IH]; [reflexivity|].
  cbn [map]. unfold qprod in *. cbn [fold_right]. rewrite IH.
  pose proof (near_deep_pos p Hp) as Pos.
  destruct Hp as ((_ & E1 & E2 & Hs & _) & C0 & _ & H2). rewrite enough_near by assumption. ring.
Qed.

(** (b) no-call probabilities away from allele count 0 *)
Lemma nocall_part_near st pt n af : valid_stats st -> st_c0 st == 0 -> st_c1 st == 0 ->
  is_config n (Z.of_nat af) 0 pt -> (1 <= af)%nat ->
  0 <= nocall_part st pt <= st_s st + qnat n * st_t st.
Proof.
  intros V C0 C1 Cf Haf. split; [apply nocall_part_unit, V|].
  pose proof (counts_of_config pt (config_le2 _ _ _ _ Cf)) as [K1 K2]. destruct Cf as (Ln & Sm & _ & _).
  apply Nat2Z.inj in Sm.
  pose proof (vs_s _ V) as Hs. pose proof (vs_t _ V) as Ht. pose proof (vs_st _ V) as Hst.
  pose proof (qnat_nonneg n) as Hn.
  assert (Hnt : 0 <= qnat n * st_t st) by (apply Qmult_le_0_compat; assumption).
  unfold nocall_part. cbv zeta.
  destruct (cnt 2 pt) as [|k2] eqn:E2.
  - destruct (cnt 1 pt) as [|k1] eqn:E1; [lia|].
    cbn [Nat.ltb Nat.leb qpow_pred]. rewrite qpow_S. cbn [qpow].
    assert (U0 : 0 <= qpow (st_s st) k1) by (apply qpow_nonneg, Hs).
    assert (U1 : qpow (st_s st) k1 <= 1) by (apply qpow_le1; lra).
    assert (Hm : qnat (S k1) <= qnat n) by (apply qnat_le; lia).
    pose proof (qnat_nonneg (S k1)) as Hm0.
    set (u := qpow (st_s st) k1) in *. set (m := qnat (S k1)) in *. set (s := st_s st) in *. set (t := st_t st) in *.
    assert (0 <= m * t) by (apply Qmult_le_0_compat; assumption).
    assert (u * (m * t) <= m * t) by nra.
    assert (m * t <= qnat n * t) by nra.
    assert (s * u <= s) by nra.
    nra.
  - match goal with |- ?e <= _ => assert (Z : e == 0) end.
    { cbn [Nat.ltb Nat.leb]. rewrite !qpow_S, C0, C1. ring. }
    rewrite Z. lra.
Qed.

Lemma dot_le_const {A} (B : Q) (f : A -> Q) : 0 <= B -> forall (ps : list Q) (pts : list A),
  (forall p, In p ps -> 0 <= p) -> (forall pt, In pt pts -> 0 <= f pt <= B) ->
  0 <= dot ps (map f pts) <= B * qsum ps.
Proof.
  intros HB. induction ps as [|p ps IH]; intros pts Hp Hf.
  - unfold dot. cbn. lra.
  - assert (P0 : 0 <= p) by (apply Hp; now left).
    assert (S0 : 0 <= qsum ps) by (apply qsum_nonneg; intros; apply Hp; now right).
    destruct pts as [|pt pts].
    + unfold dot. cbn [map combine]. rewrite qsum_nil, qsum_cons. nra.
    + cbn [map]. rewrite dot_cons, qsum_cons.
      assert (0 <= f pt <= B) by (apply Hf; now left).
      destruct (IH pts) as [L U]; [intros; apply Hp; now right | intros; apply Hf; now right|]. nra.
Qed.

Lemma nocall_at_near st nseq F af : valid_stats st -> st_c0 st == 0 -> st_c1 st == 0 ->
  (1 <= af <= 2 * (nseq / 2))%nat -> F_ok F ->
  0 <= nocall_at st nseq F af <= st_s st + qnat (nseq / 2) * st_t st.
Proof.
  intros V C0 C1 Haf HF. unfold nocall_at. cbv zeta. rewrite Qred_correct.
  set (B := st_s st + qnat (nseq / 2) * st_t st).
  assert (HB : 0 <= B).
  { unfold B. pose proof (vs_s _ V). pose proof (vs_t _ V). pose proof (qnat_nonneg (nseq / 2)).
    assert (0 <= qnat (nseq / 2) * st_t st) by (apply Qmult_le_0_compat; assumption). lra. }
  destruct (dot_le_const B (nocall_part st) HB (part_probs F (parts nseq af)) (parts nseq af)) as [L U].
  - apply part_probs_nonneg, HF.
  - intros pt Hpt. apply parts_spec in Hpt. apply (nocall_part_near st pt (nseq / 2) af); auto. lia.
  - rewrite part_probs_sum_to_one in U by (auto; lia). split; lra.
Qed.

Lemma nocall_1D_near p i : near_deep p -> (1 <= i)%nat ->
  0 <= nth i (nocall_1D (p_st p) (p_nseq p) (p_F p)) 0 <= nc_bound p.
Proof.
  intros (Hok & C0 & C1 & H2) Hi. pose proof (nc_bound_nonneg p Hok) as HB. destruct Hok as (V & E1 & _ & _ & HF).
  unfold nocall_1D. rewrite nth_map_seq. destruct (Nat.ltb_spec i (p_nseq p + 1)); [|lra].
  apply nocall_at_near; auto. rewrite even_half by exact E1. lia.
Qed.

Lemma nocall_1D_unit_nth p i : pop_ok p -> 0 <= nth i (nocall_1D (p_st p) (p_nseq p) (p_F p)) 0 <= 1.
Proof.
  intros (V & E1 & _ & _ & HF). destruct (nocall_1D_unit _ _ _ V E1 HF) as [_ U].
  destruct (nth_in_or_default i (nocall_1D (p_st p) (p_nseq p) (p_F p)) 0) as [Hin|E]; [apply U, Hin | rewrite E; lra].
Qed.

(** the product over populations, at any index that is not the absent-allele corner *)
Lemma pnc_at_near Bm : forall pops idx, Forall near_deep pops -> Forall (fun p => nc_bound p <= Bm) pops ->
  length idx = length pops -> is_origin idx = false -> 0 <= pnc_at pops idx <= Bm.
Proof.
  unfold pnc_at, pnc_vecs. induction pops as [|p pops IH]; intros idx H HB L O.
  - destruct idx; [discriminate O | discriminate L].
  - destruct idx as [|i idx]; [discriminate|]. cbn [map prod_at].
    pose proof (Forall_inv H) as Hp. pose proof (Forall_inv_tail H) as Hps.
    pose proof (Forall_inv HB) as Bp. cbv beta in Bp. pose proof (Forall_inv_tail HB) as Bps.
    assert (Hoks : Forall pop_ok pops) by (eapply Forall_impl; [|exact Hps]; intros q Hq; apply Hq).
    pose proof (pnc_at_unit pops idx Hoks) as R1. unfold pnc_at, pnc_vecs in R1.
    pose proof (nocall_1D_unit_nth p i (proj1 Hp)) as A1.
    cbn [is_origin forallb] in O. fold (is_origin idx) in O.
    set (a := nth i (nocall_1D (p_st p) (p_nseq p) (p_F p)) 0) in *.
    set (r := prod_at (map (fun p0 => nocall_1D (p_st p0) (p_nseq p0) (p_F p0)) pops) idx) in *.
    destruct (Nat.eqb_spec i 0) as [->|Hne].
    + cbn [andb] in O. destruct (IH idx Hps Bps ltac:(cbn in L; lia) O) as [R0 RB]. fold r in R0, RB. assert (a * r <= r) by nra. assert (0 <= a * r) by nra. lra.
    + pose proof (nocall_1D_near p i Hp ltac:(lia)) as A2. fold a in A2. assert (a * r <= a) by nra. assert (0 <= a * r) by nra. lra.
Qed.

(** (c) the analytic regime is used everywhere except possibly at the corner *)
Lemma use_sim_near pops thr Bm idx : Forall near_deep pops -> Forall (fun p => nc_bound p <= Bm) pops -> Bm <= thr ->
  length idx = length pops -> is_origin idx = false -> use_sim pops thr idx = false.
Proof.
  intros H HB Ht L O. unfold use_sim, use_sim_v. apply negb_false_iff. apply Qle_bool_iff.
  change (prod_at (pnc_vecs pops) idx) with (pnc_at pops idx).
  destruct (pnc_at_near Bm pops idx H HB L O). lra.
Qed.

(** ** (d) the calling-error matrix keeps at least 1 - M h on its diagonal *)
Lemma binpmf_0 n h : binpmf 0 n h == qpow (1 - h) n.
Proof. unfold binpmf. rewrite binQ_n0, Nat.sub_0_r. cbn [qpow]. ring. Qed.

Lemma cem_contribs_diag h af pp : 0 <= h <= 1 -> 0 <= snd pp ->
  snd pp * qpow (1 - h) (cnt 1 (fst pp))
  <= qsum (map (fun c => if (fst c =? af)%nat then snd c else 0) (cem_contribs h af pp)).
Proof.
  intros Hh Hp. unfold cem_contribs. cbv zeta. rewrite map_flat_map, qsum_flat_map.
  replace (cnt 1 (fst pp) + 1)%nat with (S (cnt 1 (fst pp))) by lia. rewrite seq0_S. cbn [map]. rewrite qsum_cons.
  assert (R : 0 <= qsum (map (fun x => qsum (map (fun c : nat * Q => if (fst c =? af)%nat then snd c else 0)
                 (map (fun r => ((af + (x - r) - r)%nat, snd pp * binpmf x (cnt 1 (fst pp)) h * binpmf r x half)) (seq 0 (x + 1)))))
               (map S (seq 0 (cnt 1 (fst pp)))))).
  { apply qsum_map_nonneg. intros e _. rewrite map_map. apply qsum_map_nonneg. intros r _. cbn [fst snd].
    destruct (_ =? af)%nat; [|lra].
    apply Qmult_le_0_compat; [apply Qmult_le_0_compat; [exact Hp|]|]; apply binpmf_nonneg; [exact Hh | exact half_unit]. }
  cbn [seq map Nat.add fst snd Nat.sub] in *. rewrite qsum_cons, qsum_nil. rewrite Nat.add_0_r, Nat.sub_0_r, Nat.eqb_refl.
  rewrite binpmf_0, binpmf_00. lra.
Qed.

Lemma cem_row_diag h nsub F af : 0 <= h <= 1 -> (af <= 2 * (nsub / 2))%nat -> (af <= nsub)%nat -> F_ok F ->
  1 - qnat (nsub / 2) * h <= nth af (cem_row h nsub F af) 0.
Proof.
  intros Hh Haf Han HF. unfold cem_row, scatter. cbv zeta.
  rewrite nth_scatter_fold by (rewrite repeat_length; lia). rewrite nth_repeat0.
  rewrite map_flat_map, qsum_flat_map.
  set (c := 1 - qnat (nsub / 2) * h).
  set (pps := combine (parts nsub af) (part_probs F (parts nsub af))).
  assert (E : c == qsum (map (fun pp : list nat * Q => c * snd pp) pps)).
  { rewrite qsum_map_scale. unfold pps. rewrite combine_snd_sum by (symmetry; apply part_probs_length).
    rewrite part_probs_sum_to_one by assumption. ring. }
  rewrite E at 1. rewrite Qplus_0_l. apply qsum_map_le. intros [pt pr] Hpp.
  pose proof (in_combine_l _ _ _ _ Hpp) as Hpt. pose proof (in_combine_r _ _ _ _ Hpp) as Hpr.
  apply parts_spec in Hpt. pose proof (part_probs_nonneg nsub af F HF pr Hpr) as P0.
  pose proof (counts_of_config pt (config_le2 _ _ _ _ Hpt)) as [K1 _]. destruct Hpt as (Ln & _).
  eapply Qle_trans; [|apply cem_contribs_diag; [exact Hh | exact P0]]. cbn [fst snd].
  pose proof (bernoulli h Hh (cnt 1 pt)) as Bn.
  assert (Hm : qnat (cnt 1 pt) <= qnat (nsub / 2)) by (apply qnat_le; lia).
  unfold c. set (u := qpow (1 - h) (cnt 1 pt)) in *. set (m := qnat (cnt 1 pt)) in *. set (M := qnat (nsub / 2)) in *.
  assert (m * h <= M * h) by nra. nra.
Qed.

Lemma mat_entry_nonneg (M : list (list Q)) a j : (forall row, In row M -> forall e, In e row -> 0 <= e) ->
  0 <= nth j (nth a M []) 0.
Proof.
  intros H. destruct (nth_in_or_default a M []) as [Hin|E].
  - apply nth_nonneg, H, Hin.
  - rewrite E. destruct j; cbn; lra.
Qed.

Lemma heterr_nonneg p a j : pop_ok p -> 0 <= nth j (nth a (heterr_mat p) []) 0.
Proof.
  intros (V & E1 & E2 & Hs & HF). apply mat_entry_nonneg. intros row Hr.
  destruct (cem_rows (p_st p) (p_nsub p) (p_F p) (vs_h _ V) E2 HF) as [_ R]. destruct (R row Hr) as (_ & N & _). exact N.
Qed.

Lemma proj_nonneg p b j : pop_ok p -> 0 <= nth j (nth b (proj_matrix (p_nseq p) (p_nsub p) (p_F p)) []) 0.
Proof.
  intros (V & E1 & E2 & Hs & HF). apply mat_entry_nonneg. intros row Hr.
  destruct (proj_matrix_rows _ _ _ Hs E1 HF) as [_ R]. destruct (R row Hr) as (_ & N & _). exact N.
Qed.

Lemma heterr_diag p j : pop_ok p -> (j < p_nsub p + 1)%nat ->
  clip0 (1 - het_bound p) <= nth j (nth j (heterr_mat p) []) 0.
Proof.
  intros Hok Hj. pose proof (heterr_nonneg p j j Hok) as N0. destruct Hok as (V & E1 & E2 & Hs & HF).
  assert (D : 1 - het_bound p <= nth j (nth j (heterr_mat p) []) 0).
  { unfold heterr_mat, cem, het_bound.
    rewrite (nth_map_default _ _ j 0%nat) by (now rewrite seq_length). rewrite seq_nth by lia. cbn [Nat.add].
    apply cem_row_diag; [apply (vs_h _ V) | rewrite even_half by exact E2; lia | lia | exact HF]. }
  unfold clip0. destruct (Qle_bool 0 (1 - het_bound p)); assumption.
Qed.

(** ** arrays: entries against the total, non-negative operators *)
Lemma tall_tget_nonneg : forall d x, tall d (fun m => 0 <= m) x -> forall idx, 0 <= tget d x idx.
Proof.
  induction d as [|d IH]; intros x H idx; [exact H|].
  destruct idx as [|i idx]; [rewrite tget_nil; lra|]. rewrite tget_cons.
  destruct (@nth_error (tens d) x i) as [xi|] eqn:E; [|lra].
  apply IH. cbn [tall] in H. rewrite Forall_forall in H. apply H. eapply nth_error_In, E.
Qed.

Lemma repeat0_length d : length (repeat 0%nat d) = d.
Proof. apply repeat_length. Qed.

(** an entry of an array with non-negative entries is at most the total *)
Lemma entry_le_total : forall d z, (forall j, length j = d -> 0 <= tget d z j) ->
  forall idx, length idx = d -> tget d z idx <= ttotal d z.
Proof.
  induction d as [|d IH]; intros z H idx L; [cbn [tget ttotal]; lra|].
  revert idx L. induction z as [|a z IHz]; intros idx L.
  - destruct idx as [|i idx]; [discriminate|]. rewrite tget_cons_nil. cbn. lra.
  - assert (Ha : forall j, length j = d -> 0 <= tget d a j).
    { intros j Lj. specialize (H (0%nat :: j) ltac:(cbn; lia)). now rewrite tget_cons_0 in H. }
    assert (Hz : forall j, length j = S d -> 0 <= tget (S d) z j).
    { intros [|i j] Lj; [discriminate|]. specialize (H (S i :: j) ltac:(cbn in *; lia)). now rewrite tget_cons_S in H. }
    specialize (IHz Hz).
    assert (Ta : 0 <= ttotal d a).
    { eapply Qle_trans; [apply (Ha (repeat 0%nat d) (repeat0_length d)) | apply IH; [exact Ha | apply repeat0_length]]. }
    assert (Tz : 0 <= ttotal (S d) z).
    { eapply Qle_trans; [apply (Hz (repeat 0%nat (S d)) (repeat0_length (S d))) | apply IHz, repeat0_length]. }
    rewrite ttotal_S. cbn [map]. rewrite qsum_cons. rewrite ttotal_S in Tz, IHz.
    destruct idx as [|i idx]; [discriminate|]. cbn [length] in L.
    destruct i as [|i]; rewrite ?tget_cons_0, ?tget_cons_S.
    + pose proof (IH a Ha idx ltac:(lia)). lra.
    + pose proof (IHz (i :: idx) ltac:(cbn; lia)). lra.
Qed.

Lemma total_nonneg_of_entries d z : (forall j, length j = d -> 0 <= tget d z j) -> 0 <= ttotal d z.
Proof.
  intros H. eapply Qle_trans; [apply (H (repeat 0%nat d) (repeat0_length d)) | apply entry_le_total; [exact H | apply repeat0_length]].
Qed.

Lemma upd_same : forall ax idx, (ax < length idx)%nat -> upd ax (nth ax idx 0%nat) idx = idx.
Proof.
  induction ax as [|ax IH]; intros [|i idx] H; cbn in H; try lia; cbn [upd nth]; [reflexivity|].
  f_equal. apply IH. lia.
Qed.

(** entries after applying a matrix with non-negative entries *)
Definition mat_nonneg (M : list (list Q)) : Prop := forall a j, 0 <= nth j (nth a M []) 0.

Lemma tapply_nonneg d ax M ncols (x : tens d) : (ax < d)%nat -> mat_nonneg M ->
  (forall idx, length idx = d -> 0 <= tget d x idx) ->
  forall idx, length idx = d -> 0 <= tget d (tapply d ax M ncols x) idx.
Proof.
  intros Hax HM Hx idx L. rewrite tget_tapply by assumption.
  destruct (_ <? ncols)%nat; [|lra]. apply qsum_map_nonneg. intros a _.
  apply Qmult_le_0_compat; [apply HM | apply Hx; now rewrite upd_length].
Qed.

Lemma tapply_lower d ax M ncols (x y : tens d) k : (ax < d)%nat -> mat_nonneg M ->
  (forall idx, length idx = d -> k * tget d y idx <= tget d x idx) ->
  forall idx, length idx = d -> k * tget d (tapply d ax M ncols y) idx <= tget d (tapply d ax M ncols x) idx.
Proof.
  intros Hax HM Hxy idx L. rewrite !tget_tapply by assumption.
  destruct (_ <? ncols)%nat; [|lra]. rewrite <- qsum_map_scale. apply qsum_map_le. intros a _.
  pose proof (HM a (nth ax idx 0%nat)) as H0. specialize (Hxy (upd ax a idx) ltac:(now rewrite upd_length)).
  set (m := nth (nth ax idx 0%nat) (nth a M []) 0) in *. nra.
Qed.

Lemma tapply_entries_ext d ax M M' ncols (x : tens d) : (ax < d)%nat -> length M = length M' ->
  (forall a j, nth j (nth a M []) 0 == nth j (nth a M' []) 0) ->
  forall idx, length idx = d -> tget d (tapply d ax M ncols x) idx == tget d (tapply d ax M' ncols x) idx.
Proof.
  intros Hax HL HE idx L. rewrite !tget_tapply by assumption. rewrite HL.
  destruct (_ <? ncols)%nat; [|reflexivity]. apply qsum_map_ext. intros a _. rewrite HE. reflexivity.
Qed.

(** a matrix with non-negative entries and diagonal >= c moves at least the fraction c of every entry in place *)
Lemma tapply_diag_lower d ax C ncols (w : tens d) c : (ax < d)%nat -> length C = ncols -> mat_nonneg C ->
  (forall j, (j < ncols)%nat -> c <= nth j (nth j C []) 0) ->
  (forall idx, length idx = d -> 0 <= tget d w idx) ->
  forall idx, length idx = d -> (nth ax idx 0 < ncols)%nat ->
  c * tget d w idx <= tget d (tapply d ax C ncols w) idx.
Proof.
  intros Hax HL HC Hd Hw idx L Hj. rewrite tget_tapply by assumption. rewrite HL.
  set (j := nth ax idx 0%nat) in *. destruct (Nat.ltb_spec j ncols) as [_|]; [|lia].
  eapply Qle_trans; [|apply (qsum_term_le (fun a => nth j (nth a C []) 0 * tget d w (upd ax a idx)) ncols j Hj)].
  - cbv beta. unfold j at 3. rewrite upd_same by lia. specialize (Hd j Hj). specialize (Hw idx L).
    set (t := tget d w idx) in *. nra.
  - intros a _. apply Qmult_le_0_compat; [apply HC | apply Hw; now rewrite upd_length].
Qed.

(** ** (e) one population step, and all of them: an entrywise lower bound *)
Definition projm (p : pop) : list (list Q) := proj_matrix (p_nseq p) (p_nsub p) (p_F p).
Definition diag_fac (p : pop) : Q := clip0 (1 - het_bound p).

Lemma diag_fac_spec p : pop_ok p -> 0 <= diag_fac p <= 1 /\ 1 - het_bound p <= diag_fac p.
Proof.
  intros Hok. pose proof (het_bound_nonneg p Hok). unfold diag_fac.
  destruct (clip0_spec (1 - het_bound p)) as (C0 & C1 & C2). specialize (C2 ltac:(lra)). repeat split; assumption.
Qed.

Lemma apply_pop_lower d pops ax p (x y : tens d) k : (ax < d)%nat -> pe_tot pops == 1 -> pop_ok p -> 0 <= k ->
  (forall idx, length idx = d -> 0 <= tget d y idx) ->
  (forall idx, length idx = d -> k * tget d y idx <= tget d x idx) ->
  forall idx, length idx = d ->
  (k * diag_fac p) * tget d (tapply d ax (projm p) (p_nsub p + 1) y) idx <= tget d (apply_pop d pops ax p x) idx.
Proof.
  intros Hax He Hok Hk Hy Hxy idx L. unfold apply_pop, apply_pop_v.
  change (proj_mat_scaled_v (pe_tot pops) p) with (proj_mat_scaled pops p).
  destruct (heterr_mat_rows p Hok) as [LH _]. destruct (proj_mat_scaled_rows pops p Hok) as [LP _].
  assert (LP0 : length (projm p) = (p_nseq p + 1)%nat).
  { destruct Hok as (_ & E1 & E2 & Hs & HF). exact (proj1 (proj_matrix_rows _ _ _ Hs E1 HF)). }
  assert (NP : mat_nonneg (projm p)) by (intros b j; apply proj_nonneg, Hok).
  assert (NC : mat_nonneg (heterr_mat p)) by (intros a j; apply heterr_nonneg, Hok).
  destruct (diag_fac_spec p Hok) as [[D0 D1] _].
  set (w' := tapply d ax (projm p) (p_nsub p + 1) y).
  set (w := tapply d ax (proj_mat_scaled pops p) (p_nsub p + 1) x).
  assert (Hw' : forall i2, length i2 = d -> 0 <= tget d w' i2) by (apply tapply_nonneg; assumption).
  assert (Hww : forall i2, length i2 = d -> k * tget d w' i2 <= tget d w i2).
  { intros i2 L2. unfold w, w'.
    rewrite (tapply_entries_ext d ax (proj_mat_scaled pops p) (projm p)); auto; [|lia|].
    - apply tapply_lower; assumption.
    - intros b j. apply proj_mat_scaled_entry, He. }
  assert (Hw : forall i2, length i2 = d -> 0 <= tget d w i2).
  { intros i2 L2. specialize (Hww i2 L2). specialize (Hw' i2 L2). set (t := tget d w' i2) in *. nra. }
  destruct (Nat.ltb_spec (nth ax idx 0%nat) (p_nsub p + 1)) as [Hj|Hj].
  - pose proof (tapply_diag_lower d ax (heterr_mat p) (p_nsub p + 1) w (diag_fac p) Hax LH NC
                  (fun j Hj => heterr_diag p j Hok Hj) Hw idx L Hj) as Dg.
    specialize (Hww idx L). specialize (Hw' idx L). specialize (Hw idx L).
    set (t' := tget d w' idx) in *. set (t := tget d w idx) in *.
    assert (diag_fac p * (k * t') <= diag_fac p * t) by nra. nra.
  - unfold w'. rewrite !tget_tapply by assumption.
    destruct (Nat.ltb_spec (nth ax idx 0%nat) (p_nsub p + 1)); [lia | lra].
Qed.

Definition plain_fold (d : nat) (i : nat) (ps : list pop) (y : tens d) : tens d :=
  foldi_from (fun ax p z => tapply d ax (proj_matrix (p_nseq p) (p_nsub p) (p_F p)) (p_nsub p + 1) z) i ps y.

Lemma plain_fold_nonneg d : forall ps i (y : tens d), (i + length ps = d)%nat -> Forall pop_ok ps ->
  (forall idx, length idx = d -> 0 <= tget d y idx) ->
  forall idx, length idx = d -> 0 <= tget d (plain_fold d i ps y) idx.
Proof.
  unfold plain_fold. induction ps as [|p ps IH]; intros i y Hd Hps Hy; cbn [foldi_from]; [exact Hy|].
  cbn [length] in Hd. apply IH; [lia | apply (Forall_inv_tail Hps) |].
  apply tapply_nonneg; [lia | | exact Hy]. intros b j. apply proj_nonneg, (Forall_inv Hps).
Qed.

Lemma apply_all_lower d pops : pe_tot pops == 1 -> forall ps i (x y : tens d) k, (i + length ps = d)%nat ->
  Forall pop_ok ps -> 0 <= k ->
  (forall idx, length idx = d -> 0 <= tget d y idx) ->
  (forall idx, length idx = d -> k * tget d y idx <= tget d x idx) ->
  forall idx, length idx = d ->
  (k * qprod (map diag_fac ps)) * tget d (plain_fold d i ps y) idx <= tget d (foldi_from (apply_pop d pops) i ps x) idx.
Proof.
  intros He. unfold plain_fold. induction ps as [|p ps IH]; intros i x y k Hd Hps Hk Hy Hxy idx L; cbn [foldi_from map].
  - unfold qprod. cbn [fold_right]. specialize (Hxy idx L). lra.
  - pose proof (Forall_inv Hps) as Hp. pose proof (Forall_inv_tail Hps) as Hps'. cbn [length] in Hd.
    destruct (diag_fac_spec p Hp) as [[D0 D1] _].
    unfold qprod. cbn [fold_right]. fold (qprod (map diag_fac ps)).
    setoid_replace (k * (diag_fac p * qprod (map diag_fac ps))) with ((k * diag_fac p) * qprod (map diag_fac ps)) by ring.
    apply IH; [lia | exact Hps' | apply Qmult_le_0_compat; assumption | | | exact L].
    + apply tapply_nonneg; [lia | | exact Hy]. intros b j. apply proj_nonneg, Hp.
    + intros i2 L2. apply apply_pop_lower; auto. lia.
Qed.

(** the plain projection keeps the total *)
Lemma plain_fold_total d : forall ps i (x : tens d), (i + length ps = d)%nat -> Forall pop_ok ps ->
  (forall k p, nth_error ps k = Some p -> axis_le d (i + k) (p_nseq p + 1) x) ->
  ttotal d (plain_fold d i ps x) == ttotal d x.
Proof.
  unfold plain_fold. induction ps as [|p ps IH]; intros i x Hd Hok Hx; cbn [foldi_from]; [reflexivity|].
  pose proof (Forall_inv Hok) as Hp. pose proof (Forall_inv_tail Hok) as Hps. cbn [length] in Hd.
  destruct Hp as (_ & E1 & E2 & Hs & HF). destruct (proj_matrix_rows _ _ _ Hs E1 HF) as [LP RP].
  rewrite IH; [| lia | exact Hps |].
  - rewrite (tapply_total d i _ _ 1); [ring | lia | |].
    + intros row Hr. destruct (RP row Hr) as (L0 & _ & S0). split; assumption.
    + rewrite LP. specialize (Hx 0%nat p eq_refl). now rewrite Nat.add_0_r in Hx.
  - intros k q Hq. apply axis_le_tapply_other; [lia|].
    replace (S i + k)%nat with (i + S k)%nat by lia. apply Hx. exact Hq.
Qed.

(** entries of an index-aware map (0 outside the array) *)
Lemma tget_tmapi : forall d (g : list nat -> Q -> Q) pre x idx, length idx = d -> (forall i, g i 0 == 0) ->
  tget d (tmapi d g pre x) idx == g (pre ++ idx) (tget d x idx).
Proof.
  induction d as [|d IH]; intros g pre x idx L G0.
  - destruct idx; [|discriminate]. rewrite app_nil_r. reflexivity.
  - destruct idx as [|i idx]; [discriminate|]. cbn [tmapi]. rewrite tget_mapi_from, tget_cons. cbn [Nat.add].
    destruct (@nth_error (tens d) x i) as [xi|].
    + rewrite IH by (auto; cbn in L; lia). rewrite <- app_assoc. reflexivity.
    + symmetry. apply G0.
Qed.

(** ** the theorem, any number of populations *)
Section Rate.
  Variable d : nat.
  Variable pops : list pop.
  Variable thr : Q.
  Variable sim : list nat -> tens d.
  Variable model : tens d.
  Variable Bm : Q.
  Hypothesis Hd : length pops = d.
  Hypothesis Hnear : Forall near_deep pops.
  Hypothesis HBm : Forall (fun p => nc_bound p <= Bm) pops.
  Hypothesis HBm0 : 0 <= Bm.
  Hypothesis Hthr : Bm <= thr.
  Hypothesis Hshape : shape_le d pops model.
  Hypothesis Hnn : tall d (fun m => 0 <= m) model.
  Hypothesis Hcorner : tget d model (repeat 0%nat d) == 0.

  Let Hok : Forall pop_ok pops.
  Proof. eapply Forall_impl; [|exact Hnear]. intros q Hq. apply Hq. Qed.

  Let Hpe : pe_tot pops == 1 := pe_tot_near pops Hnear.

  Let Horig : forall idx', length idx' = d -> is_origin idx' = true -> tget d model idx' == 0.
  Proof. intros idx' L O. rewrite (origin_repeat idx' O), L. exact Hcorner. Qed.

  Let Hm0 : forall idx, 0 <= tget d model idx := tall_tget_nonneg d model Hnn.

  Definition k0 : Q := clip0 (1 - Bm).
  Definition kfac : Q := k0 * qprod (map diag_fac pops).
  Definition analytic_part : tens d := apply_all d pops (analytic0 d pops thr model).

  (** the simulated part adds nothing: it is only ever switched on at the corner, where the model is 0 *)
  Lemma lowpass_is_analytic idx : length idx = d ->
    tget d (lowpass d pops thr sim model) idx == tget d analytic_part idx.
  Proof.
    intros Hl.
    change (lowpass d pops thr sim model)
      with (tfoldi d (fun idx' m acc => if use_sim pops thr idx' then tadd d acc (tscale d m (sim idx')) else acc) [] model
                   analytic_part).
    apply (tfoldi_inv (fun acc => tget d acc idx == tget d analytic_part idx)); [|reflexivity].
    apply talli_of_tget. intros idx' L a Ha. cbn [app].
    destruct (use_sim pops thr idx') eqn:U; [|exact Ha].
    destruct (is_origin idx') eqn:O.
    - rewrite tget_tadd, tget_tscale, Ha, (Horig idx' L O). ring.
    - rewrite (use_sim_near pops thr Bm idx') in U by (auto; congruence). discriminate.
  Qed.

  Lemma k0_spec : 0 <= k0 <= 1 /\ 1 - Bm <= k0.
  Proof. unfold k0. destruct (clip0_spec (1 - Bm)) as (C0 & C1 & C2). specialize (C2 ltac:(lra)). repeat split; assumption. Qed.

  (** the analytic starting array keeps at least the fraction k0 of every model entry *)
  Lemma analytic0_lower idx : length idx = d -> k0 * tget d model idx <= tget d (analytic0 d pops thr model) idx.
  Proof.
    intros L.
    change (analytic0 d pops thr model)
      with (tmapi d (fun idx m => if use_sim pops thr idx then 0 else m * (1 - pnc_at pops idx)) [] model).
    rewrite tget_tmapi by (auto; intros i; destruct (use_sim pops thr i); ring). cbn [app].
    destruct k0_spec as [[K0 K1] K2]. pose proof (Hm0 idx) as M0.
    destruct (is_origin idx) eqn:O.
    - pose proof (Horig idx L O) as Z. destruct (use_sim pops thr idx); rewrite Z; lra.
    - rewrite (use_sim_near pops thr Bm idx) by (auto; congruence).
      destruct (pnc_at_near Bm pops idx Hnear HBm ltac:(congruence) O) as [P0 P1].
      pose proof (pnc_at_unit pops idx Hok) as [_ PU].
      assert (k0 <= 1 - pnc_at pops idx).
      { unfold k0, clip0. destruct (Qle_bool 0 (1 - Bm)); lra. }
      set (m := tget d model idx) in *. nra.
  Qed.

  Lemma plain_is_fold : plain_projection d pops model = plain_fold d 0 pops model.
  Proof. reflexivity. Qed.

  Lemma plain_nonneg idx : length idx = d -> 0 <= tget d (plain_projection d pops model) idx.
  Proof. intros L. rewrite plain_is_fold. apply plain_fold_nonneg; auto. Qed.

  Lemma kfac_spec : 0 <= kfac <= 1 /\ 1 - kfac <= Bm + qsum (map het_bound pops).
  Proof.
    destruct k0_spec as [[K0 K1] K2].
    destruct (clip_prod_bound (map het_bound pops)) as [[P0 P1] PS].
    { intros e He. apply in_map_iff in He. destruct He as (p & <- & Hp). apply het_bound_nonneg.
      rewrite Forall_forall in Hok. apply Hok, Hp. }
    rewrite map_map in P0, P1, PS. fold diag_fac in P0, P1, PS. change (fun x => diag_fac x) with diag_fac in *.
    assert (S0 : 0 <= qsum (map het_bound pops)).
    { apply qsum_map_nonneg. intros p Hp. apply het_bound_nonneg. rewrite Forall_forall in Hok. apply Hok, Hp. }
    unfold kfac. set (P := qprod (map diag_fac pops)) in *. set (S := qsum (map het_bound pops)) in *.
    split; [nra|].
    destruct (Qlt_le_dec (1 - Bm) 0) as [Hn|Hp].
    - assert (0 <= k0 * P) by nra. lra.
    - assert ((1 - Bm) * P <= k0 * P) by nra. nra.
  Qed.

  (** entrywise lower bound *)
  Lemma analytic_lower idx : length idx = d ->
    kfac * tget d (plain_projection d pops model) idx <= tget d analytic_part idx.
  Proof.
    intros L. rewrite plain_is_fold. unfold kfac, analytic_part, apply_all.
    apply (apply_all_lower d pops Hpe pops 0%nat); auto.
    - apply k0_spec.
    - intros i2 L2. apply analytic0_lower, L2.
  Qed.

  (** totals *)
  Lemma analytic_total_le : ttotal d analytic_part <= ttotal d model.
  Proof.
    unfold analytic_part, apply_all. rewrite apply_all_total; [| cbn [Nat.add]; exact Hd | exact Hok |].
    - rewrite Hpe, qpow_1, Qmult_1_l. unfold analytic0, analytic0_v.
      rewrite <- (tmapi_total_id d [] model). apply tmapi_total_le; [|exact Hnn].
      intros idx m Hm. pose proof (pnc_at_unit pops idx Hok) as Hp. unfold pnc_at in Hp.
      destruct (use_sim_v thr (pnc_vecs pops) idx); [lra|].
      set (w := prod_at (pnc_vecs pops) idx) in *. nra.
    - intros k p Hk. cbn [Nat.add]. unfold analytic0, analytic0_v. apply axis_le_tmapi. apply Hshape, Hk.
  Qed.

  Lemma plain_total : ttotal d (plain_projection d pops model) == ttotal d model.
  Proof. rewrite plain_is_fold. apply plain_fold_total; auto. Qed.

  Lemma model_total_nonneg : 0 <= ttotal d model.
  Proof. apply total_nonneg_of_entries. intros j _. apply Hm0. Qed.

  Theorem deep_rate_two_sided idx : length idx = d ->
    let B := (Bm + qsum (map het_bound pops)) * ttotal d model in
    - B <= tget d (lowpass d pops thr sim model) idx - tget d (plain_projection d pops model) idx <= B.
  Proof.
    intros L. cbv zeta. rewrite (lowpass_is_analytic idx L).
    destruct kfac_spec as [[K0 K1] KE].
    pose proof (analytic_lower idx L) as A1. pose proof analytic_total_le as A2. pose proof plain_total as A3.
    pose proof (plain_nonneg idx L) as P0.
    assert (PT : tget d (plain_projection d pops model) idx <= ttotal d model).
    { rewrite <- A3. apply entry_le_total; [|exact L]. intros j Lj. apply plain_nonneg, Lj. }
    pose proof model_total_nonneg as T0.
    (* mass: what the lower bound leaves over is at most (1 - kfac) of the total *)
    set (z := tadd d analytic_part (tscale d (- kfac) (plain_projection d pops model))).
    assert (Zn : forall j, length j = d -> 0 <= tget d z j).
    { intros j Lj. unfold z. rewrite tget_tadd, tget_tscale. pose proof (analytic_lower j Lj). lra. }
    pose proof (entry_le_total d z Zn idx L) as A5.
    unfold z in A5. rewrite tget_tadd, tget_tscale, ttotal_tadd, ttotal_tscale, A3 in A5.
    set (Lw := tget d analytic_part idx) in *. set (P := tget d (plain_projection d pops model) idx) in *.
    set (T := ttotal d model) in *. set (TX := ttotal d analytic_part) in *.
    set (E := Bm + qsum (map het_bound pops)) in *.
    assert ((1 - kfac) * P <= (1 - kfac) * T) by nra.
    assert ((1 - kfac) * T <= E * T) by nra.
    assert (0 <= (1 - kfac) * P) by nra.
    split; lra.
  Qed.

  Theorem deep_rate idx : length idx = d ->
    Qabs (tget d (lowpass d pops thr sim model) idx - tget d (plain_projection d pops model) idx)
    <= (Bm + qsum (map het_bound pops)) * ttotal d model.
  Proof. intros L. apply Qabs_Qle_condition. apply (deep_rate_two_sided idx L). Qed.
End Rate.

(** ** corollaries *)
Lemma tall_total_nonneg d (model : tens d) : tall d (fun m => 0 <= m) model -> 0 <= ttotal d model.
Proof. intros H. apply total_nonneg_of_entries. intros j _. apply tall_tget_nonneg, H. Qed.

(** with the sum of the per-population no-call bounds below the threshold *)
Theorem deep_rate_sum d pops thr (sim : list nat -> tens d) (model : tens d) :
  length pops = d -> Forall near_deep pops -> qsum (map nc_bound pops) <= thr ->
  shape_le d pops model -> tall d (fun m => 0 <= m) model -> tget d model (repeat 0%nat d) == 0 ->
  forall idx, length idx = d ->
  Qabs (tget d (lowpass d pops thr sim model) idx - tget d (plain_projection d pops model) idx)
  <= qsum (map (fun p => het_bound p + nc_bound p) pops) * ttotal d model.
Proof.
  intros Hd Hnear Ht Hsh Hnn Hc idx L.
  assert (Hok : Forall pop_ok pops) by (eapply Forall_impl; [|exact Hnear]; intros q Hq; apply Hq).
  assert (N0 : forall p, In p pops -> 0 <= nc_bound p).
  { intros p Hp. apply nc_bound_nonneg. rewrite Forall_forall in Hok. apply Hok, Hp. }
  assert (HB : Forall (fun p => nc_bound p <= qsum (map nc_bound pops)) pops).
  { clear - N0. induction pops as [|q ps IH]; constructor.
    - cbn [map]. rewrite qsum_cons. assert (0 <= qsum (map nc_bound ps)) by (apply qsum_map_nonneg; intros; apply N0; now right). lra.
    - eapply Forall_impl; [|apply IH; intros; apply N0; now right]. cbv beta. intros a Ha. cbn [map]. rewrite qsum_cons.
      assert (0 <= nc_bound q) by (apply N0; now left). lra. }
  rewrite qsum_map_add.
  setoid_replace (qsum (map het_bound pops) + qsum (map nc_bound pops)) with (qsum (map nc_bound pops) + qsum (map het_bound pops)) by ring.
  apply (deep_rate d pops thr sim model (qsum (map nc_bound pops))); auto.
  apply qsum_map_nonneg. exact N0.
Qed.

(** one population *)
Theorem deep_rate_one_pop p thr (sim : list nat -> tens 1) (model : tens 1) :
  let st := p_st p in
  pop_ok p -> st_c0 st == 0 -> st_c1 st == 0 -> (2 <= p_nseq p)%nat ->
  st_s st + qnat (p_nseq p / 2) * st_t st <= thr ->
  shape_le 1 [p] model -> tall 1 (fun m => 0 <= m) model -> tget 1 model [0%nat] == 0 ->
  forall i,
  Qabs (tget 1 (lowpass 1 [p] thr sim model) [i] - tget 1 (plain_projection 1 [p] model) [i])
  <= (qnat (p_nsub p / 2) * st_h st + st_s st + qnat (p_nseq p / 2) * st_t st) * ttotal 1 model.
Proof.
  cbv zeta. intros Hok C0 C1 H2 Ht Hsh Hnn Hc i.
  pose proof (deep_rate_sum 1 [p] thr sim model eq_refl) as R. cbn [map] in R. rewrite !qsum_cons, !qsum_nil in R.
  unfold het_bound, nc_bound in R.
  assert (Hn : Forall near_deep [p]) by (constructor; [exact (conj Hok (conj C0 (conj C1 H2))) | constructor]).
  eapply Qle_trans; [apply (R Hn); auto; lra|].
  apply Qmult_le_compat_r; [lra|apply (tall_total_nonneg 1 model Hnn)].
Qed.

(** ... in terms of the coverage distribution: every individual has depth >= D *)
Definition covered_from (D : nat) (p : pop) : Prop :=
  exists cov, cov_ok cov /\ supported_from D cov /\ p_st p = stats_of cov.
Definition sizes_ok (p : pop) : Prop :=
  Nat.even (p_nseq p) = true /\ Nat.even (p_nsub p) = true /\ (p_nsub p <= p_nseq p)%nat /\ F_ok (p_F p) /\ (2 <= p_nseq p)%nat.

Lemma covered_near D p : (2 <= D)%nat -> covered_from D p -> sizes_ok p ->
  near_deep p /\ nc_bound p <= (1 + qnat (p_nseq p / 2) * qnat D) * qpow half D
  /\ het_bound p <= 2 * qnat (p_nsub p / 2) * qpow half D.
Proof.
  intros HD (cov & OK & Sp & St) (E1 & E2 & Hs & HF & H2).
  pose proof (deep_coverage_stats_bound cov D OK Sp HD) as B. cbv zeta in B. rewrite <- St in B.
  destruct B as (C0 & C1 & Pos & [S0 S1] & [T0 T1] & [H0 H1]).
  pose proof (stats_of_valid cov OK) as V. rewrite <- St in V.
  split; [|split].
  - exact (conj (conj V (conj E1 (conj E2 (conj Hs HF)))) (conj C0 (conj C1 H2))).
  - unfold nc_bound. pose proof (qnat_nonneg (p_nseq p / 2)) as Hn.
    set (n := qnat (p_nseq p / 2)) in *. set (e := qpow half D) in *. nra.
  - unfold het_bound. pose proof (qnat_nonneg (p_nsub p / 2)) as Hm.
    set (m := qnat (p_nsub p / 2)) in *. set (e := qpow half D) in *. nra.
Qed.

Theorem deep_coverage_rate d pops thr (sim : list nat -> tens d) (model : tens d) D Nm :
  length pops = d -> (2 <= D)%nat -> Forall (covered_from D) pops -> Forall sizes_ok pops ->
  Forall (fun p => (p_nseq p / 2 <= Nm)%nat) pops ->
  (1 + qnat Nm * qnat D) * qpow half D <= thr ->
  shape_le d pops model -> tall d (fun m => 0 <= m) model -> tget d model (repeat 0%nat d) == 0 ->
  forall idx, length idx = d ->
  Qabs (tget d (lowpass d pops thr sim model) idx - tget d (plain_projection d pops model) idx)
  <= (1 + qnat Nm * qnat D + 2 * qsum (map (fun p => qnat (p_nsub p / 2)) pops)) * qpow half D * ttotal d model.
Proof.
  intros Hd HD Hcov Hsz HN Ht Hsh Hnn Hc idx L.
  pose proof (half_pow_nonneg D) as E0. pose proof (qnat_nonneg D) as D0. pose proof (qnat_nonneg Nm) as N0.
  assert (ND : 0 <= qnat Nm * qnat D) by (apply Qmult_le_0_compat; assumption).
  assert (All : forall p, In p pops -> near_deep p /\ nc_bound p <= (1 + qnat Nm * qnat D) * qpow half D
                                        /\ het_bound p <= 2 * qnat (p_nsub p / 2) * qpow half D).
  { intros p Hp. rewrite Forall_forall in Hcov, Hsz, HN.
    destruct (covered_near D p HD (Hcov p Hp) (Hsz p Hp)) as (A & B & C). split; [exact A|]. split; [|exact C].
    eapply Qle_trans; [exact B|]. pose proof (qnat_le _ _ (HN p Hp)) as Hle.
    set (n := qnat (p_nseq p / 2)) in *. set (e := qpow half D) in *. set (dd := qnat D) in *. set (nm := qnat Nm) in *.
    assert (n * dd <= nm * dd) by nra. nra. }
  set (Bm := (1 + qnat Nm * qnat D) * qpow half D).
  assert (HBm0 : 0 <= Bm) by (unfold Bm; nra).
  eapply Qle_trans.
  - apply (deep_rate d pops thr sim model Bm); auto.
    + rewrite Forall_forall. intros p Hp. apply (All p Hp).
    + rewrite Forall_forall. intros p Hp. apply (All p Hp).
  - pose proof (tall_total_nonneg d model Hnn) as T0.
    assert (HS : qsum (map het_bound pops) <= 2 * qpow half D * qsum (map (fun p => qnat (p_nsub p / 2)) pops)).
    { rewrite <- qsum_map_scale. apply qsum_map_le. intros p Hp. destruct (All p Hp) as (_ & _ & C). lra. }
    unfold Bm. set (T := ttotal d model) in *. set (e := qpow half D) in *.
    set (S1 := qsum (map het_bound pops)) in *. set (S2 := qsum (map (fun p => qnat (p_nsub p / 2)) pops)) in *.
    set (c := qnat Nm * qnat D) in *. nra.
Qed.

Theorem deep_coverage_rate_one_pop p cov D thr (sim : list nat -> tens 1) (model : tens 1) :
  cov_ok cov -> supported_from D cov -> (2 <= D)%nat -> p_st p = stats_of cov -> sizes_ok p ->
  (1 + qnat (p_nseq p / 2) * qnat D) * qpow half D <= thr ->
  shape_le 1 [p] model -> tall 1 (fun m => 0 <= m) model -> tget 1 model [0%nat] == 0 ->
  forall i,
  Qabs (tget 1 (lowpass 1 [p] thr sim model) [i] - tget 1 (plain_projection 1 [p] model) [i])
  <= (2 * qnat (p_nsub p / 2) + 1 + qnat (p_nseq p / 2) * qnat D) * qpow half D * ttotal 1 model.
Proof.
  intros OK Sp HD St Hsz Ht Hsh Hnn Hc i.
  pose proof (deep_coverage_rate 1 [p] thr sim model D (p_nseq p / 2) eq_refl HD) as R.
  cbn [map] in R. rewrite qsum_cons, qsum_nil in R.
  assert (Hc1 : Forall (covered_from D) [p]) by (constructor; [exists cov; exact (conj OK (conj Sp St)) | constructor]).
  assert (Hs1 : Forall sizes_ok [p]) by (constructor; [exact Hsz | constructor]).
  assert (Hn1 : Forall (fun q => (p_nseq q / 2 <= p_nseq p / 2)%nat) [p]) by (constructor; [lia | constructor]).
  eapply Qle_trans; [apply (R Hc1 Hs1 Hn1); auto|].
  apply Qmult_le_compat_r; [|apply (tall_total_nonneg 1 model Hnn)].
    apply Qmult_le_compat_r; [|apply half_pow_nonneg]. lra.
Qed.

(** the hypotheses are satisfiable away from the limit point (s, t, h > 0): depths 3 and 4 with probability 1/2 each *)
Example deep_rate_hypotheses_inhabited :
  let cov := [0; 0; 0; 1 # 2; 1 # 2] in
  let p := {| p_nseq := 6; p_nsub := 4; p_st := stats_of cov; p_F := 0 |} in
  covered_from 3 p /\ sizes_ok p /\ 0 < st_s (p_st p) /\ 0 < st_t (p_st p) /\ 0 < st_h (p_st p).
Proof.
  cbv zeta. split; [|split].
  - eexists. split; [|split; [|reflexivity]].
    + split; [|split; [reflexivity | reflexivity]].
      intros c Hc. cbn [In] in Hc. repeat (destruct Hc as [<-|Hc]; [discriminate|]). destruct Hc.
    + intros [|[|[|k]]] Hk; try reflexivity. lia.
  - repeat split; try reflexivity; cbn; try lia. left. reflexivity.
  - repeat split; reflexivity.
Qed.

Print Assumptions deep_rate.
Print Assumptions deep_rate_sum.
Print Assumptions deep_rate_one_pop.
Print Assumptions deep_coverage_rate.
Print Assumptions deep_coverage_rate_one_pop.
