(** C18: deep coverage, with a RATE.  When every individual is covered at depth >= D the corrected model is within
    an explicit  C(sizes, D) * 2^-D * total(model)  of the plain projection, entry by entry, for any number of
    populations (and in particular for one).

    Skeleton.  With c0 = c1 = 0, pos = 1 the enough-covered factor is exactly 1; every no-call probability away from the
    absent-allele corner is at most  s + N t  (so, below the threshold, the analytic regime is used everywhere that matters);
    the calling-error matrix has diagonal >= 1 - M h.  Hence, entrywise,
        lowpass >= kappa * plain_projection,     kappa = (1 - Bm) * prod_k (1 - M_k h_k)   (each factor clipped at 0),
    by monotonicity of the non-negative operators; and because the total of the corrected model is at most the total of the
    model (= the total of the plain projection), the same entrywise lower bound gives the upper bound
        lowpass[idx] <= kappa * plain[idx] + (1 - kappa) * total. *)
From Coq Require Import ZArith QArith Qreduction List Bool Arith Lia Lqa Setoid Morphisms.
From Dadi Require Import Model.LowPass Proofs.LowPassBinom Proofs.LowPassPart Proofs.LowPassQ Proofs.LowPassProb Proofs.LowPassMat
  Proofs.LowPassCall Proofs.LowPassTens Proofs.LowPassTotal Proofs.LowPassGet Proofs.LowPassDeep.
Import ListNotations.
Local Open Scope Q_scope.

(** ** small facts on Q *)
(** Bernoulli's inequality *)
Lemma bernoulli h : 0 <= h <= 1 -> forall n, 1 - qnat n * h <= qpow (1 - h) n.
Proof.
  intros Hh. induction n as [|n IH].
  - cbn [qpow]. change (qnat 0) with 0. lra.
  - rewrite qpow_S, qnat_S.
    assert (P : 0 <= qpow (1 - h) n) by (apply qpow_nonneg; lra).
    pose proof (qnat_nonneg n) as Hn.
    set (u := qpow (1 - h) n) in *. set (m := qnat n) in *.
    assert (0 <= m * h * h) by (repeat apply Qmult_le_0_compat; lra).
    assert ((1 - h) * (1 - m * h) <= (1 - h) * u) by nra.
    nra.
Qed.

Lemma qnat_le a b : (a <= b)%nat -> qnat a <= qnat b.
Proof. intros H. unfold qnat. rewrite <- Zle_Qle. lia. Qed.

(** clipping at 0 *)
Definition clip0 (x : Q) : Q := if Qle_bool 0 x then x else 0.

Lemma clip0_spec x : 0 <= clip0 x /\ x <= clip0 x /\ (x <= 1 -> clip0 x <= 1).
Proof.
  unfold clip0. destruct (Qle_bool 0 x) eqn:E.
  - apply Qle_bool_iff in E. repeat split; lra.
  - assert (~ 0 <= x) by (intros H; apply Qle_bool_iff in H; congruence). repeat split; lra.
Qed.

(** a product of clipped factors loses at most the sum of the deficits *)
Lemma clip_prod_bound (es : list Q) : (forall e, In e es -> 0 <= e) ->
  0 <= qprod (map (fun e => clip0 (1 - e)) es) <= 1 /\ 1 - qsum es <= qprod (map (fun e => clip0 (1 - e)) es).
Proof.
  induction es as [|e es IH]; intros H.
  - unfold qprod, qsum. cbn. lra.
  - cbn [map]. unfold qprod in *. cbn [fold_right]. rewrite qsum_cons.
    destruct IH as [[P0 P1] PS]; [intros; apply H; now right|].
    assert (He : 0 <= e) by (apply H; now left).
    assert (0 <= qsum es) by (apply qsum_nonneg; intros; apply H; now right).
    destruct (clip0_spec (1 - e)) as (C0 & C1 & C2). specialize (C2 ltac:(lra)).
    set (b := clip0 (1 - e)) in *. set (P := fold_right Qmult 1 (map (fun e0 => clip0 (1 - e0)) es)) in *.
    split; [nra|].
    destruct (Qlt_le_dec (1 - e) 0) as [Hn|Hp].
    + assert (0 <= b * P) by nra. lra.
    + assert ((1 - e) * P <= b * P) by nra. nra.
Qed.

(** one term of a non-negative sum *)
Lemma qsum_term_le (f : nat -> Q) n j : (j < n)%nat -> (forall a, (a < n)%nat -> 0 <= f a) ->
  f j <= qsum (map f (seq 0 n)).
Proof.
  intros Hj Hf. rewrite <- (qsum_delta f n j Hj). apply qsum_map_le. intros a Ha. apply in_seq in Ha.
  specialize (Hf a ltac:(lia)). destruct (a =? j)%nat; lra.
Qed.

Lemma nth_nonneg (l : list Q) j : (forall e, In e l -> 0 <= e) -> 0 <= nth j l 0.
Proof. intros H. destruct (nth_in_or_default j l 0) as [Hin|E]; [apply H, Hin | rewrite E; lra]. Qed.

(** ** populations near the deep limit: no mass at depths 0 and 1 (what [deep_coverage_stats_bound] delivers) *)
Definition near_deep (p : pop) : Prop :=
  pop_ok p /\ st_c0 (p_st p) == 0 /\ st_c1 (p_st p) == 0 /\ (2 <= p_nseq p)%nat.

(** per-population constants: the no-call bound  s + N t  and the miscall deficit  M h *)
Definition nc_bound (p : pop) : Q := st_s (p_st p) + qnat (p_nseq p / 2) * st_t (p_st p).
Definition het_bound (p : pop) : Q := qnat (p_nsub p / 2) * st_h (p_st p).

Lemma nc_bound_nonneg p : pop_ok p -> 0 <= nc_bound p.
Proof.
  intros (V & _). unfold nc_bound. pose proof (vs_s _ V). pose proof (vs_t _ V). pose proof (qnat_nonneg (p_nseq p / 2)).
  assert (0 <= qnat (p_nseq p / 2) * st_t (p_st p)) by (apply Qmult_le_0_compat; assumption). lra.
Qed.

Lemma het_bound_nonneg p : pop_ok p -> 0 <= het_bound p.
Proof.
  intros (V & _). unfold het_bound. pose proof (vs_h _ V) as [H _]. apply Qmult_le_0_compat; [apply qnat_nonneg | exact H].
Qed.

(** (a) enough individuals are covered, exactly *)
Lemma enough_near st nseq nsub : st_c0 st == 0 -> st_pos st == 1 ->
  Nat.even nseq = true -> Nat.even nsub = true -> (nsub <= nseq)%nat -> (2 <= nseq)%nat ->
  enough st nseq nsub == 1.
Proof.
  intros C0 Pos E1 E2 Hs H2. unfold enough. cbv zeta. rewrite Qred_correct.
  pose proof (even_half _ E1) as N1. pose proof (even_half _ E2) as N2.
  set (N := (nseq / 2)%nat) in *.
  assert (Hlo : ((nsub + 1) / 2 - 1 <= N - 1)%nat).
  { assert ((nsub + 1) / 2 = nsub / 2)%nat.
    { rewrite <- N2 at 1. rewrite Nat.add_comm, Nat.mul_comm, Nat.div_add by lia. reflexivity. }
    lia. }
  set (lo := ((nsub + 1) / 2 - 1)%nat) in *.
  replace (N - lo)%nat with ((N - 1 - lo) + 1)%nat by lia. rewrite seq_app, map_app, qsum_app.
  rewrite qsum_zero.
  - replace (lo + (N - 1 - lo))%nat with (N - 1)%nat by lia. cbn [seq map]. rewrite qsum_cons, qsum_nil.
    rewrite Nat.sub_diag, binQ_nn, Pos, qpow_1. cbn [qpow]. ring.
  - intros cv Hcv. apply in_seq in Hcv. replace (N - 1 - cv)%nat with (S (N - 2 - cv)) by lia. rewrite C0, qpow_0. ring.
Qed.

Lemma near_deep_pos p : near_deep p -> st_pos (p_st p) == 1.
Proof. intros ((V & _) & C0 & _). pose proof (vs_tot _ V). lra. Qed.

Lemma pe_tot_near pops : Forall near_deep pops -> pe_tot pops == 1.
Proof.
  intros H. unfold pe_tot. rewrite Qred_correct. induction H as [|p pops Hp _ IH]; [reflexivity|].
  cbn [map]. unfold qprod in *. cbn [fold_right]. rewrite IH.
  pose proof (near_deep_pos p Hp) as Pos.
  destruct Hp as ((_ & E1 & E2 & Hs & _) & C0 & _ & H2). rewrite enough_near by assumption. ring.
Qed.

(** (b) no-call probabilities away from allele count 0 *)
Lemma nocall_part_near st pt n af : valid_stats st -> st_c0 st == 0 -> st_c1 st == 0 ->
  is_config n (Z.of_nat af) 0 pt -> (1 <= af)%nat ->
  0 <= nocall_part st pt <= st_s st + qnat n * st_t st.
Proof.
  intros V C0 C1 Cf Haf. split; [apply nocall_part_unit, V|].
  pose proof (counts_of_config pt (config_le2 _ _ _ _ Cf)) as [K1 K2]. destruct Cf as (Ln & Sm & _ & _).
  apply Nat2Z.inj in Sm.
  pose proof (vs_s _ V) as Hs. pose proof (vs_t _ V) as Ht. pose proof (vs_st _ V) as Hst.
  pose proof (qnat_nonneg n) as Hn.
  assert (Hnt : 0 <= qnat n * st_t st) by (apply Qmult_le_0_compat; assumption).
  unfold nocall_part. cbv zeta.
  destruct (cnt 2 pt) as [|k2] eqn:E2.
  - destruct (cnt 1 pt) as [|k1] eqn:E1; [lia|].
    cbn [Nat.ltb Nat.leb qpow_pred]. rewrite qpow_S. cbn [qpow].
    assert (U0 : 0 <= qpow (st_s st) k1) by (apply qpow_nonneg, Hs).
    assert (U1 : qpow (st_s st) k1 <= 1) by (apply qpow_le1; lra).
    assert (Hm : qnat (S k1) <= qnat n) by (apply qnat_le; lia).
    pose proof (qnat_nonneg (S k1)) as Hm0.
    set (u := qpow (st_s st) k1) in *. set (m := qnat (S k1)) in *. set (s := st_s st) in *. set (t := st_t st) in *.
    assert (0 <= m * t) by (apply Qmult_le_0_compat; assumption).
    assert (u * (m * t) <= m * t) by nra.
    assert (m * t <= qnat n * t) by nra.
    assert (s * u <= s) by nra.
    nra.
  - match goal with |- ?e <= _ => assert (Z : e == 0) end.
    { cbn [Nat.ltb Nat.leb]. rewrite !qpow_S, C0, C1. ring. }
    rewrite Z. lra.
Qed.

Lemma dot_le_const {A} (B : Q) (f : A -> Q) : 0 <= B -> forall (ps : list Q) (pts : list A),
  (forall p, In p ps -> 0 <= p) -> (forall pt, In pt pts -> 0 <= f pt <= B) ->
  0 <= dot ps (map f pts) <= B * qsum ps.
Proof.
  intros HB. induction ps as [|p ps IH]; intros pts Hp Hf.
  - unfold dot. cbn. lra.
  - assert (P0 : 0 <= p) by (apply Hp; now left).
    assert (S0 : 0 <= qsum ps) by (apply qsum_nonneg; intros; apply Hp; now right).
    destruct pts as [|pt pts].
    + unfold dot. cbn [map combine]. rewrite qsum_nil, qsum_cons. nra.
    + cbn [map]. rewrite dot_cons, qsum_cons.
      assert (0 <= f pt <= B) by (apply Hf; now left).
      destruct (IH pts) as [L U]; [intros; apply Hp; now right | intros; apply Hf; now right|]. nra.
Qed.

Lemma nocall_at_near st nseq F af : valid_stats st -> st_c0 st == 0 -> st_c1 st == 0 ->
  (1 <= af <= 2 * (nseq / 2))%nat -> F_ok F ->
  0 <= nocall_at st nseq F af <= st_s st + qnat (nseq / 2) * st_t st.
Proof.
  intros V C0 C1 Haf HF. unfold nocall_at. cbv zeta. rewrite Qred_correct.
  set (B := st_s st + qnat (nseq / 2) * st_t st).
  assert (HB : 0 <= B).
  { unfold B. pose proof (vs_s _ V). pose proof (vs_t _ V). pose proof (qnat_nonneg (nseq / 2)).
    assert (0 <= qnat (nseq / 2) * st_t st) by (apply Qmult_le_0_compat; assumption). lra. }
  destruct (dot_le_const B (nocall_part st) HB (part_probs F (parts nseq af)) (parts nseq af)) as [L U].
  - apply part_probs_nonneg, HF.
  - intros pt Hpt. apply parts_spec in Hpt. apply (nocall_part_near st pt (nseq / 2) af); auto. lia.
  - rewrite part_probs_sum_to_one in U by (auto; lia). split; lra.
Qed.

Lemma nocall_1D_near p i : near_deep p -> (1 <= i)%nat ->
  0 <= nth i (nocall_1D (p_st p) (p_nseq p) (p_F p)) 0 <= nc_bound p.
Proof.
  intros (Hok & C0 & C1 & H2) Hi. pose proof (nc_bound_nonneg p Hok) as HB. destruct Hok as (V & E1 & _ & _ & HF).
  unfold nocall_1D. rewrite nth_map_seq. destruct (Nat.ltb_spec i (p_nseq p + 1)); [|lra].
  apply nocall_at_near; auto. rewrite even_half by exact E1. lia.
Qed.

Lemma nocall_1D_unit_nth p i : pop_ok p -> 0 <= nth i (nocall_1D (p_st p) (p_nseq p) (p_F p)) 0 <= 1.
Proof.
  intros (V & E1 & _ & _ & HF). destruct (nocall_1D_unit _ _ _ V E1 HF) as [_ U].
  destruct (nth_in_or_default i (nocall_1D (p_st p) (p_nseq p) (p_F p)) 0) as [Hin|E]; [apply U, Hin | rewrite E; lra].
Qed.

(** the product over populations, at any index that is not the absent-allele corner *)
Lemma pnc_at_near Bm : forall pops idx, Forall near_deep pops -> Forall (fun p => nc_bound p <= Bm) pops ->
  length idx = length pops -> is_origin idx = false -> 0 <= pnc_at pops idx <= Bm.
Proof.
  unfold pnc_at, pnc_vecs. induction pops as [|p pops IH]; intros idx H HB L O.
  - destruct idx; [discriminate O | discriminate L].
  - destruct idx as [|i idx]; [discriminate|]. cbn [map prod_at].
    pose proof (Forall_inv H) as Hp. pose proof (Forall_inv_tail H) as Hps.
    pose proof (Forall_inv HB) as Bp. cbv beta in Bp. pose proof (Forall_inv_tail HB) as Bps.
    assert (Hoks : Forall pop_ok pops) by (eapply Forall_impl; [|exact Hps]; intros q Hq; apply Hq).
    pose proof (pnc_at_unit pops idx Hoks) as R1. unfold pnc_at, pnc_vecs in R1.
    pose proof (nocall_1D_unit_nth p i (proj1 Hp)) as A1.
    cbn [is_origin forallb] in O. fold (is_origin idx) in O.
    set (a := nth i (nocall_1D (p_st p) (p_nseq p) (p_F p)) 0) in *.
    set (r := prod_at (map (fun p0 => nocall_1D (p_st p0) (p_nseq p0) (p_F p0)) pops) idx) in *.
    destruct (Nat.eqb_spec i 0) as [->|Hne].
    + cbn [andb] in O. destruct (IH idx Hps Bps ltac:(cbn in L; lia) O) as [R0 RB]. fold r in R0, RB. assert (a * r <= r) by nra. assert (0 <= a * r) by nra. lra.
    + pose proof (nocall_1D_near p i Hp ltac:(lia)) as A2. fold a in A2. assert (a * r <= a) by nra. assert (0 <= a * r) by nra. lra.
Qed.

(** (c) the analytic regime is used everywhere except possibly at the corner *)
Lemma use_sim_near pops thr Bm idx : Forall near_deep pops -> Forall (fun p => nc_bound p <= Bm) pops -> Bm <= thr ->
  length idx = length pops -> is_origin idx = false -> use_sim pops thr idx = false.
Proof.
  intros H HB Ht L O. unfold use_sim, use_sim_v. apply negb_false_iff. apply Qle_bool_iff.
  change (prod_at (pnc_vecs pops) idx) with (pnc_at pops idx).
  destruct (pnc_at_near Bm pops idx H HB L O). lra.
Qed.

(** ** (d) the calling-error matrix keeps at least 1 - M h on its diagonal *)
Lemma binpmf_0 n h : binpmf 0 n h == qpow (1 - h) n.
Proof. unfold binpmf. rewrite binQ_n0, Nat.sub_0_r. cbn [qpow]. ring. Qed.

Lemma cem_contribs_diag h af pp : 0 <= h <= 1 -> 0 <= snd pp ->
  snd pp * qpow (1 - h) (cnt 1 (fst pp))
  <= qsum (map (fun c => if (fst c =? af)%nat then snd c else 0) (cem_contribs h af pp)).
Proof.
  intros Hh Hp. unfold cem_contribs. cbv zeta. rewrite map_flat_map, qsum_flat_map.
  replace (cnt 1 (fst pp) + 1)%nat with (S (cnt 1 (fst pp))) by lia. rewrite seq0_S. cbn [map]. rewrite qsum_cons.
  assert (R : 0 <= qsum (map (fun x => qsum (map (fun c : nat * Q => if (fst c =? af)%nat then snd c else 0)
                 (map (fun r => ((af + (x - r) - r)%nat, snd pp * binpmf x (cnt 1 (fst pp)) h * binpmf r x half)) (seq 0 (x + 1)))))
               (map S (seq 0 (cnt 1 (fst pp)))))).
  { apply qsum_map_nonneg. intros e _. rewrite map_map. apply qsum_map_nonneg. intros r _. cbn [fst snd].
    destruct (_ =? af)%nat; [|lra].
    apply Qmult_le_0_compat; [apply Qmult_le_0_compat; [exact Hp|]|]; apply binpmf_nonneg; [exact Hh | exact half_unit]. }
  cbn [seq map Nat.add fst snd Nat.sub] in *. rewrite qsum_cons, qsum_nil. rewrite Nat.add_0_r, Nat.sub_0_r, Nat.eqb_refl.
  rewrite binpmf_0, binpmf_00. lra.
Qed.

Lemma cem_row_diag h nsub F af : 0 <= h <= 1 -> (af <= 2 * (nsub / 2))%nat -> (af <= nsub)%nat -> F_ok F ->
  1 - qnat (nsub / 2) * h <= nth af (cem_row h nsub F af) 0.
Proof.
  intros Hh Haf Han HF. unfold cem_row, scatter. cbv zeta.
  rewrite nth_scatter_fold by (rewrite repeat_length; lia). rewrite nth_repeat0.
  rewrite map_flat_map, qsum_flat_map.
  set (c := 1 - qnat (nsub / 2) * h).
  set (pps := combine (parts nsub af) (part_probs F (parts nsub af))).
  assert (E : c == qsum (map (fun pp : list nat * Q => c * snd pp) pps)).
  { rewrite qsum_map_scale. unfold pps. rewrite combine_snd_sum by (symmetry; apply part_probs_length).
    rewrite part_probs_sum_to_one by assumption. ring. }
  rewrite E at 1. rewrite Qplus_0_l. apply qsum_map_le. intros [pt pr] Hpp.
  pose proof (in_combine_l _ _ _ _ Hpp) as Hpt. pose proof (in_combine_r _ _ _ _ Hpp) as Hpr.
  apply parts_spec in Hpt. pose proof (part_probs_nonneg nsub af F HF pr Hpr) as P0.
  pose proof (counts_of_config pt (config_le2 _ _ _ _ Hpt)) as [K1 _]. destruct Hpt as (Ln & _).
  eapply Qle_trans; [|apply cem_contribs_diag; [exact Hh | exact P0]]. cbn [fst snd].
  pose proof (bernoulli h Hh (cnt 1 pt)) as Bn.
  assert (Hm : qnat (cnt 1 pt) <= qnat (nsub / 2)) by (apply qnat_le; lia).
  unfold c. set (u := qpow (1 - h) (cnt 1 pt)) in *. set (m := qnat (cnt 1 pt)) in *. set (M := qnat (nsub / 2)) in *.
  assert (m * h <= M * h) by nra. nra.
Qed.

Lemma mat_entry_nonneg (M : list (list Q)) a j : (forall row, In row M -> forall e, In e row -> 0 <= e) ->
  0 <= nth j (nth a M []) 0.
Proof.
  intros H. destruct (nth_in_or_default a M []) as [Hin|E].
  - apply nth_nonneg, H, Hin.
  - rewrite E. destruct j; cbn; lra.
Qed.

Lemma heterr_nonneg p a j : pop_ok p -> 0 <= nth j (nth a (heterr_mat p) []) 0.
Proof.
  intros (V & E1 & E2 & Hs & HF). apply mat_entry_nonneg. intros row Hr.
  destruct (cem_rows (p_st p) (p_nsub p) (p_F p) (vs_h _ V) E2 HF) as [_ R]. destruct (R row Hr) as (_ & N & _). exact N.
Qed.

Lemma proj_nonneg p b j : pop_ok p -> 0 <= nth j (nth b (proj_matrix (p_nseq p) (p_nsub p) (p_F p)) []) 0.
Proof.
  intros (V & E1 & E2 & Hs & HF). apply mat_entry_nonneg. intros row Hr.
  destruct (proj_matrix_rows _ _ _ Hs E1 HF) as [_ R]. destruct (R row Hr) as (_ & N & _). exact N.
Qed.

Lemma heterr_diag p j : pop_ok p -> (j < p_nsub p + 1)%nat ->
  clip0 (1 - het_bound p) <= nth j (nth j (heterr_mat p) []) 0.
Proof.
  intros Hok Hj. pose proof (heterr_nonneg p j j Hok) as N0. destruct Hok as (V & E1 & E2 & Hs & HF).
  assert (D : 1 - het_bound p <= nth j (nth j (heterr_mat p) []) 0).
  { unfold heterr_mat, cem, het_bound.
    rewrite (nth_map_default _ _ j 0%nat) by (now rewrite seq_length). rewrite seq_nth by lia. cbn [Nat.add].
    apply cem_row_diag; [apply (vs_h _ V) | rewrite even_half by exact E2; lia | lia | exact HF]. }
  unfold clip0. destruct (Qle_bool 0 (1 - het_bound p)); assumption.
Qed.
