(** C01: the neutral equilibrium density is an EXACT fixed point of the discrete integrator at every interior grid
    point - for every grid running from 0 to 1, every time step, every size nu and breeding ratio beta, either delj
    setting.  No grid error is involved: with V(x) phi(x) = theta0 (1 - x) the interface fluxes of the conservative
    scheme are all equal to theta0/2, so their divergence vanishes at the points 2..N-3, and at the first interior
    point the missing flux from the left (V vanishes at x = 0) is exactly the mutation influx
    dt/x_1 * theta0/2 * 2/(x_2 - x_0) that dadi injects there.

      forall 1 <= i <= N-2 :   (one_pop step (phi_snm))_i = (phi_snm)_i

    (the two boundary entries are not claimed: they do not feed back into the interior, Proofs/IsolatedLine.v). *)
From Coq Require Import Reals List Lra Lia Arith Bool FunctionalExtensionality.
From Dadi Require Import Base.Num Base.NumR Model.Tridiag Model.Scheme Model.NDSweep Model.Equilibrium
  Proofs.TridiagProofs Proofs.SchemeProofs Proofs.NDLines Proofs.Pivots Proofs.IntegrateLinear Proofs.FrozenStep
  Proofs.IsolatedLine Proofs.IsolatedSweep Proofs.IsolatedStep.
Import ListNotations.
Local Open Scope R_scope.

(** ** building the list-shaped system from index-wise equations (converse of SchemeProofs.eqs_nth) *)
Lemma eqs_intro : forall (rows : list (@row R)) (xs : list R) xprev, length xs = length rows ->
  (forall i, (i < length rows)%nat ->
     let '(a, b, c, r) := nth i rows (0, 0, 0, 0) in
     a * (match i with O => xprev | S j => nth j xs 0 end) + b * nth i xs 0 + c * nth (S i) xs 0 = r) ->
  eqs xprev rows xs.
Proof.
  induction rows as [|[[[a b] c] r] t IH]; intros xs xprev Hl H.
  - destruct xs; [exact I | discriminate].
  - destruct xs as [|x xt]; [discriminate|]. cbn [eqs]. split.
    + pose proof (H 0%nat ltac:(cbn; lia)) as H0. cbn [nth] in H0. destruct xt; exact H0.
    + apply IH; [cbn in Hl; lia|]. intros i Hi. pose proof (H (S i) ltac:(cbn; lia)) as HS. cbn [nth] in HS.
      destruct (nth i t (0, 0, 0, 0)) as [[[a' b'] c'] r']. destruct i; exact HS.
Qed.

Lemma eqs_top_intro : forall (rows : list (@row R)) (xs : list R), length xs = length rows ->
  (forall i, (i < length rows)%nat ->
     let '(a, b, c, r) := nth i rows (0, 0, 0, 0) in
     (match i with O => 0 | S j => a * nth j xs 0 end) + b * nth i xs 0 + c * nth (S i) xs 0 = r) ->
  eqs_top rows xs.
Proof.
  intros [|[[[a b] c] r] t] xs Hl H.
  - destruct xs; [exact I | discriminate].
  - destruct xs as [|x xt]; [discriminate|]. cbn [eqs_top]. split.
    + pose proof (H 0%nat ltac:(cbn; lia)) as H0. cbn [nth] in H0. destruct xt; cbn [hd nth] in *; lra.
    + apply eqs_intro; [cbn in Hl; lia|]. intros i Hi. pose proof (H (S i) ltac:(cbn; lia)) as HS. cbn [nth] in HS.
      destruct (nth i t (0, 0, 0, 0)) as [[[a' b'] c'] r']. destruct i; exact HS.
Qed.

Section Snm.
  Variable g : list R.
  Variable n : nat.
  Hypothesis Hg : unit_grid g n.
  Variables nu theta0 beta dt : R.
  Hypothesis Hnu : 0 < nu.
  Hypothesis Hbeta : 0 < beta.
  Hypothesis Hdt : 0 < dt.
  Variable dj : bool.

  Notation Vf := (Vfunc_beta nu beta).
  Notation Mf := (fun _ : R => 0).
  Notation phi := (phi_snm g nu theta0 beta).
  (** what _inject_mutations_1D adds at index 1 *)
  Definition snm_amount : R := dt / nthF g 1 * theta0 / 2 * 2 / (nthF g 2 - nthF g 0).
  Notation psi := (add_at phi 1 snm_amount).

  Lemma g_len : length g = n. Proof. destruct Hg as [H _]; exact H. Qed.
  Lemma n3 : (3 <= n)%nat. Proof. destruct Hg as (_ & H & _); exact H. Qed.
  Lemma g0 : nthF g 0 = 0. Proof. destruct Hg as (_ & _ & H & _); exact H. Qed.
  Lemma g1 : nthF g (n - 1) = 1. Proof. destruct Hg as (_ & _ & _ & H & _); exact H. Qed.
  Lemma gdx i : (i < n - 1)%nat -> 0 < dx g i. Proof. destruct Hg as (_ & _ & _ & _ & H); apply H. Qed.
  Lemma g_pos i : (1 <= i < n)%nat -> 0 < nthF g i.
  Proof. intros Hi. pose proof (unit_grid_mono g n Hg i 0%nat ltac:(lia) ltac:(lia)). rewrite g0 in H. exact H. Qed.

  Lemma phi_len : length phi = n.
  Proof.
    pose proof g_len as Hl. pose proof n3 as H3. unfold phi_snm.
    destruct g as [|a [|b t]]; cbn [length] in Hl; try lia.
    destruct (_ && _); cbn [tl map copy1to0]; rewrite ?map_length; cbn [length]; rewrite ?map_length; exact Hl.
  Qed.

  Lemma phi_nth i : (1 <= i < n)%nat -> nthF phi i = nu * theta0 / nthF g i * bfac beta.
  Proof.
    intros Hi. pose proof g_len as Hl. pose proof g0 as H0. unfold phi_snm, headF, nthF in *.
    destruct g as [|a [|b t]]; cbn [length] in Hl; try lia. cbn [hd nth] in H0. subst a.
    numR. cbn [hd]. rewrite (proj2 (Reqb_true 0 0) eq_refl). cbn [length Nat.eqb negb andb tl map copy1to0].
    destruct i as [|i]; [lia|]. cbn [map nth].
    destruct i as [|i]; [unfold snm_pt; numR; reflexivity|]. cbn [nth].
    assert (Hlt : (i < length t)%nat) by (cbn [length] in Hi; lia).
    rewrite (nth_indep _ 0 (snm_pt nu theta0 0 * bfac beta)) by (rewrite !map_length; exact Hlt).
    rewrite map_map, (map_nth (fun x => snm_pt nu theta0 x * bfac beta)). unfold snm_pt. numR. reflexivity.
  Qed.

  (** V phi = theta0 (1 - x) at every point but the first *)
  Lemma V_phi i : (1 <= i < n)%nat -> Vf (x g i) * nthF phi i = theta0 * (1 - x g i).
  Proof.
    intros Hi. rewrite (phi_nth i Hi). pose proof (g_pos i Hi) as Hp. unfold x, Vfunc_beta, bfac, nfour, n4, n2. numR.
    field. repeat split; lra.
  Qed.
  Lemma V_first : Vf (x g 0) = 0.
  Proof. unfold x. rewrite g0. unfold Vfunc_beta, n4, n2. numR. field. lra. Qed.
  Lemma V_last : Vf (x g (n - 1)) = 0.
  Proof. unfold x. rewrite g1. unfold Vfunc_beta, n4, n2. numR. field. lra. Qed.

  Lemma psi_nth i : nthF psi i = if Nat.eqb i 1 then nthF phi 1 + snm_amount else nthF phi i.
  Proof. rewrite nthF_add_at, phi_len. pose proof n3. destruct (Nat.eqb_spec i 1) as [->|]; [|reflexivity]. destruct (Nat.ltb_spec 1 n); [reflexivity|lia]. Qed.

  (** the row equations of the implicit system hold for phi with right-hand side psi/dt at every interior row *)
  Lemma snm_row (c0 c1 : bool) i : (1 <= i <= n - 2)%nat ->
    coef_a g Vf Mf dj i * nthF phi (i - 1) + coef_b g Vf Mf nu c0 c1 dt dj i * nthF phi i + coef_c g Vf Mf dj i * nthF phi (S i)
    = nthF psi i / dt.
  Proof.
    intros Hi. pose proof g_len as Hl. pose proof n3 as H3.
    unfold coef_a, coef_b, coef_b0, coef_c. fold (Scheme.N g). unfold Scheme.N. rewrite Hl.
    destruct (Nat.eqb_spec i 0) as [E|_]; [lia|]. destruct (Nat.eqb_spec i (n - 1)) as [E|_]; [lia|].
    destruct (Nat.ltb_spec i (n - 1)) as [_|E]; [|lia]. destruct (Nat.ltb_spec 0 i) as [_|E]; [|lia].
    unfold atemp, ctemp. replace (S (i - 1)) with i by lia.
    assert (Edf : dfactor g i = 2 / (dx g i + dx g (i - 1))).
    { unfold dfactor. fold (Scheme.N g). unfold Scheme.N. rewrite Hl.
      destruct (Nat.eqb_spec i 0); [lia|]. destruct (Nat.eqb_spec i (n - 1)); [lia|]. unfold n2. numR. reflexivity. }
    rewrite Edf. pose proof (gdx i ltac:(lia)) as Hd1. pose proof (gdx (i - 1)%nat ltac:(lia)) as Hd0.
    pose proof (V_phi i ltac:(lia)) as P1. pose proof (V_phi (S i) ltac:(lia)) as P2.
    rewrite psi_nth. unfold n2. numR.
    set (Vm := Vf (x g (i - 1))) in *. set (V0 := Vf (x g i)) in *. set (Vp := Vf (x g (S i))) in *.
    set (fm := nthF phi (i - 1)) in *. set (f0 := nthF phi i) in *. set (fp := nthF phi (S i)) in *.
    set (d1 := dx g i) in *. set (d0 := dx g (i - 1)) in *.
    assert (Ed1 : x g (S i) - x g i = d1) by reflexivity.
    assert (Ed0 : x g i - x g (i - 1) = d0) by (unfold d0, dx; replace (S (i - 1)) with i by lia; reflexivity).
    (* common shape: phi_i/dt + (1/(d1+d0)) * ((V0 f0 - Vm fm)/d0 + (V0 f0 - Vp fp)/d1) *)
    assert (Eshape : - (2 / (d1 + d0)) * (0 * delj g Vf Mf dj (i - 1) + Vm / ((1 + 1) * d0)) * fm
                     + (1 / dt + (2 / (d1 + d0) * (0 * delj g Vf Mf dj i + V0 / ((1 + 1) * d1))
                                  + 2 / (d1 + d0) * (- 0 * (1 - delj g Vf Mf dj (i - 1)) + V0 / ((1 + 1) * d0)) + 0 + 0)) * f0
                     + - (2 / (d1 + d0)) * (- 0 * (1 - delj g Vf Mf dj i) + Vp / ((1 + 1) * d1)) * fp
                     = f0 / dt + (1 / (d1 + d0)) * ((V0 * f0 - Vm * fm) / d0 + (V0 * f0 - Vp * fp) / d1)).
    { field. repeat split; lra. }
    rewrite Eshape. rewrite P1, P2.
    destruct (Nat.eqb_spec i 1) as [E1|E1].
    - (* first interior row: V vanishes at x_0 = 0, the influx replaces the flux from the left *)
      subst i. assert (EVm : Vm = 0) by (unfold Vm; replace (1 - 1)%nat with 0%nat by lia; exact V_first).
      rewrite EVm. unfold snm_amount.
      assert (Ex0 : x g (1 - 1) = 0) by (replace (1 - 1)%nat with 0%nat by lia; unfold x; exact g0).
      pose proof (g_pos 1%nat ltac:(lia)) as Hx1. unfold f0.
      assert (Ex2 : nthF g 2 - nthF g 0 = d1 + d0).
      { unfold d1, d0, dx, x. replace (1 - 1)%nat with 0%nat by lia. numR. lra. }
      rewrite Ex2. assert (Ed0' : x g 1 = d0) by lra. fold (x g 1). rewrite Ed0'. assert (Ex2' : x g 2 = d1 + d0) by lra. rewrite Ex2'. field. repeat split; lra.
    - (* rows 2..n-2: the interface fluxes are all theta0/2 *)
      pose proof (V_phi (i - 1)%nat ltac:(lia)) as Pm. fold Vm fm in Pm. rewrite Pm.
      replace (theta0 * (1 - x g i) - theta0 * (1 - x g (i - 1))) with (- theta0 * d0) by (rewrite <- Ed0; ring).
      replace (theta0 * (1 - x g i) - theta0 * (1 - x g (S i))) with (theta0 * d1) by (rewrite <- Ed1; ring).
      field. repeat split; lra.
  Qed.

  (** right-hand side for which phi itself is the exact solution of the whole system *)
  Definition rhs_of (c0 c1 : bool) (i : nat) : R :=
    dt * ((match i with O => 0 | S j => coef_a g Vf Mf dj i * nthF phi j end)
          + coef_b g Vf Mf nu c0 c1 dt dj i * nthF phi i + coef_c g Vf Mf dj i * nthF phi (S i)).
  Definition psi' (c0 c1 : bool) : list R := map (rhs_of c0 c1) (seq 0 n).

  Lemma solve_psi' c0 c1 : line_solve g Vf Mf nu c0 c1 dt dj (psi' c0 c1) = phi.
  Proof.
    pose proof g_len as Hl. pose proof n3 as H3. symmetry. unfold line_solve.
    apply thomas_unique.
    - apply (isolated_pivots_nonzero g n nu beta c0 c1 dt dj (psi' c0 c1) Hg Hnu Hbeta Hdt).
    - rewrite line_rows_eq_spec by lia. unfold line_rows_spec. fold (Scheme.N g). unfold Scheme.N. rewrite Hl.
      apply eqs_top_intro; [rewrite map_length, seq_length; exact phi_len|].
      intros i Hi. rewrite map_length, seq_length in Hi.
      rewrite (nth_indep _ (0, 0, 0, 0) ((fun i => (coef_a g Vf Mf dj i, coef_b g Vf Mf nu c0 c1 dt dj i, coef_c g Vf Mf dj i, nthF (psi' c0 c1) i / dt)) 0%nat))
        by (rewrite map_length, seq_length; exact Hi).
      rewrite nth_map_seq0 by exact Hi. cbv beta.
      assert (Ep : nthF (psi' c0 c1) i = rhs_of c0 c1 i) by (unfold psi', nthF; rewrite nth_map_seq0 by exact Hi; reflexivity).
      rewrite Ep. unfold rhs_of, nthF. numR. destruct i as [|j]; field; lra.
  Qed.

  (** the neutral equilibrium is reproduced exactly at every interior grid point *)
  Theorem snm_is_discrete_fixed_point (c0 c1 : bool) i : (1 <= i <= n - 2)%nat ->
    nthF (line_solve g Vf Mf nu c0 c1 dt dj psi) i = nthF phi i.
  Proof.
    intros Hi. pose proof g_len as Hl. pose proof n3 as H3.
    rewrite <- (solve_psi' c0 c1) at 2.
    apply (interior_closed_when_V_vanishes g Vf Mf nu dt dj); rewrite ?Hl; try lia; try reflexivity; try exact V_first; try exact V_last.
    intros i' Hi'. unfold psi' at 1. unfold nthF at 2. rewrite nth_map_seq0 by lia. unfold rhs_of.
    destruct i' as [|j]; [lia|]. pose proof (snm_row c0 c1 (S j) ltac:(lia)) as Hr.
    replace (S j - 1)%nat with j in Hr by lia. rewrite Hr. field. lra.
  Qed.
End Snm.

(** ** the same for the 1-D kernel of the model (implicit_1D with gamma = 0, any dominance h) *)
Theorem snm_fixed_point_of_implicit_1D g n nu theta0 beta dt h dj i :
  unit_grid g n -> 0 < nu -> 0 < beta -> 0 < dt -> (1 <= i <= n - 2)%nat ->
  nthF (implicit_1D g nu 0 h beta dt dj (add_at (phi_snm g nu theta0 beta) 1 (snm_amount g theta0 dt))) i
  = nthF (phi_snm g nu theta0 beta) i.
Proof.
  intros Hg Hnu Hbeta Hdt Hi. unfold implicit_1D.
  assert (EM : Msel 0 h = (fun _ : R => 0)).
  { apply functional_extensionality. intros y. unfold Msel, n2. numR. ring. }
  rewrite EM. apply (snm_is_discrete_fixed_point g n Hg nu theta0 beta dt Hnu Hbeta Hdt dj true true i Hi).
Qed.

(** ** the whole one-population step of the model (mutation influx + sweep), then any number of steps, then the driver *)
Section SnmStep.
  Variable g : list R.
  Variable n : nat.
  Hypothesis Hg : unit_grid g n.
  Variables nu theta0 beta h : R.
  Hypothesis Hnu : 0 < nu.
  Hypothesis Hbeta : 0 < beta.
  Variable dj : bool.
  Definition snm_pop : @pop R :=
    {| p_nu := nu; p_gamma := 0; p_h := h; p_beta := beta; p_ms := []; p_frozen := false; p_nomut := false |}.
  Notation phi := (phi_snm g nu theta0 beta).
  Notation Sh := [n].
  Notation G := [g].
  Notation P := [snm_pop].

  Lemma HG1 : Forall2 unit_grid G Sh. Proof. constructor; [exact Hg | constructor]. Qed.
  Lemma prodn1 : prodn Sh = n. Proof. unfold prodn. cbn [fold_right]. lia. Qed.

  Lemma snm_amount_is_inject_amount dt : inject_amount G 1 0 theta0 dt = snm_amount g theta0 dt.
  Proof.
    unfold inject_amount, snm_amount. cbn [nth seq map Nat.eqb npow nprod fold_right]. unfold n2. numR.
    assert (H3 : (3 <= n)%nat) by (destruct Hg as (_ & H & _); exact H).
    pose proof (unit_grid_mono g n Hg 2%nat 0%nat ltac:(lia) ltac:(lia)) as Hlt.
    pose proof (unit_grid_mono g n Hg 1%nat 0%nat ltac:(lia) ltac:(lia)) as H1.
    assert (H0 : nthF g 0 = 0) by (destruct Hg as (_ & _ & H & _); exact H).
    rewrite H0 in *. field. split; lra.
  Qed.

  Lemma step_1D dt (X : list R) :
    step Sh G P theta0 dt dj X = sweep Sh G P 0 dt dj (add_at X 1 (snm_amount g theta0 dt)).
  Proof.
    unfold step, inject. cbn [length seq combine fold_left snm_pop p_frozen p_nomut orb].
    rewrite snm_amount_is_inject_amount. cbn [unit_ix seq map Nat.eqb flatidx prodn fold_right].
    replace (1 * 1 + 0)%nat with 1%nat by lia. reflexivity.
  Qed.

  Lemma sweep_1D_nth dt (X : list R) i : length X = n -> (i < n)%nat ->
    nthF (sweep Sh G P 0 dt dj X) i = nthF (line_solve g (Vfunc_beta nu beta) (fun _ => 0) nu true true dt dj X) i.
  Proof.
    intros HX Hi. unfold sweep. cbn [nth_error].
    assert (E1 : ax_len Sh 0 = n) by reflexivity.
    assert (E2 : ax_inner Sh 0 = 1%nat) by reflexivity.
    assert (E3 : ax_outer Sh 0 = 1%nat) by reflexivity.
    pose proof (map_lines_nth (fun os line => sweep_line G snm_pop 0 os dt dj line) Sh G 0 X 0 i 0
                  ltac:(rewrite E3; lia) ltac:(rewrite E1; exact Hi) ltac:(rewrite E2; lia)) as Hm.
    rewrite E1, E2 in Hm. replace ((0 * n + i) * 1 + 0)%nat with i in Hm by lia. rewrite Hm.
    assert (Eos : line_os Sh G 0 0 0 = []) by reflexivity. rewrite Eos.
    assert (Eline : get_line Sh 0 X 0 0 = X).
    { unfold get_line. rewrite E1, E2. transitivity (map (nthF X) (seq 0 (length X))); [|apply map_nthF_seq].
      rewrite HX. apply map_ext_in. intros j _. f_equal. lia. }
    rewrite Eline. unfold sweep_line. cbn [nth snm_pop p_nu p_beta p_ms p_gamma p_h all_eq forallb].
    assert (EM : Mfunc (@nil R) [] 0 h = (fun _ : R => 0)).
    { apply functional_extensionality. intros y. unfold Mfunc, Mmig, Msel, n2. cbn [combine map nsum fold_right]. numR. ring. }
    rewrite EM. reflexivity.
  Qed.

  (** the interior of the density is reproduced exactly by one step ... *)
  Theorem snm_step_fixed dt : 0 < dt -> agree_off_corners Sh G (step Sh G P theta0 dt dj phi) phi.
  Proof.
    intros Hdt. pose proof (phi_len g n Hg nu theta0 beta) as Hl.
    assert (Hsl : length (step Sh G P theta0 dt dj phi) = prodn Sh).
    { apply step_length; [reflexivity | rewrite prodn1; exact Hl]. }
    split; [exact Hsl|]. split; [rewrite prodn1; exact Hl|].
    intros ix Hv [Hn0 Hn1].
    destruct ix as [|i ix']; [inversion Hv|]. destruct ix' as [|j ix'']; [|inversion Hv as [|? ? ? ? ? Ht]; inversion Ht].
    assert (Hi : (i < n)%nat) by (inversion Hv; assumption).
    cbn [flatidx prodn fold_right]. replace (i * 1 + 0)%nat with i by lia.
    cbn [coords combine map fst snd all_eq forallb] in Hn0, Hn1. rewrite andb_true_r in Hn0, Hn1. numR.
    apply Reqb_false in Hn0. apply Reqb_false in Hn1.
    assert (Hi0 : i <> 0%nat) by (intros ->; apply Hn0; destruct Hg as (_ & _ & H0 & _); exact H0).
    assert (Hi1 : i <> (n - 1)%nat) by (intros ->; apply Hn1; destruct Hg as (_ & _ & _ & H1 & _); exact H1).
    rewrite step_1D, sweep_1D_nth by (rewrite ?add_at_length; assumption).
    apply (snm_is_discrete_fixed_point g n Hg nu theta0 beta dt Hnu Hbeta Hdt dj true true i). lia.
  Qed.

  (** ... and by any number of steps of any positive sizes: densities that agree with it in the interior stay so *)
  Lemma snm_step_keeps dt (X : list R) : 0 < dt -> agree_off_corners Sh G X phi ->
    agree_off_corners Sh G (step Sh G P theta0 dt dj X) phi.
  Proof.
    intros Hdt HX. apply (agree_trans _ _ _ (step Sh G P theta0 dt dj phi)); [|apply snm_step_fixed; exact Hdt].
    rewrite !step_1D. apply (sweep_respects_agree Sh G P 0 snm_pop); [exact HG1 | cbn; lia | reflexivity | split; [reflexivity | constructor] |].
    apply add_at_respects. exact HX.
  Qed.

  Theorem snm_steps_fixed : forall dts (X : list R), (forall dt, In dt dts -> 0 < dt) -> agree_off_corners Sh G X phi ->
    agree_off_corners Sh G (steps Sh G P theta0 dj dts X) phi.
  Proof.
    induction dts as [|dt dts IH]; intros X Hpos HX; cbn [steps fold_left]; [exact HX|].
    apply IH; [intros; apply Hpos; right; assumption|]. apply snm_step_keeps; [apply Hpos; left; reflexivity | exact HX].
  Qed.

  (** the constant-parameter driver: whatever the integration time, the interior of the neutral equilibrium density
      is returned unchanged *)
  Theorem snm_integrate_fixed tf : 0 < tf -> forall fuel t T (X res : list R),
    agree_off_corners Sh G X phi ->
    integrate_const fuel Sh G P theta0 tf dj t T X = Some res -> agree_off_corners Sh G res phi.
  Proof.
    intros Htf. induction fuel as [|fuel IH]; intros t T X res HX Hres; cbn [integrate_const] in Hres; unfold nltb in Hres; numR.
    - destruct (Rleb T t); cbn [negb] in Hres; [|discriminate]. injection Hres as <-. exact HX.
    - destruct (Rleb T t) eqn:ET; cbn [negb] in Hres; [injection Hres as <-; exact HX|].
      apply Rleb_false in ET.
      set (this_dt := match dt_of tf P with Some dt => nmin dt (T - t) | None => T - t end) in *.
      assert (Hd : 0 < this_dt).
      { unfold this_dt. destruct (dt_of tf P) as [dt|] eqn:E; [|lra].
        pose proof (dt_of_pos tf Htf P dt E). unfold nmin. numR. destruct (Rleb dt (T - t)); lra. }
      apply (IH _ _ _ _ (snm_step_keeps this_dt X Hd HX) Hres).
  Qed.
End SnmStep.

(** packaged statements (closed, all hypotheses explicit) *)
Theorem neutral_equilibrium_unchanged_by_one_pop : forall g n nu theta0 beta h dj tf,
  unit_grid g n -> 0 < nu -> 0 < beta -> 0 < tf -> forall fuel t T res,
  integrate_const fuel [n] [g] [snm_pop nu beta h] theta0 tf dj t T (phi_snm g nu theta0 beta) = Some res ->
  agree_off_corners [n] [g] res (phi_snm g nu theta0 beta).
Proof.
  intros g n nu theta0 beta h dj tf Hg Hnu Hbeta Htf fuel t T res.
  apply (snm_integrate_fixed g n Hg nu theta0 beta h Hnu Hbeta dj tf Htf fuel t T).
  apply agree_refl. unfold prodn; cbn [fold_right]. rewrite (phi_len g n Hg). lia.
Qed.
Theorem neutral_equilibrium_unchanged_by_any_steps : forall g n nu theta0 beta h dj,
  unit_grid g n -> 0 < nu -> 0 < beta -> forall dts X, (forall dt, In dt dts -> 0 < dt) ->
  agree_off_corners [n] [g] X (phi_snm g nu theta0 beta) ->
  agree_off_corners [n] [g] (steps [n] [g] [snm_pop nu beta h] theta0 dj dts X) (phi_snm g nu theta0 beta).
Proof. intros g n nu theta0 beta h dj Hg Hnu Hbeta. exact (snm_steps_fixed g n Hg nu theta0 beta h Hnu Hbeta dj). Qed.
Example neutral_fixed_point_nonvacuous :
  unit_grid [0; 1/4; 1/2; 1] 4 /\ (1 <= 2 <= 4 - 2)%nat.
Proof.
  split; [|lia]. unfold unit_grid. cbn [length nth]. unfold nthF. cbn [nth Nat.sub]. repeat split; try lia; try reflexivity.
  intros i Hi. unfold dx, x, nthF. numR. destruct i as [|[|[|i]]]; cbn [nth]; try lia; lra.
Qed.
