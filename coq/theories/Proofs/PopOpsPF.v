(** Push-forward ("re-index and accumulate") framework on multi-index arrays, for any commutative monoid:
    sums of values (R,+,0), all-masked (bool,&&,true), any-masked (bool,||,false). *)
From Coq Require Import List Bool Arith Lia Permutation.
From Dadi Require Import Model.PopOps Proofs.PopOpsBig Proofs.PopOpsIdx.
Import ListNotations.

Section PF.
  Variables (M : Type) (op : M -> M -> M) (e : M).
  Hypothesis op_assoc : forall x y z, op x (op y z) = op (op x y) z.
  Hypothesis op_comm : forall x y, op x y = op y x.
  Hypothesis op_e_l : forall x, op e x = x.

  Notation B := (big op e).
  Ltac mon := first [exact op_assoc | exact op_comm | exact op_e_l | exact idx_eqb_spec | apply NoDup_indices].

  (** [g2] on shape [S2] is the push-forward of [g1] on shape [S1] along the index map [f] *)
  Definition PF (S1 : list nat) (f : idx -> idx) (g1 : idx -> M) (S2 : list nat) (g2 : idx -> M) : Prop :=
    forall J, inr S2 J -> g2 J = B (indices S1) (fun I => if idx_eqb (f I) J then g1 I else e).
  Definition maps (S1 S2 : list nat) (f : idx -> idx) : Prop := forall I, inr S1 I -> inr S2 (f I).

  Lemma PF_id S g : PF S (fun I => I) g S g.
  Proof. intros J HJ. symmetry.
    rewrite (big_ext M op e (indices S) _ (fun I => if idx_eqb J I then g I else e)).
    - apply big_delta with (eqb := idx_eqb) (h := g); try mon. now apply in_indices.
    - intros I _. now rewrite idx_eqb_sym. Qed.

  Lemma PF_comp S1 f g1 S2 g2 h S3 g3 :
    PF S1 f g1 S2 g2 -> PF S2 h g2 S3 g3 -> maps S1 S2 f -> PF S1 (fun I => h (f I)) g1 S3 g3.
  Proof. intros P1 P2 Hm J HJ. rewrite (P2 J HJ).
    rewrite (big_ext M op e (indices S2) _
               (fun J' => if idx_eqb (h J') J then B (indices S1) (fun I => if idx_eqb (f I) J' then g1 I else e) else e)).
    - apply big_fiber with (eqb := idx_eqb) (p := fun J' => idx_eqb (h J') J); try mon.
      intros I HI. apply in_indices. apply Hm. now apply in_indices.
    - intros J' HJ'. destruct (idx_eqb (h J') J); auto. apply P1. now apply in_indices. Qed.

  Lemma PF_total S1 f g1 S2 g2 :
    PF S1 f g1 S2 g2 -> maps S1 S2 f -> B (indices S2) g2 = B (indices S1) g1.
  Proof. intros P Hm.
    rewrite (big_ext M op e (indices S2) g2 (fun J => B (indices S1) (fun I => if idx_eqb (f I) J then g1 I else e))).
    - apply big_fiber_total with (eqb := idx_eqb); try mon.
      intros I HI. apply in_indices. apply Hm. now apply in_indices.
    - intros J HJ. apply P. now apply in_indices. Qed.

  Lemma PF_ext S1 f f' g1 g1' S2 g2 g2' :
    (forall I, inr S1 I -> f I = f' I) -> (forall I, inr S1 I -> g1 I = g1' I) ->
    (forall J, inr S2 J -> g2 J = g2' J) -> PF S1 f g1 S2 g2 -> PF S1 f' g1' S2 g2'.
  Proof. intros Hf Hg1 Hg2 P J HJ. rewrite <- (Hg2 J HJ), (P J HJ). apply big_ext. intros I HI.
    apply in_indices in HI. now rewrite (Hf I HI), (Hg1 I HI). Qed.

  (** summing out axis k: the fibre of J under "delete coordinate k" is { J with j inserted at k | j < size_k } *)
  Lemma fiber_remove_enum S k J (g : idx -> M) :
    k < length S -> inr (remove_nth k S) J ->
    B (indices S) (fun I => if idx_eqb (remove_nth k I) J then g I else e)
    = B (seq 0 (nth k S 0)) (fun j => g (insert_nth k j J)).
  Proof. intros Hk HJ.
    assert (HlJ : k <= length J).
    { apply inr_length in HJ. rewrite remove_nth_length in HJ by auto. lia. }
    rewrite <- (big_map M op e (fun j => insert_nth k j J) (seq 0 (nth k S 0)) g).
    apply big_fiber_enum with (eqb := idx_eqb); try mon.
    - apply NoDup_map_in; [|apply seq_NoDup]. intros x y _ _ E.
      rewrite <- (nth_insert_nth 0 k x J), <- (nth_insert_nth 0 k y J), E; auto.
    - intros I. rewrite in_map_iff. split.
      + intros (j & <- & Hj). apply in_seq in Hj. split.
        * apply in_indices. apply (Forall2_insert_nth lt 0); auto; lia.
        * now apply remove_insert_nth.
      + intros [HI <-]. apply in_indices in HI. exists (nth k I 0). split.
        * apply insert_remove_nth. rewrite (inr_length _ _ HI). auto.
        * apply in_seq. split; [lia|]. simpl. apply Forall2_nth; auto. rewrite (inr_length _ _ HI). auto. Qed.

  Lemma PF_remove S k g1 g2 :
    k < length S ->
    (forall J, inr (remove_nth k S) J -> g2 J = B (seq 0 (nth k S 0)) (fun j => g1 (insert_nth k j J))) ->
    PF S (remove_nth k) g1 (remove_nth k S) g2.
  Proof. intros Hk Hg J HJ. rewrite (Hg J HJ). symmetry. now apply fiber_remove_enum. Qed.

  Lemma maps_remove S k : maps S (remove_nth k S) (remove_nth k).
  Proof. intros I HI. now apply Forall2_remove_nth. Qed.

  (** a bijective re-indexing (axis permutation) is a push-forward *)
  Lemma PF_bij S1 S2 f finv (g1 g2 : idx -> M) :
    (forall I, inr S1 I -> finv (f I) = I) -> (forall J, inr S2 J -> f (finv J) = J) ->
    (forall J, inr S2 J -> inr S1 (finv J)) -> (forall J, inr S2 J -> g2 J = g1 (finv J)) ->
    PF S1 f g1 S2 g2.
  Proof. intros H1 H2 H3 H4 J HJ. rewrite (H4 J HJ). symmetry.
    rewrite (big_ext M op e (indices S1) _ (fun I => if idx_eqb (finv J) I then g1 I else e)).
    - apply big_delta with (eqb := idx_eqb) (h := g1); try mon. apply in_indices; auto.
    - intros I HI. apply in_indices in HI.
      destruct (idx_eqb (f I) J) eqn:E1, (idx_eqb (finv J) I) eqn:E2; auto.
      + apply idx_eqb_spec in E1. subst J. rewrite H1, idx_eqb_refl in E2; auto. discriminate.
      + apply idx_eqb_spec in E2. subst I. rewrite H2, idx_eqb_refl in E1; auto. discriminate. Qed.

  (** table lookup *)
  Lemma lookup_map_in {A} (d : A) (g : idx -> A) l K :
    In K l -> lookup d (map (fun I => (I, g I)) l) K = g K.
  Proof. induction l as [|I0 l IH]; simpl; [intros []|]. intros Hin. destruct (idx_eqb I0 K) eqn:E.
    - apply idx_eqb_spec in E. now subst.
    - apply IH. destruct Hin as [->|]; auto. now rewrite idx_eqb_refl in E. Qed.

  Lemma lookup_tabulate {A} (d : A) shape (g : idx -> A) K :
    inr shape K -> lookup d (tabulate shape g) K = g K.
  Proof. intros HK. apply lookup_map_in. now apply in_indices. Qed.

  (** the scatter loop is a push-forward on top of the initial accumulator *)
  Lemma scatter_spec S f (g : idx -> M) acc0 K :
    scatter op (indices S) f g acc0 K = op (acc0 K) (B (indices S) (fun I => if idx_eqb (f I) K then g I else e)).
  Proof. unfold scatter.
    apply scatter_gather with (eqb := idx_eqb); try mon. Qed.
End PF.
