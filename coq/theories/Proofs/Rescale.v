(** C03 (line level): independence of the reference population size.
    Replacing  V by V/c, M by M/c (i.e. nu by c nu, every m and gamma by m/c, gamma/c), dt by c dt
    multiplies every equation of the tridiagonal system by 1/c, hence leaves the solution unchanged. *)
From Coq Require Import Reals List Lra Lia Arith Bool.
From Dadi Require Import Base.Num Base.NumR Model.Tridiag Model.Scheme Proofs.TridiagProofs Proofs.SchemeProofs.
Import ListNotations.
Local Open Scope R_scope.

Lemma Rleb_scale_l c a : 0 < c -> Rleb (a / c) 0 = Rleb a 0.
Proof.
  intros Hc. destruct (Rleb a 0) eqn:E.
  - apply Rleb_true in E. apply Rleb_true. unfold Rdiv. assert (0 < / c) by (apply Rinv_0_lt_compat; exact Hc). nra.
  - apply Rleb_false in E. apply Rleb_false. unfold Rdiv. assert (0 < / c) by (apply Rinv_0_lt_compat; exact Hc). nra.
Qed.
Lemma Rleb_scale_r c a : 0 < c -> Rleb 0 (a / c) = Rleb 0 a.
Proof.
  intros Hc. destruct (Rleb 0 a) eqn:E.
  - apply Rleb_true in E. apply Rleb_true. unfold Rdiv. assert (0 < / c) by (apply Rinv_0_lt_compat; exact Hc). nra.
  - apply Rleb_false in E. apply Rleb_false. unfold Rdiv. assert (0 < / c) by (apply Rinv_0_lt_compat; exact Hc). nra.
Qed.
Lemma Reqb_scale0 c a : c <> 0 -> Reqb (a / c) 0 = Reqb a 0.
Proof.
  intros Hc. destruct (Reqb a 0) eqn:E.
  - apply Reqb_true in E. apply Reqb_true. subst. unfold Rdiv. ring.
  - apply Reqb_false in E. apply Reqb_false. intros Hz. apply E.
    apply Rmult_eq_reg_r with (/ c); [|apply Rinv_neq_0_compat; exact Hc]. unfold Rdiv in Hz. lra.
Qed.

Section Rescale.
  Variable xs : list R.
  Variable Vf Mf : R -> R.
  Variable nu : R.
  Variable c0 c1 : bool.
  Variable dt : R.
  Variable use_delj : bool.
  Variable c : R.
  Hypothesis Hc : 0 < c.
  Hypothesis HN : (2 <= length xs)%nat.
  Notation N := (length xs).

  Definition Vf' (x : R) : R := Vf x / c.
  Definition Mf' (x : R) : R := Mf x / c.
  Let cne : c <> 0. Proof. lra. Qed.

  Lemma delj_scale i : delj xs Vf' Mf' use_delj i = delj xs Vf Mf use_delj i.
  Proof.
    unfold delj, Vf', Mf'. destruct use_delj; [|reflexivity]. numR_all. unfold n2. numR.
    set (w := (1 + 1) * Mf (xint xs i) * dx xs i). set (v := Vf (xint xs i)).
    assert (Hw : (1 + 1) * (Mf (xint xs i) / c) * dx xs i = w / c) by (unfold w, Rdiv; ring).
    rewrite Hw.
    assert (Hr : w / c / (v / c) = w / v).
    { unfold Rdiv. rewrite Rinv_mult, Rinv_inv. field_simplify_eq; [ring|exact cne] || (rewrite <- !Rmult_assoc; replace (w * / c * / v * c) with (w * / v * (c * / c)) by ring; rewrite Rinv_r by exact cne; ring). }
    rewrite Hr. rewrite Reqb_scale0 by exact cne.
    destruct (negb (Reqb (exp (w / v)) 1) && negb (Reqb w 0)); [|reflexivity].
    set (e := exp (w / v)).
    replace (- (e * (w / c)) + e * (v / c) - v / c) with ((- (e * w) + e * v - v) / c) by (unfold Rdiv; ring).
    replace (w / c - e * (w / c)) with ((w - e * w) / c) by (unfold Rdiv; ring).
    unfold Rdiv. rewrite Rinv_mult, Rinv_inv.
    replace ((- (e * w) + e * v - v) * / c * (/ (w - e * w) * c)) with ((- (e * w) + e * v - v) * / (w - e * w) * (c * / c)) by ring.
    rewrite Rinv_r by exact cne. ring.
  Qed.

  Lemma atemp_scale i : atemp xs Vf' Mf' use_delj i = atemp xs Vf Mf use_delj i / c.
  Proof. unfold atemp. rewrite delj_scale. unfold Vf', Mf'. numR_all. unfold n2. numR. unfold Rdiv. ring. Qed.
  Lemma ctemp_scale i : ctemp xs Vf' Mf' use_delj i = ctemp xs Vf Mf use_delj i / c.
  Proof. unfold ctemp. rewrite delj_scale. unfold Vf', Mf'. numR_all. unfold n2. numR. unfold Rdiv. ring. Qed.

  Lemma bc0_scale : bc0 xs Mf' (c * nu) c0 = bc0 xs Mf nu c0 / c.
  Proof.
    unfold bc0, Mf'. numR_all. unfold n2. numR. rewrite Rleb_scale_l by exact Hc.
    destruct (c0 && Rleb (Mf (x xs 0)) 0); [|unfold Rdiv; ring].
    unfold Rdiv. rewrite Rinv_mult. ring.
  Qed.
  Lemma bc1_scale : bc1 xs Mf' (c * nu) c1 = bc1 xs Mf nu c1 / c.
  Proof.
    unfold bc1, Mf'. fold (Scheme.N xs). numR_all. unfold n2. numR. rewrite Rleb_scale_r by exact Hc.
    destruct (c1 && Rleb 0 (Mf (x xs (Scheme.N xs - 1)))); [|unfold Rdiv; ring].
    unfold Rdiv. rewrite Rinv_mult. ring.
  Qed.

  Lemma coef_a_scale i : coef_a xs Vf' Mf' use_delj i = / c * coef_a xs Vf Mf use_delj i.
  Proof. unfold coef_a. rewrite atemp_scale. numR. destruct (Nat.eqb i 0); unfold Rdiv; ring. Qed.
  Lemma coef_c_scale i : coef_c xs Vf' Mf' use_delj i = / c * coef_c xs Vf Mf use_delj i.
  Proof. unfold coef_c. rewrite ctemp_scale. numR. destruct (Nat.eqb i (Scheme.N xs - 1)); unfold Rdiv; ring. Qed.
  Lemma coef_b_scale i :
    coef_b xs Vf' Mf' (c * nu) c0 c1 (c * dt) use_delj i = / c * coef_b xs Vf Mf nu c0 c1 dt use_delj i.
  Proof.
    unfold coef_b, coef_b0. rewrite atemp_scale, ctemp_scale, bc0_scale, bc1_scale. numR.
    destruct (Nat.ltb i (Scheme.N xs - 1)); destruct (Nat.ltb 0 i); destruct (Nat.eqb i 0); destruct (Nat.eqb i (Scheme.N xs - 1));
      unfold Rdiv; rewrite Rinv_mult; ring.
  Qed.

  Lemma line_rows_rescaled phi :
    line_rows xs Vf' Mf' (c * nu) c0 c1 (c * dt) use_delj phi =
    scale_rows (/ c) (line_rows xs Vf Mf nu c0 c1 dt use_delj phi).
  Proof.
    rewrite !line_rows_eq_spec by exact HN. unfold line_rows_spec, scale_rows. rewrite map_map.
    apply map_ext. intros i. rewrite coef_a_scale, coef_b_scale, coef_c_scale. numR.
    f_equal. unfold Rdiv. rewrite Rinv_mult. ring.
  Qed.

  (** the step computed in the rescaled units is the same step *)
  Theorem line_solve_rescale_invariant phi :
    nonzero (all_pivots (line_rows xs Vf Mf nu c0 c1 dt use_delj phi)) ->
    line_solve xs Vf' Mf' (c * nu) c0 c1 (c * dt) use_delj phi = line_solve xs Vf Mf nu c0 c1 dt use_delj phi.
  Proof.
    intros Hp. unfold line_solve. rewrite line_rows_rescaled. apply thomas_scale; [|exact Hp].
    apply Rinv_neq_0_compat. exact cne.
  Qed.
End Rescale.

(** the coefficient functions of dadi under the documented re-scaling *)
Lemma Vfunc_beta_rescale nu beta c x : Vfunc_beta (c * nu) beta x = Vfunc_beta nu beta x / c.
Proof. unfold Vfunc_beta. numR_all. unfold Scheme.n4, n2. numR. unfold Rdiv. rewrite !Rinv_mult. ring. Qed.
Lemma Msel_rescale gamma h c x : Msel (gamma / c) h x = Msel gamma h x / c.
Proof. unfold Msel. numR_all. unfold n2. numR. unfold Rdiv. ring. Qed.
Lemma Mmig_rescale ms os c x : Mmig (map (fun m => m / c) ms) os x = Mmig ms os x / c.
Proof.
  unfold Mmig. revert os. induction ms as [|m ms IH]; intros [|o os]; unfold nsum in *; cbn [map combine fold_right fst snd]; numR;
    try (unfold Rdiv; ring). rewrite IH. unfold Rdiv. ring.
Qed.
Lemma Mfunc_rescale ms os gamma h c x :
  Mfunc (map (fun m => m / c) ms) os (gamma / c) h x = Mfunc ms os gamma h x / c.
Proof. unfold Mfunc. numR. rewrite Mmig_rescale, Msel_rescale. unfold Rdiv. ring. Qed.
