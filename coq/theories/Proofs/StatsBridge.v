(** C13: when every usable SNP has exactly as many calls as the projection sizes, the spectrum built by
    from_data_dict is the histogram [sfs_of_rows] of the derived-allele counts, so the statistics theorems of
    StatsProofs apply to the spectrum the code builds. *)
From Coq Require Import String ZArith Reals List Lra Lia Bool Arith Permutation.
From Dadi Require Import Base.Num Base.NumR Model.Projection Model.Fold Model.DataDict Model.Stats
  Proofs.ProjBase Proofs.ProjH Proofs.FoldAbs Proofs.FoldND Proofs.DataDictSpec Proofs.StatsProofs.
Import ListNotations.
Local Open Scope R_scope.

Lemma unit_vec_kron a b j r : (j < a)%nat -> (r < b)%nat ->
  kron (unit_vec (F:=R) a j) (unit_vec (F:=R) b r) = unit_vec (F:=R) (a * b) (j * b + r).
Proof. intros Hj Hr. apply (nth_ext _ _ 0 0).
  - rewrite kron_length, !unit_vec_length. reflexivity.
  - intros i Hi. rewrite kron_length, !unit_vec_length in Hi.
    assert (Hb : b <> 0%nat) by lia.
    pose proof (Nat.div_mod i b Hb) as Hd. pose proof (Nat.mod_upper_bound i b Hb) as Hm.
    assert (Hq : (i / b < a)%nat) by (apply Nat.div_lt_upper_bound; lia).
    change (nth i ?l 0) with (get l i).
    replace i with (i / b * length (unit_vec (F:=R) b r) + i mod b)%nat at 1 by (rewrite unit_vec_length; lia).
    rewrite kron_nth by (rewrite unit_vec_length; assumption).
    rewrite !get_unit_vec by assumption.
    destruct (Nat.eqb_spec (i / b) j) as [E1|E1]; destruct (Nat.eqb_spec (i mod b) r) as [E2|E2];
      destruct (Nat.eqb_spec i (j * b + r)) as [E3|E3]; try lra; exfalso.
    + apply E3. rewrite <- E1, <- E2. lia.
    + apply E2. subst i. rewrite Nat.add_comm, Nat.mod_add by assumption. apply Nat.mod_small. assumption.
    + apply E1. subst i. rewrite Nat.add_comm, Nat.div_add by assumption. rewrite Nat.div_small by assumption. reflexivity.
    + apply E1. subst i. rewrite Nat.add_comm, Nat.div_add by assumption. rewrite Nat.div_small by assumption. reflexivity. Qed.

Lemma full_call_contrib : forall ns row, row_ok ns row ->
  snp_contrib (F:=R) ns ns row = unit_vec (F:=R) (size (map S ns)) (ravel (map S ns) row).
Proof. unfold snp_contrib. induction 1 as [|n j ns row Hj F IH].
  - cbn. reflexivity.
  - cbn [pop_contribs outer map size fold_right ravel]. rewrite IH, cached_projection_full by assumption.
    fold (size (map S ns)). apply unit_vec_kron; [lia|]. apply ravel_lt, row_ok_lt, F. Qed.

(** the rows of the count matrix read off the dictionary *)
Definition rows_of (pop_ids : list string) (polarized : bool) (vals : list snp) : list (list nat) :=
  flat_map (fun s => match snp_row pop_ids s with
                     | RKey (succ, der, pol) => if negb (polarized && negb pol) then [der] else []
                     | _ => []
                     end) vals.

Theorem full_call_spectrum_is_histogram : forall (dd : dict snp) pop_ids ns polarized cd,
  length pop_ids = length ns -> count_data_dict dd pop_ids = Some cd ->
  (forall s succ der pol, In s (map snd dd) -> snp_row pop_ids s = RKey (succ, der, pol) -> succ = ns) ->
  fcd_data (F:=R) cd ns polarized = sfs_of_rows (F:=R) ns (rows_of pop_ids polarized (map snd dd)) /\
  Forall (row_ok ns) (rows_of pop_ids polarized (map snd dd)).
Proof. intros dd pop_ids ns polarized cd EL Ec Hfull.
  destruct (spectrum_is_sum_of_projections dd pop_ids ns polarized cd EL Ec) as [L G].
  assert (Hrows : Forall (row_ok ns) (rows_of pop_ids polarized (map snd dd))).
  { unfold rows_of. rewrite Forall_forall. intros row Hin. apply in_flat_map in Hin as [s [Hs Hin]].
    destruct (snp_row pop_ids s) as [| |[[succ der] pol]] eqn:Er; try destruct Hin.
    destruct (negb (polarized && negb pol)); [|destruct Hin]. destruct Hin as [<-|[]].
    pose proof (snp_row_der_le _ _ _ _ _ Er) as Hle. rewrite (Hfull s succ der pol Hs Er) in Hle.
    clear - Hle. unfold row_ok. induction Hle; constructor; auto. }
  split; [|exact Hrows].
  destruct (sfs_get ns (rows_of pop_ids polarized (map snd dd))) as [L2 G2].
  apply (nth_ext _ _ 0 0); [rewrite L, L2; reflexivity|]. intros i Hi. rewrite L in Hi. unfold spec_shape in Hi. change (nth i ?l 0) with (get l i).
  rewrite G, G2 by assumption. clear G G2 L L2 Ec cd.
  revert Hfull Hrows. unfold rows_of. induction (map snd dd) as [|s l IH]; intros Hfull Hrows; cbn [lsum flat_map]; [reflexivity|].
  rewrite lsum_app. cbn [flat_map] in Hrows. apply Forall_app in Hrows as [Hr1 Hr2].
  rewrite <- (IH (fun s0 succ der pol Hin => Hfull s0 succ der pol (or_intror Hin)) Hr2). f_equal.
  unfold snp_term. destruct (snp_row pop_ids s) as [| |[[succ der] pol]] eqn:Er; try reflexivity.
  unfold row_used. destruct (negb (polarized && negb pol)); [|reflexivity].
  inversion Hr1 as [|? ? Hrow _]; subst. cbn [lsum]. unfold row_get.
  rewrite (Hfull s succ der pol (or_introl eq_refl) Er), full_call_contrib, get_unit_vec by assumption. lra. Qed.
