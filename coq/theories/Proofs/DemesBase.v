(** * DemesBase: the importer model on the real numbers - maps that rescale a graph and what they commute with. *)
From Coq Require Import ZArith Reals List Bool Arith Lra Lia.
From Dadi Require Import Base.Num Base.NumR Model.DemesFront.
Import ListNotations.
Local Open Scope R_scope.

(** ** comparisons under multiplication by a positive constant *)
Lemma Rleb_scale c x y : 0 < c -> Rleb (c * x) (c * y) = Rleb x y.
Proof.
  intros Hc. destruct (Rleb x y) eqn:E.
  - apply Rleb_true in E. apply Rleb_true. apply Rmult_le_compat_l; lra.
  - apply Rleb_false in E. apply Rleb_false. apply Rmult_lt_compat_l; lra.
Qed.
Lemma Reqb_scale c x y : c <> 0 -> Reqb (c * x) (c * y) = Reqb x y.
Proof.
  intros Hc. destruct (Reqb x y) eqn:E.
  - apply Reqb_true in E. apply Reqb_true. now subst.
  - apply Reqb_false in E. apply Reqb_false. intro K. apply E. eapply Rmult_eq_reg_l; eauto.
Qed.
Lemma Rdiv_scale c x y : c <> 0 -> (c * x) / (c * y) = x / y.
Proof. intros Hc. unfold Rdiv. rewrite Rinv_mult.
  replace (c * x * (/ c * / y)) with ((c * / c) * (x * / y)) by ring. rewrite Rinv_r by auto. ring. Qed.

Notation timeR := (time R).

Definition tmap (a : R) (t : timeR) : timeR := match t with Fin x => Fin (a * x) | Inf => Inf end.

Lemma tleb_tmap a x y : 0 < a -> tleb (tmap a x) (tmap a y) = tleb x y.
Proof. intros Ha. destruct x, y; cbn; auto. apply Rleb_scale; auto. Qed.
Lemma teqb_tmap a x y : 0 < a -> teqb (tmap a x) (tmap a y) = teqb x y.
Proof. intros Ha. destruct x, y; cbn; auto. apply Reqb_scale; lra. Qed.
Lemma tval_tmap a x : tval (tmap a x) = a * tval x.
Proof. destruct x; cbn; auto. ring. Qed.
Lemma tmap_Fin0 a : tmap a (Fin 0) = Fin 0.
Proof. cbn. f_equal. ring. Qed.

(** ** sorting commutes with a monotone map *)
Lemma ins_desc_tmap a x l : 0 < a -> ins_desc (tmap a x) (map (tmap a) l) = map (tmap a) (ins_desc x l).
Proof.
  intros Ha. induction l as [|y l IH]; cbn [ins_desc map]; auto.
  rewrite teqb_tmap, tleb_tmap by auto.
  destruct (teqb x y); auto. destruct (tleb y x); auto. cbn [map]. now rewrite IH.
Qed.
Lemma sort_desc_tmap a l : 0 < a -> sort_desc (map (tmap a) l) = map (tmap a) (sort_desc l).
Proof.
  intros Ha. induction l as [|y l IH]; cbn; auto.
  change (fold_right ins_desc [] (map (tmap a) l)) with (sort_desc (map (tmap a) l)).
  rewrite IH. apply ins_desc_tmap; auto.
Qed.

(** ** generic list facts *)
Lemma flat_map_map {A B C} (f : A -> B) (g : B -> list C) l : flat_map g (map f l) = flat_map (fun x => g (f x)) l.
Proof. induction l; cbn; auto. now rewrite IHl. Qed.
Lemma map_flat_map {A B C} (f : B -> C) (g : A -> list B) l : map f (flat_map g l) = flat_map (fun x => map f (g x)) l.
Proof. induction l; cbn; auto. now rewrite map_app, IHl. Qed.
Lemma flat_map_ext' {A B} (f g : A -> list B) l : (forall x, f x = g x) -> flat_map f l = flat_map g l.
Proof. intros E. induction l; cbn; auto. now rewrite E, IHl. Qed.
Lemma filter_map {A B} (f : A -> B) (p : B -> bool) l : filter p (map f l) = map f (filter (fun x => p (f x)) l).
Proof. induction l; cbn; auto. destruct (p (f a)); cbn; now rewrite IHl. Qed.
Lemma filter_ext' {A} (p q : A -> bool) l : (forall x, p x = q x) -> filter p l = filter q l.
Proof. intros E. induction l; cbn; auto. now rewrite E, IHl. Qed.
Lemma combine_map {A B C D} (f : A -> C) (g : B -> D) l1 l2 :
  combine (map f l1) (map g l2) = map (fun p => (f (fst p), g (snd p))) (combine l1 l2).
Proof. revert l2; induction l1; destruct l2; cbn; auto. now rewrite IHl1. Qed.
Lemma tl_map {A B} (f : A -> B) l : tl (map f l) = map f (tl l).
Proof. destruct l; auto. Qed.
Lemma find_map {A B} (f : A -> B) (p : B -> bool) l : find p (map f l) = option_map f (find (fun x => p (f x)) l).
Proof. induction l; cbn; auto. destruct (p (f a)); auto. Qed.
Lemma find_ext' {A} (p q : A -> bool) l : (forall x, p x = q x) -> find p l = find q l.
Proof. intros E. induction l; cbn; auto. now rewrite E, IHl. Qed.
Lemma existsb_map {A B} (f : A -> B) (p : B -> bool) l : existsb p (map f l) = existsb (fun x => p (f x)) l.
Proof. induction l; cbn; auto. now rewrite IHl. Qed.
Lemma existsb_ext' {A} (p q : A -> bool) l : (forall x, p x = q x) -> existsb p l = existsb q l.
Proof. intros E. induction l; cbn; auto. now rewrite E, IHl. Qed.
Lemma forallb_map {A B} (f : A -> B) (p : B -> bool) l : forallb p (map f l) = forallb (fun x => p (f x)) l.
Proof. induction l; cbn; auto. now rewrite IHl. Qed.
Lemma forallb_ext' {A} (p q : A -> bool) l : (forall x, p x = q x) -> forallb p l = forallb q l.
Proof. intros E. induction l; cbn; auto. now rewrite E, IHl. Qed.
Lemma hd_map {A B} (f : A -> B) d l : hd (f d) (map f l) = f (hd d l).
Proof. destruct l; auto. Qed.

(** ** rescaling a graph: times x a, sizes x b, rates x r *)
Definition emapE (a b : R) (e : epoch R) : epoch R :=
  mkEpoch (tmap a (e_start e)) (a * e_end e) (b * e_s0 e) (b * e_s1 e) (e_fn e).
Definition dmap (a b : R) (d : deme R) : deme R :=
  mkDeme (d_id d) (tmap a (d_start d)) (d_anc d) (map (emapE a b) (d_epochs d)).
Definition mmap (a r : R) (m : mig R) : mig R :=
  mkMig (m_src m) (m_dst m) (tmap a (m_start m)) (a * m_end m) (r * m_rate m).
Definition pmap (a : R) (p : pulse R) : pulse R := mkPulse (p_srcs p) (p_dst p) (a * p_time p) (p_props p).
Definition gmap (a b r : R) (g : graph R) : graph R :=
  mkGraph (map (dmap a b) (g_demes g)) (map (mmap a r) (g_migs g)) (map (pmap a) (g_pulses g)).
Definition evmap (a : R) (evs : list (tevent R)) : list (tevent R) := map (fun te => (a * fst te, snd te)) evs.
Definition ivmap (a : R) (iv : interval R) : interval R := (tmap a (fst iv), tmap a (snd iv)).

Lemma last_epoch_end a b es : e_end (last (map (emapE a b) es) dummy_epoch) = a * e_end (last es dummy_epoch).
Proof.
  induction es as [|e es IH]; cbn [map last].
  - cbn. ring.
  - destruct es as [|e' es]; [reflexivity|]. exact IH.
Qed.
Lemma d_end_dmap a b d : d_end (dmap a b d) = a * d_end d.
Proof. unfold d_end. cbn [d_epochs dmap]. apply last_epoch_end. Qed.

Lemma break_points_gmap a b r g : break_points (gmap a b r g) = map (tmap a) (break_points g).
Proof.
  unfold break_points. cbn [g_demes g_migs g_pulses gmap]. rewrite !map_app. f_equal; [|f_equal].
  - rewrite flat_map_map, map_flat_map. apply flat_map_ext'. intros d. cbn [d_epochs dmap].
    rewrite flat_map_map, map_flat_map. apply flat_map_ext'. intros e. reflexivity.
  - rewrite !map_map. apply map_ext. intros p. reflexivity.
  - rewrite flat_map_map, map_flat_map. apply flat_map_ext'. intros m. reflexivity.
Qed.

Lemma intervals_gmap a b r g : 0 < a -> intervals (gmap a b r g) = map (ivmap a) (intervals g).
Proof.
  intros Ha. unfold intervals. rewrite break_points_gmap, sort_desc_tmap by auto.
  rewrite tl_map, combine_map. reflexivity.
Qed.

Lemma ordered_demes_gmap a b r g : 0 < a -> ordered_demes (gmap a b r g) = map (dmap a b) (ordered_demes g).
Proof.
  intros Ha. unfold ordered_demes. cbn [g_demes gmap].
  rewrite map_map. cbn [d_start dmap]. rewrite <- (map_map d_start (tmap a)), sort_desc_tmap by auto.
  rewrite flat_map_map, map_flat_map. apply flat_map_ext'. intros k.
  rewrite filter_map. f_equal. apply filter_ext'. intros d. cbn [d_start dmap]. apply teqb_tmap; auto.
Qed.

Lemma covers_gmap a b iv d : 0 < a -> covers (ivmap a iv) (dmap a b d) = covers iv d.
Proof.
  intros Ha. unfold covers. cbn [fst snd ivmap d_start dmap]. rewrite d_end_dmap.
  change (Fin (a * d_end d)) with (tmap a (Fin (d_end d))). now rewrite !tleb_tmap.
Qed.

Lemma present_gmap a b r g iv : 0 < a -> present (gmap a b r g) (ivmap a iv) = present g iv.
Proof.
  intros Ha. unfold present. rewrite ordered_demes_gmap by auto. rewrite filter_map, map_map.
  cbn [d_id dmap]. f_equal. apply filter_ext'. intros d. apply covers_gmap; auto.
Qed.

Lemma used_intervals_gmap a b r g : 0 < a -> used_intervals (gmap a b r g) = map (ivmap a) (used_intervals g).
Proof.
  intros Ha. unfold used_intervals. rewrite intervals_gmap by auto. rewrite filter_map. f_equal.
  apply filter_ext'. intros iv. now rewrite present_gmap.
Qed.

Lemma find_deme_gmap a b r g id : find_deme (gmap a b r g) id = option_map (dmap a b) (find_deme g id).
Proof. unfold find_deme. cbn [g_demes gmap]. rewrite find_map. reflexivity. Qed.

Lemma successors_gmap a b r g id : successors (gmap a b r g) id = map (dmap a b) (successors g id).
Proof. unfold successors. cbn [g_demes gmap]. rewrite filter_map. reflexivity. Qed.

Lemma marg_events_gmap a b r g sampled : 0 < a ->
  marg_events (gmap a b r g) sampled = evmap a (marg_events g sampled).
Proof.
  intros Ha. unfold marg_events, evmap. cbn [g_demes gmap]. rewrite flat_map_map, map_flat_map.
  apply flat_map_ext'. intros d. cbn [d_id dmap]. rewrite successors_gmap, forallb_map, d_end_dmap.
  replace (forallb (fun x => negb (tleb (d_start (dmap a b x)) (Fin (a * d_end d)))) (successors g (d_id d)))
    with (forallb (fun s => negb (tleb (d_start s) (Fin (d_end d)))) (successors g (d_id d))).
  2:{ apply forallb_ext'. intros s. cbn [d_start dmap]. change (Fin (a * d_end d)) with (tmap a (Fin (d_end d))).
      now rewrite tleb_tmap. }
  destruct (_ && _); reflexivity.
Qed.

Lemma events_at_evmap a evs t : 0 < a -> events_at (evmap a evs) (tmap a t) = events_at evs t.
Proof.
  intros Ha. unfold events_at, evmap. rewrite filter_map, map_map. cbn [fst snd].
  f_equal. apply filter_ext'. intros te. change (Fin (a * fst te)) with (tmap a (Fin (fst te))). apply teqb_tmap; auto.
Qed.

Lemma evmap_app a l1 l2 : evmap a (l1 ++ l2) = evmap a l1 ++ evmap a l2.
Proof. apply map_app. Qed.
