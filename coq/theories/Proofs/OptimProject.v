(** Lemmas on _project_params_down / _project_params_up (any element type, any list, any fixed pattern). *)
From Coq Require Import List Bool Arith Lia.
From Dadi Require Import Model.Optim.
Import ListNotations.

Section ProjectLemmas.
  Context {A : Type}.
  Implicit Types (fx : list (option A)) (p d : list A).

  Lemma nfree_cons_none fx : nfree (None :: fx) = S (nfree fx).
  Proof. reflexivity. Qed.
  Lemma nfree_cons_some v fx : nfree (Some v :: fx) = nfree fx.
  Proof. reflexivity. Qed.

  Lemma up_aux_length dflt d fx : length (up_aux dflt d fx) = length fx.
  Proof. revert d; induction fx as [|[v|] fx IH]; intros d; cbn; auto. destruct d; cbn; auto. Qed.

  Lemma down_aux_length {B : Type} (p : list B) fx : length p = length fx -> length (down_aux p fx) = nfree fx.
  Proof.
    revert p; induction fx as [|[v|] fx IH]; intros [|x p] Hl; cbn in *; try discriminate; auto.
    all: try (unfold nfree in *; cbn; try f_equal; apply IH; lia).
  Qed.

  (** contracting after expanding gives back the free vector *)
  Lemma down_up_aux dflt d fx : length d = nfree fx -> down_aux (up_aux dflt d fx) fx = d.
  Proof.
    revert d; induction fx as [|[v|] fx IH]; intros d Hl.
    - destruct d; cbn in *; auto; discriminate.
    - cbn. rewrite nfree_cons_some in Hl. auto.
    - rewrite nfree_cons_none in Hl. destruct d as [|x d]; cbn in *; try discriminate. f_equal. apply IH. lia.
  Qed.

  Lemma down_up_inverse dflt d (fixed : option (list (option A))) :
    match fixed with Some fx => length d = nfree fx | None => True end ->
    project_down (project_up dflt d fixed) fixed = Some d.
  Proof.
    destruct fixed as [fx|]; cbn; auto. intros Hl.
    rewrite up_aux_length, Nat.eqb_refl. f_equal. apply down_up_aux; auto.
  Qed.

  (** expanding after contracting gives back the full vector with the fixed values written in *)
  Lemma up_down_aux dflt p fx : length p = length fx -> up_aux dflt (down_aux p fx) fx = subst_fixed p (Some fx).
  Proof.
    revert p; induction fx as [|[v|] fx IH]; intros [|x p] Hl; cbn in *; try discriminate; auto.
    - f_equal. apply (IH p). lia.
    - f_equal. apply (IH p). lia.
  Qed.

  Lemma up_down_inverse dflt p d (fixed : option (list (option A))) :
    project_down p fixed = Some d -> project_up dflt d fixed = subst_fixed p fixed.
  Proof.
    destruct fixed as [fx|]; cbn.
    - destruct (Nat.eqb (length p) (length fx)) eqn:E; try discriminate.
      intros Hd; injection Hd as <-. apply Nat.eqb_eq in E. apply up_down_aux; auto.
    - intros Hd; injection Hd as <-. reflexivity.
  Qed.

  (** a vector that already carries the fixed values is reproduced exactly *)
  Definition agrees (p : list A) (fixed : option (list (option A))) : Prop :=
    match fixed with
    | None => True
    | Some fx => Forall2 (fun x f => match f with Some v => x = v | None => True end) p fx
    end.
  Lemma subst_fixed_agrees p fixed : agrees p fixed -> subst_fixed p fixed = p.
  Proof.
    destruct fixed as [fx|]; cbn; auto.
    induction 1 as [|x f p fx Hx _ IH]; cbn; auto. rewrite IH. destruct f; subst; auto.
  Qed.
  Lemma up_down_inverse_exact dflt p d fixed :
    agrees p fixed -> project_down p fixed = Some d -> project_up dflt d fixed = p.
  Proof. intros Ha Hd. rewrite (up_down_inverse dflt p d fixed Hd). apply subst_fixed_agrees, Ha. Qed.

  (** the expanded vector carries the fixed values, whatever the free part *)
  Lemma up_aux_agrees dflt d fx : agrees (up_aux dflt d fx) (Some fx).
  Proof.
    cbn. revert d; induction fx as [|[v|] fx IH]; intros d; cbn; try constructor; auto.
    destruct d; constructor; auto.
  Qed.
  Lemma project_up_agrees dflt d fixed : agrees (project_up dflt d fixed) fixed.
  Proof. destruct fixed; cbn; auto. apply up_aux_agrees. Qed.

  Lemma subst_fixed_agrees' p fx : length p = length fx -> agrees (subst_fixed p (Some fx)) (Some fx).
  Proof.
    cbn. revert p; induction fx as [|f fx IH]; intros [|x p] Hl; cbn in *; try discriminate; constructor.
    - destruct f; auto.
    - apply IH. lia.
  Qed.

  Lemma project_down_length {B : Type} (p : list B) (fixed : option (list (option A))) (q : list B) :
    project_down p fixed = Some q ->
    length q = match fixed with Some fx => nfree fx | None => length p end.
  Proof.
    destruct fixed as [fx|]; cbn.
    - destruct (Nat.eqb (length p) (length fx)) eqn:E; try discriminate.
      intros Hd; injection Hd as <-. apply Nat.eqb_eq in E. apply down_aux_length; auto.
    - intros Hd; injection Hd as <-. reflexivity.
  Qed.

  Lemma project_down_some_length {B : Type} (p : list B) fx (q : list B) :
    project_down p (Some fx) = Some q -> length p = length fx.
  Proof. cbn. destruct (Nat.eqb (length p) (length fx)) eqn:E; try discriminate. intros _. apply Nat.eqb_eq; auto. Qed.

  Lemma down_aux_map {B C : Type} (g : B -> C) (p : list B) fx : down_aux (map g p) fx = map g (down_aux p fx).
  Proof. revert p; induction fx as [|[v|] fx IH]; intros [|x p]; cbn; auto. f_equal; auto. Qed.
End ProjectLemmas.
