(** C18: the subsampling matrix (with and without inbreeding) and the heterozygote-miscall matrix are
    row-stochastic with non-negative entries. *)
From Coq Require Import ZArith QArith Qreduction List Bool Arith Lia Lqa Setoid Morphisms.
From Dadi Require Import Model.LowPass Proofs.LowPassPart Proofs.LowPassQ Proofs.LowPassProb.
Import ListNotations.
Local Open Scope Q_scope.

(** a probability vector of a given length *)
Definition prob_vector (len : nat) (v : list Q) : Prop :=
  length v = len /\ (forall e, In e v -> 0 <= e) /\ qsum v == 1.

(** ** combinations *)
Lemma combs_spec {A} : forall k (l c : list A), In c (combs k l) -> length c = k /\ incl c l.
Proof.
  induction k as [|k IHk]; intros l c H.
  - destruct l; cbn in H; destruct H as [<-|[]]; split; auto; intros x [].
  - induction l as [|x l IHl]; [destruct H|].
    cbn [combs] in H. apply in_app_iff in H. destruct H as [H|H].
    + apply in_map_iff in H. destruct H as (c' & <- & Hc'). apply IHk in Hc'. destruct Hc' as [L I].
      split; [cbn; lia|]. intros y [<-|Hy]; [now left | right; auto].
    + apply IHl in H. destruct H as [L I]. split; [exact L|]. intros y Hy. right. auto.
Qed.

Lemma combs_nonempty {A} : forall k (l : list A), (k <= length l)%nat -> combs k l <> [].
Proof.
  induction k as [|k IHk]; intros l H.
  - destruct l; discriminate.
  - destruct l as [|x l]; [cbn in H; lia|]. cbn [combs]. cbn in H.
    specialize (IHk l ltac:(lia)). destruct (combs k l); [congruence|discriminate].
Qed.

(** ** histograms *)
Lemma sum_indicator a : forall m s,
  list_sum (map (fun j => if Nat.eq_dec a j then 1 else 0)%nat (seq s m)) = if ((s <=? a) && (a <? s + m))%nat then 1%nat else 0%nat.
Proof.
  induction m as [|m IH]; intros s.
  - cbn [seq map]. change (list_sum []) with 0%nat. destruct (Nat.leb_spec s a), (Nat.ltb_spec a (s + 0)); cbn [andb]; try reflexivity; lia.
  - cbn [seq map]. rewrite list_sum_cons, IH.
    destruct (Nat.eq_dec a s), (Nat.leb_spec (S s) a), (Nat.ltb_spec a (S s + m)), (Nat.leb_spec s a), (Nat.ltb_spec a (s + S m));
      cbn [andb]; lia.
Qed.

Lemma list_sum_map_add {A} (f g : A -> nat) l :
  list_sum (map (fun x => f x + g x)%nat l) = (list_sum (map f l) + list_sum (map g l))%nat.
Proof. induction l; [reflexivity|]. cbn [map]. rewrite !list_sum_cons, IHl. lia. Qed.

Lemma hist_total l m : Forall (fun s => s < m)%nat l ->
  list_sum (map (fun j => cnt j l) (seq 0 m)) = length l.
Proof.
  induction 1 as [|a l Ha _ IH].
  - induction (seq 0 m); [reflexivity|]. cbn [map]. rewrite list_sum_cons, IHl. reflexivity.
  - rewrite (map_ext _ (fun j => (if Nat.eq_dec a j then 1 else 0) + cnt j l)%nat) by (intros; apply cnt_cons).
    rewrite list_sum_map_add, IH, sum_indicator.
    destruct (Nat.leb_spec 0 a), (Nat.ltb_spec a (0 + m)); cbn [andb length]; lia.
Qed.

(** ** projection_inbreeding *)
Lemma list_sum_le2 c : Forall (fun g => g <= 2)%nat c -> (list_sum c <= 2 * length c)%nat.
Proof. induction 1; [cbn; lia|]. rewrite list_sum_cons. cbn [length]. lia. Qed.

Theorem proj_inb_prob_vector pt k : Forall (fun g => g <= 2)%nat pt -> (k / 2 <= length pt)%nat ->
  prob_vector (k + 1) (proj_inb pt k).
Proof.
  intros Fa Hk. unfold proj_inb. cbv zeta.
  set (sums := map (@list_sum) (combs (k / 2) pt)).
  assert (NE : (0 < length sums)%nat).
  { unfold sums. rewrite map_length. pose proof (combs_nonempty (k / 2) pt Hk). destruct (combs (k / 2) pt); [congruence|cbn; lia]. }
  assert (Bd : Forall (fun s => s < k + 1)%nat sums).
  { unfold sums. rewrite Forall_forall. intros s Hs. apply in_map_iff in Hs. destruct Hs as (c & <- & Hc).
    apply combs_spec in Hc. destruct Hc as [L I].
    assert (Forall (fun g => g <= 2)%nat c) by (rewrite Forall_forall in *; intros; apply Fa, I; assumption).
    apply list_sum_le2 in H. rewrite L in H. pose proof (Nat.div_mod k 2 ltac:(lia)). lia. }
  pose proof (qnat_pos _ NE) as TP.
  split; [now rewrite map_length, seq_length|]. split.
  - intros e He. apply in_map_iff in He. destruct He as (j & <- & _).
    unfold Qdiv. apply Qmult_le_0_compat; [apply qnat_nonneg | apply Qinv_le_0_compat; lra].
  - rewrite (qsum_map_ext _ (fun j => / qnat (length sums) * qnat (cnt j sums))) by (intros; unfold Qdiv; ring).
    rewrite qsum_map_scale, qsum_qnat, hist_total by exact Bd. field. lra.
Qed.

(** ** vector accumulation *)
Lemma vadd_length a b : length a = length b -> length (vadd a b) = length a.
Proof. intros H. unfold vadd. rewrite map_length, combine_length. lia. Qed.
Lemma vscale_length c a : length (vscale c a) = length a.
Proof. unfold vscale. apply map_length. Qed.

Lemma vadd_sum : forall a b, length a = length b -> qsum (vadd a b) == qsum a + qsum b.
Proof.
  induction a as [|x a IH]; destruct b as [|y b]; intros H; try discriminate; [cbn; lra|].
  unfold vadd in *. cbn [combine map fst snd]. rewrite !qsum_cons, Qred_correct, IH by (cbn in H; lia). ring.
Qed.

Lemma vscale_sum c a : qsum (vscale c a) == c * qsum a.
Proof. unfold vscale. induction a; cbn [map]; rewrite ?qsum_cons, ?qsum_nil; [lra | rewrite IHa; lra]. Qed.

Lemma vadd_nonneg a b : (forall e, In e a -> 0 <= e) -> (forall e, In e b -> 0 <= e) -> forall e, In e (vadd a b) -> 0 <= e.
Proof.
  intros Ha Hb e He. unfold vadd in He. apply in_map_iff in He. destruct He as ([x y] & <- & Hxy).
  rewrite Qred_correct. cbn [fst snd]. pose proof (in_combine_l _ _ _ _ Hxy). pose proof (in_combine_r _ _ _ _ Hxy).
  specialize (Ha x H). specialize (Hb y H0). lra.
Qed.

Lemma vscale_nonneg c a : 0 <= c -> (forall e, In e a -> 0 <= e) -> forall e, In e (vscale c a) -> 0 <= e.
Proof.
  intros Hc Ha e He. unfold vscale in He. apply in_map_iff in He. destruct He as (x & <- & Hx).
  apply Qmult_le_0_compat; auto.
Qed.

(** a mixture of probability vectors with non-negative weights summing to one *)
Lemma mixture_fold {A} (len : nat) (vec : A -> list Q) :
  forall (l : list (A * Q)) acc,
  (forall pp, In pp l -> prob_vector len (vec (fst pp)) /\ 0 <= snd pp) ->
  length acc = len -> (forall e, In e acc -> 0 <= e) ->
  let r := fold_left (fun acc pp => vadd acc (vscale (snd pp) (vec (fst pp)))) l acc in
  length r = len /\ (forall e, In e r -> 0 <= e) /\ qsum r == qsum acc + qsum (map snd l).
Proof.
  induction l as [|pp l IH]; intros acc H L P; cbn [fold_left map].
  - repeat split; auto. rewrite qsum_nil. lra.
  - destruct (H pp (or_introl eq_refl)) as [(Lv & Pv & Sv) Hw].
    assert (L' : length acc = length (vscale (snd pp) (vec (fst pp)))) by (rewrite vscale_length; lia).
    destruct (IH (vadd acc (vscale (snd pp) (vec (fst pp))))) as (R1 & R2 & R3).
    + intros; apply H; now right.
    + rewrite vadd_length; assumption.
    + apply vadd_nonneg; [exact P|]. apply vscale_nonneg; assumption.
    + repeat split; auto. rewrite R3, vadd_sum, vscale_sum, Sv, qsum_cons by exact L'. ring.
Qed.

Lemma repeat0_sum n : qsum (repeat 0 n) == 0.
Proof. induction n; [reflexivity|]. cbn [repeat]. rewrite qsum_cons, IHn. lra. Qed.

Lemma combine_snd_sum {A} (a : list A) (b : list Q) : length a = length b -> qsum (map snd (combine a b)) == qsum b.
Proof.
  revert b. induction a as [|x a IH]; destruct b as [|y b]; intros H; try discriminate; [reflexivity|].
  cbn [combine map snd]. rewrite !qsum_cons, IH by (cbn in H; lia). reflexivity.
Qed.

(** ** projection_matrix *)
Lemma even_half n : Nat.even n = true -> (2 * (n / 2) = n)%nat.
Proof. intros H. apply Nat.even_spec in H. destruct H as [k ->]. replace (2 * k / 2)%nat with k; [lia|]. symmetry. rewrite (Nat.mul_comm 2 k). apply Nat.div_mul. lia. Qed.

Theorem proj_row_inb_prob_vector nseq nsub F j :
  (nsub <= nseq)%nat -> (j <= 2 * (nseq / 2))%nat -> F_ok F ->
  prob_vector (nsub + 1) (proj_row_inb nseq nsub F j).
Proof.
  intros Hs Hj HF. unfold proj_row_inb. cbv zeta.
  pose proof (part_probs_length F (parts nseq j)) as PL.
  destruct (mixture_fold (nsub + 1) (fun pt => proj_inb pt nsub) (combine (parts nseq j) (part_probs F (parts nseq j))) (repeat 0 (nsub + 1)))
    as (R1 & R2 & R3).
  - intros [pt pr] Hpp. cbn [fst snd]. pose proof (in_combine_l _ _ _ _ Hpp) as Hpt. pose proof (in_combine_r _ _ _ _ Hpp) as Hpr.
    split; [|apply (part_probs_nonneg nseq j F HF pr Hpr)].
    apply parts_spec in Hpt. apply proj_inb_prob_vector; [apply (config_le2 _ _ _ _ Hpt)|].
    destruct Hpt as (L & _). rewrite L. apply Nat.div_le_mono; lia.
  - apply repeat_length.
  - intros e He. apply repeat_spec in He. subst. lra.
  - split; [exact R1|]. split; [exact R2|].
    rewrite R3, repeat0_sum, combine_snd_sum by (symmetry; exact PL).
    rewrite part_probs_sum_to_one by assumption. lra.
Qed.

Theorem hyper_row_prob_vector n m j : (m <= n)%nat -> (j <= n)%nat -> prob_vector (m + 1) (hyper_row n m j).
Proof.
  intros mn jn. unfold hyper_row. destruct (Nat.ltb_spec n m); [lia|].
  pose proof (binQ_pos n j jn) as BP.
  split; [now rewrite map_length, seq_length|]. split.
  - intros e He. apply in_map_iff in He. destruct He as (i & <- & _).
    destruct (i <=? j)%nat; [|lra]. rewrite Qred_correct. unfold Qdiv.
    apply Qmult_le_0_compat; [apply Qmult_le_0_compat; apply binQ_nonneg | apply Qinv_le_0_compat; lra].
  - rewrite (qsum_map_ext _ (fun i => / binQ n j * (if (i <=? j)%nat then binQ m i * binQ (n - m) (j - i) else 0))).
    + rewrite qsum_map_scale. replace (m + 1)%nat with (S m) by lia. rewrite hyper_sum by assumption. field. lra.
    + intros i _. destruct (i <=? j)%nat; [rewrite Qred_correct; unfold Qdiv; ring | ring].
Qed.

(** every row of projection_matrix is a probability vector *)
Theorem proj_matrix_rows nseq nsub F : (nsub <= nseq)%nat -> Nat.even nseq = true -> F_ok F ->
  length (proj_matrix nseq nsub F) = (nseq + 1)%nat /\
  forall row, In row (proj_matrix nseq nsub F) -> prob_vector (nsub + 1) row.
Proof.
  intros Hs Ev HF. unfold proj_matrix. split; [now rewrite map_length, seq_length|].
  intros row Hr. apply in_map_iff in Hr. destruct Hr as (j & <- & Hj). apply in_seq in Hj.
  destruct (Qeq_bool F 0).
  - apply hyper_row_prob_vector; lia.
  - apply proj_row_inb_prob_vector; auto. rewrite even_half by exact Ev. lia.
Qed.

(** ** calling_error_matrix *)
Lemma add_at_length i v l : length (add_at i v l) = length l.
Proof. revert i; induction l; intros [|i]; cbn; auto. Qed.

Lemma add_at_sum : forall l i v, (i < length l)%nat -> qsum (add_at i v l) == qsum l + v.
Proof.
  induction l as [|x l IH]; intros [|i] v H; cbn in H; try lia; cbn [add_at]; rewrite !qsum_cons.
  - rewrite Qred_correct. ring.
  - rewrite IH by lia. ring.
Qed.

Lemma add_at_nonneg : forall l i v, 0 <= v -> (forall e, In e l -> 0 <= e) -> forall e, In e (add_at i v l) -> 0 <= e.
Proof.
  induction l as [|x l IH]; intros [|i] v Hv Hl e He; cbn [add_at] in He; try (destruct He; fail).
  - destruct He as [<-|He]; [|apply Hl; now right]. rewrite Qred_correct. specialize (Hl x (or_introl eq_refl)). lra.
  - destruct He as [<-|He]; [apply Hl; now left|]. apply (IH i v Hv); [intros; apply Hl; now right | exact He].
Qed.

Lemma scatter_spec len : forall (cs : list (nat * Q)) acc,
  length acc = len -> (forall e, In e acc -> 0 <= e) ->
  (forall c, In c cs -> (fst c < len)%nat /\ 0 <= snd c) ->
  let r := fold_left (fun acc c => add_at (fst c) (snd c) acc) cs acc in
  length r = len /\ (forall e, In e r -> 0 <= e) /\ qsum r == qsum acc + qsum (map snd cs).
Proof.
  induction cs as [|c cs IH]; intros acc L P H; cbn [fold_left map].
  - repeat split; auto. rewrite qsum_nil. lra.
  - destruct (H c (or_introl eq_refl)) as [Hi Hv].
    destruct (IH (add_at (fst c) (snd c) acc)) as (R1 & R2 & R3).
    + now rewrite add_at_length.
    + apply add_at_nonneg; assumption.
    + intros; apply H; now right.
    + repeat split; auto. rewrite R3, add_at_sum, qsum_cons by lia. ring.
Qed.

Lemma qsum_flat_map {A} (f : A -> list Q) l : qsum (flat_map f l) == qsum (map (fun x => qsum (f x)) l).
Proof. induction l; [reflexivity|]. cbn [flat_map map]. rewrite qsum_app, qsum_cons, IHl. reflexivity. Qed.

Lemma map_flat_map {A B C} (g : B -> C) (f : A -> list B) l : map g (flat_map f l) = flat_map (fun x => map g (f x)) l.
Proof. induction l; [reflexivity|]. cbn [flat_map]. now rewrite map_app, IHl. Qed.

(** the contributions of one partition add up to its probability *)
Lemma cem_contribs_sum h af pp : qsum (map snd (cem_contribs h af pp)) == snd pp.
Proof.
  unfold cem_contribs. cbv zeta. rewrite map_flat_map, qsum_flat_map.
  rewrite (qsum_map_ext _ (fun e => snd pp * binpmf e (cnt 1 (fst pp)) h)).
  - rewrite qsum_map_scale. replace (cnt 1 (fst pp) + 1)%nat with (S (cnt 1 (fst pp))) by lia. rewrite binpmf_sum. ring.
  - intros e _. rewrite map_map. cbn [snd].
    rewrite qsum_map_scale. replace (e + 1)%nat with (S e) by lia. rewrite binpmf_sum. ring.
Qed.

Lemma half_unit : 0 <= half <= 1.
Proof. unfold half. split; [discriminate | discriminate]. Qed.

Lemma cem_contribs_ok h af n pp : 0 <= h <= 1 -> is_config n (Z.of_nat af) 0 (fst pp) -> 0 <= snd pp ->
  forall c, In c (cem_contribs h af pp) -> (fst c < 2 * n + 1)%nat /\ 0 <= snd c.
Proof.
  intros Hh C Hp c Hc. unfold cem_contribs in Hc. cbv zeta in Hc.
  apply in_flat_map in Hc. destruct Hc as (e & He & Hc). apply in_map_iff in Hc. destruct Hc as (r & <- & Hr).
  apply in_seq in He, Hr. cbn [fst snd].
  pose proof (counts_of_config _ (config_le2 _ _ _ _ C)) as [C1 C2].
  destruct C as (L & Sm & _ & _). apply Nat2Z.inj in Sm. split; [lia|].
  apply Qmult_le_0_compat; [apply Qmult_le_0_compat; [exact Hp|]|]; apply binpmf_nonneg; [exact Hh | exact half_unit].
Qed.

Theorem cem_row_prob_vector h nsub F af : 0 <= h <= 1 -> (af <= 2 * (nsub / 2))%nat -> F_ok F ->
  prob_vector (nsub + 1) (cem_row h nsub F af).
Proof.
  intros Hh Haf HF. unfold cem_row, scatter. cbv zeta.
  pose proof (part_probs_length F (parts nsub af)) as PL.
  set (pps := combine (parts nsub af) (part_probs F (parts nsub af))).
  destruct (scatter_spec (nsub + 1) (flat_map (cem_contribs h af) pps) (repeat 0 (nsub + 1))) as (R1 & R2 & R3).
  - apply repeat_length.
  - intros e He. apply repeat_spec in He. subst. lra.
  - intros c Hc. apply in_flat_map in Hc. destruct Hc as ([pt pr] & Hpp & Hc).
    pose proof (in_combine_l _ _ _ _ Hpp) as Hpt. pose proof (in_combine_r _ _ _ _ Hpp) as Hpr.
    apply parts_spec in Hpt.
    destruct (cem_contribs_ok h af (nsub / 2) (pt, pr) Hh Hpt (part_probs_nonneg nsub af F HF pr Hpr) c Hc) as [B N].
    split; [|exact N]. pose proof (Nat.div_mod nsub 2 ltac:(lia)). lia.
  - split; [exact R1|]. split; [exact R2|].
    rewrite R3, repeat0_sum, map_flat_map, qsum_flat_map.
    rewrite (qsum_map_ext _ snd) by (intros; apply cem_contribs_sum).
    unfold pps. rewrite combine_snd_sum by (symmetry; exact PL).
    rewrite part_probs_sum_to_one by assumption. lra.
Qed.

Theorem cem_rows st nsub F : 0 <= st_h st <= 1 -> Nat.even nsub = true -> F_ok F ->
  length (cem st nsub F) = (nsub + 1)%nat /\ forall row, In row (cem st nsub F) -> prob_vector (nsub + 1) row.
Proof.
  intros Hh Ev HF. unfold cem. split; [now rewrite map_length, seq_length|].
  intros row Hr. apply in_map_iff in Hr. destruct Hr as (af & <- & Haf). apply in_seq in Haf.
  apply cem_row_prob_vector; auto. rewrite even_half by exact Ev. lia.
Qed.
