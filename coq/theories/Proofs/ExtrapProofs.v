From Coq Require Import ZArith Reals List Lra Permutation.
From Dadi Require Import Base.Num Base.NumR Model.Extrap.
Import ListNotations.
Local Open Scope R_scope.

(** ** sums and products over permuted lists *)
Lemma nsum_perm (l l' : list R) : Permutation l l' -> nsum l = nsum l'.
Proof. induction 1; unfold nsum in *; cbn [fold_right] in *; numR; [reflexivity|rewrite IHPermutation; reflexivity|ring|congruence]. Qed.
Lemma nprod_perm (l l' : list R) : Permutation l l' -> nprod l = nprod l'.
Proof. induction 1; unfold nprod in *; cbn [fold_right] in *; numR; [reflexivity|rewrite IHPermutation; reflexivity|ring|congruence]. Qed.

Lemma lag0_weight_perm (xs xs' : list R) x : Permutation xs xs' -> lag0_weight xs x = lag0_weight xs' x.
Proof. intros P; unfold lag0_weight; apply nprod_perm, Permutation_map, P. Qed.

(** Order of the grid list is irrelevant, for every data set (not only polynomial data). *)
Lemma lagrange0_perm (ps ps' : list (R * R)) : Permutation ps ps' -> lagrange0 ps = lagrange0 ps'.
Proof.
  intros P. unfold lagrange0.
  transitivity (nsum (map (fun p => lag0_weight (map fst ps') (fst p) * snd p)%num ps)).
  - f_equal. apply map_ext. intros p. f_equal. apply lag0_weight_perm, Permutation_map, P.
  - apply nsum_perm, Permutation_map, P.
Qed.

(** ** unfolding helpers *)
Ltac reqb :=
  repeat match goal with
  | |- context [Reqb ?a ?a] => rewrite (proj2 (Reqb_true a a) eq_refl)
  | H : ?a <> ?b |- context [Reqb ?a ?b] => rewrite (proj2 (Reqb_false a b) H)
  | H : ?b <> ?a |- context [Reqb ?a ?b] => rewrite (proj2 (Reqb_false a b) (not_eq_sym H))
  end.
Ltac lag_unfold :=
  unfold lagrange0, lag0_weight, nsum, nprod; cbn [map fst snd fold_right combine peval]; numR; reqb.
Ltac neq0 := repeat split; match goal with |- ?a - ?b <> 0 => intros Hc; apply Rminus_diag_uniq in Hc; congruence | _ => idtac end.

(** ** the closed formulas of Numerics.py are the Lagrange form *)
Lemma linear_is_lagrange x1 x2 y1 y2 : x1 <> x2 ->
  (x2 * y1 - x1 * y2) / (x2 - x1) = lagrange0 [(x1, y1); (x2, y2)].
Proof. intros. lag_unfold. field. neq0. Qed.

(** ** exactness: degree < k with k pairwise distinct nodes gives the constant coefficient *)
Definition pdata (cs xs : list R) : list (R * R) := combine xs (map (peval cs) xs).

Lemma exact1 c0 x1 : extrap_entry [x1] (map (peval [c0]) [x1]) = Some c0.
Proof. cbn. numR. f_equal; ring. Qed.

Lemma exact2 c0 c1 x1 x2 : x1 <> x2 -> lagrange0 (pdata [c0; c1] [x1; x2]) = c0.
Proof. intros. unfold pdata. lag_unfold. field. neq0. Qed.

Lemma exact3 c0 c1 c2 x1 x2 x3 : x1 <> x2 -> x1 <> x3 -> x2 <> x3 ->
  lagrange0 (pdata [c0; c1; c2] [x1; x2; x3]) = c0.
Proof. intros. unfold pdata. lag_unfold. field. neq0. Qed.

Lemma exact4 c0 c1 c2 c3 x1 x2 x3 x4 :
  x1 <> x2 -> x1 <> x3 -> x1 <> x4 -> x2 <> x3 -> x2 <> x4 -> x3 <> x4 ->
  lagrange0 (pdata [c0; c1; c2; c3] [x1; x2; x3; x4]) = c0.
Proof. intros. unfold pdata. lag_unfold. field. neq0. Qed.

Lemma exact5 c0 c1 c2 c3 c4 x1 x2 x3 x4 x5 :
  x1 <> x2 -> x1 <> x3 -> x1 <> x4 -> x1 <> x5 -> x2 <> x3 -> x2 <> x4 -> x2 <> x5 ->
  x3 <> x4 -> x3 <> x5 -> x4 <> x5 ->
  lagrange0 (pdata [c0; c1; c2; c3; c4] [x1; x2; x3; x4; x5]) = c0.
Proof. intros. unfold pdata. lag_unfold. field. neq0. Qed.
