(** d-dimensional statements: integrating a newly created population out returns the incoming density
    exactly; a pulse leaves the joint density of the other populations unchanged; a pulse whose ad-mixed
    frequency is the destination's own frequency is the identity. *)
From Coq Require Import List Arith Bool ZArith Reals Lra Lia.
From Dadi Require Import Base.Num Base.NumR Model.Tridiag Model.Scheme Model.NDSweep Model.PhiManip
  Proofs.PhiManipSums Proofs.PhiManipDeposit.
Import ListNotations.
Local Open Scope R_scope.

(** the normalising denominator of the deposit at frequency adz on grid zz does not vanish *)
Definition dep_ok (zz : list R) (adz : R) : Prop := dep_den zz (lower_index zz adz) (upper_index zz adz) adz <> 0.

Lemma firstn_app_exact {A} (a b : list A) : firstn (length a) (a ++ b) = a.
Proof. induction a; simpl; congruence. Qed.
Lemma skipn_app_exact {A} (a : list A) x : skipn (S (length a)) (a ++ [x]) = [].
Proof. induction a; simpl; auto. Qed.
Lemma flat_map_singleton {A B} (g : A -> B) l : flat_map (fun a => [g a]) l = map g l.
Proof. induction l; simpl; congruence. Qed.
Lemma flat_map_ext_in {A B} (f g : A -> list B) l : (forall a, In a l -> f a = g a) -> flat_map f l = flat_map g l.
Proof. induction l as [|a l IH]; intros E; simpl; auto. rewrite E, IH; auto with datatypes. Qed.

Lemma trapz_tab' (xs : list R) (f : nat -> R) n : length xs = n ->
  trapz xs (map f (seq 0 n)) = nsum (map (fun i => trap_w xs i * f i) (seq 0 n)).
Proof. intros <-. apply trapz_tab. Qed.

(** ** d -> d+1: the new population integrated out *)
Theorem new_pop_marginal_exact (shape : list nat) (grids gs : list (list R)) (cs zz phi : list R) :
  length phi = prodn shape -> (2 <= length zz)%nat -> incr zz -> length gs = length shape ->
  (forall idx, (idx < prodn shape)%nat -> dep_ok zz (adfreq grids cs (unflat shape idx))) ->
  marginal_out (shape ++ [length zz]) (gs ++ [zz]) (length shape) (new_pop shape grids cs zz phi) = phi.
Proof. intros Hphi HL Hinc Hgs Hok. unfold marginal_out.
  rewrite firstn_app_exact, skipn_app_exact, nth_middle. rewrite <- Hgs, nth_middle.
  change (prodn []) with 1%nat. simpl seq. simpl map.
  rewrite (flat_map_singleton (fun o => trapz zz (map (fun i => nthF (new_pop shape grids cs zz phi) ((o * length zz + i) * 1 + 0)) (seq 0 (length zz))))).
  transitivity (map (fun o => nth o phi 0) (seq 0 (length phi))); [|apply map_nth_seq].
  rewrite Hphi. apply map_seq_ext. intros o Ho.
  assert (E : map (fun i => nthF (new_pop shape grids cs zz phi) ((o * length zz + i) * 1 + 0)) (seq 0 (length zz))
              = deposit_col zz (nthF phi o) (adfreq grids cs (unflat shape o))).
  { rewrite <- (map_nth_seq 0 (deposit_col zz (nthF phi o) (adfreq grids cs (unflat shape o)))).
    rewrite deposit_col_length. apply map_seq_ext. intros i Hi.
    replace ((o * length zz + i) * 1 + 0)%nat with (o * length zz + i)%nat by lia.
    unfold nthF, new_pop. rewrite (nth_flat_map_const _ 0 (length zz)); try lia.
    - reflexivity.
    - intros k _. apply deposit_col_length. }
  rewrite E. apply deposit_conserves; auto. apply Hok. lia. Qed.

(** ** indexing a C-order array built as outer x len x inner blocks *)
Lemma nth_nested (E : nat -> nat -> nat -> R) outer len inner o k q :
  (o < outer)%nat -> (k < len)%nat -> (q < inner)%nat ->
  nthF (flat_map (fun o => flat_map (fun k => map (fun q => E o k q) (seq 0 inner)) (seq 0 len)) (seq 0 outer))
       ((o * len + k) * inner + q) = E o k q.
Proof. intros Ho Hk Hq. unfold nthF.
  assert (Hin : forall o', length (flat_map (fun k => map (fun q => E o' k q) (seq 0 inner)) (seq 0 len)) = (len * inner)%nat).
  { intros o'. rewrite (flat_map_length_const _ inner), seq_length; auto. intros a _. now rewrite map_length, seq_length. }
  replace ((o * len + k) * inner + q)%nat with (o * (len * inner) + (k * inner + q))%nat by nia.
  rewrite (nth_flat_map_const _ 0 (len * inner)); auto; [|nia]. simpl plus.
  rewrite (nth_flat_map_const _ 0 inner); auto.
  - simpl plus. now rewrite nth_map_seq.
  - intros a _. now rewrite map_length, seq_length. Qed.
Lemma nested_length (E : nat -> nat -> nat -> R) outer len inner :
  length (flat_map (fun o => flat_map (fun k => map (fun q => E o k q) (seq 0 inner)) (seq 0 len)) (seq 0 outer))
  = (outer * (len * inner))%nat.
Proof. rewrite (flat_map_length_const _ (len * inner)), seq_length; auto. intros o _.
  rewrite (flat_map_length_const _ inner), seq_length; auto. intros a _. now rewrite map_length, seq_length. Qed.

(** a C-order array is the table of its entries *)
Lemma nested_id (phi : list R) outer len inner : length phi = (outer * (len * inner))%nat ->
  flat_map (fun o => flat_map (fun k => map (fun q => nthF phi ((o * len + k) * inner + q)) (seq 0 inner)) (seq 0 len)) (seq 0 outer) = phi.
Proof. intros Hlen. apply (nth_ext _ _ 0 0).
  - now rewrite nested_length.
  - intros n Hn. rewrite nested_length in Hn.
    assert (Hi : inner <> 0%nat) by (intros E; rewrite E in Hn; lia).
    assert (Hl : len <> 0%nat) by (intros E; rewrite E in Hn; lia).
    pose (q := (n mod inner)%nat). pose (m := (n / inner)%nat). pose (k := (m mod len)%nat). pose (o := (m / len)%nat).
    assert (Hq : (q < inner)%nat) by (apply Nat.mod_upper_bound; auto).
    assert (Hk : (k < len)%nat) by (apply Nat.mod_upper_bound; auto).
    assert (Hn1 : n = (inner * m + q)%nat) by (apply Nat.div_mod; auto).
    assert (Hm1 : m = (len * o + k)%nat) by (apply Nat.div_mod; auto).
    assert (Ho : (o < outer)%nat).
    { apply Nat.div_lt_upper_bound; auto. unfold m. apply Nat.div_lt_upper_bound; auto. nia. }
    assert (En : n = ((o * len + k) * inner + q)%nat) by nia.
    pose proof (nth_nested (fun o k q => nthF phi ((o * len + k) * inner + q)) outer len inner o k q Ho Hk Hq) as HN.
    rewrite En. exact HN. Qed.

(** ** the pulse: destination integrated out before = after *)
Section Pulse.
  Variables (shape : list nat) (grids : list (list R)) (cs : list R) (dest : nat) (g phi : list R).
  Let outer := prodn (firstn dest shape).
  Let len := nth dest shape 0%nat.
  Let inner := prodn (skipn (S dest) shape).
  Let adz (o i q : nat) : R := adfreq grids cs (unflat shape ((o * len + i) * inner + q)).
  Let phiv (o i q : nat) : R := nthF phi ((o * len + i) * inner + q).
  Hypothesis Hlen : length g = len.
  Hypothesis HL : (2 <= length g)%nat.
  Hypothesis Hinc : incr g.

  Lemma pulse_entry o k q : (o < outer)%nat -> (k < len)%nat -> (q < inner)%nat ->
    nthF (pulse shape grids cs dest g g phi) ((o * len + k) * inner + q)
    = trapz g (map (fun i => nthF (deposit_col g (phiv o i q) (adz o i q)) k) (seq 0 len)).
  Proof. intros Ho Hk Hq. unfold pulse. fold outer len inner.
    rewrite (nth_nested (fun o k q => trapz_np g (map (fun i => nthF (deposit_col g (nthF phi ((o * len + i) * inner + q))
               (adfreq grids cs (unflat shape ((o * len + i) * inner + q)))) k) (seq 0 len)))); auto.
    now rewrite trapz_np_eq_trapz. Qed.

  Theorem pulse_preserves_others_line o q : (o < outer)%nat -> (q < inner)%nat ->
    (forall i, (i < len)%nat -> dep_ok g (adz o i q)) ->
    trapz g (map (fun k => nthF (pulse shape grids cs dest g g phi) ((o * len + k) * inner + q)) (seq 0 len))
    = trapz g (map (fun i => phiv o i q) (seq 0 len)).
  Proof. intros Ho Hq Hok.
    rewrite (map_seq_ext _ (fun k => trapz g (map (fun i => nthF (deposit_col g (phiv o i q) (adz o i q)) k) (seq 0 len))))
      by (intros k Hk; apply pulse_entry; auto; lia).
    rewrite <- Hlen. rewrite !trapz_tab.
    rewrite (nsum_map_ext _ (fun k => nsum (map (fun i => trap_w g k * (trap_w g i * nthF (deposit_col g (phiv o i q) (adz o i q)) k)) (seq 0 (length g))))).
    2:{ intros k _. rewrite trapz_tab. now rewrite nsum_map_scal. }
    rewrite nsum_swap. apply nsum_map_ext. intros i Hi. apply in_seq in Hi.
    rewrite (nsum_map_ext _ (fun k => trap_w g i * (trap_w g k * nthF (deposit_col g (phiv o i q) (adz o i q)) k))) by (intros; lra).
    rewrite nsum_map_scal. f_equal.
    change (trapz g (deposit_col g (phiv o i q) (adz o i q)) = phiv o i q).
    apply deposit_conserves; auto. apply Hok. lia. Qed.

  Theorem pulse_preserves_others (gs : list (list R)) : nth dest gs [] = g ->
    (forall o i q, (o < outer)%nat -> (i < len)%nat -> (q < inner)%nat -> dep_ok g (adz o i q)) ->
    marginal_out shape gs dest (pulse shape grids cs dest g g phi) = marginal_out shape gs dest phi.
  Proof. intros Hg Hok. unfold marginal_out. fold outer len inner. rewrite Hg.
    apply flat_map_ext_in. intros o Ho. apply in_seq in Ho. apply map_seq_ext. intros q Hq.
    apply pulse_preserves_others_line; try lia. intros i Hi. apply Hok; lia. Qed.

  (** when every entry's ad-mixed frequency is its own coordinate along the destination axis, the pulse is the identity *)
  Theorem pulse_unit_is_identity : length phi = (outer * (len * inner))%nat ->
    (forall o i q, (o < outer)%nat -> (i < len)%nat -> (q < inner)%nat -> adz o i q = nthF g i) ->
    pulse shape grids cs dest g g phi = phi.
  Proof. intros Hphi Hadz. etransitivity; [|apply (nested_id phi outer len inner Hphi)].
    unfold pulse. fold outer len inner.
    apply flat_map_ext_in. intros o Ho. apply in_seq in Ho.
    apply flat_map_ext_in. intros k Hk. apply in_seq in Hk. apply map_seq_ext. intros q Hq.
    rewrite trapz_np_eq_trapz by auto.
    rewrite (map_seq_ext _ (fun i => if Nat.eqb i k then nthF phi ((o * len + i) * inner + q) / trap_w g i else 0)).
    2:{ intros i Hi. fold (adz o i q). rewrite Hadz by lia. rewrite deposit_on_grid by (auto; lia).
        rewrite nthF_map_seq by lia. rewrite Nat.eqb_sym. reflexivity. }
    rewrite (trapz_tab' g _ len Hlen).
    rewrite (nsum_map_ext _ (fun i => if Nat.eqb i k then trap_w g i * (nthF phi ((o * len + i) * inner + q) / trap_w g i) else 0))
      by (intros i _; destruct (Nat.eqb i k); lra).
    rewrite (nsum_single0 (fun i => trap_w g i * (nthF phi ((o * len + i) * inner + q) / trap_w g i))) by lia.
    field. assert (0 < trap_w g k) by (apply trap_w_pos; auto; lia). lra. Qed.
End Pulse.

(** ** the ad-mixed frequency as an indexed sum; convex combinations stay inside the grid *)
Lemma combine_seq {A B} (da : A) (db : B) (l1 : list A) (l2 : list B) d : length l1 = d -> length l2 = d ->
  combine l1 l2 = map (fun j => (nth j l1 da, nth j l2 db)) (seq 0 d).
Proof. intros H1 H2. apply (nth_ext _ _ (da, db) (da, db)).
  - rewrite combine_length, map_length, seq_length. lia.
  - intros n Hn. rewrite combine_length in Hn. rewrite combine_nth by lia.
    rewrite nth_map_seq by lia. reflexivity. Qed.

Lemma adfreq_as_sum (grids : list (list R)) (cs : list R) (ix : list nat) d :
  length cs = d -> length grids = d -> length ix = d ->
  adfreq grids cs ix = nsum (map (fun j => nth j cs 0 * nthF (nth j grids []) (nth j ix 0%nat)) (seq 0 d)).
Proof. intros H1 H2 H3. unfold adfreq. rewrite lsum_nsum.
  rewrite (combine_seq [] 0%nat grids ix d) by auto.
  rewrite (combine_seq 0 ([], 0%nat) cs _ d) by (auto; now rewrite map_length, seq_length).
  rewrite map_map. f_equal. apply map_seq_ext. intros j Hj. cbn [fst snd].
  rewrite nth_map_seq by lia. reflexivity. Qed.

Lemma nsum_convex (c v : nat -> R) a b d :
  (forall j, (j < d)%nat -> 0 <= c j) -> (forall j, (j < d)%nat -> a <= v j <= b) ->
  a * nsum (map c (seq 0 d)) <= nsum (map (fun j => c j * v j) (seq 0 d)) <= b * nsum (map c (seq 0 d)).
Proof. induction d as [|d IH]; intros Hc Hv.
  - cbn [seq map]. rewrite !nsum_nil. lra.
  - rewrite !nsum_seq_S. destruct IH as [I1 I2]; auto.
    pose proof (Hc d ltac:(lia)). pose proof (Hv d ltac:(lia)) as [V1 V2].
    assert (a * c d <= c d * v d) by nra. assert (c d * v d <= b * c d) by nra. lra. Qed.
