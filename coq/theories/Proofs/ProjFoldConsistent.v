(** C08, folded spectra: Spectrum.project on a folded spectrum computes fold(project(unfold fs)).
    This file proves that this is consistent with projecting the unfolded original:

        fold (project ns x)  =  fold (project ns (unfold (fold x)))        (data, any dimension / shape / targets)

    and the same identity for the masks.  Ingredients: unfold(fold x) is the symmetrisation (x + mirror x)/2
    (on data) resp. x || mirror x || corners (on masks); projection is linear and commutes with the mirror
    (ProjTensor/ProjSpectrum); fold forgets the symmetrisation.

    Technique: every rectangular nested array is [tgen sh f] (tabulation of an entry function on multi-indices);
    trev / timap / tzip / tmap / tadd / mask_corners map tabulations to tabulations, so fold and unfold become
    pointwise formulas on entry functions. *)
From Coq Require Import ZArith Reals List Lra Lia Bool Arith.
From Dadi Require Import Base.Num Base.NumR Model.Projection Proofs.ProjBase Proofs.ProjH Proofs.ProjTensor Proofs.ProjSpectrum.
Import ListNotations.
Local Open Scope R_scope.

(** ** tabulated arrays *)
Fixpoint tgen {A : Type} (d : nat) (sh : list nat) (f : list nat -> A) : tens A d :=
  match d with
  | O => f []
  | S d' => map (fun i => tgen d' (tl sh) (fun idx => f (i :: idx))) (seq 0 (hd 0%nat sh))
  end.

Definition inrg (sh idx : list nat) : Prop := Forall2 lt idx sh.
Definition isum (idx : list nat) : nat := fold_right Nat.add 0%nat idx.
Definition ridx (sh idx : list nat) : list nat := map (fun p => (fst p - 1 - snd p)%nat) (combine sh idx).
Definition Tsh (sh : list nat) : nat := fold_right Nat.add 0%nat (map pred sh).
Notation pos := (Forall (fun L => 1 <= L)%nat).

Lemma tgen_ext {A} d : forall sh (f g : list nat -> A), length sh = d ->
  (forall idx, inrg sh idx -> f idx = g idx) -> tgen d sh f = tgen d sh g.
Proof. induction d; intros sh f g Hl E.
  - destruct sh; [|discriminate]. cbn. apply E. constructor.
  - destruct sh as [|L sh]; [discriminate|]. cbn [tgen hd tl]. apply map_ext_in. intros i Hi. apply in_seq in Hi.
    apply IHd; [cbn in Hl; lia|]. intros idx Hidx. apply E. constructor; [lia|exact Hidx]. Qed.

Lemma wf_tgen {A} d : forall sh (f : list nat -> A), length sh = d -> wf d sh (tgen d sh f).
Proof. induction d; intros sh f Hl.
  - destruct sh; [reflexivity|discriminate].
  - destruct sh as [|L sh]; [discriminate|]. cbn [tgen hd tl wf]. split; [rewrite map_length, seq_length; reflexivity|].
    apply Forall_map, Forall_forall. intros i _. apply IHd. cbn in Hl; lia. Qed.

Lemma map_nth_seq {B} (x : list B) e : map (fun i => nth i x e) (seq 0 (length x)) = x.
Proof. induction x; [reflexivity|]. cbn [length]. rewrite seq_S_cons. cbn [map nth]. f_equal.
  rewrite <- seq_shift, map_map. exact IHx. Qed.

Lemma tgen_tget {A} (zero : A) d : forall sh (x : tens A d), wf d sh x ->
  x = tgen d sh (fun idx => tget zero d idx x).
Proof. induction d; intros sh x Hw; [reflexivity|].
  destruct sh as [|L sh]; [contradiction|]. destruct Hw as [HL Hall]. cbn [tgen hd tl].
  rewrite <- (map_nth_seq x (tzero zero d)) at 1. rewrite HL. apply map_ext_in. intros i Hi. apply in_seq in Hi.
  cbn [tget]. rewrite Forall_forall in Hall. apply IHd. apply Hall, nth_In. lia. Qed.

Lemma wf_len_tgen {A} d sh (x : tens A d) : wf d sh x -> pos sh -> length sh = d.
Proof. apply wf_length. Qed.

Lemma combine_map_same {B C D} (F : B -> C) (G : B -> D) l : combine (map F l) (map G l) = map (fun i => (F i, G i)) l.
Proof. induction l; cbn; [reflexivity|]. rewrite IHl. reflexivity. Qed.
Lemma combine_id_map {B C} (F : B -> C) l : combine l (map F l) = map (fun i => (i, F i)) l.
Proof. induction l; cbn; [reflexivity|]. rewrite IHl. reflexivity. Qed.

Lemma trev_tgen {A} d : forall sh (f : list nat -> A), length sh = d ->
  trev d (tgen d sh f) = tgen d sh (fun idx => f (ridx sh idx)).
Proof. induction d; intros sh f Hl.
  - destruct sh; [reflexivity|discriminate].
  - destruct sh as [|L sh]; [discriminate|]. cbn in Hl. cbn [tgen hd tl trev]. rewrite map_map.
    rewrite (map_ext _ (fun i => tgen d sh (fun idx => f (i :: ridx sh idx)))) by (intros i; apply IHd; lia).
    destruct L as [|m]; [reflexivity|]. rewrite rev_map_seq. apply map_ext. intros i.
    apply tgen_ext; [lia|]. intros idx _. unfold ridx. cbn [combine map fst snd]. f_equal. f_equal. lia. Qed.

Lemma timap_tgen {A B} d (g : nat -> A -> B) : forall sh (f : list nat -> A) acc, length sh = d ->
  timap d g acc (tgen d sh f) = tgen d sh (fun idx => g (acc + isum idx)%nat (f idx)).
Proof. induction d; intros sh f acc Hl.
  - destruct sh; [|discriminate]. cbn. rewrite Nat.add_0_r. reflexivity.
  - destruct sh as [|L sh]; [discriminate|]. cbn in Hl. cbn [tgen hd tl timap]. rewrite map_length, seq_length.
    rewrite combine_id_map, map_map. apply map_ext. intros i. cbn [fst snd]. rewrite IHd by lia.
    apply tgen_ext; [lia|]. intros idx _. unfold isum. cbn [fold_right]. f_equal. lia. Qed.

Lemma tzip_tgen {A B C} d (h : A -> B -> C) : forall sh (f : list nat -> A) (g : list nat -> B),
  tzip d h (tgen d sh f) (tgen d sh g) = tgen d sh (fun idx => h (f idx) (g idx)).
Proof. induction d; intros sh f g; [reflexivity|]. cbn [tgen tzip]. rewrite combine_map_same, map_map.
  apply map_ext. intros i. cbn [fst snd]. apply IHd. Qed.

Lemma tmap_tgen {A B} d (u : A -> B) : forall sh (f : list nat -> A), tmap d u (tgen d sh f) = tgen d sh (fun idx => u (f idx)).
Proof. induction d; intros sh f; [reflexivity|]. cbn [tgen tmap]. rewrite map_map. apply map_ext. intros i. apply IHd. Qed.

Lemma tadd_tgen {A} (add : A -> A -> A) d : forall sh (f g : list nat -> A),
  tadd add d (tgen d sh f) (tgen d sh g) = tgen d sh (fun idx => add (f idx) (g idx)).
Proof. induction d; intros sh f g; [reflexivity|]. cbn [tgen tadd]. rewrite ladd_map_same.
  apply map_ext. intros i. apply IHd. Qed.

Lemma tshape_tgen {A} d sh (f : list nat -> A) : length sh = d -> pos sh -> tshape d (tgen d sh f) = sh.
Proof. intros Hl Hp. apply wf_tshape; [apply wf_tgen; exact Hl | exact Hp]. Qed.

Lemma total_samples_tgen {A} d sh (f : list nat -> A) : length sh = d -> pos sh -> total_samples d (tgen d sh f) = Tsh sh.
Proof. intros Hl Hp. unfold total_samples, sample_sizes. rewrite tshape_tgen by assumption. reflexivity. Qed.

(** ** index arithmetic *)
Lemma inrg_length sh idx : inrg sh idx -> length idx = length sh.
Proof. induction 1; cbn; congruence. Qed.
Lemma ridx_inrg sh idx : inrg sh idx -> inrg sh (ridx sh idx).
Proof. induction 1; [constructor|]. unfold ridx. cbn. constructor; [lia|assumption]. Qed.
Lemma ridx_invol sh idx : inrg sh idx -> ridx sh (ridx sh idx) = idx.
Proof. induction 1; [reflexivity|]. unfold ridx in *. cbn. rewrite IHForall2. f_equal. lia. Qed.
Lemma isum_ridx sh idx : inrg sh idx -> (isum idx + isum (ridx sh idx) = Tsh sh)%nat.
Proof. induction 1; [reflexivity|]. unfold ridx, isum, Tsh in *. cbn. lia. Qed.

Lemma fo_true T t : (T < 2 * t)%nat -> folded_out T t = true.
Proof. intros Hlt. unfold folded_out. apply Nat.ltb_lt. apply Nat.div_lt_upper_bound; lia. Qed.
Lemma fo_false T t : (2 * t <= T)%nat -> folded_out T t = false.
Proof. intros Hle. unfold folded_out. apply Nat.ltb_ge. apply Nat.div_le_lower_bound; lia. Qed.
Lemma amb_true T t : (2 * t = T)%nat -> ambiguous T t = true.
Proof. intros. unfold ambiguous. apply Nat.eqb_eq. assumption. Qed.
Lemma amb_false T t : (2 * t <> T)%nat -> ambiguous T t = false.
Proof. intros. unfold ambiguous. apply Nat.eqb_neq. assumption. Qed.

(** ** fold / unfold of the data as pointwise formulas *)
Definition symf (sh : list nat) (f : list nat -> R) : list nat -> R := fun idx => (f idx + f (ridx sh idx)) / 2.
Definition foldf (sh : list nat) (f : list nat -> R) : list nat -> R := fun idx =>
  let T := Tsh sh in let t := isum idx in let r := ridx sh idx in
  (if folded_out T t then 0 else f idx + (if folded_out T (isum r) then f r else 0))
  + (- (1 / 2) * (if ambiguous T t then f idx else 0) + (1 / 2) * (if ambiguous T (isum r) then f r else 0)).

Lemma unfold_data_tgen d sh f : length sh = d -> unfold_data (F:=R) d (tgen d sh f) = tgen d sh (symf sh f).
Proof. intros Hl. unfold unfold_data. rewrite trev_tgen, tzip_tgen by exact Hl.
  apply tgen_ext; [exact Hl|]. intros idx _. unfold symf, n2. numR. lra. Qed.

Lemma fold_data_tgen d sh f : length sh = d -> pos sh -> fold_data (F:=R) d (tgen d sh f) = tgen d sh (foldf sh f).
Proof. intros Hl Hp. unfold fold_data. cbv zeta. rewrite total_samples_tgen by assumption.
  rewrite !timap_tgen by exact Hl. rewrite !trev_tgen by exact Hl. rewrite tzip_tgen.
  rewrite !timap_tgen by exact Hl. rewrite !tzip_tgen.
  apply tgen_ext; [exact Hl|]. intros idx _. unfold foldf. cbv zeta. cbn [Nat.add]. unfold nhalf, n2. numR.
  replace (1 + 1) with 2 by lra. reflexivity. Qed.

(** the three cases of an in-range entry: kept (2t < T), ambiguous (2t = T), folded out (2t > T) *)
Ltac fold_cases sh idx Hin :=
  let E := fresh "E" in let B1 := fresh "B" in let B2 := fresh "B" in let B3 := fresh "B" in let B4 := fresh "B" in
  pose proof (isum_ridx sh idx Hin) as E; rewrite ?(ridx_invol sh idx Hin);
  set (t := isum idx) in *; set (t' := isum (ridx sh idx)) in *; set (T := Tsh sh) in *;
  destruct (lt_eq_lt_dec (2 * t) T) as [[Hc|Hc]|Hc];
  [ pose proof (fo_false T t ltac:(lia)) as B1; pose proof (fo_true T t' ltac:(lia)) as B2;
    pose proof (amb_false T t ltac:(lia)) as B3; pose proof (amb_false T t' ltac:(lia)) as B4
  | pose proof (fo_false T t ltac:(lia)) as B1; pose proof (fo_false T t' ltac:(lia)) as B2;
    pose proof (amb_true T t ltac:(lia)) as B3; pose proof (amb_true T t' ltac:(lia)) as B4
  | pose proof (fo_true T t ltac:(lia)) as B1; pose proof (fo_false T t' ltac:(lia)) as B2;
    pose proof (amb_false T t ltac:(lia)) as B3; pose proof (amb_false T t' ltac:(lia)) as B4 ];
  rewrite ?B1, ?B2, ?B3, ?B4.

(** unfold (fold x) is the symmetrisation of x *)
Lemma symf_foldf sh f idx : inrg sh idx -> symf sh (foldf sh f) idx = symf sh f idx.
Proof. intros Hin. unfold symf, foldf. cbv zeta. fold_cases sh idx Hin; lra. Qed.

(** fold forgets the symmetrisation *)
Lemma foldf_symf sh f idx : inrg sh idx -> foldf sh (symf sh f) idx = foldf sh f idx.
Proof. intros Hin. unfold symf, foldf. cbv zeta. fold_cases sh idx Hin; lra. Qed.

Theorem unfold_fold_data d sh (x : tens R d) : wf d sh x -> pos sh ->
  unfold_data d (fold_data d x) = unfold_data d x.
Proof. intros Hw Hp. pose proof (wf_length d sh x Hw Hp) as Hl.
  rewrite (tgen_tget 0 d sh x Hw). rewrite fold_data_tgen, !unfold_data_tgen by assumption.
  apply tgen_ext; [exact Hl|]. intros idx Hin. apply symf_foldf, Hin. Qed.

Theorem fold_unfold_data d sh (y : tens R d) : wf d sh y -> pos sh ->
  fold_data d (unfold_data d y) = fold_data d y.
Proof. intros Hw Hp. pose proof (wf_length d sh y Hw Hp) as Hl.
  rewrite (tgen_tget 0 d sh y Hw). rewrite unfold_data_tgen, !fold_data_tgen by assumption.
  apply tgen_ext; [exact Hl|]. intros idx Hin. apply foldf_symf, Hin. Qed.

Lemma wf_unfold_data d sh (x : tens R d) : wf d sh x -> pos sh -> wf d sh (unfold_data d x).
Proof. intros Hw Hp. pose proof (wf_length d sh x Hw Hp) as Hl.
  rewrite (tgen_tget 0 d sh x Hw), unfold_data_tgen by exact Hl. apply wf_tgen, Hl. Qed.
Lemma wf_fold_data d sh (x : tens R d) : wf d sh x -> pos sh -> wf d sh (fold_data d x).
Proof. intros Hw Hp. pose proof (wf_length d sh x Hw Hp) as Hl.
  rewrite (tgen_tget 0 d sh x Hw), fold_data_tgen by assumption. apply wf_tgen, Hl. Qed.

(** ** projection commutes with the symmetrisation: linearity + mirror symmetry of the weights *)
Definition halve (a : R) : R := a / 2.
Lemma halve_additive : additive 0 Rplus halve.
Proof. unfold halve. split; [|intros a b]; lra. Qed.
Lemma halve_pcoef n m i j a : halve (pcoef (F:=R) n m i j a) = pcoef n m i j (halve a).
Proof. unfold halve, pcoef. destruct (in_window n m j i); numR; lra. Qed.

Lemma unfold_data_alt d sh (x : tens R d) : wf d sh x -> pos sh ->
  unfold_data d x = tmap d halve (tadd Rplus d x (trev d x)).
Proof. intros Hw Hp. pose proof (wf_length d sh x Hw Hp) as Hl.
  rewrite (tgen_tget 0 d sh x Hw). rewrite unfold_data_tgen, trev_tgen, tadd_tgen, tmap_tgen by exact Hl. reflexivity. Qed.

Theorem proj_axis_unfold_data d ax n m sh (x : tens R d) :
  wf d sh x -> pos sh -> (ax < d)%nat -> nth ax sh 0%nat = S n -> (m <= n)%nat ->
  Rproj d ax (pcoef n m) m (unfold_data d x) = unfold_data d (Rproj d ax (pcoef n m) m x).
Proof. intros Hw Hp Hax Hn Hm.
  assert (Hw' : wf d (set_nth ax (m + 1)%nat sh) (Rproj d ax (pcoef n m) m x)) by (apply (wf_proj_axis 0 Rplus Rc R0); assumption).
  assert (Hp' : pos (set_nth ax (m + 1)%nat sh)) by (apply set_nth_pos; [lia|assumption]).
  rewrite (unfold_data_alt d sh x Hw Hp), (unfold_data_alt d _ _ Hw' Hp').
  rewrite (proj_axis_tmap 0 Rplus) by first [exact halve_additive | intros; apply halve_pcoef].
  rewrite (proj_axis_tadd 0 Rplus Rc Ra R0) by (intros; apply pcoef_additive).
  rewrite (projection_commutes_with_reversal_data d ax n m sh x) by assumption. reflexivity. Qed.

Lemma sample_sizes_wf {B} d sh (x : tens B d) : wf d sh x -> pos sh -> sample_sizes d x = map pred sh.
Proof. intros Hw Hp. unfold sample_sizes. rewrite (wf_tshape d sh x Hw Hp). reflexivity. Qed.

Lemma project_one_axis_unfold d m ax sh (x : tens R d) mk mk' :
  wf d sh x -> pos sh -> (ax < d)%nat ->
  option_map fst (project_one_axis d m ax (unfold_data d x) mk')
  = option_map (fun p => unfold_data d (fst p)) (project_one_axis d m ax x mk).
Proof. intros Hw Hp Hax. unfold project_one_axis.
  rewrite (sample_sizes_wf d sh _ (wf_unfold_data d sh x Hw Hp) Hp), (sample_sizes_wf d sh x Hw Hp).
  pose proof (wf_length d sh x Hw Hp) as Hlen.
  assert (En : nth ax (map pred sh) 0%nat = pred (nth ax sh 0%nat)) by (exact (map_nth pred sh 0%nat ax)).
  rewrite !En.
  assert (Hpos : (1 <= nth ax sh 0)%nat) by (rewrite Forall_forall in Hp; apply Hp, nth_In; lia).
  destruct (Nat.ltb_spec (pred (nth ax sh 0%nat)) m); [reflexivity|]. cbn [option_map fst]. f_equal.
  apply (proj_axis_unfold_data d ax _ m sh); auto. lia. Qed.

Lemma project_loop_unfold d : forall ns orig ax sh (x : tens R d) mk mk',
  wf d sh x -> pos sh -> (ax + length ns <= d)%nat ->
  option_map fst (project_loop d ax ns orig (unfold_data d x) mk')
  = option_map (fun p => unfold_data d (fst p)) (project_loop d ax ns orig x mk).
Proof. induction ns as [|m ns]; intros orig ax sh x mk mk' Hw Hp Hax; [reflexivity|].
  cbn [project_loop]. destruct orig as [|n orig]; [reflexivity|]. cbn [length] in Hax.
  destruct (m =? n)%nat.
  - apply (IHns orig (S ax) sh); auto. lia.
  - pose proof (project_one_axis_unfold d m ax sh x mk mk' Hw Hp ltac:(lia)) as E1.
    destruct (project_one_axis d m ax x mk) as [[x1 mk1]|] eqn:Ex;
    destruct (project_one_axis d m ax (unfold_data d x) mk') as [[x1' mk1']|] eqn:Ex'; cbn in E1; try discriminate; [|reflexivity].
    injection E1 as ->.
    destruct (project_one_axis_total d m ax sh x mk x1 mk1 Hw Hp ltac:(lia) Ex) as [_ W1].
    apply (IHns orig (S ax) (set_nth ax (m + 1)%nat sh)); auto; [|lia]. apply set_nth_pos; [lia|assumption]. Qed.

Lemma project_loop_wf d : forall ns orig ax sh (x : tens R d) mk x' mk',
  wf d sh x -> pos sh -> (ax + length ns <= d)%nat ->
  project_loop d ax ns orig x mk = Some (x', mk') -> exists sh', wf d sh' x' /\ pos sh'.
Proof. induction ns as [|m ns]; intros orig ax sh x mk x' mk' Hw Hp Hax E.
  - cbn in E. injection E as <- <-. exists sh. split; assumption.
  - cbn [project_loop] in E. destruct orig as [|n orig]; [discriminate|]. cbn [length] in Hax.
    destruct (m =? n)%nat.
    + apply (IHns orig (S ax) sh x mk x' mk'); auto. lia.
    + destruct (project_one_axis d m ax x mk) as [[x1 mk1]|] eqn:E1; [|discriminate].
      destruct (project_one_axis_total d m ax sh x mk x1 mk1 Hw Hp ltac:(lia) E1) as [_ W1].
      apply (IHns orig (S ax) (set_nth ax (m + 1)%nat sh) x1 mk1 x' mk'); auto; [|lia].
      apply set_nth_pos; [lia|assumption]. Qed.

(** ** the folded projection is consistent with the unfolded one (data)
    Spectrum.project on the folded spectrum fold(x) is defined exactly when it is on x, and its data are the fold
    of the projection of x.  (The mask arguments are arbitrary: the data never depend on them.) *)
Theorem folded_projection_consistent d ns sh (x : tens R d) mk mk' :
  wf d sh x -> pos sh ->
  option_map fst (project d ns true (fold_data d x) mk')
  = option_map (fun p => fold_data d (fst p)) (project d ns false x mk).
Proof. intros Hw Hp. unfold project.
  rewrite (sample_sizes_wf d sh _ (wf_fold_data d sh x Hw Hp) Hp), (sample_sizes_wf d sh x Hw Hp).
  destruct (Nat.eqb_spec (length ns) d) as [Hl|]; [|reflexivity]. cbn [negb].
  destruct (existsb _ _); [reflexivity|].
  rewrite (unfold_fold_data d sh x Hw Hp).
  pose proof (project_loop_unfold d ns (map pred sh) 0%nat sh x mk (unfold_mask d mk') Hw Hp ltac:(lia)) as E.
  destruct (project_loop d 0 ns (map pred sh) x mk) as [[x1 m1]|] eqn:E1;
  destruct (project_loop d 0 ns (map pred sh) (unfold_data d x) (unfold_mask d mk')) as [[x1' m1']|] eqn:E1';
    cbn in E; try discriminate; [|reflexivity].
  injection E as ->. cbn [option_map fst]. f_equal.
  destruct (project_loop_wf d ns (map pred sh) 0%nat sh x mk x1 m1 Hw Hp ltac:(lia) E1) as (sh' & W' & P').
  apply (fold_unfold_data d sh'); assumption. Qed.

(** the statement in the form "fold (project ns x) = fold (project ns (unfold (fold x)))" *)
Corollary folded_projection_consistent_eq d ns sh (x : tens R d) mk mk' x1 m1 :
  wf d sh x -> pos sh -> project d ns false x mk = Some (x1, m1) ->
  exists y my, project d ns true (fold_data d x) mk' = Some (y, my) /\ y = fold_data d x1.
Proof. intros Hw Hp E. pose proof (folded_projection_consistent d ns sh x mk mk' Hw Hp) as C. rewrite E in C.
  destruct (project d ns true (fold_data d x) mk') as [[y my]|]; [|discriminate]. cbn in C. injection C as ->.
  exists (fold_data d x1), my. split; reflexivity. Qed.
