(** Lines of a d-dimensional C-order array: [map_lines] applies a function to every line along axis k.
    Generic in the number type, the dimension, the shape and the axis. *)
From Coq Require Import List Arith Bool Lia.
From Dadi Require Import Base.Num Model.Tridiag Model.Scheme Model.NDSweep.
Import ListNotations.

Lemma flat_map_app' {A B} (g : A -> list B) l1 l2 : flat_map g (l1 ++ l2) = flat_map g l1 ++ flat_map g l2.
Proof. induction l1 as [|x l IH]; cbn; [reflexivity|]. rewrite IH, app_assoc. reflexivity. Qed.

Lemma flat_map_seq_length {A} (g : nat -> list A) m : forall n,
  (forall x, x < n -> length (g x) = m) -> length (flat_map g (seq 0 n)) = n * m.
Proof.
  induction n as [|n IH]; intros Hg; [reflexivity|].
  rewrite seq_S, flat_map_app', app_length, IH by (intros; apply Hg; lia).
  cbn [flat_map plus]. rewrite app_nil_r, Hg by lia. lia.
Qed.

Lemma nth_flat_map_seq {A} (g : nat -> list A) (d : A) m : forall n a b,
  (forall x, x < n -> length (g x) = m) -> a < n -> b < m ->
  nth (a * m + b) (flat_map g (seq 0 n)) d = nth b (g a) d.
Proof.
  induction n as [|n IH]; intros a b Hg Ha Hb; [lia|].
  rewrite seq_S, flat_map_app'. cbn [flat_map plus]. rewrite app_nil_r.
  assert (Hlen : length (flat_map g (seq 0 n)) = n * m) by (apply flat_map_seq_length; intros; apply Hg; lia).
  destruct (Nat.eq_dec a n) as [->|Hne].
  - rewrite app_nth2 by (rewrite Hlen; lia). rewrite Hlen. f_equal. lia.
  - rewrite app_nth1 by (rewrite Hlen; nia). apply IH; try lia. intros; apply Hg; lia.
Qed.

Lemma nth_map_seq_gen {A} (f : nat -> A) (d : A) : forall n s i, i < n -> nth i (map f (seq s n)) d = f (s + i).
Proof.
  induction n as [|n IH]; intros s i Hi; [lia|]. cbn [seq map]. destruct i as [|i]; cbn [nth]; [f_equal; lia|].
  rewrite IH by lia. f_equal. lia.
Qed.
Lemma nth_map_seq0 {A} (f : nat -> A) (d : A) : forall n i, i < n -> nth i (map f (seq 0 n)) d = f i.
Proof. intros n i Hi. rewrite nth_map_seq_gen by exact Hi. reflexivity. Qed.

Section Lines.
  Context {F : Type} `{Num F}.

  Definition ax_outer (shape : list nat) (k : nat) := prodn (firstn k shape).
  Definition ax_len (shape : list nat) (k : nat) := nth k shape 0.
  Definition ax_inner (shape : list nat) (k : nat) := prodn (skipn (S k) shape).

  Definition get_line (shape : list nat) (k : nat) (phi : list F) (o q : nat) : list F :=
    map (fun i => nthF phi ((o * ax_len shape k + i) * ax_inner shape k + q)) (seq 0 (ax_len shape k)).
  (** the other populations' frequencies on line (o,q) *)
  Definition line_os (shape : list nat) (grids : list (list F)) (k o q : nat) : list F :=
    coords (firstn k grids) (unflat (firstn k shape) o) ++ coords (skipn (S k) grids) (unflat (skipn (S k) shape) q).

  Lemma get_line_length shape k phi o q : length (get_line shape k phi o q) = ax_len shape k.
  Proof. unfold get_line. rewrite map_length, seq_length. reflexivity. Qed.

  Lemma map_nthF_seq (l : list F) : map (nthF l) (seq 0 (length l)) = l.
  Proof.
    apply nth_ext with (d := n0) (d' := n0); [rewrite map_length, seq_length; reflexivity|].
    intros i Hi. rewrite map_length, seq_length in Hi. rewrite nth_map_seq0 by exact Hi. reflexivity.
  Qed.

  Variable f : list F -> list F -> list F.

  Lemma map_lines_length shape grids k phi :
    length (map_lines shape grids k f phi) = ax_outer shape k * (ax_len shape k * ax_inner shape k).
  Proof.
    unfold map_lines. fold (ax_outer shape k) (ax_len shape k) (ax_inner shape k).
    apply flat_map_seq_length. intros o Ho.
    apply flat_map_seq_length. intros i Hi. rewrite map_length, seq_length. reflexivity.
  Qed.

  Lemma map_lines_nth shape grids k phi o i q :
    o < ax_outer shape k -> i < ax_len shape k -> q < ax_inner shape k ->
    nthF (map_lines shape grids k f phi) ((o * ax_len shape k + i) * ax_inner shape k + q) =
    nthF (f (line_os shape grids k o q) (get_line shape k phi o q)) i.
  Proof.
    intros Ho Hi Hq. unfold map_lines, nthF.
    fold (ax_outer shape k) (ax_len shape k) (ax_inner shape k).
    set (len := ax_len shape k) in *. set (inner := ax_inner shape k) in *. set (outer := ax_outer shape k) in *.
    replace ((o * len + i) * inner + q) with (o * (len * inner) + (i * inner + q)) by nia.
    rewrite (nth_flat_map_seq _ n0 (len * inner)); [| | exact Ho | nia].
    2:{ intros x Hx. apply flat_map_seq_length. intros y Hy. rewrite map_length, seq_length. reflexivity. }
    rewrite (nth_flat_map_seq _ n0 inner); [| | exact Hi | exact Hq].
    2:{ intros y Hy. rewrite map_length, seq_length. reflexivity. }
    rewrite nth_map_seq0 by exact Hq.
    rewrite (nth_map_seq0 _ [] outer o Ho). rewrite (nth_map_seq0 _ [] inner q Hq).
    unfold nthF, get_line, line_os. fold len inner. reflexivity.
  Qed.

  (** the line (o,q) of the result is f applied to the line (o,q) of the input *)
  Theorem get_line_map_lines shape grids k phi o q :
    length (f (line_os shape grids k o q) (get_line shape k phi o q)) = ax_len shape k ->
    o < ax_outer shape k -> q < ax_inner shape k ->
    get_line shape k (map_lines shape grids k f phi) o q = f (line_os shape grids k o q) (get_line shape k phi o q).
  Proof.
    intros Hf Ho Hq.
    rewrite <- (map_nthF_seq (f (line_os shape grids k o q) (get_line shape k phi o q))).
    rewrite Hf. unfold get_line at 1.
    apply map_ext_in. intros i Hi. apply in_seq in Hi. apply map_lines_nth; try assumption. lia.
  Qed.

  (** every index of the flat array lies on exactly one line *)
  Lemma index_decompose shape k j : j < ax_outer shape k * (ax_len shape k * ax_inner shape k) ->
    exists o i q, o < ax_outer shape k /\ i < ax_len shape k /\ q < ax_inner shape k /\
                  j = (o * ax_len shape k + i) * ax_inner shape k + q.
  Proof.
    set (len := ax_len shape k). set (inner := ax_inner shape k). set (outer := ax_outer shape k). intros Hj.
    assert (Hli : len * inner <> 0) by nia. assert (Hi : inner <> 0) by nia.
    exists (j / (len * inner)), ((j mod (len * inner)) / inner), ((j mod (len * inner)) mod inner).
    pose proof (Nat.div_mod j (len * inner) Hli) as E1.
    pose proof (Nat.div_mod (j mod (len * inner)) inner Hi) as E2.
    pose proof (Nat.mod_upper_bound j (len * inner) Hli) as B1.
    pose proof (Nat.mod_upper_bound (j mod (len * inner)) inner Hi) as B2.
    repeat split.
    - apply Nat.div_lt_upper_bound; [exact Hli|]. nia.
    - apply Nat.div_lt_upper_bound; [exact Hi|]. nia.
    - exact B2.
    - nia.
  Qed.

End Lines.

(** two line-wise maps that agree on every line of phi give the same array *)
Lemma map_lines_ext {F} `{Num F} shape grids k (f g : list F -> list F -> list F) phi :
  (forall o q, o < ax_outer shape k -> q < ax_inner shape k ->
     f (line_os shape grids k o q) (get_line shape k phi o q) = g (line_os shape grids k o q) (get_line shape k phi o q)) ->
  map_lines shape grids k f phi = map_lines shape grids k g phi.
Proof.
  intros Hfg. apply nth_ext with (d := n0) (d' := n0); [rewrite !map_lines_length; reflexivity|].
  intros j Hj. rewrite map_lines_length in Hj.
  destruct (index_decompose shape k j Hj) as (o & i & q & Ho & Hi & Hq & ->).
  pose proof (map_lines_nth f shape grids k phi o i q Ho Hi Hq) as E1.
  pose proof (map_lines_nth g shape grids k phi o i q Ho Hi Hq) as E2.
  unfold nthF in E1, E2. rewrite E1, E2, Hfg by assumption. reflexivity.
Qed.

(** the Thomas algorithm preserves the number of unknowns (no hypothesis on the pivots) *)
Section ThomasLength.
  Context {F : Type} `{Num F}.
  Lemma fwd_length : forall rows bet u c, length (fwd bet u c rows) = length rows.
  Proof. induction rows as [|[[[a b] c'] r] t IH]; intros; cbn [fwd length]; [reflexivity|]. rewrite IH. reflexivity. Qed.
  Lemma back_length : forall l, length (fst (back l)) = length l.
  Proof. induction l as [|[g u] t IH]; cbn [back]; [reflexivity|]. destruct (back t) as [xs c]. cbn [fst length] in *. rewrite IH. reflexivity. Qed.
  Lemma thomas_length (rows : list (@row F)) : length (thomas rows) = length rows.
  Proof. destruct rows as [|[[[a b] c] r] t]; [reflexivity|]. unfold thomas. rewrite back_length. cbn [length]. rewrite fwd_length. reflexivity. Qed.
  Lemma line_solve_length xs Vf Mf nu c0 c1 dt dj (phi : list F) :
    length (line_solve xs Vf Mf nu c0 c1 dt dj phi) = length xs.
  Proof. unfold line_solve. rewrite thomas_length. unfold line_rows. rewrite map_length, seq_length. reflexivity. Qed.
End ThomasLength.
