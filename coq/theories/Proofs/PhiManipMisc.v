(** Pure splits are copies; what the proportion test rejects; phi_1D_to_2D; remove_pop. *)
From Coq Require Import String.
From Coq Require Import List Arith Bool ZArith Reals Lra Lia.
From Dadi Require Import Base.Num Base.NumR Model.Tridiag Model.Scheme Model.NDSweep Model.PhiManip
  Proofs.PhiManipSums Proofs.PhiManipDeposit Proofs.PhiManipND Proofs.PhiManipTable.
Import ListNotations.
Local Open Scope R_scope.

(** ** phi_2D_to_3D_split_1 / split_2: every entry (i,j) is copied to new-axis index i (resp. j), divided by the
    trapezoid weight there; all other entries of the new axis are 0 *)
Definition copy_along (g : list R) (j : nat) (phi : list R) : list R :=
  let L := length g in
  flat_map (fun idx => map (fun k => if Nat.eqb k (nth j (unflat [L; L] idx) 0%nat) then nthF phi idx / trap_w g k else 0)
                           (seq 0 L)) (seq 0 (prodn [L; L])).

Theorem split_1_is_copy (g ps phi : list R) : (2 <= length g)%nat -> incr g ->
  run_desc (mkp "phi_2D_to_3D_split_1" 2 [PZ 1] [0; 0]%nat 0 None 0) [length g; length g] [g] ps phi = Some (copy_along g 0 phi).
Proof. intros HL Hinc. unfold run_desc. unfold_desc. cbn [rejected]. f_equal.
  apply (shared_new_pop_unit_is_copy g HL Hinc 2 0); unit_side. Qed.
Theorem split_2_is_copy (g ps phi : list R) : (2 <= length g)%nat -> incr g ->
  run_desc (mkp "phi_2D_to_3D_split_2" 2 [PZ 0] [0; 0]%nat 0 None 0) [length g; length g] [g] ps phi = Some (copy_along g 1 phi).
Proof. intros HL Hinc. unfold run_desc. unfold_desc. cbn [rejected]. f_equal.
  apply (shared_new_pop_unit_is_copy g HL Hinc 2 1); unit_side. Qed.
Lemma splits_in_table :
  In (mkp "phi_2D_to_3D_split_1" 2 [PZ 1] [0; 0]%nat 0 None 0) cons_table /\
  In (mkp "phi_2D_to_3D_split_2" 2 [PZ 0] [0; 0]%nat 0 None 0) cons_table.
Proof. cbn; auto 10. Qed.

(** ** the proportion test *)
Lemma rejected_iff (fs : list R) : (2 <= length fs)%nat -> (rejected fs = true <-> 1 < nsum fs).
Proof. intros HL. destruct fs as [|a [|b t]]; cbn [length] in HL; try lia.
  unfold rejected, nltb. rewrite lsum_nsum. numR.
  destruct (Rleb (nsum (a :: b :: t)) 1) eqn:E; cbn [negb].
  - apply Rleb_true in E. split; [discriminate | lra].
  - apply Rleb_false in E. split; auto. Qed.

Definition is_PF (a : parg) : bool := match a with PF _ => true | _ => false end.
Definition dest_last (p : pdesc) : bool := forallb is_PF (pd_args p).

(** what is rejected: the 2-D pulses reject nothing; the pulses into the LAST population reject exactly the
    proportion vectors summing above 1; every other pulse rejects exactly a NEGATIVE last proportion --
    the test is applied to the helper's arguments (one of which is 1 - sum), not to the proportions *)
Theorem rejection_characterised p : In p pulse_table -> forall ps : list R, length ps = (pd_dim p - 1)%nat ->
  (rejected (desc_args p ps) = true <->
   (3 <= pd_dim p)%nat /\ (if dest_last p then 1 < nsum ps else last ps 0 < 0)).
Proof. intros Hin ps Hlen.
  in_table Hin; cbn [pd_dim mkp Nat.sub] in Hlen; list_len ps Hlen;
  cbn [pd_dim mkp dest_last pd_args forallb is_PF andb last];
  try (cbn [desc_args pd_args mkp map rejected]; split; [discriminate | intros [H _]; lia]);
  (rewrite rejected_iff by (cbn; lia));
  cbn [desc_args pd_args mkp map eval_arg nthF nth rest_of fold_left]; unfold nsum; cbn [fold_right]; numR;
  (split; [intros H; split; [lia | lra] | intros [_ H]; lra]). Qed.

Theorem sum_above_one_rejected_refuted :
  exists p (ps : list R), In p pulse_table /\ length ps = (pd_dim p - 1)%nat /\ Forall (fun f => 0 <= f) ps /\ 1 < nsum ps /\
                          rejected (desc_args p ps) = false.
Proof. pose (p := mkp "phi_3D_admix_1_and_3_into_2" 3 [PF 0; PRest] [0; 1; 2]%nat 1 (Some 1%nat) 1).
  assert (Hin : In p pulse_table) by (cbn; auto 10).
  exists p, [3 / 4; 3 / 4].
  split; [exact Hin|]. split; [reflexivity|]. split; [repeat (apply Forall_cons; [lra|]); apply Forall_nil|].
  split; [unfold nsum; cbn [fold_right]; numR; lra|].
  destruct (rejected (desc_args p [3 / 4; 3 / 4])) eqn:E; auto. exfalso.
  apply (rejection_characterised p Hin [3 / 4; 3 / 4] eq_refl) in E. cbn in E. lra. Qed.

(** ** phi_1D_to_2D *)
Lemma phi_1D_to_2D_entry (xx phi : list R) i j : (i < length xx)%nat -> (j < length xx)%nat ->
  nthF (phi_1D_to_2D xx phi) (i * length xx + j) =
  if Nat.eqb i j && Nat.ltb 0 i && Nat.ltb i (length xx - 1) then nthF phi i * 2 / (nthF xx (i + 1) - nthF xx (i - 1)) else 0.
Proof. intros Hi Hj. unfold phi_1D_to_2D, nthF. rewrite (nth_flat_map_const _ 0 (length xx)); auto.
  - cbn [plus]. rewrite nth_map_seq by auto. cbn [plus]. unfold n2. numR. reflexivity.
  - intros k _. now rewrite map_length, seq_length. Qed.

(** integrating the new population out: interior points get the parental density back, the two boundary
    points get 0 whatever the parental density is there *)
Theorem phi_1D_to_2D_marginal (xx phi : list R) gs : (2 <= length xx)%nat -> incr xx -> nth 1 gs [] = xx ->
  marginal_out [length xx; length xx] gs 1 (phi_1D_to_2D xx phi) =
  map (fun i => if Nat.ltb 0 i && Nat.ltb i (length xx - 1) then nthF phi i else 0) (seq 0 (length xx)).
Proof. intros HL Hinc Hg. unfold marginal_out. rewrite Hg. cbn [firstn skipn nth].
  change (prodn []) with 1%nat. replace (prodn [length xx]) with (length xx) by (unfold prodn; cbn; lia).
  cbn [seq map]. rewrite (flat_map_singleton (fun o => trapz xx (map (fun i => nthF (phi_1D_to_2D xx phi) ((o * length xx + i) * 1 + 0)) (seq 0 (length xx))))).
  apply map_seq_ext. intros o Ho.
  rewrite (map_seq_ext _ (fun j => if Nat.eqb j o then (if Nat.ltb 0 o && Nat.ltb o (length xx - 1) then nthF phi o * 2 / (nthF xx (o + 1) - nthF xx (o - 1)) else 0) else 0)).
  2:{ intros j Hj. replace ((o * length xx + j) * 1 + 0)%nat with (o * length xx + j)%nat by lia.
      rewrite phi_1D_to_2D_entry by lia. rewrite (Nat.eqb_sym j o). destruct (Nat.eqb o j); reflexivity. }
  rewrite trapz_tab.
  rewrite (nsum_map_ext _ (fun j => if Nat.eqb j o then trap_w xx j * (if Nat.ltb 0 o && Nat.ltb o (length xx - 1) then nthF phi o * 2 / (nthF xx (o + 1) - nthF xx (o - 1)) else 0) else 0))
    by (intros j _; destruct (Nat.eqb j o); lra).
  rewrite (nsum_single0 (fun j => trap_w xx j * (if Nat.ltb 0 o && Nat.ltb o (length xx - 1) then nthF phi o * 2 / (nthF xx (o + 1) - nthF xx (o - 1)) else 0))) by lia.
  destruct (Nat.ltb 0 o) eqn:E1; destruct (Nat.ltb o (length xx - 1)) eqn:E2; cbn [andb]; try lra.
  apply Nat.ltb_lt in E1, E2.
  unfold trap_w, dx, x, n2. numR.
  replace (Nat.eqb o 0) with false by (symmetry; apply Nat.eqb_neq; lia).
  replace (Nat.eqb o (length xx - 1)) with false by (symmetry; apply Nat.eqb_neq; lia).
  replace (o + 1)%nat with (S o) by lia.
  assert (nthF xx (o - 1) < nthF xx o) by (apply Hinc; lia). assert (nthF xx o < nthF xx (S o)) by (apply Hinc; lia).
  replace (S (o - 1)) with o by lia.
  set (a := nthF xx (S o)) in *. set (b := nthF xx o) in *. set (c := nthF xx (o - 1)) in *. set (v := nthF phi o).
  field. lra. Qed.

(** hence the 1 -> 2 split does NOT leave the parental density unchanged when the new population is
    integrated out: its two boundary values are lost *)
Theorem phi_1D_to_2D_marginal_refuted :
  exists xx phi : list R, (2 <= length xx)%nat /\ incr xx /\ length phi = length xx /\
    marginal_out [length xx; length xx] [xx; xx] 1 (phi_1D_to_2D xx phi) <> phi.
Proof. exists [0; 1 / 2; 1], [1; 1; 1]. split; [cbn; lia|]. split.
  { intros i j [H1 H2]. cbn [length] in H2.
    destruct j as [|[|[|j]]]; try lia; destruct i as [|[|i]]; try lia; unfold nthF; cbn [nth]; numR; lra. }
  split; [reflexivity|].
  rewrite phi_1D_to_2D_marginal; [| cbn; lia | | reflexivity].
  - cbn. intros E. inversion E. lra.
  - intros i j [H1 H2]. cbn [length] in H2.
    destruct j as [|[|[|j]]]; try lia; destruct i as [|[|i]]; try lia; unfold nthF; cbn [nth]; numR; lra. Qed.

(** ** remove_pop is the trapezoid marginal (weighted-sum form) over that population *)
Theorem remove_is_marginalisation (shape : list nat) (g phi : list R) (gs : list (list R)) popnum :
  (2 <= length g)%nat -> nth (popnum - 1) gs [] = g ->
  remove_pop shape g popnum phi = (remove_nth (popnum - 1) shape, marginal_out shape gs (popnum - 1) phi).
Proof. intros HL Hg. unfold remove_pop, marginal_np, marginal_out. rewrite Hg. f_equal.
  apply flat_map_ext_in. intros o _. apply map_ext. intros q. now apply trapz_np_eq_trapz. Qed.
