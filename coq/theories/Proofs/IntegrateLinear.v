(** C03 at full strength for linearity: a whole integration (any number of populations, any number of time
    steps, frozen / nomut flags, constant or time-dependent parameters) is linear in (density, theta0). *)
From Coq Require Import Reals List Lra Lia Arith Bool.
From Dadi Require Import Base.Num Base.NumR Model.Tridiag Model.Scheme Model.NDSweep
  Proofs.TridiagProofs Proofs.SchemeProofs Proofs.Linearity Proofs.NDLines Proofs.NDSweepProofs.
Import ListNotations.
Local Open Scope R_scope.

Lemma lincomb_nil al be : lincomb al be [] [] = [].
Proof. reflexivity. Qed.
Lemma lincomb_cons al be x y (l1 l2 : list R) : lincomb al be (x :: l1) (y :: l2) = (al * x + be * y) :: lincomb al be l1 l2.
Proof. reflexivity. Qed.

Lemma add_at_lincomb al be : forall (l1 l2 : list R) i v1 v2, length l1 = length l2 ->
  add_at (lincomb al be l1 l2) i (al * v1 + be * v2) = lincomb al be (add_at l1 i v1) (add_at l2 i v2).
Proof.
  induction l1 as [|x l1 IH]; intros [|y l2] i v1 v2 Hl; try discriminate; [destruct i; reflexivity|].
  injection Hl as Hl. rewrite lincomb_cons. destruct i as [|i]; cbn [add_at]; rewrite lincomb_cons.
  - numR. f_equal. ring.
  - f_equal. apply IH. exact Hl.
Qed.
Lemma add_at_length : forall (l : list R) i v, length (add_at l i v) = length l.
Proof. induction l as [|x l IH]; intros [|i] v; cbn [add_at length]; try reflexivity. rewrite IH. reflexivity. Qed.

Lemma inject_amount_linear grids d k al be th1 th2 dt :
  inject_amount grids d k (al * th1 + be * th2) dt = al * inject_amount grids d k th1 dt + be * inject_amount grids d k th2 dt.
Proof. unfold inject_amount. numR. unfold Rdiv. ring. Qed.

Section Integrate.
  Variable shape : list nat.
  Variable grids : list (list R).
  Notation d := (length shape).
  (** well-formed set-up: one population record per axis, every axis grid has the axis length (>= 2) *)
  Definition wf_pops (pops : list (@pop R)) : Prop := length pops = d.
  Hypothesis Hgrids : forall k, (k < d)%nat -> length (nth k grids []) = ax_len shape k /\ (2 <= length (nth k grids []))%nat.

  Lemma inject_linear pops al be th1 th2 dt (p1 p2 : list R) : length p1 = length p2 ->
    inject shape grids pops (al * th1 + be * th2) dt (lincomb al be p1 p2) =
    lincomb al be (inject shape grids pops th1 dt p1) (inject shape grids pops th2 dt p2)
    /\ length (inject shape grids pops th1 dt p1) = length (inject shape grids pops th2 dt p2).
  Proof.
    unfold inject. generalize (combine (seq 0 d) pops). intros l. revert p1 p2.
    induction l as [|[k p] l IH]; intros p1 p2 Hl; cbn [fold_left]; [split; [reflexivity|exact Hl]|].
    destruct (p_frozen p || p_nomut p); [apply IH; exact Hl|].
    rewrite inject_amount_linear, add_at_lincomb by exact Hl.
    apply IH. rewrite !add_at_length. exact Hl.
  Qed.

  Lemma sweep_length pops k dt dj (phi : list R) : (k < length pops)%nat ->
    length (sweep shape grids pops k dt dj phi) = (ax_outer shape k * (ax_len shape k * ax_inner shape k))%nat.
  Proof.
    intros Hk. unfold sweep. destruct (nth_error pops k) eqn:E; [apply map_lines_length|].
    apply nth_error_None in E. lia.
  Qed.

  Lemma sweeps_linear pops al be dt dj : wf_pops pops -> forall (l : list (nat * @pop R)) (p1 p2 : list R),
    (forall k p, In (k, p) l -> (k < d)%nat) -> length p1 = length p2 ->
    fold_left (fun acc kp => let '(k, p) := kp in if p_frozen p then acc else sweep shape grids pops k dt dj acc) l (lincomb al be p1 p2) =
    lincomb al be
      (fold_left (fun acc kp => let '(k, p) := kp in if p_frozen p then acc else sweep shape grids pops k dt dj acc) l p1)
      (fold_left (fun acc kp => let '(k, p) := kp in if p_frozen p then acc else sweep shape grids pops k dt dj acc) l p2).
  Proof.
    intros Hwf. induction l as [|[k p] l IH]; intros p1 p2 Hin Hl; cbn [fold_left]; [reflexivity|].
    assert (Hk : (k < d)%nat) by (apply (Hin k p); left; reflexivity).
    destruct (p_frozen p).
    - apply IH; [intros; eapply Hin; right; eassumption | exact Hl].
    - destruct (nth_error pops k) as [pk|] eqn:E; [|apply nth_error_None in E; unfold wf_pops in Hwf; lia].
      destruct (Hgrids k Hk) as [Hg1 Hg2].
      rewrite (sweep_linear shape grids pops k pk dt dj al be p1 p2 E Hg2 Hg1 Hl).
      apply IH; [intros; eapply Hin; right; eassumption|].
      rewrite !sweep_length by (unfold wf_pops in Hwf; lia). reflexivity.
  Qed.

  Lemma step_linear pops al be th1 th2 dt dj (p1 p2 : list R) : wf_pops pops -> length p1 = length p2 ->
    step shape grids pops (al * th1 + be * th2) dt dj (lincomb al be p1 p2) =
    lincomb al be (step shape grids pops th1 dt dj p1) (step shape grids pops th2 dt dj p2).
  Proof.
    intros Hwf Hl. unfold step. destruct (inject_linear pops al be th1 th2 dt p1 p2 Hl) as [-> Hl'].
    apply sweeps_linear; [exact Hwf | | exact Hl'].
    intros k p Hin. apply in_combine_l in Hin. apply in_seq in Hin. lia.
  Qed.

  Lemma step_length_eq pops th1 th2 dt dj (p1 p2 : list R) : wf_pops pops -> length p1 = length p2 ->
    length (step shape grids pops th1 dt dj p1) = length (step shape grids pops th2 dt dj p2).
  Proof.
    intros Hwf Hl. unfold step.
    destruct (inject_linear pops 1 1 th1 th2 dt p1 p2 Hl) as [_ Hl'].
    revert Hl'. generalize (inject shape grids pops th1 dt p1) (inject shape grids pops th2 dt p2).
    assert (Hin : forall k p, In (k, p) (combine (seq 0 d) pops) -> (k < d)%nat).
    { intros k p Hin. apply in_combine_l in Hin. apply in_seq in Hin. lia. }
    revert Hin. generalize (combine (seq 0 d) pops). intros l.
    induction l as [|[k p] l IH]; intros Hin a b Hab; cbn [fold_left]; [exact Hab|].
    destruct (p_frozen p); [apply IH; [intros; eapply Hin; right; eassumption|exact Hab]|].
    apply IH; [intros; eapply Hin; right; eassumption|].
    assert (Hk : (k < d)%nat) by (apply (Hin k p); left; reflexivity).
    rewrite !sweep_length by (unfold wf_pops in Hwf; lia). reflexivity.
  Qed.

  Definition olincomb al be (a b : option (list R)) : option (list R) :=
    match a, b with Some x, Some y => Some (lincomb al be x y) | _, _ => None end.

  (** constant-parameter driver *)
  Theorem integrate_const_linear pops tf dj al be : wf_pops pops ->
    forall fuel th1 th2 t T (p1 p2 : list R), length p1 = length p2 ->
    integrate_const fuel shape grids pops (al * th1 + be * th2) tf dj t T (lincomb al be p1 p2) =
    olincomb al be (integrate_const fuel shape grids pops th1 tf dj t T p1) (integrate_const fuel shape grids pops th2 tf dj t T p2).
  Proof.
    intros Hwf. induction fuel as [|fuel IH]; intros th1 th2 t T p1 p2 Hl; cbn [integrate_const].
    - destruct (negb (nltb t T)); reflexivity.
    - destruct (negb (nltb t T)); [reflexivity|].
      rewrite step_linear by assumption. apply IH. apply step_length_eq; assumption.
  Qed.

  (** time-dependent driver: theta0(t) = al th1(t) + be th2(t), same parameter functions *)
  Theorem integrate_tdep_linear popsf tf dj al be : (forall s, wf_pops (popsf s)) ->
    forall fuel (thf1 thf2 : R -> R) t T (p1 p2 : list R), length p1 = length p2 ->
    integrate_tdep fuel shape grids popsf (fun s => al * thf1 s + be * thf2 s) tf dj t T (lincomb al be p1 p2) =
    olincomb al be (integrate_tdep fuel shape grids popsf thf1 tf dj t T p1) (integrate_tdep fuel shape grids popsf thf2 tf dj t T p2).
  Proof.
    intros Hwf. induction fuel as [|fuel IH]; intros thf1 thf2 t T p1 p2 Hl; cbn [integrate_tdep].
    - destruct (negb (nltb t T)); reflexivity.
    - destruct (negb (nltb t T)); [reflexivity|].
      rewrite step_linear by (try apply Hwf; assumption). apply IH. apply step_length_eq; [apply Hwf | assumption].
  Qed.
End Integrate.
