(** * NumDSpec: the per-operation contract of the software floating point [NumD] (Base/NumD.v).

    A value [x : D] denotes the rational [D2Q x = dm x * 2^(de x)].  This file proves, for ALL inputs
    (no normalisation precondition):
    - [D2Q_spec]            the denotation, both exponent signs;
    - [Dnorm_spec]          truncation of the mantissa toward -infinity, relative error < 2^(1-prec);
    - [Dmul/Dadd/Dsub/Ddiv] |D2Q (op x y) - (D2Q x op D2Q y)| <= 2^(1-prec) |D2Q x op D2Q y|
                            (Dopp exact; Ddiv x 0 = 0; the two far-apart shortcuts of Dadd included);
    - [DofZ/ZZ2D/Q2D]       same bound, exact when the mantissa fits / for dyadic rationals;
    - [Dcmp_spec]           comparisons are EXACT: Dcmp x y = (D2Q x ?= D2Q y);
    - [NumD_faithful]       the standard model  D2Q (op x y) == (D2Q x op D2Q y) * (1 + delta), |delta| <= 2^(1-prec).
    Everything is moved from Bignums [bigZ] to [Z] by the BigZ specifications and then to [Q]. *)
From Coq Require Import ZArith QArith Qreduction Qabs Qpower Lia Lqa.
From Bignums Require Import BigZ.
From Dadi Require Import Base.Num Base.NumQ Base.NumD.

Local Notation zz := BigZ.to_Z.
Local Open Scope Z_scope.

(** ** Powers of two in Q *)
Definition p2 (e : Z) : Q := (2 ^ e)%Q.
(** the rational denoted by mantissa m, exponent e *)
Definition V (m e : Z) : Q := (inject_Z m * p2 e)%Q.
(** unit roundoff 2^(1-prec) *)
Definition PREC : Z := 128.
Definition uD : Q := p2 (1 - PREC).

Lemma prec_val : zz prec = PREC. Proof. reflexivity. Qed.

Lemma two_neq0 : ~ (2 == 0)%Q. Proof. intro H; discriminate H. Qed.
Lemma p2_pos e : (0 < p2 e)%Q. Proof. apply Qpower_0_lt. reflexivity. Qed.
Lemma p2_neq0 e : ~ (p2 e == 0)%Q. Proof. pose proof (p2_pos e). lra. Qed.
Lemma p2_add a b : (p2 (a + b) == p2 a * p2 b)%Q. Proof. apply Qpower_plus, two_neq0. Qed.
Lemma p2_0 : (p2 0 == 1)%Q. Proof. reflexivity. Qed.
Lemma p2_opp a : (p2 (- a) == / p2 a)%Q. Proof. apply Qpower_opp. Qed.
Lemma p2_Z e : 0 <= e -> (p2 e == inject_Z (2 ^ e))%Q.
Proof. intro H. unfold p2. rewrite (Zpower_Qpower 2 e H). reflexivity. Qed.
Lemma p2_sub a b : (p2 (a - b) * p2 b == p2 a)%Q.
Proof. rewrite <- p2_add. replace (a - b + b) with a by ring. reflexivity. Qed.
Lemma p2_le a b : a <= b -> (p2 a <= p2 b)%Q.
Proof. intro H. apply Qpower_le_compat_l; [exact H | lra]. Qed.
Lemma p2_lt a b : a < b -> (p2 a < p2 b)%Q.
Proof. intro H. apply Qpower_lt_compat_l; [exact H | lra]. Qed.
Lemma p2_ge1 a : 0 <= a -> (1 <= p2 a)%Q.
Proof. intro H. rewrite <- p2_0. apply p2_le, H. Qed.

Lemma V_0 e : (V 0 e == 0)%Q. Proof. unfold V. ring. Qed.
Lemma V_shift m e k : 0 <= k -> (V (m * 2 ^ k) (e - k) == V m e)%Q.
Proof.
  intro H. unfold V. rewrite inject_Z_mult, <- (p2_Z k H), <- (p2_sub e k). ring.
Qed.
Lemma V_mul m1 e1 m2 e2 : (V (m1 * m2) (e1 + e2) == V m1 e1 * V m2 e2)%Q.
Proof. unfold V. rewrite inject_Z_mult, p2_add. ring. Qed.
Lemma V_add m1 m2 e : (V (m1 + m2) e == V m1 e + V m2 e)%Q.
Proof. unfold V. rewrite inject_Z_plus. ring. Qed.
Lemma V_opp m e : (V (- m) e == - V m e)%Q.
Proof. unfold V. rewrite inject_Z_opp. ring. Qed.
Lemma V_abs m e : (Qabs (V m e) == V (Z.abs m) e)%Q.
Proof.
  unfold V. rewrite Qabs_Qmult, (Qabs_pos (p2 e)) by (apply Qlt_le_weak, p2_pos).
  apply Qmult_comp; [| reflexivity].
  unfold inject_Z. rewrite <- Zabs_Qabs. reflexivity.
Qed.
Lemma inject_Z_lt0 m : 0 < m -> (0 < inject_Z m)%Q.
Proof. intro H. rewrite (Zlt_Qlt 0 m) in H. exact H. Qed.
Lemma V_pos m e : 0 < m -> (0 < V m e)%Q.
Proof. intro H. unfold V. apply Qmult_lt_0_compat; [apply inject_Z_lt0, H | apply p2_pos]. Qed.
Lemma V_neg m e : m < 0 -> (V m e < 0)%Q.
Proof.
  intro H. assert (H1 : (0 < V (- m) e)%Q) by (apply V_pos; lia). rewrite V_opp in H1. lra.
Qed.
Lemma V_le m1 m2 e : m1 <= m2 -> (V m1 e <= V m2 e)%Q.
Proof.
  intro H. unfold V. apply Qmult_le_compat_r; [rewrite <- Zle_Qle; exact H | apply Qlt_le_weak, p2_pos].
Qed.
Lemma V_lt m1 m2 e : m1 < m2 -> (V m1 e < V m2 e)%Q.
Proof.
  intro H. unfold V. apply Qmult_lt_compat_r; [apply p2_pos | rewrite <- Zlt_Qlt; exact H].
Qed.
Lemma V_cmp m1 m2 e : (V m1 e ?= V m2 e)%Q = (m1 ?= m2).
Proof.
  destruct (Z.compare_spec m1 m2) as [E | L | L].
  - subst. apply Qeq_alt. reflexivity.
  - apply Qlt_alt, V_lt, L.
  - apply Qgt_alt, V_lt, L.
Qed.
(** 2^k as a value *)
Lemma V_p2 k e : 0 <= k -> (V (2 ^ k) e == p2 (k + e))%Q.
Proof. intro H. unfold V. rewrite <- (p2_Z k H), p2_add. reflexivity. Qed.

(** ** 1. Denotation *)
Theorem D2Q_V : forall x : D, (D2Q x == V (zz (dm x)) (zz (de x)))%Q.
Proof.
  intro x. unfold D2Q, V. destruct (Z.leb_spec 0 (zz (de x))) as [H | H].
  - rewrite inject_Z_mult, (p2_Z _ H). reflexivity.
  - rewrite Qred_correct.
    assert (Hp : 0 < 2 ^ (- zz (de x))) by (apply Z.pow_pos_nonneg; lia).
    rewrite Qmake_Qdiv. rewrite (Z2Pos.id _ Hp).
    rewrite <- (p2_Z (- zz (de x))) by lia. rewrite p2_opp.
    field. apply p2_neq0.
Qed.

(** D2Q x = dm x * 2^(de x) as a rational, both exponent signs *)
Theorem D2Q_spec : forall x : D, (D2Q x == inject_Z (zz (dm x)) * 2 ^ (zz (de x)))%Q.
Proof. exact D2Q_V. Qed.

(** ** 2. Normalisation *)
(** the right shift applied by [Dnorm] to a mantissa m *)
Definition nshift (m : Z) : Z := Z.max 0 (Z.log2 (Z.abs m) + 1 - PREC).

Lemma nshift_nonneg m : 0 <= nshift m. Proof. unfold nshift. lia. Qed.
Lemma nshift_bound m : 0 < nshift m -> 2 ^ (nshift m + PREC - 1) <= Z.abs m.
Proof.
  unfold nshift. intro H.
  assert (Hm : 0 < Z.abs m).
  { destruct (Z.eq_dec m 0) as [-> | Hn]; [cbn in H; lia | lia]. }
  replace (Z.max 0 (Z.log2 (Z.abs m) + 1 - PREC) + PREC - 1) with (Z.log2 (Z.abs m)) by lia.
  apply Z.log2_spec, Hm.
Qed.
Lemma nshift_fits m : Z.abs m < 2 ^ PREC -> nshift m = 0.
Proof.
  intro H. unfold nshift.
  destruct (Z.eq_dec m 0) as [-> | Hn]; [reflexivity |].
  assert (Z.log2 (Z.abs m) < PREC) by (apply Z.log2_lt_pow2; lia). lia.
Qed.

Lemma biszero_spec m : biszero m = (zz m =? 0).
Proof. unfold biszero. rewrite BigZ.spec_eqb. reflexivity. Qed.
Lemma bbits_spec m : zz (bbits m) = Z.log2 (Z.abs (zz m)) + 1.
Proof. unfold bbits. rewrite BigZ.spec_add, BigZ.spec_log2, BigZ.spec_abs. reflexivity. Qed.

Lemma Dnorm_zero m e : zz m = 0 -> Dnorm m e = mkD b0 b0.
Proof. intro H. unfold Dnorm. rewrite biszero_spec, H. reflexivity. Qed.

Lemma Dnorm_Z m e : zz m <> 0 ->
  zz (dm (Dnorm m e)) = zz m / 2 ^ nshift (zz m) /\ zz (de (Dnorm m e)) = zz e + nshift (zz m).
Proof.
  intro Hm. unfold Dnorm. rewrite biszero_spec.
  destruct (Z.eqb_spec (zz m) 0) as [E | _]; [contradiction |].
  cbv zeta. rewrite BigZ.spec_ltb, bbits_spec, prec_val.
  destruct (Z.ltb_spec PREC (Z.log2 (Z.abs (zz m)) + 1)) as [L | L]; cbn [dm de].
  - rewrite BigZ.spec_shiftr, BigZ.spec_add, BigZ.spec_sub, bbits_spec, prec_val.
    assert (Hs : nshift (zz m) = Z.log2 (Z.abs (zz m)) + 1 - PREC) by (unfold nshift; lia).
    rewrite Hs. rewrite Z.shiftr_div_pow2 by lia. split; reflexivity.
  - assert (Hs : nshift (zz m) = 0) by (unfold nshift; lia).
    rewrite Hs. cbn [Z.pow]. rewrite Z.div_1_r. split; lia.
Qed.

Lemma D2Q_Dnorm m e :
  (D2Q (Dnorm m e) == V (zz m / 2 ^ nshift (zz m)) (zz e + nshift (zz m)))%Q.
Proof.
  destruct (Z.eq_dec (zz m) 0) as [E | Hn].
  - rewrite (Dnorm_zero m e E), E. cbn [nshift]. rewrite Z.div_0_l, V_0; [reflexivity |].
    apply Z.pow_nonzero; [lia | apply nshift_nonneg].
  - rewrite D2Q_V. destruct (Dnorm_Z m e Hn) as [-> ->]. reflexivity.
Qed.

(** truncation: m*2^e = floor(m/2^s)*2^(e+s) + (m mod 2^s)*2^e *)
Lemma trunc_decomp m e s : 0 <= s -> (V m e == V (m / 2 ^ s) (e + s) + V (m mod 2 ^ s) e)%Q.
Proof.
  intro Hs. rewrite <- (V_shift (m / 2 ^ s) (e + s) s Hs).
  replace (e + s - s) with e by ring. rewrite <- V_add.
  assert (E : m / 2 ^ s * 2 ^ s + m mod 2 ^ s = m).
  { rewrite Z.mul_comm. symmetry. apply Z.div_mod. apply Z.pow_nonzero; lia. }
  rewrite E. reflexivity.
Qed.

Lemma trunc_rem_nonneg m e s : 0 <= s -> (0 <= V (m mod 2 ^ s) e)%Q.
Proof.
  intro Hs. rewrite <- (V_0 e). apply V_le.
  apply Z.mod_pos_bound, Z.pow_pos_nonneg; lia.
Qed.

Lemma trunc_rem_small m e : m <> 0 ->
  (V (m mod 2 ^ nshift m) e < uD * Qabs (V m e))%Q.
Proof.
  intro Hm. rewrite V_abs.
  destruct (Z.eq_dec (nshift m) 0) as [E | Hn].
  - rewrite E. cbn [Z.pow]. rewrite Z.mod_1_r, V_0.
    apply Qmult_lt_0_compat; [apply p2_pos | apply V_pos; lia].
  - pose proof (nshift_nonneg m) as H0.
    assert (Hb : 2 ^ (nshift m + PREC - 1) <= Z.abs m) by (apply nshift_bound; lia).
    assert (H1 : (V (m mod 2 ^ nshift m) e < V (2 ^ nshift m) e)%Q).
    { apply V_lt. apply Z.mod_pos_bound, Z.pow_pos_nonneg; lia. }
    assert (H2 : (V (2 ^ (nshift m + PREC - 1)) e <= V (Z.abs m) e)%Q) by (apply V_le, Hb).
    rewrite V_p2 in H1 by lia. rewrite V_p2 in H2 by (unfold PREC; lia).
    assert (H3 : (uD * p2 (nshift m + PREC - 1 + e) == p2 (nshift m + e))%Q).
    { unfold uD. rewrite <- p2_add. replace (1 - PREC + (nshift m + PREC - 1 + e)) with (nshift m + e) by ring.
      reflexivity. }
    assert (H4 : (uD * p2 (nshift m + PREC - 1 + e) <= uD * V (Z.abs m) e)%Q).
    { apply Qmult_le_l; [apply p2_pos | exact H2]. }
    lra.
Qed.

(** [Dnorm]: the mantissa is truncated toward -infinity to [prec] bits *)
Theorem Dnorm_spec : forall m e : bigZ, zz m <> 0 ->
  (D2Q (Dnorm m e) <= V (zz m) (zz e))%Q /\
  (V (zz m) (zz e) - D2Q (Dnorm m e) < uD * Qabs (V (zz m) (zz e)))%Q.
Proof.
  intros m e Hm. rewrite D2Q_Dnorm.
  pose proof (trunc_decomp (zz m) (zz e) _ (nshift_nonneg (zz m))) as Hd.
  pose proof (trunc_rem_nonneg (zz m) (zz e) _ (nshift_nonneg (zz m))) as H0.
  pose proof (trunc_rem_small (zz m) (zz e) Hm) as H1.
  split; lra.
Qed.

Theorem Dnorm_0 : forall m e : bigZ, zz m = 0 -> (D2Q (Dnorm m e) == 0)%Q.
Proof. intros m e H. rewrite (Dnorm_zero m e H). reflexivity. Qed.

(** exact when the mantissa already fits in [prec] bits *)
Theorem Dnorm_exact : forall m e : bigZ, Z.abs (zz m) < 2 ^ PREC -> (D2Q (Dnorm m e) == V (zz m) (zz e))%Q.
Proof.
  intros m e H. rewrite D2Q_Dnorm, (nshift_fits _ H). cbn [Z.pow]. rewrite Z.div_1_r, Z.add_0_r. reflexivity.
Qed.

(** absolute form, valid for every mantissa (0 included) *)
Lemma Dnorm_err : forall m e : bigZ,
  (Qabs (D2Q (Dnorm m e) - V (zz m) (zz e)) <= uD * Qabs (V (zz m) (zz e)))%Q.
Proof.
  intros m e. destruct (Z.eq_dec (zz m) 0) as [E | Hn].
  - rewrite (Dnorm_0 m e E), E, V_0. setoid_replace (0 - 0)%Q with 0%Q by ring.
    cbn [Qabs Z.abs Qnum Qden]. lra.
  - destruct (Dnorm_spec m e Hn) as [H1 H2].
    apply Qabs_Qle_condition. split; lra.
Qed.

(** size of the result mantissa: |dm| <= 2^prec (positive mantissas: < 2^prec) *)
Lemma div_pow_bound m : Z.abs (m / 2 ^ nshift m) <= 2 ^ PREC.
Proof.
  pose proof (nshift_nonneg m) as H0.
  destruct (Z.eq_dec (nshift m) 0) as [E | Hn].
  - rewrite E. cbn [Z.pow]. rewrite Z.div_1_r.
    destruct (Z.eq_dec m 0) as [-> | Hm]; [cbn; lia |].
    unfold nshift in E.
    assert (Z.abs m < 2 ^ (Z.succ (Z.log2 (Z.abs m)))) by (apply Z.log2_spec; lia).
    assert (2 ^ (Z.succ (Z.log2 (Z.abs m))) <= 2 ^ PREC) by (apply Z.pow_le_mono_r; lia).
    lia.
  - assert (Hs : nshift m = Z.log2 (Z.abs m) + 1 - PREC) by (unfold nshift in *; lia).
    assert (Hm : 0 < Z.abs m) by (destruct (Z.eq_dec m 0) as [-> | ?]; [cbn in Hn; lia | lia]).
    assert (Hu : Z.abs m < 2 ^ (Z.succ (Z.log2 (Z.abs m)))) by (apply Z.log2_spec; lia).
    assert (Hp : 2 ^ (Z.succ (Z.log2 (Z.abs m))) = 2 ^ PREC * 2 ^ nshift m).
    { rewrite <- Z.pow_add_r by (unfold PREC; lia). f_equal. lia. }
    assert (Hq : 0 < 2 ^ nshift m) by (apply Z.pow_pos_nonneg; lia).
    assert (Hlo : - 2 ^ PREC <= m / 2 ^ nshift m) by (apply Z.div_le_lower_bound; nia).
    assert (Hhi : m / 2 ^ nshift m < 2 ^ PREC) by (apply Z.div_lt_upper_bound; nia).
    lia.
Qed.

Theorem Dnorm_mantissa_bound : forall m e : bigZ, Z.abs (zz (dm (Dnorm m e))) <= 2 ^ PREC.
Proof.
  intros m e. destruct (Z.eq_dec (zz m) 0) as [E | Hn].
  - rewrite (Dnorm_zero m e E). cbn. lia.
  - destruct (Dnorm_Z m e Hn) as [-> _]. apply div_pow_bound.
Qed.

Theorem Dnorm_mantissa_bound_pos : forall m e : bigZ, 0 <= zz m -> 0 <= zz (dm (Dnorm m e)) < 2 ^ PREC.
Proof.
  intros m e Hp. destruct (Z.eq_dec (zz m) 0) as [E | Hn].
  - rewrite (Dnorm_zero m e E). cbn. lia.
  - destruct (Dnorm_Z m e Hn) as [-> _].
    pose proof (nshift_nonneg (zz m)) as H0.
    assert (Hq : 0 < 2 ^ nshift (zz m)) by (apply Z.pow_pos_nonneg; lia).
    split; [apply Z.div_pos; lia |].
    pose proof (div_pow_bound (zz m)) as Hb.
    destruct (Z.eq_dec (zz m / 2 ^ nshift (zz m)) (2 ^ PREC)) as [E | ?];
      [| assert (0 <= zz m / 2 ^ nshift (zz m)) by (apply Z.div_pos; lia); lia].
    exfalso.
    (* m / 2^s = 2^PREC would give |m| >= 2^(PREC+s), i.e. log2 m >= PREC + s *)
    assert (Hge : 2 ^ PREC * 2 ^ nshift (zz m) <= zz m).
    { rewrite <- E. rewrite Z.mul_comm. apply Z.mul_div_le, Hq. }
    rewrite <- Z.pow_add_r in Hge by (unfold PREC; lia).
    assert (Hl : PREC + nshift (zz m) <= Z.log2 (zz m)) by (apply Z.log2_le_pow2; lia).
    unfold nshift in *. rewrite (Z.abs_eq (zz m)) in * by lia. lia.
Qed.

(** "at most prec bits" fails for negative mantissas: truncation toward -infinity of -(2^129-1) is -2^128 *)
Theorem Dnorm_bits_refuted : exists m e : bigZ, zz (bbits (dm (Dnorm m e))) = PREC + 1.
Proof. exists (BigZ.of_Z (- (2 ^ 129 - 1))), b0. vm_compute. reflexivity. Qed.

(** ** 3. Arithmetic *)
Lemma uD_pos : (0 < uD)%Q. Proof. apply p2_pos. Qed.
Lemma uD_le1 : (uD <= 1)%Q. Proof. rewrite <- p2_0. apply p2_le. unfold PREC. lia. Qed.
Lemma uD_p2 a : (uD * p2 a == p2 (a + 1 - PREC))%Q.
Proof. unfold uD. rewrite <- p2_add. replace (1 - PREC + a) with (a + 1 - PREC) by ring. reflexivity. Qed.

Lemma err_exact a : (Qabs (a - a) <= uD * Qabs a)%Q.
Proof.
  setoid_replace (a - a)%Q with 0%Q by ring. cbn [Qabs Z.abs Qnum Qden].
  apply Qmult_le_0_compat; [apply Qlt_le_weak, uD_pos | apply Qabs_nonneg].
Qed.

(** binary magnitude of a nonzero value *)
Lemma V_mag m e : m <> 0 ->
  (p2 (Z.log2 (Z.abs m) + e) <= Qabs (V m e))%Q /\ (Qabs (V m e) < p2 (Z.log2 (Z.abs m) + 1 + e))%Q.
Proof.
  intro Hm. rewrite V_abs.
  assert (Hp : 0 < Z.abs m) by lia.
  destruct (Z.log2_spec _ Hp) as [H1 H2].
  pose proof (Z.log2_nonneg (Z.abs m)) as Hl.
  split.
  - rewrite <- V_p2 by lia. apply V_le, H1.
  - rewrite <- V_p2 by lia. apply V_lt. replace (Z.log2 (Z.abs m) + 1) with (Z.succ (Z.log2 (Z.abs m))) by lia.
    exact H2.
Qed.

Theorem Dopp_spec : forall x : D, (D2Q (Dopp x) == - D2Q x)%Q.
Proof.
  intro x. rewrite !D2Q_V. unfold Dopp. cbn [dm de]. rewrite BigZ.spec_opp. apply V_opp.
Qed.

Theorem Dmul_spec : forall x y : D,
  (Qabs (D2Q (Dmul x y) - D2Q x * D2Q y) <= uD * Qabs (D2Q x * D2Q y))%Q.
Proof.
  intros x y. unfold Dmul. rewrite (D2Q_V x), (D2Q_V y), <- V_mul.
  rewrite <- BigZ.spec_mul, <- BigZ.spec_add. apply Dnorm_err.
Qed.

(** one-sided: the computed product never exceeds the exact one *)
Theorem Dmul_le : forall x y : D, (D2Q (Dmul x y) <= D2Q x * D2Q y)%Q.
Proof.
  intros x y. unfold Dmul. rewrite (D2Q_V x), (D2Q_V y), <- V_mul.
  rewrite <- BigZ.spec_mul, <- BigZ.spec_add.
  destruct (Z.eq_dec (zz (dm x * dm y)%bigZ) 0) as [E | Hn].
  - rewrite (Dnorm_0 _ _ E), E, V_0. lra.
  - apply (Dnorm_spec _ _ Hn).
Qed.

(** the far-apart shortcut: dropping an addend more than 2*prec+4 binary orders below the other *)
Lemma far_apart (X Y : Q) (a b : Z) :
  (p2 a <= Qabs X)%Q -> (Qabs Y < p2 b)%Q -> b + 2 * PREC + 4 <= a ->
  (Qabs (X - (X + Y)) <= uD * Qabs (X + Y))%Q.
Proof.
  intros HX HY Hab.
  setoid_replace (X - (X + Y))%Q with (- Y)%Q by ring. rewrite Qabs_opp.
  assert (HS : (Qabs X - Qabs Y <= Qabs (X + Y))%Q).
  { pose proof (Qabs_triangle (X + Y) (- Y)) as Ht. rewrite Qabs_opp in Ht.
    setoid_replace (X + Y + - Y)%Q with X in Ht by ring. lra. }
  assert (H1 : (uD * (Qabs X - Qabs Y) <= uD * Qabs (X + Y))%Q)
    by (apply Qmult_le_l; [apply uD_pos | exact HS]).
  assert (H2 : (uD * p2 a <= uD * Qabs X)%Q) by (apply Qmult_le_l; [apply uD_pos | exact HX]).
  rewrite uD_p2 in H2.
  assert (H3 : (p2 (b + 1) <= p2 (a + 1 - PREC))%Q) by (apply p2_le; unfold PREC in *; lia).
  rewrite p2_add in H3. change (p2 1) with 2%Q in H3.
  assert (H4 : (uD * Qabs Y <= 1 * Qabs Y)%Q)
    by (apply Qmult_le_compat_r; [apply uD_le1 | apply Qabs_nonneg]).
  lra.
Qed.

Lemma bmin_spec a b : zz (bmin a b) = Z.min (zz a) (zz b).
Proof. unfold bmin. rewrite BigZ.spec_leb. destruct (Z.leb_spec (zz a) (zz b)); lia. Qed.

Lemma aligned_sum mx ex my ey e : e <= ex -> e <= ey ->
  (V (Z.shiftl mx (ex - e) + Z.shiftl my (ey - e)) e == V mx ex + V my ey)%Q.
Proof.
  intros H1 H2. rewrite !Z.shiftl_mul_pow2 by lia. rewrite V_add.
  rewrite <- (V_shift mx ex (ex - e)) by lia. rewrite <- (V_shift my ey (ey - e)) by lia.
  replace (ex - (ex - e)) with e by ring. replace (ey - (ey - e)) with e by ring. reflexivity.
Qed.

Theorem Dadd_spec : forall x y : D,
  (Qabs (D2Q (Dadd x y) - (D2Q x + D2Q y)) <= uD * Qabs (D2Q x + D2Q y))%Q.
Proof.
  intros x y. unfold Dadd. rewrite !biszero_spec.
  destruct (Z.eqb_spec (zz (dm x)) 0) as [Ex | Hx].
  { assert (E : (D2Q x == 0)%Q) by (rewrite D2Q_V, Ex; apply V_0).
    rewrite E. setoid_replace (0 + D2Q y)%Q with (D2Q y) by ring. apply err_exact. }
  destruct (Z.eqb_spec (zz (dm y)) 0) as [Ey | Hy].
  { assert (E : (D2Q y == 0)%Q) by (rewrite D2Q_V, Ey; apply V_0).
    rewrite E. setoid_replace (D2Q x + 0)%Q with (D2Q x) by ring. apply err_exact. }
  cbv zeta. rewrite !BigZ.spec_ltb, !BigZ.spec_sub, !BigZ.spec_add, !BigZ.spec_mul, !bbits_spec, prec_val.
  change (zz b2) with 2. change (zz b4) with 4.
  destruct (V_mag _ (zz (de x)) Hx) as [Hx1 Hx2]. destruct (V_mag _ (zz (de y)) Hy) as [Hy1 Hy2].
  destruct (Z.ltb_spec (2 * PREC + 4)
              (Z.log2 (Z.abs (zz (dm x))) + 1 + zz (de x) - (Z.log2 (Z.abs (zz (dm y))) + 1 + zz (de y)))) as [L1 | L1].
  { rewrite (D2Q_V x), (D2Q_V y). eapply far_apart; [exact Hx1 | exact Hy2 | lia]. }
  destruct (Z.ltb_spec (2 * PREC + 4)
              (Z.log2 (Z.abs (zz (dm y))) + 1 + zz (de y) - (Z.log2 (Z.abs (zz (dm x))) + 1 + zz (de x)))) as [L2 | L2].
  { rewrite (D2Q_V x), (D2Q_V y).
    setoid_replace (V (zz (dm x)) (zz (de x)) + V (zz (dm y)) (zz (de y)))%Q
      with (V (zz (dm y)) (zz (de y)) + V (zz (dm x)) (zz (de x)))%Q by ring.
    eapply far_apart; [exact Hy1 | exact Hx2 | lia]. }
  rewrite (D2Q_V x), (D2Q_V y).
  rewrite <- (aligned_sum _ _ _ _ (zz (bmin (de x) (de y)))) by (rewrite bmin_spec; lia).
  rewrite <- !BigZ.spec_sub, <- !BigZ.spec_shiftl, <- BigZ.spec_add.
  apply Dnorm_err.
Qed.

Theorem Dsub_spec : forall x y : D,
  (Qabs (D2Q (Dsub x y) - (D2Q x - D2Q y)) <= uD * Qabs (D2Q x - D2Q y))%Q.
Proof.
  intros x y. unfold Dsub. pose proof (Dadd_spec x (Dopp y)) as H. rewrite Dopp_spec in H.
  exact H.
Qed.

(** a truncated integer quotient followed by [Dnorm]: value floor(floor(N/M)/2^s) 2^(E+s) against (N/M) 2^E *)
Lemma inject_Z_neq0 m : m <> 0 -> ~ (inject_Z m == 0)%Q.
Proof. intros Hm H. apply Hm. apply (proj1 (inject_Z_injective m 0)). exact H. Qed.

Lemma floor_frac N M : M <> 0 ->
  exists f : Q, (inject_Z N / inject_Z M == inject_Z (N / M) + f)%Q /\ (0 <= f)%Q /\ (f < 1)%Q /\
                (N = 0 -> (f == 0)%Q).
Proof.
  intro HM.
  assert (HMq : ~ (inject_Z M == 0)%Q) by (apply inject_Z_neq0, HM).
  exists (inject_Z (N mod M) / inject_Z M)%Q.
  pose proof (Z.div_mod N M HM) as Hd.
  split; [| split; [| split]].
  - rewrite Hd at 1. rewrite inject_Z_plus, inject_Z_mult. field. exact HMq.
  - destruct (Z_lt_le_dec 0 M) as [Hp | Hp].
    + apply Qle_shift_div_l; [apply inject_Z_lt0, Hp |]. rewrite Qmult_0_l.
      change 0%Q with (inject_Z 0). rewrite <- Zle_Qle. apply Z.mod_pos_bound, Hp.
    + setoid_replace (inject_Z (N mod M) / inject_Z M)%Q with (inject_Z (- (N mod M)) / inject_Z (- M))%Q
        by (rewrite !inject_Z_opp; field; exact HMq).
      apply Qle_shift_div_l; [apply inject_Z_lt0; lia |]. rewrite Qmult_0_l.
      change 0%Q with (inject_Z 0). rewrite <- Zle_Qle.
      assert (M < N mod M <= 0) by (apply Z.mod_neg_bound; lia). lia.
  - destruct (Z_lt_le_dec 0 M) as [Hp | Hp].
    + apply Qlt_shift_div_r; [apply inject_Z_lt0, Hp |]. rewrite Qmult_1_l.
      rewrite <- Zlt_Qlt. apply Z.mod_pos_bound, Hp.
    + setoid_replace (inject_Z (N mod M) / inject_Z M)%Q with (inject_Z (- (N mod M)) / inject_Z (- M))%Q
        by (rewrite !inject_Z_opp; field; exact HMq).
      apply Qlt_shift_div_r; [apply inject_Z_lt0; lia |]. rewrite Qmult_1_l.
      rewrite <- Zlt_Qlt.
      assert (M < N mod M <= 0) by (apply Z.mod_neg_bound; lia). lia.
  - intros ->. rewrite Z.mod_0_l by exact HM. unfold Qdiv. ring.
Qed.

Lemma inject_Z_abs m : (inject_Z (Z.abs m) == Qabs (inject_Z m))%Q.
Proof. unfold inject_Z. apply Zabs_Qabs. Qed.

Lemma Qabs_div_Z N M : M <> 0 -> (Qabs (inject_Z N / inject_Z M) == inject_Z (Z.abs N) / inject_Z (Z.abs M))%Q.
Proof.
  intro HM. unfold Qdiv. rewrite Qabs_Qmult, Qabs_Qinv, !inject_Z_abs. reflexivity.
Qed.

Lemma abs_mul_mod q k s : s <> 0 -> Z.abs q = k * s -> q mod s = 0.
Proof.
  intros Hs Ha. destruct (Z.abs_spec q) as [[_ E] | [_ E]].
  - rewrite E in Ha. rewrite Ha. apply Z.mod_mul, Hs.
  - replace q with (- k * s) by lia. apply Z.mod_mul, Hs.
Qed.

Lemma floor_norm N M E : M <> 0 -> (N = 0 \/ 2 ^ (PREC - 1) * Z.abs M <= Z.abs N) ->
  let q := N / M in
  let T := (inject_Z N / inject_Z M * p2 E)%Q in
  let R := V (q / 2 ^ nshift q) (E + nshift q) in
  (R <= T)%Q /\ (T - R <= uD * Qabs T)%Q.
Proof.
  intros HM Hbig q T R.
  destruct (floor_frac N M HM) as (f & Ht & Hf0 & Hf1 & HfN).
  fold q in Ht.
  set (t := (inject_Z N / inject_Z M)%Q) in *.
  pose proof (nshift_nonneg q) as Hns.
  pose proof (trunc_decomp q E _ Hns) as Hdec. fold R in Hdec.
  set (g := q mod 2 ^ nshift q) in *.
  assert (Hg0 : 0 <= g < 2 ^ nshift q) by (apply Z.mod_pos_bound, Z.pow_pos_nonneg; lia).
  assert (HTR : (T - R == (f + inject_Z g) * p2 E)%Q).
  { unfold T, R. rewrite Ht. unfold R, V in Hdec. unfold V. lra. }
  assert (Hg0q : (0 <= inject_Z g)%Q) by (change 0%Q with (inject_Z 0); rewrite <- Zle_Qle; lia).
  pose proof (p2_pos E) as HpE.
  assert (Hkey : (f + inject_Z g <= uD * Qabs t)%Q).
  { destruct Hbig as [HN | Hbig].
    { assert (Hq : q = 0) by (unfold q; rewrite HN; apply Z.div_0_l, HM).
      assert (Hg : g = 0) by (unfold g; rewrite Hq; apply Z.mod_0_l, Z.pow_nonzero; [lia | apply nshift_nonneg]).
      rewrite Hg, (HfN HN).
      assert (0 <= uD * Qabs t)%Q by (apply Qmult_le_0_compat; [apply Qlt_le_weak, uD_pos | apply Qabs_nonneg]).
      change (inject_Z 0) with 0%Q. lra. }
    assert (Hta : (p2 (PREC - 1) <= Qabs t)%Q).
    { unfold t. rewrite (Qabs_div_Z N M HM).
      apply Qle_shift_div_l; [apply inject_Z_lt0; lia |].
      rewrite p2_Z by (unfold PREC; lia). rewrite <- inject_Z_mult, <- Zle_Qle. exact Hbig. }
    assert (Hu1 : (1 <= uD * Qabs t)%Q).
    { assert (H : (uD * p2 (PREC - 1) <= uD * Qabs t)%Q) by (apply Qmult_le_l; [apply uD_pos | exact Hta]).
      rewrite uD_p2 in H. replace (PREC - 1 + 1 - PREC) with 0 in H by ring. rewrite p2_0 in H. exact H. }
    destruct (Z.eq_dec (nshift q) 0) as [E0 | Hn0].
    { assert (Hg : g = 0) by (unfold g; rewrite E0; apply Z.mod_1_r).
      rewrite Hg. change (inject_Z 0) with 0%Q. lra. }
    assert (Hb : 2 ^ (nshift q + PREC - 1) <= Z.abs q) by (apply nshift_bound; lia).
    destruct (Z.eq_dec (Z.abs q) (2 ^ (nshift q + PREC - 1))) as [Eq | Hneq].
    { assert (Hg : g = 0).
      { unfold g.
        assert (Hpow : 2 ^ (nshift q + PREC - 1) = 2 ^ (PREC - 1) * 2 ^ nshift q).
        { rewrite <- Z.pow_add_r by (unfold PREC; lia). f_equal. ring. }
        assert (Hnz : 2 ^ nshift q <> 0) by (apply Z.pow_nonzero; lia).
        apply (abs_mul_mod q (2 ^ (PREC - 1)) _ Hnz). rewrite Eq. exact Hpow. }
      rewrite Hg. change (inject_Z 0) with 0%Q. lra. }
    assert (Hb2 : 2 ^ (nshift q + PREC - 1) + 1 <= Z.abs q) by lia.
    assert (Hb2q : (p2 (nshift q + PREC - 1) + 1 <= Qabs (inject_Z q))%Q).
    { rewrite <- inject_Z_abs. rewrite p2_Z by (unfold PREC; lia).
      change 1%Q with (inject_Z 1). rewrite <- inject_Z_plus, <- Zle_Qle. exact Hb2. }
    assert (Htq : (Qabs (inject_Z q) - f <= Qabs t)%Q).
    { pose proof (Qabs_triangle t (- f)) as Htr. rewrite Qabs_opp, (Qabs_pos f Hf0) in Htr.
      setoid_replace (t + - f)%Q with (inject_Z q) in Htr by (rewrite Ht; ring). lra. }
    assert (Hu2 : (uD * p2 (nshift q + PREC - 1) <= uD * Qabs t)%Q)
      by (apply Qmult_le_l; [apply uD_pos | lra]).
    rewrite uD_p2 in Hu2. replace (nshift q + PREC - 1 + 1 - PREC) with (nshift q) in Hu2 by ring.
    assert (Hgq : (inject_Z g + 1 <= p2 (nshift q))%Q).
    { rewrite p2_Z by lia. change 1%Q with (inject_Z 1). rewrite <- inject_Z_plus, <- Zle_Qle. lia. }
    lra. }
  split.
  - assert (H : (0 <= (f + inject_Z g) * p2 E)%Q) by (apply Qmult_le_0_compat; lra). lra.
  - rewrite HTR. unfold T. rewrite Qabs_Qmult, (Qabs_pos (p2 E)) by lra.
    rewrite Qmult_assoc. apply Qmult_le_compat_r; [exact Hkey | lra].
Qed.

Theorem Ddiv_by_zero : forall x y : D, zz (dm y) = 0 -> Ddiv x y = mkD b0 b0.
Proof. intros x y H. unfold Ddiv. rewrite biszero_spec, H. reflexivity. Qed.

Lemma D2Q_zero_iff x : (D2Q x == 0)%Q <-> zz (dm x) = 0.
Proof.
  rewrite D2Q_V. split.
  - intro H. destruct (Z.lt_trichotomy (zz (dm x)) 0) as [L | [E | L]]; [| exact E |].
    + pose proof (V_neg _ (zz (de x)) L). lra.
    + pose proof (V_pos _ (zz (de x)) L). lra.
  - intros ->. apply V_0.
Qed.

Theorem Ddiv_spec : forall x y : D, ~ (D2Q y == 0)%Q ->
  (Qabs (D2Q (Ddiv x y) - D2Q x / D2Q y) <= uD * Qabs (D2Q x / D2Q y))%Q /\
  (D2Q (Ddiv x y) <= D2Q x / D2Q y)%Q.
Proof.
  intros x y Hy0. rewrite D2Q_zero_iff in Hy0.
  unfold Ddiv. rewrite biszero_spec. destruct (Z.eqb_spec (zz (dm y)) 0) as [E | _]; [contradiction |].
  cbv zeta. rewrite D2Q_Dnorm.
  rewrite BigZ.spec_div, BigZ.spec_shiftl, !BigZ.spec_sub, !BigZ.spec_add, bbits_spec, prec_val.
  change (zz b2) with 2.
  set (mx := zz (dm x)) in *. set (my := zz (dm y)) in *. set (ex := zz (de x)). set (ey := zz (de y)).
  set (s := PREC + (Z.log2 (Z.abs my) + 1) + 2).
  pose proof (Z.log2_nonneg (Z.abs my)) as Hl.
  assert (Hs : 0 <= s) by (unfold s, PREC; lia).
  rewrite Z.shiftl_mul_pow2 by exact Hs.
  assert (Hbig : mx * 2 ^ s = 0 \/ 2 ^ (PREC - 1) * Z.abs my <= Z.abs (mx * 2 ^ s)).
  { destruct (Z.eq_dec mx 0) as [-> | Hmx]; [left; reflexivity | right].
    assert (Hmy : Z.abs my < 2 ^ Z.succ (Z.log2 (Z.abs my))) by (apply Z.log2_spec; lia).
    assert (Hp : 2 ^ s = 2 ^ (PREC - 1) * 2 ^ Z.succ (Z.log2 (Z.abs my)) * 2 ^ 3).
    { rewrite <- !Z.pow_add_r by (unfold PREC; lia). f_equal. unfold s. lia. }
    assert (H0 : 0 < 2 ^ (PREC - 1)) by (apply Z.pow_pos_nonneg; unfold PREC; lia).
    rewrite Z.abs_mul, (Z.abs_eq (2 ^ s)) by (apply Z.pow_nonneg; lia).
    rewrite Hp. nia. }
  destruct (floor_norm (mx * 2 ^ s) my (ex - ey - s) Hy0 Hbig) as [Hle Herr].
  cbv zeta in Hle, Herr.
  assert (HT : (D2Q x / D2Q y == inject_Z (mx * 2 ^ s) / inject_Z my * p2 (ex - ey - s))%Q).
  { rewrite (D2Q_V x), (D2Q_V y). fold mx my ex ey. unfold V.
    rewrite inject_Z_mult, <- (p2_Z s Hs).
    assert (Ha : (p2 (ex - ey - s) * p2 s * p2 ey == p2 ex)%Q).
    { rewrite <- !p2_add. replace (ex - ey - s + s + ey) with ex by ring. reflexivity. }
    rewrite <- Ha. field. repeat split; first [apply p2_neq0 | apply inject_Z_neq0, Hy0]. }
  rewrite HT. split; [| exact Hle].
  apply Qabs_Qle_condition. split; lra.
Qed.

Theorem Ddiv_zero_spec : forall x y : D, (D2Q y == 0)%Q -> (D2Q (Ddiv x y) == 0)%Q.
Proof. intros x y H. rewrite D2Q_zero_iff in H. rewrite (Ddiv_by_zero x y H). reflexivity. Qed.

(** ** Conversions into D *)
Lemma V_e0 m : (V m 0 == inject_Z m)%Q. Proof. unfold V. rewrite p2_0. ring. Qed.

Theorem DofZ_spec : forall z : Z, (Qabs (D2Q (DofZ z) - inject_Z z) <= uD * Qabs (inject_Z z))%Q.
Proof.
  intro z. unfold DofZ. pose proof (Dnorm_err (BigZ.of_Z z) b0) as H.
  rewrite BigZ.spec_of_Z in H. change (zz b0) with 0 in H. rewrite V_e0 in H. exact H.
Qed.
Theorem DofZ_exact : forall z : Z, Z.abs z < 2 ^ PREC -> (D2Q (DofZ z) == inject_Z z)%Q.
Proof.
  intros z H. unfold DofZ. rewrite Dnorm_exact by (rewrite BigZ.spec_of_Z; exact H).
  rewrite BigZ.spec_of_Z. apply V_e0.
Qed.

(** (mantissa, binary exponent) pairs: exact whenever the mantissa has at most 128 bits (float64: 53) *)
Theorem ZZ2D_spec : forall m e : Z,
  (Qabs (D2Q (ZZ2D (m, e)) - inject_Z m * 2 ^ e) <= uD * Qabs (inject_Z m * 2 ^ e))%Q.
Proof.
  intros m e. unfold ZZ2D. cbn [fst snd]. pose proof (Dnorm_err (BigZ.of_Z m) (BigZ.of_Z e)) as H.
  rewrite !BigZ.spec_of_Z in H. exact H.
Qed.
Theorem ZZ2D_exact : forall m e : Z, Z.abs m < 2 ^ PREC -> (D2Q (ZZ2D (m, e)) == inject_Z m * 2 ^ e)%Q.
Proof.
  intros m e H. unfold ZZ2D. cbn [fst snd]. rewrite Dnorm_exact by (rewrite BigZ.spec_of_Z; exact H).
  rewrite !BigZ.spec_of_Z. reflexivity.
Qed.

Lemma Q_as_div x : (x == inject_Z (Qnum x) / inject_Z (Zpos (Qden x)))%Q.
Proof. destruct x as [n d]. cbn [Qnum Qden]. apply Qmake_Qdiv. Qed.

Lemma dyadic_value x k : 0 <= k -> Zpos (Qden x) = 2 ^ k -> (V (Qnum x) (- k) == x)%Q.
Proof.
  intros Hk Hd. rewrite (Q_as_div x) at 2. rewrite Hd. unfold V. rewrite p2_opp, (p2_Z k Hk). reflexivity.
Qed.

Theorem Q2D_spec : forall x : Q, (Qabs (D2Q (Q2D x) - x) <= uD * Qabs x)%Q.
Proof.
  intro x. unfold Q2D. cbv zeta.
  pose proof (Z.log2_nonneg (Zpos (Qden x))) as Hk.
  set (k := Z.log2 (Zpos (Qden x))) in *.
  destruct (Z.eqb_spec (Zpos (Qden x)) (2 ^ k)) as [Ed | Nd].
  - pose proof (Dnorm_err (BigZ.of_Z (Qnum x)) (BigZ.of_Z (- k))) as H.
    rewrite !BigZ.spec_of_Z in H. rewrite (dyadic_value x k Hk Ed) in H. exact H.
  - rewrite D2Q_Dnorm, !BigZ.spec_of_Z, prec_val.
    set (s := PREC + k + 2).
    assert (Hs : 0 <= s) by (unfold s, PREC; lia).
    rewrite Z.shiftl_mul_pow2 by exact Hs.
    set (n := Qnum x). set (d := Zpos (Qden x)) in *.
    assert (Hd0 : d <> 0) by (unfold d; lia).
    assert (Hbig : n * 2 ^ s = 0 \/ 2 ^ (PREC - 1) * Z.abs d <= Z.abs (n * 2 ^ s)).
    { destruct (Z.eq_dec n 0) as [-> | Hn]; [left; reflexivity | right].
      assert (Hdu : d < 2 ^ Z.succ k) by (apply Z.log2_spec; unfold d; lia).
      assert (Hp : 2 ^ s = 2 ^ (PREC - 1) * 2 ^ Z.succ k * 2 ^ 2).
      { rewrite <- !Z.pow_add_r by (unfold PREC; lia). f_equal. unfold s. lia. }
      assert (H0 : 0 < 2 ^ (PREC - 1)) by (apply Z.pow_pos_nonneg; unfold PREC; lia).
      rewrite Z.abs_mul, (Z.abs_eq (2 ^ s)) by (apply Z.pow_nonneg; lia).
      rewrite Hp. unfold d in *. nia. }
    destruct (floor_norm (n * 2 ^ s) d (- s) Hd0 Hbig) as [Hle Herr]. cbv zeta in Hle, Herr.
    assert (HT : (x == inject_Z (n * 2 ^ s) / inject_Z d * p2 (- s))%Q).
    { rewrite (Q_as_div x) at 1. fold n d. rewrite inject_Z_mult, <- (p2_Z s Hs), p2_opp.
      field. split; [apply p2_neq0 | apply inject_Z_neq0, Hd0]. }
    rewrite <- HT in Hle, Herr. apply Qabs_Qle_condition. split; lra.
Qed.

(** exact for dyadic rationals whose numerator fits *)
Theorem Q2D_exact : forall (x : Q) (k : Z), 0 <= k -> Zpos (Qden x) = 2 ^ k -> Z.abs (Qnum x) < 2 ^ PREC ->
  (D2Q (Q2D x) == x)%Q.
Proof.
  intros x k Hk Hd Hn. unfold Q2D. cbv zeta. rewrite Hd, (Z.log2_pow2 k Hk), Z.eqb_refl.
  rewrite Dnorm_exact by (rewrite BigZ.spec_of_Z; exact Hn).
  rewrite !BigZ.spec_of_Z. apply (dyadic_value x k Hk Hd).
Qed.

(** ** 4. Comparisons are exact *)
Lemma Qcmp_lt a b : (a < b)%Q -> (a ?= b)%Q = Lt. Proof. apply Qlt_alt. Qed.
Lemma Qcmp_gt a b : (b < a)%Q -> (a ?= b)%Q = Gt. Proof. apply Qgt_alt. Qed.

Theorem Dcmp_spec : forall x y : D, Dcmp x y = (D2Q x ?= D2Q y)%Q.
Proof.
  intros x y. rewrite (D2Q_V x), (D2Q_V y). unfold Dcmp, bsgn. rewrite !biszero_spec, !BigZ.spec_compare.
  change (zz b0) with 0.
  set (mx := zz (dm x)). set (my := zz (dm y)). set (ex := zz (de x)). set (ey := zz (de y)).
  destruct (Z.eqb_spec mx 0) as [Ex | Hx].
  { rewrite Ex, (V_0 ex), <- (V_0 ey). symmetry. apply V_cmp. }
  destruct (Z.eqb_spec my 0) as [Ey | Hy].
  { rewrite Ey, (V_0 ey), <- (V_0 ex). symmetry. apply V_cmp. }
  cbv zeta. rewrite !BigZ.spec_ltb, !BigZ.spec_add, !bbits_spec. change (zz b1) with 1. fold mx my ex ey.
  destruct (V_mag mx ex Hx) as [Hx1 Hx2]. destruct (V_mag my ey Hy) as [Hy1 Hy2].
  set (lx := Z.log2 (Z.abs mx)) in *. set (ly := Z.log2 (Z.abs my)) in *.
  assert (Hfinal : (Z.shiftl mx (ex - Z.min ex ey) ?= Z.shiftl my (ey - Z.min ex ey)) = (V mx ex ?= V my ey)%Q).
  { rewrite !Z.shiftl_mul_pow2 by lia.
    rewrite <- (V_shift mx ex (ex - Z.min ex ey)) by lia. rewrite <- (V_shift my ey (ey - Z.min ex ey)) by lia.
    replace (ex - (ex - Z.min ex ey)) with (Z.min ex ey) by ring.
    replace (ey - (ey - Z.min ex ey)) with (Z.min ex ey) by ring.
    symmetry. apply V_cmp. }
  assert (Hbig : forall a b, b + 1 < a -> (p2 b <= p2 (a - 1))%Q) by (intros a b H; apply p2_le; lia).
  destruct (Z.compare_spec mx 0) as [E | Lx | Lx]; [contradiction | |];
  destruct (Z.compare_spec my 0) as [E | Ly | Ly]; try contradiction.
  - (* both negative *)
    pose proof (V_neg mx ex Lx) as Nx. pose proof (V_neg my ey Ly) as Ny.
    rewrite (Qabs_neg (V mx ex)) in Hx1, Hx2 by lra. rewrite (Qabs_neg (V my ey)) in Hy1, Hy2 by lra.
    destruct (Z.ltb_spec (ly + 1 + ey + 1) (lx + 1 + ex)) as [L1 | L1].
    { symmetry. apply Qcmp_lt. pose proof (Hbig (lx + 1 + ex) (ly + 1 + ey) L1) as H.
      replace (lx + 1 + ex - 1) with (lx + ex) in H by ring. lra. }
    destruct (Z.ltb_spec (lx + 1 + ex + 1) (ly + 1 + ey)) as [L2 | L2].
    { symmetry. apply Qcmp_gt. pose proof (Hbig (ly + 1 + ey) (lx + 1 + ex) L2) as H.
      replace (ly + 1 + ey - 1) with (ly + ey) in H by ring. lra. }
    rewrite !BigZ.spec_shiftl, !BigZ.spec_sub, bmin_spec. exact Hfinal.
  - (* x < 0 < y *)
    symmetry. apply Qcmp_lt. pose proof (V_neg mx ex Lx). pose proof (V_pos my ey Ly). lra.
  - (* y < 0 < x *)
    symmetry. apply Qcmp_gt. pose proof (V_pos mx ex Lx). pose proof (V_neg my ey Ly). lra.
  - (* both positive *)
    pose proof (V_pos mx ex Lx) as Nx. pose proof (V_pos my ey Ly) as Ny.
    rewrite (Qabs_pos (V mx ex)) in Hx1, Hx2 by lra. rewrite (Qabs_pos (V my ey)) in Hy1, Hy2 by lra.
    destruct (Z.ltb_spec (ly + 1 + ey + 1) (lx + 1 + ex)) as [L1 | L1].
    { symmetry. apply Qcmp_gt. pose proof (Hbig (lx + 1 + ex) (ly + 1 + ey) L1) as H.
      replace (lx + 1 + ex - 1) with (lx + ex) in H by ring. lra. }
    destruct (Z.ltb_spec (lx + 1 + ex + 1) (ly + 1 + ey)) as [L2 | L2].
    { symmetry. apply Qcmp_lt. pose proof (Hbig (ly + 1 + ey) (lx + 1 + ex) L2) as H.
      replace (ly + 1 + ey - 1) with (ly + ey) in H by ring. lra. }
    rewrite !BigZ.spec_shiftl, !BigZ.spec_sub, bmin_spec. exact Hfinal.
Qed.

Theorem Dleb_spec : forall x y : D, Dleb x y = true <-> (D2Q x <= D2Q y)%Q.
Proof.
  intros x y. unfold Dleb. rewrite Dcmp_spec.
  destruct (Qcompare_spec (D2Q x) (D2Q y)) as [H | H | H]; split; intro H'; try reflexivity; try lra; discriminate.
Qed.
Theorem Deqb_spec : forall x y : D, Deqb x y = true <-> (D2Q x == D2Q y)%Q.
Proof.
  intros x y. unfold Deqb. rewrite Dcmp_spec.
  destruct (Qcompare_spec (D2Q x) (D2Q y)) as [H | H | H]; split; intro H'; try reflexivity; try lra; discriminate.
Qed.
(** the branch taken on NumD is the branch the exact-rational dictionary NumQ takes on the denotations *)
Theorem Dleb_Qle_bool : forall x y : D, Dleb x y = Qle_bool (D2Q x) (D2Q y).
Proof.
  intros x y. destruct (Qle_bool (D2Q x) (D2Q y)) eqn:E.
  - apply Dleb_spec, Qle_bool_iff, E.
  - destruct (Dleb x y) eqn:E'; [| reflexivity].
    apply Dleb_spec, Qle_bool_iff in E'. congruence.
Qed.
Theorem Deqb_Qeq_bool : forall x y : D, Deqb x y = Qeq_bool (D2Q x) (D2Q y).
Proof.
  intros x y. destruct (Qeq_bool (D2Q x) (D2Q y)) eqn:E.
  - apply Deqb_spec, Qeq_bool_iff, E.
  - destruct (Deqb x y) eqn:E'; [| reflexivity].
    apply Deqb_spec, Qeq_bool_iff in E'. congruence.
Qed.

(** ** 5. The standard model of floating-point arithmetic *)
Lemma rel_delta (r t : Q) : (Qabs (r - t) <= uD * Qabs t)%Q ->
  exists delta : Q, (Qabs delta <= uD)%Q /\ (r == t * (1 + delta))%Q.
Proof.
  intro H. destruct (Qeq_dec t 0) as [E | Hn].
  - exists 0%Q. split; [cbn [Qabs Z.abs Qnum Qden]; apply Qlt_le_weak, uD_pos |].
    rewrite E in H.
    assert (H0 : (Qabs (r - 0) <= 0)%Q) by (change (Qabs 0) with 0%Q in H; lra).
    apply Qabs_Qle_condition in H0. rewrite E. lra.
  - exists ((r - t) / t)%Q. split; [| field; exact Hn].
    unfold Qdiv. rewrite Qabs_Qmult, Qabs_Qinv.
    assert (Hp : (0 < Qabs t)%Q).
    { destruct (Qlt_le_dec 0 (Qabs t)) as [L | L]; [exact L | exfalso].
      apply Hn. pose proof (Qabs_nonneg t) as H0. assert (E0 : (Qabs t <= 0)%Q) by lra.
      apply Qabs_Qle_condition in E0. lra. }
    apply Qle_shift_div_r; [exact Hp | exact H].
Qed.

Theorem NumD_faithful : forall x y : D,
  (exists d, (Qabs d <= uD)%Q /\ (D2Q (Dadd x y) == (D2Q x + D2Q y) * (1 + d))%Q) /\
  (exists d, (Qabs d <= uD)%Q /\ (D2Q (Dsub x y) == (D2Q x - D2Q y) * (1 + d))%Q) /\
  (exists d, (Qabs d <= uD)%Q /\ (D2Q (Dmul x y) == (D2Q x * D2Q y) * (1 + d))%Q) /\
  (~ (D2Q y == 0)%Q -> exists d, (Qabs d <= uD)%Q /\ (D2Q (Ddiv x y) == (D2Q x / D2Q y) * (1 + d))%Q) /\
  ((D2Q y == 0)%Q -> (D2Q (Ddiv x y) == 0)%Q) /\
  (D2Q (Dopp x) == - D2Q x)%Q.
Proof.
  intros x y. repeat split.
  - apply rel_delta, Dadd_spec.
  - apply rel_delta, Dsub_spec.
  - apply rel_delta, Dmul_spec.
  - intro Hy. apply rel_delta, (Ddiv_spec x y Hy).
  - apply Ddiv_zero_spec.
  - apply Dopp_spec.
Qed.

Lemma uD_value : (uD == 1 # (2 ^ 127)%positive)%Q.
Proof. unfold Qeq. vm_compute. reflexivity. Qed.

Theorem NumD_constants : (D2Q (@n0 D NumD) == 0)%Q /\ (D2Q (@n1 D NumD) == 1)%Q /\
  forall z : Z, Z.abs z < 2 ^ PREC -> (D2Q (@nofZ D NumD z) == inject_Z z)%Q.
Proof.
  split; [reflexivity | split; [reflexivity |]]. exact DofZ_exact.
Qed.

(** ** 6. The verdict function [Dlists_close] of the correspondence checks is sound *)
From Coq Require Import List.

Lemma Dnorm_le : forall m e : bigZ, (D2Q (Dnorm m e) <= V (zz m) (zz e))%Q.
Proof.
  intros m e. destruct (Z.eq_dec (zz m) 0) as [E | Hn].
  - rewrite (Dnorm_0 m e E), E, V_0. lra.
  - apply (Dnorm_spec m e Hn).
Qed.

(** [Q2D] rounds toward -infinity *)
Theorem Q2D_le : forall x : Q, (D2Q (Q2D x) <= x)%Q.
Proof.
  intro x. unfold Q2D. cbv zeta.
  pose proof (Z.log2_nonneg (Zpos (Qden x))) as Hk.
  set (k := Z.log2 (Zpos (Qden x))) in *.
  destruct (Z.eqb_spec (Zpos (Qden x)) (2 ^ k)) as [Ed | Nd].
  - pose proof (Dnorm_le (BigZ.of_Z (Qnum x)) (BigZ.of_Z (- k))) as H.
    rewrite !BigZ.spec_of_Z in H. rewrite (dyadic_value x k Hk Ed) in H. exact H.
  - rewrite D2Q_Dnorm, !BigZ.spec_of_Z, prec_val.
    set (s := PREC + k + 2).
    assert (Hs : 0 <= s) by (unfold s, PREC; lia).
    rewrite Z.shiftl_mul_pow2 by exact Hs.
    set (n := Qnum x). set (d := Zpos (Qden x)) in *.
    assert (Hd0 : d <> 0) by (unfold d; lia).
    assert (Hbig : n * 2 ^ s = 0 \/ 2 ^ (PREC - 1) * Z.abs d <= Z.abs (n * 2 ^ s)).
    { destruct (Z.eq_dec n 0) as [-> | Hn]; [left; reflexivity | right].
      assert (Hdu : d < 2 ^ Z.succ k) by (apply Z.log2_spec; unfold d; lia).
      assert (Hp : 2 ^ s = 2 ^ (PREC - 1) * 2 ^ Z.succ k * 2 ^ 2).
      { rewrite <- !Z.pow_add_r by (unfold PREC; lia). f_equal. unfold s. lia. }
      assert (H0 : 0 < 2 ^ (PREC - 1)) by (apply Z.pow_pos_nonneg; unfold PREC; lia).
      rewrite Z.abs_mul, (Z.abs_eq (2 ^ s)) by (apply Z.pow_nonneg; lia).
      rewrite Hp. unfold d in *. nia. }
    destruct (floor_norm (n * 2 ^ s) d (- s) Hd0 Hbig) as [Hle _]. cbv zeta in Hle.
    assert (HT : (x == inject_Z (n * 2 ^ s) / inject_Z d * p2 (- s))%Q).
    { rewrite (Q_as_div x) at 1. fold n d. rewrite inject_Z_mult, <- (p2_Z s Hs), p2_opp.
      field. split; [apply p2_neq0 | apply inject_Z_neq0, Hd0]. }
    rewrite <- HT in Hle. exact Hle.
Qed.

Theorem Dabs_spec : forall x : D, (D2Q (Dabs x) == Qabs (D2Q x))%Q.
Proof.
  intro x. rewrite !D2Q_V. unfold Dabs. cbn [dm de]. rewrite BigZ.spec_abs. symmetry. apply V_abs.
Qed.

Lemma D2Q_zeroD : (D2Q (mkD b0 b0) == 0)%Q. Proof. reflexivity. Qed.

Lemma Dleb_false x y : Dleb x y = false -> (D2Q y < D2Q x)%Q.
Proof.
  intro H. destruct (Qlt_le_dec (D2Q y) (D2Q x)) as [L | L]; [exact L |].
  apply Dleb_spec in L. congruence.
Qed.

Lemma Dmaxl_ge l : (0 <= D2Q (Dmaxl l))%Q /\ forall x, In x l -> (D2Q x <= D2Q (Dmaxl l))%Q.
Proof.
  induction l as [| y l [IH0 IH]].
  - split; [unfold Dmaxl; cbn [fold_right]; rewrite D2Q_zeroD; lra | intros x []].
  - cbn [Dmaxl fold_right]. fold (Dmaxl l).
    destruct (Dleb (Dmaxl l) y) eqn:E.
    + apply Dleb_spec in E. split; [lra |]. intros x [-> | Hx]; [lra | specialize (IH x Hx); lra].
    + apply Dleb_false in E. split; [exact IH0 |]. intros x [-> | Hx]; [lra | exact (IH x Hx)].
Qed.

Lemma Dmaxl_in l : Dmaxl l = mkD b0 b0 \/ In (Dmaxl l) l.
Proof.
  induction l as [| y l IH]; [left; reflexivity |].
  cbn [Dmaxl fold_right]. fold (Dmaxl l). destruct (Dleb (Dmaxl l) y).
  - right; left; reflexivity.
  - destruct IH as [-> | IH]; [left; reflexivity | right; right; exact IH].
Qed.

Lemma Dmaxdiff_ge : forall a b, length a = length b -> forall bound : Q,
  (D2Q (Dmaxdiff a b) <= bound)%Q -> Forall2 (fun x y => (D2Q (Dabs (Dsub x y)) <= bound)%Q) a b.
Proof.
  induction a as [| x a IH]; intros [| y b] Hlen bound Hb; try discriminate; [constructor |].
  cbn [Dmaxdiff] in Hb. injection Hlen as Hlen.
  destruct (Dleb (Dmaxdiff a b) (Dabs (Dsub x y))) eqn:E.
  - apply Dleb_spec in E. constructor; [exact Hb | apply IH; [exact Hlen | lra]].
  - apply Dleb_false in E. constructor; [lra | apply IH; [exact Hlen | exact Hb]].
Qed.

(** the scale the tolerance is relative to: the largest |entry| of both lists, or 1 when everything is 0 *)
Definition Dscale (a b : list D) : D :=
  let s := Dmaxl (Dmaxl (map Dabs a) :: Dmaxl (map Dabs b) :: nil) in
  if biszero (dm s) then mkD b1 b0 else s.

Theorem Dscale_spec : forall a b : list D,
  (forall x, In x a -> (Qabs (D2Q x) <= D2Q (Dscale a b))%Q) /\
  (forall y, In y b -> (Qabs (D2Q y) <= D2Q (Dscale a b))%Q) /\
  (0 < D2Q (Dscale a b))%Q /\
  (Dscale a b = mkD b1 b0 \/ exists x, In x (a ++ b) /\ (D2Q (Dscale a b) == Qabs (D2Q x))%Q).
Proof.
  intros a b. unfold Dscale.
  set (A := Dmaxl (map Dabs a)). set (B := Dmaxl (map Dabs b)).
  set (s := Dmaxl (A :: B :: nil)).
  destruct (Dmaxl_ge (A :: B :: nil)) as [Hs0 Hs]. fold s in Hs0, Hs.
  destruct (Dmaxl_ge (map Dabs a)) as [_ HA]. fold A in HA.
  destruct (Dmaxl_ge (map Dabs b)) as [_ HB]. fold B in HB.
  assert (HsA : (D2Q A <= D2Q s)%Q) by (apply Hs; left; reflexivity).
  assert (HsB : (D2Q B <= D2Q s)%Q) by (apply Hs; right; left; reflexivity).
  assert (Ha : forall x, In x a -> (Qabs (D2Q x) <= D2Q s)%Q).
  { intros x Hx. rewrite <- Dabs_spec. specialize (HA (Dabs x) (in_map Dabs a x Hx)). lra. }
  assert (Hb : forall y, In y b -> (Qabs (D2Q y) <= D2Q s)%Q).
  { intros y Hy. rewrite <- Dabs_spec. specialize (HB (Dabs y) (in_map Dabs b y Hy)). lra. }
  rewrite biszero_spec. destruct (Z.eqb_spec (zz (dm s)) 0) as [E | Hn].
  - assert (Es : (D2Q s == 0)%Q) by (apply D2Q_zero_iff, E).
    assert (E1 : (D2Q (mkD b1 b0) == 1)%Q) by reflexivity.
    split; [| split; [| split]].
    + intros x Hx. specialize (Ha x Hx). rewrite E1. lra.
    + intros y Hy. specialize (Hb y Hy). rewrite E1. lra.
    + rewrite E1. lra.
    + left; reflexivity.
  - assert (Hpos : (0 < D2Q s)%Q).
    { destruct (Qlt_le_dec 0 (D2Q s)) as [L | L]; [exact L | exfalso].
      apply Hn, D2Q_zero_iff. lra. }
    split; [exact Ha | split; [exact Hb | split; [exact Hpos |]]].
    right.
    assert (Hin : In s (map Dabs a ++ map Dabs b)).
    { destruct (Dmaxl_in (A :: B :: nil)) as [E0 | [E1 | [E1 | []]]]; fold s in E0 || fold s in E1.
      - exfalso. rewrite E0 in Hpos. rewrite D2Q_zeroD in Hpos. lra.
      - rewrite <- E1. destruct (Dmaxl_in (map Dabs a)) as [E0 | Hi]; fold A in E0 || fold A in Hi.
        + exfalso. rewrite <- E1, E0, D2Q_zeroD in Hpos. lra.
        + apply in_or_app; left; exact Hi.
      - rewrite <- E1. destruct (Dmaxl_in (map Dabs b)) as [E0 | Hi]; fold B in E0 || fold B in Hi.
        + exfalso. rewrite <- E1, E0, D2Q_zeroD in Hpos. lra.
        + apply in_or_app; right; exact Hi. }
    rewrite <- map_app in Hin. apply in_map_iff in Hin. destruct Hin as (x & Ex & Hx).
    exists x. split; [exact Hx |]. rewrite <- Ex. apply Dabs_spec.
Qed.

Lemma Forall2_mono {A B : Type} (P Q : A -> B -> Prop) : (forall x y, P x y -> Q x y) ->
  forall l l', Forall2 P l l' -> Forall2 Q l l'.
Proof. intros H l l' HF. induction HF; constructor; auto. Qed.

(** a [true] verdict means: same length, and every entrywise difference is within tol * scale / (1 - 2^-127) *)
Theorem Dlists_close_sound : forall (tol : Q) (a b : list D), fst (Dlists_close tol a b) = true ->
  length a = length b /\
  Forall2 (fun x y => ((1 - uD) * Qabs (D2Q x - D2Q y) <= tol * D2Q (Dscale a b))%Q) a b.
Proof.
  intros tol a b H. unfold Dlists_close in H. cbv zeta in H. cbn [fst] in H. fold (Dscale a b) in H.
  apply andb_prop in H. destruct H as [H1 H2]. apply Nat.eqb_eq in H2. split; [exact H2 |].
  apply Dleb_spec in H1.
  destruct (Dscale_spec a b) as (_ & _ & Hpos & _).
  pose proof (Dmul_le (Q2D tol) (Dscale a b)) as Hm. pose proof (Q2D_le tol) as Ht.
  assert (Hm2 : (D2Q (Q2D tol) * D2Q (Dscale a b) <= tol * D2Q (Dscale a b))%Q)
    by (apply Qmult_le_compat_r; lra).
  assert (Hb : (D2Q (Dmaxdiff a b) <= tol * D2Q (Dscale a b))%Q) by lra.
  pose proof (Dmaxdiff_ge a b H2 _ Hb) as HF.
  revert HF. apply Forall2_mono. intros x y Hxy.
  rewrite Dabs_spec in Hxy. pose proof (Dsub_spec x y) as Hs.
  set (r := D2Q (Dsub x y)) in *. set (t := (D2Q x - D2Q y)%Q) in *.
  pose proof (Qabs_triangle_reverse t r) as Htr. rewrite Qabs_Qminus in Htr. lra.
Qed.
