(** C10: marginalize and combine_two_pops commute with projection (unmasked data), any dimension and shape.

    Projection along one axis is restated on the multi-index representation of Model/PopOps.v
    ([proj_va]: every entry is the hypergeometric expectation along the projected axis, [proj_mk]: a masked
    source entry masks exactly the entries it can contribute to); [proj_va_is_tensor_projection] /
    [proj_mk_is_tensor_projection] at the end show that these ARE the entries of Model/Projection.v's
    [proj_axis] (the model of Spectrum._project_one_axis quoted by C08).

    Two generic facts about a re-indexing sum  out[K] = sum over {I : f I = K} of in[I]:
      - if f ignores axis ax, projecting ax first changes nothing (the weights H sum to 1 over the target index);
      - if f carries axis ax to axis ax' unchanged, projecting ax first = projecting ax' afterwards.
    marginalize is such a sum for f = drop_axes over, combine_two_pops for f = merge2 (+) t0 t1. *)
From Coq Require Import String.
From Coq Require Import ZArith Reals List Bool Arith Lia Lra Permutation Sorted.
From Dadi Require Import Base.Num Base.NumR Model.Projection Proofs.ProjBase Proofs.ProjH.
From Dadi Require Import Model.PopOps Proofs.PopOpsBig Proofs.PopOpsIdx Proofs.PopOpsPF Proofs.PopOpsProofs
  Proofs.PopOpsCommute Proofs.PopOpsCombine.
From Dadi Require Proofs.ProjTensor Proofs.ProjSpectrum.
Import ListNotations.
Local Open Scope R_scope.

Notation bigR := (big Rplus 0).
Notation pos := (Forall (fun s => (1 <= s)%nat)).

(** ** projection of one axis on entry functions *)
Definition proj_va (ax n m : nat) (v : idx -> R) : idx -> R :=
  fun J => bigR (seq 0 (S n)) (fun j => H n m j (nth ax J 0%nat) * v (set_nth ax j J)).
Definition proj_mk (ax n m : nat) (b : idx -> bool) : idx -> bool :=
  fun J => existsb (fun j => in_window n m j (nth ax J 0%nat) && b (set_nth ax j J)) (seq 0 (S n)).
(** Spectrum._project_one_axis(m, ax) *)
Definition proj_spec (ax m : nat) (a : spec R) : spec R :=
  let n := pred (nth ax (sh a) 0%nat) in
  {| sh := set_nth ax (S m) (sh a); va := proj_va ax n m (va a); mk := proj_mk ax n m (mk a);
     ids := ids a; fo := fo a |}.

(** ** sums *)
Lemma bigR_rsum (u : nat -> R) k : bigR (seq 0 k) u = rsum u k.
Proof. induction k; [reflexivity|]. rewrite seq_S, (big_app R Rplus 0 Rp_assoc Rp_0_l), IHk. cbn. ring. Qed.
Lemma bigR_scal {A} c (l : list A) g : bigR l (fun x => c * g x) = c * bigR l g.
Proof. unfold big. induction l; cbn [fold_right]; [ring|]. rewrite IHl. ring. Qed.
Lemma bigR_if {A} (c : bool) (l : list A) g : bigR l (fun x => if c then g x else 0) = if c then bigR l g else 0.
Proof. destruct c; [reflexivity|]. apply (big_e R Rplus 0 Rp_0_l). reflexivity. Qed.

Lemma bigR_split Sh k (g : idx -> R) : (k < length Sh)%nat ->
  bigR (indices Sh) g = bigR (indices (remove_nth k Sh)) (fun K0 => bigR (seq 0 (nth k Sh 0%nat)) (fun j => g (insert_nth k j K0))).
Proof. intros Hk. symmetry.
  apply (PF_total R Rplus 0 Rp_assoc Rp_comm Rp_0_l Sh (remove_nth k) g (remove_nth k Sh)); [|apply maps_remove].
  apply (PF_remove R Rplus 0 Rp_assoc Rp_comm Rp_0_l); [exact Hk|]. intros; reflexivity. Qed.

(** re-indexing a conditional sum along a bijection between the two supports *)
Lemma bigR_reindex {A B} (l1 : list A) (l2 : list B) (p : A -> bool) (q : B -> bool) (phi : A -> B) (psi : B -> A) (g : B -> R) :
  NoDup l1 -> NoDup l2 ->
  (forall x, In x l1 -> p x = true -> In (phi x) l2 /\ q (phi x) = true /\ psi (phi x) = x) ->
  (forall y, In y l2 -> q y = true -> In (psi y) l1 /\ p (psi y) = true /\ phi (psi y) = y) ->
  bigR l1 (fun x => if p x then g (phi x) else 0) = bigR l2 (fun y => if q y then g y else 0).
Proof. intros N1 N2 F1 F2.
  rewrite <- (big_filter R Rplus 0 Rp_0_l p l1 (fun x => g (phi x))), <- (big_filter R Rplus 0 Rp_0_l q l2 g).
  rewrite <- (big_map R Rplus 0 phi (filter p l1) g). apply (big_perm R Rplus 0 Rp_assoc Rp_comm).
  apply NoDup_Permutation.
  - apply NoDup_map_in; [|apply NoDup_filter, N1]. intros x y Hx Hy E. apply filter_In in Hx, Hy.
    destruct (F1 x (proj1 Hx) (proj2 Hx)) as (_ & _ & Ex). destruct (F1 y (proj1 Hy) (proj2 Hy)) as (_ & _ & Ey).
    rewrite <- Ex, <- Ey, E. reflexivity.
  - apply NoDup_filter, N2.
  - intros y. rewrite in_map_iff, filter_In. split.
    + intros (x & <- & Hx). apply filter_In in Hx. destruct (F1 x (proj1 Hx) (proj2 Hx)) as (I1 & Q1 & _). split; assumption.
    + intros [Hy Qy]. destruct (F2 y Hy Qy) as (I2 & P2 & E2). exists (psi y). split; [exact E2|]. apply filter_In. split; assumption. Qed.

(** ** list arithmetic for set_nth / insert_nth *)
Lemma set_nth_nth {A} (d : A) k l : set_nth k (nth k l d) l = l.
Proof. revert k; induction l; intros [|k]; cbn; try reflexivity. rewrite IHl. reflexivity. Qed.
Lemma set_nth_insert_nth {A} k (x y : A) l : (k <= length l)%nat -> set_nth k x (insert_nth k y l) = insert_nth k x l.
Proof. revert l; induction k; intros [|z l] Hk; cbn in *; try reflexivity; try lia. rewrite IHk by lia. reflexivity. Qed.
Lemma insert_nth_length {A} k (x : A) l : (k <= length l)%nat -> length (insert_nth k x l) = S (length l).
Proof. revert l; induction k; intros [|z l] Hk; cbn in *; try reflexivity; try lia. rewrite IHk by lia. reflexivity. Qed.
Lemma remove_set_nth {A} k (x : A) l : remove_nth k (set_nth k x l) = remove_nth k l.
Proof. revert k; induction l; intros [|k]; cbn; try reflexivity. rewrite IHl. reflexivity. Qed.
Lemma set_nth_comm {A} j k (x y : A) l : j <> k -> set_nth j x (set_nth k y l) = set_nth k y (set_nth j x l).
Proof. revert j k; induction l; intros [|j] [|k] Hjk; cbn; try reflexivity; try lia. rewrite IHl by lia. reflexivity. Qed.
Lemma set_nth_remove_gt {A} t k (x : A) l : (t <= k)%nat -> set_nth k x (remove_nth t l) = remove_nth t (set_nth (S k) x l).
Proof. revert t k; induction l; intros t k Hle; [destruct t, k; reflexivity|].
  destruct t; cbn; [reflexivity|]. destruct k; [lia|]. cbn. f_equal. apply IHl. lia. Qed.
Lemma inr_set_nth Sh I k j s : inr Sh I -> (j < s)%nat -> inr (set_nth k s Sh) (set_nth k j I).
Proof. intros HI Hj. unfold inr. apply Forall2_set_nth; assumption. Qed.
Lemma inr_nth Sh I k : inr Sh I -> (k < length Sh)%nat -> (nth k I 0 < nth k Sh 0)%nat.
Proof. intros HI Hk. apply (Forall2_nth lt 0%nat 0%nat I Sh k HI). rewrite (inr_length _ _ HI). exact Hk. Qed.

Section OneAxis.
  Variables (Sh : list nat) (ax n m : nat).
  Hypothesis Hax : (ax < length Sh)%nat.
  Hypothesis Hn : nth ax Sh 0%nat = S n.
  Hypothesis Hm : (m <= n)%nat.
  Let Sh' := set_nth ax (S m) Sh.

  Lemma Sh_back : set_nth ax (S n) Sh' = Sh.
  Proof. unfold Sh'. rewrite set_nth_set_nth, <- Hn. apply set_nth_nth. Qed.
  Lemma Sh'_len : length Sh' = length Sh.
  Proof. apply set_nth_length. Qed.

  (** *** the re-indexing map ignores the projected axis: projecting first changes nothing *)
  Theorem fiber_proj_ignored (f : idx -> idx) (v : idx -> R) K :
    (forall I l, length I = length Sh -> f (set_nth ax l I) = f I) ->
    fiber_sum Sh' f (proj_va ax n m v) K = fiber_sum Sh f v K.
  Proof. intros Hf. rewrite !fiber_sum_big.
    rewrite (bigR_split Sh' ax) by (rewrite Sh'_len; exact Hax). rewrite (bigR_split Sh ax) by exact Hax.
    unfold Sh' at 1 2. rewrite remove_set_nth, nth_set_nth_same, Hn by exact Hax.
    apply (big_ext R Rplus 0). intros K0 HK0. apply in_indices in HK0.
    assert (LK0 : (ax <= length K0)%nat).
    { rewrite (inr_length _ _ HK0), remove_nth_length by exact Hax. lia. }
    assert (Lins : forall i, length (insert_nth ax i K0) = length Sh).
    { intros i. rewrite insert_nth_length by exact LK0. rewrite (inr_length _ _ HK0), remove_nth_length by exact Hax. lia. }
    assert (Ef : forall i, f (insert_nth ax i K0) = f (insert_nth ax 0%nat K0)).
    { intros i. rewrite <- (set_nth_insert_nth ax i 0%nat K0 LK0). apply Hf, Lins. }
    rewrite (big_ext R Rplus 0 _ _ (fun i => if idx_eqb (f (insert_nth ax 0%nat K0)) K
                                        then bigR (seq 0 (S n)) (fun l => H n m l i * v (insert_nth ax l K0)) else 0)).
    2:{ intros i _. rewrite Ef. destruct (idx_eqb _ K); [|reflexivity]. unfold proj_va.
        apply (big_ext R Rplus 0). intros l _. rewrite nth_insert_nth, set_nth_insert_nth by exact LK0. reflexivity. }
    rewrite (big_ext R Rplus 0 (seq 0 (S n)) _ (fun j => if idx_eqb (f (insert_nth ax 0%nat K0)) K then v (insert_nth ax j K0) else 0))
      by (intros j _; rewrite Ef; reflexivity).
    rewrite !bigR_if. destruct (idx_eqb _ K); [|reflexivity].
    rewrite (big_swap R Rplus 0 Rp_assoc Rp_comm Rp_0_l). apply (big_ext R Rplus 0). intros l Hl. apply in_seq in Hl.
    rewrite (big_ext R Rplus 0 _ _ (fun i => v (insert_nth ax l K0) * H n m l i)) by (intros; ring).
    rewrite bigR_scal, bigR_rsum. replace (S m) with (m + 1)%nat by lia. rewrite H_sums_to_one by lia. ring. Qed.

  (** *** the re-indexing map carries the projected axis to axis ax' of the result *)
  Theorem fiber_proj_tracked (f : idx -> idx) (ax' : nat) (v : idx -> R) K :
    (forall I l, length I = length Sh -> f (set_nth ax l I) = set_nth ax' l (f I)) ->
    (forall I, length I = length Sh -> (ax' < length (f I))%nat) ->
    (ax' < length K)%nat -> (nth ax' K 0 <= m)%nat ->
    fiber_sum Sh' f (proj_va ax n m v) K = proj_va ax' n m (fiber_sum Sh f v) K.
  Proof. intros Hf Hlen HK HKm.
    assert (C1 : forall I, length I = length Sh -> nth ax' (f I) 0%nat = nth ax I 0%nat).
    { intros I HI. rewrite <- (set_nth_nth 0%nat ax I) at 1. rewrite Hf by exact HI.
      apply nth_set_nth_same. apply Hlen, HI. }
    rewrite fiber_sum_big. unfold proj_va at 2.
    rewrite (big_ext R Rplus 0 (indices Sh') _
               (fun I' => bigR (seq 0 (S n)) (fun l => if idx_eqb (f I') K then H n m l (nth ax' K 0%nat) * v (set_nth ax l I') else 0))).
    2:{ intros I' HI'. apply in_indices in HI'. rewrite bigR_if. destruct (idx_eqb (f I') K) eqn:E; [|reflexivity].
        apply idx_eqb_spec in E. unfold proj_va. rewrite <- E, C1; [reflexivity|].
        rewrite (inr_length _ _ HI'). apply Sh'_len. }
    rewrite (big_swap R Rplus 0 Rp_assoc Rp_comm Rp_0_l). apply (big_ext R Rplus 0). intros l Hl. apply in_seq in Hl.
    rewrite fiber_sum_big, <- bigR_scal.
    rewrite (big_ext R Rplus 0 (indices Sh) _
               (fun I => if idx_eqb (f I) (set_nth ax' l K) then H n m l (nth ax' K 0%nat) * v I else 0))
      by (intros I _; destruct (idx_eqb (f I) (set_nth ax' l K)); ring).
    apply (bigR_reindex (indices Sh') (indices Sh) (fun I' => idx_eqb (f I') K) (fun I => idx_eqb (f I) (set_nth ax' l K))
             (fun I' => set_nth ax l I') (fun I => set_nth ax (nth ax' K 0%nat) I) (fun I => H n m l (nth ax' K 0%nat) * v I));
      try apply NoDup_indices.
    - intros I' HI' E. apply in_indices in HI'. apply idx_eqb_spec in E.
      assert (LI' : length I' = length Sh) by (rewrite (inr_length _ _ HI'); apply Sh'_len).
      split; [|split].
      + apply in_indices. rewrite <- Sh_back. apply inr_set_nth; [exact HI'|lia].
      + apply idx_eqb_spec. rewrite Hf, E by exact LI'. reflexivity.
      + rewrite set_nth_set_nth. rewrite <- E, C1 by exact LI'. apply set_nth_nth.
    - intros I HI E. apply in_indices in HI. apply idx_eqb_spec in E.
      assert (LI : length I = length Sh) by (apply (inr_length _ _ HI)).
      split; [|split].
      + apply in_indices. unfold Sh'. apply inr_set_nth; [exact HI|lia].
      + apply idx_eqb_spec. rewrite Hf, E, set_nth_set_nth by exact LI. apply set_nth_nth.
      + rewrite set_nth_set_nth.
        assert (El : nth ax I 0%nat = l) by (rewrite <- (C1 I LI), E; apply nth_set_nth_same; exact HK).
        rewrite <- El. apply set_nth_nth. Qed.
End OneAxis.

(** ** the index map of marginalize: drop_axes *)
Lemma drop_axes_ignores {A} (dflt : A) over d ax (l : A) I :
  NoDup over -> Forall (fun k => (k < d)%nat) over -> In ax over -> length I = d ->
  drop_axes over (set_nth ax l I) = drop_axes over I.
Proof. intros Hnd Hall Hin HI. rewrite !(drop_axes_select dflt), set_nth_length, HI. unfold select.
  apply map_ext_in. intros k Hk. apply (kept_in over d k Hnd Hall) in Hk. apply nth_set_nth_other. intros ->. tauto. Qed.

Lemma select_set_nth {A} (dflt : A) ks ax (l : A) I : NoDup ks -> In ax ks -> (ax < length I)%nat ->
  select dflt ks (set_nth ax l I) = set_nth (index_of ax ks) l (select dflt ks I).
Proof. intros Hnd Hin Hax. unfold select. induction Hnd as [|k ks Hk Hnd IH]; [contradiction|].
  cbn [map index_of]. destruct (Nat.eqb_spec ax k) as [->|Hne].
  - cbn [set_nth]. rewrite nth_set_nth_same by exact Hax. f_equal. apply map_ext_in. intros k' Hk'.
    apply nth_set_nth_other. intros ->. contradiction.
  - cbn [set_nth]. rewrite nth_set_nth_other by auto. f_equal. apply IH. destruct Hin as [->|Hin]; [contradiction|exact Hin]. Qed.

Lemma drop_axes_tracks {A} (dflt : A) over d ax (l : A) I :
  NoDup over -> Forall (fun k => (k < d)%nat) over -> ~ In ax over -> (ax < d)%nat -> length I = d ->
  drop_axes over (set_nth ax l I) = set_nth (index_of ax (kept over d)) l (drop_axes over I).
Proof. intros Hnd Hall Hnin Hax HI. rewrite !(drop_axes_select dflt), set_nth_length, HI.
  apply select_set_nth; [apply kept_NoDup; assumption | apply (kept_in over d ax Hnd Hall); split; assumption | lia]. Qed.

Lemma drop_axes_length {A} (dflt : A) over (I : list A) : length (drop_axes over I) = length (kept over (length I)).
Proof. rewrite (drop_axes_select dflt). apply select_length. Qed.

(** ** marginalize on unmasked spectra: plain fiber sums of the data, nothing masked but (optionally) the corners *)
Definition unmasked (a : spec R) : Prop := forall I, inr (sh a) I -> mk a I = false.

Lemma remove_nth_pos k Sh : pos Sh -> pos (remove_nth k Sh).
Proof. intros Hp. revert k. induction Hp; intros [|k]; cbn; auto. Qed.
Lemma set_nth_pos' k s Sh : (1 <= s)%nat -> pos Sh -> pos (set_nth k s Sh).
Proof. intros Hs Hp. revert k. induction Hp; intros [|k]; cbn; auto. Qed.
Lemma pos_nth k Sh : pos Sh -> (k < length Sh)%nat -> (1 <= nth k Sh 0)%nat.
Proof. intros Hp Hk. rewrite Forall_forall in Hp. apply Hp, nth_In, Hk. Qed.

Lemma sum_axis_unmasked (b : spec R) k : (k < length (sh b))%nat -> (1 <= nth k (sh b) 0)%nat -> unmasked b -> unmasked (sum_axis k b).
Proof. intros Hk H1 Hu J HJ. cbn [sum_axis sh mk] in *. destruct (nth k (sh b) 0%nat) as [|n'] eqn:En; [lia|].
  change (seq 0 (S n')) with (0%nat :: seq 1 n'). cbn [forallb]. rewrite Hu; [reflexivity|].
  apply (Forall2_insert_nth lt 0%nat); [exact Hk | exact HJ | lia]. Qed.

Lemma fold_sum_axis_unmasked ks : forall b : spec R, valid_seq (length (sh b)) ks -> pos (sh b) -> unmasked b ->
  let o := fold_left (fun o k => sum_axis k o) ks b in
  unmasked o /\ forall J, inr (sh o) J -> eff o J = va o J.
Proof. induction ks as [|k ks IH]; intros b Hv Hp Hu; cbn [fold_left].
  - split; [exact Hu|]. intros J HJ. unfold eff. rewrite Hu by exact HJ. reflexivity.
  - destruct Hv as [Hk Hv]. apply IH.
    + cbn [sum_axis sh]. rewrite remove_nth_length by exact Hk. exact Hv.
    + cbn [sum_axis sh]. apply remove_nth_pos, Hp.
    + apply sum_axis_unmasked; [exact Hk | apply pos_nth; assumption | exact Hu]. Qed.

Theorem marginalize_unmasked (a : spec R) over mc :
  fo a = false -> NoDup over -> Forall (fun k => (k < length (sh a))%nat) over -> pos (sh a) -> unmasked a ->
  let o := marginalize_core over mc a in
  sh o = drop_axes over (sh a) /\ ids o = option_map (drop_axes over) (ids a) /\ fo o = false /\
  forall J, inr (sh o) J -> va o J = fiber_sum (sh a) (drop_axes over) (va a) J /\ mk o J = mc && is_corner (sh o) J.
Proof. intros Hfo Hnd Hall Hp Hu.
  destruct (marginalize_PF a over Hfo Hnd Hall) as (E & P1 & _ & Ei & Ef).
  destruct (fold_sum_axis_unmasked (rev (isort over)) a (valid_seq_over a over Hnd Hall) Hp Hu) as [U1 U2].
  assert (V0 : forall J, inr (sh (marginalize_core over false a)) J ->
               va (marginalize_core over false a) J = fiber_sum (sh a) (drop_axes over) (va a) J
               /\ mk (marginalize_core over false a) J = false).
  { intros J HJ. pose proof (proj1 (PFR_fiber _ _ _ _ _) P1 J HJ) as EV. revert EV HJ.
    unfold marginalize_core. rewrite Hfo. unfold eff at 1. cbn [sh va mk]. intros EV HJ.
    rewrite (U1 J HJ) in EV. split; [|apply U1, HJ].
    rewrite EV. rewrite !fiber_sum_big. apply (big_ext R Rplus 0). intros I HI.
    apply in_indices in HI. unfold eff. rewrite Hu by exact HI. reflexivity. }
  destruct mc.
  - rewrite marginalize_mc by exact Hfo. cbn [mask_corners sh va mk ids fo]. repeat split; auto.
    + apply V0, H.
    + rewrite (proj2 (V0 J H)). reflexivity.
  - repeat split; auto; apply V0, H. Qed.

(** ** projection and masks: nothing masked stays nothing masked; the two corners go to the two corners *)
Lemma existsb_false {A} (p : A -> bool) l : (forall x, In x l -> p x = false) -> existsb p l = false.
Proof. induction l; intros Hp; [reflexivity|]. cbn. rewrite Hp, IHl by auto with datatypes. reflexivity. Qed.

Lemma existsb_ext_in {A} (p q : A -> bool) l : (forall x, In x l -> p x = q x) -> existsb p l = existsb q l.
Proof. induction l; intros Hp; [reflexivity|]. cbn. rewrite Hp, IHl by auto with datatypes. reflexivity. Qed.

Lemma forallb_zero_nth I : forallb (Nat.eqb 0) I = true <-> forall k, nth k I 0%nat = 0%nat.
Proof. induction I as [|x I IH]; cbn [forallb].
  - split; [intros _ [|k]; reflexivity | reflexivity].
  - rewrite andb_true_iff, IH, Nat.eqb_eq. split.
    + intros [<- Hr] [|k]; cbn [nth]; [reflexivity|apply Hr].
    + intros Hk. split; [symmetry; apply (Hk 0%nat) | intros k; apply (Hk (S k))]. Qed.

Lemma nth_set_nth_eq k j x (I : idx) : (k < length I)%nat -> nth j (set_nth k x I) 0%nat = if Nat.eqb j k then x else nth j I 0%nat.
Proof. intros Hk. destruct (Nat.eqb_spec j k) as [->|Hne]; [apply nth_set_nth_same, Hk | apply nth_set_nth_other, Hne]. Qed.

Section Corner.
  Variables (Sh : list nat) (ax n m : nat).
  Hypothesis Hax : (ax < length Sh)%nat.
  Hypothesis Hn : nth ax Sh 0%nat = S n.
  Hypothesis Hm : (m <= n)%nat.
  Let Sh' := set_nth ax (S m) Sh.

  Lemma is_corner_nth S0 (I : idx) : length I = length S0 ->
    is_corner S0 I = true <-> (forall k, nth k I 0%nat = 0%nat) \/ (forall k, nth k I 0%nat = pred (nth k S0 0%nat)).
  Proof. intros HI. unfold is_corner. rewrite orb_true_iff, forallb_zero_nth, idx_eqb_spec. split; (intros [Hz|Hl]; [left; exact Hz|right]).
    - intros k. rewrite Hl. change 0%nat with (pred 0) at 1. apply map_nth.
    - apply (nth_ext _ _ 0%nat 0%nat); [rewrite map_length; exact HI|]. intros k _. rewrite Hl.
      change 0%nat with (pred 0) at 2. symmetry. apply map_nth. Qed.

  Lemma proj_mk_corner (c : bool) J : inr Sh' J ->
    proj_mk ax n m (fun I => c && is_corner Sh I) J = c && is_corner Sh' J.
  Proof. intros HJ. unfold proj_mk. destruct c; cbn [andb].
    2:{ apply existsb_false. intros j _. apply andb_false_r. }
    assert (LJ : length J = length Sh) by (rewrite (inr_length _ _ HJ); apply set_nth_length).
    assert (LJ' : length J = length Sh') by (apply (inr_length _ _ HJ)).
    assert (Hi : (nth ax J 0 <= m)%nat).
    { pose proof (inr_nth Sh' J ax HJ ltac:(unfold Sh'; rewrite set_nth_length; exact Hax)) as B.
      unfold Sh' in B. rewrite nth_set_nth_same in B by exact Hax. lia. }
    assert (Hax' : (ax < length J)%nat) by lia.
    apply eq_true_iff_eq. rewrite existsb_exists, (is_corner_nth Sh' J LJ'). split.
    - intros (j & Hj & Hc). apply in_seq in Hj. apply andb_true_iff in Hc as [Hw Hc].
      apply (in_window_spec n m j _ Hm ltac:(lia)) in Hw.
      apply (is_corner_nth Sh) in Hc; [|rewrite set_nth_length; exact LJ].
      destruct Hc as [Hz|Hl]; [left|right]; intros k.
      + specialize (Hz k). rewrite nth_set_nth_eq in Hz by exact Hax'. destruct (Nat.eqb_spec k ax) as [Ek|Hne]; [subst k; lia|exact Hz].
      + specialize (Hl k). rewrite nth_set_nth_eq in Hl by exact Hax'. unfold Sh'. rewrite nth_set_nth_eq by exact Hax.
        destruct (Nat.eqb_spec k ax) as [Ek|Hne]; [subst k|exact Hl]. rewrite Hn in Hl. cbn [pred] in *. lia.
    - intros [Hz|Hl].
      + exists 0%nat. split; [apply in_seq; lia|]. apply andb_true_iff. split.
        * apply (in_window_spec n m 0%nat _ Hm ltac:(lia)). rewrite (Hz ax). lia.
        * apply (is_corner_nth Sh); [rewrite set_nth_length; exact LJ|]. left. intros k.
          rewrite nth_set_nth_eq by exact Hax'. destruct (Nat.eqb k ax); [reflexivity|apply Hz].
      + exists n. split; [apply in_seq; lia|]. apply andb_true_iff.
        assert (Ei : nth ax J 0%nat = m).
        { rewrite (Hl ax). unfold Sh'. rewrite nth_set_nth_same by exact Hax. reflexivity. } split.
        * apply (in_window_spec n m n _ Hm ltac:(lia)). rewrite Ei. lia.
        * apply (is_corner_nth Sh); [rewrite set_nth_length; exact LJ|]. right. intros k.
          rewrite nth_set_nth_eq by exact Hax'. destruct (Nat.eqb_spec k ax) as [Ek|Hne]; [subst k; rewrite Hn; reflexivity|].
          rewrite (Hl k). unfold Sh'. rewrite nth_set_nth_other by exact Hne. reflexivity. Qed.

  Lemma proj_mk_unmasked (b : idx -> bool) J : (forall I, inr Sh I -> b I = false) -> inr Sh' J -> proj_mk ax n m b J = false.
  Proof. intros Hb HJ. unfold proj_mk. apply existsb_false. intros j Hj. apply in_seq in Hj. rewrite Hb; [apply andb_false_r|].
    rewrite <- (Sh_back Sh ax n m Hn). apply inr_set_nth; [exact HJ|lia]. Qed.

  (** congruence: the projected entry at an in-range J only reads in-range source entries *)
  Lemma proj_va_ext (v v' : idx -> R) J : (forall I, inr Sh I -> v I = v' I) -> inr Sh' J -> proj_va ax n m v J = proj_va ax n m v' J.
  Proof. intros Hv HJ. unfold proj_va. apply (big_ext R Rplus 0). intros j Hj. apply in_seq in Hj. rewrite Hv; [reflexivity|].
    rewrite <- (Sh_back Sh ax n m Hn). apply inr_set_nth; [exact HJ|lia]. Qed.
  Lemma proj_mk_ext (b b' : idx -> bool) J : (forall I, inr Sh I -> b I = b' I) -> inr Sh' J -> proj_mk ax n m b J = proj_mk ax n m b' J.
  Proof. intros Hb HJ. unfold proj_mk. apply existsb_ext_in. intros j Hj. apply in_seq in Hj. rewrite Hb; [reflexivity|].
    rewrite <- (Sh_back Sh ax n m Hn). apply inr_set_nth; [exact HJ|lia]. Qed.
End Corner.

(** ** (i) marginalize and projection of ONE axis *)
Lemma proj_spec_unmasked (a : spec R) ax m :
  (ax < length (sh a))%nat -> (m <= pred (nth ax (sh a) 0))%nat -> pos (sh a) -> unmasked a -> unmasked (proj_spec ax m a).
Proof. intros Hax Hm Hp Hu J HJ. cbn [proj_spec sh mk] in *.
  pose proof (pos_nth ax (sh a) Hp Hax) as H1.
  apply (proj_mk_unmasked (sh a) ax (pred (nth ax (sh a) 0%nat)) m Hax ltac:(lia) Hm); assumption. Qed.

Section MargProj.
  Variables (a : spec R) (over : list nat) (mc : bool) (ax m : nat).
  Let d := length (sh a).
  Let n := pred (nth ax (sh a) 0%nat).
  Hypothesis Hfo : fo a = false.
  Hypothesis Hnd : NoDup over.
  Hypothesis Hall : Forall (fun k => (k < d)%nat) over.
  Hypothesis Hp : pos (sh a).
  Hypothesis Hu : unmasked a.
  Hypothesis Hax : (ax < d)%nat.
  Hypothesis Hm : (m <= n)%nat.

  Let pa := proj_spec ax m a.
  Lemma MP_n : nth ax (sh a) 0%nat = S n.
  Proof. pose proof (pos_nth ax (sh a) Hp Hax). unfold n. lia. Qed.
  Lemma MP_len : length (sh pa) = d.
  Proof. apply set_nth_length. Qed.
  Lemma MP_pa : fo pa = false /\ Forall (fun k => (k < length (sh pa))%nat) over /\ pos (sh pa) /\ unmasked pa.
  Proof. split; [exact Hfo|]. split; [rewrite MP_len; exact Hall|]. split.
    - apply set_nth_pos'; [lia|exact Hp].
    - apply proj_spec_unmasked; assumption. Qed.

  (** marginalising the axis that was projected = marginalising it directly *)
  Theorem marginalize_proj_dropped : In ax over ->
    same_spectrum (marginalize_core over mc (proj_spec ax m a)) (marginalize_core over mc a).
  Proof. intros Hin. fold pa. destruct MP_pa as (F1 & A1 & P1 & U1).
    destruct (marginalize_unmasked pa over mc F1 Hnd A1 P1 U1) as (S1 & I1 & Fo1 & V1).
    destruct (marginalize_unmasked a over mc Hfo Hnd Hall Hp Hu) as (S2 & I2 & Fo2 & V2).
    assert (ES : sh (marginalize_core over mc pa) = sh (marginalize_core over mc a)).
    { rewrite S1, S2. apply (drop_axes_ignores 0%nat over d); auto. }
    split; [exact ES|]. split; [rewrite I1, I2; reflexivity|]. split; [rewrite Fo1, Fo2; reflexivity|].
    intros J HJ. apply in_indices in HJ. destruct (V1 J HJ) as [E1 M1]. rewrite ES in HJ. destruct (V2 J HJ) as [E2 M2].
    split; [|rewrite M1, M2, ES; reflexivity]. rewrite E1, E2.
    apply (fiber_proj_ignored (sh a) ax n m Hax MP_n Hm). intros I l HI. apply (drop_axes_ignores 0%nat over d); auto. Qed.

  (** projecting a surviving axis before marginalising = projecting it (at its new position) afterwards *)
  Theorem marginalize_proj_kept : ~ In ax over ->
    same_spectrum (marginalize_core over mc (proj_spec ax m a))
                  (proj_spec (index_of ax (kept over d)) m (marginalize_core over mc a)).
  Proof. intros Hnin. fold pa. set (ax' := index_of ax (kept over d)). destruct MP_pa as (F1 & A1 & P1 & U1).
    destruct (marginalize_unmasked pa over mc F1 Hnd A1 P1 U1) as (S1 & I1 & Fo1 & V1).
    destruct (marginalize_unmasked a over mc Hfo Hnd Hall Hp Hu) as (S2 & I2 & Fo2 & V2).
    set (o2 := marginalize_core over mc a) in *. set (o1 := marginalize_core over mc pa) in *.
    assert (Hk : In ax (kept over d)) by (apply (kept_in over d ax Hnd Hall); split; assumption).
    assert (Hax' : (ax' < length (kept over d))%nat) by (apply index_of_lt, Hk).
    assert (Lo2 : length (sh o2) = length (kept over d)) by (rewrite S2; apply (drop_axes_length 0%nat)).
    assert (N2 : nth ax' (sh o2) 0%nat = S n).
    { rewrite S2, (drop_axes_select 0%nat). fold d. unfold select.
      rewrite (nth_indep _ 0%nat (nth 0%nat (sh a) 0%nat)) by (rewrite map_length; exact Hax').
      rewrite (map_nth (fun k => nth k (sh a) 0%nat)). unfold ax'. rewrite nth_index_of by exact Hk. apply MP_n. }
    assert (ES : sh o1 = set_nth ax' (S m) (sh o2)).
    { rewrite S1, S2. apply (drop_axes_tracks 0%nat over d); auto. }
    split; [exact ES|]. split; [cbn [proj_spec ids]; rewrite I1, I2; reflexivity|].
    split; [cbn [proj_spec fo]; rewrite Fo1, Fo2; reflexivity|].
    intros J HJ. apply in_indices in HJ. destruct (V1 J HJ) as [E1 M1]. rewrite ES in HJ.
    assert (LJ : length J = length (kept over d)) by (rewrite (inr_length _ _ HJ), set_nth_length; exact Lo2).
    cbn [proj_spec va mk]. rewrite N2. cbn [pred]. split.
    - rewrite E1.
      rewrite (proj_va_ext (sh o2) ax' n m ltac:(lia) N2 Hm (va o2) (fiber_sum (sh a) (drop_axes over) (va a)) J)
        by (first [exact HJ | intros I HI; apply V2, HI]).
      apply (fiber_proj_tracked (sh a) ax n m Hax MP_n Hm).
      + intros I l HI. apply (drop_axes_tracks 0%nat over d); auto.
      + intros I HI. rewrite (drop_axes_length 0%nat), HI. exact Hax'.
      + lia.
      + pose proof (inr_nth _ J ax' HJ ltac:(rewrite set_nth_length; lia)) as B.
        rewrite nth_set_nth_same in B by lia. lia.
    - rewrite M1, ES.
      rewrite (proj_mk_ext (sh o2) ax' n m ltac:(lia) N2 Hm (mk o2) (fun I => mc && is_corner (sh o2) I) J)
        by (first [exact HJ | intros I HI; apply V2, HI]).
      symmetry. apply (proj_mk_corner (sh o2) ax' n m); [lia | exact N2 | exact Hm | exact HJ]. Qed.
End MargProj.

(** ** same_spectrum is an equivalence; the operations respect it *)
Lemma same_spectrum_refl (x : spec R) : same_spectrum x x.
Proof. repeat split; reflexivity. Qed.
Lemma same_spectrum_sym (x y : spec R) : same_spectrum x y -> same_spectrum y x.
Proof. intros (E1 & E2 & E3 & E4). repeat split; auto; rewrite <- E1 in H; destruct (E4 J H); auto. Qed.
Lemma same_spectrum_trans (x y z : spec R) : same_spectrum x y -> same_spectrum y z -> same_spectrum x z.
Proof. intros (E1 & E2 & E3 & E4) (F1 & F2 & F3 & F4). split; [congruence|]. split; [congruence|]. split; [congruence|].
  intros J HJ. destruct (E4 J HJ) as [A1 A2]. rewrite E1 in HJ. destruct (F4 J HJ) as [B1 B2]. split; congruence. Qed.

Lemma same_spectrum_unmasked (x y : spec R) : same_spectrum x y -> unmasked x -> unmasked y.
Proof. intros (E1 & _ & _ & E4) Hu J HJ. rewrite <- E1 in HJ. destruct (E4 J (proj2 (in_indices _ _) HJ)) as [_ <-]. apply Hu, HJ. Qed.

Lemma proj_spec_cong (x y : spec R) ax m :
  same_spectrum x y -> (ax < length (sh x))%nat -> (1 <= nth ax (sh x) 0)%nat -> (m <= pred (nth ax (sh x) 0))%nat ->
  same_spectrum (proj_spec ax m x) (proj_spec ax m y).
Proof. intros (E1 & E2 & E3 & E4) Hax H1 Hm. unfold proj_spec. rewrite <- E1. cbn [sh va mk ids fo].
  split; [reflexivity|]. split; [exact E2|]. split; [exact E3|]. intros J HJ. apply in_indices in HJ. split.
  - apply (proj_va_ext (sh x) ax (pred (nth ax (sh x) 0%nat)) m Hax ltac:(lia) Hm); [|exact HJ]. intros I HI. apply E4, in_indices, HI.
  - apply (proj_mk_ext (sh x) ax (pred (nth ax (sh x) 0%nat)) m Hax ltac:(lia) Hm); [|exact HJ]. intros I HI. apply E4, in_indices, HI. Qed.

Lemma marginalize_cong (x y : spec R) over mc :
  same_spectrum x y -> fo x = false -> NoDup over -> Forall (fun k => (k < length (sh x))%nat) over -> pos (sh x) -> unmasked x ->
  same_spectrum (marginalize_core over mc x) (marginalize_core over mc y).
Proof. intros Hs Hfo Hnd Hall Hp Hu. pose proof (same_spectrum_unmasked x y Hs Hu) as Hu'. destruct Hs as (E1 & E2 & E3 & E4).
  destruct (marginalize_unmasked x over mc Hfo Hnd Hall Hp Hu) as (S1 & I1 & Fo1 & V1).
  destruct (marginalize_unmasked y over mc ltac:(congruence) Hnd ltac:(rewrite <- E1; exact Hall) ltac:(rewrite <- E1; exact Hp) Hu')
    as (S2 & I2 & Fo2 & V2).
  assert (ES : sh (marginalize_core over mc x) = sh (marginalize_core over mc y)) by congruence.
  split; [exact ES|]. split; [congruence|]. split; [congruence|]. intros J HJ. apply in_indices in HJ.
  destruct (V1 J HJ) as [A1 A2]. rewrite ES in HJ. destruct (V2 J HJ) as [B1 B2]. split; [|congruence].
  rewrite A1, B1, <- E1. rewrite !fiber_sum_big. apply (big_ext R Rplus 0). intros I HI.
  rewrite (proj1 (E4 I HI)). reflexivity. Qed.

(** ** (i) marginalize and Spectrum.project: any set of axes, any targets *)
Definition proj_list (ps : list (nat * nat)) (a : spec R) : spec R :=
  fold_left (fun o p => proj_spec (fst p) (snd p) o) ps a.
(** the loop of Spectrum.project(ns): axis k to ns[k], k = 0, 1, ... *)
Definition proj_all (ns : list nat) (a : spec R) : spec R := proj_list (combine (seq 0 (length ns)) ns) a.

Definition good_targets (ps : list (nat * nat)) (a : spec R) : Prop :=
  NoDup (map fst ps) /\ Forall (fun p => (fst p < length (sh a))%nat /\ (snd p <= pred (nth (fst p) (sh a) 0))%nat) ps.

Lemma proj_list_snoc ps p a : proj_list (ps ++ [p]) a = proj_spec (fst p) (snd p) (proj_list ps a).
Proof. unfold proj_list. rewrite fold_left_app. reflexivity. Qed.

Lemma good_targets_snoc ps p a : good_targets (ps ++ [p]) a ->
  good_targets ps a /\ ~ In (fst p) (map fst ps) /\ (fst p < length (sh a))%nat /\ (snd p <= pred (nth (fst p) (sh a) 0))%nat.
Proof. intros [Hnd Hall]. rewrite map_app in Hnd. cbn [map] in Hnd. apply Forall_app in Hall as [Hall Hp]. inversion Hp; subst.
  apply NoDup_remove in Hnd as [N1 N2]. rewrite app_nil_r in N1, N2.
  split; [split; assumption|]. split; [exact N2|tauto]. Qed.

Lemma proj_list_inv ps : forall a, fo a = false -> pos (sh a) -> unmasked a -> good_targets ps a ->
  let b := proj_list ps a in
  fo b = false /\ length (sh b) = length (sh a) /\ pos (sh b) /\ unmasked b /\ ids b = ids a /\
  (forall k, ~ In k (map fst ps) -> nth k (sh b) 0%nat = nth k (sh a) 0%nat).
Proof. induction ps as [|p ps IH] using rev_ind; intros a Hfo Hp Hu Hg.
  - cbn. repeat split; auto.
  - apply good_targets_snoc in Hg as (Hg & Hnin & Hax & Hm). rewrite proj_list_snoc.
    destruct (IH a Hfo Hp Hu Hg) as (F & L & P & U & I & N). cbv zeta. set (b := proj_list ps a) in *.
    assert (Hax' : (fst p < length (sh b))%nat) by lia.
    split; [exact F|]. split; [cbn [proj_spec sh]; rewrite set_nth_length; exact L|].
    split; [apply set_nth_pos'; [lia|exact P]|]. split; [|split; [exact I|]].
    + apply proj_spec_unmasked; auto. rewrite (N _ Hnin). exact Hm.
    + intros k Hk. rewrite map_app, in_app_iff in Hk. cbn [proj_spec sh]. rewrite nth_set_nth_other by (intros ->; apply Hk; right; left; reflexivity).
      apply N. tauto. Qed.

Definition image_targets (over : list nat) (d : nat) (ps : list (nat * nat)) : list (nat * nat) :=
  flat_map (fun p => if memb (fst p) over then [] else [(index_of (fst p) (kept over d), snd p)]) ps.

Lemma memb_In x l : memb x l = true <-> In x l.
Proof. unfold memb. rewrite existsb_exists. split.
  - intros (y & Hy & E). apply Nat.eqb_eq in E. subst. exact Hy.
  - intros Hx. exists x. split; [exact Hx | apply Nat.eqb_refl]. Qed.

Theorem marginalize_proj_list ps : forall (a : spec R) over mc,
  fo a = false -> NoDup over -> Forall (fun k => (k < length (sh a))%nat) over -> pos (sh a) -> unmasked a ->
  good_targets ps a ->
  same_spectrum (marginalize_core over mc (proj_list ps a))
                (proj_list (image_targets over (length (sh a)) ps) (marginalize_core over mc a)).
Proof. induction ps as [|p ps IH] using rev_ind; intros a over mc Hfo Hnd Hall Hp Hu Hg.
  - apply same_spectrum_refl.
  - apply good_targets_snoc in Hg as (Hg & Hnin & Hax & Hm). rewrite proj_list_snoc.
    destruct (proj_list_inv ps a Hfo Hp Hu Hg) as (F & L & P & U & I & N). set (b := proj_list ps a) in *.
    specialize (IH a over mc Hfo Hnd Hall Hp Hu Hg). fold b in IH.
    assert (Hall' : Forall (fun k => (k < length (sh b))%nat) over) by (rewrite L; exact Hall).
    assert (Hm' : (snd p <= pred (nth (fst p) (sh b) 0))%nat) by (rewrite (N _ Hnin); exact Hm).
    unfold image_targets. rewrite flat_map_app. cbn [flat_map]. rewrite app_nil_r. fold (image_targets over (length (sh a)) ps).
    destruct (memb (fst p) over) eqn:Emb.
    + apply memb_In in Emb. rewrite app_nil_r.
      eapply same_spectrum_trans; [|exact IH].
      apply (marginalize_proj_dropped b over mc (fst p) (snd p) F Hnd Hall' P U ltac:(lia) Hm' Emb).
    + assert (Hni : ~ In (fst p) over) by (intros Hin; apply memb_In in Hin; congruence).
      rewrite proj_list_snoc. cbn [fst snd].
      eapply same_spectrum_trans.
      * apply (marginalize_proj_kept b over mc (fst p) (snd p) F Hnd Hall' P U ltac:(lia) Hm' Hni).
      * rewrite L.
        destruct (marginalize_unmasked b over mc F Hnd Hall' P U) as (S1 & _ & _ & _).
        assert (Hk : In (fst p) (kept over (length (sh a)))) by (apply (kept_in over _ _ Hnd Hall); split; [lia|exact Hni]).
        assert (Hax' : (index_of (fst p) (kept over (length (sh a))) < length (kept over (length (sh a))))%nat) by (apply index_of_lt, Hk).
        assert (N2 : nth (index_of (fst p) (kept over (length (sh a)))) (sh (marginalize_core over mc b)) 0%nat = nth (fst p) (sh b) 0%nat).
        { rewrite S1, (drop_axes_select 0%nat), L. unfold select.
          rewrite (nth_indep _ 0%nat (nth 0%nat (sh b) 0%nat)) by (rewrite map_length; exact Hax').
          rewrite (map_nth (fun k => nth k (sh b) 0%nat)). rewrite nth_index_of by exact Hk. reflexivity. }
        apply proj_spec_cong; [exact IH| | |].
        -- rewrite S1, (drop_axes_length 0%nat), L. exact Hax'.
        -- rewrite N2. apply pos_nth; [exact P|lia].
        -- rewrite N2. exact Hm'. Qed.

(** the targets of the surviving axes, in their new positions, are [drop_axes over ns] *)
Lemma map_nth_seq' {B} (x : list B) e : map (fun i => nth i x e) (seq 0 (length x)) = x.
Proof. induction x; [reflexivity|]. cbn [length]. change (seq 0 (S (length x))) with (0%nat :: seq 1 (length x)). cbn [map nth]. f_equal.
  rewrite <- seq_shift, map_map. exact IHx. Qed.
Lemma combine_id_map' {B C} (F : B -> C) l : combine l (map F l) = map (fun i => (i, F i)) l.
Proof. induction l; cbn; [reflexivity|]. rewrite IHl. reflexivity. Qed.
Lemma combine_seq_nth (ns : list nat) : combine (seq 0 (length ns)) ns = map (fun k => (k, nth k ns 0%nat)) (seq 0 (length ns)).
Proof. rewrite <- (combine_id_map' (fun k => nth k ns 0%nat)). rewrite map_nth_seq'. reflexivity. Qed.
Lemma flat_map_filter {B C} (P : B -> bool) (G : B -> C) l :
  flat_map (fun x => if P x then [] else [G x]) l = map G (filter (fun x => negb (P x)) l).
Proof. induction l; cbn; [reflexivity|]. destruct (P a); cbn; rewrite IHl; reflexivity. Qed.
Lemma combine_seq_index {C} (g : nat -> C) l : NoDup l -> forall a,
  combine (seq a (length l)) (map g l) = map (fun k => ((a + index_of k l)%nat, g k)) l.
Proof. induction 1 as [|x l Hx Hnd IH]; intros a; [reflexivity|]. cbn [length seq map combine index_of].
  rewrite Nat.eqb_refl, Nat.add_0_r. f_equal. rewrite IH. apply map_ext_in. intros k Hk.
  destruct (Nat.eqb_spec k x) as [->|Hne]; [contradiction|]. f_equal. lia. Qed.

Lemma image_targets_all over ns : NoDup over -> Forall (fun k => (k < length ns)%nat) over ->
  image_targets over (length ns) (combine (seq 0 (length ns)) ns)
  = combine (seq 0 (length (drop_axes over ns))) (drop_axes over ns).
Proof. intros Hnd Hall. rewrite (combine_seq_nth ns). set (d := length ns) in *.
  rewrite (drop_axes_select 0%nat over ns). fold d. unfold select. rewrite map_length.
  rewrite (combine_seq_index (fun k => nth k ns 0%nat) (kept over d) (kept_NoDup over d Hnd Hall) 0%nat).
  unfold image_targets.
  rewrite flat_map_concat_map, map_map, <- flat_map_concat_map. cbn [fst snd].
  rewrite (flat_map_filter (fun k => memb k over) (fun k => (index_of k (kept over d), nth k ns 0%nat))).
  rewrite <- (kept_filter over d Hnd Hall). reflexivity. Qed.

(** marginalize(project(ns)) = project(ns restricted to the surviving axes)(marginalize):
    shape, labels, folded flag, data and mask at every entry *)
Theorem marginalize_commutes_with_projection (a : spec R) over mc ns :
  fo a = false -> NoDup over -> Forall (fun k => (k < length (sh a))%nat) over -> pos (sh a) -> unmasked a ->
  length ns = length (sh a) -> Forall2 (fun m s => (m < s)%nat) ns (sh a) ->
  same_spectrum (marginalize_core over mc (proj_all ns a))
                (proj_all (drop_axes over ns) (marginalize_core over mc a)).
Proof. intros Hfo Hnd Hall Hp Hu Hl Hns. unfold proj_all. rewrite <- image_targets_all by (rewrite ?Hl; assumption).
  rewrite Hl. apply marginalize_proj_list; auto. rewrite <- Hl. split.
  - rewrite (combine_seq_nth ns), map_map. cbn [fst]. rewrite map_id. apply seq_NoDup.
  - apply Forall_forall. intros [k m] Hin. cbn [fst snd].
    rewrite (combine_seq_nth ns) in Hin. apply in_map_iff in Hin as (k' & E & Hk').
    injection E as -> <-. apply in_seq in Hk'. split; [lia|].
    pose proof (Forall2_nth (fun m s => (m < s)%nat) 0%nat 0%nat ns (sh a) k Hns ltac:(lia)). lia. Qed.

(** ** (ii) combine_two_pops and projection of an axis that is not merged *)
Lemma merge2_tracks {A} (op : A -> A -> A) (dflt : A) t0 t1 ax (l : A) I : ax <> t0 -> ax <> t1 ->
  merge2 op dflt t0 t1 (set_nth ax l I) = set_nth (if (ax <? t1)%nat then ax else (ax - 1)%nat) l (merge2 op dflt t0 t1 I).
Proof. intros H0 H1. unfold merge2. rewrite !nth_set_nth_other by auto. rewrite (set_nth_comm t0 ax) by auto.
  destruct (Nat.ltb_spec ax t1).
  - symmetry. apply set_nth_remove_nth. assumption.
  - rewrite (set_nth_remove_gt t1 (ax - 1)) by lia. replace (S (ax - 1)) with ax by lia. reflexivity. Qed.

Lemma merge2_length {A} (op : A -> A -> A) (dflt : A) t0 t1 (I : list A) : (t1 < length I)%nat ->
  length (merge2 op dflt t0 t1 I) = pred (length I).
Proof. intros H1. unfold merge2. rewrite remove_nth_length; rewrite set_nth_length; [reflexivity|exact H1]. Qed.

Lemma merge2_nth_other {A} (op : A -> A -> A) (dflt : A) t0 t1 ax (I : list A) : ax <> t0 -> ax <> t1 ->
  nth (if (ax <? t1)%nat then ax else (ax - 1)%nat) (merge2 op dflt t0 t1 I) dflt = nth ax I dflt.
Proof. intros H0 H1. unfold merge2. destruct (Nat.ltb_spec ax t1).
  - rewrite nth_remove_lt by assumption. apply nth_set_nth_other. assumption.
  - rewrite nth_remove_ge by lia. replace (S (ax - 1)) with ax by lia. apply nth_set_nth_other. assumption. Qed.

Theorem combine_two_commutes_with_projection (a : spec R) p q ax m :
  (1 <= p <= length (sh a))%nat -> (1 <= q <= length (sh a))%nat -> p <> q ->
  pos (sh a) -> unmasked a ->
  (ax < length (sh a))%nat -> ax <> pred p -> ax <> pred q -> (m <= pred (nth ax (sh a) 0))%nat ->
  let ax' := if (ax <? pred (Nat.max p q))%nat then ax else (ax - 1)%nat in
  same_spectrum (combine_two_pops p q (proj_spec ax m a)) (proj_spec ax' m (combine_two_pops p q a)).
Proof. intros Hp Hq Hpq Hpos Hu Hax Hap Haq Hm ax'.
  set (t0 := pred (Nat.min p q)). set (t1 := pred (Nat.max p q)). fold t1 in ax'.
  set (n := pred (nth ax (sh a) 0%nat)) in *.
  assert (Hn : nth ax (sh a) 0%nat = S n) by (pose proof (pos_nth ax (sh a) Hpos Hax); unfold n; lia).
  assert (H0 : ax <> t0) by (unfold t0; lia). assert (H1 : ax <> t1) by (unfold t1; lia).
  assert (T0 : (t0 < length (sh a))%nat) by (unfold t0; lia). assert (T1 : (t1 < length (sh a))%nat) by (unfold t1; lia).
  set (pa := proj_spec ax m a).
  assert (Lpa : length (sh pa) = length (sh a)) by apply set_nth_length.
  assert (Upa : unmasked pa) by (apply proj_spec_unmasked; assumption).
  destruct (combine_two_spec pa p q ltac:(rewrite Lpa; exact Hp) ltac:(rewrite Lpa; exact Hq) Hpq) as (S1 & F1 & I1 & V1 & _).
  destruct (combine_two_spec a p q Hp Hq Hpq) as (S2 & F2 & I2 & V2 & _).
  fold t0 t1 in S1, I1, V1, S2, I2, V2. set (o1 := combine_two_pops p q pa) in *. set (o2 := combine_two_pops p q a) in *.
  assert (Lo2 : length (sh o2) = pred (length (sh a))) by (rewrite S2; apply merge2_length; exact T1).
  assert (Hax' : (ax' < length (sh o2))%nat) by (rewrite Lo2; unfold ax'; destruct (Nat.ltb_spec ax t1); lia).
  assert (N2 : nth ax' (sh o2) 0%nat = S n) by (rewrite S2; unfold ax'; rewrite merge2_nth_other by assumption; exact Hn).
  assert (ES : sh o1 = set_nth ax' (S m) (sh o2)).
  { rewrite S1, S2. cbn [proj_spec sh pa]. unfold pa. cbn [proj_spec sh]. apply merge2_tracks; assumption. }
  assert (Mo2 : forall I, inr (sh o2) I -> mk o2 I = true && is_corner (sh o2) I).
  { intros I HI. rewrite (proj2 (V2 I HI)). cbn [andb]. rewrite <- (orb_false_r (is_corner (sh o2) I)) at 2. f_equal.
    unfold fiber_any. apply existsb_false. intros I0 HI0. apply in_indices in HI0. rewrite Hu by exact HI0. apply andb_false_r. }
  split; [exact ES|]. split; [cbn [proj_spec ids]; rewrite I1, I2; reflexivity|].
  split; [cbn [proj_spec fo]; rewrite F1, F2; reflexivity|].
  intros K HK. apply in_indices in HK. destruct (V1 K HK) as [E1 M1]. rewrite ES in HK.
  assert (LK : length K = length (sh o2)) by (rewrite (inr_length _ _ HK); apply set_nth_length).
  cbn [proj_spec va mk]. rewrite N2. cbn [pred]. split.
  - rewrite E1. unfold pa at 1 2. cbn [proj_spec sh va]. fold n.
    rewrite (proj_va_ext (sh o2) ax' n m Hax' N2 Hm (va o2) (fiber_sum (sh a) (merge2 Nat.add 0%nat t0 t1) (va a)) K)
      by (first [exact HK | intros I HI; apply V2, HI]).
    apply (fiber_proj_tracked (sh a) ax n m Hax Hn Hm).
    + intros I l HI. apply merge2_tracks; assumption.
    + intros I HI. rewrite merge2_length by (rewrite HI; exact T1). rewrite HI, <- Lo2. exact Hax'.
    + rewrite LK. exact Hax'.
    + pose proof (inr_nth _ K ax' HK ltac:(rewrite set_nth_length; exact Hax')) as B.
      rewrite nth_set_nth_same in B by exact Hax'. lia.
  - rewrite M1, ES.
    assert (Ef : fiber_any (sh pa) (merge2 Nat.add 0%nat t0 t1) (mk pa) K = false).
    { unfold fiber_any. apply existsb_false. intros I0 HI0. apply in_indices in HI0. rewrite Upa by exact HI0. apply andb_false_r. }
    rewrite Ef, orb_false_r.
    rewrite (proj_mk_ext (sh o2) ax' n m Hax' N2 Hm (mk o2) (fun I => true && is_corner (sh o2) I) K) by (first [exact HK | exact Mo2]).
    rewrite (proj_mk_corner (sh o2) ax' n m Hax' N2 Hm true K HK). reflexivity. Qed.

(** ** bridge: [proj_va] / [proj_mk] are the entries of Model/Projection.v's [proj_axis] (Spectrum._project_one_axis) *)
Lemma upd_set_nth ax j (I : idx) : (ax < length I)%nat -> ProjTensor.upd ax j I = set_nth ax j I.
Proof. unfold ProjTensor.upd. revert ax. induction I as [|i I IH]; intros [|ax] Hax; cbn in *; try lia; [reflexivity|].
  f_equal. apply IH. lia. Qed.

Theorem proj_va_is_tensor_projection d ax n m shp (x : tens R d) (I : idx) :
  ProjTensor.wf d shp x -> (ax < d)%nat -> length I = d -> nth ax shp 0%nat = S n -> (m <= n)%nat -> (nth ax I 0 <= m)%nat ->
  ProjTensor.tget 0 d I (proj_axis 0 Rplus d ax (pcoef n m) m x)
  = proj_va ax n m (fun I' => ProjTensor.tget 0 d I' x) I.
Proof. intros Hw Hax HI Hn Hm Hi. rewrite (ProjSpectrum.project_entry_hypergeometric d ax n m shp x I Hw Hax HI Hn Hm Hi).
  unfold proj_va. rewrite bigR_rsum. apply rsum_ext. intros j _. rewrite upd_set_nth by lia. reflexivity. Qed.

Theorem proj_mk_is_tensor_projection d ax n m shp (b : tens bool d) (I : idx) :
  ProjTensor.wf d shp b -> (ax < d)%nat -> length I = d -> nth ax shp 0%nat = S n -> (m <= n)%nat -> (nth ax I 0 <= m)%nat ->
  ProjTensor.tget false d I (proj_axis false orb d ax (pmask n m) m b)
  = proj_mk ax n m (fun I' => ProjTensor.tget false d I' b) I.
Proof. intros Hw Hax HI Hn Hm Hi. apply eq_true_iff_eq.
  rewrite (ProjSpectrum.mask_spreads_exactly d ax n m shp b I Hw Hax HI Hn Hm Hi). unfold proj_mk. rewrite existsb_exists. split.
  - intros (j & Hj & Hb & Hpos). exists j. split; [apply in_seq; lia|]. apply andb_true_iff. split.
    + apply (H_pos_iff n m j _ Hm Hj). exact Hpos.
    + rewrite <- upd_set_nth by lia. exact Hb.
  - intros (j & Hj & Hc). apply in_seq in Hj. apply andb_true_iff in Hc as [Hw' Hb]. exists j. split; [lia|]. split.
    + rewrite upd_set_nth by lia. exact Hb.
    + apply (H_pos_iff n m j _ Hm ltac:(lia)). exact Hw'. Qed.
