(** C18: entries of N-dimensional arrays ([tget], 0 outside the array): shape-free algebra of addition,
    scaling, matrix application along an axis, index-aware map and fold. *)
From Coq Require Import ZArith QArith Qreduction List Bool Arith Lia Lqa Setoid Morphisms.
From Dadi Require Import Model.LowPass Proofs.LowPassQ Proofs.LowPassTens.
Import ListNotations.
Local Open Scope Q_scope.

Lemma tget_cons d (l : list (tens d)) i idx :
  tget (S d) l (i :: idx) = match nth_error l i with Some x => tget d x idx | None => 0 end.
Proof. reflexivity. Qed.
Lemma tget_nil d (l : list (tens d)) : tget (S d) l [] = 0.
Proof. reflexivity. Qed.

Lemma tget_cons_nil d i idx : tget (S d) (@nil (tens d)) (i :: idx) = 0.
Proof. rewrite tget_cons. destruct i; reflexivity. Qed.
Lemma tget_cons_0 d (a : tens d) (l : list (tens d)) idx : tget (S d) (a :: l) (0%nat :: idx) = tget d a idx.
Proof. reflexivity. Qed.
Lemma tget_cons_S d (a : tens d) (l : list (tens d)) i idx : tget (S d) (a :: l) (S i :: idx) = tget (S d) l (i :: idx).
Proof. reflexivity. Qed.

Lemma tget_map d (f : tens d -> tens d) (l : list (tens d)) i idx :
  tget (S d) (map f l) (i :: idx) = match nth_error l i with Some x => tget d (f x) idx | None => 0 end.
Proof. revert i. induction l as [|a l IH]; intros [|i]; cbn [map nth_error]; rewrite ?tget_cons_nil, ?tget_cons_0, ?tget_cons_S; auto. Qed.

Lemma tget_tadd : forall d x y idx, tget d (tadd d x y) idx == tget d x idx + tget d y idx.
Proof.
  induction d as [|d IH]; intros x y idx.
  - cbn [tget tadd]. apply Qred_correct.
  - destruct idx as [|i idx]; [rewrite !tget_nil; lra|]. cbn [tadd]. revert y i.
    induction x as [|a x IHx]; intros y i; cbn [ladd].
    + rewrite tget_cons_nil. lra.
    + destruct y as [|b y]; [rewrite tget_cons_nil; lra|].
      destruct i as [|i]; rewrite ?tget_cons_0, ?tget_cons_S; [apply IH | apply IHx].
Qed.

Lemma tget_tscale : forall d c x idx, tget d (tscale d c x) idx == c * tget d x idx.
Proof.
  induction d as [|d IH]; intros c x idx; [reflexivity|].
  destruct idx as [|i idx]; [rewrite !tget_nil; ring|]. cbn [tscale]. rewrite tget_map, tget_cons.
  destruct (@nth_error (tens d) x i); [apply IH | ring].
Qed.

Lemma tget_tnil d idx : tget d (tnil d) idx == 0.
Proof. destruct d; [reflexivity|]. destruct idx as [|i idx]; [reflexivity|]. rewrite tget_cons. destruct i; reflexivity. Qed.

Lemma tget_tlincomb d cs xs idx :
  tget d (tlincomb d cs xs) idx == qsum (map (fun p => fst p * tget d (snd p) idx) (combine cs xs)).
Proof.
  unfold tlincomb. induction (combine cs xs) as [|p l IH]; cbn [fold_right map].
  - rewrite qsum_nil. apply tget_tnil.
  - rewrite tget_tadd, tget_tscale, IH, qsum_cons. reflexivity.
Qed.

(** replace the index along one axis *)
Fixpoint upd (ax a : nat) (idx : list nat) : list nat :=
  match idx with
  | [] => []
  | i :: t => match ax with O => a :: t | S ax' => i :: upd ax' a t end
  end.

Lemma upd_length : forall ax a idx, length (upd ax a idx) = length idx.
Proof. induction ax; destruct idx; cbn; auto. Qed.
Lemma upd_nth : forall ax a idx, (ax < length idx)%nat -> nth ax (upd ax a idx) 0%nat = a.
Proof. induction ax; destruct idx; cbn; intros; try lia; auto. apply IHax. lia. Qed.
Lemma upd_upd : forall ax a b idx, upd ax b (upd ax a idx) = upd ax b idx.
Proof. induction ax; destruct idx; cbn; auto. now rewrite IHax. Qed.

Lemma nth_error_map_seq {A} (g : nat -> A) n j : nth_error (map g (seq 0 n)) j = if (j <? n)%nat then Some (g j) else None.
Proof.
  destruct (Nat.ltb_spec j n).
  - rewrite nth_error_map, nth_error_nth' with (d := 0%nat) by (rewrite seq_length; lia). rewrite seq_nth by lia. reflexivity.
  - apply nth_error_None. rewrite map_length, seq_length. lia.
Qed.

Lemma combine_sum_seq {A B} (h : A -> Q) (g : B -> Q) (dflt : A) : forall (M : list A) (x : list B),
  qsum (map (fun p => h (fst p) * g (snd p)) (combine M x))
  == qsum (map (fun a => h (nth a M dflt) * match nth_error x a with Some xa => g xa | None => 0 end) (seq 0 (length M))).
Proof.
  induction M as [|m M IH]; intros x; [reflexivity|].
  cbn [length]. rewrite <- cons_seq, <- seq_shift. cbn [map]. rewrite map_map, qsum_cons.
  destruct x as [|b x]; cbn [combine map fst snd nth nth_error]; rewrite ?qsum_cons, ?qsum_nil.
  - rewrite qsum_zero; [ring|]. intros a _. cbn [nth_error]. ring.
  - rewrite IH. reflexivity.
Qed.

(** entries after applying a matrix along an axis *)
Theorem tget_tapply : forall d ax M ncols x idx, (ax < d)%nat -> length idx = d ->
  tget d (tapply d ax M ncols x) idx ==
  if (nth ax idx 0 <? ncols)%nat
  then qsum (map (fun a => nth (nth ax idx 0%nat) (nth a M []) 0 * tget d x (upd ax a idx)) (seq 0 (length M)))
  else 0.
Proof.
  induction d as [|d IH]; intros ax M ncols x idx Hax Hl; [lia|].
  destruct idx as [|i idx]; [discriminate|]. cbn [length] in Hl.
  destruct ax as [|ax]; cbn [tapply nth].
  - rewrite tget_cons, nth_error_map_seq. destruct (i <? ncols)%nat; [|reflexivity].
    rewrite tget_tlincomb. unfold column. rewrite combine_map_l, map_map. cbn [fst snd].
    rewrite (combine_sum_seq (fun row => nth i row 0) (fun xa => tget d xa idx) []).
    apply qsum_map_ext. intros a _. cbn [upd]. rewrite tget_cons. reflexivity.
  - rewrite tget_map. destruct (@nth_error (tens d) x i) as [xi|] eqn:E.
    + rewrite IH by lia. destruct (nth ax idx 0 <? ncols)%nat; [|reflexivity].
      apply qsum_map_ext. intros a _. cbn [upd]. rewrite tget_cons, E. reflexivity.
    + destruct (nth ax idx 0 <? ncols)%nat; [|reflexivity]. symmetry. apply qsum_zero.
      intros a _. cbn [upd]. rewrite tget_cons, E. ring.
Qed.

(** ** a predicate on all (index, entry) pairs of an array *)
Fixpoint talli (d : nat) (P : list nat -> Q -> Prop) (pre : list nat) : tens d -> Prop :=
  match d with
  | O => fun a => P pre a
  | S d' => fun (l : list (tens d')) => forall i (sub : tens d'), @nth_error (tens d') l i = Some sub -> talli d' P (pre ++ [i]) sub
  end.

Lemma talli_of_tget : forall d (P : list nat -> Q -> Prop) pre x,
  (forall idx, length idx = d -> P (pre ++ idx) (tget d x idx)) -> talli d P pre x.
Proof.
  induction d as [|d IH]; intros P pre x H.
  - specialize (H [] eq_refl). rewrite app_nil_r in H. exact H.
  - intros i sub Hs. apply IH. intros idx Hl. specialize (H (i :: idx) ltac:(cbn; lia)).
    rewrite tget_cons, Hs in H. rewrite <- app_assoc. exact H.
Qed.

Lemma nth_error_mapi_from {A B} (F : nat -> A -> B) : forall l k i,
  nth_error (mapi_from F k l) i = option_map (F (k + i)%nat) (nth_error l i).
Proof.
  induction l as [|a l IH]; intros k i; [destruct i; reflexivity|].
  destruct i; cbn [mapi_from nth_error option_map]; [now rewrite Nat.add_0_r|].
  rewrite IH. now replace (S k + i)%nat with (k + S i)%nat by lia.
Qed.

Lemma tget_mapi_from d (F : nat -> tens d -> tens d) (l : list (tens d)) : forall k i idx,
  tget (S d) (mapi_from F k l) (i :: idx) = match nth_error l i with Some x => tget d (F (k + i)%nat x) idx | None => 0 end.
Proof.
  induction l as [|a l IH]; intros k [|i] idx; cbn [mapi_from nth_error]; rewrite ?tget_cons_nil, ?tget_cons_0, ?tget_cons_S; auto.
  - now rewrite Nat.add_0_r.
  - rewrite IH. now replace (S k + i)%nat with (k + S i)%nat by lia.
Qed.

(** an index-aware map that fixes every entry (up to ==) does not change any entry *)
Lemma tmapi_fix_tget : forall d g pre x, talli d (fun idx m => g idx m == m) pre x ->
  forall idx, tget d (tmapi d g pre x) idx == tget d x idx.
Proof.
  induction d as [|d IH]; intros g pre x H idx; [exact H|].
  destruct idx as [|i idx]; [reflexivity|]. cbn [tmapi]. rewrite tget_mapi_from, tget_cons.
  destruct (@nth_error (tens d) x i) as [xi|] eqn:E; [|reflexivity].
  apply IH. cbn [Nat.add]. apply (H i xi E).
Qed.

(** fold with an invariant *)
Lemma tfoldi_inv {B} (R : B -> Prop) : forall d (f : list nat -> Q -> B -> B) pre x acc,
  talli d (fun idx m => forall a, R a -> R (f idx m a)) pre x -> R acc -> R (tfoldi d f pre x acc).
Proof.
  induction d as [|d IH]; intros f pre x acc H Hacc; [apply H, Hacc|].
  cbn [tfoldi]. cbn [talli] in H.
  assert (G : forall l k a, (forall i sub, nth_error l i = Some sub -> talli d (fun idx m => forall a, R a -> R (f idx m a)) (pre ++ [(k + i)%nat]) sub) ->
                            R a -> R (foldi_from (fun i sub acc' => tfoldi d f (pre ++ [i]) sub acc') k l a)).
  { induction l as [|y l IHl]; intros k a Hl Ha; [exact Ha|]. cbn [foldi_from]. apply IHl.
    - intros i sub Hs. replace (S k + i)%nat with (k + S i)%nat by lia. apply Hl. exact Hs.
    - apply IH; [|exact Ha]. specialize (Hl 0%nat y eq_refl). now rewrite Nat.add_0_r in Hl. }
  apply G; [|exact Hacc]. intros i sub Hs. cbn [Nat.add]. apply H, Hs.
Qed.
