(** C14 — round-trip theorems for the file format and the pickle reduce tuple (Model/FileFormat.v).

    Oracle (Section variables): [fmt p x] = the text '%.<p>g' prints, [parse t] = the number numpy reads,
    with  [parse (fmt p x) = round p x]  and  "a formatted number is a non-empty string without white space".
    Everything else (layout, tokenisation, header, labels, mask line, comments, line splitting) is concrete. *)
From Coq Require Import String Ascii List Bool Arith NArith ZArith Lia.
From Dadi Require Import Model.FileFormat Proofs.FileFormatBase.
Import ListNotations.
Local Open Scope list_scope.
Local Open Scope string_scope.

(* ------------------------------------------------------------------------------------------- *)
(** * oracle-free pieces *)

Definition flagstr (f : bool) : string := if negb f then "unfolded" else "folded".

Lemma flagstr_tok : forall f, tok_ok (flagstr f) = true.
Proof. destruct f; reflexivity. Qed.

Lemma flagstr_flag : forall f, is_flag (flagstr f) = true.
Proof. destruct f; reflexivity. Qed.

Lemma flagstr_folded : forall f, String.eqb (flagstr f) "folded" = f.
Proof. destruct f; reflexivity. Qed.

Lemma nospace_nonl : forall c, negb (is_space c) = true -> negb (is_nl c) = true.
Proof.
  intros c H. unfold is_nl. apply negb_true_iff. apply negb_true_iff in H.
  destruct (Ascii.eqb_spec c LF) as [->|]; [discriminate|].
  destruct (Ascii.eqb_spec c CR) as [->|]; [discriminate|]. reflexivity.
Qed.

Lemma tok_no_nl : forall t, tok_ok t = true -> no_nl t = true.
Proof.
  intros t H. unfold tok_ok in H. apply andb_true_iff in H as [_ H].
  exact (sall_impl _ _ nospace_nonl t H).
Qed.

Lemma join_no_nl : forall ts, Forall (fun t => tok_ok t = true) ts -> no_nl (join " " ts) = true.
Proof.
  induction ts as [|t ts IH]; intros H; [reflexivity|].
  inversion H as [|? ? Ht Hts]; subst. destruct ts as [|u r].
  - simpl. apply tok_no_nl; exact Ht.
  - rewrite join_cons2. pose proof (tok_no_nl t Ht) as H1. pose proof (IH Hts) as H2.
    unfold no_nl in *. rewrite !sall_app. rewrite H1, H2. reflexivity.
Qed.

Lemma tok_of_bool_tok : forall m, Forall (fun t => tok_ok t = true) (map tok_of_bool m).
Proof. induction m as [|[] m]; simpl; constructor; auto. Qed.

Lemma mask_of_tokens_written : forall m, mask_of_tokens (map tok_of_bool m) = Some m.
Proof. induction m as [|[] m]; simpl; [reflexivity| |]; rewrite IHm; reflexivity. Qed.

Lemma nprod_pos : forall sh, forallb (fun n => Nat.leb 1 n) sh = true -> 1 <= nprod sh.
Proof.
  induction sh; cbn [forallb nprod fold_right]; intros H; [lia|].
  apply andb_true_iff in H as [H1 H2]. apply Nat.leb_le in H1. specialize (IHsh H2).
  fold (nprod sh). nia.
Qed.

(** comment block written by to_file / array_to_file, read back *)
Lemma skip_comments_written : forall cs h rest, starts_hash h = false ->
  skip_comments (map (comment_line NL) cs ++ h :: rest) = (map strip cs, h :: rest).
Proof.
  induction cs as [|c cs IH]; intros h rest H.
  - simpl. rewrite H. reflexivity.
  - cbn [map app].
    change (comment_line NL c) with (String HASH (String SP (strip c ++ NL))).
    cbn [skip_comments starts_hash stail]. rewrite Ascii.eqb_refl.
    rewrite (IH h rest H). rewrite strip_comment_body. reflexivity.
Qed.

Lemma comment_line_is_line : forall c, comment_ok c = true -> is_line (comment_line NL c).
Proof.
  intros c H. exists ("# " ++ strip c). split.
  - unfold comment_line. rewrite sapp_assoc. reflexivity.
  - unfold no_nl. rewrite sall_app. exact H.
Qed.

(** ** the shape line *)

Definition hdr (sh : list nat) (f : bool) (labels : option (list string)) : string :=
  shape_text sh ++ (flagstr f ++ label_text labels) ++ NL.

Lemma shape_loop_written : forall sh f after,
  shape_loop (map print_nat sh ++ flagstr f :: after) = Some (sh, f, after).
Proof.
  induction sh as [|n sh IH]; intros f after.
  - cbn [map app shape_loop]. rewrite flagstr_flag, flagstr_folded. reflexivity.
  - cbn [map app shape_loop]. rewrite print_nat_not_flag, parse_print_nat, IH. reflexivity.
Qed.

Lemma no_flag_in_dims : forall sh, existsb is_flag (map print_nat sh) = false.
Proof. induction sh; simpl; [reflexivity|]. rewrite print_nat_not_flag, IHsh. reflexivity. Qed.

Lemma label_ok_noq : forall l, label_ok l = true -> noc QU l = true.
Proof.
  intros l H. unfold label_ok in H. unfold noc.
  refine (sall_impl _ _ _ l H). intros c Hc. apply andb_true_iff in Hc as [_ Hc]. exact Hc.
Qed.

Lemma label_ok_nonl : forall l, label_ok l = true -> no_nl l = true.
Proof.
  intros l H. unfold label_ok in H. unfold no_nl.
  refine (sall_impl _ _ _ l H). intros c Hc. apply andb_true_iff in Hc as [Hc _]. exact Hc.
Qed.

Lemma parse_header_new : forall sh f labels,
  sh <> [] -> labels_len_ok sh labels = true ->
  (forall ls, labels = Some ls -> forallb label_ok ls = true) ->
  parse_header (hdr sh f labels) = Some (sh, f, labels).
Proof.
  intros sh f labels Hne Hlen Hlab.
  assert (Hsplit : split_ws (hdr sh f labels)
                   = (map print_nat sh ++ flagstr f :: split_ws (stail (label_text labels ++ NL)))%list).
  { unfold hdr. rewrite split_shape_text. f_equal. rewrite sapp_assoc.
    destruct labels as [[|l ls]|]; cbn [label_text map sconcat].
    - change ("" ++ NL) with (String LF ""). rewrite split_ws_tok by (apply flagstr_tok || reflexivity). reflexivity.
    - change ((" """ ++ l ++ """") ++ sconcat (map (fun l0 => " """ ++ l0 ++ """") ls))
        with (String SP (String QU ((l ++ """") ++ sconcat (map (fun l0 => " """ ++ l0 ++ """") ls)))).
      rewrite sapp_cons. rewrite split_ws_tok by (apply flagstr_tok || reflexivity). reflexivity.
    - change ("" ++ NL) with (String LF ""). rewrite split_ws_tok by (apply flagstr_tok || reflexivity). reflexivity. }
  unfold parse_header. rewrite Hsplit. rewrite existsb_app. cbn [existsb]. rewrite flagstr_flag.
  rewrite orb_true_r. cbn [negb orb].
  destruct sh as [|n0 sh']; [congruence|]. cbn [map app].
  rewrite parse_print_nat, shape_loop_written.
  destruct labels as [[|l ls]|].
  - (* Some [] is excluded by the length check *) simpl in Hlen. discriminate.
  - (* labels present *)
    assert (Hafter : split_ws (stail (label_text (Some (l :: ls)) ++ NL)) <> []).
    { intros E. apply split_ws_nil_allspace in E. cbn in E. discriminate. }
    destruct (split_ws (stail (label_text (Some (l :: ls)) ++ NL))) as [|a r]; [congruence|].
    do 3 f_equal.
    unfold hdr. cbn [label_text].
    replace (shape_text (n0 :: sh') ++ (flagstr f ++ sconcat (map (fun l0 => " """ ++ l0 ++ """") (l :: ls))) ++ NL)
      with ((shape_text (n0 :: sh') ++ flagstr f) ++ sconcat (map quoted (l :: ls)) ++ NL).
    2:{ rewrite !sapp_assoc. reflexivity. }
    apply odds_split_labels.
    + unfold noc. rewrite sall_app.
      rewrite (shape_text_sall _ (fun c => digit_not_char QU c eq_refl) eq_refl). destruct f; reflexivity.
    + reflexivity.
    + specialize (Hlab _ eq_refl). rewrite forallb_forall in Hlab. apply Forall_forall.
      intros x Hx. apply label_ok_noq. apply Hlab. exact Hx.
  - reflexivity.
Qed.

Lemma parse_header_old : forall sh, parse_header (shape_text sh ++ NL) = Some (sh, false, None).
Proof.
  intros sh. unfold parse_header. rewrite split_shape_text.
  change (split_ws NL) with (@nil string). rewrite app_nil_r.
  rewrite no_flag_in_dims. cbn [negb]. rewrite parse_nats_print. reflexivity.
Qed.

Lemma hdr_is_line : forall sh f labels,
  (forall ls, labels = Some ls -> forallb label_ok ls = true) -> is_line (hdr sh f labels).
Proof.
  intros sh f labels Hlab. exists (shape_text sh ++ flagstr f ++ label_text labels). split.
  - unfold hdr. rewrite !sapp_assoc. reflexivity.
  - unfold no_nl. rewrite !sall_app.
    rewrite (shape_text_sall _ digit_not_nl eq_refl). cbn [andb].
    replace (sall (fun c => negb (is_nl c)) (flagstr f)) with true by (destruct f; reflexivity). cbn [andb].
    destruct labels as [ls|]; [|reflexivity]. cbn [label_text].
    apply sall_sconcat. apply Forall_forall. intros x Hx. apply in_map_iff in Hx as [l [<- Hl]].
    specialize (Hlab _ eq_refl). rewrite forallb_forall in Hlab. specialize (Hlab _ Hl).
    change (" """ ++ l ++ """") with (String SP (String QU (l ++ """"))). cbn [sall].
    rewrite sall_app. fold (no_nl l). rewrite (label_ok_nonl _ Hlab). reflexivity.
Qed.

Lemma old_hdr_is_line : forall sh, is_line (shape_text sh ++ NL).
Proof.
  intros sh. exists (shape_text sh). split; [reflexivity|].
  apply (shape_text_sall _ digit_not_nl eq_refl).
Qed.

Lemma mask_line_is_line : forall m, is_line (mask_line m).
Proof. intros m. exists (join " " (map tok_of_bool m)). split; [reflexivity|]. apply join_no_nl, tok_of_bool_tok. Qed.

Lemma mask_line_read : forall m count, m <> [] -> length m = count ->
  is_empty (strip (mask_line m)) = false /\
  (forall {num} (parse : string -> num), read_mask count (strip (mask_line m)) = Some m).
Proof.
  intros m count Hne Hlen.
  assert (Hs : split_ws (mask_line m) = map tok_of_bool m).
  { unfold mask_line. change NL with (String LF ""). rewrite split_ws_join by (apply tok_of_bool_tok || reflexivity).
    rewrite split_ws_nil, app_nil_r. reflexivity. }
  split.
  - destruct (is_empty (strip (mask_line m))) eqn:E; [|reflexivity].
    apply strip_empty_split in E. rewrite Hs in E. destruct m; [congruence|discriminate].
  - intros num parse. unfold read_mask. rewrite split_ws_strip, Hs, map_length, Hlen, Nat.ltb_irrefl.
    rewrite <- Hlen, <- (map_length tok_of_bool m), firstn_all. apply mask_of_tokens_written.
Qed.

(* ------------------------------------------------------------------------------------------- *)
Section RoundTrip.
  Context {num : Type}.
  Variable fmt : nat -> num -> string.
  Variable parse : string -> num.
  Variable round : nat -> num -> num.
  Hypothesis parse_fmt : forall p x, parse (fmt p x) = round p x.
  Hypothesis fmt_tok : forall p x, tok_ok (fmt p x) = true.

  Lemma fmt_toks : forall p data, Forall (fun t => tok_ok t = true) (map (fmt p) data).
  Proof. intros p data. apply Forall_forall. intros t Ht. apply in_map_iff in Ht as [x [<- _]]. apply fmt_tok. Qed.

  Lemma data_line_is_line : forall p data, is_line (data_line fmt p data).
  Proof. intros. exists (join " " (map (fmt p) data)). split; [reflexivity|]. apply join_no_nl, fmt_toks. Qed.

  Lemma numbers_read : forall p data count tail, length data = count -> sall is_space tail = true ->
    read_numbers parse count (join " " (map (fmt p) data) ++ NL ++ tail) = Some (map (round p) data).
  Proof.
    intros p data count tail Hlen Htail. unfold read_numbers.
    change (NL ++ tail) with (String LF tail).
    rewrite split_ws_join by (apply fmt_toks || reflexivity).
    rewrite (split_ws_allspace tail Htail), app_nil_r.
    rewrite map_length, Hlen, Nat.ltb_irrefl.
    rewrite <- Hlen, <- (map_length (fmt p) data), firstn_all, map_map.
    f_equal. apply map_ext. intros x. apply parse_fmt.
  Qed.

  Lemma data_line_read : forall p data count, length data = count ->
    read_numbers parse count (strip (data_line fmt p data)) = Some (map (round p) data).
  Proof.
    intros p data count Hlen.
    pose proof (numbers_read p data count "" Hlen eq_refl) as H.
    unfold read_numbers in *. rewrite split_ws_strip. unfold data_line.
    change (NL ++ "") with NL in H. exact H.
  Qed.

  Lemma wf_fields : forall s : spectrum num, wf_spectrum s = true ->
    sp_shape s <> [] /\ forallb (fun n => Nat.leb 1 n) (sp_shape s) = true /\
    length (sp_data s) = nprod (sp_shape s) /\ length (sp_mask s) = nprod (sp_shape s) /\
    labels_len_ok (sp_shape s) (sp_labels s) = true /\
    (forall ls, sp_labels s = Some ls -> forallb label_ok ls = true).
  Proof.
    intros s H. unfold wf_spectrum, shape_ok in H.
    repeat (apply andb_true_iff in H as [H ?]).
    apply negb_true_iff, Nat.eqb_neq in H.
    repeat split; try (apply Nat.eqb_eq; assumption); try assumption.
    - intros E. rewrite E in H. apply H. reflexivity.
    - intros ls E. rewrite E in *. assumption.
  Qed.

  Lemma header_line_new : forall s : spectrum num,
    header_line true s = hdr (sp_shape s) (sp_folded s) (sp_labels s).
  Proof. reflexivity. Qed.

  Lemma header_line_old : forall s : spectrum num, header_line false s = shape_text (sp_shape s) ++ NL.
  Proof. reflexivity. Qed.

  Lemma to_file_lines_are_lines : forall p comments fmi (s : spectrum num),
    wf_spectrum s = true -> Forall (fun c => comment_ok c = true) comments ->
    Forall is_line (to_file_lines fmt p comments fmi s).
  Proof.
    intros p comments fmi s Hwf Hc. destruct (wf_fields s Hwf) as (_ & _ & _ & _ & _ & Hlab).
    unfold to_file_lines. apply Forall_app; split.
    - apply Forall_forall. intros l Hl. apply in_map_iff in Hl as [c [<- Hin]].
      apply comment_line_is_line. rewrite Forall_forall in Hc. apply Hc, Hin.
    - constructor.
      + destruct fmi; [rewrite header_line_new; apply hdr_is_line, Hlab | rewrite header_line_old; apply old_hdr_is_line].
      + constructor; [apply data_line_is_line|]. destruct fmi; [constructor; [apply mask_line_is_line|constructor]|constructor].
  Qed.

  (** ** Spectrum.to_file then Spectrum.from_file, current format *)
  Theorem roundtrip : forall p comments mc (s : spectrum num),
    wf_spectrum s = true -> Forall (fun c => comment_ok c = true) comments ->
    from_file parse mc (to_file fmt p comments true s)
    = Some (map strip comments, after_file round p mc s).
  Proof.
    intros p comments mc s Hwf Hc.
    pose proof (to_file_lines_are_lines p comments true s Hwf Hc) as Hlines.
    destruct (wf_fields s Hwf) as (Hne & Hpos & Hd & Hm & Hlen & Hlab).
    unfold from_file, to_file. rewrite (readlines_file _ Hlines).
    unfold to_file_lines. rewrite <- !app_assoc. cbn [app].
    unfold from_file_lines. rewrite skip_comments_written.
    2:{ rewrite header_line_new. unfold hdr. apply shape_text_hash, Hne. }
    cbn [nth]. rewrite header_line_new, (parse_header_new _ _ _ Hne Hlen Hlab).
    destruct (sp_shape s) as [|n0 sh'] eqn:Esh; [congruence|]. rewrite <- Esh in *.
    rewrite (data_line_read p _ _ Hd).
    assert (Hmne : sp_mask s <> []).
    { intros E. rewrite E in Hm. simpl in Hm. pose proof (nprod_pos _ Hpos). lia. }
    destruct (mask_line_read (sp_mask s) _ Hmne Hm) as [He Hr].
    rewrite He, (Hr num parse). cbn [option_map].
    unfold mk_spectrum. cbn [a_flat a_shape].
    rewrite map_length, Hd, Nat.eqb_refl. cbn [negb].
    rewrite Hm, Nat.eqb_refl, Hlen. reflexivity.
  Qed.

  (** ** foldmaskinfo=False (the pre-1.3 layout) then from_file *)
  Theorem roundtrip_old_format : forall p comments mc (s : spectrum num),
    wf_spectrum s = true -> Forall (fun c => comment_ok c = true) comments ->
    from_file parse mc (to_file fmt p comments false s)
    = Some (map strip comments, after_old_file round p mc s).
  Proof.
    intros p comments mc s Hwf Hc.
    pose proof (to_file_lines_are_lines p comments false s Hwf Hc) as Hlines.
    destruct (wf_fields s Hwf) as (Hne & Hpos & Hd & Hm & Hlen & Hlab).
    unfold from_file, to_file. rewrite (readlines_file _ Hlines).
    unfold to_file_lines. rewrite <- !app_assoc. cbn [app].
    unfold from_file_lines. rewrite skip_comments_written.
    2:{ rewrite header_line_old. apply shape_text_hash, Hne. }
    cbn [nth]. rewrite header_line_old, parse_header_old.
    destruct (sp_shape s) as [|n0 sh'] eqn:Esh; [congruence|]. rewrite <- Esh in *.
    rewrite (data_line_read p _ _ Hd).
    change (strip "") with "". cbn [is_empty option_map].
    unfold mk_spectrum. cbn [a_flat a_shape labels_len_ok].
    rewrite map_length, Hd, Nat.eqb_refl. cbn [negb option_map].
    unfold after_old_file. rewrite Hd. reflexivity.
  Qed.

  (** ** any pre-1.3 layout: a comment block, a line of dimensions, a line of numbers, then nothing but blanks
      (whatever the white space between tokens, trailing blanks, missing final newline, CR-LF endings) *)
  Lemma skip_comments_general : forall cls h rest,
    Forall (fun l => starts_hash l = true) cls -> starts_hash h = false ->
    skip_comments (cls ++ h :: rest) = (map (fun l => strip (stail l)) cls, h :: rest).
  Proof.
    induction cls as [|l cls IH]; intros h rest Hc Hh.
    - simpl. rewrite Hh. reflexivity.
    - inversion Hc as [|? ? Hl Hcls]; subst. cbn [app skip_comments map]. rewrite Hl, (IH h rest Hcls Hh). reflexivity.
  Qed.

  Theorem from_file_pre13_any_layout : forall p mc cls h d rest sh data,
    Forall (fun l => starts_hash l = true) cls -> starts_hash h = false ->
    sh <> [] -> split_ws h = map print_nat sh ->
    split_ws d = map (fmt p) data -> length data = nprod sh ->
    sall is_space (nth 0 rest "") = true ->
    from_file_lines parse mc (cls ++ h :: d :: rest)
    = Some (map (fun l => strip (stail l)) cls,
            mkSpec sh (map (round p) data)
                   (if mc then set_corners (repeat false (length data)) else repeat false (length data))
                   false None None).
  Proof.
    intros p mc cls h d rest sh data Hc Hh Hne Hsh Hd Hlen Hblank.
    unfold from_file_lines. rewrite (skip_comments_general cls h (d :: rest) Hc Hh). cbn [nth].
    unfold parse_header. rewrite Hsh, no_flag_in_dims. cbn [negb]. rewrite parse_nats_print.
    destruct sh as [|n0 sh'] eqn:Esh; [congruence|]. rewrite <- Esh in *.
    unfold read_numbers. rewrite split_ws_strip, Hd, map_length, Hlen, Nat.ltb_irrefl.
    rewrite <- Hlen, <- (map_length (fmt p) data), firstn_all, map_map.
    rewrite (map_ext _ _ (parse_fmt p)).
    unfold strip at 1. rewrite (rstrip_allspace _ Hblank). cbn [lstrip is_empty option_map].
    unfold mk_spectrum. cbn [a_flat a_shape labels_len_ok].
    rewrite !map_length, Hlen, Nat.eqb_refl. reflexivity.
  Qed.

  (** comments are returned stripped; they come back unchanged exactly when they carry no leading/trailing blanks *)
  Lemma comments_exact : forall comments, Forall (fun c => strip c = c) comments -> map strip comments = comments.
  Proof. induction 1; simpl; congruence. Qed.

  (** ** Numerics.array_to_file then Numerics.array_from_file *)
  Lemma array_lines_are_lines : forall p comments (a : array num),
    Forall (fun c => comment_ok c = true) comments -> Forall is_line (array_to_file_lines fmt p comments a).
  Proof.
    intros p comments a Hc. unfold array_to_file_lines. apply Forall_app; split.
    - apply Forall_forall. intros l Hl. apply in_map_iff in Hl as [c [<- Hin]].
      apply comment_line_is_line. rewrite Forall_forall in Hc. apply Hc, Hin.
    - constructor; [apply old_hdr_is_line|]. constructor; [apply (data_line_is_line p (a_flat a))|constructor].
  Qed.

  Theorem array_roundtrip : forall p comments (a : array num),
    shape_ok (a_shape a) = true -> length (a_flat a) = nprod (a_shape a) ->
    Forall (fun c => comment_ok c = true) comments ->
    array_from_file parse (array_to_file fmt p comments a)
    = Some (map strip comments, mkArray (a_shape a) (map (round p) (a_flat a))).
  Proof.
    intros p comments a Hsh Hd Hc. unfold shape_ok in Hsh. apply andb_true_iff in Hsh as [Hne Hpos].
    apply negb_true_iff, Nat.eqb_neq in Hne.
    assert (Hne' : a_shape a <> []) by (intros E; rewrite E in Hne; apply Hne; reflexivity).
    unfold array_from_file, array_to_file. rewrite (readlines_file _ (array_lines_are_lines p comments a Hc)).
    unfold array_to_file_lines. rewrite <- !app_assoc. cbn [app].
    unfold array_from_file_lines. rewrite skip_comments_written by (apply shape_text_hash, Hne').
    cbn [nth tl sconcat].
    replace (split_ws (shape_text (a_shape a) ++ NL)) with (map print_nat (a_shape a)).
    2:{ rewrite split_shape_text. change (split_ws NL) with (@nil string). rewrite app_nil_r. reflexivity. }
    rewrite parse_nats_print.
    destruct (a_shape a) as [|n0 sh'] eqn:Esh; [congruence|]. rewrite <- Esh in *.
    rewrite sapp_assoc. rewrite (numbers_read p _ _ ("" ++ "") Hd eq_refl). reflexivity.
  Qed.

  (** the generic writer and the foldmaskinfo=False spectrum writer produce the same text, so
      Spectrum.from_file reads what array_to_file wrote (as a pre-1.3 file) *)
  Theorem array_file_is_old_spectrum_file : forall p comments (s : spectrum num),
    array_to_file fmt p comments (mkArray (sp_shape s) (sp_data s)) = to_file fmt p comments false s.
  Proof. reflexivity. Qed.

  Lemma filled_length : forall (v : num) mask data, length (filled v mask data) = length data.
  Proof. induction mask; destruct data; simpl; auto. Qed.

  (** array_to_file on a Spectrum: masked entries go in as the fill value *)
  Corollary array_roundtrip_spectrum : forall p comments fillv (s : spectrum num),
    wf_spectrum s = true -> Forall (fun c => comment_ok c = true) comments ->
    array_from_file parse (array_to_file fmt p comments (mkArray (sp_shape s) (filled fillv (sp_mask s) (sp_data s))))
    = Some (map strip comments, mkArray (sp_shape s) (map (round p) (filled fillv (sp_mask s) (sp_data s)))).
  Proof.
    intros p comments fillv s Hwf Hc. destruct (wf_fields s Hwf) as (Hne & Hpos & Hd & _).
    apply (array_roundtrip p comments (mkArray (sp_shape s) _)); cbn [a_shape a_flat].
    - unfold shape_ok. rewrite Hpos. destruct (sp_shape s); [congruence|reflexivity].
    - rewrite filled_length. exact Hd.
    - exact Hc.
  Qed.

  (** ** pickle: Spectrum_unpickler applied to the arguments Spectrum_pickler built *)
  Theorem pickle_roundtrip : forall s : spectrum num,
    length (sp_data s) = nprod (sp_shape s) -> length (sp_mask s) = nprod (sp_shape s) ->
    labels_len_ok (sp_shape s) (sp_labels s) = true ->
    spectrum_unpickler (spectrum_pickler s) = Some s.
  Proof.
    intros [sh data mask f labels ex] Hd Hm Hl. cbn in *.
    unfold mk_spectrum. cbn [a_flat a_shape].
    rewrite Hd, Nat.eqb_refl. cbn [negb]. rewrite Hm, Nat.eqb_refl, Hl. reflexivity.
  Qed.
End RoundTrip.

(* ------------------------------------------------------------------------------------------- *)
(** * a concrete instance of the oracle (shows the hypotheses are satisfiable, non-finite values included):
      naturals plus inf / -inf / nan, printed exactly, so [round] is the identity *)

Inductive tnum : Type := Fin (n : nat) | PInf | NInf | NaN.

Definition tn_fmt (p : nat) (x : tnum) : string :=
  match x with Fin n => print_nat n | PInf => "inf" | NInf => "-inf" | NaN => "nan" end.
Definition tn_parse (t : string) : tnum :=
  if String.eqb t "inf" then PInf else if String.eqb t "-inf" then NInf else if String.eqb t "nan" then NaN
  else match parse_nat t with Some n => Fin n | None => NaN end.
Definition tn_round (p : nat) (x : tnum) : tnum := x.

Lemma print_nat_neq : forall n t, sall is_digit t = false -> String.eqb (print_nat n) t = false.
Proof.
  intros n t H. destruct (String.eqb_spec (print_nat n) t) as [E|]; [|reflexivity].
  rewrite <- E, print_nat_digits in H. discriminate.
Qed.

Lemma tn_parse_fmt : forall p x, tn_parse (tn_fmt p x) = tn_round p x.
Proof.
  intros p [n| | |]; try reflexivity. unfold tn_parse, tn_fmt.
  rewrite !print_nat_neq by reflexivity. rewrite parse_print_nat. reflexivity.
Qed.

Lemma tn_fmt_tok : forall p x, tok_ok (tn_fmt p x) = true.
Proof. intros p [n| | |]; try reflexivity. apply print_nat_tok. Qed.

(* ------------------------------------------------------------------------------------------- *)
(** * documented limitation: a label containing a double quote does not survive *)

Definition quote_witness : spectrum tnum :=
  mkSpec [2; 2] [Fin 1; PInf; Fin 30; NaN] [true; false; false; true] false (Some ["a""b"; "c d"]) None.

Theorem label_with_quote_refuted :
  exists s : spectrum tnum,
    (* well-formed in every respect except that one label contains a quote *)
    shape_ok (sp_shape s) = true /\ length (sp_data s) = nprod (sp_shape s) /\
    length (sp_mask s) = nprod (sp_shape s) /\ labels_len_ok (sp_shape s) (sp_labels s) = true /\
    from_file tn_parse false (to_file tn_fmt 16 [] true s) <> Some ([], after_file tn_round 16 false s).
Proof.
  exists quote_witness. repeat split; try reflexivity.
  vm_compute. discriminate.
Qed.

(* ------------------------------------------------------------------------------------------- *)
(** * strided views: the logical content does not depend on the memory layout *)

Lemma flat_map_const_length : forall {A B} (f : A -> list B) c l,
  (forall x, In x l -> length (f x) = c) -> length (flat_map f l) = length l * c.
Proof.
  induction l as [|x l IH]; intros H; simpl; [reflexivity|].
  rewrite app_length, H by (left; reflexivity). rewrite IH by (intros; apply H; right; assumption). reflexivity.
Qed.

Lemma indices_length : forall sh, length (indices sh) = nprod sh.
Proof.
  induction sh as [|n r IH]; [reflexivity|]. cbn [indices].
  rewrite (flat_map_const_length _ (nprod r)) by (intros; rewrite map_length; exact IH).
  rewrite seq_length. reflexivity.
Qed.

Lemma v_ravel_length : forall {A} (d : A) v, length (v_ravel d v) = nprod (v_shape v).
Proof. intros. unfold v_ravel. rewrite map_length. apply indices_length. Qed.

(** two views of the same shape whose entries agree index by index have the same logical content *)
Lemma v_ravel_ext : forall {A} (d : A) v1 v2, v_shape v1 = v_shape v2 ->
  (forall idx, In idx (indices (v_shape v1)) -> v_get d v1 idx = v_get d v2 idx) -> v_ravel d v1 = v_ravel d v2.
Proof. intros A d v1 v2 Hs H. unfold v_ravel. rewrite <- Hs. apply map_ext_in. exact H. Qed.

Lemma skipn_add : forall {A} (l : list A) a b, skipn a (skipn b l) = skipn (b + a) l.
Proof.
  intros A l a b. revert l. induction b as [|b IH]; intros l; [reflexivity|].
  destruct l; [rewrite !skipn_nil; reflexivity|]. simpl. apply IH.
Qed.

(** pieces of a list: consecutive chunks of length c starting at off *)
Lemma chunks_concat : forall {A} (l : list A) c n off, off + n * c <= length l ->
  flat_map (fun i => firstn c (skipn (off + i * c) l)) (seq 0 n) = firstn (n * c) (skipn off l).
Proof.
  intros A l c n. induction n as [|n IH]; intros off H; [reflexivity|].
  rewrite seq_S, flat_map_app, IH by lia. cbn [flat_map]. rewrite app_nil_r, Nat.add_0_l.
  replace (S n * c) with (n * c + c) by lia.
  rewrite <- (firstn_skipn (n * c) (firstn (n * c + c) (skipn off l))).
  rewrite firstn_firstn, Nat.min_l by lia. f_equal.
  rewrite skipn_firstn_comm. replace (n * c + c - n * c) with c by lia.
  rewrite skipn_add. reflexivity.
Qed.

Lemma flat_map_ext_in' : forall {A B} (f g : A -> list B) l,
  (forall x, In x l -> f x = g x) -> flat_map f l = flat_map g l.
Proof.
  induction l as [|x l IH]; intros H; [reflexivity|]. simpl.
  rewrite H by (left; reflexivity). rewrite IH by (intros; apply H; right; assumption). reflexivity.
Qed.

Lemma firstn1_skipn : forall {A} (d : A) l off, off < length l -> firstn 1 (skipn off l) = [nth off l d].
Proof.
  intros A d l. induction l as [|x l IH]; intros off H; [simpl in H; lia|].
  destruct off; [reflexivity|]. simpl. apply IH. simpl in H. lia.
Qed.

Lemma c_ravel_aux : forall {A} (d : A) l sh off, off + nprod sh <= length l ->
  map (fun idx => nth (Z.to_nat (Z.of_nat off + v_pos (c_strides sh) idx)) l d) (indices sh)
  = firstn (nprod sh) (skipn off l).
Proof.
  intros A d l. induction sh as [|n r IH]; intros off H.
  - cbn. rewrite Z.add_0_r, Nat2Z.id. symmetry. apply firstn1_skipn. cbn in H. lia.
  - cbn [indices c_strides nprod fold_right]. change (fold_right Nat.mul 1 r) with (nprod r).
    rewrite flat_map_concat_map, concat_map, map_map, <- flat_map_concat_map.
    rewrite <- (chunks_concat l (nprod r) n off) by (cbn in H; exact H).
    apply flat_map_ext_in'. intros i Hi. apply in_seq in Hi.
    rewrite map_map. cbn [v_pos].
    rewrite <- (IH (off + i * nprod r)).
    + apply map_ext. intros idx. f_equal. f_equal. lia.
    + cbn in H. change (fold_right Nat.mul 1 r) with (nprod r) in H. nia.
Qed.

(** for a C-contiguous array memory order IS logical order (why a check on fresh arrays cannot tell them apart) *)
Theorem c_view_ravel : forall {A} (d : A) sh l, length l = nprod sh -> v_ravel d (c_view sh l) = l.
Proof.
  intros A d sh l H. unfold v_ravel, c_view, v_get. cbn [v_shape v_off v_strides v_buf].
  transitivity (firstn (nprod sh) (skipn 0 l)); [|cbn [skipn]; rewrite <- H; apply firstn_all].
  rewrite <- (c_ravel_aux d l sh 0) by (rewrite H; lia).
  apply map_ext_in. intros idx _.
  assert (Hnn : forall s i, (0 <= v_pos (c_strides s) i)%Z).
  { induction s as [|a s IHs]; intros [|j i]; cbn; try lia. specialize (IHs i). nia. }
  specialize (Hnn sh idx).
  destruct (Z.ltb_spec (0 + v_pos (c_strides sh) idx) 0); [lia|]. reflexivity.
Qed.

Lemma wf_spectrum_of_views : forall {num} (d : num) dv mv folded labels extrap,
  shape_ok (v_shape dv) = true -> v_shape mv = v_shape dv ->
  labels_len_ok (v_shape dv) labels = true ->
  match labels with None => true | Some ls => forallb label_ok ls end = true ->
  wf_spectrum (spectrum_of_views d dv mv folded labels extrap) = true.
Proof.
  intros num d dv mv folded labels extrap Hs Hm Hl Hq.
  unfold wf_spectrum, spectrum_of_views. cbn [sp_shape sp_data sp_mask sp_labels].
  rewrite !v_ravel_length, Hm, Nat.eqb_refl, Hs, Hl, Hq. reflexivity.
Qed.

(** ** a spectrum held in ANY memory layout (transposed by reorder_pops / .T / swapaxes, Fortran order, stepped or
    reversed slices, broadcast mask) survives the file round trip with its logical content *)
Theorem roundtrip_views :
  forall (num : Type) (fmt : nat -> num -> string) (parse : string -> num) (round : nat -> num -> num),
    (forall p x, parse (fmt p x) = round p x) -> (forall p x, tok_ok (fmt p x) = true) ->
  forall p comments mc fmi (d : num) dv mv folded labels extrap,
    shape_ok (v_shape dv) = true -> v_shape mv = v_shape dv ->
    labels_len_ok (v_shape dv) labels = true ->
    match labels with None => true | Some ls => forallb label_ok ls end = true ->
    Forall (fun c => comment_ok c = true) comments ->
    from_file parse mc (to_file fmt p comments fmi (spectrum_of_views d dv mv folded labels extrap))
    = Some (map strip comments,
            (if fmi then after_file else after_old_file) round p mc (spectrum_of_views d dv mv folded labels extrap)).
Proof.
  intros num fmt parse round Hpf Htok p comments mc fmi d dv mv folded labels extrap Hs Hm Hl Hq Hc.
  pose proof (wf_spectrum_of_views d dv mv folded labels extrap Hs Hm Hl Hq) as Hwf.
  destruct fmi; [apply (roundtrip fmt parse round Hpf Htok) | apply (roundtrip_old_format fmt parse round Hpf Htok)]; assumption.
Qed.

(** the file depends on the logical content only: two layouts with the same entries give the same text *)
Theorem file_layout_independent :
  forall (num : Type) (fmt : nat -> num -> string) p comments fmi (d : num) dv dv' mv mv' folded labels extrap,
    v_shape dv = v_shape dv' -> v_shape mv = v_shape mv' ->
    (forall idx, In idx (indices (v_shape dv)) -> v_get d dv idx = v_get d dv' idx) ->
    (forall idx, In idx (indices (v_shape mv)) -> v_get false mv idx = v_get false mv' idx) ->
    to_file fmt p comments fmi (spectrum_of_views d dv mv folded labels extrap)
    = to_file fmt p comments fmi (spectrum_of_views d dv' mv' folded labels extrap).
Proof.
  intros num fmt p comments fmi d dv dv' mv mv' folded labels extrap Hs Hm Hd Hk.
  unfold spectrum_of_views. rewrite (v_ravel_ext d dv dv' Hs Hd), (v_ravel_ext false mv mv' Hm Hk), Hs. reflexivity.
Qed.

(** ... in particular the file of a spectrum is the file of its C-contiguous copy (numpy.ascontiguousarray) *)
Theorem file_of_contiguous_copy :
  forall (num : Type) (fmt : nat -> num -> string) p comments fmi (d : num) dv mv folded labels extrap,
    to_file fmt p comments fmi (spectrum_of_views d dv mv folded labels extrap)
    = to_file fmt p comments fmi
        (spectrum_of_views d (c_view (v_shape dv) (v_ravel d dv)) (c_view (v_shape mv) (v_ravel false mv)) folded labels extrap).
Proof.
  intros. unfold spectrum_of_views.
  rewrite !c_view_ravel by (cbn [c_view v_shape]; apply v_ravel_length). reflexivity.
Qed.

Theorem pickle_roundtrip_views :
  forall (num : Type) (d : num) dv mv folded labels extrap,
    v_shape mv = v_shape dv -> labels_len_ok (v_shape dv) labels = true ->
    spectrum_unpickler (spectrum_pickler (spectrum_of_views d dv mv folded labels extrap))
    = Some (spectrum_of_views d dv mv folded labels extrap).
Proof.
  intros num d dv mv folded labels extrap Hm Hl. apply pickle_roundtrip; cbn [spectrum_of_views sp_data sp_mask sp_shape sp_labels].
  - apply v_ravel_length.
  - rewrite v_ravel_length, Hm. reflexivity.
  - exact Hl.
Qed.

(** ** a writer that walks the memory blocks (numpy.nditer, ravel(order='K'), the raw buffer) instead of the logical
    C order is NOT a round trip: a 3x2 spectrum transposed to 2x3 (what reorder_pops([2,1]) returns) *)
Definition transposed_data : view tnum := mkView [Fin 1; Fin 2; Fin 3; Fin 4; Fin 5; Fin 6] 0%Z [2; 3] [1%Z; 2%Z].
Definition transposed_mask : view bool := mkView [false; true; false; false; false; false] 0%Z [2; 3] [1%Z; 2%Z].

Theorem memory_order_writer_refuted :
  exists (dv : view tnum) (mv : view bool),
    v_inbounds dv = true /\ v_inbounds mv = true /\ shape_ok (v_shape dv) = true /\ v_shape mv = v_shape dv /\
    length (v_buf dv) = nprod (v_shape dv) /\ length (v_buf mv) = nprod (v_shape dv) /\
    from_file tn_parse false (to_file tn_fmt 17 [] true (spectrum_in_memory_order dv mv false None None))
    <> Some ([], after_file tn_round 17 false (spectrum_of_views NaN dv mv false None None)).
Proof.
  exists transposed_data, transposed_mask. repeat split; try reflexivity.
  vm_compute. discriminate.
Qed.

(* ------------------------------------------------------------------------------------------- *)
(** * attributes as Python objects: only the truth value of the flag and the items of the labels are used *)

Lemma wf_with_folded : forall {num} b (s : spectrum num), wf_spectrum (with_folded b s) = wf_spectrum s.
Proof. intros num b [sh d m f l e]. reflexivity. Qed.

Lemma canon_folded : forall {num} (o : spectrum_obj num), sp_folded (canon o) = truthy (so_folded o).
Proof. reflexivity. Qed.

(** the canonical form does not depend on the TYPE of the flag object nor on the label container *)
Theorem canon_type_independent : forall {num} (s : spectrum num) f f' k k',
  truthy f = truthy f' -> canon (mkObj s f k) = canon (mkObj s f' k').
Proof. intros num s f f' k k' H. unfold canon. cbn [so_folded so_spec]. rewrite H. reflexivity. Qed.

(** ... hence neither does the file *)
Theorem file_type_independent :
  forall (num : Type) (fmt : nat -> num -> string) p comments fmi (s : spectrum num) f f' k k',
    truthy f = truthy f' ->
    to_file_obj fmt p comments fmi (mkObj s f k) = to_file_obj fmt p comments fmi (mkObj s f' k').
Proof. intros. unfold to_file_obj. rewrite (canon_type_independent s f f' k k') by assumption. reflexivity. Qed.

(** the file round trip of an object returns its canonical form (current and pre-1.3 format), whatever Python
    object the flag is and whatever container holds the labels *)
Theorem roundtrip_obj :
  forall (num : Type) (fmt : nat -> num -> string) (parse : string -> num) (round : nat -> num -> num),
    (forall p x, parse (fmt p x) = round p x) -> (forall p x, tok_ok (fmt p x) = true) ->
  forall p comments mc fmi (o : spectrum_obj num),
    wf_spectrum (so_spec o) = true -> Forall (fun c => comment_ok c = true) comments ->
    from_file parse mc (to_file_obj fmt p comments fmi o)
    = Some (map strip comments, (if fmi then after_file else after_old_file) round p mc (canon o)).
Proof.
  intros num fmt parse round Hpf Htok p comments mc fmi o Hwf Hc.
  assert (Hwf' : wf_spectrum (canon o) = true) by (unfold canon; rewrite wf_with_folded; exact Hwf).
  unfold to_file_obj.
  destruct fmi; [apply (roundtrip fmt parse round Hpf Htok) | apply (roundtrip_old_format fmt parse round Hpf Htok)]; assumption.
Qed.

(** the folding status read back is bool(flag) *)
Theorem roundtrip_obj_folded :
  forall (num : Type) (fmt : nat -> num -> string) (parse : string -> num) (round : nat -> num -> num),
    (forall p x, parse (fmt p x) = round p x) -> (forall p x, tok_ok (fmt p x) = true) ->
  forall p comments mc (o : spectrum_obj num),
    wf_spectrum (so_spec o) = true -> Forall (fun c => comment_ok c = true) comments ->
    option_map (fun r => sp_folded (snd r)) (from_file parse mc (to_file_obj fmt p comments true o))
    = Some (truthy (so_folded o)).
Proof.
  intros num fmt parse round Hpf Htok p comments mc o Hwf Hc.
  rewrite (roundtrip_obj num fmt parse round Hpf Htok p comments mc true o Hwf Hc). reflexivity.
Qed.

(** the pickle round trip returns the object itself: flag object and label container included *)
Theorem pickle_roundtrip_obj : forall (num : Type) (o : spectrum_obj num),
  length (sp_data (so_spec o)) = nprod (sp_shape (so_spec o)) ->
  length (sp_mask (so_spec o)) = nprod (sp_shape (so_spec o)) ->
  labels_len_ok (sp_shape (so_spec o)) (sp_labels (so_spec o)) = true ->
  sp_folded (so_spec o) = truthy (so_folded o) ->
  spectrum_unpickler_obj (spectrum_pickler_obj o) = Some o.
Proof.
  intros num [[sh data mask f labels ex] flag k] Hd Hm Hl Hf. cbn in *.
  unfold mk_spectrum. cbn [a_flat a_shape].
  rewrite Hd, Nat.eqb_refl. cbn [negb]. rewrite Hm, Nat.eqb_refl, Hl. cbn [option_map]. rewrite <- Hf. reflexivity.
Qed.

(** ** a writer that tests [self.folded is True] instead of the truth value is NOT a round trip: a folded 2x2
    spectrum whose flag is a numpy.bool_ (e.g. the result of numpy.all) comes back unfolded *)
Definition npbool_witness : spectrum_obj tnum :=
  mkObj (mkSpec [2; 2] [Fin 1; Fin 2; Fin 3; Fin 0] [true; false; false; true] true None None) (NpBool true) SeqList.

Theorem identity_test_writer_refuted :
  exists o : spectrum_obj tnum,
    wf_spectrum (so_spec o) = true /\ sp_folded (so_spec o) = truthy (so_folded o) /\ truthy (so_folded o) = true /\
    from_file tn_parse false (to_file_identity_test tn_fmt 17 [] true o)
    <> Some ([], after_file tn_round 17 false (canon o)).
Proof.
  exists npbool_witness. repeat split; try reflexivity.
  vm_compute. discriminate.
Qed.
