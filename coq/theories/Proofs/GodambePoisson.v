(** * Closed forms of the gradient and Hessian of the Poisson log-likelihood of a model that is linear
      in its parameters (the quantities the finite differences of dadi/Godambe.py approximate). *)
From Coq Require Import ZArith Reals List Lra Lia Bool.
From Coquelicot Require Import Coquelicot.
From Dadi Require Import Base.Num Base.NumR Model.Godambe Proofs.GodambeProofs.
Import ListNotations.
Local Open Scope R_scope.

Lemma ndot_nil_r (t : list R) : ndot t [] = 0.
Proof. unfold ndot. destruct t; reflexivity. Qed.

Lemma ndot_cons (x y : R) t b : ndot (x :: t) (y :: b) = x * y + ndot t b.
Proof. reflexivity. Qed.

Lemma ndot_upd (theta b : list R) k v : (k < length theta)%nat ->
  ndot (upd theta k v) b = ndot theta b + (v - nth k theta 0) * nth k b 0.
Proof.
  revert b k. induction theta as [|x t IH]; intros b k Hl; cbn [length] in Hl; [lia|].
  destruct b as [|y b'].
  - rewrite !ndot_nil_r. destruct k; cbn [nth]; ring.
  - destruct k as [|k]; cbn [upd nth]; rewrite !ndot_cons.
    + ring.
    + rewrite IH by lia. ring.
Qed.

(** one entry of the spectrum, along the line theta_k = v *)
Lemma term_deriv1 a m0 b d g x0 : 0 < a -> 0 < m0 ->
  is_derive (fun v => pois_term (a * (m0 + (v - x0) * b)) d g) x0 ((d / m0 - a) * b).
Proof.
  intros Ha Hm. unfold pois_term. numR.
  auto_derive.
  - replace (m0 + (x0 + - x0) * b) with m0 by ring. apply Rmult_lt_0_compat; assumption.
  - replace (m0 + (x0 + - x0) * b) with m0 by ring. field. split; lra.
Qed.

Lemma term_deriv2 a m0 bk bl d x0 : 0 < m0 ->
  is_derive (fun v => (d / (m0 + (v - x0) * bl) - a) * bk) x0 (- (d * bk * bl / (m0 * m0))).
Proof.
  intros Hm. auto_derive.
  - replace (m0 + (x0 + - x0) * bl) with m0 by ring. lra.
  - replace (m0 + (x0 + - x0) * bl) with m0 by ring. field. lra.
Qed.

Lemma is_derive_nsum_cons (f : R -> R) (G : R -> list R) x df dG :
  is_derive f x df -> is_derive (fun v => nsum (G v)) x dG ->
  is_derive (fun v => nsum (f v :: G v)) x (df + dG).
Proof. intros H1 H2. exact (@is_derive_plus R_AbsRing R_NormedModule f (fun v => nsum (G v)) x df dG H1 H2). Qed.

Lemma is_derive_zero x : is_derive (fun _ : R => 0) x 0.
Proof. exact (@is_derive_const R_AbsRing R_NormedModule 0 x). Qed.

Section LinearPoisson.
  Variable Bs : list (list R).
  Variable dt : @pdata R.
  Variable theta : list R.
  Hypothesis adj_pos : 0 < pd_adj dt.
  Hypothesis mean_pos : List.Forall (fun bi => 0 < ndot theta bi) Bs.

  (** d ll / d theta_k *)
  Lemma pois_ll_deriv k : (k < length theta)%nat ->
    is_derive (fun v => pois_ll (lin_mean Bs) dt (upd theta k v)) (nth k theta 0) (pois_grad Bs dt theta k).
  Proof.
    intros Hk. unfold pois_ll, pois_grad, lin_mean.
    generalize (pd_d dt) (pd_g dt). revert mean_pos.
    induction Bs as [|bi Bs' IH]; intros Hpos ds gs.
    - cbn [map combine]. rewrite nsum_nil. apply is_derive_zero.
    - inversion Hpos as [|? ? Hb Hrest]; subst.
      destruct ds as [|d ds']; [cbn [map combine]; rewrite nsum_nil; apply is_derive_zero|].
      destruct gs as [|g gs']; [cbn [map combine]; rewrite nsum_nil; apply is_derive_zero|].
      cbn [map combine fst snd]. rewrite nsum_cons.
      apply is_derive_nsum_cons.
      + apply (is_derive_ext (fun v => pois_term (pd_adj dt * (ndot theta bi + (v - nth k theta 0) * nth k bi 0)) d g)).
        * intros v. rewrite ndot_upd by assumption. reflexivity.
        * apply term_deriv1; assumption.
      + apply IH. assumption.
  Qed.

  (** d (d ll / d theta_k) / d theta_l *)
  Lemma pois_grad_deriv k l : (l < length theta)%nat ->
    is_derive (fun v => pois_grad Bs dt (upd theta l v) k) (nth l theta 0) (pois_hess Bs dt theta k l).
  Proof.
    intros Hl. unfold pois_grad, pois_hess.
    generalize (pd_d dt) (pd_g dt). revert mean_pos.
    induction Bs as [|bi Bs' IH]; intros Hpos ds gs.
    - cbn [map combine]. rewrite nsum_nil. apply is_derive_zero.
    - inversion Hpos as [|? ? Hb Hrest]; subst.
      destruct ds as [|d ds']; [cbn [map combine]; rewrite nsum_nil; apply is_derive_zero|].
      destruct gs as [|g gs']; [cbn [map combine]; rewrite nsum_nil; apply is_derive_zero|].
      cbn [map combine fst snd]. rewrite nsum_cons.
      apply is_derive_nsum_cons.
      + numR.
        apply (is_derive_ext (fun v => (d / (ndot theta bi + (v - nth l theta 0) * nth l bi 0) - pd_adj dt) * nth k bi 0)).
        * intros v. rewrite ndot_upd by assumption. reflexivity.
        * apply term_deriv2; assumption.
      + apply IH. assumption.
  Qed.
End LinearPoisson.

(** symmetric, and does not depend on theta_adjust *)
Lemma pois_hess_sym (Bs : list (list R)) dt theta k l : pois_hess Bs dt theta k l = pois_hess Bs dt theta l k.
Proof. unfold pois_hess. f_equal. apply map_ext. intros t. numR. f_equal. unfold Rdiv. ring. Qed.

Lemma pois_closed_forms (Bs : list (list R)) (dt : @pdata R) (theta : list R) :
  0 < pd_adj dt -> List.Forall (fun bi => 0 < ndot theta bi) Bs ->
  (forall k, (k < length theta)%nat ->
     is_derive (fun v => pois_ll (lin_mean Bs) dt (upd theta k v)) (nth k theta 0) (pois_grad Bs dt theta k)) /\
  (forall k l, (l < length theta)%nat ->
     is_derive (fun v => pois_grad Bs dt (upd theta l v) k) (nth l theta 0) (pois_hess Bs dt theta k l)).
Proof. intros Ha Hm. split; intros; [apply pois_ll_deriv|apply pois_grad_deriv]; assumption. Qed.
