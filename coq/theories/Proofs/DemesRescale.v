(** * DemesRescale: the same demography relative to another reference size gives the identical program.
    Sizes and times x c, rates / c, Ne x c  ==>  identical (T, nu, M), identical events, identical program. *)
From Coq Require Import ZArith Reals List Bool Arith Lra Lia.
From Dadi Require Import Base.Num Base.NumR Model.DemesFront Proofs.DemesBase.
Import ListNotations.
Local Open Scope R_scope.

(** every deme has at least one epoch (true of every resolved demes graph) *)
Definition wf_graph (g : graph R) : Prop := forall d, In d (g_demes g) -> d_epochs d <> [].

Lemma last_map_ne {A B} (f : A -> B) l d d' : l <> [] -> last (map f l) d' = f (last l d).
Proof.
  induction l as [|x l IH]; [congruence|]. intros _. destruct l as [|y l]; [reflexivity|].
  change (last (map f (y :: l)) d' = f (last (y :: l) d)). apply IH. discriminate.
Qed.

Lemma epoch_covers_map a b iv e : 0 < a -> epoch_covers (ivmap a iv) (emapE a b e) = epoch_covers iv e.
Proof.
  intros Ha. unfold epoch_covers. cbn [fst snd ivmap e_start e_end emapE].
  change (Fin (a * e_end e)) with (tmap a (Fin (e_end e))). now rewrite !tleb_tmap.
Qed.

Lemma epoch_for_map a b iv d : 0 < a -> d_epochs d <> [] ->
  epoch_for (dmap a b d) (ivmap a iv) = emapE a b (epoch_for d iv).
Proof.
  intros Ha Hne. unfold epoch_for. cbn [d_epochs dmap]. rewrite find_map.
  rewrite (find_ext' _ (epoch_covers iv)) by (intros; apply epoch_covers_map; auto).
  destruct (find (epoch_covers iv) (d_epochs d)); cbn [option_map]; auto.
  apply last_map_ne; auto.
Qed.

Lemma size_within_map a b e t : a <> 0 -> b <> 0 ->
  size_within (emapE a b e) (tmap a t) = b * size_within e t.
Proof.
  intros Ha Hb. unfold size_within. cbn [e_start e_end e_s0 e_s1 e_fn emapE]. rewrite !tval_tmap. numR.
  destruct (e_fn e).
  - reflexivity.
  - rewrite Rdiv_scale by auto.
    replace (ln (e_s1 e / e_s0 e) * (a * tval (e_start e) - a * tval t))
      with (a * (ln (e_s1 e / e_s0 e) * (tval (e_start e) - tval t))) by ring.
    replace (a * tval (e_start e) - a * e_end e) with (a * (tval (e_start e) - e_end e)) by ring.
    rewrite Rdiv_scale by auto. ring.
  - replace (a * tval (e_start e) - a * tval t) with (a * (tval (e_start e) - tval t)) by ring.
    replace (a * tval (e_start e) - a * e_end e) with (a * (tval (e_start e) - e_end e)) by ring.
    rewrite Rdiv_scale by auto. ring.
Qed.

Definition scale_size (b : R) (s : R * R * sfun) : R * R * sfun := (b * fst (fst s), b * snd (fst s), snd s).

Lemma sizes_at_time_map a b iv d : 0 < a -> b <> 0 -> d_epochs d <> [] ->
  sizes_at_time (dmap a b d) (ivmap a iv) = scale_size b (sizes_at_time d iv).
Proof.
  intros Ha Hb Hne. unfold sizes_at_time. rewrite epoch_for_map by auto.
  set (e := epoch_for d iv). cbn [e_start e_end e_s0 e_s1 e_fn emapE fst snd ivmap scale_size].
  change (Fin (a * e_end e)) with (tmap a (Fin (e_end e))). rewrite !teqb_tmap by auto.
  assert (Ha' : a <> 0) by lra.
  pose proof (size_within_map a b e (fst iv) Ha' Hb) as E1. pose proof (size_within_map a b e (snd iv) Ha' Hb) as E2.
  unfold size_within in *. cbn [e_start e_end e_s0 e_s1 e_fn emapE] in *.
  rewrite E1, E2. destruct (teqb (e_start e) (fst iv)), (teqb (Fin (e_end e)) (snd iv)); reflexivity.
Qed.

Lemma make_nu_func_scale b sizes T Ne : b <> 0 ->
  make_nu_func (map (scale_size b) sizes) T (b * Ne) = make_nu_func sizes T Ne.
Proof.
  intros Hb. unfold make_nu_func. rewrite forallb_map. cbn [snd scale_size].
  destruct (forallb _ sizes); rewrite map_map; apply map_ext; intros [[s0 s1] fn]; cbn [fst snd scale_size]; numR.
  - now rewrite Rdiv_scale.
  - destruct fn.
    + now rewrite Rdiv_scale.
    + now rewrite !Rdiv_scale.
    + replace (b * s1 - b * s0) with (b * (s1 - s0)) by ring. now rewrite !Rdiv_scale.
Qed.

Lemma interval_T_scale a iv Ne : a <> 0 -> interval_T (ivmap a iv) (a * Ne) = interval_T iv Ne.
Proof.
  intros Ha. unfold interval_T. cbn [fst snd ivmap]. destruct (fst iv) as [x|]; cbn [tmap]; auto.
  rewrite tval_tmap. numR. set (k := n2).
  replace ((a * x - a * tval (snd iv)) / k) with (a * ((x - tval (snd iv)) / k)) by (unfold Rdiv; ring).
  now rewrite Rdiv_scale.
Qed.

Lemma mig_rate_map a b r g src dst iv : 0 < a ->
  mig_rate (gmap a b r g) src dst (ivmap a iv) = r * mig_rate g src dst iv.
Proof.
  intros Ha. unfold mig_rate. cbn [g_migs gmap].
  assert (G : forall l acc,
    fold_left (fun r0 m => if Nat.eqb (m_src m) src && Nat.eqb (m_dst m) dst && tleb (fst (ivmap a iv)) (m_start m)
                              && tleb (Fin (m_end m)) (snd (ivmap a iv)) then m_rate m else r0) (map (mmap a r) l) (r * acc)
    = r * fold_left (fun r0 m => if Nat.eqb (m_src m) src && Nat.eqb (m_dst m) dst && tleb (fst iv) (m_start m)
                                   && tleb (Fin (m_end m)) (snd iv) then m_rate m else r0) l acc).
  { induction l as [|m l IH]; intros acc; cbn [map fold_left]; auto.
    cbn [m_src m_dst m_start m_end m_rate mmap fst snd ivmap].
    change (Fin (a * m_end m)) with (tmap a (Fin (m_end m))). rewrite !tleb_tmap by auto.
    destruct (_ && _ && _ && _); apply IH. }
  specialize (G (g_migs g) 0). rewrite Rmult_0_r in G. exact G.
Qed.

Lemma mig_mat_scale a b g live iv Ne : 0 < a ->
  mig_mat (gmap a b (/ a) g) live (ivmap a iv) (a * Ne) = mig_mat g live iv Ne.
Proof.
  intros Ha. unfold mig_mat. apply map_ext. intros d_to. apply map_ext. intros d_from.
  destruct (Nat.eqb d_from d_to); auto. rewrite mig_rate_map by auto. numR. set (k := n2).
  replace (k * (a * Ne) * (/ a * mig_rate g d_from d_to iv)) with (k * Ne * mig_rate g d_from d_to iv * (a * / a)) by ring.
  rewrite Rinv_r by lra. ring.
Qed.

Definition stepmap (a : R) (s : step R) : step R :=
  mkStep (ivmap a (st_iv s)) (st_live s) (st_T s) (st_nus s) (st_M s) (st_fr s).

Lemma present_in g iv id : In id (present g iv) -> exists d, In d (g_demes g) /\ d_id d = id.
Proof.
  unfold present. intros Hin. apply in_map_iff in Hin as (d & E & Hd). apply filter_In in Hd as [Hd _].
  unfold ordered_demes in Hd. apply in_flat_map in Hd as (k & _ & Hd). apply filter_In in Hd as [Hd _]. eauto.
Qed.

Lemma mk_step_scale a g frozen Ne iv : 0 < a -> wf_graph g ->
  mk_step (gmap a a (/ a) g) frozen (a * Ne) (ivmap a iv) = stepmap a (mk_step g frozen Ne iv).
Proof.
  intros Ha Hwf. assert (Ha' : a <> 0) by lra. unfold mk_step, stepmap. cbn [st_iv st_live st_T st_nus st_M st_fr].
  rewrite present_gmap, interval_T_scale, mig_mat_scale by auto. f_equal.
  rewrite <- (make_nu_func_scale a _ _ Ne Ha'). f_equal. rewrite map_map. apply map_ext_in. intros id Hid.
  rewrite find_deme_gmap. destruct (find_deme g id) as [d|] eqn:E; cbn [option_map].
  - apply sizes_at_time_map; auto. apply Hwf. unfold find_deme in E. apply find_some in E. tauto.
  - exfalso. apply present_in in Hid as (d & Hd & Hid). unfold find_deme in E.
    apply (find_none _ _ E) in Hd. rewrite Hid, Nat.eqb_refl in Hd. discriminate.
Qed.

Lemma plan_scale a g frozen Ne : 0 < a -> wf_graph g ->
  plan (gmap a a (/ a) g) frozen (a * Ne) = map (stepmap a) (plan g frozen Ne).
Proof.
  intros Ha Hwf. unfold plan. rewrite used_intervals_gmap by auto. rewrite !map_map. apply map_ext. intros iv.
  apply mk_step_scale; auto.
Qed.

Lemma run_step_scale a ws all evs stp s : 0 < a ->
  run_step ws (map (stepmap a) all) (evmap a evs) (stepmap a stp) s = run_step ws all evs stp s.
Proof.
  intros Ha. unfold run_step. cbn [st_iv st_live st_T st_nus st_M st_fr stepmap fst snd ivmap].
  rewrite events_at_evmap by auto.
  rewrite <- (tmap_Fin0 a) at 1. rewrite tleb_tmap by auto. change (@n0 R NumR) with 0.
  rewrite find_map.
  rewrite (find_ext' _ (fun x => teqb (fst (st_iv x)) (snd (st_iv stp)))).
  2:{ intros x. cbn [st_iv stepmap fst ivmap]. apply teqb_tmap; auto. }
  destruct (find _ all); cbn [option_map st_live stepmap]; reflexivity.
Qed.

Lemma run_steps_scale a ws all evs s : 0 < a ->
  run_steps ws (map (stepmap a) all) (evmap a evs) s = run_steps ws all evs s.
Proof.
  intros Ha. unfold run_steps. generalize all at 1 3 as full. intros full. revert s.
  induction all as [|stp l IH]; intros s; cbn [map fold_left]; auto.
  rewrite run_step_scale by auto. apply IH.
Qed.

Lemma root_Ne_gmap a b r g : wf_graph g -> (exists d, In d (g_demes g) /\ d_anc d = []) ->
  root_Ne (gmap a b r g) = b * root_Ne g.
Proof.
  intros Hwf [d0 [Hd0 Ha0]]. unfold root_Ne. cbn [g_demes gmap]. rewrite find_map. cbn [d_anc dmap].
  destruct (find (fun d => is_nil (d_anc d)) (g_demes g)) as [d|] eqn:E; cbn [option_map].
  - apply find_some in E as [Hd _]. cbn [d_epochs dmap]. specialize (Hwf d Hd).
    destruct (d_epochs d); [congruence|]. reflexivity.
  - exfalso. apply (find_none _ _ E) in Hd0. now rewrite Ha0 in Hd0.
Qed.

(** a graph has a root (a deme without ancestors) *)
Definition has_root (g : graph R) : Prop := exists d, In d (g_demes g) /\ d_anc d = [].

Definition scale_Ne (c : R) (Ne : option R) : option R := option_map (Rmult c) Ne.

Theorem core_run_rescale : forall ws pnu c g evs sampled frozen Ne,
  0 < c -> wf_graph g -> has_root g ->
  core_run ws pnu (gmap c c (/ c) g) (evmap c evs) sampled frozen (scale_Ne c Ne) = core_run ws pnu g evs sampled frozen Ne.
Proof.
  intros ws pnu c g evs sampled frozen Ne Hc Hwf Hroot. unfold core_run.
  rewrite used_intervals_gmap by auto. rewrite existsb_map.
  rewrite (existsb_ext' _ (fun iv => Nat.ltb 5 (length (present g iv)))) by (intros; now rewrite present_gmap).
  destruct (existsb _ (used_intervals g)); auto.
  assert (ENe : match scale_Ne c Ne with Some x => x | None => root_Ne (gmap c c (/ c) g) end
                = c * match Ne with Some x => x | None => root_Ne g end).
  { destruct Ne; cbn; auto. apply root_Ne_gmap; auto. }
  rewrite ENe. rewrite plan_scale by auto. rewrite marg_events_gmap by auto. rewrite <- evmap_app.
  set (steps := plan g frozen _).
  assert (Ehd : hd (mkStep (Inf, Inf) [] n0 [] [] []) (map (stepmap c) steps)
                = stepmap c (hd (mkStep (Inf, Inf) [] n0 [] [] []) steps)).
  { destruct steps; reflexivity. }
  rewrite Ehd. cbn [st_live st_nus stepmap]. apply run_steps_scale; auto.
Qed.

(** rescale_graph_same_program *)
Theorem core_rescale : forall ws pnu c g evs sampled frozen Ne ns,
  0 < c -> wf_graph g -> has_root g ->
  core ws pnu (gmap c c (/ c) g) (evmap c evs) sampled frozen (scale_Ne c Ne) ns = core ws pnu g evs sampled frozen Ne ns.
Proof. intros. unfold core. now rewrite core_run_rescale. Qed.
