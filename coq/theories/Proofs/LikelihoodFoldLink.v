(** C11 <-> C09: the fold used by the likelihood functions IS the C09 model of Spectrum.fold.

    Model/Likelihood.v takes [fold] as an argument; the instance that is run against the implementation is
    [fold_flat N tot] (entry k paired with entry size-1-k, [tot] = sum of the multi-index of every entry).
    Model/Fold.v (property C09) models Spectrum.fold on d-dimensional arrays of every shape
    ([fold_data_l] / [fold_mask_l]).  Here:
    - [fold_flat_is_c09_fold]: for EVERY shape s, on a flat list of size s, with [tot] and [N] computed from s,
      fold_flat = the C09 fold, on data and on mask;
    - the C09 fold commutes with multiplication by a scalar on every list (the hypothesis of the C11 theorems);
    - hence the C11 theorems that carry that hypothesis hold with the C09 fold itself, no hypothesis left;
    - and the likelihood of Model/Likelihood.v with the C09 fold is the likelihood [ll_ls] of Model/Fold.v
      (the C09 model of "Inference.ll folds the model automatically"). *)
From Coq Require Import ZArith Reals List Bool Arith Lia Lra Permutation.
From Dadi Require Import Base.Num Base.NumR Model.Fold Proofs.FoldAbs Proofs.FoldND Model.Likelihood
  Proofs.LikelihoodBasics Proofs.LikelihoodProofs Proofs.LikelihoodResid.
Import ListNotations.
Local Open Scope R_scope.

(** ** the arguments of fold_flat computed from the shape; the C09 fold on (value, mask) entry lists *)
Definition tot_of (s : list nat) : list Z := map (fun mi => Z.of_nat (total mi)) (enum s).
Definition N_of (s : list nat) : Z := Z.of_nat (total_samples s).
Definition fold_c09 (s : list nat) (l : list entryR) : list entryR :=
  combine (fold_data_l s (map ev l)) (fold_mask_l s (map em l)).

Lemma combine_map_same {A B C} (f : A -> B) (g : A -> C) l : combine (map f l) (map g l) = map (fun a => (f a, g a)) l.
Proof. induction l as [|a l IH]; [reflexivity|]. cbn [map combine]. now rewrite IH. Qed.

Lemma fold_c09_as_map s (l : list entryR) :
  fold_c09 s l = map (fun mi => (fold_nd s (arr_of s (map ev l) 0) mi, fold_mask_nd s (arr_of s (map em l) false) mi)) (enum s).
Proof. unfold fold_c09, fold_data_l, fold_mask_l, tabulate. apply combine_map_same. Qed.

Lemma fold_c09_length s (l : list entryR) : length (fold_c09 s l) = size s.
Proof. rewrite fold_c09_as_map, map_length. apply enum_length. Qed.
Lemma fold_c09_data s (l : list entryR) : map ev (fold_c09 s l) = fold_data_l s (map ev l).
Proof. rewrite fold_c09_as_map, map_map. reflexivity. Qed.
Lemma fold_c09_mask s (l : list entryR) : map em (fold_c09 s l) = fold_mask_l s (map em l).
Proof. rewrite fold_c09_as_map, map_map. reflexivity. Qed.

(** ** the constructor's corner masking, by position *)
Lemma mask_last_entry_spec : forall (L : list entryR) a n, n = (a + length L)%nat ->
  mask_last_entry L = map (fun p => (fst (snd p), snd (snd p) || Nat.eqb (S (fst p)) n)) (combine (seq a (length L)) L).
Proof. induction L as [|e L IH]; intros a n Hn; [reflexivity|]. destruct L as [|e' L].
  - cbn [length] in Hn. cbn [mask_last_entry length seq combine map fst snd].
    replace (Nat.eqb (S a) n) with true by (symmetry; apply Nat.eqb_eq; lia). now rewrite orb_true_r.
  - change (mask_last_entry (e :: e' :: L)) with (e :: mask_last_entry (e' :: L)).
    rewrite (IH (S a) n) by (cbn [length] in *; lia).
    cbn [length seq combine map fst snd]. f_equal. cbn [length] in Hn.
    replace (Nat.eqb (S a) n) with false by (symmetry; apply Nat.eqb_neq; lia). rewrite orb_false_r. now destruct e. Qed.

Lemma mask_corner_entries_spec (L : list entryR) :
  mask_corner_entries L =
  map (fun p => (fst (snd p), snd (snd p) || Nat.eqb (fst p) 0 || Nat.eqb (S (fst p)) (length L))) (combine (seq 0 (length L)) L).
Proof. unfold mask_corner_entries. rewrite (mask_last_entry_spec L 0 (length L) eq_refl).
  destruct L as [|e L]; [reflexivity|]. cbn [length seq combine map fst snd]. f_equal.
  - now rewrite orb_true_r.
  - apply map_ext_in. intros [k e'] Hin. apply in_combine_l, in_seq in Hin. cbn [fst snd].
    replace (Nat.eqb k 0) with false by (symmetry; apply Nat.eqb_neq; lia). now rewrite orb_false_r. Qed.

(** ** one entry *)
Lemma fold_entry_is_fold_val s (x : list nat -> R) (m : list nat -> bool) (A : list nat -> entryR) mi :
  valid s mi -> (forall j, x j = ev (A j)) -> (forall j, m j = em (A j)) ->
  fold_entry (N_of s) ((A mi, A (mirror_mi s mi)), Z.of_nat (total mi)) =
  (fold_nd s x mi, (m mi || m (mirror_mi s mi)) || folded_out total (total_samples s) mi).
Proof. intros Hv Hx Hm. pose proof (mirror_total s mi Hv) as Ht.
  unfold fold_entry, fold_nd, fold_val, reverse, where_, folded_out, ambiguous, N_of. cbn [fst snd].
  rewrite !Hx, !Hm.
  set (N := total_samples s) in *. set (t := total mi) in *. set (t' := total (mirror_mi s mi)) in *.
  pose proof (half_lt N t) as H1. pose proof (half_lt N t') as H2.
  destruct (Z.ltb_spec (Z.of_nat N) (2 * Z.of_nat t)); destruct (Z.eqb_spec (2 * Z.of_nat t) (Z.of_nat N));
  destruct (Z.ltb_spec (2 * Z.of_nat t) (Z.of_nat N));
  destruct (Nat.ltb_spec (N / 2) t); destruct (Nat.ltb_spec (N / 2) t');
  destruct (Nat.eqb_spec (2 * t) N); destruct (Nat.eqb_spec (2 * t') N); try (exfalso; lia);
  (apply (f_equal2 (@pair R bool)); [numR; unfold nhalf, n2; numR; lra | reflexivity]). Qed.

(** ** THE LINK: for every shape, fold_flat with the totals of that shape is the C09 fold *)
Theorem fold_flat_is_c09_fold (s : list nat) (l : list entryR) : length l = size s ->
  fold_flat (N_of s) (tot_of s) l = fold_c09 s l.
Proof. intros Hl. pose (d0 := ((0, false) : entryR)).
  set (A := arr_of s l d0).
  assert (Hx : forall j, arr_of s (map ev l) 0 j = ev (A j)).
  { intros j. unfold A, arr_of. apply (nth_map_default (@ev R) l (ravel s j) d0 0). reflexivity. }
  assert (Hm : forall j, arr_of s (map em l) false j = em (A j)).
  { intros j. unfold A, arr_of. apply (nth_map_default (@em R) l (ravel s j) d0 false). reflexivity. }
  assert (E2 : rev l = map (fun mi => A (mirror_mi s mi)) (enum s)).
  { rewrite <- (l_reverse_is_rev s l d0 Hl). reflexivity. }
  assert (E1 : l = map A (enum s)) by (symmetry; exact (tabulate_arr_of s l d0 Hl)).
  assert (E : combine (combine l (rev l)) (tot_of s) =
              map (fun mi => ((A mi, A (mirror_mi s mi)), Z.of_nat (total mi))) (enum s)).
  { rewrite E2. rewrite E1 at 1. unfold tot_of. rewrite !combine_map_same. reflexivity. }
  unfold fold_flat, entry in *. rewrite E, map_map. clear E E1 E2.
  rewrite mask_corner_entries_spec, map_length, enum_length.
  rewrite <- (ravel_enum s), combine_map_same, map_map.
  rewrite fold_c09_as_map. apply map_ext_in. intros mi Hin. cbn [fst snd].
  rewrite (fold_entry_is_fold_val s (arr_of s (map ev l) 0) (arr_of s (map em l) false) A mi (enum_valid s mi Hin) Hx Hm).
  cbn [fst snd]. f_equal. unfold fold_mask_nd, fold_mask, reverse, is_corner. now rewrite <- !orb_assoc. Qed.

Corollary fold_flat_data_mask (s : list nat) (l : list entryR) : length l = size s ->
  map ev (fold_flat (N_of s) (tot_of s) l) = fold_data_l s (map ev l) /\
  map em (fold_flat (N_of s) (tot_of s) l) = fold_mask_l s (map em l).
Proof. intros Hl. rewrite fold_flat_is_c09_fold by exact Hl. split; [apply fold_c09_data|apply fold_c09_mask]. Qed.

(** ** the C09 fold commutes with multiplication by a scalar -- on every list *)
Lemma fold_val_scale {I : Type} (mir : I -> I) (tot : I -> nat) (N : nat) (c : R) (x y : I -> R) i :
  (forall j, y j = c * x j) -> fold_val mir tot N y i = c * fold_val mir tot N x i.
Proof. intros Hy. unfold fold_val, reverse, where_. rewrite !Hy.
  destruct (folded_out tot N i), (folded_out tot N (mir i)), (ambiguous tot N i), (ambiguous tot N (mir i));
  numR; unfold nhalf, n2; numR; lra. Qed.

Lemma scale_map {A} (c : R) (G : A -> entryR) L : scale c (map G L) = map (fun a => (c * ev (G a), em (G a))) L.
Proof. unfold scale. apply map_map. Qed.
Lemma arr_ev_scale s (c : R) (l : list entryR) j : arr_of s (map ev (scale c l)) 0 j = c * arr_of s (map ev l) 0 j.
Proof. unfold arr_of.
  transitivity (nth (ravel s j) (map (fun e : entryR => c * ev e) l) 0).
  { f_equal. unfold scale. rewrite map_map. reflexivity. }
  rewrite (nth_map_default (fun e : entryR => c * ev e) l (ravel s j) (0, false) 0) by (unfold ev; cbn [fst]; ring).
  rewrite (nth_map_default (@ev R) l (ravel s j) (0, false) 0) by reflexivity. reflexivity. Qed.
Lemma map_em_scale (c : R) (l : list entryR) : map em (scale c l) = map em l.
Proof. unfold scale. rewrite map_map. reflexivity. Qed.

Theorem fold_c09_scale (s : list nat) (c : R) (l : list entryR) : fold_c09 s (scale c l) = scale c (fold_c09 s l).
Proof. rewrite !fold_c09_as_map, scale_map. apply map_ext. intros mi. rewrite map_em_scale.
  apply (f_equal2 (@pair R bool)); [|reflexivity].
  exact (fold_val_scale (mirror_mi s) total (total_samples s) c (arr_of s (map ev l) 0) (arr_of s (map ev (scale c l)) 0) mi
           (arr_ev_scale s c l)). Qed.

(** ** the C11 theorems with the C09 fold itself *)
Section WithC09Fold.
  Variable lg : R -> R.
  Variable remask : bool.
  Variable s : list nat.

  Theorem autofold_uses_the_C09_fold :
    (* the instance that is run against the implementation is the C09 fold, data and mask *)
    (forall l : list entryR, length l = size s ->
       fold_flat (N_of s) (tot_of s) l = fold_c09 s l /\
       map ev (fold_flat (N_of s) (tot_of s) l) = fold_data_l s (map ev l) /\
       map em (fold_flat (N_of s) (tot_of s) l) = fold_mask_l s (map em l)) /\
    (* the C09 fold satisfies the hypothesis of the C11 theorems *)
    (forall c l, fold_c09 s (scale c l) = scale c (fold_c09 s l)) /\
    (* C11_auto_fold, stated with the C09 fold *)
    (forall m d : list entryR,
       ll lg (fold_c09 s) false true m d = ll lg (fold_c09 s) true true (fold_c09 s m) d /\
       ll_multinom lg (fold_c09 s) remask false true m d = ll_multinom lg (fold_c09 s) remask true true (fold_c09 s m) d /\
       optimal_sfs_scaling (fold_c09 s) remask false true m d = optimal_sfs_scaling (fold_c09 s) remask true true (fold_c09 s m) d /\
       (forall mf, auto_fold (fold_c09 s) mf false m = m) /\ auto_fold (fold_c09 s) true true m = m).
  Proof. split; [|split].
    - intros l Hl. split; [now apply fold_flat_is_c09_fold|now apply fold_flat_data_mask].
    - apply fold_c09_scale.
    - apply auto_fold_spec. apply fold_c09_scale. Qed.

  Theorem ll_multinom_is_max_with_C09_fold (mf df : bool) (m d : list entryR) (c : R) :
    let m' := auto_fold (fold_c09 s) mf df m in
    length m' = length d ->
    (forall i, (i < length d)%nat -> maskat m' i = false -> maskat d i = false -> 0 < valat m' i) ->
    0 < sum_over (length d) (joint_unmasked m' d) (valat d) ->
    corner_ok remask m' d -> 0 < c ->
    ll lg (fold_c09 s) mf df (scale c m) d <= ll_multinom lg (fold_c09 s) remask mf df m d
    /\ ll_multinom lg (fold_c09 s) remask mf df m d
       = ll lg (fold_c09 s) mf df (scale (optimal_sfs_scaling (fold_c09 s) remask mf df m d) m) d.
  Proof. apply ll_multinom_is_max_and_is_attained. apply fold_c09_scale. Qed.

  Theorem ll_multinom_scale_invariant_with_C09_fold (mf df : bool) (m d : list entryR) (c : R) :
    let m' := auto_fold (fold_c09 s) mf df m in
    length m' = length d -> c <> 0 ->
    sum_over (length d) (scaling_index_set remask m' d) (valat m') <> 0 ->
    ll_multinom lg (fold_c09 s) remask mf df (scale c m) d = ll_multinom lg (fold_c09 s) remask mf df m d /\
    optimal_sfs_scaling (fold_c09 s) remask mf df (scale c m) d = optimal_sfs_scaling (fold_c09 s) remask mf df m d / c.
  Proof. apply ll_multinom_scale_invariant. apply fold_c09_scale. Qed.
End WithC09Fold.

(** ** the C09 model's own likelihood (Model/Fold.v [ll_ls], "Inference.ll folds the model automatically")
    is the C11 likelihood run with the C09 fold *)
Definition entries_of (a : lspec R) : list entryR := combine (ls_data a) (ls_mask a).

Lemma map_fst_combine_eq {A B} (a : list A) (b : list B) : length a = length b -> map fst (combine a b) = a.
Proof. revert b. induction a as [|x a IH]; intros [|y b] Hl; try discriminate; [reflexivity|].
  cbn [combine map fst]. f_equal. apply IH. now injection Hl. Qed.
Lemma map_snd_combine_eq {A B} (a : list A) (b : list B) : length a = length b -> map snd (combine a b) = b.
Proof. revert b. induction a as [|x a IH]; intros [|y b] Hl; try discriminate; [reflexivity|].
  cbn [combine map snd]. f_equal. apply IH. now injection Hl. Qed.

Lemma ll_terms_is_msum (lg : R -> R) : forall (mm dm : list bool) (mv dv : list R),
  ll_terms lg mm dm mv dv = Likelihood.msum (zipw (llpb_entry lg) (combine mv mm) (combine dv dm)).
Proof. induction mm as [|a mm IH]; intros dm mv dv.
  - destruct mv; reflexivity.
  - destruct dm as [|b dm]; [destruct mv, dv; reflexivity|].
    destruct mv as [|x mv]; [reflexivity|]. destruct dv as [|y dv]; [reflexivity|].
    cbn [ll_terms]. rewrite IH. unfold zipw. cbn [combine map fst snd].
    unfold llpb_entry at 2, ma_log, ev, em. cbn [fst snd]. rewrite msum_cons. numR.
    destruct a, b, (Rleb x 0); cbn [orb]; numR; lra. Qed.

Theorem ll_ls_is_C11_ll_with_C09_fold (lg : R -> R) (model data : lspec R) (v : R) :
  length (ls_data model) = length (ls_mask model) ->
  ll_ls lg model data = Some v ->
  v = ll lg (fold_c09 (ls_shape model)) (ls_folded model) (ls_folded data) (entries_of model) (entries_of data).
Proof. intros Hlen. unfold ll_ls, autofold, ll, ll_per_bin, auto_fold, fold_ls, entries_of.
  destruct (ls_folded data) eqn:Ed, (ls_folded model) eqn:Em; cbn [andb negb ls_folded ls_data ls_mask Bool.eqb];
    rewrite ?Em; cbn [Bool.eqb]; intros E; try discriminate; injection E as <-.
  - apply ll_terms_is_msum.
  - rewrite ll_terms_is_msum. unfold fold_c09.
    replace (map ev (combine (ls_data model) (ls_mask model))) with (ls_data model)
      by (symmetry; apply map_fst_combine_eq; exact Hlen).
    replace (map em (combine (ls_data model) (ls_mask model))) with (ls_mask model)
      by (symmetry; apply map_snd_combine_eq; exact Hlen).
    reflexivity.
  - apply ll_terms_is_msum. Qed.

(** ** hidden content: what is stored under a masked entry of the model or of the data is irrelevant.
    [vis_eq a b]: same length, same masks, same values wherever unmasked (the values under a mask are arbitrary
    and may differ).  Every output of the likelihood functions of two visibly equal (model, data) pairs is
    visibly equal -- scalars and residual arrays equal, masked arrays visibly equal.  (Over R a stored value
    cannot be nan or inf; the harness hands such content to the real code, stream 'containers'.) *)
Definition vis1 (x y : entryR) : Prop := em x = em y /\ (em x = false -> ev x = ev y).
Definition vis_eq (a b : list entryR) : Prop := Forall2 vis1 a b.

Lemma vis_eq_refl a : vis_eq a a.
Proof. induction a; constructor; [split; auto | assumption]. Qed.

Lemma zipw_rel {A B C} (RA : A -> A -> Prop) (RB : B -> B -> Prop) (RC : C -> C -> Prop) (f : A -> B -> C) :
  (forall x x' y y', RA x x' -> RB y y' -> RC (f x y) (f x' y')) ->
  forall a a', Forall2 RA a a' -> forall b b', Forall2 RB b b' -> Forall2 RC (zipw f a b) (zipw f a' b').
Proof. intros Hf a a' Ha. induction Ha as [|x x' a a' Hx Ha IH]; intros b b' Hb; [constructor|].
  destruct Hb as [|y y' b b' Hy Hb]; [constructor|].
  unfold zipw. cbn [combine map fst snd]. constructor; [apply Hf; assumption | apply IH; assumption]. Qed.

Lemma Forall2_eq_list {A} (a b : list A) : Forall2 eq a b -> a = b.
Proof. induction 1; [reflexivity | f_equal; assumption]. Qed.

Lemma vis_eq_msum a b : vis_eq a b -> Likelihood.msum a = Likelihood.msum b.
Proof. induction 1 as [|[v m] [v' m'] a b [Hm Hv] _ IH]; [reflexivity|].
  unfold em, ev in Hm, Hv. cbn [fst snd] in Hm, Hv. subst m'. rewrite !msum_cons, IH.
  destruct m; [reflexivity | rewrite Hv; reflexivity]. Qed.

Lemma vis_eq_scale s a b : vis_eq a b -> vis_eq (scale s a) (scale s b).
Proof. induction 1 as [|x y a b [Hm Hv] _ IH]; [constructor|].
  unfold scale. cbn [map]. constructor; [|exact IH].
  split; unfold em, ev in *; cbn [fst snd]; [exact Hm | intros E; rewrite (Hv E); reflexivity]. Qed.

Lemma vis1_llpb lg x x' y y' : vis1 x x' -> vis1 y y' -> vis1 (llpb_entry lg x y) (llpb_entry lg x' y').
Proof. destruct x as [xv xm], x' as [xv' xm'], y as [yv ym], y' as [yv' ym'].
  unfold vis1, llpb_entry, ma_log, em, ev. cbn [fst snd]. intros [Mx Vx] [My Vy]. subst xm' ym'.
  destruct xm; [split; [reflexivity | cbn; intros E; discriminate E]|].
  rewrite <- (Vx eq_refl).
  destruct ym; [split; [reflexivity | rewrite orb_true_r; intros E; discriminate E]|].
  rewrite <- (Vy eq_refl). split; auto. Qed.

Lemma vis_eq_masks_equal a a' : vis_eq a a' -> forall d d', vis_eq d d' -> masks_equal a d = masks_equal a' d'.
Proof. induction 1 as [|x x' a a' [Hx _] _ IH]; intros d d' Hd; [reflexivity|].
  destruct Hd as [|y y' d d' [Hy _] Hd]; [reflexivity|].
  unfold masks_equal. cbn [combine forallb fst snd]. rewrite Hx, Hy. f_equal. apply IH. exact Hd. Qed.

Lemma vis_eq_jmask a a' : vis_eq a a' -> forall d d', vis_eq d d' -> jmask a d = jmask a' d'.
Proof. intros Ha d d' Hd. apply Forall2_eq_list.
  apply (zipw_rel vis1 vis1 eq (fun a b : entryR => em a || em b)); auto.
  intros x x' y y' [Hx _] [Hy _]. rewrite Hx, Hy. reflexivity. Qed.

Lemma vis_eq_setmask a a' mk : vis_eq a a' -> vis_eq (setmask a mk) (setmask a' mk).
Proof. intros Ha. apply (zipw_rel vis1 eq vis1 (fun (e : entryR) (b : bool) => (ev e, em e || b))); auto.
  - intros x x' b b' [Hx Vx] <-. split; unfold em, ev in *; cbn [fst snd]; [rewrite Hx; reflexivity|].
    intros E. apply orb_false_elim in E. apply Vx, (proj1 E).
  - clear. induction mk; constructor; auto. Qed.

Lemma vis_eq_intersect remask a a' d d' : vis_eq a a' -> vis_eq d d' ->
  vis_eq (fst (intersect_masks remask a d)) (fst (intersect_masks remask a' d')) /\
  vis_eq (snd (intersect_masks remask a d)) (snd (intersect_masks remask a' d')).
Proof. intros Ha Hd. unfold intersect_masks.
  rewrite <- (vis_eq_masks_equal a a' Ha d d' Hd), <- (vis_eq_jmask a a' Ha d d' Hd).
  destruct (masks_equal a d); cbn [fst snd]; split; auto; apply vis_eq_setmask; assumption. Qed.

Lemma vis1_lin cut x x' y y' : vis1 x x' -> vis1 y y' -> lin_entry cut x y = lin_entry cut x' y'.
Proof. destruct x as [xv xm], x' as [xv' xm'], y as [yv ym], y' as [yv' ym'].
  unfold vis1, lin_entry, em, ev. cbn [fst snd]. intros [Mx Vx] [My Vy]. subst xm' ym'.
  destruct xm; [reflexivity|]. destruct ym; [reflexivity|].
  rewrite <- (Vx eq_refl), <- (Vy eq_refl). reflexivity. Qed.

Lemma vis1_ans cut x x' y y' : vis1 x x' -> vis1 y y' -> ans_entry cut x y = ans_entry cut x' y'.
Proof. destruct x as [xv xm], x' as [xv' xm'], y as [yv ym], y' as [yv' ym'].
  unfold vis1, ans_entry, em, ev. cbn [fst snd]. intros [Mx Vx] [My Vy]. subst xm' ym'.
  destruct xm; [reflexivity|]. destruct ym; [reflexivity|].
  rewrite <- (Vx eq_refl), <- (Vy eq_refl). reflexivity. Qed.

Section HiddenContent.
  Variable lg : R -> R.
  Variable remask : bool.
  Variable fold : list entryR -> list entryR.
  Hypothesis fold_vis : forall a b, vis_eq a b -> vis_eq (fold a) (fold b).

  Lemma vis_eq_auto_fold mf df a b : vis_eq a b -> vis_eq (auto_fold fold mf df a) (auto_fold fold mf df b).
  Proof. intros H. unfold auto_fold. destruct (df && negb mf); auto. Qed.

  Lemma vis_eq_ll_per_bin mf df m m' d d' : vis_eq m m' -> vis_eq d d' ->
    vis_eq (ll_per_bin lg fold mf df m d) (ll_per_bin lg fold mf df m' d').
  Proof. intros Hm Hd. unfold ll_per_bin.
    apply (zipw_rel vis1 vis1 vis1 (llpb_entry lg) (vis1_llpb lg)); [apply vis_eq_auto_fold; assumption | assumption]. Qed.

  Lemma vis_eq_scaling mf df m m' d d' : vis_eq m m' -> vis_eq d d' ->
    optimal_sfs_scaling fold remask mf df m d = optimal_sfs_scaling fold remask mf df m' d'.
  Proof. intros Hm Hd. unfold optimal_sfs_scaling.
    destruct (vis_eq_intersect remask _ _ d d' (vis_eq_auto_fold mf df m m' Hm) Hd) as [A B].
    rewrite (vis_eq_msum _ _ A), (vis_eq_msum _ _ B). reflexivity. Qed.

  Theorem hidden_content_irrelevant (cut : option R) (mf df : bool) (m m' d d' : list entryR) :
    vis_eq m m' -> vis_eq d d' ->
    ll lg fold mf df m d = ll lg fold mf df m' d' /\
    vis_eq (ll_per_bin lg fold mf df m d) (ll_per_bin lg fold mf df m' d') /\
    optimal_sfs_scaling fold remask mf df m d = optimal_sfs_scaling fold remask mf df m' d' /\
    vis_eq (optimally_scaled_sfs fold remask mf df m d) (optimally_scaled_sfs fold remask mf df m' d') /\
    vis_eq (ll_multinom_per_bin lg fold remask mf df m d) (ll_multinom_per_bin lg fold remask mf df m' d') /\
    ll_multinom lg fold remask mf df m d = ll_multinom lg fold remask mf df m' d' /\
    linear_Poisson_residual fold cut mf df m d = linear_Poisson_residual fold cut mf df m' d' /\
    Anscombe_Poisson_residual fold cut mf df m d = Anscombe_Poisson_residual fold cut mf df m' d'.
  Proof. intros Hm Hd.
    assert (Hs : vis_eq (optimally_scaled_sfs fold remask mf df m d) (optimally_scaled_sfs fold remask mf df m' d')).
    { unfold optimally_scaled_sfs. rewrite (vis_eq_scaling mf df m m' d d' Hm Hd). apply vis_eq_scale, Hm. }
    assert (Hpm : vis_eq (ll_multinom_per_bin lg fold remask mf df m d) (ll_multinom_per_bin lg fold remask mf df m' d')).
    { unfold ll_multinom_per_bin. apply vis_eq_ll_per_bin; assumption. }
    repeat split.
    - unfold ll. apply vis_eq_msum, vis_eq_ll_per_bin; assumption.
    - apply vis_eq_ll_per_bin; assumption.
    - apply vis_eq_scaling; assumption.
    - exact Hs.
    - exact Hpm.
    - unfold ll_multinom. apply vis_eq_msum, Hpm.
    - unfold linear_Poisson_residual. apply Forall2_eq_list.
      apply (zipw_rel vis1 vis1 eq (lin_entry cut) (vis1_lin cut)); [apply vis_eq_auto_fold; assumption | assumption].
    - unfold Anscombe_Poisson_residual. apply Forall2_eq_list.
      apply (zipw_rel vis1 vis1 eq (ans_entry cut) (vis1_ans cut)); [apply vis_eq_auto_fold; assumption | assumption]. Qed.
End HiddenContent.

(** the executable fold (and so, on lists of the right length, the C09 fold) maps visibly equal spectra to visibly
    equal spectra: an entry of the folded spectrum is masked as soon as one of the two entries it adds up is *)
Lemma Forall2_rev_ {A} (Rl : A -> A -> Prop) a b : Forall2 Rl a b -> Forall2 Rl (rev a) (rev b).
Proof. induction 1; cbn [rev]; [constructor|]. apply Forall2_app; [assumption | constructor; [assumption | constructor]]. Qed.

Lemma vis_eq_mask_last_entry a b : vis_eq a b -> vis_eq (mask_last_entry a) (mask_last_entry b).
Proof. induction 1 as [|x y a b Hxy Hab IH]; [constructor|].
  destruct Hab as [|x2 y2 a b H2 Hab].
  - cbn. constructor; [|constructor]. split; [reflexivity | cbn; intros E; discriminate E].
  - change (mask_last_entry (x :: x2 :: a)) with (x :: mask_last_entry (x2 :: a)).
    change (mask_last_entry (y :: y2 :: b)) with (y :: mask_last_entry (y2 :: b)).
    constructor; assumption. Qed.

Lemma vis_eq_mask_corner_entries a b : vis_eq a b -> vis_eq (mask_corner_entries a) (mask_corner_entries b).
Proof. intros H. apply vis_eq_mask_last_entry in H. unfold mask_corner_entries.
  destruct H as [|x y a' b' _ Hab]; [constructor|].
  constructor; [split; [reflexivity | cbn; intros E; discriminate E] | assumption]. Qed.

Lemma fold_zip_vis N : forall a b : list entryR, vis_eq a b -> forall ra rb : list entryR, vis_eq ra rb -> forall tot,
  vis_eq (map (fold_entry N) (combine (combine a ra) tot)) (map (fold_entry N) (combine (combine b rb) tot)).
Proof. induction 1 as [|x y a b Hxy _ IH]; intros ra rb Hr tot; [constructor|].
  destruct Hr as [|rx ry ra rb Hrxy Hr]; [constructor|]. destruct tot as [|t tot]; [constructor|].
  cbn [combine map]. constructor; [|apply IH; assumption].
  destruct x as [xv xm], y as [yv ym], rx as [rxv rxm], ry as [ryv rym].
  destruct Hxy as [Mx Vx], Hrxy as [Mr Vr]. unfold em, ev in Mx, Vx, Mr, Vr. cbn [fst snd] in Mx, Vx, Mr, Vr. subst ym rym.
  unfold vis1, fold_entry, em, ev. cbn [fst snd]. split; [reflexivity|].
  intros E. apply orb_false_elim in E. destruct E as [E _]. apply orb_false_elim in E. destruct E as [E1 E2].
  rewrite <- (Vx E1), <- (Vr E2). reflexivity. Qed.

Theorem fold_flat_vis N tot (a b : list entryR) : vis_eq a b -> vis_eq (fold_flat N tot a) (fold_flat N tot b).
Proof. intros H. unfold fold_flat. apply vis_eq_mask_corner_entries, fold_zip_vis; [assumption | apply Forall2_rev_; assumption]. Qed.

Theorem hidden_content_irrelevant_fold_flat (lg : R -> R) (remask : bool) (N : Z) (tot : list Z)
    (cut : option R) (mf df : bool) (m m' d d' : list entryR) :
  vis_eq m m' -> vis_eq d d' ->
  let fold := fold_flat N tot in
  ll lg fold mf df m d = ll lg fold mf df m' d' /\
  vis_eq (ll_per_bin lg fold mf df m d) (ll_per_bin lg fold mf df m' d') /\
  optimal_sfs_scaling fold remask mf df m d = optimal_sfs_scaling fold remask mf df m' d' /\
  vis_eq (optimally_scaled_sfs fold remask mf df m d) (optimally_scaled_sfs fold remask mf df m' d') /\
  vis_eq (ll_multinom_per_bin lg fold remask mf df m d) (ll_multinom_per_bin lg fold remask mf df m' d') /\
  ll_multinom lg fold remask mf df m d = ll_multinom lg fold remask mf df m' d' /\
  linear_Poisson_residual fold cut mf df m d = linear_Poisson_residual fold cut mf df m' d' /\
  Anscombe_Poisson_residual fold cut mf df m d = Anscombe_Poisson_residual fold cut mf df m' d'.
Proof. intros Hm Hd fold. apply hidden_content_irrelevant; auto. apply fold_flat_vis. Qed.
