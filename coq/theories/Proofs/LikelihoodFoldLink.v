(** C11 <-> C09: the fold used by the likelihood functions IS the C09 model of Spectrum.fold.

    Model/Likelihood.v takes [fold] as an argument; the instance that is run against the implementation is
    [fold_flat N tot] (entry k paired with entry size-1-k, [tot] = sum of the multi-index of every entry).
    Model/Fold.v (property C09) models Spectrum.fold on d-dimensional arrays of every shape
    ([fold_data_l] / [fold_mask_l]).  Here:
    - [fold_flat_is_c09_fold]: for EVERY shape s, on a flat list of size s, with [tot] and [N] computed from s,
      fold_flat = the C09 fold, on data and on mask;
    - the C09 fold commutes with multiplication by a scalar on every list (the hypothesis of the C11 theorems);
    - hence the C11 theorems that carry that hypothesis hold with the C09 fold itself, no hypothesis left;
    - and the likelihood of Model/Likelihood.v with the C09 fold is the likelihood [ll_ls] of Model/Fold.v
      (the C09 model of "Inference.ll folds the model automatically"). *)
From Coq Require Import ZArith Reals List Bool Arith Lia Lra Permutation.
From Dadi Require Import Base.Num Base.NumR Model.Fold Proofs.FoldAbs Proofs.FoldND Model.Likelihood
  Proofs.LikelihoodBasics Proofs.LikelihoodProofs Proofs.LikelihoodResid.
Import ListNotations.
Local Open Scope R_scope.

(** ** the arguments of fold_flat computed from the shape; the C09 fold on (value, mask) entry lists *)
Definition tot_of (s : list nat) : list Z := map (fun mi => Z.of_nat (total mi)) (enum s).
Definition N_of (s : list nat) : Z := Z.of_nat (total_samples s).
Definition fold_c09 (s : list nat) (l : list entryR) : list entryR :=
  combine (fold_data_l s (map ev l)) (fold_mask_l s (map em l)).

Lemma combine_map_same {A B C} (f : A -> B) (g : A -> C) l : combine (map f l) (map g l) = map (fun a => (f a, g a)) l.
Proof. induction l as [|a l IH]; [reflexivity|]. cbn [map combine]. now rewrite IH. Qed.

Lemma fold_c09_as_map s (l : list entryR) :
  fold_c09 s l = map (fun mi => (fold_nd s (arr_of s (map ev l) 0) mi, fold_mask_nd s (arr_of s (map em l) false) mi)) (enum s).
Proof. unfold fold_c09, fold_data_l, fold_mask_l, tabulate. apply combine_map_same. Qed.

Lemma fold_c09_length s (l : list entryR) : length (fold_c09 s l) = size s.
Proof. rewrite fold_c09_as_map, map_length. apply enum_length. Qed.
Lemma fold_c09_data s (l : list entryR) : map ev (fold_c09 s l) = fold_data_l s (map ev l).
Proof. rewrite fold_c09_as_map, map_map. reflexivity. Qed.
Lemma fold_c09_mask s (l : list entryR) : map em (fold_c09 s l) = fold_mask_l s (map em l).
Proof. rewrite fold_c09_as_map, map_map. reflexivity. Qed.

(** ** the constructor's corner masking, by position *)
Lemma mask_last_entry_spec : forall (L : list entryR) a n, n = (a + length L)%nat ->
  mask_last_entry L = map (fun p => (fst (snd p), snd (snd p) || Nat.eqb (S (fst p)) n)) (combine (seq a (length L)) L).
Proof. induction L as [|e L IH]; intros a n Hn; [reflexivity|]. destruct L as [|e' L].
  - cbn [length] in Hn. cbn [mask_last_entry length seq combine map fst snd].
    replace (Nat.eqb (S a) n) with true by (symmetry; apply Nat.eqb_eq; lia). now rewrite orb_true_r.
  - change (mask_last_entry (e :: e' :: L)) with (e :: mask_last_entry (e' :: L)).
    rewrite (IH (S a) n) by (cbn [length] in *; lia).
    cbn [length seq combine map fst snd]. f_equal. cbn [length] in Hn.
    replace (Nat.eqb (S a) n) with false by (symmetry; apply Nat.eqb_neq; lia). rewrite orb_false_r. now destruct e. Qed.

Lemma mask_corner_entries_spec (L : list entryR) :
  mask_corner_entries L =
  map (fun p => (fst (snd p), snd (snd p) || Nat.eqb (fst p) 0 || Nat.eqb (S (fst p)) (length L))) (combine (seq 0 (length L)) L).
Proof. unfold mask_corner_entries. rewrite (mask_last_entry_spec L 0 (length L) eq_refl).
  destruct L as [|e L]; [reflexivity|]. cbn [length seq combine map fst snd]. f_equal.
  - now rewrite orb_true_r.
  - apply map_ext_in. intros [k e'] Hin. apply in_combine_l, in_seq in Hin. cbn [fst snd].
    replace (Nat.eqb k 0) with false by (symmetry; apply Nat.eqb_neq; lia). now rewrite orb_false_r. Qed.

(** ** one entry *)
Lemma fold_entry_is_fold_val s (x : list nat -> R) (m : list nat -> bool) (A : list nat -> entryR) mi :
  valid s mi -> (forall j, x j = ev (A j)) -> (forall j, m j = em (A j)) ->
  fold_entry (N_of s) ((A mi, A (mirror_mi s mi)), Z.of_nat (total mi)) =
  (fold_nd s x mi, (m mi || m (mirror_mi s mi)) || folded_out total (total_samples s) mi).
Proof. intros Hv Hx Hm. pose proof (mirror_total s mi Hv) as Ht.
  unfold fold_entry, fold_nd, fold_val, reverse, where_, folded_out, ambiguous, N_of. cbn [fst snd].
  rewrite !Hx, !Hm.
  set (N := total_samples s) in *. set (t := total mi) in *. set (t' := total (mirror_mi s mi)) in *.
  pose proof (half_lt N t) as H1. pose proof (half_lt N t') as H2.
  destruct (Z.ltb_spec (Z.of_nat N) (2 * Z.of_nat t)); destruct (Z.eqb_spec (2 * Z.of_nat t) (Z.of_nat N));
  destruct (Z.ltb_spec (2 * Z.of_nat t) (Z.of_nat N));
  destruct (Nat.ltb_spec (N / 2) t); destruct (Nat.ltb_spec (N / 2) t');
  destruct (Nat.eqb_spec (2 * t) N); destruct (Nat.eqb_spec (2 * t') N); try (exfalso; lia);
  (apply (f_equal2 (@pair R bool)); [numR; unfold nhalf, n2; numR; lra | reflexivity]). Qed.

(** ** THE LINK: for every shape, fold_flat with the totals of that shape is the C09 fold *)
Theorem fold_flat_is_c09_fold (s : list nat) (l : list entryR) : length l = size s ->
  fold_flat (N_of s) (tot_of s) l = fold_c09 s l.
Proof. intros Hl. pose (d0 := ((0, false) : entryR)).
  set (A := arr_of s l d0).
  assert (Hx : forall j, arr_of s (map ev l) 0 j = ev (A j)).
  { intros j. unfold A, arr_of. apply (nth_map_default (@ev R) l (ravel s j) d0 0). reflexivity. }
  assert (Hm : forall j, arr_of s (map em l) false j = em (A j)).
  { intros j. unfold A, arr_of. apply (nth_map_default (@em R) l (ravel s j) d0 false). reflexivity. }
  assert (E2 : rev l = map (fun mi => A (mirror_mi s mi)) (enum s)).
  { rewrite <- (l_reverse_is_rev s l d0 Hl). reflexivity. }
  assert (E1 : l = map A (enum s)) by (symmetry; exact (tabulate_arr_of s l d0 Hl)).
  assert (E : combine (combine l (rev l)) (tot_of s) =
              map (fun mi => ((A mi, A (mirror_mi s mi)), Z.of_nat (total mi))) (enum s)).
  { rewrite E2. rewrite E1 at 1. unfold tot_of. rewrite !combine_map_same. reflexivity. }
  unfold fold_flat, entry in *. rewrite E, map_map. clear E E1 E2.
  rewrite mask_corner_entries_spec, map_length, enum_length.
  rewrite <- (ravel_enum s), combine_map_same, map_map.
  rewrite fold_c09_as_map. apply map_ext_in. intros mi Hin. cbn [fst snd].
  rewrite (fold_entry_is_fold_val s (arr_of s (map ev l) 0) (arr_of s (map em l) false) A mi (enum_valid s mi Hin) Hx Hm).
  cbn [fst snd]. f_equal. unfold fold_mask_nd, fold_mask, reverse, is_corner. now rewrite <- !orb_assoc. Qed.

Corollary fold_flat_data_mask (s : list nat) (l : list entryR) : length l = size s ->
  map ev (fold_flat (N_of s) (tot_of s) l) = fold_data_l s (map ev l) /\
  map em (fold_flat (N_of s) (tot_of s) l) = fold_mask_l s (map em l).
Proof. intros Hl. rewrite fold_flat_is_c09_fold by exact Hl. split; [apply fold_c09_data|apply fold_c09_mask]. Qed.

(** ** the C09 fold commutes with multiplication by a scalar -- on every list *)
Lemma fold_val_scale {I : Type} (mir : I -> I) (tot : I -> nat) (N : nat) (c : R) (x y : I -> R) i :
  (forall j, y j = c * x j) -> fold_val mir tot N y i = c * fold_val mir tot N x i.
Proof. intros Hy. unfold fold_val, reverse, where_. rewrite !Hy.
  destruct (folded_out tot N i), (folded_out tot N (mir i)), (ambiguous tot N i), (ambiguous tot N (mir i));
  numR; unfold nhalf, n2; numR; lra. Qed.

Lemma scale_map {A} (c : R) (G : A -> entryR) L : scale c (map G L) = map (fun a => (c * ev (G a), em (G a))) L.
Proof. unfold scale. apply map_map. Qed.
Lemma arr_ev_scale s (c : R) (l : list entryR) j : arr_of s (map ev (scale c l)) 0 j = c * arr_of s (map ev l) 0 j.
Proof. unfold arr_of.
  transitivity (nth (ravel s j) (map (fun e : entryR => c * ev e) l) 0).
  { f_equal. unfold scale. rewrite map_map. reflexivity. }
  rewrite (nth_map_default (fun e : entryR => c * ev e) l (ravel s j) (0, false) 0) by (unfold ev; cbn [fst]; ring).
  rewrite (nth_map_default (@ev R) l (ravel s j) (0, false) 0) by reflexivity. reflexivity. Qed.
Lemma map_em_scale (c : R) (l : list entryR) : map em (scale c l) = map em l.
Proof. unfold scale. rewrite map_map. reflexivity. Qed.

Theorem fold_c09_scale (s : list nat) (c : R) (l : list entryR) : fold_c09 s (scale c l) = scale c (fold_c09 s l).
Proof. rewrite !fold_c09_as_map, scale_map. apply map_ext. intros mi. rewrite map_em_scale.
  apply (f_equal2 (@pair R bool)); [|reflexivity].
  exact (fold_val_scale (mirror_mi s) total (total_samples s) c (arr_of s (map ev l) 0) (arr_of s (map ev (scale c l)) 0) mi
           (arr_ev_scale s c l)). Qed.

(** ** the C11 theorems with the C09 fold itself *)
Section WithC09Fold.
  Variable lg : R -> R.
  Variable remask : bool.
  Variable s : list nat.

  Theorem autofold_uses_the_C09_fold :
    (* the instance that is run against the implementation is the C09 fold, data and mask *)
    (forall l : list entryR, length l = size s ->
       fold_flat (N_of s) (tot_of s) l = fold_c09 s l /\
       map ev (fold_flat (N_of s) (tot_of s) l) = fold_data_l s (map ev l) /\
       map em (fold_flat (N_of s) (tot_of s) l) = fold_mask_l s (map em l)) /\
    (* the C09 fold satisfies the hypothesis of the C11 theorems *)
    (forall c l, fold_c09 s (scale c l) = scale c (fold_c09 s l)) /\
    (* C11_auto_fold, stated with the C09 fold *)
    (forall m d : list entryR,
       ll lg (fold_c09 s) false true m d = ll lg (fold_c09 s) true true (fold_c09 s m) d /\
       ll_multinom lg (fold_c09 s) remask false true m d = ll_multinom lg (fold_c09 s) remask true true (fold_c09 s m) d /\
       optimal_sfs_scaling (fold_c09 s) remask false true m d = optimal_sfs_scaling (fold_c09 s) remask true true (fold_c09 s m) d /\
       (forall mf, auto_fold (fold_c09 s) mf false m = m) /\ auto_fold (fold_c09 s) true true m = m).
  Proof. split; [|split].
    - intros l Hl. split; [now apply fold_flat_is_c09_fold|now apply fold_flat_data_mask].
    - apply fold_c09_scale.
    - apply auto_fold_spec. apply fold_c09_scale. Qed.

  Theorem ll_multinom_is_max_with_C09_fold (mf df : bool) (m d : list entryR) (c : R) :
    let m' := auto_fold (fold_c09 s) mf df m in
    length m' = length d ->
    (forall i, (i < length d)%nat -> maskat m' i = false -> maskat d i = false -> 0 < valat m' i) ->
    0 < sum_over (length d) (joint_unmasked m' d) (valat d) ->
    corner_ok remask m' d -> 0 < c ->
    ll lg (fold_c09 s) mf df (scale c m) d <= ll_multinom lg (fold_c09 s) remask mf df m d
    /\ ll_multinom lg (fold_c09 s) remask mf df m d
       = ll lg (fold_c09 s) mf df (scale (optimal_sfs_scaling (fold_c09 s) remask mf df m d) m) d.
  Proof. apply ll_multinom_is_max_and_is_attained. apply fold_c09_scale. Qed.

  Theorem ll_multinom_scale_invariant_with_C09_fold (mf df : bool) (m d : list entryR) (c : R) :
    let m' := auto_fold (fold_c09 s) mf df m in
    length m' = length d -> c <> 0 ->
    sum_over (length d) (scaling_index_set remask m' d) (valat m') <> 0 ->
    ll_multinom lg (fold_c09 s) remask mf df (scale c m) d = ll_multinom lg (fold_c09 s) remask mf df m d /\
    optimal_sfs_scaling (fold_c09 s) remask mf df (scale c m) d = optimal_sfs_scaling (fold_c09 s) remask mf df m d / c.
  Proof. apply ll_multinom_scale_invariant. apply fold_c09_scale. Qed.
End WithC09Fold.

(** ** the C09 model's own likelihood (Model/Fold.v [ll_ls], "Inference.ll folds the model automatically")
    is the C11 likelihood run with the C09 fold *)
Definition entries_of (a : lspec R) : list entryR := combine (ls_data a) (ls_mask a).

Lemma map_fst_combine_eq {A B} (a : list A) (b : list B) : length a = length b -> map fst (combine a b) = a.
Proof. revert b. induction a as [|x a IH]; intros [|y b] Hl; try discriminate; [reflexivity|].
  cbn [combine map fst]. f_equal. apply IH. now injection Hl. Qed.
Lemma map_snd_combine_eq {A B} (a : list A) (b : list B) : length a = length b -> map snd (combine a b) = b.
Proof. revert b. induction a as [|x a IH]; intros [|y b] Hl; try discriminate; [reflexivity|].
  cbn [combine map snd]. f_equal. apply IH. now injection Hl. Qed.

Lemma ll_terms_is_msum (lg : R -> R) : forall (mm dm : list bool) (mv dv : list R),
  ll_terms lg mm dm mv dv = Likelihood.msum (zipw (llpb_entry lg) (combine mv mm) (combine dv dm)).
Proof. induction mm as [|a mm IH]; intros dm mv dv.
  - destruct mv; reflexivity.
  - destruct dm as [|b dm]; [destruct mv, dv; reflexivity|].
    destruct mv as [|x mv]; [reflexivity|]. destruct dv as [|y dv]; [reflexivity|].
    cbn [ll_terms]. rewrite IH. unfold zipw. cbn [combine map fst snd].
    unfold llpb_entry at 2, ma_log, ev, em. cbn [fst snd]. rewrite msum_cons. numR.
    destruct a, b, (Rleb x 0); cbn [orb]; numR; lra. Qed.

Theorem ll_ls_is_C11_ll_with_C09_fold (lg : R -> R) (model data : lspec R) (v : R) :
  length (ls_data model) = length (ls_mask model) ->
  ll_ls lg model data = Some v ->
  v = ll lg (fold_c09 (ls_shape model)) (ls_folded model) (ls_folded data) (entries_of model) (entries_of data).
Proof. intros Hlen. unfold ll_ls, autofold, ll, ll_per_bin, auto_fold, fold_ls, entries_of.
  destruct (ls_folded data) eqn:Ed, (ls_folded model) eqn:Em; cbn [andb negb ls_folded ls_data ls_mask Bool.eqb];
    rewrite ?Em; cbn [Bool.eqb]; intros E; try discriminate; injection E as <-.
  - apply ll_terms_is_msum.
  - rewrite ll_terms_is_msum. unfold fold_c09.
    replace (map ev (combine (ls_data model) (ls_mask model))) with (ls_data model)
      by (symmetry; apply map_fst_combine_eq; exact Hlen).
    replace (map em (combine (ls_data model) (ls_mask model))) with (ls_mask model)
      by (symmetry; apply map_snd_combine_eq; exact Hlen).
    reflexivity.
  - apply ll_terms_is_msum. Qed.
