(** C10: scramble_pop_ids commutes with fold (the identity the harness evaluates:
    fs.fold().scramble_pop_ids() vs fs.scramble_pop_ids().fold()).

    scramble on a folded spectrum works on unfold(fold fs), whose data are the symmetrisation (x + mirror x)/2.  The pooled
    one-population spectrum of the symmetrisation is the symmetrisation of the pooled spectrum (the mirror maps the
    entries with t derived alleles onto those with N - t), and the multivariate hypergeometric dealing weights are
    invariant under complementing all counts (C(n,k) = C(n,n-k) in every population and in the pool).  Hence the scrambled
    symmetrisation is the symmetrisation of the scrambled spectrum, and fold forgets the symmetrisation: data and mask
    agree at EVERY entry.  The entries poisoned (nan) by the masked corners of unfold(fold fs) are exactly the two corner
    entries, which are masked in the result. *)
From Coq Require Import String.
From Coq Require Import ZArith Reals List Bool Arith Lia Lra Permutation Sorted.
From Dadi Require Import Base.Num Base.NumR.
From Dadi Require Import Model.PopOps Proofs.PopOpsBig Proofs.PopOpsIdx Proofs.PopOpsPF Proofs.PopOpsProofs Proofs.PopOpsBinom
  Proofs.PopOpsCommute Proofs.PopOpsFoldCommute Proofs.PopOpsScramble Proofs.PopOpsProjCommute Proofs.PopOpsFoldMarg.
Import ListNotations.

(** ** C(n, k) = C(n, n - k) *)
Lemma binomN_n0 n : binomN n 0 = 1%nat.
Proof. destruct n; reflexivity. Qed.
Lemma binomN_nn n : binomN n n = 1%nat.
Proof. induction n; [reflexivity|]. cbn [binomN]. rewrite IHn, binomN_gt by lia. reflexivity. Qed.

Lemma binomN_sym : forall n k, (k <= n)%nat -> binomN n (n - k) = binomN n k.
Proof. induction n as [|n IH]; intros k Hk.
  - replace k with 0%nat by lia. reflexivity.
  - destruct k as [|k].
    + rewrite Nat.sub_0_r, binomN_nn, binomN_n0. reflexivity.
    + replace (S n - S k)%nat with (n - k)%nat by lia. destruct (Nat.eq_dec k n) as [->|Hne].
      * rewrite Nat.sub_diag, binomN_nn, binomN_n0. reflexivity.
      * replace (n - k)%nat with (S (n - S k)) by lia. cbn [binomN].
        rewrite (IH (S k)) by lia. replace (S (n - S k)) with (n - k)%nat by lia. rewrite (IH k) by lia. lia. Qed.

Lemma prodC_rev S c : inr S c -> prodC S (rev_idx S c) = prodC S c.
Proof. unfold inr. induction 1 as [|i s c S Hlt F IH]; [reflexivity|]. unfold prodC, rev_idx in *. cbn [combine map fold_right fst snd].
  rewrite IH. f_equal. replace (s - 1 - i)%nat with (pred s - i)%nat by lia. apply binomN_sym. lia. Qed.

Local Open Scope R_scope.

(** the dealing weights are invariant under complementing all counts *)
Lemma deal_prob_rev S c : inr S c -> deal_prob (F:=R) S (rev_idx S c) = deal_prob S c.
Proof. intros Hc. rewrite !deal_prob_R, (prodC_rev S c Hc). f_equal. f_equal.
  pose proof (isum_rev_idx S c Hc) as E. pose proof (isum_le_nsamp S c Hc) as L.
  replace (isum (rev_idx S c)) with (nsamp S - isum c)%nat by lia. apply binomN_sym. exact L. Qed.

(** the mirror maps the entries with t derived alleles onto those with N - t *)
Lemma pooled_mirror S (v : idx -> R) t : (t <= nsamp S)%nat ->
  fiber_sum S (fun I => [isum I]) (fun I => v (rev_idx S I)) [t] = fiber_sum S (fun I => [isum I]) v [(nsamp S - t)%nat].
Proof. intros Ht. rewrite !fiber_sum_big.
  apply (bigR_reindex (indices S) (indices S) (fun I => idx_eqb [isum I] [t]) (fun I => idx_eqb [isum I] [(nsamp S - t)%nat])
           (rev_idx S) (rev_idx S) v); try apply NoDup_indices.
  - intros I HI E. apply in_indices in HI. apply idx_eqb_spec in E. inversion E as [E']. split; [apply in_indices, rev_idx_inr, HI|]. split.
    + apply idx_eqb_spec. pose proof (isum_rev_idx S I HI). f_equal. lia.
    + apply rev_idx_invol, HI.
  - intros I HI E. apply in_indices in HI. apply idx_eqb_spec in E. inversion E as [E']. split; [apply in_indices, rev_idx_inr, HI|]. split.
    + apply idx_eqb_spec. pose proof (isum_rev_idx S I HI). f_equal. lia.
    + apply rev_idx_invol, HI. Qed.

(** ** scrambling the symmetrisation = symmetrising the scrambled spectrum *)
Lemma scramble_symmetrisation (g : spec R) mc c : inr (sh g) c ->
  va (scramble_unfolded mc (unfold (fold g))) c
  = (va (scramble_unfolded mc g) c + va (scramble_unfolded mc g) (rev_idx (sh g) c)) / 2.
Proof. intros Hc. set (S := sh g).
  pose proof (rev_idx_inr S c Hc) as HR.
  destruct (scramble_spec (unfold (fold g)) mc) as (_ & _ & _ & V1). destruct (scramble_spec g mc) as (_ & _ & _ & V2).
  cbn [unfold fold sh] in V1. fold S in V1, V2.
  rewrite (proj1 (V1 c Hc)), (proj1 (V2 c Hc)), (proj1 (V2 _ HR)). rewrite (deal_prob_rev S c Hc).
  pose proof (isum_rev_idx S c Hc) as E. pose proof (isum_le_nsamp S c Hc) as L.
  replace (isum (rev_idx S c)) with (nsamp S - isum c)%nat by lia.
  rewrite <- (pooled_mirror S (va g) (isum c) L).
  set (D := deal_prob S c). rewrite !fiber_sum_big.
  transitivity (D * (/ 2 * (bigR (indices S) (fun I => if idx_eqb [isum I] [isum c] then va g I else 0)
                            + bigR (indices S) (fun I => if idx_eqb [isum I] [isum c] then va g (rev_idx S I) else 0)))); [|lra].
  f_equal. rewrite <- (big_op R Rplus 0 Rp_assoc Rp_comm Rp_0_l), <- bigR_scal.
  apply (big_ext R Rplus 0). intros I HI. apply in_indices in HI.
  destruct (idx_eqb [isum I] [isum c]); [|lra].
  pose proof (unfold_fold_va g I HI) as U. cbn [unfold fold sh va] in U |- *. fold S in U |- *. rewrite U. lra. Qed.

Theorem scramble_commutes_with_fold (g : spec R) mc :
  fo g = false ->
  same_spectrum (scramble_pop_ids mc (fold g)) (fold (scramble_pop_ids mc g)).
Proof. intros Hfo. rewrite (scramble_folded_case (fold g) mc eq_refl), (scramble_unfolded_case g mc Hfo).
  set (X1 := scramble_unfolded mc (unfold (fold g))). set (X2 := scramble_unfolded mc g). set (S := sh g).
  assert (S1 : sh X1 = S) by reflexivity. assert (S2 : sh X2 = S) by reflexivity.
  split; [reflexivity|]. split; [reflexivity|]. split; [reflexivity|].
  intros J HJ. cbn [fold sh] in HJ. rewrite S1 in HJ. apply in_indices in HJ.
  pose proof (rev_idx_inr S J HJ) as HR. split.
  - apply fold_va_sym; rewrite ?S2; [congruence|exact HJ| |].
    + apply (scramble_symmetrisation g mc J HJ).
    + pose proof (scramble_symmetrisation g mc _ HR) as E. fold S in E. rewrite (rev_idx_invol S J HJ) in E. exact E.
  - cbn [fold mk sh]. rewrite S1, S2. unfold X1, X2. cbn [scramble_unfolded mk sh unfold fold]. reflexivity. Qed.

(** ** the nan pattern: a corner-masked fs poisons only the two corner entries of fs.fold().scramble_pop_ids() *)
Lemma isum_zero_all I : isum I = 0%nat -> forallb (Nat.eqb 0) I = true.
Proof. unfold isum. induction I as [|i I IH]; [reflexivity|]. cbn [fold_right forallb]. intros E.
  assert (i = 0%nat) by lia. subst i. rewrite IH by lia. reflexivity. Qed.
Lemma isum_full S I : inr S I -> isum I = nsamp S -> I = map pred S.
Proof. unfold inr. induction 1 as [|i s I S Hlt F IH]; [reflexivity|]. intros E.
  pose proof (isum_le_nsamp S I F) as L. unfold isum, nsamp in *. cbn [fold_right map] in *.
  assert (i = pred s) by lia. subst i. f_equal. apply IH. lia. Qed.

Lemma corner_iff_extreme_total S I : inr S I -> (isum I = 0%nat \/ isum I = nsamp S) -> is_corner S I = true.
Proof. intros HI [E|E]; unfold is_corner; apply orb_true_iff; [left; apply isum_zero_all, E|right].
  apply idx_eqb_spec. apply isum_full; assumption. Qed.

Theorem scramble_fold_poison_is_corners (g : spec R) c :
  corner_masked g -> inr (sh g) c ->
  scramble_poison (fold g) c = true -> is_corner (sh g) c = true.
Proof. intros Hc HI. unfold scramble_poison. cbn [fold fo sh]. set (S := sh g).
  assert (P : forall t, pooled_poison (unfold (fold g)) t = true -> t = 0%nat \/ t = nsamp S).
  { intros t Ht. unfold pooled_poison in Ht. apply existsb_exists in Ht as (I & HI0 & HM). apply in_indices in HI0.
    cbn [unfold fold sh] in HI0. fold S in HI0. apply andb_true_iff in HM as [HM Et]. apply Nat.eqb_eq in Et.
    rewrite (unfold_fold_mk g I Hc HI0) in HM. fold S in HM. unfold is_corner in HM. apply orb_true_iff in HM as [Hz|Hl].
    - left. rewrite <- Et. clear - Hz. unfold isum. induction I as [|i I IH]; [reflexivity|]. cbn [forallb fold_right] in *.
      apply andb_true_iff in Hz as [Hi Hz]. apply Nat.eqb_eq in Hi. subst i. rewrite IH by assumption. reflexivity.
    - right. apply idx_eqb_spec in Hl. rewrite <- Et, Hl. reflexivity. }
  intros Hp. apply orb_true_iff in Hp as [Hp|Hp]; apply P in Hp.
  - apply corner_iff_extreme_total; assumption.
  - pose proof (isum_rev_idx S c HI) as E. apply corner_iff_extreme_total; [exact HI|]. destruct Hp; [right|left]; lia. Qed.

(** ... and likewise for the other side: scrambling the corner-masked fs itself poisons only the two corners,
    which fold masks *)
Theorem scramble_poison_is_corners (g : spec R) c :
  fo g = false -> corner_masked g -> inr (sh g) c ->
  scramble_poison g c = true -> is_corner (sh g) c = true.
Proof. intros Hfo Hc HI. unfold scramble_poison. rewrite Hfo. unfold pooled_poison. intros Hp.
  apply existsb_exists in Hp as (I & HI0 & HM). apply in_indices in HI0. apply andb_true_iff in HM as [HM Et].
  apply Nat.eqb_eq in Et. pose proof (Hc I HI0 HM) as HcI. apply corner_iff_extreme_total; [exact HI|].
  rewrite <- Et. unfold is_corner in HcI. apply orb_true_iff in HcI as [Hz|Hl].
  - left. clear - Hz. unfold isum. induction I as [|i I IH]; [reflexivity|]. cbn [forallb fold_right] in *.
    apply andb_true_iff in Hz as [Hi Hz]. apply Nat.eqb_eq in Hi. subst i. rewrite IH by assumption. reflexivity.
  - right. apply idx_eqb_spec in Hl. rewrite Hl. reflexivity. Qed.

(** * Large sample sizes: the evaluation used by the large correspondence cases is the model's evaluation
    (Model/PopOpsCheck.v: rows of Pascal's triangle instead of the literal Pascal recursion of [binomZ], the totals of the
    masked entries listed once instead of one scan per entry).  For every case the fast check returns what the check
    on the model returns. *)
From Coq Require Import QArith.
From Dadi Require Import Base.NumQ Model.PopOpsCheck.

(** ** the fast evaluation used for the large correspondence cases is the model's evaluation *)
Lemma nth_pascal_next : forall r p k,
  nth k (pascal_next p r) 0%Z = ((match k with O => p | S k' => nth k' r 0%Z end) + nth k r 0%Z)%Z.
Proof. induction r as [|x t IH]; intros p k.
  - destruct k as [|[|k]]; simpl; lia.
  - destruct k as [|k]; simpl; [reflexivity|]. rewrite IH. destruct k; reflexivity. Qed.

Lemma binomZ_n0 n : binomZ n 0 = 1%Z.
Proof. destruct n; reflexivity. Qed.

Theorem binomZ_fast_correct : forall n k, binomZ_fast n k = binomZ n k.
Proof. unfold binomZ_fast. induction n as [|n IH]; intros k.
  - destruct k as [|[|k]]; reflexivity.
  - cbn [pascal_row]. rewrite nth_pascal_next. destruct k as [|k].
    + rewrite IH, binomZ_n0. reflexivity.
    + rewrite !IH. reflexivity. Qed.

Lemma deal_rows_correct : forall (shape : list nat) (c : idx),
  map (fun p : list Z * nat => nth (snd p) (fst p) 0%Z) (combine (map (fun x => pascal_row (pred x)) shape) c)
  = map (fun p : nat * nat => binomZ (pred (fst p)) (snd p)) (combine shape c).
Proof. induction shape as [|s t IH]; intros [|i c]; try reflexivity.
  cbn [map combine fst snd]. rewrite IH. f_equal. apply binomZ_fast_correct. Qed.

Lemma deal_prob_rows_correct (s : list nat) (c : idx) :
  deal_prob_rows (map (fun x => pascal_row (pred x)) s) (pascal_row (nsamp s)) c = deal_prob s c.
Proof. unfold deal_prob_rows, deal_prob. rewrite deal_rows_correct.
  change (nth (isum c) (pascal_row (nsamp s)) 0%Z) with (binomZ_fast (nsamp s) (isum c)).
  rewrite binomZ_fast_correct. reflexivity. Qed.

(** same spectrum up to the representation of the value and mask functions *)
Definition spec_ext (r r' : spec Q) : Prop :=
  sh r = sh r' /\ ids r = ids r' /\ fo r = fo r' /\ (forall I, mk r I = mk r' I) /\ (forall I, va r I = va r' I).

Lemma spec_ext_refl r : spec_ext r r.
Proof. repeat split. Qed.

Lemma scramble_unfolded_fast_ext mc a : spec_ext (scramble_unfolded_fast mc a) (scramble_unfolded mc a).
Proof. unfold scramble_unfolded_fast, scramble_unfolded, spec_ext. cbn [sh ids fo mk va].
  repeat split. intros I. rewrite deal_prob_rows_correct. reflexivity. Qed.

Lemma fold_ext r r' : spec_ext r r' -> spec_ext (fold r) (fold r').
Proof. intros (E1 & E2 & E3 & E4 & E5). unfold fold, spec_ext. cbn [sh ids fo mk va]. rewrite E1.
  repeat split; try assumption.
  - intros I. rewrite !E4. reflexivity.
  - intros I. rewrite !E5. reflexivity. Qed.

Lemma scramble_pop_ids_fast_ext mc a : spec_ext (scramble_pop_ids_fast mc a) (scramble_pop_ids mc a).
Proof. unfold scramble_pop_ids_fast, scramble_pop_ids. destruct (fo a).
  - apply fold_ext, scramble_unfolded_fast_ext.
  - apply scramble_unfolded_fast_ext. Qed.

Definition opt_ext (x y : option (spec Q)) : Prop :=
  match x, y with Some r, Some r' => spec_ext r r' | None, None => True | _, _ => False end.

Lemma run_op_fast_ext o a : opt_ext (run_op_fast o a) (run_op o a).
Proof. destruct o; cbn [run_op_fast]; try (destruct (run_op _ a); cbn; [apply spec_ext_refl|exact I]).
  cbn. apply scramble_pop_ids_fast_ext. Qed.

(** the totals of the masked entries, listed once *)
Lemma poison_scan (m : idx -> bool) t : forall l : list idx,
  existsb (fun I => m I && Nat.eqb (isum I) t) l
  = memb t (map (fun p : idx * bool => isum (fst p)) (filter (fun p => snd p) (combine l (map m l)))).
Proof. induction l as [|x l IH]; [reflexivity|]. cbn [existsb map combine filter snd]. rewrite IH.
  destruct (m x); cbn [andb orb]; [|reflexivity]. cbn [map fst memb existsb]. rewrite (Nat.eqb_sym t). reflexivity. Qed.

Lemma pooled_poison_fast (a : spec Q) t : memb t (poison_totals a) = pooled_poison a t.
Proof. unfold poison_totals, pooled_poison, flat_mask. symmetry. apply poison_scan. Qed.

Lemma scramble_poison_fast_correct (a : spec Q) c : scramble_poison_fast a c = scramble_poison a c.
Proof. unfold scramble_poison_fast, scramble_poison. destruct (fo a); cbv zeta; rewrite ?pooled_poison_fast; reflexivity. Qed.

Lemma poison_of_fast_correct o a c : poison_of_fast o a c = poison_of o a c.
Proof. destruct o; try reflexivity. apply scramble_poison_fast_correct. Qed.

Lemma pcheck_body_ext tol c po po' x y :
  (forall I, po I = po' I) -> opt_ext x y -> pcheck_body tol c po x = pcheck_body tol c po' y.
Proof. intros Hp H. destruct x as [r|], y as [r'|]; cbn in H; try contradiction; [|reflexivity].
  destruct H as (E1 & E2 & E3 & E4 & E5). unfold pcheck_body, flat_mask, flat_values. rewrite E1, E2, E3.
  rewrite (map_ext _ _ E4), (map_ext _ _ E5), (map_ext _ _ Hp). reflexivity. Qed.

Lemma ptotal_body_ext a x y : opt_ext x y -> ptotal_body a x = ptotal_body a y.
Proof. intros H. destruct x as [r|], y as [r'|]; cbn in H; try contradiction; [|reflexivity].
  destruct H as (E1 & _ & _ & _ & E5). unfold ptotal_body, total. rewrite E1, (map_ext _ _ E5). reflexivity. Qed.

Theorem pcheck_full_fast_correct tol c : pcheck_full_fast tol c = pcheck_full tol c.
Proof. unfold pcheck_full_fast, pcheck_full, pcheck_fast, pcheck, ptotal_check_fast, ptotal_check. cbv zeta.
  rewrite (pcheck_body_ext tol c _ (poison_of (pc_op c) (pcase_input c)) _ (run_op (pc_op c) (pcase_input c))
             (poison_of_fast_correct _ _) (run_op_fast_ext _ _)).
  rewrite (ptotal_body_ext _ _ _ (run_op_fast_ext (ptotal_op c) (ptotal_input c))). reflexivity. Qed.
