(** C05: the d-dimensional paths.  Applying linear 1-D operators along the axes one after the other is
    multiplication by the Kronecker product of their matrices, whichever axis goes first (Fubini for finite sums). *)
From Coq Require Import ZArith NArith Reals List Lra Lia Arith.
From Dadi Require Import Base.Num Base.NumR Model.FromPhi Proofs.FromPhiBinom Proofs.FromPhiBase Proofs.FromPhiMass1D Proofs.FromPhiLin.
Import ListNotations.
Local Open Scope R_scope.

(** ** flat index arithmetic *)
Lemma chunk_length {A} m L (l : list A) : length (chunk m L l) = L.
Proof. revert l; induction L; intros; cbn [chunk length]; [reflexivity | rewrite IHL; reflexivity]. Qed.
Lemma nth_firstn' {A} (d : A) m p (l : list A) : (p < m)%nat -> nth p (firstn m l) d = nth p l d.
Proof. revert p l. induction m; intros p l Hp; [lia|]. destruct l; [destruct p; reflexivity|].
  destruct p; [reflexivity|]. cbn [firstn nth]. apply IHm. lia. Qed.
Lemma nth_skipn' {A} (d : A) m k (l : list A) : nth k (skipn m l) d = nth (m + k) l d.
Proof. revert l. induction m; intros l; [reflexivity|]. destruct l; [destruct k; reflexivity|]. cbn [skipn Nat.add nth]. apply IHm. Qed.
Lemma chunk_nth {A} (d : A) m L (l : list A) i p : (i < L)%nat -> (p < m)%nat ->
  nth p (nth i (chunk m L l) []) d = nth (i * m + p) l d.
Proof. revert l i. induction L; intros l i Hi Hp; [lia|].
  cbn [chunk]. destruct i.
  - cbn [nth Nat.mul Nat.add]. apply nth_firstn'. assumption.
  - cbn [nth]. rewrite IHL by lia. rewrite nth_skipn'. f_equal. lia. Qed.
Lemma chunk_block_length {A} m L (l : list A) : length l = (L * m)%nat -> Forall (fun b => length b = m) (chunk m L l).
Proof. revert l; induction L; intros l Hl; cbn [chunk]; constructor.
  - rewrite firstn_length. lia.
  - apply IHL. rewrite skipn_length. lia. Qed.

Lemma rsum_seq_mul (f : nat -> R) L m :
  rsum (map f (seq 0 (L * m))) = rsum (map (fun l => rsum (map (fun p => f (l * m + p)%nat) (seq 0 m))) (seq 0 L)).
Proof. induction L; [reflexivity|].
  rewrite rsum_seq_S, <- IHL. replace (S L * m)%nat with (L * m + m)%nat by lia.
  rewrite seq_app, map_app, rsum_app. f_equal. cbn [Nat.add].
  rewrite <- (Nat.add_0_l (L * m)) at 1. rewrite <- (seq_shift_n m (L*m) 0) || idtac.
  clear. generalize (L * m)%nat as a. intros a. induction m; [reflexivity|].
  rewrite !rsum_seq_S, IHm. reflexivity. Qed.

Lemma concat_grid (E : nat -> nat -> R) nout m :
  concat (map (fun i => map (fun q => E i q) (seq 0 m)) (seq 0 nout)) = map (fun a => E (a / m)%nat (a mod m)%nat) (seq 0 (nout * m)).
Proof. induction nout; [reflexivity|].
  rewrite seq_S, map_app, concat_app, IHnout. cbn [map concat Nat.add]. rewrite app_nil_r.
  replace (S nout * m)%nat with (nout * m + m)%nat by lia. rewrite seq_app, map_app. f_equal. cbn [Nat.add].
  destruct m; [reflexivity|].
  rewrite <- (seq_shift_gen (nout * S m) (S m)) || idtac.
  apply nth_ext with (d := 0) (d' := 0); [rewrite !map_length, !seq_length; reflexivity|].
  intros q Hq. rewrite map_length, seq_length in Hq.
  rewrite nth_map_seq by assumption.
  rewrite (nth_indep _ 0 (E ((nout * S m + 0) / S m)%nat ((nout * S m + 0) mod S m)%nat)) by (rewrite map_length, seq_length; assumption).
  rewrite (map_nth (fun a => E (a / S m)%nat (a mod S m)%nat)), seq_nth by assumption.
  replace (nout * S m + q)%nat with (q + nout * S m)%nat by lia.
  rewrite Nat.div_add, Nat.mod_add by lia. rewrite Nat.div_small, Nat.mod_small by lia. reflexivity. Qed.

(** ** well-formed operator lists *)
Definition outsize (ops : list (@axop R)) : nat := prodl (map snd ops).
Definition ops_ok (ops : list (@axop R)) (shape : list nat) : Prop :=
  Forall2 (fun op L => linop L (snd op) (fst op)) ops shape.

(** Kronecker product of the 1-D matrices, on flat indices *)
Fixpoint Knd (ops : list (@axop R)) (shape : list nat) : nat -> nat -> R :=
  match ops, shape with
  | (T, nout) :: ops', L :: rest =>
      fun a b => matof T L (a / outsize ops')%nat (b / prodl rest)%nat * Knd ops' rest (a mod outsize ops')%nat (b mod prodl rest)%nat
  | _, _ => fun _ _ => 1
  end.

Lemma mat_apply_nth K L nout v i : (i < nout)%nat -> nth i (mat_apply K L nout v) 0 = rsum (map (fun l => K i l * nth l v 0) (seq 0 L)).
Proof. intros Hi. unfold mat_apply. rewrite nth_map_seq by assumption. reflexivity. Qed.
Lemma mat_apply_length K L nout v : length (mat_apply K L nout v) = nout.
Proof. unfold mat_apply. rewrite map_length, seq_length. reflexivity. Qed.

Lemma col_length p (blocks : list (list R)) : length (col p blocks) = length blocks.
Proof. apply map_length. Qed.
Lemma col_nth p (blocks : list (list R)) l : nth l (col p blocks) 0 = nth p (nth l blocks []) 0.
Proof. unfold col. numR. destruct (lt_dec l (length blocks)) as [Hl|Hl].
  - rewrite (nth_indep _ 0 ((fun b => nth p b 0) [])) by (rewrite map_length; assumption). apply (map_nth (fun b => nth p b 0)).
  - rewrite (nth_overflow blocks) by lia. rewrite nth_overflow by (rewrite map_length; lia). destruct p; reflexivity. Qed.

Lemma apply0_eq (T : list R -> list R) m nout blocks :
  apply0 T m nout blocks = map (fun i => map (fun p => nth i (T (col p blocks)) 0) (seq 0 m)) (seq 0 nout).
Proof. unfold apply0. apply map_ext. intros i. rewrite map_map. reflexivity. Qed.

Section Step.
  Variables (T : list R -> list R) (nout L m m' : nat) (g : list R -> list R) (G : nat -> nat -> R).
  Hypothesis HT : linop L nout T.
  Hypothesis Hg : forall v, length v = m -> g v = mat_apply G m m' v.
  Let KT := matof T L.

  Lemma step_last_first phi : length phi = (L * m)%nat ->
    concat (apply0 T m' nout (map g (chunk m L phi)))
    = mat_apply (fun a b => KT (a / m')%nat (b / m)%nat * G (a mod m')%nat (b mod m)%nat) (L * m) (nout * m') phi.
  Proof. intros Hphi. rewrite apply0_eq.
    pose proof (chunk_block_length m L phi Hphi) as Hb. rewrite Forall_forall in Hb.
    rewrite (map_ext_in _ (fun i => map (fun q => rsum (map (fun l => rsum (map (fun p =>
                 KT i l * G q p * nth (l * m + p) phi 0) (seq 0 m))) (seq 0 L))) (seq 0 m'))).
    - rewrite (concat_grid (fun i q => rsum (map (fun l => rsum (map (fun p => KT i l * G q p * nth (l * m + p) phi 0) (seq 0 m))) (seq 0 L)))).
      unfold mat_apply. apply map_ext_in. intros a Ha. rewrite rsum_seq_mul.
      apply rsum_map_ext. intros l Hl. apply rsum_map_ext. intros p Hp. apply in_seq in Hp.
      replace (l * m + p)%nat with (p + l * m)%nat by lia.
      rewrite Nat.div_add, Nat.mod_add by lia. rewrite (Nat.div_small p m), (Nat.mod_small p m) by lia. reflexivity.
    - intros i Hi. apply in_seq in Hi. apply map_ext_in. intros q Hq. apply in_seq in Hq.
      rewrite (T_mat L nout T HT) by (rewrite col_length, map_length, chunk_length; reflexivity).
      rewrite mat_apply_nth by lia. apply rsum_map_ext. intros l Hl. apply in_seq in Hl.
      rewrite col_nth. rewrite (nth_indep _ [] (g [])) by (rewrite map_length, chunk_length; lia).
      rewrite map_nth. rewrite Hg by (apply Hb, nth_In; rewrite chunk_length; lia).
      rewrite mat_apply_nth by lia. rewrite <- rsum_map_scal. apply rsum_map_ext. intros p Hp. apply in_seq in Hp.
      rewrite chunk_nth by lia. fold KT. ring. Qed.

  Lemma step_first_first phi : length phi = (L * m)%nat ->
    concat (map g (apply0 T m nout (chunk m L phi)))
    = mat_apply (fun a b => KT (a / m')%nat (b / m)%nat * G (a mod m')%nat (b mod m)%nat) (L * m) (nout * m') phi.
  Proof. intros Hphi. rewrite apply0_eq, map_map.
    rewrite (map_ext_in _ (fun i => map (fun q => rsum (map (fun l => rsum (map (fun p =>
                 KT i l * G q p * nth (l * m + p) phi 0) (seq 0 m))) (seq 0 L))) (seq 0 m'))).
    - rewrite (concat_grid (fun i q => rsum (map (fun l => rsum (map (fun p => KT i l * G q p * nth (l * m + p) phi 0) (seq 0 m))) (seq 0 L)))).
      unfold mat_apply. apply map_ext_in. intros a Ha. rewrite rsum_seq_mul.
      apply rsum_map_ext. intros l Hl. apply rsum_map_ext. intros p Hp. apply in_seq in Hp.
      replace (l * m + p)%nat with (p + l * m)%nat by lia.
      rewrite Nat.div_add, Nat.mod_add by lia. rewrite (Nat.div_small p m), (Nat.mod_small p m) by lia. reflexivity.
    - intros i Hi. apply in_seq in Hi.
      rewrite Hg by (rewrite map_length, seq_length; reflexivity).
      unfold mat_apply at 1. apply map_ext_in. intros q Hq. apply in_seq in Hq.
      rewrite rsum_swap. apply rsum_map_ext. intros p Hp. apply in_seq in Hp.
      rewrite nth_map_seq by lia.
      rewrite (T_mat L nout T HT) by (rewrite col_length, chunk_length; reflexivity).
      rewrite mat_apply_nth by lia. rewrite <- rsum_map_scal. apply rsum_map_ext. intros l Hl. apply in_seq in Hl.
      rewrite col_nth, chunk_nth by lia. fold KT. ring. Qed.
End Step.

Lemma ops_ok_length ops shape : ops_ok ops shape -> length ops = length shape.
Proof. induction 1; cbn; [reflexivity | f_equal; assumption]. Qed.

(** the code's order (last axis first) is multiplication by the Kronecker matrix *)
Theorem nd_is_kronecker ops shape : ops_ok ops shape ->
  forall phi, length phi = prodl shape -> nd ops shape phi = mat_apply (Knd ops shape) (prodl shape) (outsize ops) phi.
Proof. induction 1 as [|[T nout] L ops' rest HT Hok IH]; intros phi Hphi.
  - cbn in *. destruct phi as [|x [|y phi]]; try discriminate. cbn. numR. f_equal. ring.
  - cbn [nd Knd]. unfold outsize in *. cbn [map snd prodl fold_right] in *. fold (prodl rest) in *. fold (prodl (map snd ops')) in *.
    apply (step_last_first T nout L (prodl rest) (prodl (map snd ops')) (nd ops' rest) (Knd ops' rest) HT IH phi Hphi). Qed.

(** so is the opposite order *)
Theorem nd_rev_is_kronecker ops shape : ops_ok ops shape ->
  forall phi, length phi = prodl shape -> nd_rev ops shape phi = mat_apply (Knd ops shape) (prodl shape) (outsize ops) phi.
Proof. induction 1 as [|[T nout] L ops' rest HT Hok IH]; intros phi Hphi.
  - cbn in *. destruct phi as [|x [|y phi]]; try discriminate. cbn. numR. f_equal. ring.
  - cbn [nd_rev Knd]. unfold outsize in *. cbn [map snd prodl fold_right] in *. fold (prodl rest) in *. fold (prodl (map snd ops')) in *.
    apply (step_first_first T nout L (prodl rest) (prodl (map snd ops')) (nd_rev ops' rest) (Knd ops' rest) HT IH phi Hphi). Qed.

Theorem nd_axis_order ops shape phi : ops_ok ops shape -> length phi = prodl shape ->
  nd ops shape phi = nd_rev ops shape phi.
Proof. intros Hok Hphi. rewrite nd_is_kronecker, nd_rev_is_kronecker by assumption. reflexivity. Qed.

Lemma linop_ext L nout T T' : (forall v, length v = L -> T v = T' v) -> linop L nout T' -> linop L nout T.
Proof. intros E [H1 H2 H3]. split.
  - intros v Hv. rewrite E by assumption. auto.
  - intros u v Hu Hv. rewrite !E by (rewrite ?vadd_length; lia). auto.
  - intros a v Hv. rewrite !E by (rewrite ?vscal_length; lia). auto. Qed.

Theorem nd_linop ops shape : ops_ok ops shape -> linop (prodl shape) (outsize ops) (nd ops shape).
Proof. intros Hok. eapply linop_ext; [apply (nd_is_kronecker _ _ Hok) | apply mat_linop]. Qed.

(** ** total mass: if every 1-D operator's outputs sum to the trapezoid integral of its input, the d-dimensional
    spectrum sums to the iterated trapezoid mass *)
Lemma rsum_concat (ls : list (list R)) : rsum (concat ls) = rsum (map rsum ls).
Proof. induction ls; [reflexivity|]. cbn [concat map]. rewrite rsum_app, rsum_cons, IHls. reflexivity. Qed.
Lemma rsum_nth (l : list R) : rsum l = rsum (map (fun i => nth i l 0) (seq 0 (length l))).
Proof. induction l; [reflexivity|]. cbn [length]. rewrite rsum_seq_head, rsum_cons, IHl. reflexivity. Qed.

Lemma trapz_zero {A} xs (l : list A) : @trapz R _ xs (map (fun _ => 0) l) = 0.
Proof. replace (map (fun _ : A => 0) l) with (vscal 0 (map (fun _ : A => 0) l)).
  - rewrite trapz_scal. ring.
  - unfold vscal. rewrite map_map. apply map_ext. intros; ring. Qed.

(** sum over the columns of equally long blocks *)
Lemma trapz_cols xx (blocks : list (list R)) m : Forall (fun b => length b = m) blocks ->
  rsum (map (fun q => @trapz R _ xx (col q blocks)) (seq 0 m)) = trapz xx (map rsum blocks).
Proof. intros Hb.
  assert (P : forall k, (k <= m)%nat ->
     rsum (map (fun q => @trapz R _ xx (col q blocks)) (seq 0 k)) = trapz xx (map (fun b => rsum (map (fun q => nth q b 0) (seq 0 k))) blocks)).
  { induction k; intros Hk.
    - rewrite (map_ext _ (fun _ : list R => 0)) by reflexivity. rewrite (trapz_zero xx blocks). reflexivity.
    - rewrite rsum_seq_S, IHk by lia. cbn [Nat.add].
      rewrite <- trapz_add by (rewrite col_length, map_length; reflexivity).
      f_equal. unfold col. rewrite vadd_map. apply map_ext. intros b. rewrite rsum_seq_S. reflexivity. }
  rewrite P by lia. f_equal. apply map_ext_in. intros b Hin. rewrite Forall_forall in Hb.
  rewrite (rsum_nth b), (Hb b Hin). reflexivity. Qed.

Definition sums_to_trapz (op : @axop R) (L : nat) (xx : list R) : Prop :=
  forall v, length v = L -> rsum (fst op v) = trapz xx v.

Lemma nd_length ops shape phi : ops_ok ops shape -> length phi = prodl shape -> length (nd ops shape phi) = outsize ops.
Proof. intros Hok Hphi. apply (lo_len _ _ _ (nd_linop _ _ Hok)). assumption. Qed.

Theorem nd_total ops shape xxs : ops_ok ops shape ->
  Forall2 (fun ol xx => sums_to_trapz (fst ol) (snd ol) xx) (combine ops shape) xxs ->
  forall phi, length phi = prodl shape -> rsum (nd ops shape phi) = trapz_nd xxs shape phi.
Proof. intros Hok. revert xxs. induction Hok as [|[T nout] L ops' rest HT Hok IH]; intros xxs Hs phi Hphi.
  - cbn in *. inversion Hs; subst. destruct phi as [|x [|y phi]]; try discriminate. cbn. numR. lra.
  - cbn [combine] in Hs. inversion Hs as [|? xx ? xxs' Hsx Hs']; subst.
    cbn [nd trapz_nd]. cbn [prodl fold_right] in Hphi. fold (prodl rest) in Hphi.
    pose proof (chunk_block_length (prodl rest) L phi Hphi) as Hb.
    rewrite rsum_concat, apply0_eq, map_map.
    rewrite (rsum_swap (fun i q => nth i (T (col q (map (nd ops' rest) (chunk (prodl rest) L phi)))) 0)).
    rewrite (rsum_map_ext _ (fun q => trapz xx (col q (map (nd ops' rest) (chunk (prodl rest) L phi))))).
    2:{ intros q _. rewrite <- (Hsx (col q _)) by (rewrite col_length, map_length, chunk_length; reflexivity).
        cbn [fst]. rewrite (rsum_nth (T _)). rewrite (lo_len _ _ _ HT) by (rewrite col_length, map_length, chunk_length; reflexivity). reflexivity. }
    rewrite (trapz_cols xx _ (prodl (map snd ops'))).
    2:{ rewrite Forall_forall in *. intros b Hin. apply in_map_iff in Hin. destruct Hin as [b0 [<- Hin0]].
        apply (nd_length _ _ _ Hok). apply Hb. assumption. }
    rewrite map_map. f_equal. apply map_ext_in. intros b Hin. rewrite Forall_forall in Hb. apply IH; [assumption|]. apply Hb. assumption. Qed.
