(** * LikelihoodBasics: index-sum specification language and list/index bridging lemmas for C11. *)
From Coq Require Import ZArith Reals List Bool Lra Lia.
From Dadi Require Import Base.Num Base.NumR Model.Likelihood.
Import ListNotations.
Local Open Scope R_scope.

Notation entryR := (R * bool)%type.

(** ** independent specification vocabulary: entries by index, sums over index sets *)
Definition edef : entryR := (0, true).
Definition valat (l : list entryR) (i : nat) : R := fst (nth i l edef).
Definition maskat (l : list entryR) (i : nat) : bool := snd (nth i l edef).

Fixpoint sum_upto (n : nat) (f : nat -> R) : R :=
  match n with O => 0 | S k => sum_upto k f + f k end.
(** sum over the indices i < n with J i = true of f i *)
Definition sum_over (n : nat) (J : nat -> bool) (f : nat -> R) : R :=
  sum_upto n (fun i => if J i then f i else 0).

Lemma sum_upto_ext n f g : (forall i, (i < n)%nat -> f i = g i) -> sum_upto n f = sum_upto n g.
Proof. induction n; intros E; cbn; [reflexivity|]. rewrite IHn, (E n); auto. Qed.

Lemma sum_upto_le n f g : (forall i, (i < n)%nat -> f i <= g i) -> sum_upto n f <= sum_upto n g.
Proof. induction n; intros E; cbn; [lra|]. specialize (IHn (fun i L => E i (Nat.lt_lt_succ_r _ _ L))).
  specialize (E n (Nat.lt_succ_diag_r n)). lra. Qed.

Lemma sum_upto_shift n f : sum_upto (S n) f = f 0%nat + sum_upto n (fun i => f (S i)).
Proof. induction n; [cbn; ring|]. change (sum_upto (S (S n)) f) with (sum_upto (S n) f + f (S n)).
  rewrite IHn. cbn. ring. Qed.

Lemma sum_over_ext n J J' f g :
  (forall i, (i < n)%nat -> J i = J' i) -> (forall i, (i < n)%nat -> J i = true -> f i = g i) ->
  sum_over n J f = sum_over n J' g.
Proof. intros EJ E. apply sum_upto_ext. intros i L. rewrite <- (EJ i L). destruct (J i) eqn:Ji; auto. Qed.

Lemma sum_over_lin3 n J a b f g h :
  sum_over n J (fun i => a * f i + b * g i + h i) = a * sum_over n J f + b * sum_over n J g + sum_over n J h.
Proof. unfold sum_over. induction n; cbn; [ring|]. rewrite IHn. destruct (J n); ring. Qed.

Lemma sum_over_scal n J a f : sum_over n J (fun i => a * f i) = a * sum_over n J f.
Proof. unfold sum_over. induction n; cbn; [ring|]. rewrite IHn. destruct (J n); ring. Qed.

Lemma sum_over_nonneg n J f : (forall i, (i < n)%nat -> J i = true -> 0 <= f i) -> 0 <= sum_over n J f.
Proof. unfold sum_over. induction n; intros P; cbn; [lra|].
  assert (0 <= sum_upto n (fun i => if J i then f i else 0)) by (apply IHn; intros; apply P; auto).
  destruct (J n) eqn:Jn; [specialize (P n (Nat.lt_succ_diag_r n) Jn)|]; lra. Qed.

(** a positive sum over J certifies that J is inhabited; any function positive on J then has a positive sum *)
Lemma sum_over_pos_transfer n J g f :
  0 < sum_over n J g -> (forall i, (i < n)%nat -> J i = true -> 0 < f i) -> 0 < sum_over n J f.
Proof. unfold sum_over. induction n; intros G P; cbn in *; [lra|].
  assert (N : 0 <= sum_upto n (fun i => if J i then f i else 0)).
  { apply (sum_over_nonneg n J f). intros i L Ji. apply Rlt_le, P; auto. }
  destruct (J n) eqn:Jn.
  - specialize (P n (Nat.lt_succ_diag_r n) Jn). lra.
  - assert (0 < sum_upto n (fun i => if J i then f i else 0)); [apply IHn; [lra | intros; apply P; auto] | lra]. Qed.

(** ** lists <-> indices *)
Lemma nth_zipw {A B C} (f : A -> B -> C) (a : list A) (b : list B) da db i :
  length a = length b -> nth i (zipw f a b) (f da db) = f (nth i a da) (nth i b db).
Proof. intros L. unfold zipw.
  change (f da db) with ((fun p : A * B => f (fst p) (snd p)) (da, db)).
  rewrite map_nth. rewrite combine_nth by exact L. reflexivity. Qed.

Lemma zipw_length {A B C} (f : A -> B -> C) a b : length a = length b -> length (zipw f a b) = length a.
Proof. intros L. unfold zipw. rewrite map_length, combine_length, L. apply Nat.min_id. Qed.

Lemma msum_cons v (b : bool) (l : list entryR) : msum ((v, b) :: l) = if b then msum l else v + msum l.
Proof. destruct b; reflexivity. Qed.

Lemma msum_as_index_sum (l : list entryR) :
  msum l = sum_upto (length l) (fun i => if maskat l i then 0 else valat l i).
Proof. induction l as [|[v b] l IH]; [reflexivity|].
  cbn [length]. rewrite sum_upto_shift, msum_cons, IH.
  unfold maskat at 1, valat at 1. cbn [nth fst snd].
  destruct b; [rewrite Rplus_0_l|]; reflexivity. Qed.

Lemma nth_map_default {A B} (f : A -> B) l i d d' : f d = d' -> nth i (map f l) d' = f (nth i l d).
Proof. intros <-. apply map_nth. Qed.

Lemma nth_scale s (l : list entryR) i : nth i (scale s l) edef = (s * valat l i, maskat l i).
Proof. unfold scale. rewrite (nth_map_default _ l i edef edef); [reflexivity|].
  unfold edef, ev, em; cbn; f_equal; ring. Qed.

Lemma valat_scale s l i : valat (scale s l) i = s * valat l i.
Proof. unfold valat at 1. rewrite nth_scale. reflexivity. Qed.

Lemma maskat_scale s l i : maskat (scale s l) i = maskat l i.
Proof. unfold maskat at 1. rewrite nth_scale. reflexivity. Qed.

Lemma scale_length s (l : list entryR) : length (scale s l) = length l.
Proof. apply map_length. Qed.

Lemma scale_scale a b (l : list entryR) : a * b = 1 -> scale a (scale b l) = l.
Proof. intros E. unfold scale. rewrite map_map. rewrite <- (map_id l) at 2. apply map_ext.
  intros [v m]. unfold ev, em. cbn. f_equal. rewrite <- Rmult_assoc, E. ring. Qed.

Lemma scale_compose a b (l : list entryR) : scale a (scale b l) = scale (a * b) l.
Proof. unfold scale. rewrite map_map. apply map_ext. intros [v m]. unfold ev, em. cbn. f_equal. ring. Qed.

Lemma msum_scale s (l : list entryR) : msum (scale s l) = s * msum l.
Proof. induction l as [|[v b] l IH]; [unfold msum; cbn; ring|].
  change (scale s ((v, b) :: l)) with ((s * v, b) :: scale s l).
  rewrite !msum_cons, IH. destruct b; ring. Qed.

(** ln x <= x - 1 *)
Lemma ln_le_minus1 x : 0 < x -> ln x <= x - 1.
Proof. intros P. pose proof (exp_ineq1_le (ln x)) as E. rewrite exp_ln in E by exact P. lra. Qed.
