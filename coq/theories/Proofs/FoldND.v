(** * FoldND: the multi-index sets of every shape satisfy the hypotheses of FoldAbs; list-level
      (C-order) versions of the folding theorems; the operator / slicing / auto-fold rules. *)
From Coq Require Import ZArith Reals List Bool Arith Lia Lra Permutation.
From Dadi Require Import Base.Num Base.NumR Model.Fold Proofs.FoldAbs.
Import ListNotations.

(** ** multi-indices *)
Definition valid (s mi : list nat) : Prop := Forall2 lt mi s.

Lemma list_sum_cons_eq a l : list_sum (a :: l) = (a + list_sum l)%nat.
Proof. reflexivity. Qed.

Lemma enum_valid s : forall mi, In mi (enum s) -> valid s mi.
Proof.
  induction s as [|n r IH]; cbn; intros mi Hin.
  - destruct Hin as [<-|[]]. constructor.
  - apply in_flat_map in Hin. destruct Hin as (i & Hi & Hm). apply in_map_iff in Hm.
    destruct Hm as (q & <- & Hq). apply in_seq in Hi. constructor; [lia | apply IH, Hq].
Qed.

Lemma mirror_invol s : forall mi, valid s mi -> mirror_mi s (mirror_mi s mi) = mi.
Proof.
  intros mi Hv. induction Hv as [|i n q r Hlt Hv IH]; cbn; [reflexivity|].
  rewrite IH. f_equal. lia.
Qed.

Lemma mirror_valid s : forall mi, valid s mi -> valid s (mirror_mi s mi).
Proof. intros mi Hv. induction Hv; cbn; constructor; [lia | assumption]. Qed.

Lemma mirror_total s : forall mi, valid s mi ->
  (total mi + total (mirror_mi s mi) = total_samples s)%nat.
Proof.
  intros mi Hv. unfold total, total_samples.
  induction Hv as [|i n q r Hlt Hv IH]; [reflexivity|].
  cbn [mirror_mi map]. rewrite !list_sum_cons_eq. lia.
Qed.

Lemma rev_seq0 n : rev (seq 0 n) = map (fun i => (n - 1 - i)%nat) (seq 0 n).
Proof.
  induction n as [|n IH]; [reflexivity|].
  rewrite seq_S at 1. rewrite rev_app_distr. cbn [rev app plus]. rewrite IH.
  cbn [seq map]. f_equal; [lia|].
  rewrite <- seq_shift, map_map. apply map_ext_in. intros i Hi. apply in_seq in Hi. lia.
Qed.

Lemma rev_flat_map {A B : Type} (g : A -> list B) (l : list A) :
  rev (flat_map g l) = flat_map (fun a => rev (g a)) (rev l).
Proof.
  induction l as [|a l IH]; [reflexivity|].
  cbn. rewrite rev_app_distr, IH, flat_map_app. cbn. rewrite app_nil_r. reflexivity.
Qed.

Lemma flat_map_map {A B C : Type} (h : A -> B) (g : B -> list C) (l : list A) :
  flat_map g (map h l) = flat_map (fun a => g (h a)) l.
Proof. induction l; cbn; congruence. Qed.

Lemma map_flat_map {A B C : Type} (h : B -> C) (g : A -> list B) (l : list A) :
  map h (flat_map g l) = flat_map (fun a => map h (g a)) l.
Proof. induction l; cbn; [reflexivity|]. rewrite map_app. congruence. Qed.

(** reversing all axes = reading the C-order list backwards *)
Lemma mirror_enum s : map (mirror_mi s) (enum s) = rev (enum s).
Proof.
  induction s as [|n r IH]; [reflexivity|].
  cbn [enum]. rewrite map_flat_map, rev_flat_map, rev_seq0, flat_map_map.
  apply flat_map_ext. intros i.
  rewrite map_map. cbn [mirror_mi]. rewrite <- map_rev, <- IH, map_map. reflexivity.
Qed.

Lemma mirror_perm s : Permutation (map (mirror_mi s) (enum s)) (enum s).
Proof. rewrite mirror_enum. apply Permutation_sym, Permutation_rev. Qed.

Lemma size_pos s : forall mi, valid s mi -> (0 < size s)%nat.
Proof.
  intros mi Hv. induction Hv as [|i n q r Hlt Hv IH]; [cbn; lia|].
  change (0 < n * size r)%nat. nia.
Qed.

Lemma ravel_mirror s : forall mi, valid s mi ->
  (ravel s (mirror_mi s mi) + ravel s mi + 1 = size s)%nat.
Proof.
  intros mi Hv. induction Hv as [|i n q r Hlt Hv IH]; [reflexivity|].
  change ((n - 1 - i) * size r + ravel r (mirror_mi r q) + (i * size r + ravel r q) + 1 = n * size r)%nat.
  remember (n - 1 - i)%nat as j eqn:Hj. assert (Hn : (n = j + i + 1)%nat) by lia. subst n. clear Hj. nia.
Qed.

Lemma corner_mirror s : forall mi, valid s mi -> is_corner s (mirror_mi s mi) = is_corner s mi.
Proof.
  intros mi Hv. pose proof (ravel_mirror s mi Hv) as Hr. unfold is_corner.
  destruct (Nat.eqb_spec (ravel s (mirror_mi s mi)) 0); destruct (Nat.eqb_spec (S (ravel s mi)) (size s));
  destruct (Nat.eqb_spec (ravel s mi) 0); destruct (Nat.eqb_spec (S (ravel s (mirror_mi s mi))) (size s));
  try reflexivity; exfalso; lia.
Qed.

(** C-order: the flat positions of the enumeration are 0, 1, ..., size-1 *)
Lemma flat_map_seq_blocks k : forall m a,
  flat_map (fun i => seq (i * k) k) (seq a m) = seq (a * k) (m * k).
Proof.
  induction m as [|m IH]; intro a; [reflexivity|].
  cbn [seq flat_map]. rewrite IH. cbn [Nat.mul]. rewrite seq_app. f_equal. f_equal. lia.
Qed.

Lemma map_add_seq b : forall m c, map (fun p => (b + p)%nat) (seq c m) = seq (b + c) m.
Proof.
  induction m as [|m IH]; intro c; [reflexivity|].
  cbn [seq map]. rewrite IH. f_equal. f_equal. lia.
Qed.

Lemma ravel_enum s : map (ravel s) (enum s) = seq 0 (size s).
Proof.
  induction s as [|n r IH]; [reflexivity|].
  cbn [enum]. rewrite map_flat_map.
  rewrite (flat_map_ext _ (fun i => seq (i * size r) (size r))).
  - rewrite flat_map_seq_blocks. reflexivity.
  - intro i. rewrite map_map. cbn [ravel]. fold (size r).
    rewrite <- (map_map (ravel r) (fun p => (i * size r + p)%nat)), IH.
    rewrite map_add_seq, Nat.add_0_r. reflexivity.
Qed.

Lemma enum_length s : length (enum s) = size s.
Proof. rewrite <- (map_length (ravel s)), ravel_enum, seq_length. reflexivity. Qed.

Lemma nth_seq_id {A : Type} (xs : list A) (d : A) :
  map (fun p => nth p xs d) (seq 0 (length xs)) = xs.
Proof.
  induction xs as [|x xs IH]; [reflexivity|].
  cbn [length seq map nth]. f_equal. rewrite <- seq_shift, map_map. exact IH.
Qed.

(** list -> array -> list is the identity *)
Lemma tabulate_arr_of {A : Type} s (xs : list A) (d : A) :
  length xs = size s -> tabulate s (arr_of s xs d) = xs.
Proof.
  intro Hl. unfold tabulate, arr_of.
  rewrite <- (map_map (ravel s) (fun p => nth p xs d)), ravel_enum, <- Hl. apply nth_seq_id.
Qed.

(** array -> list -> array is the identity on the index set *)
Lemma arr_of_tabulate {A : Type} s (f : list nat -> A) (d : A) mi :
  In mi (enum s) -> arr_of s (tabulate s f) d mi = f mi.
Proof.
  intro Hin. unfold arr_of, tabulate.
  destruct (In_nth _ _ [] Hin) as (k & Hk & Hnth).
  assert (Hr : ravel s mi = k).
  { rewrite <- Hnth. rewrite <- (map_nth (ravel s)). cbn [ravel].
    rewrite (nth_indep _ _ 0%nat) by (rewrite map_length; exact Hk).
    rewrite ravel_enum, seq_nth; [reflexivity | rewrite <- enum_length; exact Hk]. }
  rewrite Hr. rewrite (nth_indep _ d (f [])) by (rewrite map_length; exact Hk).
  rewrite map_nth, Hnth. reflexivity.
Qed.

Lemma map2_map {A B C D : Type} (f : B -> C -> D) (g : A -> B) (h : A -> C) (l : list A) :
  map2 f (map g l) (map h l) = map (fun a => f (g a) (h a)) l.
Proof. induction l; cbn; congruence. Qed.

Lemma tabulate_length {A : Type} s (f : list nat -> A) : length (tabulate s f) = size s.
Proof. unfold tabulate. rewrite map_length. apply enum_length. Qed.

Lemma mirror_in s mi : In mi (enum s) -> In (mirror_mi s mi) (enum s).
Proof. apply mir_in, mirror_perm. Qed.

(** ** the folding theorems for every shape, on total functions over the multi-indices *)
Section Concrete.
  Variable s : list nat.
  Local Open Scope R_scope.

  Let Hp := mirror_perm s.
  Let Hi := fun mi (H : In mi (enum s)) => mirror_invol s mi (enum_valid s mi H).
  Let Ht := fun mi (H : In mi (enum s)) => mirror_total s mi (enum_valid s mi H).
  Let Hc := fun mi (H : In mi (enum s)) => corner_mirror s mi (enum_valid s mi H).

  Lemma nd_fold_conserves_total (x : list nat -> R) :
    nsum (map (fold_nd s x) (enum s)) = nsum (map x (enum s)).
  Proof. rewrite !nsum_Rsum. apply abs_fold_conserves_total; assumption. Qed.

  Lemma nd_fold_of_mirror (x : list nat -> R) mi : In mi (enum s) ->
    fold_nd s (reverse (mirror_mi s) x) mi = fold_nd s x mi.
  Proof. apply abs_fold_of_mirror with (idx := enum s); assumption. Qed.

  Lemma nd_fold_mask_of_mirror (m : list nat -> bool) mi : In mi (enum s) ->
    fold_mask_nd s (reverse (mirror_mi s) m) mi = fold_mask_nd s m mi.
  Proof. apply abs_fold_mask_of_mirror with (idx := enum s); assumption. Qed.

  Lemma nd_ambiguous_shared_equally (x : list nat -> R) mi : In mi (enum s) ->
    (2 * total mi = total_samples s)%nat ->
    fold_nd s x mi = (x mi + x (mirror_mi s mi)) / 2 /\
    fold_nd s x (mirror_mi s mi) = fold_nd s x mi.
  Proof.
    intros Hin Ha. apply abs_ambiguous_shared_equally with (idx := enum s); try assumption.
    unfold ambiguous. apply Nat.eqb_eq. exact Ha.
  Qed.

  Lemma nd_no_ambiguous_when_odd (x : list nat -> R) mi : Nat.odd (total_samples s) = true -> In mi (enum s) ->
    ambiguous total (total_samples s) mi = false /\
    fold_nd s x mi = if folded_out total (total_samples s) mi then 0 else x mi + x (mirror_mi s mi).
  Proof.
    intros Ho Hin. split; [apply abs_no_ambiguous_when_odd; exact Ho|].
    apply abs_fold_when_odd with (idx := enum s); assumption.
  Qed.

  Lemma nd_fold_unfold_fold (x : list nat -> R) mi : In mi (enum s) ->
    fold_nd s (unfold_nd s (fold_nd s x)) mi = fold_nd s x mi.
  Proof. apply abs_fold_unfold_fold with (idx := enum s); assumption. Qed.

  Lemma nd_fold_unfold_fold_mask (m : list nat -> bool) mi : In mi (enum s) ->
    fold_mask_nd s (unfold_mask_nd s (fold_mask_nd s m)) mi = fold_mask_nd s m mi.
  Proof. apply abs_fold_unfold_fold_mask with (idx := enum s); assumption. Qed.

  Lemma nd_misid_conserves_total (p : R) (x : list nat -> R) :
    nsum (map (misid_nd s p x) (enum s)) = nsum (map x (enum s)).
  Proof. rewrite !nsum_Rsum. apply abs_misid_conserves_total; assumption. Qed.

  (** *** the same on C-order flat lists *)
  Lemma l_fold_conserves_total (xs : list R) : length xs = size s ->
    nsum (fold_data_l s xs) = nsum xs.
  Proof.
    intro Hl. unfold fold_data_l, tabulate. rewrite nd_fold_conserves_total.
    change (map (arr_of s xs n0) (enum s)) with (tabulate s (arr_of s xs n0)).
    rewrite tabulate_arr_of by exact Hl. reflexivity.
  Qed.

  Definition sym_mask_l (ms : list bool) : list bool :=
    tabulate s (sym_mask (mirror_mi s) (is_corner s) (arr_of s ms false)).

  Lemma l_fold_conserves_unmasked_total (xs : list R) (ms : list bool) : length xs = size s ->
    msum (fold_mask_l s ms) (fold_data_l s xs) = msum (sym_mask_l ms) xs.
  Proof.
    intro Hl. unfold msum, fold_mask_l, fold_data_l, sym_mask_l.
    rewrite <- (tabulate_arr_of s xs n0 Hl) at 2. unfold tabulate. rewrite !map2_map, !nsum_Rsum.
    apply (abs_fold_conserves_unmasked_total _ (enum s) (mirror_mi s) total (total_samples s) (is_corner s)); assumption.
  Qed.

  (** the usual situation: a mask that is already mirror symmetric with both corners masked *)
  Corollary l_fold_conserves_unmasked_total_sym (xs : list R) (ms : list bool) : length xs = size s ->
    sym_mask_l ms = ms ->
    msum (fold_mask_l s ms) (fold_data_l s xs) = msum ms xs.
  Proof. intros Hl Hs. rewrite l_fold_conserves_unmasked_total by exact Hl. rewrite Hs. reflexivity. Qed.

  Lemma l_reverse_is_rev {A : Type} (xs : list A) (d : A) : length xs = size s -> reverse_l s xs d = rev xs.
  Proof.
    intro Hl. unfold reverse_l, tabulate, reverse.
    rewrite <- (map_map (mirror_mi s) (arr_of s xs d)), mirror_enum, map_rev.
    change (map (arr_of s xs d) (enum s)) with (tabulate s (arr_of s xs d)).
    rewrite tabulate_arr_of by exact Hl. reflexivity.
  Qed.

  Lemma l_fold_of_mirror (xs : list R) : length xs = size s ->
    fold_data_l s (rev xs) = fold_data_l s xs.
  Proof.
    intro Hl. rewrite <- (l_reverse_is_rev xs n0 Hl). unfold fold_data_l, tabulate.
    apply map_ext_in. intros mi Hin.
    rewrite <- (nd_fold_of_mirror (arr_of s xs n0) mi Hin).
    apply fold_val_ext; unfold reverse_l; rewrite arr_of_tabulate; auto using mirror_in.
  Qed.

  Lemma l_fold_mask_of_mirror (ms : list bool) : length ms = size s ->
    fold_mask_l s (rev ms) = fold_mask_l s ms.
  Proof.
    intro Hl. rewrite <- (l_reverse_is_rev ms false Hl). unfold fold_mask_l, tabulate.
    apply map_ext_in. intros mi Hin.
    rewrite <- (nd_fold_mask_of_mirror (arr_of s ms false) mi Hin).
    apply fold_mask_ext; unfold reverse_l; rewrite arr_of_tabulate; auto using mirror_in.
  Qed.

  (** entry at flat position p of the folded mask = mask(p) or mask(size-1-p) or folded-out or corner *)
  Lemma l_fold_mask_is_union (ms : list bool) : length ms = size s ->
    fold_mask_l s ms =
    map2 orb (map2 orb (map2 orb ms (rev ms)) (tabulate s (folded_out total (total_samples s))))
             (tabulate s (is_corner s)).
  Proof.
    intro Hl. rewrite <- (l_reverse_is_rev ms false Hl).
    rewrite <- (tabulate_arr_of s ms false Hl) at 2.
    unfold reverse_l, fold_mask_l, tabulate. rewrite !map2_map. reflexivity.
  Qed.

  Lemma l_fold_unfold_fold (xs : list R) :
    fold_data_l s (unfold_data_l s (fold_data_l s xs)) = fold_data_l s xs.
  Proof.
    change (tabulate s (fold_nd s (arr_of s (unfold_data_l s (fold_data_l s xs)) n0))
            = tabulate s (fold_nd s (arr_of s xs n0))).
    apply map_ext_in. intros mi Hin.
    rewrite <- (nd_fold_unfold_fold (arr_of s xs n0) mi Hin).
    apply fold_val_ext; unfold unfold_data_l; rewrite arr_of_tabulate by auto using mirror_in;
      apply unfold_val_ext; unfold fold_data_l; rewrite arr_of_tabulate; auto using mirror_in;
      rewrite Hi; auto using mirror_in.
  Qed.

  Lemma l_fold_unfold_fold_mask (ms : list bool) :
    fold_mask_l s (unfold_mask_l s (fold_mask_l s ms)) = fold_mask_l s ms.
  Proof.
    change (tabulate s (fold_mask_nd s (arr_of s (unfold_mask_l s (fold_mask_l s ms)) false))
            = tabulate s (fold_mask_nd s (arr_of s ms false))).
    apply map_ext_in. intros mi Hin.
    rewrite <- (nd_fold_unfold_fold_mask (arr_of s ms false) mi Hin).
    apply fold_mask_ext; unfold unfold_mask_l; rewrite arr_of_tabulate by auto using mirror_in;
      apply unfold_mask_ext; unfold fold_mask_l; rewrite arr_of_tabulate; auto using mirror_in;
      rewrite Hi; auto using mirror_in.
  Qed.

  Lemma l_misid_is_convex_mix (p : R) (xs : list R) : length xs = size s ->
    misid_data_l s p xs = map2 (fun a b => (1 - p) * a + p * b) xs (rev xs).
  Proof.
    intro Hl. rewrite <- (l_reverse_is_rev xs n0 Hl).
    rewrite <- (tabulate_arr_of s xs n0 Hl) at 2.
    unfold misid_data_l, reverse_l, tabulate. rewrite map2_map. reflexivity.
  Qed.

  Lemma l_misid_conserves_total (p : R) (xs : list R) : length xs = size s ->
    nsum (misid_data_l s p xs) = nsum xs.
  Proof.
    intro Hl. unfold misid_data_l, tabulate. rewrite nd_misid_conserves_total.
    change (map (arr_of s xs n0) (enum s)) with (tabulate s (arr_of s xs n0)).
    rewrite tabulate_arr_of by exact Hl. reflexivity.
  Qed.

  Lemma l_misid_mask (ms : list bool) : length ms = size s ->
    misid_mask_l s ms = map2 orb ms (rev ms).
  Proof.
    intro Hl. rewrite <- (l_reverse_is_rev ms false Hl).
    rewrite <- (tabulate_arr_of s ms false Hl) at 2.
    unfold misid_mask_l, reverse_l, tabulate. rewrite map2_map. reflexivity.
  Qed.
End Concrete.

(** ** Spectrum objects *)
Section Spectra.
  Local Open Scope R_scope.
  Notation lspecR := (lspec R).

  (** fold o unfold o fold = fold on the whole object (data, mask, flag, labels, extrap_x) *)
  Lemma ls_fold_unfold_fold (a f : lspecR) : fold_ls a = Some f ->
    exists u, unfold_ls f = Some u /\ fold_ls u = Some f.
  Proof.
    unfold fold_ls. destruct (ls_folded a) eqn:Ha; [discriminate|]. intros [= <-].
    eexists. split; [reflexivity|]. unfold fold_ls.
    cbn [ls_folded ls_shape ls_data ls_mask ls_ids ls_ex].
    rewrite l_fold_unfold_fold, l_fold_unfold_fold_mask. reflexivity.
  Qed.

  Lemma ls_fold_refuses_folded (a : lspecR) : ls_folded a = true -> fold_ls a = None.
  Proof. intro Ha. unfold fold_ls. rewrite Ha. reflexivity. Qed.
  Lemma ls_unfold_refuses_unfolded (a : lspecR) : ls_folded a = false -> unfold_ls a = None.
  Proof. intro Ha. unfold unfold_ls. rewrite Ha. reflexivity. Qed.

  (** mixed folding is refused by every binary and in-place operator, before anything else happens *)
  Lemma mixed_refused (f : R -> R -> R) (avail : bool) (a b : lspecR) :
    ls_folded a <> ls_folded b ->
    binop f avail a (OSpec b) = Refused /\ iop f avail a (OSpec b) = Refused.
  Proof.
    intro Hne. unfold binop, iop, same_folding.
    destruct (ls_folded a), (ls_folded b); cbn; try (exfalso; apply Hne; reflexivity); split; reflexivity.
  Qed.

  (** ... and only mixed folding is refused *)
  Lemma refused_only_mixed (f : R -> R -> R) (avail : bool) (a : lspecR) (o : operand R) :
    binop f avail a o = Refused \/ iop f avail a o = Refused ->
    exists b, o = OSpec b /\ ls_folded a <> ls_folded b.
  Proof.
    unfold binop, iop. destruct (same_folding a o) eqn:Hs; cbn.
    - destruct avail; cbn; intros [H|H]; discriminate.
    - intros _. destruct o; cbn in Hs; try discriminate. exists b. split; [reflexivity|].
      intro He. rewrite He in Hs. destruct (ls_folded b); discriminate.
  Qed.

  Lemma nth_map2_orb (a b : list bool) p : length a = length b ->
    nth p (map2 orb a b) false = nth p a false || nth p b false.
  Proof.
    revert b p. induction a as [|x a IH]; intros [|y b] p Hl; try discriminate; destruct p; cbn; auto.
  Qed.

  (** folding status, shape, masks (OR), labels and extrap_x of a result *)
  Lemma arith_result (f : R -> R -> R) (a r : lspecR) (o : operand R) :
    binop f true a o = Done r \/ iop f true a o = Done r ->
    ls_folded r = ls_folded a /\ ls_shape r = ls_shape a /\
    ls_mask r = new_mask a o /\
    (forall b, o = OSpec b -> ls_folded b = ls_folded a) /\
    (ls_ids a <> None -> ls_ids r = ls_ids a) /\
    (forall p m, other_mask o = Some m -> length (ls_mask a) = length m ->
       nth p (ls_mask r) false = nth p (ls_mask a) false || nth p m false) /\
    (other_mask o = None -> ls_mask r = ls_mask a).
  Proof.
    intros Hd.
    assert (Hs : same_folding a o = true).
    { destruct Hd as [H|H]; unfold binop, iop in H; destruct (same_folding a o); try reflexivity; discriminate. }
    assert (Hf : forall b, o = OSpec b -> ls_folded b = ls_folded a).
    { intros b ->. cbn in Hs. destruct (ls_folded b), (ls_folded a); cbn in Hs; congruence. }
    assert (Hr : ls_folded r = ls_folded a /\ ls_shape r = ls_shape a /\ ls_mask r = new_mask a o /\
                 (ls_ids a <> None -> ls_ids r = ls_ids a)).
    { destruct Hd as [H|H]; unfold binop, iop in H; rewrite Hs in H; cbn [negb] in H; injection H as <-;
        cbn [ls_folded ls_shape ls_mask ls_ids]; repeat split; try reflexivity.
      intro Hn. unfold new_ids. destruct o as [c|xs|xs ms|b]; try reflexivity.
      destruct (ls_ids b); [|reflexivity]. destruct (ls_ids a); [reflexivity|congruence]. }
    destruct Hr as (H1 & H2 & H3 & H4). repeat split; auto.
    - intros p m Hm Hl. rewrite H3. unfold new_mask. rewrite Hm. apply nth_map2_orb; exact Hl.
    - intro Hm. rewrite H3. unfold new_mask. rewrite Hm. reflexivity.
  Qed.

  (** labels of a binary result when self has none: the other operand's *)
  Lemma arith_labels_from_other (f : R -> R -> R) (a b r : lspecR) :
    binop f true a (OSpec b) = Done r -> ls_ids a = None -> ls_ids r = ls_ids b.
  Proof.
    unfold binop. destruct (same_folding a (OSpec b)); cbn; [|discriminate].
    intros [= <-] Hn. cbn. rewrite Hn. destruct (ls_ids b); reflexivity.
  Qed.

  (** slicing keeps folding status, labels and extrap_x *)
  Lemma slice_keeps (sel : list axsel) (a : lspecR) :
    ls_folded (slice_ls sel a) = ls_folded a /\ ls_ids (slice_ls sel a) = ls_ids a /\
    ls_ex (slice_ls sel a) = ls_ex a /\
    ls_mask (slice_ls sel a) = map (arr_of (ls_shape a) (ls_mask a) false) (sel_enum sel).
  Proof. repeat split; reflexivity. Qed.

  (** likelihoods: an unfolded model is folded before it is compared with folded data; otherwise untouched *)
  Lemma ll_autofold (lgam : R -> R) (model data mf : lspecR) :
    ls_folded data = true -> ls_folded model = false -> fold_ls model = Some mf ->
    ll_ls lgam model data = ll_ls lgam mf data.
  Proof.
    intros Hd Hm Hf. unfold ll_ls, autofold. rewrite Hd, Hm. cbn. rewrite Hf.
    assert (Hmf : ls_folded mf = true).
    { unfold fold_ls in Hf. rewrite Hm in Hf. injection Hf as <-. reflexivity. }
    rewrite Hmf. cbn. rewrite Hmf. reflexivity.
  Qed.

  Lemma ll_mixed_refused (lgam : R -> R) (model data : lspecR) :
    ls_folded data = false -> ls_folded model = true -> ll_ls lgam model data = None.
  Proof. intros Hd Hm. unfold ll_ls, autofold. rewrite Hd, Hm. cbn. rewrite Hm. reflexivity. Qed.

  Lemma ll_no_fold (lgam : R -> R) (model data : lspecR) :
    ls_folded data = false \/ ls_folded model = true -> autofold model data = Some model.
  Proof. unfold autofold. intros [->| ->]; [reflexivity|]. rewrite andb_false_r. reflexivity. Qed.
End Spectra.

(** combined statements used by Props/C09.v *)
Section Combined.
  Local Open Scope R_scope.
  Lemma l_fold_of_mirror_both (s : list nat) (xs : list R) (ms : list bool) :
    length xs = size s -> length ms = size s ->
    fold_data_l s (rev xs) = fold_data_l s xs /\ fold_mask_l s (rev ms) = fold_mask_l s ms.
  Proof. intros Hx Hm. exact (conj (l_fold_of_mirror s xs Hx) (l_fold_mask_of_mirror s ms Hm)). Qed.

  Lemma l_fold_unfold_fold_both (s : list nat) (xs : list R) (ms : list bool) :
    fold_data_l s (unfold_data_l s (fold_data_l s xs)) = fold_data_l s xs /\
    fold_mask_l s (unfold_mask_l s (fold_mask_l s ms)) = fold_mask_l s ms.
  Proof. exact (conj (l_fold_unfold_fold s xs) (l_fold_unfold_fold_mask s ms)). Qed.

  Lemma ls_refusals (a : lspec R) :
    (ls_folded a = true -> fold_ls a = None) /\ (ls_folded a = false -> unfold_ls a = None).
  Proof. exact (conj (ls_fold_refuses_folded a) (ls_unfold_refuses_unfolded a)). Qed.

  Lemma l_misid_both (s : list nat) (p : R) (xs : list R) (ms : list bool) :
    length xs = size s -> length ms = size s ->
    misid_data_l s p xs = map2 (fun a b => (1 - p) * a + p * b) xs (rev xs) /\
    misid_mask_l s ms = map2 orb ms (rev ms).
  Proof. intros Hx Hm. exact (conj (l_misid_is_convex_mix s p xs Hx) (l_misid_mask s ms Hm)). Qed.

  Lemma nd_misid_between (s : list nat) (p : R) (x : list nat -> R) (mi : list nat) :
    0 <= p <= 1 ->
    Rmin (x mi) (x (mirror_mi s mi)) <= misid_nd s p x mi <= Rmax (x mi) (x (mirror_mi s mi)).
  Proof. apply abs_misid_between. Qed.

  Lemma l_reverse_is_rev_R (s : list nat) (xs : list R) : length xs = size s -> reverse_l s xs 0 = rev xs.
  Proof. apply l_reverse_is_rev. Qed.
End Combined.
