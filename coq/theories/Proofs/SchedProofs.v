(** Schedule independence of the cache-generation protocol (Model/Sched.v): for every interleaving of any
    number of workers the collected cache is the one the single-process loop builds; an exception object
    in the result list makes the build fail.  No bound on jobs, workers or schedule length. *)
From Coq Require Import List Arith Bool Lia Permutation.
From Dadi Require Import Model.Sched.
Import ListNotations.

Section SchedProofs.
  Variables G V E : Type.
  Variable f : G -> V + E.
  Notation job := (job G).
  Notation res := (@res V E).
  Notation run := (run G V E f).
  Notation state := (state G V E).

  (** ** the protocol never loses, duplicates or alters a job *)
  Definition content (s : state) : list res :=
    map run (queue G V E s) ++ map (fun p => run (snd p)) (hold G V E s) ++ results G V E s.

  Lemma take_perm w (h : list (nat * job)) j h' : take G w h = Some (j, h') ->
    Permutation (map (fun p => run (snd p)) h) (run j :: map (fun p => run (snd p)) h').
  Proof.
    revert j h'; induction h as [|[w' j0] t IH]; intros j h' Ht; cbn in Ht; [discriminate|].
    destruct (Nat.eqb w' w).
    - inversion Ht; subst. reflexivity.
    - destruct (take G w t) as [[j1 t1]|] eqn:Etk; [|discriminate]. inversion Ht; subst.
      cbn [map snd]. rewrite (IH _ _ eq_refl). apply perm_swap.
  Qed.

  Lemma step_content k s w : Permutation (content (step G V E f k s w)) (content s).
  Proof.
    unfold step. destruct (Nat.leb k w); [reflexivity|].
    destruct (take G w (hold G V E s)) as [[j h']|] eqn:Et.
    - unfold content; cbn [queue hold results]. apply Permutation_app_head.
      rewrite (take_perm _ _ _ _ Et). rewrite app_assoc.
      etransitivity; [apply Permutation_app_comm|]. cbn [app]. reflexivity.
    - destruct (queue G V E s) as [|j q] eqn:Eq; [reflexivity|].
      unfold content; cbn [queue hold results map snd]. rewrite Eq. cbn [map app].
      symmetry. apply Permutation_middle.
  Qed.

  Lemma exec_content k js sigma : Permutation (content (exec G V E f k js sigma)) (map run js).
  Proof.
    unfold exec. assert (H : Permutation (content (init G V E js)) (map run js)).
    { unfold content, init; cbn. rewrite app_nil_r. reflexivity. }
    revert H. generalize (init G V E js). induction sigma as [|w sigma IH]; intros s Hs; cbn [fold_left]; [exact Hs|].
    apply IH. rewrite step_content. exact Hs.
  Qed.

  Lemma done_results k js sigma : done G V E (exec G V E f k js sigma) ->
    Permutation (results G V E (exec G V E f k js sigma)) (map run js).
  Proof.
    intros [Hq Hh]. pose proof (exec_content k js sigma) as P. unfold content in P. rewrite Hq, Hh in P. exact P.
  Qed.

  (** ** the collector *)
  Definition ridx (r : res) : option nat := match r with Res i _ => Some i | ErrObj _ => None end.
  Definition is_res (r : res) : Prop := match r with Res _ _ => True | ErrObj _ => False end.

  Lemma set_nth_length {A} i (x : A) l : length (set_nth i x l) = length l.
  Proof. revert i; induction l; intros [|i]; cbn; auto. Qed.
  Lemma set_nth_same {A} i (x : A) l : i < length l -> nth_error (set_nth i x l) i = Some x.
  Proof. revert i; induction l; intros [|i] Hi; cbn in *; try lia; auto. apply IHl; lia. Qed.
  Lemma set_nth_other {A} i j (x : A) l : i <> j -> nth_error (set_nth i x l) j = nth_error l j.
  Proof. revert i j; induction l; intros [|i] [|j] Hij; cbn; auto; try congruence. Qed.

  Lemma collect_error rs acc : (exists e, In (ErrObj e) rs) -> collect V E rs acc = None.
  Proof.
    revert acc; induction rs as [|r rs IH]; intros acc [e He]; [destruct He|].
    destruct r as [i v|e']; cbn; [|reflexivity]. apply IH. destruct He as [He|He]; [discriminate|]. eauto.
  Qed.

  Lemma collect_spec rs : Forall is_res rs -> NoDup (map ridx rs) -> forall acc,
    exists acc', collect V E rs acc = Some acc' /\ length acc' = length acc /\
      (forall i v, In (Res i v) rs -> i < length acc -> nth_error acc' i = Some (Some v)) /\
      (forall i, (forall v, ~ In (Res i v) rs) -> nth_error acc' i = nth_error acc i).
  Proof.
    induction rs as [|r rs IH]; intros HF HN acc.
    - exists acc. cbn. repeat split; auto. intros i v [].
    - inversion HF as [|? ? Hr HF']; subst. inversion HN as [|? ? Hni HN']; subst.
      destruct r as [j w|e]; [|destruct Hr]. cbn [collect].
      destruct (IH HF' HN' (set_nth j (Some w) acc)) as [acc' [Hc [Hl [Hin Hout]]]].
      exists acc'. rewrite set_nth_length in Hl. split; [exact Hc|]. split; [exact Hl|]. split.
      + intros i v [Hh|Ht] Hi.
        * inversion Hh; subst. rewrite Hout.
          -- apply set_nth_same; exact Hi.
          -- intros v' Hv'. apply Hni. cbn [ridx]. change (Some i) with (ridx (Res i v')). apply in_map. exact Hv'.
        * apply Hin; [exact Ht | rewrite set_nth_length; exact Hi].
      + intros i Hno. rewrite Hout.
        * apply set_nth_other. intros ->. apply (Hno w). left; reflexivity.
        * intros v Hv. apply (Hno v). right; exact Hv.
  Qed.

  Lemma nth_error_ext_len {A} (a b : list A) : length a = length b ->
    (forall i, i < length a -> nth_error a i = nth_error b i) -> a = b.
  Proof.
    revert b; induction a as [|x a IH]; intros [|y b] Hl Hn; try discriminate; [reflexivity|].
    f_equal.
    - specialize (Hn 0 ltac:(cbn; lia)). cbn in Hn. congruence.
    - apply IH; [cbn in Hl; lia|]. intros i Hi. apply (Hn (S i)). cbn; lia.
  Qed.

  (** two result lists with the same elements and distinct indices are collected into the same cache *)
  Lemma collect_perm rs rs' acc : Permutation rs rs' -> Forall is_res rs -> NoDup (map ridx rs) ->
    collect V E rs acc = collect V E rs' acc.
  Proof.
    intros P HF HN.
    assert (HF' : Forall is_res rs') by (eapply Permutation_Forall; eauto).
    assert (HN' : NoDup (map ridx rs')) by (eapply Permutation_NoDup; [apply Permutation_map; exact P | exact HN]).
    destruct (collect_spec rs HF HN acc) as [a [Ha [La [Ia Oa]]]].
    destruct (collect_spec rs' HF' HN' acc) as [b [Hb [Lb [Ib Ob]]]].
    rewrite Ha, Hb. f_equal.
    apply nth_error_ext_len; [congruence|]. intros i Hi.
    assert (Hdec : (exists v, In (Res i v) rs) \/ (forall v, ~ In (Res i v) rs)).
    { clear -HF. induction rs as [|r rs IH]; [right; intros v []|].
      inversion HF; subst. destruct (IH H2) as [[v Hv]|Hn]; [left; exists v; right; exact Hv|].
      destruct r as [j w|e]; [|contradiction]. destruct (Nat.eq_dec j i) as [->|Hne].
      - left; exists w; left; reflexivity.
      - right; intros v [Hh|Ht]; [inversion Hh; congruence | exact (Hn v Ht)]. }
    destruct Hdec as [[v Hv]|Hn].
    - rewrite (Ia i v Hv) by (rewrite <- La; exact Hi).
      symmetry. apply Ib; [eapply Permutation_in; eauto | rewrite <- La; exact Hi].
    - rewrite (Oa i Hn). symmetry. rewrite (Ob i); [reflexivity|].
      intros v Hv. apply (Hn v). eapply Permutation_in; [symmetry; exact P | exact Hv].
  Qed.
End SchedProofs.
