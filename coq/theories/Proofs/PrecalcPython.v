(** Helper lemmas and tactics for the per-run obligations generated from the Python coefficient assembly of the
    constant-parameter drivers (dadi/Integration.py: _one_pop_const_params, _two_pops_const_params,
    _three_pops_const_params; translator harness/translate/npslice.py, obligations harness/props/c02_translate.py).

    The generated obligations say, index class by index class (first point, generic interior point, last point of
    a line; generic lines and the corner lines), that the scalar term the numpy slice program stores in the arrays
    a, b, c equals [coef_a], [coef_b0], [coef_c] of the model.  This file gives
    - [delj_parts]: the model's delta_j as a function of the three numbers it is computed from, and the reading of
      numpy's nan/inf filter on a quotient ([delj_filter_ok]);
    - [python_coefficients_give_model_line]: three index classes cover a line, and arrays that agree with
      coef_a/coef_b0/coef_c on them make the precomputed-coefficient solve equal to the model's line solve;
    - [corner_flags_by_index]: on a strictly increasing grid from 0 to 1 the model's corner flags (all other
      coordinates ARE 0 / ARE 1) are the index tests the Python placement uses (all other indices are 0 / are N-1);
    - the tactics used by the generated proof scripts. *)
From Coq Require Import Reals List Lra Lia Arith Bool.
From Dadi Require Import Base.Num Base.NumR Model.Tridiag Model.Scheme Model.NDSweep Proofs.SchemeProofs Proofs.Drivers.
Import ListNotations.
Local Open Scope R_scope.

Ltac pnR := unfold nhalf, Scheme.n4 in *; numR_all; unfold n2 in *; numR; try replace (1 + 1) with 2 in * by lra.

(** ** delta_j from its three ingredients *)
Definition delj_parts (dj : bool) (dxv m v : R) : R :=
  if dj then
    let wj := 2 * m * dxv in
    let eps := exp (wj / v) in
    if negb (Reqb eps 1) && negb (Reqb wj 0)
    then (- (eps * wj) + eps * v - v) / (wj - eps * wj)
    else 1 / 2
  else 1 / 2.

Lemma delj_of_parts xs (Vf Mf : R -> R) dj i dxv m v :
  dxv = dx xs i -> m = Mf (xint xs i) -> v = Vf (xint xs i) ->
  delj_parts dj dxv m v = delj xs Vf Mf dj i.
Proof.
  intros -> -> ->. unfold delj_parts, delj. destruct dj; pnR; reflexivity.
Qed.

(** numpy.where(isnan(q), 1/2, q), numpy.where(isinf(q), 1/2, q) on q = num/den: over the reals the filtered
    points are those where the denominator vanishes; for den = wj - eps*wj that is eps = 1 or wj = 0 *)
Lemma delj_filter_ok wj eps v num den :
  den = wj - eps * wj -> num = - (eps * wj) + eps * v - v ->
  (if Reqb den 0 then 1 / 2 else num / den) =
  (if negb (Reqb eps 1) && negb (Reqb wj 0) then (- (eps * wj) + eps * v - v) / (wj - eps * wj) else 1 / 2).
Proof.
  intros -> ->.
  destruct (Reqb eps 1) eqn:E1; destruct (Reqb wj 0) eqn:E2; cbn [negb andb];
    destruct (Reqb (wj - eps * wj) 0) eqn:E3; try reflexivity; exfalso.
  - apply Reqb_true in E1. apply Reqb_false in E3. apply E3. subst eps. ring.
  - apply Reqb_true in E1. apply Reqb_false in E3. apply E3. subst eps. ring.
  - apply Reqb_true in E2. apply Reqb_false in E3. apply E3. subst wj. ring.
  - apply Reqb_false in E1. apply Reqb_false in E2. apply Reqb_true in E3.
    assert (Hm : wj * (1 - eps) = 0) by (rewrite <- E3; ring).
    apply Rmult_integral in Hm. destruct Hm as [Hm | Hm]; [apply E2; exact Hm | apply E1; lra].
Qed.

(** ** three index classes cover a line *)
Lemma three_classes_cover (n : nat) (P : nat -> Prop) : (2 <= n)%nat ->
  P 0%nat -> (forall i, (1 <= i)%nat -> (i <= n - 2)%nat -> P i) -> P (n - 1)%nat ->
  forall i, (i < n)%nat -> P i.
Proof.
  intros Hn H0 Hm Hl i Hi.
  destruct (Nat.eq_dec i 0) as [->|]; [exact H0|].
  destruct (Nat.eq_dec i (n - 1)) as [->|]; [exact Hl|].
  apply Hm; lia.
Qed.

Theorem python_coefficients_give_model_line xs (Vf Mf : R -> R) nu c0 c1 dj (a b c : nat -> R) :
  (2 <= length xs)%nat ->
  a 0%nat = coef_a xs Vf Mf dj 0 ->
  (forall i, (1 <= i)%nat -> (i <= length xs - 2)%nat -> a i = coef_a xs Vf Mf dj i) ->
  a (length xs - 1)%nat = coef_a xs Vf Mf dj (length xs - 1) ->
  b 0%nat = coef_b0 xs Vf Mf nu c0 c1 dj 0 ->
  (forall i, (1 <= i)%nat -> (i <= length xs - 2)%nat -> b i = coef_b0 xs Vf Mf nu c0 c1 dj i) ->
  b (length xs - 1)%nat = coef_b0 xs Vf Mf nu c0 c1 dj (length xs - 1) ->
  c 0%nat = coef_c xs Vf Mf dj 0 ->
  (forall i, (1 <= i)%nat -> (i <= length xs - 2)%nat -> c i = coef_c xs Vf Mf dj i) ->
  c (length xs - 1)%nat = coef_c xs Vf Mf dj (length xs - 1) ->
  forall dt phi, length phi = length xs ->
  precalc_solve (map a (seq 0 (length xs))) (map b (seq 0 (length xs))) (map c (seq 0 (length xs))) dt phi
  = line_solve xs Vf Mf nu c0 c1 dt dj phi.
Proof.
  intros Hn Ha0 Ham Hal Hb0 Hbm Hbl Hc0 Hcm Hcl dt phi Hl.
  assert (HA : forall i, (i < length xs)%nat -> a i = coef_a xs Vf Mf dj i) by (apply three_classes_cover; assumption).
  assert (HB : forall i, (i < length xs)%nat -> b i = coef_b0 xs Vf Mf nu c0 c1 dj i) by (apply three_classes_cover; assumption).
  assert (HC : forall i, (i < length xs)%nat -> c i = coef_c xs Vf Mf dj i) by (apply three_classes_cover; assumption).
  unfold precalc_solve, line_solve. f_equal.
  rewrite (map_ext_in a (coef_a xs Vf Mf dj)) by (intros i Hi; apply in_seq in Hi; apply HA; lia).
  rewrite (map_ext_in b (coef_b0 xs Vf Mf nu c0 c1 dj)) by (intros i Hi; apply in_seq in Hi; apply HB; lia).
  rewrite (map_ext_in c (coef_c xs Vf Mf dj)) by (intros i Hi; apply in_seq in Hi; apply HC; lia).
  rewrite (precalc_equals_onthefly xs Vf Mf nu c0 c1 dt dj phi Hl).
  rewrite (line_rows_eq_spec xs Vf Mf nu c0 c1 dt dj Hn phi). unfold line_rows_spec, Scheme.N.
  rewrite map_map. apply map_ext. intros i. unfold coef_b. numR. f_equal. f_equal. f_equal. apply Rplus_comm.
Qed.

(** ** corner lines: the Python code places the absorbing terms by INDEX ([0,..,0] and [-1,..,-1]), the model (as
    the C kernels) by VALUE of the other coordinates.  On a strictly increasing grid from 0 to 1 these agree. *)
Lemma grid_increasing xs : (forall p, (S p < length xs)%nat -> x xs p < x xs (S p)) ->
  forall p q, (p < q)%nat -> (q < length xs)%nat -> x xs p < x xs q.
Proof.
  intros Hinc p q Hpq. induction Hpq as [|q Hpq IH]; intros Hq.
  - apply Hinc. exact Hq.
  - eapply Rlt_trans; [apply IH; lia | apply Hinc; exact Hq].
Qed.

Lemma corner_flags_by_index xs (js : list nat) :
  (forall p, (S p < length xs)%nat -> x xs p < x xs (S p)) ->
  (2 <= length xs)%nat -> x xs 0 = 0 -> x xs (length xs - 1) = 1 ->
  Forall (fun j => (j < length xs)%nat) js ->
  all_eq 0 (map (x xs) js) = forallb (fun j => Nat.eqb j 0) js /\
  all_eq 1 (map (x xs) js) = forallb (fun j => Nat.eqb j (length xs - 1)) js.
Proof.
  intros Hinc Hn H0 H1 Hjs. pose proof (grid_increasing xs Hinc) as Hmono.
  unfold all_eq. induction Hjs as [|j js Hj _ IH]; [split; reflexivity|].
  destruct IH as [IH0 IH1]. cbn [map forallb]. rewrite IH0, IH1. numR. split; f_equal.
  - destruct (Nat.eqb_spec j 0) as [->|Hne].
    + apply Reqb_true. exact H0.
    + apply Reqb_false. pose proof (Hmono 0%nat j ltac:(lia) Hj). lra.
  - destruct (Nat.eqb_spec j (length xs - 1)) as [->|Hne].
    + apply Reqb_true. exact H1.
    + apply Reqb_false. pose proof (Hmono j (length xs - 1)%nat ltac:(lia) ltac:(lia)). lra.
Qed.

(** ** tactics for the generated scripts *)

(** decide the index tests of coef_a / coef_b0 / coef_c / dfactor from the hypotheses on the index *)
Ltac py_nat_dec :=
  repeat match goal with
  | |- context [Nat.eqb ?a ?b] => destruct (Nat.eqb_spec a b); [try lia | try lia]
  | |- context [Nat.ltb ?a ?b] => destruct (Nat.ltb_spec a b); [try lia | try lia]
  end.

(** bring the index expressions the model produces to the forms the translator emits *)
Ltac py_idx_norm :=
  repeat match goal with
  | |- context [S (?i - 1)] => replace (S (i - 1)) with i by lia
  | |- context [(?n - 1 - 1)%nat] => replace (n - 1 - 1)%nat with (n - 2)%nat by lia
  | |- context [S (?n - 2)] => replace (S (n - 2)) with (n - 1)%nat by lia
  | |- context [(?i - 1 + 1)%nat] => replace (i - 1 + 1)%nat with i by lia
  end.

Ltac py_unfold_pointwise :=
  unfold Vfunc_beta, Vfunc, Mfunc, Mmig, Msel, nsum, xint, dx, x, nthF;
  cbn [map combine fold_right fst snd]; py_idx_norm; pnR.

(** turn one occurrence of [delj_parts dj a b c] into the model's [delj xs Vf Mf dj i] (the occurrence for which the
    three side conditions can be proved) *)
Ltac py_fold_delj xs Vf Mf dj i :=
  match goal with
  | |- context [delj_parts dj ?a ?b ?c] =>
      let E := fresh "E" in
      assert (E : delj_parts dj a b c = delj xs Vf Mf dj i)
        by (apply delj_of_parts; py_unfold_pointwise; field; repeat split; first [assumption | lra]);
      rewrite E; clear E
  end.

(** make the guard of a conditional boundary contribution syntactically the model's *)
Ltac py_guard_le0 M :=
  match goal with
  | |- context [Rleb ?a 0] =>
      lazymatch a with M => fail | _ => idtac end;
      replace a with M by (py_unfold_pointwise; field; repeat split; first [assumption | lra])
  end.
Ltac py_guard_ge0 M :=
  match goal with
  | |- context [Rleb 0 ?a] =>
      lazymatch a with M => fail | _ => idtac end;
      replace a with M by (py_unfold_pointwise; field; repeat split; first [assumption | lra])
  end.

Ltac py_side := repeat split; first [assumption | lra].
