(** * DemesExportReorder: the export round trip for logs with reorder_pops records. *)
From Coq Require Import ZArith Reals List Bool Arith Lra Lia.
From Dadi Require Import Base.Num Base.NumR Model.DemesFront Model.DemesExportModel Model.DemesExportReorderModel
     Proofs.DemesBase Proofs.DemesRescale Proofs.DemesUnits Proofs.DemesOrder Proofs.DemesExportLists.
From Dadi Require Import Proofs.DemesExportGraph Proofs.DemesExportRoundTrip.
Import ListNotations.
Local Open Scope R_scope.

(** ** names in creation order *)
Lemma srt_bound n m ids : (forall x, In x ids -> (x < m)%nat) -> (m <= n)%nat -> srt n ids = srt m ids.
Proof.
  intros B L. unfold srt. replace n with (m + (n - m))%nat by lia. rewrite seq_app, filter_app.
  rewrite (filter_none _ (seq (0 + m) (n - m))); [now rewrite app_nil_r|].
  intros x Hx. apply in_seq in Hx. apply mem_false. intros K. apply B in K. lia.
Qed.
Lemma srt_ext n ids ids' : (forall x, In x ids <-> In x ids') -> srt n ids = srt n ids'.
Proof.
  intros E. unfold srt. apply filter_ext. intros x. destruct (mem x ids) eqn:M.
  - symmetry. apply mem_In. apply E. now apply mem_In.
  - symmetry. apply mem_false. intros K. apply E in K. apply mem_In in K. congruence.
Qed.
Lemma srt_snoc next ids : (forall x, In x ids -> (x < next)%nat) -> srt (S next) (ids ++ [next]) = srt next ids ++ [next].
Proof.
  intros B. unfold srt. replace (S next) with (next + 1)%nat by lia. rewrite seq_app, filter_app. cbn [seq filter plus].
  assert (M : mem next (ids ++ [next]) = true) by (apply mem_In; apply in_or_app; right; now left). rewrite M. f_equal.
  apply filter_ext_in. intros x Hx. apply in_seq in Hx. destruct (mem x ids) eqn:E.
  - apply mem_In. apply in_or_app. left. now apply mem_In.
  - apply mem_false. intros K. apply in_app_or in K as [K|[K|[]]]; [apply mem_In in K; congruence|lia].
Qed.
Lemma remove_nth_filter (l : list nat) x : NoDup l -> In x l -> remove_nth (pos_of x l) l = filter (fun y => negb (Nat.eqb y x)) l.
Proof.
  unfold pos_of. induction l as [|y l IH]; intros N Hx; [destruct Hx|]. inversion N as [|? ? N1 N2]; subst. cbn [index_of filter].
  destruct (Nat.eqb x y) eqn:E.
  - apply Nat.eqb_eq in E. subst y. rewrite Nat.eqb_refl. cbn [negb remove_nth]. symmetry. apply filter_all.
    intros z Hz. destruct (Nat.eqb z x) eqn:E'; auto. apply Nat.eqb_eq in E'. subst. contradiction.
  - destruct Hx as [->|Hx]; [rewrite Nat.eqb_refl in E; discriminate|]. rewrite Nat.eqb_sym, E. cbn [negb].
    destruct (index_of_In _ _ Hx) as [j Ej]. rewrite Ej in *. cbn [option_map remove_nth]. f_equal. apply IH; auto.
Qed.
Lemma rm_other j (l : list nat) x : In x l -> x <> nth j l 0%nat -> In x (remove_nth j l).
Proof.
  revert j. induction l as [|y l IH]; intros j Hx Hn; [destruct Hx|]. destruct j; cbn [remove_nth nth] in *.
  - destruct Hx as [->|Hx]; auto. congruence.
  - destruct Hx as [->|Hx]; [now left|right; auto].
Qed.
Lemma rm_self j (l : list nat) : NoDup l -> (j < length l)%nat -> ~ In (nth j l 0%nat) (remove_nth j l).
Proof.
  revert j. induction l as [|y l IH]; intros j N L; [cbn in L; lia|]. inversion N as [|? ? N1 N2]; subst.
  destruct j; cbn [remove_nth nth]; auto. intros [K|K].
  - apply N1. rewrite K. apply nth_In. cbn in L. lia.
  - eapply IH; eauto. cbn in L. lia.
Qed.
Lemma remove_nth_mem (N : list nat) j y : NoDup N -> (j < length N)%nat ->
  mem y (remove_nth j N) = (mem y N && negb (Nat.eqb y (nth j N 0%nat)))%bool.
Proof.
  intros ND L. destruct (Nat.eqb y (nth j N 0%nat)) eqn:E.
  - apply Nat.eqb_eq in E. cbn [negb]. rewrite andb_false_r. apply mem_false. rewrite E. apply rm_self; auto.
  - cbn [negb]. rewrite andb_true_r. apply Nat.eqb_neq in E. destruct (mem y N) eqn:M.
    + apply mem_In. apply rm_other; auto. now apply mem_In.
    + apply mem_false. intros K. apply remove_nth_In in K. apply mem_In in K. congruence.
Qed.
Lemma srt_remove n N j : NoDup N -> (forall x, In x N -> (x < n)%nat) -> (j < length N)%nat ->
  srt n (remove_nth j N) = remove_nth (pos_of (nth j N 0%nat) (srt n N)) (srt n N).
Proof.
  intros ND B L. rewrite remove_nth_filter; [|apply srt_NoDup|apply srt_In; auto; now apply nth_In].
  unfold srt. induction (seq 0 n) as [|y l IH]; auto. cbn [filter]. rewrite remove_nth_mem by auto.
  destruct (mem y N); cbn [andb filter]; [destruct (negb (Nat.eqb y (nth j N 0%nat))); now rewrite IH|exact IH].
Qed.

(** ** positions and permutations *)
Lemma pos_of_In x l : In x l -> index_of x l = Some (pos_of x l) /\ (pos_of x l < length l)%nat /\ nth (pos_of x l) l 0%nat = x.
Proof. intros Hx. destruct (index_of_In _ _ Hx) as [j Ej]. unfold pos_of. rewrite Ej. split; auto. now apply index_of_Some. Qed.
Lemma pos_of_nth l j : NoDup l -> (j < length l)%nat -> pos_of (nth j l 0%nat) l = j.
Proof. intros N L. unfold pos_of. now rewrite index_of_nth_NoDup. Qed.
Lemma indices_of_pos T I0 : (forall x, In x T -> In x I0) -> indices_of T I0 = Some (map (fun x => pos_of x I0) T).
Proof.
  induction T as [|x T IH]; intros K; cbn [indices_of map]; auto.
  destruct (pos_of_In x I0) as (E & _); [apply K; now left|]. rewrite E, IH by (intros; apply K; now right). reflexivity.
Qed.
Lemma perm_length (T I0 : list nat) : NoDup I0 -> NoDup T -> (forall x, In x T <-> In x I0) -> length T = length I0.
Proof. intros N1 N2 E. apply Nat.le_antisymm; apply NoDup_incl_length; auto; intros x Hx; now apply E. Qed.
Lemma is_perm1_pos T I0 : NoDup I0 -> NoDup T -> (forall x, In x T <-> In x I0) ->
  is_perm1 (map S (map (fun x => pos_of x I0) T)) (length I0) = true.
Proof.
  intros N1 N2 E. unfold is_perm1. rewrite !map_length, (perm_length T I0 N1 N2 E), Nat.eqb_refl. cbn [andb].
  apply forallb_forall. intros k Hk. apply in_seq in Hk. apply mem_In. apply in_map_iff. exists (k - 1)%nat. split; [lia|].
  apply in_map_iff. exists (nth (k - 1) I0 0%nat). split; [apply pos_of_nth; auto; lia|]. apply E. apply nth_In. lia.
Qed.
Lemma do_reorder_perm T I0 calls : NoDup I0 -> NoDup T -> (forall x, In x T <-> In x I0) ->
  do_reorder T (mkSt I0 calls true) = mkSt T (simple_call (F:=R) F_reorder_pops [] (map (fun c => S (pos_of c I0)) T) [] :: calls) true.
Proof.
  intros N1 N2 E. unfold do_reorder. cbn [s_ids]. rewrite indices_of_pos by (intros x Hx; now apply E).
  rewrite is_perm1_pos by auto. unfold emit, set_ids. cbn [s_ids s_calls s_ok]. now rewrite map_map.
Qed.

(** ** one round of events on the axes in creation order *)
Definition I_after (next : nat) (N : list nat) (e : sev R) (I0 : list nat) : list nat :=
  match e with
  | SNone => map (fun p => (next + pos_of p N)%nat) I0
  | SSplit _ => I0 ++ [next]
  | SRemove k => remove_nth (pos_of (nth1 k N) I0) I0
  | _ => I0
  end.
Definition ev_ecalls (next : nat) (N : list nat) (e : sev R) : list (call R) :=
  match e with SNone => [] | _ => ev_scalls next N e end.

Lemma replace_at (ids : list nat) p c : NoDup ids -> In p ids ->
  firstn (pos_of p ids) ids ++ [c] ++ skipn (S (pos_of p ids)) ids = map (fun x => if Nat.eqb x p then c else x) ids.
Proof.
  unfold pos_of. induction ids as [|y ids IH]; intros N Hp; [destruct Hp|]. inversion N as [|? ? N1 N2]; subst.
  cbn [index_of map]. destruct (Nat.eqb p y) eqn:E.
  - apply Nat.eqb_eq in E. subst y. rewrite Nat.eqb_refl. cbn [firstn skipn app]. f_equal.
    symmetry. erewrite map_ext_in; [apply map_id|]. intros z Hz. cbn beta. destruct (Nat.eqb z p) eqn:E'; auto.
    apply Nat.eqb_eq in E'. subst. contradiction.
  - destruct Hp as [->|Hp]; [rewrite Nat.eqb_refl in E; discriminate|]. rewrite Nat.eqb_sym, E.
    destruct (index_of_In _ _ Hp) as [j Ej]. rewrite Ej in *. cbn [option_map firstn skipn app]. f_equal. apply IH; auto.
Qed.

Fixpoint assoc_c (x : nat) (pairs : list (nat * nat)) : nat :=
  match pairs with [] => x | pc :: r => if Nat.eqb x (fst pc) then snd pc else assoc_c x r end.

Lemma rename_gen now calls : forall pairs ids, NoDup ids -> NoDup (map fst pairs) ->
  (forall pc, In pc pairs -> In (fst pc) ids /\ ~ In (snd pc) ids /\ ~ In (snd pc) (map fst pairs)) ->
  NoDup (map snd pairs) ->
  fold_left (fun s ev => apply_event ev s)
            (map (@snd R (event R)) (map (fun pc => (now, ESplit (F:=R) (fst pc) [snd pc])) pairs)) (mkSt ids calls true)
  = mkSt (map (fun x => assoc_c x pairs) ids) calls true.
Proof.
  induction pairs as [|[p c] pairs IH]; intros ids N Np K Nc; cbn [map fold_left fst snd assoc_c].
  - now rewrite map_id.
  - inversion Np as [|? ? Np1 Np2]; subst. inversion Nc as [|? ? Nc1 Nc2]; subst.
    destruct (K (p, c) (or_introl eq_refl)) as (Kp & Kc & Kc'). cbn [fst snd] in *.
    unfold apply_event at 2. cbn [s_ok negb s_ids]. destruct (pos_of_In p ids Kp) as (Ei & _). rewrite Ei.
    unfold set_ids. cbn [s_calls s_ok]. rewrite replace_at by auto.
    rewrite IH; auto.
    + f_equal. rewrite map_map. apply map_ext_in. intros x Hx. destruct (Nat.eqb x p) eqn:E; auto.
      clear - Kc'. induction pairs as [|[p' c'] r IHr]; cbn [assoc_c fst snd]; auto.
      destruct (Nat.eqb c p') eqn:E'; [apply Nat.eqb_eq in E'; exfalso; apply Kc'; cbn; auto|]. apply IHr. intros H. apply Kc'. cbn in H |- *. tauto.
    + apply NoDup_map_inj_in; auto. intros x y Hx Hy. destruct (Nat.eqb x p) eqn:Ex, (Nat.eqb y p) eqn:Ey; intros E.
      * apply Nat.eqb_eq in Ex, Ey. congruence.
      * subst y. contradiction.
      * subst x. contradiction.
      * exact E.
    + intros [p' c'] Hpc. destruct (K (p', c') (or_intror Hpc)) as (K1 & K2 & K3). cbn [fst snd] in *. repeat split.
      * apply in_map_iff. exists p'. split; auto. destruct (Nat.eqb p' p) eqn:E; auto. apply Nat.eqb_eq in E. subst.
        exfalso. apply Np1. apply in_map_iff. exists (p, c'). auto.
      * intros H. apply in_map_iff in H as (x & Ex & Hx). destruct (Nat.eqb x p) eqn:E.
        -- subst c'. apply Nc1. apply in_map_iff. exists (p', c). auto.
        -- subst x. contradiction.
      * intros H. apply K3. now right.
Qed.

Lemma assoc_combine N next x : NoDup N -> In x N -> assoc_c x (combine N (seq next (length N))) = (next + pos_of x N)%nat.
Proof.
  unfold pos_of. revert next. induction N as [|y N IH]; intros next ND Hx; [destruct Hx|]. inversion ND as [|? ? N1 N2]; subst.
  cbn [length seq combine assoc_c fst snd index_of]. destruct (Nat.eqb x y) eqn:E; [lia|].
  destruct Hx as [->|Hx]; [rewrite Nat.eqb_refl in E; discriminate|]. rewrite IH by auto.
  destruct (index_of_In _ _ Hx) as [j Ej]. rewrite Ej. cbn [option_map]. lia.
Qed.

Lemma fold_set_nth_gen : forall (pairs : list (nat * R)) l0, NoDup (map fst pairs) ->
  Forall (fun p => (fst p < length l0)%nat) pairs ->
  let res := fold_left (fun l ip => set_nth (fst ip) (snd ip) l) pairs l0 in
  length res = length l0 /\
  forall j, nth j res 0 = match find (fun p => Nat.eqb (fst p) j) pairs with Some p => snd p | None => nth j l0 0 end.
Proof.
  induction pairs as [|[i v] r IH]; intros l0 N F; cbn zeta; cbn [fold_left find fst snd]; [split; auto|].
  inversion N as [|? ? N1 N2]; subst. apply Forall_cons_iff in F as [Fi Fr]. cbn [fst] in Fi.
  destruct (IH (set_nth i v l0) N2) as [I1 I2].
  { eapply Forall_impl; [|exact Fr]. intros a. now rewrite set_nth_length. }
  cbn zeta in I1, I2. split; [now rewrite I1, set_nth_length|]. intros j. rewrite I2.
  destruct (Nat.eqb i j) eqn:E.
  - apply Nat.eqb_eq in E. subst j. destruct (find (fun p => Nat.eqb (fst p) i) r) as [p|] eqn:Ef.
    + exfalso. apply find_some in Ef as [Hp Ep]. apply Nat.eqb_eq in Ep. apply N1. rewrite <- Ep. now apply in_map.
    + rewrite nth_set_nth, Nat.eqb_refl. apply Nat.ltb_lt in Fi. now rewrite Fi.
  - destruct (find (fun p => Nat.eqb (fst p) j) r); auto. rewrite nth_set_nth. rewrite Nat.eqb_sym, E. reflexivity.
Qed.

Lemma admix_props_sorted (props : list R) N I0 : NoDup N -> NoDup I0 -> (forall x, In x I0 <-> In x N) -> length props = length N ->
  sorted_props (map (fun i => nth i props 0) (nz_idx props)) (map (fun x => pos_of x I0) (map (fun i => nth i N 0%nat) (nz_idx props)))
               None (length I0)
  = map (fun x => nth (pos_of x N) props 0) I0.
Proof.
  intros ND NI E Lp. assert (LI : length I0 = length N) by (apply perm_length; auto).
  unfold sorted_props. cbv beta iota zeta. change (@n0 R NumR) with 0.
  set (g := fun i => pos_of (nth i N 0%nat) I0).
  assert (Ec : combine (map (fun x => pos_of x I0) (map (fun i => nth i N 0%nat) (nz_idx props))) (map (fun i => nth i props 0) (nz_idx props))
               = map (fun i => (g i, nth i props 0)) (nz_idx props)).
  { rewrite map_map. induction (nz_idx props); cbn; auto. now rewrite IHl. }
  rewrite Ec.
  assert (Ginj : forall i i', (i < length N)%nat -> (i' < length N)%nat -> g i = g i' -> i = i').
  { intros i i' Li Li' Eg. unfold g in Eg.
    assert (H1 : In (nth i N 0%nat) I0) by (apply E, nth_In; auto). assert (H2 : In (nth i' N 0%nat) I0) by (apply E, nth_In; auto).
    destruct (pos_of_In _ _ H1) as (_ & _ & E1). destruct (pos_of_In _ _ H2) as (_ & _ & E2). rewrite Eg in E1. rewrite E1 in E2.
    rewrite (NoDup_nth N 0%nat) in ND. apply ND; auto. }
  destruct (fold_set_nth_gen (map (fun i => (g i, nth i props 0)) (nz_idx props)) (repeat 0 (length I0))) as [L1 L2].
  - rewrite map_map. cbn [fst]. apply NoDup_map_inj_in; [|unfold nz_idx; apply NoDup_filter, seq_NoDup].
    intros i i' Hi Hi'. apply nz_idx_lt in Hi, Hi'. apply Ginj; lia.
  - apply Forall_forall. intros p Hp. apply in_map_iff in Hp as (i & <- & Hi). cbn [fst]. rewrite repeat_length. unfold g.
    apply nz_idx_lt in Hi. apply pos_of_In. apply E, nth_In. lia.
  - cbn zeta in L1, L2. rewrite repeat_length in L1.
    apply nth_ext with (d := 0) (d' := 0); [now rewrite L1, map_length|]. intros j Lj. rewrite L1 in Lj. rewrite L2.
    rewrite (nth_indep (map (fun x => nth (pos_of x N) props 0) I0) 0 ((fun x => nth (pos_of x N) props 0) 0%nat)) by (now rewrite map_length).
    rewrite (map_nth (fun x => nth (pos_of x N) props 0)).
    assert (Hj : In (nth j I0 0%nat) N) by (apply E, nth_In; auto). destruct (pos_of_In _ _ Hj) as (_ & Li0 & Ei0).
    set (i0 := pos_of (nth j I0 0%nat) N) in *.
    assert (Gi0 : g i0 = j). { unfold g. rewrite Ei0. apply pos_of_nth; auto. }
    destruct (find (fun p => Nat.eqb (fst p) j) (map (fun i => (g i, nth i props 0)) (nz_idx props))) as [p|] eqn:Ef.
    + apply find_some in Ef as [Hp Ep]. apply in_map_iff in Hp as (i & <- & Hi). cbn [fst snd] in *. apply Nat.eqb_eq in Ep.
      apply nz_idx_lt in Hi. assert (Ei : i = i0) by (apply Ginj; try lia; congruence). now rewrite Ei.
    + assert (Z : mem i0 (nz_idx props) = false).
      { apply mem_false. intros Hi. pose proof (find_none _ _ Ef (g i0, nth i0 props 0)) as K. cbn [fst] in K. rewrite Gi0, Nat.eqb_refl in K.
        assert (Hin : In (j, nth i0 props 0) (map (fun i => (g i, nth i props 0)) (nz_idx props))).
        { apply in_map_iff. exists i0. split; auto. now rewrite Gi0. }
        specialize (K Hin). discriminate K. }
      rewrite mem_nz_idx in Z. assert (Lt : Nat.ltb i0 (length props) = true) by (apply Nat.ltb_lt; lia). rewrite Lt in Z. cbn [andb] in Z.
      apply negb_false_iff in Z. apply Reqb_true in Z. rewrite Z. clear. revert j. induction (length I0); intros [|j]; cbn; auto.
Qed.

Lemma map_fst_combine {A B} (l1 : list A) (l2 : list B) : length l1 = length l2 -> map fst (combine l1 l2) = l1.
Proof. revert l2. induction l1; destruct l2; cbn; intros L; auto; try discriminate. f_equal. apply IHl1. lia. Qed.
Lemma map_snd_combine {A B} (l1 : list A) (l2 : list B) : length l1 = length l2 -> map snd (combine l1 l2) = l2.
Proof. revert l2. induction l1; destruct l2; cbn; intros L; auto; try discriminate. f_equal. apply IHl1. lia. Qed.

Lemma apply_round_s now next N calls (e : sev R) : okids N next -> ev_okr (length N) e -> (ev_dim (length N) e <= 5)%nat ->
  fold_left (fun s ev => apply_event ev s) (round_events now next N e) (mkSt (srt next N) calls true)
  = mkSt (I_after next N e (srt next N)) (rev (ev_ecalls next N e) ++ calls) true.
Proof.
  intros [ND B] K D. set (I0 := srt next N).
  assert (NI : NoDup I0) by apply srt_NoDup. assert (EI : forall x, In x I0 <-> In x N) by (intros x; apply srt_In; auto).
  assert (LI : length I0 = length N) by (apply perm_length; auto).
  unfold round_events. destruct e as [|props|srcs dst props|k|ord]; cbn [ev_events I_after ev_ecalls ev_scalls ev_dim ev_okr ev_ok] in *; fold I0.
  - (* new era *)
    rewrite app_nil_r. cbn [rev app]. rewrite rename_gen; auto.
    + f_equal. apply map_ext_in. intros x Hx. apply assoc_combine; auto. now apply EI.
    + rewrite map_fst_combine; auto. now rewrite seq_length.
    + intros [p c] Hpc. pose proof (in_combine_l _ _ _ _ Hpc) as Hp. pose proof (in_combine_r _ _ _ _ Hpc) as Hc. apply in_seq in Hc.
      cbn [fst snd]. repeat split.
      * now apply EI.
      * intros H. apply EI, B in H. lia.
      * intros H. apply in_map_iff in H as ([p' c'] & E' & H'). cbn [fst] in E'. subst p'. apply in_combine_l in H'. apply B in H'. lia.
    + rewrite map_snd_combine; [apply seq_NoDup|now rewrite seq_length].
  - (* Split record *)
    rewrite app_nil_r. destruct K as (Lp & L4 & Nz & Ku). cbn [map snd fold_left].
    assert (Fnz : Forall (fun i => (i < length N)%nat) (nz_idx props)).
    { apply Forall_forall. intros i Hi. apply nz_idx_lt in Hi. lia. }
    assert (Fresh : mem next I0 = false). { apply mem_false. intros Hin. apply EI, B in Hin. lia. }
    destruct (nz_idx props) as [|i [|i2 nz]] eqn:Enz; [congruence| |].
    + cbn [map]. unfold apply_event. cbn [s_ok negb s_ids]. unfold do_split. cbn [s_ids].
      apply Forall_cons_iff in Fnz as [Li _].
      assert (Hp : In (nth i N 0%nat) I0) by (apply EI, nth_In; auto). destruct (pos_of_In _ _ Hp) as (Ei & Lpos & Epos). rewrite Ei.
      assert (L5 : Nat.leb 5 (length I0) = false) by (apply Nat.leb_gt; lia). rewrite L5.
      replace (firstn (pos_of (nth i N 0%nat) I0) I0 ++ [nth i N 0%nat] ++ skipn (S (pos_of (nth i N 0%nat) I0)) I0 ++ [next]) with (I0 ++ [next]).
      2:{ rewrite <- (firstn_nth_skipn I0 _ Lpos) at 1. rewrite Epos. now rewrite <- !app_assoc. }
      rewrite emits_calls. unfold set_ids. cbn [s_ids s_calls s_ok]. now rewrite LI.
    + set (nzl := i :: i2 :: nz) in *. cbn [map]. fold nzl.
      change (map (fun i0 => nth i0 N 0%nat) nzl) with (nth i N 0%nat :: nth i2 N 0%nat :: map (fun i0 => nth i0 N 0%nat) nz).
      cbv iota. change (nth i N 0%nat :: nth i2 N 0%nat :: map (fun i0 => nth i0 N 0%nat) nz) with (map (fun i0 => nth i0 N 0%nat) nzl).
      unfold apply_event. cbn [s_ok negb s_ids]. rewrite Fresh.
      assert (L5 : Nat.ltb 5 (length (I0 ++ [next])) = false). { apply Nat.ltb_ge. rewrite app_length. cbn. lia. }
      rewrite L5. rewrite indices_of_pos.
      2:{ intros x Hx. apply in_map_iff in Hx as (j & <- & Hj). rewrite Forall_forall in Fnz. apply EI, nth_In. auto. }
      assert (Epl : sorted_props (map (fun i0 => nth i0 props n0) nzl) (map (fun x => pos_of x I0) (map (fun i0 => nth i0 N 0%nat) nzl)) None (length I0)
                    = map (fun x => nth (pos_of x N) props n0) I0).
      { rewrite <- Enz. apply admix_props_sorted; auto. }
      rewrite Epl. unfold admix_calls. rewrite <- LI.
      destruct (length I0) as [|[|[|[|[|d]]]]] eqn:Ed; try lia; rewrite ?emits_calls; unfold set_ids; cbn [s_ids s_calls s_ok emits fold_left rev app]; reflexivity.
  - (* Pulse record *)
    rewrite app_nil_r. destruct K as (L2 & Ns & Lp & Ld & Fs & NDs & Fp). cbn [map snd fold_left].
    unfold apply_event. cbn [s_ok negb s_ids].
    rewrite indices_of_pos.
    2:{ intros x Hx. apply in_map_iff in Hx as (k & <- & Hk). rewrite Forall_forall in Fs. specialize (Fs k Hk). apply EI, nth_In. lia. }
    assert (Hd : In (nth1 dst N) I0) by (apply EI, nth_In; lia). destruct (pos_of_In _ _ Hd) as (Ed & _). rewrite Ed.
    assert (E2 : (Nat.leb 2 (length N) && Nat.leb (length N) 5)%bool = true).
    { apply andb_true_intro. split; apply Nat.leb_le; lia. }
    rewrite E2, map_map. unfold emit. cbn [s_ids s_calls s_ok rev app]. rewrite LI.
    destruct (length N) as [|[|[|[|[|[|d]]]]]] eqn:Edd; try lia; reflexivity.
  - (* Remove record *)
    cbn [map app fold_left]. destruct K as [K2 Kk]. unfold apply_event. cbn [s_ok negb s_ids].
    assert (Hx : In (nth1 k N) I0) by (apply EI, nth_In; lia). destruct (pos_of_In _ _ Hx) as (Ex & _). rewrite Ex.
    unfold emit, set_ids. cbn [s_ids s_calls s_ok rev app]. reflexivity.
  - (* Reorder record: nothing in the graph *)
    reflexivity.
Qed.

(** the axes after the events of a round are those of the next window, except at a new era, where they are a
    permutation of them *)
Lemma I_after_target next N (e : sev R) : okids N next -> ev_okr (length N) e ->
  let T := srt (ev_next next N e) (ev_ids next N e) in
  let I1 := I_after next N e (srt next N) in
  NoDup I1 /\ (forall x, In x T <-> In x I1) /\ match e with SNone => True | _ => I1 = T end.
Proof.
  intros [ND B] K. cbv zeta. set (I0 := srt next N).
  assert (NI : NoDup I0) by apply srt_NoDup. assert (EI : forall x, In x I0 <-> In x N) by (intros x; apply srt_In; auto).
  assert (Eq : match e with SNone => True | _ => I_after next N e I0 = srt (ev_next next N e) (ev_ids next N e) end).
  { destruct e as [|props|srcs dst props|k|ord]; cbn [I_after ev_ids ev_next ev_okr ev_ok] in *; auto.
    - symmetry. now apply srt_snoc.
    - destruct K as [K2 Kk]. unfold nth1. symmetry. apply srt_remove; auto. lia.
    - symmetry. apply srt_ext. intros x. destruct (reorder_ids_spec _ _ K ND) as (_ & _ & Sp). apply Sp. }
  destruct e as [|props|srcs dst props|k|ord]; try (rewrite Eq; split; [apply srt_NoDup|split; [tauto|reflexivity]]).
  cbn [I_after ev_ids ev_next]. fold I0. split; [|split; auto].
  - apply NoDup_map_inj_in; auto. intros x y Hx Hy E. apply EI in Hx, Hy.
    destruct (pos_of_In _ _ Hx) as (_ & _ & E1). destruct (pos_of_In _ _ Hy) as (_ & _ & E2).
    assert (pos_of x N = pos_of y N) by lia. congruence.
  - intros x. rewrite srt_In by (intros y Hy; apply in_seq in Hy; lia). rewrite in_seq, in_map_iff. split.
    + intros Hx. exists (nth (x - next) N 0%nat). split; [rewrite pos_of_nth by (auto; lia); lia|]. apply EI, nth_In. lia.
    + intros (p & <- & Hp). apply EI in Hp. destruct (pos_of_In _ _ Hp) as (_ & Lp & _). lia.
Qed.

Definition icall_s (n : nat) (ar : arnd R) : list (call R) :=
  if (n0 <? rawT (win ar))%num then
    match int_fname (length (ids_of ar)) with
    | Some f =>
      let ids := ids_of ar in let L := srt n ids in
      [mkCall f (rawT (win ar))
              (make_nu_func (map (fun x => nth (pos_of x ids) (sg_sizes (ar_stage ar)) (1, 1, SConstant)) L) (rawT (win ar)) 1)
              (map (fun ab => nth (pos_pair (pos_of (nth (fst ab) L 0%nat) ids, pos_of (nth (snd ab) L 0%nat) ids) (offdiag (length ids)))
                              (sg_mig (ar_stage ar)) 0) (offdiag (length ids)))
              (repeat false (length ids)) [] L]
    | None => []
    end
  else [].

Lemma scan_next_births l : forall next ids P (ar : arnd R) Q, scan next ids l = P ++ ar :: Q ->
  ar_next ar = (next + length (births_of (P ++ [ar])))%nat.
Proof.
  induction l as [|rb l IH]; intros next ids P ar Q E; [destruct P; discriminate|].
  cbn [scan] in E. pose proof (ev_next_ge next ids (r_ev (fst rb))) as Hge.
  assert (Lb : length (ar_births (annotate next ids rb)) = (ev_next next ids (r_ev (fst rb)) - next)%nat)
    by (cbn [annotate ar_births]; apply ev_births_len).
  change (ar_next (annotate next ids rb)) with (ev_next next ids (r_ev (fst rb))) in *.
  destruct P as [|p P]; cbn [app] in E; injection E as <- E.
  - unfold births_of. cbn [app flat_map]. rewrite app_nil_r, Lb.
    change (ar_next (annotate next ids rb)) with (ev_next next ids (r_ev (fst rb))). lia.
  - rewrite (IH _ _ _ _ _ E). unfold births_of. cbn [app flat_map]. rewrite app_length, Lb.
    fold (births_of (P ++ [ar])). lia.
Qed.
Lemma log_next_le (lg : elog R) P ar Q : annotated lg = P ++ ar :: Q -> (ar_next ar <= n_demes lg)%nat.
Proof.
  intros E. unfold n_demes. rewrite E. unfold annotated in E.
  assert (L : ar_next ar = length (births_of (P ++ [ar]))).
  { destruct P as [|p P]; cbn [app] in E; injection E as <- E; [reflexivity|].
    rewrite (scan_next_births _ _ _ _ _ _ E). unfold births_of. cbn [app flat_map init_ar ar_births length]. reflexivity. }
  rewrite L. unfold births_of. rewrite !flat_map_app. cbn [flat_map]. rewrite !app_length. cbn [length]. lia.
Qed.

Section RunS.
  Variable lg : elog R.
  Hypothesis Hok : log_okr lg.
  Let ann := annotated lg.
  Let G := raw_graph lg.
  Let fin := final_ids lg.
  Let n := n_demes lg.
  Let evs := raw_events lg ++ marg_events G fin.
  Let steps := map (rawstep G) (map win ann).

  Lemma step_one_s P ar Q ids0 calls : ann = P ++ ar :: Q -> (ids0 = srt n (ids_of ar) \/ ids0 = []) ->
    exists E, (match Q with nx :: _ => E = ev_scalls (ar_next ar) (ids_of ar) (ar_ev nx) | [] => E = [] end) /\
    run_step std_wirings steps evs (rawstep G (win ar)) (mkSt ids0 calls true)
    = mkSt (srt n (ids_of (hd ar Q))) (rev E ++ rev (icall_s n ar) ++ calls) true.
  Proof.
    intros E Hids0. destruct (log_facts_r lg Hok) as (F1 & F2 & F3 & F4 & F5 & F6).
    pose proof (log_chain_r lg Hok) as C. fold ann in C, F1, F2, F3, F4, F5, F6.
    assert (Lf : forall id, (id < length (births_of ann))%nat -> life ann id (b_start (nth id (births_of ann) dbirth)))
      by (intros id H; exact (log_life_r lg Hok id H)).
    assert (Har : In ar ann) by (rewrite E; apply in_or_app; right; now left).
    pose proof F6 as F6'. rewrite Forall_forall in F6'. destruct (F6' _ Har) as (Ld & Ls & Lm).
    pose proof F2 as F2'. rewrite Forall_forall in F2'. destruct (F2' _ Har) as (Aar & Nar).
    destruct (integ_srt ann Inf C Lf F1 F2 ar Har Ld Ls Lm) as (Elive & Eiv & ET & f & Ef & Ecall). cbv zeta in *.
    change (raw_graph_of ann) with G in Elive, Eiv, ET, Ecall. change (length (births_of ann)) with n in Elive, Ecall.
    assert (Nn : srt n (ids_of ar) <> []).
    { destruct (ids_of ar) as [|x r] eqn:Ex; [congruence|]. intros K.
      assert (Hx : In x (srt n (x :: r))) by (apply srt_In; [apply Aar|now left]). rewrite K in Hx. destruct Hx. }
    unfold run_step. cbn [s_ok negb s_ids]. rewrite Elive, Eiv, ET.
    assert (E0 : (if is_nil ids0 then set_ids (srt n (ids_of ar)) (mkSt ids0 calls true) else mkSt ids0 calls true)
                 = mkSt (srt n (ids_of ar)) calls true).
    { destruct Hids0 as [->| ->]; [destruct (srt n (ids_of ar)); [congruence|reflexivity]|reflexivity]. }
    rewrite E0. cbn [s_ids].
    assert (E1 : (if (n0 <? rawT (win ar))%num
                  then emits (integ_calls std_wirings (srt n (ids_of ar)) (rawT (win ar)) (st_nus (rawstep G (win ar))) (st_M (rawstep G (win ar))) (st_fr (rawstep G (win ar)))) (mkSt (srt n (ids_of ar)) calls true)
                  else mkSt (srt n (ids_of ar)) calls true) = mkSt (srt n (ids_of ar)) (rev (icall_s n ar) ++ calls) true).
    { unfold icall_s. rewrite <- ET at 2. rewrite Ecall. destruct (n0 <? rawT (win ar))%num; [|reflexivity]. rewrite Ef, emits_calls. reflexivity. }
    rewrite E1. change (snd (win ar)) with (Fin (b_of ar)).
    unfold evs. rewrite events_at_app. change (raw_events lg) with (raw_events_of ann). unfold fin. rewrite (fin_last lg). fold ann.
    rewrite (raw_events_at ann Inf C Lf F1 F2 F3 (ltac:(unfold ann, annotated; discriminate)) F4 F5 P ar Q E).
    unfold G, raw_graph. fold ann.
    rewrite (marg_at ann Inf C Lf F1 F2 (log_step_r lg Hok) (log_gone_r lg Hok) P ar Q E).
    destruct Q as [|nx Q'].
    - exists []. split; auto. cbn [hd ar_evs dar map app marg_expected fold_left s_ok negb rev].
      assert (Eb : b_of ar = 0). { rewrite <- (last_b lg). fold ann. rewrite E, last_app_cons. reflexivity. }
      rewrite Eb. change (@n0 R NumR) with 0. rewrite tleb_refl. reflexivity.
    - destruct (log_step_next lg Hok P ar nx Q' E) as (next & rb & Enx & An & Kr & Enext). pose proof Kr as (Kev & K5 & KT & Ks & Km & Kc).
      assert (Hnx : In nx ann) by (rewrite E; apply in_or_app; right; right; now left).
      exists (ev_scalls next (ids_of ar) (r_ev (fst rb))). cbn [hd].
      assert (Ea : a_of nx = Fin (b_of ar)).
      { rewrite E in C. apply achain_app in C as [top' C]. destruct C as (_ & _ & C1 & _). exact C1. }
      split; [rewrite <- Enext; rewrite Enx at 1; reflexivity|].
      assert (Eev : map snd (ar_evs nx) ++ marg_expected ar (nx :: Q')
                    = round_events (snd rb + r_T (fst rb))%num next (ids_of ar) (r_ev (fst rb))).
      { unfold round_events, marg_expected. rewrite Enx. cbn [annotate ar_evs ar_ev]. reflexivity. }
      rewrite Eev.
      assert (Hn : (next <= n)%nat) by (rewrite Enext; apply (log_next_le lg P ar (nx :: Q') E)).
      assert (Esrt : srt n (ids_of ar) = srt next (ids_of ar)) by (apply srt_bound; [apply An|exact Hn]).
      rewrite Esrt, apply_round_s; auto. cbn [s_ok negb s_ids].
      assert (Cn : achain Inf ((P ++ [ar]) ++ nx :: Q')) by (rewrite <- app_assoc; cbn [app]; rewrite <- E; exact C).
      assert (Hl : In (last ann dar) (nx :: Q')).
      { rewrite E, last_app_cons. change (last (ar :: nx :: Q') dar) with (last (nx :: Q') dar). apply last_In. discriminate. }
      destruct (chain_split _ _ _ ar (last ann dar) Cn) as (_ & O & _); [apply in_or_app; right; now left|auto|].
      unfold ann in O. rewrite (last_b lg) in O. fold ann in O.
      change (@n0 R NumR) with 0. unfold tlt in O. cbn [tleb] in O. cbn [tleb]. rewrite O.
      unfold steps. rewrite map_map. rewrite E at 1.
      replace (P ++ ar :: nx :: Q') with ((P ++ [ar]) ++ nx :: Q') by (now rewrite <- app_assoc).
      rewrite (find_map_at (fun x => teqb (fst (st_iv x)) (Fin (b_of ar))) (fun y => rawstep G (win y)) (P ++ [ar]) nx Q').
      2:{ intros y Hy. unfold rawstep. cbn [st_iv fst win].
          apply in_app_or in Hy as [Hy|[<-|[]]].
          - rewrite E in C. destruct (chain_split _ _ _ y ar C Hy) as (_ & _ & O'); [now left|]. apply tlt_neq2.
            eapply tlt_trans; [|exact O']. apply (achain_in _ _ ar C). apply in_or_app. right. now left.
          - apply tlt_neq2. apply (achain_in _ _ ar C Har). }
      2:{ unfold rawstep. cbn [st_iv fst win]. rewrite Ea. apply teqb_refl. }
      assert (Elive' : st_live (rawstep G (win nx)) = srt n (ids_of nx)).
      { unfold rawstep. cbn [st_live]. unfold G, raw_graph. fold ann. apply (present_srt ann Inf C Lf F1 nx Hnx). }
      rewrite Elive'.
      assert (Eids : ids_of nx = ev_ids next (ids_of ar) (r_ev (fst rb))) by (rewrite Enx at 1; apply annotate_ids).
      assert (Enn : ar_next nx = ev_next next (ids_of ar) (r_ev (fst rb))) by (rewrite Enx at 1; apply annotate_next).
      pose proof (ev_ids_okids next (ids_of ar) _ An Kev) as An'.
      assert (Hn' : (ev_next next (ids_of ar) (r_ev (fst rb)) <= n)%nat).
      { rewrite <- Enn. apply (log_next_le lg (P ++ [ar]) nx Q'). fold ann. rewrite E. now rewrite <- app_assoc. }
      assert (ET' : srt n (ids_of nx) = srt (ev_next next (ids_of ar) (r_ev (fst rb))) (ev_ids next (ids_of ar) (r_ev (fst rb)))).
      { rewrite Eids. apply srt_bound; [apply An'|exact Hn']. }
      rewrite ET'.
      destruct (I_after_target next (ids_of ar) (r_ev (fst rb)) An Kev) as (N1 & EI1 & Eq1). cbv zeta in N1, EI1, Eq1.
      destruct (r_ev (fst rb)) as [|props|srcs dst props|k|ord] eqn:Ere;
        try (rewrite Eq1, list_eqb_refl; cbn [ev_ecalls]; reflexivity).
      (* a new era *)
      cbn [ev_ecalls ev_scalls rev app I_after ev_ids ev_next] in *.
      assert (Etgt : srt (next + length (ids_of ar)) (seq next (length (ids_of ar))) = seq next (length (ids_of ar))).
      { apply srt_asc. eapply asc_weaken; [| |apply asc_seq]; lia. }
      rewrite Etgt in *.
      destruct (list_eqb (map (fun p => (next + pos_of p (ids_of ar))%nat) (srt next (ids_of ar))) (seq next (length (ids_of ar)))) eqn:El.
      + apply list_eqb_eq in El. rewrite El. reflexivity.
      + rewrite do_reorder_perm; auto; try apply seq_NoDup.
  Qed.

  Fixpoint exp_calls (prev : arnd R) (Q : list (arnd R)) : list (call R) :=
    match Q with
    | [] => []
    | nx :: Q' => ev_scalls (ar_next prev) (ids_of prev) (ar_ev nx) ++ icall_s n nx ++ exp_calls nx Q'
    end.

  Lemma run_suffix_s : forall Q P ar ids0 calls, ann = P ++ ar :: Q -> (ids0 = srt n (ids_of ar) \/ ids0 = []) ->
    fold_left (fun s stp => run_step std_wirings steps evs stp s) (map (rawstep G) (map win (ar :: Q))) (mkSt ids0 calls true)
    = mkSt (srt n fin) (rev (icall_s n ar ++ exp_calls ar Q) ++ calls) true.
  Proof.
    induction Q as [|nx Q IH]; intros P ar ids0 calls E H0; cbn [map fold_left].
    - destruct (step_one_s P ar [] ids0 calls E H0) as (E' & -> & ->). cbn [hd rev app exp_calls]. rewrite app_nil_r.
      unfold fin. rewrite (fin_last lg). fold ann. rewrite E, last_app_cons. reflexivity.
    - destruct (step_one_s P ar (nx :: Q) ids0 calls E H0) as (E' & Ec & ->). cbn [hd].
      change (fold_left (fun s stp => run_step std_wirings steps evs stp s) (map (rawstep G) (map win (nx :: Q)))
                {| s_ids := srt n (ids_of nx); s_calls := rev E' ++ rev (icall_s n ar) ++ calls; s_ok := true |}
              = mkSt (srt n fin) (rev (icall_s n ar ++ exp_calls ar (nx :: Q)) ++ calls) true).
      rewrite (IH (P ++ [ar]) nx (srt n (ids_of nx))); auto.
      + cbn [exp_calls]. rewrite Ec. f_equal. rewrite !rev_app_distr, <- !app_assoc. reflexivity.
      + rewrite <- app_assoc. exact E.
  Qed.

  Lemma run_all_s calls : run_steps std_wirings steps evs (mkSt [] calls true)
    = mkSt (srt n fin) (rev (icall_s n (init_ar lg) ++ exp_calls (init_ar lg) (scan 1 [0%nat] (timed (l_rounds lg)))) ++ calls) true.
  Proof.
    unfold run_steps. exact (run_suffix_s (scan 1 [0%nat] (timed (l_rounds lg))) [] (init_ar lg) [] calls eq_refl (or_intror eq_refl)).
  Qed.

  Lemma wf_raw_r : wf_graph G.
  Proof.
    intros d Hd. unfold G, raw_graph in Hd.
    rewrite (g_demes_raw (annotated lg)) in Hd. apply in_map_iff in Hd as (id & <- & Hid). apply in_seq in Hid.
    destruct (deme_life (annotated lg) (fun id H => log_life_r lg Hok id H) id) as (A1 & A2 & A3 & _ & N2 & _ & _ & _ & _ & Ee & _); [lia|].
    rewrite Ee. destruct A2; [congruence|discriminate].
  Qed.

  Lemma exp_calls_sscan l : forall next ids d prev, ar_next prev = next -> ids_of prev = ids -> okids ids next -> length ids = d ->
    lokr d l -> (fst (scan_end next ids l) <= n)%nat ->
    exp_calls prev (scan next ids l) = sscan next ids l.
  Proof.
    induction l as [|rb l IH]; intros next ids d prev En Ei A L K Hn; [reflexivity|].
    destruct K as [K1 K2]. cbn [map fst] in *. pose proof K1 as (Kev & K5 & KT & Ks & Km & Kc). subst d.
    pose proof (ev_ids_okids next ids _ A Kev) as A'. pose proof (ev_ids_len next ids _ Kev) as L'.
    cbn [scan exp_calls sscan scan_end] in *. rewrite En, Ei. cbn [annotate ar_ev]. f_equal.
    change (ar_next (annotate next ids rb)) with (ev_next next ids (r_ev (fst rb))).
    change (sg_ids (ar_stage (annotate next ids rb))) with (ev_ids next ids (r_ev (fst rb))).
    f_equal.
    - unfold icall_s, integ_scall.
      assert (ET : rawT (win (annotate next ids rb)) = r_T (fst rb)).
      { unfold rawT, win, a_of, b_of. cbn [annotate ar_stage sg_a sg_b fst snd tval]. numR. ring. }
      rewrite ET, KT. unfold ids_of. cbn [annotate ar_stage sg_ids sg_sizes sg_mig].
      pose proof (scan_end_ge l (ev_next next ids (r_ev (fst rb))) (ev_ids next ids (r_ev (fst rb)))) as Hge.
      rewrite (srt_bound n (ev_next next ids (r_ev (fst rb)))) by (try apply A'; lia). reflexivity.
    - eapply IH; eauto.
  Qed.

  Theorem export_import_reorder_raw N ns : 0 < N ->
    core std_wirings true (gmap (2 * N) N (/ (2 * N)) G) (evmap (2 * N) (raw_events lg)) fin [] (Some N) ns
    = sorted_calls lg ++ [simple_call F_from_phi [] ns fin].
  Proof.
    intros HN. destruct (log_facts_r lg Hok) as (F1 & F2 & F3 & F4 & F5 & F6).
    pose proof (log_chain_r lg Hok) as C. fold ann in C, F1, F2, F3, F4, F5, F6.
    assert (Lf : forall id, (id < length (births_of ann))%nat -> life ann id (b_start (nth id (births_of ann) dbirth)))
      by (intros id H; exact (log_life_r lg Hok id H)).
    assert (Nn : ann <> []) by (unfold ann, annotated; discriminate).
    unfold core. rewrite (core_run_export std_wirings true N G (raw_events lg) fin HN wf_raw_r).
    assert (EU : used_intervals G = map win ann) by (apply (used_intervals_raw ann Inf C Lf F1 F2 F3 Nn)).
    rewrite EU. rewrite existsb_none.
    2:{ intros iv Hiv. apply in_map_iff in Hiv as (ar & <- & Har). unfold G, raw_graph. fold ann.
        rewrite (present_srt ann Inf C Lf F1 ar Har). pose proof F6 as F6'. rewrite Forall_forall in F6'. destruct (F6' _ Har) as ((_ & L5) & _).
        pose proof F2 as F2'. rewrite Forall_forall in F2'. destruct (F2' _ Har) as (Aar & _).
        rewrite (srt_length ann _ Aar). apply Nat.ltb_ge. exact L5. }
    cbv zeta. fold steps. fold evs. rewrite run_all_s.
    unfold steps, ann, annotated. cbn [map hd]. fold ann.
    assert (Hinit : In (init_ar lg) ann) by (unfold ann, annotated; now left).
    pose proof F6 as F6'. rewrite Forall_forall in F6'. destruct (F6' _ Hinit) as (Ld & Ls & Lm).
    destruct (integ_srt ann Inf C Lf F1 F2 _ Hinit Ld Ls Lm) as (Elive & _). cbv zeta in Elive.
    change (raw_graph_of ann) with G in Elive. rewrite Elive.
    assert (Es0 : srt (length (births_of ann)) (ids_of (init_ar lg)) = [0%nat]).
    { unfold ids_of. cbn [init_ar ar_stage sg_ids]. apply srt_asc. cbn. change (length (births_of ann)) with (n_demes lg).
      pose proof (log_next_le lg [] (init_ar lg) (scan 1 [0%nat] (timed (l_rounds lg))) eq_refl) as Hl. cbn [init_ar ar_next] in Hl. lia. }
    rewrite Es0.
    assert (Enus : st_nus (rawstep G (win (init_ar lg))) = [SNum (l_nu lg / 1)]).
    { unfold rawstep. cbn [st_nus]. unfold G, raw_graph. fold ann. rewrite (present_srt ann Inf C Lf F1 _ Hinit), Es0.
      pose proof (sizes_list_raw ann Inf C Lf F2 _ Hinit Ls) as Esz. unfold ids_of in Esz. cbn [init_ar ar_stage sg_ids sg_sizes] in Esz.
      rewrite Esz. reflexivity. }
    rewrite Enus. cbn [sf_eval hd].
    (* the end of SFS *)
    unfold core_finish. cbn [s_ok s_ids s_calls].
    assert (Hl : In (last ann dar) ann) by (apply last_In; exact Nn).
    pose proof F2 as F2'. rewrite Forall_forall in F2'. destruct (F2' _ Hl) as ([NDf Bf] & _).
    assert (Ef : ids_of (last ann dar) = fin) by (unfold fin; now rewrite (fin_last lg)). rewrite Ef in NDf, Bf.
    fold n in Bf.
    rewrite indices_of_pos by (intros x Hx; apply srt_In; auto).
    rewrite is_perm1_pos; auto; [|apply srt_NoDup|intros x; symmetry; apply srt_In; auto].
    unfold emit. cbn [s_calls rev]. rewrite rev_app_distr, rev_involutive.
    assert (Ei : icall_s n (init_ar lg) = []).
    { unfold icall_s, rawT, win, a_of. cbn [init_ar ar_stage sg_a fst]. unfold nltb. numR.
      assert (Rleb 0 0 = true) by (apply Rleb_true; lra). now rewrite H. }
    rewrite Ei. cbn [app rev].
    rewrite (exp_calls_sscan (timed (l_rounds lg)) 1 [0%nat] 1 (init_ar lg) eq_refl eq_refl (okids0) eq_refl (log_lokr lg Hok)).
    2:{ unfold n, n_demes, births_of, annotated. cbn [flat_map init_ar ar_births app length]. rewrite scan_births_len.
        pose proof (scan_end_ge (timed (l_rounds lg)) 1 [0%nat]). lia. }
    unfold sorted_calls. replace (l_nu lg / 1) with (l_nu lg) by field. cbn [app]. rewrite <- !app_assoc. cbn [app]. rewrite map_map.
    reflexivity.
  Qed.
End RunS.

(** ** the theorem on the whole importer *)
Lemma final_demes_end_r (lg : elog R) : log_okr lg ->
  default_times (raw_graph lg) (final_ids lg) = map (fun _ => 0) (final_ids lg).
Proof.
  intros Hok. destruct (log_facts_r lg Hok) as (F1 & F2 & F3 & F4 & F5 & F6). pose proof (log_chain_r lg Hok) as C.
  set (ann := annotated lg) in *.
  assert (Lf : forall id, (id < length (births_of ann))%nat -> life ann id (b_start (nth id (births_of ann) dbirth)))
    by (intros id H; exact (log_life_r lg Hok id H)).
  assert (Nn : ann <> []) by (unfold ann, annotated; discriminate).
  assert (Hl : In (last ann dar) ann) by (apply last_In; exact Nn).
  pose proof (fin_last lg) as Ef. fold ann in Ef. pose proof (last_b lg) as Eb. fold ann in Eb.
  unfold default_times. apply map_ext_in. intros id Hid. rewrite Ef in Hid.
  pose proof F2 as F2'. rewrite Forall_forall in F2'. destruct (F2' _ Hl) as [A _]. pose proof (proj2 A _ Hid) as Lid.
  assert (Lid' : (id < length (births_of ann))%nat) by (unfold n_demes in Lid; fold ann in Lid; lia).
  unfold raw_graph. fold ann. rewrite (find_deme_raw ann id) by exact Lid'.
  destruct (deme_last ann Lf id Lid') as (t & Ht & Mt & Et).
  destruct (deme_span ann Inf C Lf id (last ann dar) Lid' Hl) as [_ S2]; [now apply mem_In|]. rewrite Eb in S2.
  rewrite Et in *. destruct (in_last_or _ _ dar Ht) as [->|(U & V & EV & HV)]; [exact Eb|].
  exfalso. assert (C' : achain Inf ((U ++ [t]) ++ V)) by (rewrite <- app_assoc; cbn [app]; rewrite <- EV; exact C).
  destruct (chain_split _ _ _ t (last ann dar) C') as (_ & O & _); [apply in_or_app; right; now left|auto|].
  rewrite Eb in O. unfold tlt in O. congruence.
Qed.

(** export_import_reorder: for every log of [log_okr] (the class of export_import_same_program plus reorder_pops
    records carrying a permutation), the re-imported program is the native program written with its populations in
    creation order ([sorted_calls]: every argument looked up by name, reorder_pops where a new era starts while the
    axes are out of creation order, and at the end to the final order of the program), then from_phi. *)
Theorem export_import_reorder : forall (lg : elog R) N gt ns new_ids sizes, log_okr lg -> 0 < N -> (forall k, gt = Some k -> 0 < k) ->
  front std_wirings true gt (export_model N gt lg) (final_ids lg) None new_ids sizes (export_events N gt lg) (Some N) ns
  = sorted_calls lg ++ [simple_call F_from_phi [] ns (final_ids lg)].
Proof.
  intros lg N gt ns new_ids sizes Hok HN Hk. rewrite front_unfold. cbv zeta. cbn [times_of].
  assert (E0 : existsb (fun t => negb (Reqb t 0)) (default_times (export_model N gt lg) (final_ids lg)) = false).
  { rewrite export_as_gmap by lra. rewrite default_times_gmap, final_demes_end_r by auto. rewrite map_map.
    apply existsb_none. intros x Hx. apply in_map_iff in Hx as (y & <- & _). rewrite Rmult_0_r.
    assert (Reqb 0 0 = true) by now apply Reqb_true. now rewrite H. }
  rewrite E0.
  assert (Hk' : forall k, gt = Some k -> k <> 0) by (intros k E; specialize (Hk k E); lra).
  rewrite export_in_generations, export_events_evmap by (auto; lra). now apply export_import_reorder_raw.
Qed.

(** without reorder_pops records the creation-order program is the native program (followed by the identity reorder) *)
Corollary sorted_calls_native : forall lg : elog R, log_ok lg ->
  sorted_calls lg = native_calls lg ++ [simple_call F_reorder_pops [] (seq 1 (length (final_ids lg))) []].
Proof.
  intros lg Hok. pose proof (export_import_reorder lg 1 None [] [] [] (log_ok_okr lg Hok) Rlt_0_1 (fun k E => ltac:(discriminate))) as E1.
  pose proof (export_import_same_program lg 1 None [] [] [] Hok Rlt_0_1 (fun k E => ltac:(discriminate))) as E2.
  rewrite E1 in E2. change (native_calls lg ++ [simple_call F_reorder_pops [] (seq 1 (length (final_ids lg))) []; simple_call F_from_phi [] [] (final_ids lg)])
    with (native_calls lg ++ [simple_call F_reorder_pops [] (seq 1 (length (final_ids lg))) []] ++ [simple_call (F:=R) F_from_phi [] [] (final_ids lg)]) in E2.
  rewrite app_assoc in E2. now apply app_inv_tail in E2.
Qed.

(** stage 6, complete: removal and reordering *)
Theorem export_import_stage6 : forall lg : elog R, log_okr lg ->
  forall N gt ns new_ids sizes, 0 < N -> (forall k, gt = Some k -> 0 < k) ->
  front std_wirings true gt (export_model N gt lg) (final_ids lg) None new_ids sizes (export_events N gt lg) (Some N) ns
  = sorted_calls lg ++ [simple_call F_from_phi [] ns (final_ids lg)].
Proof. intros lg H N gt ns new_ids sizes HN Hk. now apply export_import_reorder. Qed.

(** ** non-vacuity: a history with reorder_pops and a new era after it *)
Section ExampleR.
  Context {F : Type} `{Num F}.
  Local Open Scope num_scope.
  Let q4 : F := n1 / (n2 + n2).
  Let q8 : F := n1 / (n2 + n2 + n2 + n2).
  Let three : F := n1 + n2.
  (* phi_1D(1); phi_1D_to_2D; two_pops(1/4, (1,2), m12=1); reorder_pops([2,1]); two_pops(1/8, (3,1), m21=2);
     two_pops(1/8, (2,3)) [new era]; phi_2D_to_3D_split_1; three_pops(1/8, (1,2,3), m31 = 1) *)
  Definition ex7 : elog F := mkLog n1 [mkRound (SSplit [n1]) q4 true [(n1, n1, true); (n2, n2, true)] [n1; n0];
                                      mkRound (SReorder [2%nat; 1%nat]) q8 true [(three, three, true); (n1, n1, true)] [n0; n2];
                                      mkRound SNone q8 true [(n2, n2, true); (three, three, true)] [n0; n0];
                                      mkRound (SSplit [n1; n0]) q8 true [(n1, n1, true); (n2, n2, true); (three, three, true)] [n0; n0; n0; n0; n1; n0]].
End ExampleR.

Example export_import_stage6_reorder_example : log_okr (ex7 (F:=R)) /\ ~ log_ok (ex7 (F:=R)).
Proof.
  split.
  - unfold log_okr, ex7. cbn [l_rounds rounds_okr]. unfold round_okr. cbn [r_ev r_T r_const r_sizes r_mig ev_dim ev_okr ev_ok length]. solve_ok.
  - unfold log_ok, ex7. cbn [l_rounds rounds_ok]. unfold round_ok. cbn [r_ev ev_ok ev_dim]. tauto.
Qed.

From Dadi Require Import Base.NumQ.
From Coq Require Import QArith.
(** the same history on the rationals: the importer model gives [sorted_calls] back; the literal call sequence of the
    native program is not what comes back (the third call differs: the importer integrates in creation order) *)
Definition call_eqb_Q (a b : call Q) : bool :=
  fname_eqb (c_fn a) (c_fn b) && Qeq_bool (c_T a) (c_T b) && list_eqb (c_ids a) (c_ids b) && list_eqb (c_ns a) (c_ns b)
  && Nat.eqb (length (c_fs a)) (length (c_fs b)) && forallb (fun xy => Qeq_bool (fst xy) (snd xy)) (combine (c_fs a) (c_fs b))
  && Nat.eqb (length (c_nus a)) (length (c_nus b))
  && forallb (fun xy => Qeq_bool (sf_eval (fst xy) 0) (sf_eval (snd xy) 0)) (combine (c_nus a) (c_nus b)).
Example export_import_reorder_run :
  let lg := ex7 (F:=Q) in
  let calls := front std_wirings true (Some 25%Q) (export_model 8%Q (Some 25%Q) lg) (final_ids lg) None [] []
                     (export_events 8%Q (Some 25%Q) lg) (Some 8%Q) [2; 2; 2]%nat in
  let expect := sorted_calls lg ++ [simple_call F_from_phi [] [2; 2; 2]%nat (final_ids lg)] in
  (Nat.eqb (length calls) (length expect) && forallb (fun cc => call_eqb_Q (fst cc) (snd cc)) (combine calls expect) = true)
  /\ forallb (fun cc => call_eqb_Q (fst cc) (snd cc)) (combine calls (native_calls lg)) = false.
Proof. vm_compute. split; reflexivity. Qed.
