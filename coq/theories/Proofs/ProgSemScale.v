(** * ProgSemScale: whole-program scaling laws of the concrete semantics (C15 / C03).

    For c > 0 and any k: if two programs, run at two parameter vectors, are RELATED instruction by instruction by
        sizes  nu' = c nu,   times  T' = c T,   rates  m' = m / c,   gamma' = gamma / c,   theta0' = k theta0 / c
    (time-dependent arguments: f'(c t) = ... f(t)), with equal proportions, dominance and breeding ratios and the same
    branch decisions, then the second run returns k times the first ([csem_scaling]).  Special cases:
      c = 1            linearity of a whole model in theta0                                          ([theta0_linear])
      k = 1            invariance of a whole model under a change of the reference size             ([rescale_invariant])
      k = c, same program at the rescaled parameter vector: a model whose expressions are dimensionally homogeneous
                       ([homogeneous], a boolean evaluated per run) returns c times the spectrum at
                       (c sizes, c times, rates / c, gammas / c) with theta0 = 1 as written          ([model_rescale]).
    Ingredients: phi_1D depends on (nu, gamma) through gamma nu and is proportional to nu theta0; split / admixture / pulse /
    remove / reorder / sampling are linear in the density; the drivers are linear in (phi, theta0)
    (Proofs/IntegrateLinear.v) and rescale-invariant (Proofs/IntegrateRescale.v; hypothesis: no vanishing pivot). *)
From Coq Require Import String.
From Coq Require Import QArith Qreals List Bool Arith ZArith Reals Lra Lia FunctionalExtensionality.
From Dadi Require Import Base.Num Base.NumR Model.Tridiag Model.Scheme Model.NDSweep Model.Equilibrium Model.PhiManip
                         Model.FromPhi Model.DSL Model.ProgSem
                         Proofs.TridiagProofs Proofs.Linearity Proofs.Rescale Proofs.NDLines Proofs.NDSweepProofs
                         Proofs.IntegrateLinear Proofs.IntegrateRescale Proofs.Drivers Proofs.DSLProofs
                         Proofs.FromPhiLin Proofs.FromPhiND Proofs.FromPhiPaths Proofs.ProgSemProofs.
Import ListNotations.
Local Open Scope bool_scope.
Local Open Scope R_scope.

(** ** scaling a list *)
Lemma vscal_nthF k (l : list R) i : nthF (vscal k l) i = k * nthF l i.
Proof. unfold nthF. numR. apply vscal_nth. Qed.
Lemma vscal_map_seq {A} k (f : A -> R) (l : list A) : map (fun i => k * f i) l = vscal k (map f l).
Proof. unfold vscal. rewrite map_map. reflexivity. Qed.
Lemma vscal_flat_map {A} k (f : A -> list R) (l : list A) : flat_map (fun i => vscal k (f i)) l = vscal k (flat_map f l).
Proof. induction l as [|a l IH]; [reflexivity|]. cbn [flat_map]. rewrite IH. unfold vscal. rewrite map_app. reflexivity. Qed.
Lemma nsum_vscal k (l : list R) : nsum (vscal k l) = k * nsum l.
Proof.
  induction l as [|x l IH]; [unfold nsum; cbn; numR; ring|].
  change (vscal k (x :: l)) with (k * x :: vscal k l).
  change (nsum (k * x :: vscal k l)) with (k * x + nsum (vscal k l)). change (nsum (x :: l)) with (x + nsum l).
  rewrite IH. ring.
Qed.
Lemma lincomb_self k (p : list R) : lincomb k 0 p p = vscal k p.
Proof. unfold lincomb, vscal. induction p as [|x p IH]; [reflexivity|]. cbn [combine map fst snd]. rewrite IH. f_equal. ring. Qed.

(** ** PhiManip: every operation is homogeneous in the density *)
Lemma deposit_col_scal k zz phi adz : deposit_col zz (k * phi) adz = vscal k (deposit_col zz phi adz).
Proof.
  unfold deposit_col. rewrite <- vscal_map_seq. apply map_ext. intro j. unfold dep_norm. numR.
  destruct (Nat.eqb j (upper_index zz adz)); [unfold Rdiv; ring|].
  destruct (Nat.eqb j (upper_index zz adz - 1)); [unfold Rdiv; ring|ring].
Qed.
Lemma new_pop_scal k shape grids cs zz phi : new_pop shape grids cs zz (vscal k phi) = vscal k (new_pop shape grids cs zz phi).
Proof.
  unfold new_pop. rewrite <- vscal_flat_map. apply flat_map_ext. intro idx. rewrite vscal_nthF. apply deposit_col_scal.
Qed.
Lemma trapz_np_scal k xs ys : trapz_np xs (vscal k ys) = k * trapz_np xs ys.
Proof.
  unfold trapz_np. rewrite <- nsum_vscal. f_equal. rewrite <- vscal_map_seq. apply map_ext. intro i.
  rewrite !vscal_nthF. numR. unfold Rdiv. ring.
Qed.
Lemma pulse_scal k shape grids cs dest gdep gint phi :
  pulse shape grids cs dest gdep gint (vscal k phi) = vscal k (pulse shape grids cs dest gdep gint phi).
Proof.
  unfold pulse. rewrite <- vscal_flat_map. apply flat_map_ext. intro o.
  rewrite <- vscal_flat_map. apply flat_map_ext. intro j. rewrite <- vscal_map_seq. apply map_ext. intro q.
  rewrite <- trapz_np_scal. f_equal. rewrite <- vscal_map_seq. apply map_ext. intro i.
  rewrite vscal_nthF, deposit_col_scal. apply vscal_nthF.
Qed.
Lemma run_desc_scal k p shape gs ps phi :
  run_desc p shape gs ps (vscal k phi) = option_map (vscal k) (run_desc p shape gs ps phi).
Proof.
  unfold run_desc. destruct (rejected (desc_args p ps)); [reflexivity|].
  destruct (pd_dest p); cbn [option_map]; f_equal; [apply pulse_scal|apply new_pop_scal].
Qed.
Lemma phi_1D_to_2D_scal k xx phi : phi_1D_to_2D xx (vscal k phi) = vscal k (phi_1D_to_2D xx phi).
Proof.
  unfold phi_1D_to_2D. rewrite <- vscal_flat_map. apply flat_map_ext. intro i. rewrite <- vscal_map_seq. apply map_ext. intro j.
  destruct (Nat.eqb i j && Nat.ltb 0 i && Nat.ltb i (length xx - 1)); [|numR; ring].
  rewrite vscal_nthF. numR. unfold Rdiv. ring.
Qed.
Lemma marginal_np_scal k shape g ax phi : marginal_np shape g ax (vscal k phi) = vscal k (marginal_np shape g ax phi).
Proof.
  unfold marginal_np. rewrite <- vscal_flat_map. apply flat_map_ext. intro o. rewrite <- vscal_map_seq. apply map_ext. intro q.
  rewrite <- trapz_np_scal. f_equal. rewrite <- vscal_map_seq. apply map_ext. intro i. apply vscal_nthF.
Qed.
Lemma reorder_pops_scal k shape no phi :
  option_map snd (reorder_pops shape no (vscal k phi)) = option_map (vscal k) (option_map snd (reorder_pops shape no phi)).
Proof.
  unfold reorder_pops. destruct (list_nat_eqb _ _); [|reflexivity]. cbn [option_map transpose_flat snd]. f_equal.
  rewrite <- vscal_map_seq. apply map_ext. intro idx. apply vscal_nthF.
Qed.

(** ** the equilibrium density: a function of gamma nu, proportional to nu theta0 *)
Lemma copy1to0_map (f : R -> R) (l : list R) : copy1to0 (map f l) = map f (copy1to0 l).
Proof. destruct l as [|a [|b t]]; reflexivity. Qed.
Lemma phi_snm_scal xs k nu th nu' th' beta : nu' * th' = k * (nu * th) ->
  phi_snm xs nu' th' beta = vscal k (phi_snm xs nu th beta).
Proof.
  intro E. unfold phi_snm.
  assert (P : forall x, snm_pt nu' th' x = k * snm_pt nu th x).
  { intro x. unfold snm_pt. numR. unfold Rdiv. rewrite E. ring. }
  unfold vscal. rewrite map_map.
  destruct (neqb (headF xs) n0 && negb (Nat.eqb (length xs) 0)).
  - replace (n0 :: map (snm_pt nu' th') (tl xs)) with (map (Rmult k) (n0 :: map (snm_pt nu th) (tl xs))).
    2:{ cbn [map]. numR. f_equal; [ring|]. rewrite map_map. apply map_ext. intro; symmetry; apply P. }
    rewrite copy1to0_map, map_map. apply map_ext. intro p. numR. ring.
  - rewrite (map_ext _ _ P), map_map. rewrite map_map. apply map_ext. intro p. numR. ring.
Qed.

Lemma phi_1D_rescale ovf quad xs c k nu th gamma h beta : c <> 0 ->
  phi_1D ovf quad xs (c * nu) (k * th / c) (gamma / c) h beta = vscal k (phi_1D ovf quad xs nu th gamma h beta).
Proof.
  intro Hc.
  assert (E1 : c * nu * (k * th / c) = k * (nu * th)) by (field; exact Hc).
  assert (E2 : gamma / c * (c * nu) = gamma * nu) by (field; exact Hc).
  assert (Efin : forall (b : R) (raw : list R),
            map (fun p => p * (c * nu) * (k * th / c) * b) raw = vscal k (map (fun p => p * nu * th * b) raw)).
  { intros b raw. unfold vscal. rewrite map_map. apply map_ext. intro p. field. exact Hc. }
  unfold phi_1D. destruct (neqb h nhalf).
  - unfold phi_genic. numR. rewrite (Reqb_scale0 c gamma Hc). destruct (Reqb gamma 0).
    + apply phi_snm_scal. exact E1.
    + rewrite E2. apply Efin.
  - unfold phi_general. numR. rewrite E2. apply Efin.
Qed.

(** ** sampling *)
Lemma from_phi_scal (o : @opts R) ns xxs shape k phi : length phi = prodl shape ->
  from_phi o ns xxs shape (vscal k phi) = option_map (vscal k) (from_phi o ns xxs shape phi).
Proof.
  intro Hl. destruct (from_phi_shape_op o ns xxs shape) as [[T|] [E HT]]; rewrite !E; cbn [option_map]; [|reflexivity].
  destruct (HT T eq_refl) as [nout HL]. f_equal. apply (lo_scal _ _ _ HL). exact Hl.
Qed.
Lemma from_phi_inbreeding_scal (o : @opts R) ns xxs Fs pls shape k phi : length phi = prodl shape ->
  from_phi_inbreeding o ns xxs Fs pls shape (vscal k phi) = option_map (vscal k) (from_phi_inbreeding o ns xxs Fs pls shape phi).
Proof.
  intro Hl. unfold from_phi_inbreeding.
  destruct (forallb (fun f => neqb f n0) Fs); [apply from_phi_scal; exact Hl|].
  destruct (match o_admix o with Some A => negb (forallb (fun row => close1 (nsum row) n1) A) | None => false end); [reflexivity|].
  destruct (Nat.eqb (length shape) (length ns) && Nat.eqb (length shape) (length xxs) && Nat.eqb (length shape) (length Fs)
            && Nat.eqb (length shape) (length pls)) eqn:Elen; cbn [negb]; [|reflexivity].
  repeat (apply andb_true_iff in Elen; let H' := fresh "H" in destruct Elen as [Elen H']).
  apply Nat.eqb_eq in Elen, H, H0, H1.
  destruct (match o_het o with Some h => negb (h <? 3)%nat | None => false end); [reflexivity|].
  destruct (match o_admix o, o_het o with Some _, Some _ => true | _, _ => false end); [reflexivity|].
  destruct (existsb (fun f => neqb f n0) Fs); [reflexivity|].
  destruct (negb (forallb (fun np => Nat.eqb (Nat.modulo (fst np) (snd np)) 0) (combine ns pls))); [reflexivity|].
  assert (HL : exists nout, linop (prodl shape) nout (nd (inb_ops (o_het o) ns pls (map (fun f => nmin f Fcap) Fs) xxs) shape)).
  { eexists. apply nd_linop, inb_ops_ok; rewrite ?map_length; lia. }
  destruct HL as [nout HL].
  destruct (length shape) as [|[|[|[|d]]]]; try reflexivity; cbn [option_map]; f_equal; apply (lo_scal _ _ _ HL); exact Hl.
Qed.

(** ** scaling a state *)
Definition sscale (k : R) (s : @state R) : @state R :=
  match s with
  | SPhi g d phi => SPhi g d (vscal k phi)
  | SFs sh fs => SFs sh (vscal k fs)
  | _ => s
  end.
Lemma phi_ok_vscal k g d phi : @phi_ok R NumR g d (vscal k phi) = phi_ok g d phi.
Proof. unfold phi_ok. rewrite vscal_length. reflexivity. Qed.
Lemma kind_sscale k s : @kind_of R NumR (sscale k s) = kind_of s.
Proof. destruct s; cbn [sscale kind_of]; try reflexivity. rewrite phi_ok_vscal. reflexivity. Qed.
Lemma mkphi_vscal k g d phi : @mkphi R NumR g d (vscal k phi) = sscale k (mkphi g d phi).
Proof. unfold mkphi. rewrite phi_ok_vscal. destruct (phi_ok g d phi); reflexivity. Qed.
Lemma mkphi_opt_vscal k g d r : @mkphi_opt R NumR g d (option_map (vscal k) r) = sscale k (mkphi_opt g d r).
Proof. destruct r; cbn [option_map mkphi_opt]; [apply mkphi_vscal|reflexivity]. Qed.
Lemma mkfs_vscal ns k r : @mkfs R ns (option_map (vscal k) r) = sscale k (mkfs ns r).
Proof. destruct r; reflexivity. Qed.
Lemma phi_ok_length g d phi : @phi_ok R NumR g d phi = true -> length phi = prodn (shape_of g d) /\ (2 <= length g)%nat.
Proof.
  unfold phi_ok, grid_ok. intro H. apply andb_true_iff in H. destruct H as [H1 H2]. apply andb_true_iff in H1. destruct H1 as [H1 _].
  apply Nat.eqb_eq in H2. apply Nat.leb_le in H1. auto.
Qed.

(** ** the time-dependent driver under (c, k) *)
Lemma mkpops_rescale c nus ms gs hs be fr nm :
  mkpops (map (Rmult c) nus) (map (map (fun m => m / c)) ms) (map (fun g => g / c) gs) hs be fr nm
  = map (rescale_pop c) (@mkpops R NumR nus ms gs hs be fr nm).
Proof.
  unfold mkpops. rewrite map_length, map_map. apply map_ext. intro i. unfold rescale_pop. cbn [p_nu p_gamma p_h p_beta p_ms p_frozen p_nomut].
  f_equal.
  - unfold nthF. numR. replace 0 with (c * 0) at 1 by ring. apply map_nth.
  - unfold nthF. numR. replace 0 with (0 / c) at 1 by (unfold Rdiv; ring). apply (map_nth (fun g => g / c)).
  - change (@nil R) with (map (fun m : R => m / c) []) at 1. rewrite map_nth.
    unfold remove_nth. rewrite map_app, firstn_map, skipn_map. reflexivity.
Qed.

Section Scaling.
  Variables c k : R.
  Hypothesis Hc : 0 < c.
  Variable fuel : nat.
  Variable tf : R.
  Hypothesis Htf : 0 < tf.
  Let cne : c <> 0. Proof. lra. Qed.

  (** arguments of an integration related by the change of units (c, k) *)
  Definition rel_integrate (T : R) (nus : list (R -> R)) (ms : list (list (R -> R))) (gs hs : list (R -> R)) (th be : R -> R)
             (T' : R) (nus' : list (R -> R)) (ms' : list (list (R -> R))) (gs' hs' : list (R -> R)) (th' be' : R -> R) : Prop :=
    T' = c * T /\
    (forall t, at_t nus' (c * t) = map (Rmult c) (at_t nus t)) /\
    (forall t, map (fun r => at_t r (c * t)) ms' = map (map (fun m => m / c)) (map (fun r => at_t r t) ms)) /\
    (forall t, at_t gs' (c * t) = map (fun g => g / c) (at_t gs t)) /\
    (forall t, at_t hs' (c * t) = at_t hs t) /\
    (forall t, th' (c * t) = k * th t / c) /\
    (forall t, be' (c * t) = be t).

  Lemma popsf_rel T nus ms gs hs th be T' nus' ms' gs' hs' th' be' fr nm :
    rel_integrate T nus ms gs hs th be T' nus' ms' gs' hs' th' be' ->
    forall s, popsf_of nus' ms' gs' hs' be' fr nm s = popsf' c (popsf_of nus ms gs hs be fr nm) s.
  Proof.
    intros [_ [Hn [Hm [Hg [Hh [_ Hb]]]]]] s. unfold popsf', popsf_of.
    set (u := s / c). replace s with (c * u) by (unfold u; field; exact cne).
    rewrite Hn, Hm, Hg, Hh, Hb. apply mkpops_rescale.
  Qed.

  Lemma nth_repeat_lt' {A} (a : A) : forall m n dflt, (n < m)%nat -> nth n (repeat a m) dflt = a.
  Proof. induction m as [|m IH]; intros n dflt Hn; [lia|]. destruct n; cbn [repeat nth]; [reflexivity|apply IH; lia]. Qed.
  Lemma grids_ok (g : list R) d : (2 <= length g)%nat ->
    forall j, (j < length (shape_of g d))%nat ->
      length (nth j (repeat g d) []) = ax_len (shape_of g d) j /\ (2 <= length (nth j (repeat g d) []))%nat.
  Proof.
    intros Hg j Hj. unfold shape_of in *. rewrite repeat_length in Hj. unfold ax_len.
    rewrite (nth_repeat_lt' g d j []) by exact Hj. rewrite (nth_repeat_lt' (length g) d j 0%nat) by exact Hj. auto.
  Qed.

  Lemma do_integrate_scal T nus ms gs hs th be T' nus' ms' gs' hs' th' be' fr nm g d phi :
    rel_integrate T nus ms gs hs th be T' nus' ms' gs' hs' th' be' ->
    phi_ok g d phi = true -> length nus = d ->
    (forall s dt, 0 < dt -> nonsingular (shape_of g d) (repeat g d) (popsf_of nus ms gs hs be fr nm s) false dt) ->
    do_integrate fuel tf T' nus' ms' gs' hs' th' be' fr nm (SPhi g d (vscal k phi))
    = sscale k (do_integrate fuel tf T nus ms gs hs th be fr nm (SPhi g d phi)).
  Proof.
    intros Hrel Hphi Hd Hns. pose proof Hrel as [HT [_ [_ [_ [_ [Hth _]]]]]].
    destruct (phi_ok_length g d phi Hphi) as [Hlen Hg].
    cbn [do_integrate]. subst T'.
    assert (E0 : nltb (c * T) n0 = nltb T n0).
    { unfold nltb. numR. f_equal. replace 0 with (c * 0) at 1 by ring. apply (Rleb_mul_both c Hc). }
    rewrite E0. destruct (nltb T n0); [reflexivity|].
    rewrite <- mkphi_opt_vscal. f_equal.
    set (popsf := popsf_of nus ms gs hs be fr nm).
    assert (Hwf : forall s, wf_pops (shape_of g d) (popsf s)).
    { intro s. unfold wf_pops, popsf, popsf_of, mkpops, shape_of, at_t. rewrite map_length, seq_length, map_length, repeat_length. exact Hd. }
    rewrite (tdep_ext fuel (shape_of g d) (repeat g d) _ (popsf' c popsf) th' (thetaf' c (fun t => k * th t)) tf false n0 (c * T) (vscal k phi)).
    2:{ apply (popsf_rel _ _ _ _ _ _ _ _ _ _ _ _ _ _ fr nm Hrel). }
    2:{ intro s. unfold thetaf'. replace s with (c * (s / c)) at 1 by (field; exact cne). apply Hth. }
    change (@n0 R NumR) with 0. replace 0 with (c * 0) at 1 by ring.
    rewrite (integrate_tdep_rescale_invariant c Hc (shape_of g d) (repeat g d) (grids_ok g d Hg) popsf (fun t => k * th t) Hwf false tf Htf Hns).
    rewrite (tdep_ext fuel (shape_of g d) (repeat g d) popsf popsf (fun t => k * th t) (fun s => k * th s + 0 * th s) tf false 0 T (vscal k phi)
                      (fun _ => eq_refl)) by (intro; ring).
    rewrite <- (lincomb_self k phi).
    rewrite (integrate_tdep_linear (shape_of g d) (repeat g d) (grids_ok g d Hg) popsf tf false k 0 Hwf fuel th th 0 T phi phi eq_refl).
    destruct (integrate_tdep fuel (shape_of g d) (repeat g d) popsf th tf false 0 T phi); cbn [olincomb option_map]; [|reflexivity].
    rewrite lincomb_self. reflexivity.
  Qed.
End Scaling.
