(** * ProgSemScale: whole-program scaling laws of the concrete semantics (C15 / C03).

    For c > 0 and any k: if two programs, run at two parameter vectors, are RELATED instruction by instruction by
        sizes  nu' = c nu,   times  T' = c T,   rates  m' = m / c,   gamma' = gamma / c,   theta0' = k theta0 / c
    (time-dependent arguments: f'(c t) = ... f(t)), with equal proportions, dominance and breeding ratios and the same
    branch decisions, then the second run returns k times the first ([csem_scaling]).  Special cases:
      c = 1            linearity of a whole model in theta0                                          ([theta0_linear])
      k = 1            invariance of a whole model under a change of the reference size             ([rescale_invariant])
      k = c, same program at the rescaled parameter vector: a model whose expressions are dimensionally homogeneous
                       ([homogeneous], a boolean evaluated per run) returns c times the spectrum at
                       (c sizes, c times, rates / c, gammas / c) with theta0 = 1 as written          ([model_rescale]).
    Ingredients: phi_1D depends on (nu, gamma) through gamma nu and is proportional to nu theta0; split / admixture / pulse /
    remove / reorder / sampling are linear in the density; the drivers are linear in (phi, theta0)
    (Proofs/IntegrateLinear.v) and rescale-invariant (Proofs/IntegrateRescale.v; hypothesis: no vanishing pivot). *)
From Coq Require Import String.
From Coq Require Import QArith Qreals List Bool Arith ZArith Reals Lra Lia FunctionalExtensionality.
From Dadi Require Import Base.Num Base.NumR Model.Tridiag Model.Scheme Model.NDSweep Model.Equilibrium Model.PhiManip
                         Model.FromPhi Model.DSL Model.ProgSem
                         Proofs.TridiagProofs Proofs.Linearity Proofs.Rescale Proofs.NDLines Proofs.NDSweepProofs
                         Proofs.IntegrateLinear Proofs.IntegrateRescale Proofs.Drivers Proofs.DSLProofs
                         Proofs.FromPhiLin Proofs.FromPhiND Proofs.FromPhiPaths Proofs.ProgSemProofs.
Import ListNotations.
Local Open Scope bool_scope.
Local Open Scope R_scope.

(** ** scaling a list *)
Lemma vscal_nthF k (l : list R) i : nthF (vscal k l) i = k * nthF l i.
Proof. unfold nthF. numR. apply vscal_nth. Qed.
Lemma vscal_map_seq {A} k (f : A -> R) (l : list A) : map (fun i => k * f i) l = vscal k (map f l).
Proof. unfold vscal. rewrite map_map. reflexivity. Qed.
Lemma vscal_flat_map {A} k (f : A -> list R) (l : list A) : flat_map (fun i => vscal k (f i)) l = vscal k (flat_map f l).
Proof. induction l as [|a l IH]; [reflexivity|]. cbn [flat_map]. rewrite IH. unfold vscal. rewrite map_app. reflexivity. Qed.
Lemma nsum_vscal k (l : list R) : nsum (vscal k l) = k * nsum l.
Proof.
  induction l as [|x l IH]; [unfold nsum; cbn; numR; ring|].
  change (vscal k (x :: l)) with (k * x :: vscal k l).
  change (nsum (k * x :: vscal k l)) with (k * x + nsum (vscal k l)). change (nsum (x :: l)) with (x + nsum l).
  rewrite IH. ring.
Qed.
Lemma lincomb_self k (p : list R) : lincomb k 0 p p = vscal k p.
Proof. unfold lincomb, vscal. induction p as [|x p IH]; [reflexivity|]. cbn [combine map fst snd]. rewrite IH. f_equal. ring. Qed.

(** ** PhiManip: every operation is homogeneous in the density *)
Lemma deposit_col_scal k zz phi adz : deposit_col zz (k * phi) adz = vscal k (deposit_col zz phi adz).
Proof.
  unfold deposit_col. rewrite <- vscal_map_seq. apply map_ext. intro j. unfold dep_norm. numR.
  destruct (Nat.eqb j (upper_index zz adz)); [unfold Rdiv; ring|].
  destruct (Nat.eqb j (upper_index zz adz - 1)); [unfold Rdiv; ring|ring].
Qed.
Lemma new_pop_scal k shape grids cs zz phi : new_pop shape grids cs zz (vscal k phi) = vscal k (new_pop shape grids cs zz phi).
Proof.
  unfold new_pop. rewrite <- vscal_flat_map. apply flat_map_ext. intro idx. rewrite vscal_nthF. apply deposit_col_scal.
Qed.
Lemma trapz_np_scal k xs ys : trapz_np xs (vscal k ys) = k * trapz_np xs ys.
Proof.
  unfold trapz_np. rewrite <- nsum_vscal. f_equal. rewrite <- vscal_map_seq. apply map_ext. intro i.
  rewrite !vscal_nthF. numR. unfold Rdiv. ring.
Qed.
Lemma pulse_scal k shape grids cs dest gdep gint phi :
  pulse shape grids cs dest gdep gint (vscal k phi) = vscal k (pulse shape grids cs dest gdep gint phi).
Proof.
  unfold pulse. rewrite <- vscal_flat_map. apply flat_map_ext. intro o.
  rewrite <- vscal_flat_map. apply flat_map_ext. intro j. rewrite <- vscal_map_seq. apply map_ext. intro q.
  rewrite <- trapz_np_scal. f_equal. rewrite <- vscal_map_seq. apply map_ext. intro i.
  rewrite vscal_nthF, deposit_col_scal. apply vscal_nthF.
Qed.
Lemma run_desc_scal k p shape gs ps phi :
  run_desc p shape gs ps (vscal k phi) = option_map (vscal k) (run_desc p shape gs ps phi).
Proof.
  unfold run_desc. destruct (rejected (desc_args p ps)); [reflexivity|].
  destruct (pd_dest p); cbn [option_map]; f_equal; [apply pulse_scal|apply new_pop_scal].
Qed.
Lemma phi_1D_to_2D_scal k xx phi : phi_1D_to_2D xx (vscal k phi) = vscal k (phi_1D_to_2D xx phi).
Proof.
  unfold phi_1D_to_2D. rewrite <- vscal_flat_map. apply flat_map_ext. intro i. rewrite <- vscal_map_seq. apply map_ext. intro j.
  destruct (Nat.eqb i j && Nat.ltb 0 i && Nat.ltb i (length xx - 1)); [|numR; ring].
  rewrite vscal_nthF. numR. unfold Rdiv. ring.
Qed.
Lemma marginal_np_scal k shape g ax phi : marginal_np shape g ax (vscal k phi) = vscal k (marginal_np shape g ax phi).
Proof.
  unfold marginal_np. rewrite <- vscal_flat_map. apply flat_map_ext. intro o. rewrite <- vscal_map_seq. apply map_ext. intro q.
  rewrite <- trapz_np_scal. f_equal. rewrite <- vscal_map_seq. apply map_ext. intro i. apply vscal_nthF.
Qed.
Lemma reorder_pops_scal k shape no phi :
  option_map snd (reorder_pops shape no (vscal k phi)) = option_map (vscal k) (option_map snd (reorder_pops shape no phi)).
Proof.
  unfold reorder_pops. destruct (list_nat_eqb _ _); [|reflexivity]. cbn [option_map transpose_flat snd]. f_equal.
  rewrite <- vscal_map_seq. apply map_ext. intro idx. apply vscal_nthF.
Qed.

(** ** the equilibrium density: a function of gamma nu, proportional to nu theta0 *)
Lemma copy1to0_map (f : R -> R) (l : list R) : copy1to0 (map f l) = map f (copy1to0 l).
Proof. destruct l as [|a [|b t]]; reflexivity. Qed.
Lemma phi_snm_scal xs k nu th nu' th' beta : nu' * th' = k * (nu * th) ->
  phi_snm xs nu' th' beta = vscal k (phi_snm xs nu th beta).
Proof.
  intro E. unfold phi_snm.
  assert (P : forall x, snm_pt nu' th' x = k * snm_pt nu th x).
  { intro x. unfold snm_pt. numR. unfold Rdiv. rewrite E. ring. }
  unfold vscal. rewrite map_map.
  destruct (neqb (headF xs) n0 && negb (Nat.eqb (length xs) 0)).
  - replace (n0 :: map (snm_pt nu' th') (tl xs)) with (map (Rmult k) (n0 :: map (snm_pt nu th) (tl xs))).
    2:{ cbn [map]. numR. f_equal; [ring|]. rewrite map_map. apply map_ext. intro; symmetry; apply P. }
    rewrite copy1to0_map, map_map. apply map_ext. intro p. numR. ring.
  - rewrite (map_ext _ _ P), map_map. rewrite map_map. apply map_ext. intro p. numR. ring.
Qed.

Lemma phi_1D_rescale ovf quad xs c k nu th gamma h beta : c <> 0 ->
  phi_1D ovf quad xs (c * nu) (k * th / c) (gamma / c) h beta = vscal k (phi_1D ovf quad xs nu th gamma h beta).
Proof.
  intro Hc.
  assert (E1 : c * nu * (k * th / c) = k * (nu * th)) by (field; exact Hc).
  assert (E2 : gamma / c * (c * nu) = gamma * nu) by (field; exact Hc).
  assert (Efin : forall (b : R) (raw : list R),
            map (fun p => p * (c * nu) * (k * th / c) * b) raw = vscal k (map (fun p => p * nu * th * b) raw)).
  { intros b raw. unfold vscal. rewrite map_map. apply map_ext. intro p. field. exact Hc. }
  unfold phi_1D. destruct (neqb h nhalf).
  - unfold phi_genic. numR. rewrite (Reqb_scale0 c gamma Hc). destruct (Reqb gamma 0).
    + apply phi_snm_scal. exact E1.
    + rewrite E2. apply Efin.
  - unfold phi_general. numR. rewrite E2. apply Efin.
Qed.

(** ** sampling *)
Lemma from_phi_scal (o : @opts R) ns xxs shape k phi : length phi = prodl shape ->
  from_phi o ns xxs shape (vscal k phi) = option_map (vscal k) (from_phi o ns xxs shape phi).
Proof.
  intro Hl. destruct (from_phi_shape_op o ns xxs shape) as [[T|] [E HT]]; rewrite !E; cbn [option_map]; [|reflexivity].
  destruct (HT T eq_refl) as [nout HL]. f_equal. apply (lo_scal _ _ _ HL). exact Hl.
Qed.
Lemma from_phi_inbreeding_scal (o : @opts R) ns xxs Fs pls shape k phi : length phi = prodl shape ->
  from_phi_inbreeding o ns xxs Fs pls shape (vscal k phi) = option_map (vscal k) (from_phi_inbreeding o ns xxs Fs pls shape phi).
Proof.
  intro Hl. unfold from_phi_inbreeding.
  destruct (forallb (fun f => neqb f n0) Fs); [apply from_phi_scal; exact Hl|].
  destruct (match o_admix o with Some A => negb (forallb (fun row => close1 (nsum row) n1) A) | None => false end); [reflexivity|].
  destruct (Nat.eqb (length shape) (length ns) && Nat.eqb (length shape) (length xxs) && Nat.eqb (length shape) (length Fs)
            && Nat.eqb (length shape) (length pls)) eqn:Elen; cbn [negb]; [|reflexivity].
  repeat (apply andb_true_iff in Elen; let H' := fresh "H" in destruct Elen as [Elen H']).
  apply Nat.eqb_eq in Elen, H, H0, H1.
  destruct (match o_het o with Some h => negb (h <? 3)%nat | None => false end); [reflexivity|].
  destruct (match o_admix o, o_het o with Some _, Some _ => true | _, _ => false end); [reflexivity|].
  destruct (existsb (fun f => neqb f n0) Fs); [reflexivity|].
  destruct (negb (forallb (fun np => Nat.eqb (Nat.modulo (fst np) (snd np)) 0) (combine ns pls))); [reflexivity|].
  assert (HL : exists nout, linop (prodl shape) nout (nd (inb_ops (o_het o) ns pls (map (fun f => nmin f Fcap) Fs) xxs) shape)).
  { eexists. apply nd_linop, inb_ops_ok; rewrite ?map_length; lia. }
  destruct HL as [nout HL].
  destruct (length shape) as [|[|[|[|d]]]]; try reflexivity; cbn [option_map]; f_equal; apply (lo_scal _ _ _ HL); exact Hl.
Qed.

(** ** scaling a state *)
Definition sscale (k : R) (s : @state R) : @state R :=
  match s with
  | SPhi g d phi => SPhi g d (vscal k phi)
  | SFs sh fs => SFs sh (vscal k fs)
  | _ => s
  end.
Lemma phi_ok_vscal k g d phi : @phi_ok R NumR g d (vscal k phi) = phi_ok g d phi.
Proof. unfold phi_ok. rewrite vscal_length. reflexivity. Qed.
Lemma kind_sscale k s : @kind_of R NumR (sscale k s) = kind_of s.
Proof. destruct s; cbn [sscale kind_of]; try reflexivity. rewrite phi_ok_vscal. reflexivity. Qed.
Lemma mkphi_vscal k g d phi : @mkphi R NumR g d (vscal k phi) = sscale k (mkphi g d phi).
Proof. unfold mkphi. rewrite phi_ok_vscal. destruct (phi_ok g d phi); reflexivity. Qed.
Lemma mkphi_opt_vscal k g d r : @mkphi_opt R NumR g d (option_map (vscal k) r) = sscale k (mkphi_opt g d r).
Proof. destruct r; cbn [option_map mkphi_opt]; [apply mkphi_vscal|reflexivity]. Qed.
Lemma mkfs_vscal ns k r : @mkfs R ns (option_map (vscal k) r) = sscale k (mkfs ns r).
Proof. destruct r; reflexivity. Qed.
Lemma phi_ok_length g d phi : @phi_ok R NumR g d phi = true -> length phi = prodn (shape_of g d) /\ (2 <= length g)%nat.
Proof.
  unfold phi_ok, grid_ok. intro H. apply andb_true_iff in H. destruct H as [H1 H2]. apply andb_true_iff in H1. destruct H1 as [H1 _].
  apply Nat.eqb_eq in H2. apply Nat.leb_le in H1. auto.
Qed.

(** ** the time-dependent driver under (c, k) *)
Lemma mkpops_rescale c nus ms gs hs be fr nm :
  mkpops (map (Rmult c) nus) (map (map (fun m => m / c)) ms) (map (fun g => g / c) gs) hs be fr nm
  = map (rescale_pop c) (@mkpops R NumR nus ms gs hs be fr nm).
Proof.
  unfold mkpops. rewrite map_length, map_map. apply map_ext. intro i. unfold rescale_pop. cbn [p_nu p_gamma p_h p_beta p_ms p_frozen p_nomut].
  f_equal.
  - unfold nthF. numR. replace 0 with (c * 0) at 1 by ring. apply map_nth.
  - unfold nthF. numR. replace 0 with (0 / c) at 1 by (unfold Rdiv; ring). apply (map_nth (fun g => g / c)).
  - change (@nil R) with (map (fun m : R => m / c) []) at 1. rewrite map_nth.
    unfold remove_nth. rewrite map_app, firstn_map, skipn_map. reflexivity.
Qed.

Section Scaling.
  Variables c k : R.
  Hypothesis Hc : 0 < c.
  Variable fuel : nat.
  Variable tf : R.
  Hypothesis Htf : 0 < tf.
  Let cne : c <> 0. Proof. lra. Qed.

  (** arguments of an integration related by the change of units (c, k) *)
  Definition rel_integrate (T : R) (nus : list (R -> R)) (ms : list (list (R -> R))) (gs hs : list (R -> R)) (th be : R -> R)
             (T' : R) (nus' : list (R -> R)) (ms' : list (list (R -> R))) (gs' hs' : list (R -> R)) (th' be' : R -> R) : Prop :=
    T' = c * T /\
    (forall t, at_t nus' (c * t) = map (Rmult c) (at_t nus t)) /\
    (forall t, map (fun r => at_t r (c * t)) ms' = map (map (fun m => m / c)) (map (fun r => at_t r t) ms)) /\
    (forall t, at_t gs' (c * t) = map (fun g => g / c) (at_t gs t)) /\
    (forall t, at_t hs' (c * t) = at_t hs t) /\
    (forall t, th' (c * t) = k * th t / c) /\
    (forall t, be' (c * t) = be t).

  Lemma popsf_rel T nus ms gs hs th be T' nus' ms' gs' hs' th' be' fr nm :
    rel_integrate T nus ms gs hs th be T' nus' ms' gs' hs' th' be' ->
    forall s, popsf_of nus' ms' gs' hs' be' fr nm s = popsf' c (popsf_of nus ms gs hs be fr nm) s.
  Proof.
    intros [_ [Hn [Hm [Hg [Hh [_ Hb]]]]]] s. unfold popsf', popsf_of.
    set (u := s / c). replace s with (c * u) by (unfold u; field; exact cne).
    rewrite Hn, Hm, Hg, Hh, Hb. apply mkpops_rescale.
  Qed.

  Lemma nth_repeat_lt' {A} (a : A) : forall m n dflt, (n < m)%nat -> nth n (repeat a m) dflt = a.
  Proof. induction m as [|m IH]; intros n dflt Hn; [lia|]. destruct n; cbn [repeat nth]; [reflexivity|apply IH; lia]. Qed.
  Lemma grids_ok (g : list R) d : (2 <= length g)%nat ->
    forall j, (j < length (shape_of g d))%nat ->
      length (nth j (repeat g d) []) = ax_len (shape_of g d) j /\ (2 <= length (nth j (repeat g d) []))%nat.
  Proof.
    intros Hg j Hj. unfold shape_of in *. rewrite repeat_length in Hj. unfold ax_len.
    rewrite (nth_repeat_lt' g d j []) by exact Hj. rewrite (nth_repeat_lt' (length g) d j 0%nat) by exact Hj. auto.
  Qed.

  Lemma do_integrate_scal T nus ms gs hs th be T' nus' ms' gs' hs' th' be' fr nm g d phi :
    rel_integrate T nus ms gs hs th be T' nus' ms' gs' hs' th' be' ->
    phi_ok g d phi = true -> length nus = d ->
    (c = 1 \/ forall s dt, 0 < dt -> nonsingular (shape_of g d) (repeat g d) (popsf_of nus ms gs hs be fr nm s) false dt) ->
    do_integrate fuel tf T' nus' ms' gs' hs' th' be' fr nm (SPhi g d (vscal k phi))
    = sscale k (do_integrate fuel tf T nus ms gs hs th be fr nm (SPhi g d phi)).
  Proof.
    intros Hrel Hphi Hd Hns. pose proof Hrel as [HT [_ [_ [_ [_ [Hth _]]]]]].
    destruct (phi_ok_length g d phi Hphi) as [Hlen Hg].
    cbn [do_integrate]. subst T'.
    assert (E0 : nltb (c * T) n0 = nltb T n0).
    { unfold nltb. numR. f_equal. replace 0 with (c * 0) at 1 by ring. apply (Rleb_mul_both c Hc). }
    rewrite E0. destruct (nltb T n0); [reflexivity|].
    rewrite <- mkphi_opt_vscal. f_equal.
    set (popsf := popsf_of nus ms gs hs be fr nm).
    assert (Hwf : forall s, wf_pops (shape_of g d) (popsf s)).
    { intro s. unfold wf_pops, popsf, popsf_of, mkpops, shape_of, at_t. rewrite map_length, seq_length, map_length, repeat_length. exact Hd. }
    rewrite (tdep_ext fuel (shape_of g d) (repeat g d) _ (popsf' c popsf) th' (thetaf' c (fun t => k * th t)) tf false n0 (c * T) (vscal k phi)).
    2:{ apply (popsf_rel _ _ _ _ _ _ _ _ _ _ _ _ _ _ fr nm Hrel). }
    2:{ intro s. unfold thetaf'. replace s with (c * (s / c)) at 1 by (field; exact cne). apply Hth. }
    change (@n0 R NumR) with 0.
    assert (Hresc : integrate_tdep fuel (shape_of g d) (repeat g d) (popsf' c popsf) (thetaf' c (fun t => k * th t)) tf false 0 (c * T) (vscal k phi)
                    = integrate_tdep fuel (shape_of g d) (repeat g d) popsf (fun t => k * th t) tf false 0 T (vscal k phi)).
    { destruct Hns as [Hc1|Hns].
      - (* c = 1: nothing to rescale *)
        rewrite Hc1, Rmult_1_l. apply tdep_ext.
        + intro s. unfold popsf'. replace (s / 1) with s by field. rewrite <- (map_id (popsf s)) at 2. apply map_ext.
          intros [nu ga h0 be0 ms0 fz nmu]. unfold rescale_pop. cbn [p_nu p_gamma p_h p_beta p_ms p_frozen p_nomut].
          f_equal; [ring|field|]. rewrite <- (map_id ms0) at 2. apply map_ext. intro; field.
        + intro s. unfold thetaf'. replace (s / 1) with s by field. field.
      - replace 0 with (c * 0) at 1 by ring.
        apply (integrate_tdep_rescale_invariant c Hc (shape_of g d) (repeat g d) (grids_ok g d Hg) popsf (fun t => k * th t) Hwf false tf Htf Hns). }
    rewrite Hresc.
    rewrite (tdep_ext fuel (shape_of g d) (repeat g d) popsf popsf (fun t => k * th t) (fun s => k * th s + 0 * th s) tf false 0 T (vscal k phi)
                      (fun _ => eq_refl)) by (intro; ring).
    rewrite <- (lincomb_self k phi).
    rewrite (integrate_tdep_linear (shape_of g d) (repeat g d) (grids_ok g d Hg) popsf tf false k 0 Hwf fuel th th 0 T phi phi eq_refl).
    destruct (integrate_tdep fuel (shape_of g d) (repeat g d) popsf th tf false 0 T phi); cbn [olincomb option_map]; [|reflexivity].
    rewrite lincomb_self. reflexivity.
  Qed.

  (** ** whole programs *)
  Variable ovf : R.
  Variable quad : (R -> R) -> R -> R -> R.
  Variable pts : nat.
  Variable grid0 : list R.
  Variable ns : list nat.
  Notation St := (@state R).
  Notation kindof := (@kind_of R NumR).
  Notation csemp := (csem ovf quad fuel pts grid0 ns tf).
  Notation csemi := (csem_instr ovf quad fuel pts grid0 ns tf).

  (** every density of a run lives on the run's grid *)
  Definition on_grid0 (s : St) : Prop :=
    match s with SGrid g | SPhi g _ _ => g = grid0 | _ => True end.
  (** no pivot of any line system of any sweep of this integration vanishes (hypothesis of the rescale theorem of C03);
      not needed when the units do not change (c = 1) *)
  Definition ns_ok (nus : list (R -> R)) (ms : list (list (R -> R))) (gs hs : list (R -> R)) (be : R -> R) (fr nm : list bool) : Prop :=
    c = 1 \/ forall s dt, 0 < dt ->
      nonsingular (shape_of grid0 (length nus)) (repeat grid0 (length nus)) (popsf_of nus ms gs hs be fr nm s) false dt.

  Definition rel_instr (env env' : nat -> R) (i i' : instr) : Prop :=
    match i, i' with
    | IGrid, IGrid => True
    | IPhi1D nu th g h be, IPhi1D nu' th' g' h' be' =>
        ev0 env' nu' = c * ev0 env nu /\ ev0 env' th' = k * ev0 env th / c /\ ev0 env' g' = ev0 env g / c /\
        ev0 env' h' = ev0 env h /\ ev0 env' be' = ev0 env be
    | ISplit d p, ISplit d' p' => d = d' /\ p = p'
    | IAdmixNew d fs, IAdmixNew d' fs' => d = d' /\ map (ev0 env') fs' = map (ev0 env) fs
    | IPulse d sr t fs, IPulse d' sr' t' fs' => d = d' /\ sr = sr' /\ t = t' /\ map (ev0 env') fs' = map (ev0 env) fs
    | IIntegrate T nus ms gs hs th be fr nm, IIntegrate T' nus' ms' gs' hs' th' be' fr' nm' =>
        fr = fr' /\ nm = nm' /\ length nus' = length nus /\ map (@length _) ms' = map (@length _) ms /\
        length gs' = length gs /\ length hs' = length hs /\
        rel_integrate (ev0 env T) (map (evf env) nus) (map (map (evf env)) ms) (map (evf env) gs) (map (evf env) hs) (evf env th) (evf env be)
                      (ev0 env' T') (map (evf env') nus') (map (map (evf env')) ms') (map (evf env') gs') (map (evf env') hs')
                      (evf env' th') (evf env' be') /\
        ns_ok (map (evf env) nus) (map (map (evf env)) ms) (map (evf env) gs) (map (evf env) hs) (evf env be) fr nm
    | IRemove a, IRemove b => a = b
    | IReorder a, IReorder b => a = b
    | IFromPhi d, IFromPhi d' => d = d'
    | IFromPhiInb d Fs pl, IFromPhiInb d' Fs' pl' =>
        d = d' /\ map (ev0 env') Fs' = map (ev0 env) Fs /\ map (ev0 env') pl' = map (ev0 env) pl
    | IMsCmd _, IMsCmd _ => True
    | _, _ => False
    end.
  Fixpoint rel_prog (env env' : nat -> R) (p p' : prog) : Prop :=
    match p, p' with
    | Done, Done => True
    | Step i r, Step i' r' => rel_instr env env' i i' /\ rel_prog env env' r r'
    | IfGe a b p1 p2, IfGe a' b' p1' p2' =>
        (ev0 env' b' <= ev0 env' a' <-> ev0 env b <= ev0 env a) /\ rel_prog env env' p1 p1' /\ rel_prog env env' p2 p2'
    | _, _ => False
    end.

  Lemma on_grid0_mkphi g d phi : g = grid0 -> on_grid0 (mkphi g d phi).
  Proof. intro. unfold mkphi. destruct (phi_ok g d phi); cbn; auto. Qed.
  Lemma on_grid0_mkphi_opt g d r : g = grid0 -> on_grid0 (mkphi_opt g d r).
  Proof. intro. destruct r; cbn [mkphi_opt]; [apply on_grid0_mkphi; assumption|exact I]. Qed.
  Lemma on_grid0_mkfs r : on_grid0 (mkfs ns r).
  Proof. destruct r; exact I. Qed.

  Lemma on_grid0_instr i env s : on_grid0 s -> on_grid0 (csemi i env s).
  Proof.
    intro Hs. unfold csem_instr. destruct i; cbn [sem_instr].
    - unfold c_grid. destruct (applicable _ _); [|exact Hs]. destruct s; cbn [do_grid]; try exact I.
      destruct (Nat.eqb (length grid0) pts); [|exact I]. unfold mkgrid. destruct (grid_ok grid0); cbn; auto.
    - unfold c_phi1d. destruct (applicable _ _); [|exact Hs]. destruct s; cbn [do_phi1d]; try exact I. apply on_grid0_mkphi, Hs.
    - unfold c_split. destruct (applicable _ _); [|exact I]. destruct s; cbn [do_split]; try exact I.
      destruct (Nat.eqb d 1); [apply on_grid0_mkphi, Hs|]. destruct (split_index d parent); [apply on_grid0_mkphi_opt, Hs|exact I].
    - unfold c_admixnew. destruct (applicable _ _); [|exact Hs]. destruct s; cbn [do_admixnew]; try exact I. apply on_grid0_mkphi_opt, Hs.
    - unfold c_pulse. destruct (applicable _ _); [|exact Hs]. destruct s; cbn [do_pulse]; try exact I.
      destruct (pulse_index d srcs dst); [apply on_grid0_mkphi_opt, Hs|exact I].
    - unfold c_integrate. destruct (applicable _ _); [|exact Hs]. destruct s; cbn [do_integrate]; try exact I.
      destruct (nltb _ _); [exact I|apply on_grid0_mkphi_opt, Hs].
    - unfold c_remove. destruct (applicable _ _); [|exact Hs]. destruct s; cbn [do_remove]; try exact I. apply on_grid0_mkphi, Hs.
    - unfold c_reorder. destruct (applicable _ _); [|exact Hs]. destruct s; cbn [do_reorder]; try exact I. apply on_grid0_mkphi_opt, Hs.
    - unfold c_fromphi. destruct (applicable _ _); [|exact Hs]. destruct s; cbn [do_fromphi]; try exact I. apply on_grid0_mkfs.
    - unfold c_fromphi_inb. destruct (applicable _ _); [|exact Hs]. destruct s; cbn [do_fromphi_inb]; try exact I. apply on_grid0_mkfs.
    - exact Hs.
  Qed.

  Lemma instr_scaling env env' i i' s : rel_instr env env' i i' -> on_grid0 s ->
    csemi i' env' (sscale k s) = sscale k (csemi i env s).
  Proof.
    intros Hrel Hg0. unfold csem_instr.
    destruct i, i'; cbn [rel_instr] in Hrel; try contradiction; cbn [sem_instr].
    - (* grid *) unfold c_grid. rewrite kind_sscale. destruct (applicable IGrid (kindof s)) eqn:Ha; [|reflexivity].
      destruct (kindof s) eqn:Ek; try (cbn [applicable] in Ha; discriminate).
      + apply kind_KInit in Ek. subst s. cbn [sscale do_grid].
        destruct (Nat.eqb (length grid0) pts); [|reflexivity]. unfold mkgrid. destruct (grid_ok grid0); reflexivity.
      + apply kind_KErr in Ek. subst s. reflexivity.
    - (* phi1d *) destruct Hrel as [E1 [E2 [E3 [E4 E5]]]]. unfold c_phi1d. rewrite kind_sscale.
      destruct (applicable _ (kindof s)) eqn:Ha; [|reflexivity].
      destruct (kindof s) eqn:Ek; try (cbn [applicable] in Ha; discriminate).
      + apply kind_KGrid in Ek. destruct Ek as [g [-> _]]. cbn [sscale do_phi1d].
        rewrite E1, E2, E3, E4, E5, (phi_1D_rescale ovf quad g c k _ _ _ _ _ cne). apply mkphi_vscal.
      + apply kind_KErr in Ek. subst s. reflexivity.
    - (* split *) destruct Hrel as [<- <-]. unfold c_split. rewrite kind_sscale.
      destruct (applicable _ (kindof s)) eqn:Ha; [|reflexivity].
      destruct (kindof s) eqn:Ek; try (cbn [applicable] in Ha; discriminate).
      + apply kind_KPhi in Ek. destruct Ek as [g [phi [-> _]]]. cbn [sscale do_split].
        destruct (Nat.eqb d 1); [rewrite phi_1D_to_2D_scal; apply mkphi_vscal|].
        destruct (split_index d parent); [|reflexivity]. rewrite run_desc_scal. apply mkphi_opt_vscal.
      + apply kind_KErr in Ek. subst s. reflexivity.
    - (* admixnew *) destruct Hrel as [<- Efs]. unfold c_admixnew. rewrite kind_sscale, Efs.
      replace (applicable (IAdmixNew d (dummy (map (ev0 env) fs0))) (kindof s)) with (applicable (IAdmixNew d (dummy (map (ev0 env) fs))) (kindof s))
        by (unfold applicable; rewrite !dummy_length, <- Efs, !map_length; reflexivity).
      destruct (applicable _ (kindof s)) eqn:Ha; [|reflexivity].
      destruct (kindof s) eqn:Ek; try (cbn [applicable] in Ha; discriminate).
      + apply kind_KPhi in Ek. destruct Ek as [g [phi [-> _]]]. cbn [sscale do_admixnew].
        rewrite run_desc_scal. apply mkphi_opt_vscal.
      + apply kind_KErr in Ek. subst s. reflexivity.
    - (* pulse *) destruct Hrel as [<- [<- [<- Efs]]]. unfold c_pulse. rewrite kind_sscale, Efs.
      destruct (applicable _ (kindof s)) eqn:Ha; [|reflexivity].
      destruct (kindof s) eqn:Ek; try (cbn [applicable] in Ha; discriminate).
      + apply kind_KPhi in Ek. destruct Ek as [g [phi [-> _]]]. cbn [sscale do_pulse].
        destruct (pulse_index d srcs dst); [|reflexivity]. rewrite run_desc_scal. apply mkphi_opt_vscal.
      + apply kind_KErr in Ek. subst s. reflexivity.
    - (* integrate *)
      destruct Hrel as [<- [<- [Ln [Lm [Lg [Lh [Hri Hns]]]]]]]. unfold c_integrate. rewrite kind_sscale.
      replace (applicable (IIntegrate (Const 0) (dummy (map (evf env') nus0)) (map dummy (map (map (evf env')) ms0)) (dummy (map (evf env') gammas0))
                                      (dummy (map (evf env') hs0)) (Const 0) (Const 0) frozen nomut) (kindof s))
        with (applicable (IIntegrate (Const 0) (dummy (map (evf env) nus)) (map dummy (map (map (evf env)) ms)) (dummy (map (evf env) gammas))
                                      (dummy (map (evf env) hs)) (Const 0) (Const 0) frozen nomut) (kindof s)).
      2:{ unfold applicable. rewrite !dummy_length, !map_length_dummy, !map_length, Ln, Lg, Lh, !map_map.
          replace (map (fun x => length (map (evf env') x)) ms0) with (map (@length _) ms0) by (apply map_ext; intro; symmetry; apply map_length).
          replace (map (fun x => length (map (evf env) x)) ms) with (map (@length _) ms) by (apply map_ext; intro; symmetry; apply map_length).
          rewrite Lm. reflexivity. }
      destruct (applicable _ (kindof s)) eqn:Ha; [|reflexivity].
      destruct (kindof s) eqn:Ek; try (cbn [applicable] in Ha; discriminate).
      + apply kind_KPhi in Ek. destruct Ek as [g [phi [-> Hphi]]]. cbn [sscale]. cbn [on_grid0] in Hg0. subst g.
        cbn [applicable] in Ha. unfold integrate_shape_ok in Ha.
        repeat (apply andb_true_iff in Ha; let H' := fresh "H" in destruct Ha as [Ha H']).
        apply Nat.eqb_eq in Ha. rewrite dummy_length in Ha.
        apply (do_integrate_scal _ _ _ _ _ _ _ _ _ _ _ _ _ _ frozen nomut grid0 d phi Hri Hphi Ha).
        rewrite <- Ha. exact Hns.
      + apply kind_KErr in Ek. subst s. reflexivity.
    - (* remove *) subst k1. unfold c_remove. rewrite kind_sscale.
      destruct (applicable _ (kindof s)) eqn:Ha; [|reflexivity].
      destruct (kindof s) eqn:Ek; try (cbn [applicable] in Ha; discriminate).
      + apply kind_KPhi in Ek. destruct Ek as [g [phi [-> _]]]. cbn [sscale do_remove remove_pop snd].
        rewrite marginal_np_scal. apply mkphi_vscal.
      + apply kind_KErr in Ek. subst s. reflexivity.
    - (* reorder *) subst perm0. unfold c_reorder. rewrite kind_sscale.
      destruct (applicable _ (kindof s)) eqn:Ha; [|reflexivity].
      destruct (kindof s) eqn:Ek; try (cbn [applicable] in Ha; discriminate).
      + apply kind_KPhi in Ek. destruct Ek as [g [phi [-> _]]]. cbn [sscale do_reorder].
        rewrite reorder_pops_scal. apply mkphi_opt_vscal.
      + apply kind_KErr in Ek. subst s. reflexivity.
    - (* fromphi *) subst d0. unfold c_fromphi. rewrite kind_sscale.
      destruct (applicable _ (kindof s)) eqn:Ha; [|reflexivity].
      destruct (kindof s) eqn:Ek; try (cbn [applicable] in Ha; discriminate).
      + apply kind_KPhi in Ek. destruct Ek as [g [phi [-> Hphi]]]. cbn [sscale do_fromphi].
        cbn [applicable] in Ha. apply Nat.eqb_eq in Ha. subst d0.
        rewrite from_phi_scal by (apply (phi_ok_length g d phi Hphi)). apply mkfs_vscal.
      + apply kind_KErr in Ek. subst s. reflexivity.
    - (* fromphi_inb *) destruct Hrel as [<- [EF Epl]]. unfold c_fromphi_inb. rewrite kind_sscale, EF, Epl.
      replace (applicable (IFromPhiInb d (dummy (map (ev0 env) Fs0)) (ones (map (ev0 env) ploidy0))) (kindof s))
        with (applicable (IFromPhiInb d (dummy (map (ev0 env) Fs)) (ones (map (ev0 env) ploidy))) (kindof s)).
      2:{ assert (L1 : length Fs0 = length Fs) by (rewrite <- (map_length (ev0 env') Fs0), EF, map_length; reflexivity).
          assert (L2 : length ploidy0 = length ploidy) by (rewrite <- (map_length (ev0 env') ploidy0), Epl, map_length; reflexivity).
          unfold applicable, ones. rewrite !dummy_length, !map_length, L1, L2.
          replace (map nat_const (map (fun _ : R => Const 1) (map (ev0 env) ploidy0)))
            with (map nat_const (map (fun _ : R => Const 1) (map (ev0 env) ploidy))); [reflexivity|].
          rewrite !map_map. clear - L2. revert ploidy0 L2. induction ploidy as [|a l IH]; intros [|b l'] L; try discriminate; [reflexivity|].
          cbn [map]. f_equal. apply IH. injection L as L. exact L. }
      destruct (applicable _ (kindof s)) eqn:Ha; [|reflexivity].
      destruct (kindof s) eqn:Ek; try (cbn [applicable] in Ha; discriminate).
      + apply kind_KPhi in Ek. destruct Ek as [g [phi [-> Hphi]]]. cbn [sscale do_fromphi_inb].
        cbn [applicable] in Ha. apply andb_true_iff in Ha. destruct Ha as [Ha _].
        apply andb_true_iff in Ha. destruct Ha as [Ha _]. apply andb_true_iff in Ha. destruct Ha as [Ha _].
        apply Nat.eqb_eq in Ha. subst d0.
        rewrite from_phi_inbreeding_scal by (apply (phi_ok_length g d phi Hphi)). apply mkfs_vscal.
      + apply kind_KErr in Ek. subst s. reflexivity.
    - reflexivity.
  Qed.

  (** ** the scaling law of whole programs *)
  Theorem csem_scaling : forall p p' env env' s, rel_prog env env' p p' -> on_grid0 s ->
    csemp p' env' (sscale k s) = sscale k (csemp p env s).
  Proof.
    induction p as [|i r IH|a b p1 IH1 p2 IH2]; intros p' env env' s Hrel Hg0; destruct p'; cbn [rel_prog] in Hrel; try contradiction.
    - reflexivity.
    - destruct Hrel as [Hi Hr]. unfold csem. cbn [sem].
      fold (csemi i0 env' (sscale k s)). fold (csemi i env s).
      rewrite (instr_scaling env env' i i0 s Hi Hg0). apply IH; [exact Hr|apply on_grid0_instr; exact Hg0].
    - destruct Hrel as [Hab [H1 H2]]. unfold csem in *. cbn [sem].
      destruct (Rle_dec (ev0 env' b0) (ev0 env' a0)) as [L|L], (Rle_dec (ev0 env b) (ev0 env a)) as [L'|L'];
        try (exfalso; tauto); [apply IH1|apply IH2]; assumption.
  Qed.
End Scaling.

(** ** special cases *)
Lemma vscal_1 (l : list R) : vscal 1 l = l.
Proof. unfold vscal. rewrite <- (map_id l) at 2. apply map_ext. intro; ring. Qed.
Lemma sscale_1 s : sscale 1 s = s.
Proof. destruct s; cbn [sscale]; rewrite ?vscal_1; reflexivity. Qed.

(** k = 1: a change of the reference size leaves every state of the run unchanged *)
Theorem csem_rescale_invariant c (Hc : 0 < c) fuel tf (Htf : 0 < tf) ovf quad pts grid0 ns p p' env env' s :
  rel_prog c 1 grid0 env env' p p' -> on_grid0 grid0 s ->
  csem ovf quad fuel pts grid0 ns tf p' env' s = csem ovf quad fuel pts grid0 ns tf p env s.
Proof.
  intros Hrel Hg. rewrite <- (sscale_1 s) at 1. rewrite (csem_scaling c 1 Hc fuel tf Htf ovf quad pts grid0 ns p p' env env' s Hrel Hg).
  apply sscale_1.
Qed.

(** c = 1: multiplying every theta0 of a program by a constant multiplies the result; no side condition *)
Definition scale_theta_instr (q : Q) (i : instr) : instr :=
  match i with
  | IPhi1D nu th g h be => IPhi1D nu (Mul (Const q) th) g h be
  | IIntegrate T nus ms gs hs th be fr nm => IIntegrate T nus ms gs hs (Mul (Const q) th) be fr nm
  | _ => i
  end.
Fixpoint scale_theta (q : Q) (p : prog) : prog :=
  match p with
  | Done => Done
  | Step i r => Step (scale_theta_instr q i) (scale_theta q r)
  | IfGe a b p1 p2 => IfGe a b (scale_theta q p1) (scale_theta q p2)
  end.

Lemma map_Rmult_1 (l : list R) : map (Rmult 1) l = l.
Proof. rewrite <- (map_id l) at 2. apply map_ext. intro; ring. Qed.
Lemma map_div_1 (l : list R) : map (fun m => m / 1) l = l.
Proof. rewrite <- (map_id l) at 2. apply map_ext. intro; field. Qed.
Lemma map_map_div_1 (L : list (list R)) : map (map (fun m => m / 1)) L = L.
Proof. rewrite <- (map_id L) at 2. apply map_ext. intro; apply map_div_1. Qed.
Lemma rel_scale_theta q grid0 env : forall p, rel_prog 1 (Q2R q) grid0 env env p (scale_theta q p).
Proof.
  induction p as [|i r IH|a b p1 IH1 p2 IH2]; cbn [scale_theta rel_prog]; auto.
  - split; [|exact IH]. destruct i; cbn [scale_theta_instr rel_instr]; auto.
    + repeat split; unfold ev0; cbn [eval]; field.
    + repeat split; try reflexivity.
      * ring.
      * intro t. rewrite Rmult_1_l, map_Rmult_1. reflexivity.
      * intro t. rewrite Rmult_1_l, map_map_div_1. reflexivity.
      * intro t. rewrite Rmult_1_l, map_div_1. reflexivity.
      * intro t. rewrite Rmult_1_l. reflexivity.
      * intro t. rewrite Rmult_1_l. unfold evf. cbn [eval]. field.
      * intro t. rewrite Rmult_1_l. reflexivity.
      * left. reflexivity.
  - split; [tauto|]. split; assumption.
Qed.

Theorem csem_theta0_linear q fuel tf (Htf : 0 < tf) ovf quad pts grid0 ns p env s : on_grid0 grid0 s ->
  csem ovf quad fuel pts grid0 ns tf (scale_theta q p) env (sscale (Q2R q) s)
  = sscale (Q2R q) (csem ovf quad fuel pts grid0 ns tf p env s).
Proof. intro Hg. apply (csem_scaling 1 (Q2R q) Rlt_0_1 fuel tf Htf ovf quad pts grid0 ns p _ env env s (rel_scale_theta q grid0 env p) Hg). Qed.

Lemma prog_ok_scale_theta q : forall p k0, prog_ok (scale_theta q p) k0 = prog_ok p k0.
Proof.
  induction p as [|i r IH|a b p1 IH1 p2 IH2]; intro k0; cbn [scale_theta prog_ok]; [reflexivity| |rewrite IH1, IH2; reflexivity].
  replace (applicable (scale_theta_instr q i) k0) with (applicable i k0) by (destruct i; reflexivity).
  replace (next_kind (scale_theta_instr q i) k0) with (next_kind i k0) by (destruct i; reflexivity).
  rewrite IH. reflexivity.
Qed.

(** ... of the spectrum returned by the strict interpreter *)
Theorem run_prog_theta0_linear q fuel tf (Htf : 0 < tf) ovf quad pts grid0 ns p params : prog_ok p KInit = true ->
  @run_prog R NumR ovf quad fuel pts grid0 ns tf (scale_theta q p) params
  = option_map (vscal (Q2R q)) (@run_prog R NumR ovf quad fuel pts grid0 ns tf p params).
Proof.
  intro Hok. rewrite !run_prog_is_sem by (rewrite ?prog_ok_scale_theta; exact Hok).
  change (@SInit R) with (sscale (Q2R q) (@SInit R)) at 1.
  rewrite (csem_theta0_linear q fuel tf Htf ovf quad pts grid0 ns p _ SInit I).
  destruct (csem ovf quad fuel pts grid0 ns tf p (env_of_list params) SInit); reflexivity.
Qed.

(** ** a change of the reference size, as a program transformation: every size and time argument of every instruction is
    multiplied by q, every migration rate, selection coefficient and theta0 divided by q, time-dependent arguments are
    read at t / q.  The transformed program computes the same states (hypothesis: no vanishing pivot in the sweeps of
    the integrations, as in the rescale theorem of C03). *)
Fixpoint tsubst (r : expr) (e : expr) : expr :=
  match e with
  | TVar => r
  | Var _ | Const _ => e
  | Add a b => Add (tsubst r a) (tsubst r b)
  | Sub a b => Sub (tsubst r a) (tsubst r b)
  | Mul a b => Mul (tsubst r a) (tsubst r b)
  | Div a b => Div (tsubst r a) (tsubst r b)
  | Neg a => Neg (tsubst r a)
  | Exp a => Exp (tsubst r a)
  | Log a => Log (tsubst r a)
  | Pow a b => Pow (tsubst r a) (tsubst r b)
  end.
Lemma tsubst_eval r : forall e env t, eval (tsubst r e) env t = eval e env (eval r env t).
Proof. induction e; intros env t; cbn [tsubst eval]; rewrite ?IHe, ?IHe1, ?IHe2; reflexivity. Qed.

Section RescaleProg.
  Variable q : Q.
  Definition told : expr := Div TVar (Const q).                       (* the old time t / q *)
  Definition size_arg (e : expr) : expr := Mul (Const q) (tsubst told e).
  Definition rate_arg (e : expr) : expr := Div (tsubst told e) (Const q).
  Definition free_arg (e : expr) : expr := tsubst told e.
  Definition rescale_instr (i : instr) : instr :=
    match i with
    | IPhi1D nu th g h be => IPhi1D (Mul (Const q) nu) (Div th (Const q)) (Div g (Const q)) h be
    | IIntegrate T nus ms gs hs th be fr nm =>
        IIntegrate (Mul (Const q) T) (map size_arg nus) (map (map rate_arg) ms) (map rate_arg gs) (map free_arg hs)
                   (rate_arg th) (free_arg be) fr nm
    | _ => i
    end.
  Fixpoint rescale_prog (p : prog) : prog :=
    match p with
    | Done => Done
    | Step i r => Step (rescale_instr i) (rescale_prog r)
    | IfGe a b p1 p2 => IfGe a b (rescale_prog p1) (rescale_prog p2)
    end.

  Hypothesis Hq : 0 < Q2R q.
  Let c := Q2R q.
  Let cne : c <> 0. Proof. unfold c. lra. Qed.
  Variable grid0 : list R.

  (** the side condition of the rescale theorem, for every integration of the program *)
  Definition ns_instr (env : nat -> R) (i : instr) : Prop :=
    match i with
    | IIntegrate T nus ms gs hs th be fr nm =>
        forall s dt, 0 < dt ->
          nonsingular (shape_of grid0 (length nus)) (repeat grid0 (length nus))
                      (popsf_of (map (evf env) nus) (map (map (evf env)) ms) (map (evf env) gs) (map (evf env) hs) (evf env be) fr nm s) false dt
    | _ => True
    end.
  Fixpoint ns_prog (env : nat -> R) (p : prog) : Prop :=
    match p with
    | Done => True
    | Step i r => ns_instr env i /\ ns_prog env r
    | IfGe _ _ p1 p2 => ns_prog env p1 /\ ns_prog env p2
    end.

  Lemma old_time env t : eval told env (c * t) = t.
  Proof. unfold told, c. cbn [eval]. field. exact cne. Qed.

  Lemma rel_rescale_prog env : forall p, ns_prog env p -> rel_prog c 1 grid0 env env p (rescale_prog p).
  Proof.
    induction p as [|i r IH|a b p1 IH1 p2 IH2]; cbn [rescale_prog rel_prog ns_prog]; auto.
    - intros [Hi Hr]. split; [|apply IH; exact Hr]. destruct i; cbn [rescale_instr rel_instr]; auto.
      + repeat split; unfold ev0; cbn [eval]; fold c; field; exact cne.
      + cbn [ns_instr] in Hi.
        split; [reflexivity|]. split; [reflexivity|]. split; [rewrite !map_length; reflexivity|].
        split; [rewrite !map_map; apply map_ext; intro; rewrite map_length; reflexivity|].
        split; [rewrite !map_length; reflexivity|]. split; [rewrite !map_length; reflexivity|].
        split; [|right; rewrite map_length; exact Hi].
        unfold rel_integrate.
        split; [unfold ev0; cbn [eval]; reflexivity|].
        split.
        { intro t. unfold at_t. rewrite !map_map. apply map_ext. intro e. unfold evf, size_arg. cbn [eval]. fold c.
          rewrite tsubst_eval, old_time. reflexivity. }
        split.
        { intro t. rewrite !map_map. apply map_ext. intro row. unfold at_t. rewrite !map_map. apply map_ext. intro e.
          unfold evf, rate_arg. cbn [eval]. fold c. rewrite tsubst_eval, old_time. reflexivity. }
        split.
        { intro t. unfold at_t. rewrite !map_map. apply map_ext. intro e. unfold evf, rate_arg. cbn [eval]. fold c.
          rewrite tsubst_eval, old_time. reflexivity. }
        split.
        { intro t. unfold at_t. rewrite !map_map. apply map_ext. intro e. unfold evf, free_arg. rewrite tsubst_eval, old_time. reflexivity. }
        split.
        { intro t. unfold evf, rate_arg. cbn [eval]. fold c. rewrite tsubst_eval, old_time. field. exact cne. }
        intro t. unfold evf, free_arg. rewrite tsubst_eval, old_time. reflexivity.
    - intros [H1 H2]. split; [tauto|]. split; [apply IH1|apply IH2]; assumption.
  Qed.

  Theorem csem_rescale_prog fuel tf (Htf : 0 < tf) ovf quad pts ns p env s : ns_prog env p -> on_grid0 grid0 s ->
    csem ovf quad fuel pts grid0 ns tf (rescale_prog p) env s = csem ovf quad fuel pts grid0 ns tf p env s.
  Proof.
    intros Hns Hg. apply (csem_rescale_invariant c Hq fuel tf Htf ovf quad pts grid0 ns p _ env env s (rel_rescale_prog env p Hns) Hg).
  Qed.

  Lemma prog_ok_rescale_prog : forall p k0, prog_ok (rescale_prog p) k0 = prog_ok p k0.
  Proof.
    induction p as [|i r IH|a b p1 IH1 p2 IH2]; intro k0; cbn [rescale_prog prog_ok]; [reflexivity| |rewrite IH1, IH2; reflexivity].
    replace (applicable (rescale_instr i) k0) with (applicable i k0).
    2:{ destruct i; try reflexivity. unfold rescale_instr, applicable. rewrite !map_length, !map_map.
        replace (map (fun x => length (map rate_arg x)) ms) with (map (@length _) ms) by (apply map_ext; intro; symmetry; apply map_length).
        reflexivity. }
    replace (next_kind (rescale_instr i) k0) with (next_kind i k0) by (destruct i; reflexivity).
    rewrite IH. reflexivity.
  Qed.

  (** the spectrum returned by the strict interpreter does not depend on the reference size *)
  Theorem run_prog_rescale_invariant fuel tf (Htf : 0 < tf) ovf quad pts ns p params :
    prog_ok p KInit = true -> ns_prog (env_of_list params) p ->
    @run_prog R NumR ovf quad fuel pts grid0 ns tf (rescale_prog p) params = @run_prog R NumR ovf quad fuel pts grid0 ns tf p params.
  Proof.
    intros Hok Hns. rewrite !run_prog_is_sem by (rewrite ?prog_ok_rescale_prog; exact Hok).
    rewrite (csem_rescale_prog fuel tf Htf ovf quad pts ns p _ SInit Hns I). reflexivity.
  Qed.
End RescaleProg.
