(** finite sums over index ranges (R instance) *)
From Coq Require Import Reals List Lra Lia Arith.
From Dadi Require Import Base.Num Base.NumR.
Import ListNotations.
Local Open Scope R_scope.

Definition rsum (n : nat) (f : nat -> R) : R := nsum (map f (seq 0 n)).

Lemma nsum_cons (x : R) l : nsum (x :: l) = x + nsum l.
Proof. reflexivity. Qed.
Lemma nsum_app (l1 l2 : list R) : nsum (l1 ++ l2) = nsum l1 + nsum l2.
Proof. induction l1 as [|x l IH]; unfold nsum in *; cbn [app fold_right]; numR; [lra|]. rewrite IH. lra. Qed.

Lemma rsum_S n f : rsum (S n) f = rsum n f + f n.
Proof. unfold rsum. rewrite seq_S, map_app, nsum_app. cbn [map plus]. unfold nsum at 2. cbn. numR. lra. Qed.
Lemma rsum_0 f : rsum 0 f = 0.
Proof. reflexivity. Qed.

Lemma rsum_ext n f g : (forall i, (i < n)%nat -> f i = g i) -> rsum n f = rsum n g.
Proof. induction n as [|n IH]; intros Hfg; [reflexivity|]. rewrite !rsum_S, IH, Hfg by (intros; try apply Hfg; lia). reflexivity. Qed.
Lemma rsum_add n f g : rsum n (fun i => f i + g i) = rsum n f + rsum n g.
Proof. induction n as [|n IH]; [rewrite !rsum_0; lra|]. rewrite !rsum_S, IH. lra. Qed.
Lemma rsum_scal n c f : rsum n (fun i => c * f i) = c * rsum n f.
Proof. induction n as [|n IH]; [rewrite !rsum_0; lra|]. rewrite !rsum_S, IH. lra. Qed.
Lemma rsum_telescope n (g : nat -> R) : rsum n (fun i => g (S i) - g i) = g n - g 0%nat.
Proof. induction n as [|n IH]; [rewrite rsum_0; lra|]. rewrite rsum_S, IH. lra. Qed.
Lemma rsum_zero n f : (forall i, (i < n)%nat -> f i = 0) -> rsum n f = 0.
Proof. induction n as [|n IH]; intros Hf; [reflexivity|]. rewrite rsum_S, IH, Hf by (intros; try apply Hf; lia). lra. Qed.
(** a sum with a single non-zero term *)
Lemma rsum_single n f k : (k < n)%nat -> (forall i, (i < n)%nat -> i <> k -> f i = 0) -> rsum n f = f k.
Proof.
  induction n as [|n IH]; intros Hk Hf; [lia|]. rewrite rsum_S.
  destruct (Nat.eq_dec k n) as [->|Hne].
  - rewrite rsum_zero; [lra|]. intros i Hi. apply Hf; lia.
  - rewrite IH by (try lia; intros; apply Hf; lia). rewrite (Hf n) by lia. lra.
Qed.
