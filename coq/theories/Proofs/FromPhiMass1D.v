(** C05: the entries of the 1-D semi-analytic spectrum sum to the trapezoid mass of phi (every n, every grid). *)
From Coq Require Import ZArith NArith Reals List Lra Lia Arith.
From Dadi Require Import Base.Num Base.NumR Model.FromPhi Proofs.FromPhiBinom Proofs.FromPhiBase.
Import ListNotations.
Local Open Scope R_scope.

Lemma nth_map_seq {A} (f : nat -> A) n d dflt : (d < n)%nat -> nth d (map f (seq 0 n)) dflt = f d.
Proof. intros Hd. rewrite (nth_indep _ dflt (f 0%nat)) by (rewrite map_length, seq_length; assumption).
  rewrite map_nth, seq_nth by assumption. reflexivity. Qed.

Lemma bpmf_length N x : length (@bpmf R _ N x) = S N.
Proof. unfold bpmf. rewrite map_length, seq_length. reflexivity. Qed.
Lemma beta_col_length sh n x : length (@beta_col R _ sh n x) = S n.
Proof. unfold beta_col. rewrite map_length, seq_length. reflexivity. Qed.
Lemma beta_col_nth sh n x d : (d <= n)%nat ->
  nth d (@beta_col R _ sh n x) 0 = rsum (skipn (d + sh) (bpmf (n + sh) x)).
Proof. intros Hd. unfold beta_col. rewrite nth_map_seq by lia. reflexivity. Qed.

Lemma bpmf_wsum w N x : wsum w 0 (@bpmf R _ N x) = rsum (map (fun j => w j * B N j x) (seq 0 (S N))).
Proof. unfold bpmf. rewrite wsum_seq. apply rsum_map_ext. intros j _. rewrite bker_B. reflexivity. Qed.

(** sum_d I_x(d+1, n-d+1) = (n+1) x *)
Lemma beta1_sum n x : rsum (map (fun d => nth d (@beta_col R _ 1 n x) 0) (seq 0 (S n))) = INR (n + 1) * x.
Proof.
  rewrite (rsum_map_ext _ (fun d => rsum (skipn (S d) (bpmf (n + 1) x)))).
  2:{ intros d Hd. apply in_seq in Hd. rewrite beta_col_nth by lia. rewrite Nat.add_1_r. reflexivity. }
  pose proof (tails1 (bpmf (n + 1) x)) as T. rewrite bpmf_length in T.
  replace (S (n + 1) - 1)%nat with (S n) in T by lia. rewrite T, bpmf_wsum.
  apply B_mean_gen. lia. Qed.

(** sum_d (d+1) I_x(d+2, n-d+1) = C(n+2,2) x^2 *)
Lemma beta2_sum n x : rsum (map (fun d => INR (S d) * nth d (@beta_col R _ 2 n x) 0) (seq 0 (S n))) = ch2 (n + 2) * x * x.
Proof.
  rewrite (rsum_map_ext _ (fun d => INR (S d) * rsum (skipn (S (S d)) (bpmf (n + 2) x)))).
  2:{ intros d Hd. apply in_seq in Hd. rewrite beta_col_nth by lia. replace (d + 2)%nat with (S (S d)) by lia. reflexivity. }
  pose proof (tails2 (bpmf (n + 2) x)) as T. rewrite bpmf_length in T.
  replace (S (n + 2) - 2)%nat with (S n) in T by lia. rewrite T, bpmf_wsum.
  apply B_ch2_gen. lia. Qed.

(** ** sums over the intervals of a grid *)
Fixpoint ivsum (h : R -> R -> R -> R -> R) (xs ps : list R) : R :=
  match xs, ps with
  | x0 :: ((x1 :: _) as xs'), p0 :: ((p1 :: _) as ps') => h x0 x1 p0 p1 + ivsum h xs' ps'
  | _, _ => 0
  end.

Lemma trapz_ivsum xs ys : @trapz R _ xs ys = ivsum (fun x0 x1 y0 y1 => (x1 - x0) * (y1 + y0) / 2) xs ys.
Proof. revert ys. induction xs as [|x0 xs IH]; intros ys; [reflexivity|].
  destruct xs as [|x1 xs]; [destruct ys; reflexivity|].
  destruct ys as [|y0 [|y1 ys]]; try reflexivity.
  change (@trapz R _ (x0 :: x1 :: xs) (y0 :: y1 :: ys)) with ((x1 - x0) * (y1 + y0) / n2 + @trapz R _ (x1 :: xs) (y1 :: ys))%num.
  change (ivsum ?h (x0 :: x1 :: xs) (y0 :: y1 :: ys)) with (h x0 x1 y0 y1 + ivsum h (x1 :: xs) (y1 :: ys)).
  rewrite IH. unfold n2. numR. reflexivity. Qed.

Lemma rsum_adj_points {C} (cf : R -> C) (g : (R * R * C) * (R * R * C) -> R) (h : R -> R -> R -> R -> R) :
  (forall x0 p0 x1 p1, g ((x0, p0, cf x0), (x1, p1, cf x1)) = h x0 x1 p0 p1) ->
  forall xs ps, rsum (map g (adj (combine (combine xs ps) (map cf xs)))) = ivsum h xs ps.
Proof. intros E. induction xs as [|x0 xs IH]; intros ps; [reflexivity|].
  destruct xs as [|x1 xs]; [destruct ps as [|p0 [|p1 ps]]; reflexivity|].
  destruct ps as [|p0 ps]; [reflexivity|].
  destruct ps as [|p1 ps]; [reflexivity|].
  specialize (IH (p1 :: ps)).
  change (ivsum h (x0 :: x1 :: xs) (p0 :: p1 :: ps)) with (h x0 x1 p0 p1 + ivsum h (x1 :: xs) (p1 :: ps)).
  rewrite <- IH, <- E. unfold adj. cbn [combine map tl]. rewrite rsum_cons. reflexivity. Qed.

Lemma ivsum_ext h1 h2 xs ps : (forall a b c d, h1 a b c d = h2 a b c d) -> ivsum h1 xs ps = ivsum h2 xs ps.
Proof. intros E. revert ps. induction xs as [|x0 xs IH]; intros ps; [reflexivity|].
  destruct xs as [|x1 xs]; [destruct ps; reflexivity|].
  destruct ps as [|p0 [|p1 ps]]; try reflexivity.
  change (ivsum ?h (x0 :: x1 :: xs) (p0 :: p1 :: ps)) with (h x0 x1 p0 p1 + ivsum h (x1 :: xs) (p1 :: ps)).
  rewrite IH, E. reflexivity. Qed.

(** the contribution of one interval, summed over all entries d, is the trapezoid of that interval *)
Lemma interval_total n x0 x1 p0 p1 :
  let s := (p1 - p0) / (x1 - x0) in
  let c1 := (p0 - s * x0) / INR (n + 1) in
  rsum (map (fun d => c1 * (nth d (@beta_col R _ 1 n x1) 0 - nth d (beta_col 1 n x0) 0)
                      + s * INR (d + 1) / (INR (n + 1) * INR (n + 2)) * (nth d (@beta_col R _ 2 n x1) 0 - nth d (beta_col 2 n x0) 0))
            (seq 0 (S n)))
  = (x1 - x0) * (p1 + p0) / 2.
Proof. intros s c1.
  assert (H1 : INR (n + 1) <> 0) by (apply not_0_INR; lia).
  assert (H2 : INR (n + 2) <> 0) by (apply not_0_INR; lia).
  rewrite (rsum_map_ext _ (fun d => (c1 * nth d (beta_col 1 n x1) 0 - c1 * nth d (beta_col 1 n x0) 0)
       + (s / (INR (n + 1) * INR (n + 2)) * (INR (S d) * nth d (beta_col 2 n x1) 0)
          - s / (INR (n + 1) * INR (n + 2)) * (INR (S d) * nth d (beta_col 2 n x0) 0)))).
  2:{ intros d _. replace (INR (d + 1)) with (INR (S d)) by (f_equal; lia). clearbody s c1. field. split; assumption. }
  rewrite rsum_map_add, !rsum_map_sub, !rsum_map_scal, !beta1_sum, !beta2_sum.
  unfold ch2. rewrite !plus_INR in *. cbn [INR] in *.
  destruct (Req_dec x1 x0) as [->|Hx].
  - field. split; lra.
  - subst c1 s. rewrite !plus_INR. cbn [INR]. field. repeat split; lra. Qed.

(** [_from_phi_1D_analytic]: the spectrum entries sum to the trapezoid mass of phi on the (clipped) grid *)
Theorem analytic1D_total n (xx phi : list R) :
  rsum (analytic1D n xx phi) = trapz (map clip xx) phi.
Proof. unfold analytic1D, apoints. rewrite rsum_swap.
  rewrite (rsum_adj_points (fun x => (beta_col 1 n x, beta_col 2 n x)) _ (fun x0 x1 p0 p1 => (x1 - x0) * (p1 + p0) / 2)).
  - symmetry. apply trapz_ivsum.
  - intros x0 p0 x1 p1. unfold a_c1, a_s, a_db1, a_db2. numR. rewrite !nofnat_INR.
    rewrite <- (interval_total n x0 x1 p0 p1). apply rsum_map_ext. intros d _. rewrite nofnat_INR. reflexivity. Qed.

Lemma clip_id x : 0 <= x <= 1 -> @clip R _ x = x.
Proof. intros [H0 H1]. unfold clip, nmin, nmax. numR.
  destruct (Rleb x 0) eqn:E0.
  - apply Rleb_true in E0. assert (x = 0) by lra. subst. destruct (Rleb 0 1) eqn:E1; [reflexivity|]. apply Rleb_false in E1. lra.
  - destruct (Rleb x 1) eqn:E1; [reflexivity|]. apply Rleb_false in E1. lra. Qed.
Lemma map_clip_id xx : Forall (fun x => 0 <= x <= 1) xx -> map (@clip R _) xx = xx.
Proof. induction 1; cbn [map]; [reflexivity | rewrite clip_id, IHForall by assumption; reflexivity]. Qed.

(** one axis of the linalg paths, grid inside [0,1] *)
Theorem analytic_ax_total n (xx phi : list R) : Forall (fun x => 0 <= x <= 1) xx ->
  rsum (analytic_ax n xx phi) = trapz xx phi.
Proof. intros Hx. unfold analytic_ax. rewrite map_clip_id by assumption.
  rewrite (rsum_map_ext _ (fun d => rsum (map (fun iv => a_db1 d iv * a_c1 n iv
                 + a_db2 d iv * a_s iv * (nofnat (d + 1) / (nofnat (n + 1) * nofnat (n + 2))))
                 (adj (combine (combine xx phi) (map (fun x => (beta_col 1 n x, beta_col 2 n x)) xx)))))).
  2:{ intros d _. numR. rewrite rsum_map_add, rsum_map_scal_r. reflexivity. }
  rewrite rsum_swap.
  rewrite (rsum_adj_points (fun x => (beta_col 1 n x, beta_col 2 n x)) _ (fun x0 x1 p0 p1 => (x1 - x0) * (p1 + p0) / 2)).
  - symmetry. apply trapz_ivsum.
  - intros x0 p0 x1 p1. unfold a_c1, a_s, a_db1, a_db2. numR. rewrite !nofnat_INR.
    rewrite <- (interval_total n x0 x1 p0 p1). apply rsum_map_ext. intros d _. rewrite nofnat_INR.
    assert (H1 : INR (n + 1) <> 0) by (apply not_0_INR; lia).
    assert (H2 : INR (n + 2) <> 0) by (apply not_0_INR; lia).
    set (s := (p1 - p0) / (x1 - x0)). clearbody s. field. split; assumption. Qed.
