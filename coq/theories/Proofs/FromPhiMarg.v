(** C05: marginalising a population commutes with sampling: summing the spectrum over the first population's
    axis equals sampling from phi integrated (trapezoid) over that population's axis. *)
From Coq Require Import ZArith NArith Reals List Lra Lia Arith Bool.
From Dadi Require Import Base.Num Base.NumR Model.FromPhi Proofs.FromPhiBinom Proofs.FromPhiBase Proofs.FromPhiMass1D
  Proofs.FromPhiLin Proofs.FromPhiND Proofs.FromPhiPaths Proofs.FromPhiSums.
Import ListNotations.
Local Open Scope R_scope.

(** Spectrum.marginalize([0]) on the flat data: out[q] = sum_i fs[i*m' + q] *)
Definition sum_axis0 (m' nout : nat) (fs : list R) : list R :=
  map (fun q => rsum (map (fun i => nth (i * m' + q) fs 0) (seq 0 nout))) (seq 0 m').
(** PhiManip.remove_pop(phi, xx, 1): out[p] = trapz(phi[:, p], xx) *)
Definition trapz_axis0 (xx : list R) (m L : nat) (phi : list R) : list R :=
  map (fun p => trapz xx (map (fun l => nth (l * m + p) phi 0) (seq 0 L))) (seq 0 m).

Lemma trapz_linop xx L : linop L 1 (fun v => [@trapz R _ xx v]).
Proof. split.
  - reflexivity.
  - intros u v Hu Hv. rewrite trapz_add by lia. reflexivity.
  - intros a v Hv. rewrite trapz_scal. reflexivity. Qed.
Lemma trapz_weights xx L v : length v = L ->
  @trapz R _ xx v = rsum (map (fun l => trapz xx (unitv L l) * nth l v 0) (seq 0 L)).
Proof. intros Hv. pose proof (T_mat L 1 _ (trapz_linop xx L) v Hv) as E.
  apply (f_equal (fun l => nth 0 l 0)) in E. cbn [nth] in E. rewrite E, mat_apply_nth by lia. reflexivity. Qed.

Theorem marginalise_axis0 T nout ops' L rest xx phi :
  ops_ok ((T, nout) :: ops') (L :: rest) -> sums_to_trapz (T, nout) L xx -> length phi = prodl (L :: rest) ->
  sum_axis0 (outsize ops') nout (nd ((T, nout) :: ops') (L :: rest) phi)
  = nd ops' rest (trapz_axis0 xx (prodl rest) L phi).
Proof. intros Hok Hs Hphi. inversion Hok as [|? ? ? ? HT Hok']; subst. cbn [fst snd] in HT.
  rewrite (nd_is_kronecker _ _ Hok phi Hphi).
  rewrite (nd_is_kronecker _ _ Hok') by (unfold trapz_axis0; rewrite map_length, seq_length; reflexivity).
  cbn [Knd]. unfold outsize at 1 2. cbn [map snd prodl fold_right]. fold (prodl rest). fold (prodl (map snd ops')). fold (outsize ops').
  set (m := prodl rest). set (m' := outsize ops').
  unfold sum_axis0. unfold mat_apply at 2. apply map_ext_in. intros q Hq. apply in_seq in Hq.
  rewrite (rsum_map_ext _ (fun i => rsum (map (fun l => rsum (map (fun p => matof T L i l * (Knd ops' rest q p * nth (l * m + p) phi 0)) (seq 0 m))) (seq 0 L)))).
  2:{ intros i Hi. apply in_seq in Hi.
      assert (Hlt : (i * m' + q < nout * m')%nat).
      { apply Nat.lt_le_trans with (S i * m')%nat; [rewrite Nat.mul_succ_l; lia | apply Nat.mul_le_mono_r; lia]. }
      rewrite mat_apply_nth by exact Hlt. rewrite rsum_seq_mul.
      apply rsum_map_ext. intros l Hl. apply rsum_map_ext. intros p Hp. apply in_seq in Hp.
      replace ((i * m' + q) / m')%nat with i by (replace (i * m' + q)%nat with (q + i * m')%nat by lia; rewrite Nat.div_add by lia; rewrite Nat.div_small by lia; reflexivity).
      replace ((i * m' + q) mod m')%nat with q by (replace (i * m' + q)%nat with (q + i * m')%nat by lia; rewrite Nat.mod_add by lia; rewrite Nat.mod_small by lia; reflexivity).
      replace ((l * m + p) / m)%nat with l by (replace (l * m + p)%nat with (p + l * m)%nat by lia; rewrite Nat.div_add by lia; rewrite Nat.div_small by lia; reflexivity).
      replace ((l * m + p) mod m)%nat with p by (replace (l * m + p)%nat with (p + l * m)%nat by lia; rewrite Nat.mod_add by lia; rewrite Nat.mod_small by lia; reflexivity).
      ring. }
  rewrite rsum_swap.
  rewrite (rsum_map_ext _ (fun l => rsum (map (fun p => trapz xx (unitv L l) * (Knd ops' rest q p * nth (l * m + p) phi 0)) (seq 0 m)))).
  2:{ intros l Hl. rewrite rsum_swap. apply rsum_map_ext. intros p Hp.
      rewrite rsum_map_scal_r. f_equal. unfold matof.
      rewrite <- (Hs (unitv L l)) by apply unitv_length. cbn [fst]. rewrite (rsum_nth (T (unitv L l))), (lo_len _ _ _ HT) by apply unitv_length. reflexivity. }
  rewrite rsum_swap. apply rsum_map_ext. intros p Hp. apply in_seq in Hp.
  unfold trapz_axis0. rewrite nth_map_seq by lia.
  rewrite (trapz_weights xx L) by (rewrite map_length, seq_length; reflexivity).
  rewrite <- rsum_map_scal. apply rsum_map_ext. intros l Hl. apply in_seq in Hl. rewrite nth_map_seq by lia. ring. Qed.
