(** Finite integer sums over an initial segment of nat, used as the interface between the MathComp
    binomial identities (Proofs/ProjBinom.v) and the stdlib-style files. *)
From Coq Require Import ZArith Lia.
Local Open Scope Z_scope.

(** zsum f n = f 0 + ... + f (n-1) *)
Fixpoint zsum (f : nat -> Z) (n : nat) : Z :=
  match n with O => 0 | S k => zsum f k + f k end.

Lemma zsum_ext f g n : (forall i, (i < n)%nat -> f i = g i) -> zsum f n = zsum g n.
Proof. induction n; cbn; intros E; [reflexivity|]. rewrite IHn, E by (intros; try apply E; lia). reflexivity. Qed.

Lemma zsum_zero f n : (forall i, (i < n)%nat -> f i = 0) -> zsum f n = 0.
Proof. induction n; cbn; intros E; [reflexivity|]. rewrite IHn, E by (intros; try apply E; lia). reflexivity. Qed.

(** terms beyond L vanish: the upper bound can be moved freely above L *)
Lemma zsum_trunc f L n : (L <= n)%nat -> (forall i, (L <= i)%nat -> f i = 0) -> zsum f n = zsum f L.
Proof. intros Hle Hz. induction Hle; [reflexivity|]. cbn. rewrite IHHle, Hz by lia. lia. Qed.

Lemma zsum_shift f k n : zsum f (k + n) = zsum f k + zsum (fun t => f (k + t)%nat) n.
Proof. induction n; cbn. - rewrite Nat.add_0_r; lia. - rewrite Nat.add_succ_r; cbn. rewrite IHn; lia. Qed.

Lemma zsum_scal c f n : zsum (fun i => c * f i) n = c * zsum f n.
Proof. induction n; cbn; [lia|]. rewrite IHn; lia. Qed.
